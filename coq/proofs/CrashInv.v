(* CrashInv.v -- crash atomicity, infrastructure (G0) and the memory-less on-disk invariant (G1).

   The process-kill model: a crash stops the process between two effective filesystem calls.
   In a fault-free world every recorded event is [TCall c] of a call that succeeded, so the
   filesystem after the first n calls of a run is the replay of the first n recorded calls.

   K1  replay_calls, [Along] (every intermediate filesystem of a run satisfies P), [Runs]
       (the replay of the whole new trace is the final filesystem: replay_trace) and their
       conjunction [Walk]; composition, weakening, the single call
   K2  a structural program logic [WalkM P m]: m walks inside P from every P-state, provided
       every call it issues keeps P ([call_keeps]); rules for ret / bind / do_call and the
       loops of the store (mkdir_p, unlink_all, prune_below, delete_blobs)
   K3  the exact effect of every call on the data view [fdat] of a filesystem
   K4  the invariant:  RestP (parameters explicit), RestF (first-time initialisation pending),
       Rest (memory-less; THE definition of G1), the weak handle invariant Inv' (see the remark
       at [DiskOk']), rest_of_inv
   K5  what Rest does not look at: agreement lemmas, the calls that keep it (scratch files,
       directories, syncs, staging writes, unreferenced blobs), dropped stale segments (V_drop),
       and RestB = Rest with a bound on the next version (for whole histories) *)
From Cas Require Import History.
From CasProofs Require Import BaseProofs CodecBase CodecProofs SMapProofs IndexProofs
  StoreFS StoreInv StoreWrite StoreRead StoreHist DiskInv Recover.
From Coq Require Import ZifyBool ZifyNat ZifyN.
Open Scope N_scope.

Arguments N.add : simpl never.
Arguments N.sub : simpl never.
Arguments N.mul : simpl never.
Arguments N.div : simpl never.
Arguments N.modulo : simpl never.
Arguments N.eqb : simpl never.
Arguments N.ltb : simpl never.
Arguments N.leb : simpl never.
Arguments N.pow : simpl never.
Arguments N.max : simpl never.

(* ------------------------------------------------------------------ *)
(* K1. Along / Runs / Walk                                             *)
(* ------------------------------------------------------------------ *)
Lemma replay_calls_app : forall a b s,
  replay_calls (a ++ b) s = replay_calls b (replay_calls a s).
Proof.
  induction a as [|e a IH]; intros b s; cbn [app replay_calls]; [reflexivity|].
  destruct e as [c|c]; [|apply IH]. destruct (apply_call c s); apply IH.
Qed.

(* every intermediate filesystem of the run from w to w' satisfies P *)
Definition Along (P : fs -> Prop) (w w' : world) : Prop :=
  wfault w' = None /\ exists tr, wtrace w' = tr ++ wtrace w /\
  forall n, (n <= length tr)%nat -> P (replay_calls (firstn n (rev tr)) (wfs w)).

(* the recorded trace is faithful: replaying all of it gives the final filesystem *)
Definition Runs (w w' : world) : Prop :=
  wfault w' = None /\ exists tr, wtrace w' = tr ++ wtrace w /\
  replay_calls (rev tr) (wfs w) = wfs w'.

Definition Walk (P : fs -> Prop) (w w' : world) : Prop :=
  wfault w' = None /\ exists tr, wtrace w' = tr ++ wtrace w /\
  replay_calls (rev tr) (wfs w) = wfs w' /\
  forall n, (n <= length tr)%nat -> P (replay_calls (firstn n (rev tr)) (wfs w)).

Lemma walk_along : forall P w w', Walk P w w' -> Along P w w'.
Proof. intros P w w' (F & tr & E & _ & A). split; [exact F|]. now exists tr. Qed.

Lemma walk_runs : forall P w w', Walk P w w' -> Runs w w'.
Proof. intros P w w' (F & tr & E & R & _). split; [exact F|]. now exists tr. Qed.

Lemma walk_fault : forall P w w', Walk P w w' -> wfault w' = None.
Proof. intros P w w' (F & _). exact F. Qed.

(* the task's [replay_trace], for worlds related by a walk *)
Lemma replay_trace : forall P w w' tr, Walk P w w' -> wtrace w' = tr ++ wtrace w ->
  replay_calls (rev tr) (wfs w) = wfs w'.
Proof.
  intros P w w' tr (_ & tr' & E & R & _) E'. rewrite E in E'. apply app_inv_tail in E'.
  now subst tr'.
Qed.

Lemma walk_start : forall P w w', Walk P w w' -> P (wfs w).
Proof. intros P w w' (_ & tr & _ & _ & A). apply (A 0%nat). lia. Qed.

Lemma walk_end : forall P w w', Walk P w w' -> P (wfs w').
Proof.
  intros P w w' (_ & tr & _ & R & A). rewrite <- R.
  specialize (A (length tr) (Nat.le_refl _)). rewrite <- rev_length, firstn_all in A. exact A.
Qed.

Lemma walk_refl : forall (P : fs -> Prop) w, wfault w = None -> P (wfs w) -> Walk P w w.
Proof.
  intros P w F X. split; [exact F|]. exists []. split; [reflexivity|]. split; [reflexivity|].
  intros n _. cbn [rev]. now rewrite firstn_nil.
Qed.

Lemma walk_trans : forall P w1 w2 w3, Walk P w1 w2 -> Walk P w2 w3 -> Walk P w1 w3.
Proof.
  intros P w1 w2 w3 (F1 & t1 & E1 & R1 & A1) (F2 & t2 & E2 & R2 & A2). split; [exact F2|].
  exists (t2 ++ t1). split; [rewrite E2, E1; apply app_assoc|].
  rewrite rev_app_distr. split.
  - now rewrite replay_calls_app, R1.
  - intros n Ln. rewrite firstn_app, replay_calls_app, rev_length.
    destruct (Nat.le_gt_cases n (length t1)) as [L|L].
    + replace (n - length t1)%nat with 0%nat by lia. cbn [firstn replay_calls]. now apply A1.
    + rewrite (firstn_all2 (rev t1)) by (rewrite rev_length; lia). rewrite R1. apply A2.
      rewrite app_length in Ln. lia.
Qed.

Lemma walk_weaken : forall (P Q : fs -> Prop) w w', (forall x, P x -> Q x) ->
  Walk P w w' -> Walk Q w w'.
Proof.
  intros P Q w w' I (F & tr & E & R & A). split; [exact F|]. exists tr.
  split; [exact E|]. split; [exact R|]. intros n Ln. apply I, A, Ln.
Qed.

Lemma along_weaken : forall (P Q : fs -> Prop) w w', (forall x, P x -> Q x) ->
  Along P w w' -> Along Q w w'.
Proof.
  intros P Q w w' I (F & tr & E & A). split; [exact F|]. exists tr.
  split; [exact E|]. intros n Ln. apply I, A, Ln.
Qed.

Lemma along_refl : forall (P : fs -> Prop) w, wfault w = None -> P (wfs w) -> Along P w w.
Proof. intros. now apply (walk_along P), walk_refl. Qed.

(* composition of Along needs the faithful trace of the first part *)
Lemma along_trans : forall P w1 w2 w3, Runs w1 w2 -> Along P w1 w2 -> Along P w2 w3 ->
  Along P w1 w3.
Proof.
  intros P w1 w2 w3 (F1 & t1 & E1 & R1) (_ & t1' & E1' & A1) (F2 & t2 & E2 & A2).
  rewrite E1 in E1'. apply app_inv_tail in E1'. subst t1'. split; [exact F2|].
  exists (t2 ++ t1). split; [rewrite E2, E1; apply app_assoc|].
  rewrite rev_app_distr. intros n Ln. rewrite firstn_app, replay_calls_app, rev_length.
  destruct (Nat.le_gt_cases n (length t1)) as [L|L].
  - replace (n - length t1)%nat with 0%nat by lia. cbn [firstn replay_calls]. now apply A1.
  - rewrite (firstn_all2 (rev t1)) by (rewrite rev_length; lia). rewrite R1. apply A2.
    rewrite app_length in Ln. lia.
Qed.

(* one call: P before and P after *)
Lemma walk_call : forall (P : fs -> Prop) c w r w', wfault w = None ->
  do_call c w = (r, w') -> P (wfs w) -> P (wfs w') -> Walk P w w'.
Proof.
  intros P c w r w' F E X X'. unfold do_call in E.
  destruct (apply_call c (wfs w)) as [s'|e] eqn:Ea.
  - rewrite F in E. inversion E; subst r w'. cbn [wfs] in X'.
    split; [reflexivity|]. exists [TCall c]. split; [reflexivity|].
    cbn [rev app replay_calls wfs]. rewrite Ea. split; [reflexivity|].
    intros [|[|n]] Ln; cbn [firstn replay_calls length] in *; [exact X| |lia].
    rewrite Ea. exact X'.
  - inversion E; subst r w'. now apply walk_refl.
Qed.

(* a successful do_call really applied the call (any fault plan) *)
Lemma do_call_ok_apply : forall c w u w', do_call c w = (Ok u, w') ->
  apply_call c (wfs w) = Ok (wfs w').
Proof.
  intros c w u w'. unfold do_call. destruct (apply_call c (wfs w)) as [s'|e]; [|discriminate].
  destruct (wfault w) as [n|]; [destruct (Nat.eqb n (wcount w))|]; intros E; inversion E;
    reflexivity.
Qed.

(* the call c keeps the filesystem predicate P (same notion as in WorldRel.v, restated here so
   that this file does not depend on it) *)
Definition call_keeps (P : fs -> Prop) (c : call) : Prop :=
  forall s s', P s -> apply_call c s = Ok s' -> P s'.

(* ------------------------------------------------------------------ *)
(* K2. the structural logic                                            *)
(* ------------------------------------------------------------------ *)
Definition WalkM (P : fs -> Prop) {A} (m : M A) : Prop :=
  forall w, wfault w = None -> P (wfs w) -> Walk P w (snd (m w)).

Lemma walkm_ret : forall P {A} (a : A), WalkM P (ret a).
Proof. intros P A a w F X. now apply walk_refl. Qed.

Lemma walkm_bind : forall P {A B} (m : M A) (f : A -> M B),
  WalkM P m -> (forall a, WalkM P (f a)) -> WalkM P (bind m f).
Proof.
  intros P A B m f Hm Hf w F X. unfold bind. specialize (Hm w F X).
  destruct (m w) as [a w1]. cbn [snd] in Hm.
  eapply walk_trans; [exact Hm|]. apply Hf; [exact (walk_fault _ _ _ Hm)|exact (walk_end _ _ _ Hm)].
Qed.

Lemma walkm_do_call : forall P c, call_keeps P c -> WalkM P (do_call c).
Proof.
  intros P c K w F X. destruct (do_call c w) as [r w'] eqn:E. cbn [snd].
  eapply walk_call; [exact F|exact E|exact X|].
  unfold do_call in E. destruct (apply_call c (wfs w)) as [s'|e] eqn:Ea.
  - rewrite F in E. inversion E; subst. cbn [wfs]. exact (K _ _ X Ea).
  - inversion E; subst. exact X.
Qed.

Lemma walkm_get_fs : forall P, WalkM P get_fs.
Proof. intros P w F X. now apply walk_refl. Qed.

Lemma walkm_read_file : forall P p, WalkM P (read_file p).
Proof. intros P p w F X. now apply walk_refl. Qed.

Lemma walkm_weaken_run : forall (P : fs -> Prop) {A} (m : M A) w a w',
  WalkM P m -> wfault w = None -> P (wfs w) -> m w = (a, w') -> Walk P w w'.
Proof. intros P A m w a w' Hm F X E. specialize (Hm w F X). now rewrite E in Hm. Qed.

Create HintDb walkm.
#[export] Hint Resolve walkm_get_fs walkm_read_file : walkm.

(* [walkm leaf]: structural decomposition; [leaf] discharges the side condition of do_call *)
Ltac walkm leaf :=
  repeat (cbv beta iota zeta;
          first
            [ solve [auto with walkm]
            | lazymatch goal with
              | |- forall _, _ => intro
              | |- WalkM _ (ret _) => apply walkm_ret
              | |- WalkM _ (bind _ _) => apply walkm_bind
              | |- WalkM _ (do_call _) => apply walkm_do_call; solve [leaf]
              | |- WalkM _ (match ?x with _ => _ end) => destruct x
              end ]).

Section WalkLoops.
  Variable P : fs -> Prop.

  Lemma walkm_mkdir_p : forall d, call_keeps P (CMkdir d) -> WalkM P (mkdir_p d).
  Proof. intros d K. unfold mkdir_p. walkm ltac:(exact K). Qed.

  Lemma walkm_mkdir_cas2 : forall a b, (forall d, call_keeps P (CMkdir d)) ->
    WalkM P (mkdir_cas2 a b).
  Proof.
    intros a b K. unfold mkdir_cas2. apply walkm_bind; [apply walkm_mkdir_p, K|].
    intros [u|e]; [apply walkm_mkdir_p, K|apply walkm_ret].
  Qed.

  Lemma walkm_mkdirs_pre : forall ds, (forall d, call_keeps P (CMkdir d)) ->
    WalkM P (mkdirs_pre ds).
  Proof.
    intros ds K. induction ds as [|[i j] ds IH]; cbn [mkdirs_pre]; [apply walkm_ret|].
    apply walkm_bind; [apply walkm_mkdir_cas2, K|]. intros [u|e]; [exact IH|apply walkm_ret].
  Qed.

  Lemma walkm_unlink_all : forall ps, (forall p, In p ps -> call_keeps P (CUnlink p)) ->
    WalkM P (unlink_all ps).
  Proof.
    induction ps as [|p ps IH]; intros K; cbn [unlink_all]; [apply walkm_ret|].
    apply walkm_bind; [apply walkm_do_call, K; now left|].
    intros [u|e]; [apply IH; intros q Iq; apply K; now right|apply walkm_ret].
  Qed.

  Lemma walkm_prune_below : forall b, (forall i, i < b -> call_keeps P (CUnlink (PWal i))) ->
    WalkM P (prune_below b).
  Proof.
    intros b K. unfold prune_below. apply walkm_bind; [apply walkm_get_fs|]. intros s.
    apply walkm_bind; [|intros; apply walkm_ret]. apply walkm_unlink_all.
    intros p Ip. apply in_map_iff in Ip. destruct Ip as (i & <- & Ii).
    apply filter_In in Ii. apply K. lia.
  Qed.

  Lemma walkm_delete_blobs : forall hs,
    (forall h, In h hs -> call_keeps P (CUnlink (cas_path h))) -> WalkM P (delete_blobs hs).
  Proof.
    induction hs as [|h hs IH]; intros K; cbn [delete_blobs]; [apply walkm_ret|].
    apply walkm_bind; [apply walkm_do_call, K; now left|].
    assert (X : WalkM P (delete_blobs hs)) by (apply IH; intros q Iq; apply K; now right).
    intros [u|[| |]]; try exact X; apply walkm_ret.
  Qed.
End WalkLoops.

(* ------------------------------------------------------------------ *)
(* K3. the effect of a call on the data view                           *)
(* ------------------------------------------------------------------ *)
Lemma fdat_files : forall s s', files s' = files s -> forall q, fdat s' q = fdat s q.
Proof. intros s s' E q. unfold fdat, fget. now rewrite E. Qed.

Lemma fdat_ren : forall s p q f r, FsWf s ->
  fdat (ren s p q f) r = vset (vset (fdat s) p None) q (Some (fdata f)) r.
Proof.
  intros s p q f r W. unfold vset at 1. destruct (path_eqb_spec r q) as [->|N].
  - unfold fdat. now rewrite fget_ren, path_eqb_refl.
  - unfold fdat at 1. rewrite fget_ren, path_eqb_neq by exact N.
    change (option_map fdata (fget (del s p) r)) with (fdat (del s p) r). now apply fdat_del.
Qed.

Definition same_meta (x x' : fs) : Prop := dirs x' = dirs x /\ nstage x' = nstage x.

Lemma apply_call_view : forall c x x', FsWf x -> apply_call c x = Ok x' ->
  FsWf x' /\ (forall d, In d (dirs x) -> In d (dirs x')) /\
  match c with
  | CMkdir _ => nstage x' = nstage x /\ forall q, fdat x' q = fdat x q
  | CCreate p => same_meta x x' /\ forall q, fdat x' q = vset (fdat x) p (Some []) q
  | CCreateExcl p =>
    dirs x' = dirs x /\ fdat x p = None /\
    nstage x' = (match p with PStaging _ => nstage x + 1 | _ => nstage x end) /\
    forall q, fdat x' q = vset (fdat x) p (Some []) q
  | COpenAppend p =>
    same_meta x x' /\
    forall q, fdat x' q = match fdat x p with
                          | Some _ => fdat x q
                          | None => vset (fdat x) p (Some []) q
                          end
  | CAppend p b =>
    same_meta x x' /\ exists d, fdat x p = Some d /\
                                forall q, fdat x' q = vset (fdat x) p (Some (d ++ b)) q
  | CSync p => same_meta x x' /\ forall q, fdat x' q = fdat x q
  | CRename p q =>
    same_meta x x' /\ exists d, fdat x p = Some d /\
      forall r, fdat x' r = vset (vset (fdat x) p None) q (Some d) r
  | CUnlink p => same_meta x x' /\ fdat x p <> None /\
                 forall q, fdat x' q = vset (fdat x) p None q
  end.
Proof.
  intros c x x' W E. split; [eapply apply_call_wf; eassumption|].
  destruct c; cbn [apply_call] in E.
  - destruct (has_dir x d); [discriminate|].
    assert (X : x' = mkFs (files x) (dirs x ++ [d]) (nstage x)).
    { destruct (removelast d); [|destruct (has_dir x _)]; inversion E; reflexivity. }
    subst x'. cbn [dirs nstage]. split; [intros d' I'; apply in_or_app; now left|].
    split; [reflexivity|]. intros q. now apply fdat_files.
  - destruct (parent_ok x p); inversion E; subst x'. split; [auto|]. split; [now split|].
    intros q. apply (fdat_upd x p (mkFile [] 0) q).
  - destruct (parent_ok x p); [|discriminate]. destruct (fget x p) eqn:G; inversion E; subst x'.
    cbn [dirs nstage]. split; [auto|]. split; [reflexivity|].
    split; [now apply fdat_none|]. split; [reflexivity|]. intros q.
    transitivity (fdat (upd x p (mkFile [] 0)) q); [now apply fdat_files|].
    apply (fdat_upd x p (mkFile [] 0) q).
  - destruct (parent_ok x p); [|discriminate]. split; [|split].
    + destruct (fget x p); inversion E; subst x'; auto.
    + destruct (fget x p); inversion E; subst x'; now split.
    + intros q. unfold fdat at 2. destruct (fget x p) eqn:G; inversion E; subst x'; cbn [option_map].
      * reflexivity.
      * apply (fdat_upd x p (mkFile [] 0) q).
  - destruct (fget x p) as [f|] eqn:G; inversion E; subst x'. split; [auto|]. split; [now split|].
    exists (fdata f). split; [apply fdat_some; now exists f|]. intros q.
    apply (fdat_upd x p (mkFile (fdata f ++ b) (fsynced f)) q).
  - destruct (fget x p) as [f|] eqn:G; inversion E; subst x'. split; [auto|]. split; [now split|].
    intros q. change (fdat (upd x p (mkFile (fdata f) (length (fdata f)))) q = fdat x q).
    rewrite fdat_upd. unfold vset.
    destruct (path_eqb_spec q p) as [->|N]; [|reflexivity]. cbn [fdata]. symmetry.
    apply fdat_some. now exists f.
  - destruct (fget x p) as [f|] eqn:G; [|discriminate].
    destruct (parent_ok x q); inversion E; subst x'. split; [auto|]. split; [now split|].
    exists (fdata f). split; [apply fdat_some; now exists f|]. intros r.
    now apply (fdat_ren x p q f r).
  - destruct (fget x p) as [f|] eqn:G; inversion E; subst x'. split; [auto|]. split; [now split|].
    split; [intros X; apply fdat_none in X; congruence|]. intros q. now apply (fdat_del x p q).
Qed.

Lemma eff_same : forall w w', Eff w w' -> same_meta (wfs w) (wfs w').
Proof. intros w w' (_ & _ & D & N). now split. Qed.

(* ------------------------------------------------------------------ *)
(* K4. the invariant                                                   *)
(* ------------------------------------------------------------------ *)
Definition scratch (p : path) : Prop :=
  match p with PLock | PIndexTmp | PSettingsTmp => True | _ => False end.

Section CrashInv.
  Variable H : bytes -> bytes.
  Hypothesis H_len : forall b, length (H b) = 32%nat.
  Hypothesis H_byte : forall b, Forall (fun x => x < 256) (H b).
  Variable cfg : config.
  Hypothesis n_pos : 0 < c_n cfg.
  Let cmp := key_cmp (c_kt cfg).

  Local Notation KX L :=
    (L cmp (key_cmp_refl _) (key_cmp_eq _) (key_cmp_antisym _) (key_cmp_trans _)) (only parsing).
  Local Notation item_of := (item_of H).
  Local Notation km_of := (km_of H).
  Local Notation NoCollide := (NoCollide H).
  Local Notation Live0 := (Live0 H cfg).
  Local Notation seg_of := (seg_of cfg).
  Local Notation DiskW := (DiskW H cfg).
  Local Notation DiskOkW := (DiskOkW H cfg).
  Local Notation DiskOk := (DiskOk H cfg).
  Local Notation Inv := (Inv H cfg).

  (* no staging file at or above the (ghost) staging counter *)
  Definition stage_fresh (x : fs) : Prop := forall i, nstage x <= i -> fdat x (PStaging i) = None.
  (* every content of the abstract map has its blob, with its bytes *)
  Definition cas_has (sg : smap bytes) (x : fs) : Prop :=
    forall k c, In (k, c) sg -> fdat x (cas_path (H c)) = Some c.
  (* a settings file that promises the fan-out directories is right (for well-formed hashes:
     bytes < 256, as in StoreInv.dirs_ok; satisfiable: PreCreate.pre_dirs_after_fresh_open) *)
  Definition pre_dirs (pre : bool) (x : fs) : Prop :=
    pre = true -> forall h, length h = 32%nat -> Forall (fun b => b < 256) h ->
                  parent_ok x (cas_path h) = true.

  Definition Aux (pre : bool) (sg : smap bytes) (x : fs) : Prop :=
    FsWf x /\ stage_fresh x /\ pre_dirs pre x /\ cas_has sg x.

  (* an initialised directory: snapshot version c, next version nv, seal bound sb, stored
     pre-creation flag pre -- the DiskW view of DiskInv.v plus the CAS part *)
  Definition RestP (c nv sb : N) (pre : bool) (sg : smap bytes) (x : fs) : Prop :=
    Aux pre sg x /\ DiskOkW c nv sb pre (fdat x) sg.

  (* first-time initialisation not finished: no settings file yet (then there is no snapshot
     and no segment either, the map is empty and open initialises again).  Either choice of
     pre_create_cas_dirs: nothing is said about the directories, so with c_pre cfg = true ANY
     part of the fan-out tree under cas/ may exist already (the first open was killed in the
     middle of the mkdir loop: the settings file is written only after the loop, and the next
     open runs the loop again, skipping what exists).  The settings file stores
     num_ops_per_wal as a u64 *)
  Definition RestF (sg : smap bytes) (x : fs) : Prop :=
    sg = [] /\ c_n cfg < 2 ^ 64 /\ FsWf x /\ stage_fresh x /\
    fdat x PSettings = None /\ fdat x PIndex = None /\ forall i, fdat x (PWal i) = None.

  (* THE memory-less invariant: recovery from x yields exactly sg.  The seal bound is the
     segment of the NEXT version: the last segment may be sealed already (crash between the
     seal and the first append to the next segment).  Leftovers are tolerated: unreferenced
     blobs, staging files below the counter, index.tmp, db_settings.json.tmp, the lock file,
     stale segments (they are ordinary members of the DiskW view), a sealed or unsealed last
     segment, an empty or missing next segment. *)
  Definition Rest (x : fs) (sg : smap bytes) : Prop :=
    sorted cmp sg /\ NoCollide (map snd sg) /\
    ((exists c nv pre, RestP c nv (seg_of nv) pre sg x) \/ RestF sg x).

  (* The handle invariant that recovery re-establishes.  [DiskOk] of DiskInv.v demands that
     no segment at or above the segment of the LAST WRITTEN version is sealed.  That is false
     after a crash between the seal of a full segment and the first append to the next one,
     and stays false after the recovery from it (recovery does not unseal).  What holds, and
     what every operation needs, is: a handle WITHOUT an active writer (fresh from open) has
     no sealed segment at or above the segment of the NEXT version; a handle with an active
     writer satisfies the strict [DiskOk]. *)
  Definition DiskOk' (m : mem) (s : fs) (sg : smap bytes) : Prop :=
    DiskOkW (lpv (idx m)) (nextv (mwal m))
            (match writer (mwal m) with
             | None => seg_of (nextv (mwal m))
             | Some _ => seg_of (nextv (mwal m) - 1)
             end) (mpre m) (fdat s) sg.
  Definition Inv' (m : mem) (s : fs) (sg : smap bytes) : Prop :=
    Live0 m s sg /\ DiskOk' m s sg /\ FsWf s.

  Lemma seg_of_pred_le : forall nv, seg_of (nv - 1) <= seg_of nv.
  Proof. intros nv. apply (seg_of_mono cfg n_pos). lia. Qed.

  Lemma inv_inv' : forall m s sg, Inv m s sg -> Inv' m s sg.
  Proof.
    intros m s sg (L & D & W). split; [exact L|]. split; [|exact W]. unfold DiskOk'.
    destruct (writer (mwal m)); [exact D|].
    eapply (DiskOkW_weaken_sb H H_len H_byte cfg n_pos); [|exact D]. apply seg_of_pred_le.
  Qed.

  (* with an active writer (i.e. after any logging operation) the strict invariant holds *)
  Lemma inv'_inv : forall m s sg, Inv' m s sg -> writer (mwal m) <> None -> Inv m s sg.
  Proof.
    intros m s sg (L & D & W) Wr. split; [exact L|]. split; [|exact W].
    unfold DiskOk' in D. destruct (writer (mwal m)); [exact D|contradiction].
  Qed.

  Lemma diskok'_weak : forall m s sg, DiskOk' m s sg ->
    DiskOkW (lpv (idx m)) (nextv (mwal m)) (seg_of (nextv (mwal m))) (mpre m) (fdat s) sg.
  Proof.
    intros m s sg D. unfold DiskOk' in D. destruct (writer (mwal m)); [|exact D].
    eapply (DiskOkW_weaken_sb H H_len H_byte cfg n_pos); [|exact D]. apply seg_of_pred_le.
  Qed.

  Lemma live_aux : forall m s sg, Live0 m s sg -> FsWf s -> Aux (mpre m) sg s.
  Proof.
    intros m s sg [_ _ _ _ Hcas Hst (_ & _ & D3) _] W. split; [exact W|]. split; [|split].
    - intros i Li. apply fdat_none. now apply Hst.
    - exact D3.
    - intros k c Ik. destruct (Hcas k c Ik) as (f & G & Df). apply fdat_some. now exists f.
  Qed.

  Lemma rest_of_inv' : forall m s sg, Inv' m s sg -> Rest s sg.
  Proof.
    intros m s sg (L & D & W). split; [exact (lv_sorted _ _ _ _ _ L)|].
    split; [exact (lv_nocollide _ _ _ _ _ L)|]. left.
    exists (lpv (idx m)), (nextv (mwal m)), (mpre m). split; [now apply live_aux|].
    now apply diskok'_weak.
  Qed.

  (* G1: the invariant of an open handle implies the memory-less invariant *)
  Theorem rest_of_inv : forall m s sg, Inv m s sg -> Rest s sg.
  Proof. intros m s sg IV. eapply rest_of_inv', inv_inv', IV. Qed.

  Lemma restp_rest : forall c nv sb pre sg x, sorted cmp sg -> NoCollide (map snd sg) ->
    sb <= seg_of nv -> RestP c nv sb pre sg x -> Rest x sg.
  Proof.
    intros c nv sb pre sg x Ss Nc L [A D]. split; [exact Ss|]. split; [exact Nc|]. left.
    exists c, nv, pre. split; [exact A|]. eapply (DiskOkW_weaken_sb H H_len H_byte cfg n_pos); eassumption.
  Qed.

  Lemma rest_wf : forall x sg, Rest x sg -> FsWf x.
  Proof. intros x sg (_ & _ & [(c & nv & pre & (W & _) & _)|(_ & _ & W & _)]); exact W. Qed.

  (* ---------------------------------------------------------------- *)
  (* K5. what the invariant does not look at                           *)
  (* ---------------------------------------------------------------- *)
  Lemma pre_dirs_mono : forall pre x x', (forall d, In d (dirs x) -> In d (dirs x')) ->
    pre_dirs pre x -> pre_dirs pre x'.
  Proof.
    intros pre x x' Di P E h Lh Bh. specialize (P E h Lh Bh). unfold parent_ok in *.
    destruct (parent_dir (cas_path h)); [|reflexivity]. apply has_dir_iff, Di, has_dir_iff, P.
  Qed.

  Lemma aux_agree : forall pre sg x x', Aux pre sg x -> FsWf x' -> stage_fresh x' ->
    (forall d, In d (dirs x) -> In d (dirs x')) ->
    (forall k c, In (k, c) sg -> fdat x' (cas_path (H c)) = fdat x (cas_path (H c))) ->
    Aux pre sg x'.
  Proof.
    intros pre sg x x' (_ & _ & P & C) W' S' Di Ca. split; [exact W'|]. split; [exact S'|].
    split; [eapply pre_dirs_mono; eassumption|]. intros k c Ik. rewrite (Ca k c Ik). now apply (C k).
  Qed.

  Definition meta_agree (x x' : fs) : Prop :=
    fdat x' PSettings = fdat x PSettings /\ fdat x' PIndex = fdat x PIndex /\
    forall i, fdat x' (PWal i) = fdat x (PWal i).

  Lemma restp_agree : forall c nv sb pre sg x x', RestP c nv sb pre sg x ->
    FsWf x' -> stage_fresh x' -> (forall d, In d (dirs x) -> In d (dirs x')) ->
    meta_agree x x' ->
    (forall k c, In (k, c) sg -> fdat x' (cas_path (H c)) = fdat x (cas_path (H c))) ->
    RestP c nv sb pre sg x'.
  Proof.
    intros c nv sb pre sg x x' [A D] W' S' Di (M1 & M2 & M3) Ca.
    split; [eapply aux_agree; eassumption|]. eapply (DiskOkW_ext H cfg); eassumption.
  Qed.

  Lemma restf_agree : forall sg x x', RestF sg x -> FsWf x' -> stage_fresh x' ->
    meta_agree x x' -> RestF sg x'.
  Proof.
    intros sg x x' (E & Nf & _ & _ & G1 & G2 & G3) W' S' (M1 & M2 & M3).
    repeat (split; [assumption|]). split; [now rewrite M1|]. split; [now rewrite M2|].
    intros i. now rewrite M3.
  Qed.

  Lemma rest_agree : forall sg x x', Rest x sg ->
    FsWf x' -> stage_fresh x' -> (forall d, In d (dirs x) -> In d (dirs x')) ->
    meta_agree x x' ->
    (forall k c, In (k, c) sg -> fdat x' (cas_path (H c)) = fdat x (cas_path (H c))) ->
    Rest x' sg.
  Proof.
    intros sg x x' (Ss & Nc & [(c & nv & pre & R)|R]) W' S' Di M Ca.
    - split; [exact Ss|]. split; [exact Nc|]. left. exists c, nv, pre.
      eapply restp_agree; eassumption.
    - split; [exact Ss|]. split; [exact Nc|]. right. eapply restf_agree; eassumption.
  Qed.

  (* the calls every state of the invariant tolerates: directories, syncs, anything on the
     scratch files (lock, index.tmp, settings.tmp), writes to and removal of staging files,
     removal of blobs the map does not reference *)
  Definition unref (sg : smap bytes) (p : path) : Prop :=
    forall k c, In (k, c) sg -> cas_path (H c) <> p.
  Definition harmless (sg : smap bytes) (c : call) : Prop :=
    match c with
    | CMkdir _ | CSync _ => True
    | CCreate p | COpenAppend p | CCreateExcl p => scratch p
    | CAppend p _ => scratch p \/ is_staging p
    | CUnlink p => scratch p \/ is_staging p \/ (is_cas p /\ unref sg p)
    | CRename p q => scratch p /\ scratch q
    end.

  Lemma scratch_not_meta : forall p, scratch p ->
    p <> PSettings /\ p <> PIndex /\ (forall i, p <> PWal i) /\ (forall i, p <> PStaging i) /\
    (forall l, p <> PCas l).
  Proof. intros [] X; try contradiction; repeat split; intros; discriminate. Qed.

  Lemma harmless_agree : forall sg c x x', harmless sg c -> FsWf x -> stage_fresh x ->
    apply_call c x = Ok x' ->
    FsWf x' /\ stage_fresh x' /\ (forall d, In d (dirs x) -> In d (dirs x')) /\
    meta_agree x x' /\
    (forall k c0, In (k, c0) sg -> fdat x' (cas_path (H c0)) = fdat x (cas_path (H c0))).
  Proof.
    intros sg c x x' Hh W Sf E. destruct (apply_call_view c x x' W E) as (W' & Di & V).
    split; [exact W'|].
    assert (Gen : forall (T : path -> Prop),
              nstage x' = nstage x ->
              (forall q, ~ T q -> fdat x' q = fdat x q) ->
              (forall i, fdat x (PStaging i) = None -> fdat x' (PStaging i) = None) ->
              ~ T PSettings -> ~ T PIndex -> (forall i, ~ T (PWal i)) ->
              (forall k c0, In (k, c0) sg -> ~ T (cas_path (H c0))) ->
              stage_fresh x' /\ (forall d, In d (dirs x) -> In d (dirs x')) /\ meta_agree x x' /\
              (forall k c0, In (k, c0) sg -> fdat x' (cas_path (H c0)) = fdat x (cas_path (H c0)))).
    { intros T Ns Oth St N1 N2 N3 N4. split; [|split; [exact Di|split; [|]]].
      - intros i Li. rewrite Ns in Li. apply St, Sf, Li.
      - split; [now apply Oth|]. split; [now apply Oth|]. intros i. now apply Oth.
      - intros k c0 Ik. apply Oth. now apply (N4 k). }
    assert (StV : forall p o, (forall q, fdat x' q = vset (fdat x) p o q) ->
                  (forall i, p = PStaging i -> fdat x p = None -> o = None) ->
                  forall i, fdat x (PStaging i) = None -> fdat x' (PStaging i) = None).
    { intros p o V0 Hp i Gi. rewrite V0. unfold vset.
      destruct (path_eqb_spec (PStaging i) p) as [<-|Ne]; [now apply (Hp i)|exact Gi]. }
    assert (Fa : forall Ns : nstage x' = nstage x, (forall q, fdat x' q = fdat x q) ->
              stage_fresh x' /\ (forall d, In d (dirs x) -> In d (dirs x')) /\ meta_agree x x' /\
              (forall k c0, In (k, c0) sg -> fdat x' (cas_path (H c0)) = fdat x (cas_path (H c0)))).
    { intros Ns V0. apply (Gen (fun _ => False) Ns); try tauto.
      - intros q _. apply V0.
      - intros i Gi. now rewrite V0. }
    destruct c; cbn [harmless] in Hh.
    - destruct V as [Ns V]. now apply Fa.
    - destruct V as [[_ Ns] V]. destruct (scratch_not_meta _ Hh) as (A1 & A2 & A3 & A4 & A5).
      apply (Gen (eq p) Ns); [| |exact A1|exact A2|exact A3|].
      + intros q Nq. rewrite V. apply vset_other. congruence.
      + apply (StV _ _ V). intros i X. exfalso. now apply (A4 i).
      + intros k c0 _ X. now apply (A5 (hexpath (H c0))).
    - destruct V as (_ & _ & Ns & V). destruct (scratch_not_meta _ Hh) as (A1 & A2 & A3 & A4 & A5).
      assert (Ns' : nstage x' = nstage x) by (destruct p; try exact Ns; contradiction).
      apply (Gen (eq p) Ns'); [| |exact A1|exact A2|exact A3|].
      + intros q Nq. rewrite V. apply vset_other. congruence.
      + apply (StV _ _ V). intros i X. exfalso. now apply (A4 i).
      + intros k c0 _ X. now apply (A5 (hexpath (H c0))).
    - destruct V as [[_ Ns] V]. destruct (scratch_not_meta _ Hh) as (A1 & A2 & A3 & A4 & A5).
      apply (Gen (eq p) Ns); [| |exact A1|exact A2|exact A3|].
      + intros q Nq. rewrite V. destruct (fdat x p); [reflexivity|]. apply vset_other. congruence.
      + intros i Gi. rewrite V. destruct (fdat x p); [exact Gi|]. rewrite vset_other; [exact Gi|].
        intros X. now apply (A4 i).
      + intros k c0 _ X. now apply (A5 (hexpath (H c0))).
    - destruct V as [[_ Ns] (d & Gd & V)].
      assert (A : p <> PSettings /\ p <> PIndex /\ (forall i, p <> PWal i) /\ (forall l, p <> PCas l)).
      { destruct Hh as [Hh|Hh]; [destruct (scratch_not_meta _ Hh) as (A1 & A2 & A3 & A4 & A5); auto|].
        destruct p; try contradiction. repeat split; intros; discriminate. }
      destruct A as (A1 & A2 & A3 & A5).
      apply (Gen (eq p) Ns); [| |exact A1|exact A2|exact A3|].
      + intros q Nq. rewrite V. apply vset_other. congruence.
      + apply (StV _ _ V). intros i _ X. rewrite X in Gd. discriminate.
      + intros k c0 _ X. now apply (A5 (hexpath (H c0))).
    - destruct V as [[_ Ns] V]. now apply Fa.
    - destruct V as [[_ Ns] (d & Gd & V)]. destruct Hh as [Hp Hq].
      destruct (scratch_not_meta _ Hp) as (A1 & A2 & A3 & A4 & A5).
      destruct (scratch_not_meta _ Hq) as (B1 & B2 & B3 & B4 & B5).
      apply (Gen (fun r => r = p \/ r = q) Ns).
      + intros r Nr. rewrite V, !vset_other; [reflexivity| |]; intros ->; apply Nr; auto.
      + intros i Gi. rewrite V, !vset_other; [exact Gi| |]; intros X;
          [now apply (A4 i)|now apply (B4 i)].
      + intros [X|X]; congruence.
      + intros [X|X]; congruence.
      + intros i [X|X]; [now apply (A3 i)|now apply (B3 i)].
      + intros k c0 _ [X|X]; [now apply (A5 (hexpath (H c0)))|now apply (B5 (hexpath (H c0)))].
    - destruct V as [[_ Ns] [Gd V]].
      assert (A : p <> PSettings /\ p <> PIndex /\ (forall i, p <> PWal i) /\
                  (forall k c0, In (k, c0) sg -> cas_path (H c0) <> p)).
      { destruct Hh as [Hh|[Hh|[Hh Un]]].
        - destruct (scratch_not_meta _ Hh) as (A1 & A2 & A3 & A4 & A5). repeat split; auto.
          intros k c0 _ X. now apply (A5 (hexpath (H c0))).
        - destruct p; try contradiction. repeat split; intros; discriminate.
        - destruct p; try contradiction. repeat split; intros; try discriminate. now apply (Un k). }
      destruct A as (A1 & A2 & A3 & A5).
      apply (Gen (eq p) Ns); [| |exact A1|exact A2|exact A3|].
      + intros q Nq. rewrite V. apply vset_other. congruence.
      + apply (StV _ _ V). reflexivity.
      + intros k c0 Ik X. symmetry in X. now apply (A5 k c0 Ik).
  Qed.

  Lemma restp_keeps : forall c nv sb pre sg cl, harmless sg cl ->
    call_keeps (RestP c nv sb pre sg) cl.
  Proof.
    intros c nv sb pre sg cl Hh x x' R E. pose proof R as [(W & Sf & _) _].
    destruct (harmless_agree sg cl x x' Hh W Sf E) as (W' & S' & Di & M & Ca).
    eapply restp_agree; eassumption.
  Qed.

  Lemma rest_keeps : forall sg cl, harmless sg cl -> call_keeps (fun x => Rest x sg) cl.
  Proof.
    intros sg cl Hh x x' R E.
    assert (WS : FsWf x /\ stage_fresh x).
    { destruct R as (_ & _ & [(c & nv & pre & (W & Sf & _) & _)|(_ & _ & W & Sf & _)]); now split. }
    destruct WS as [W Sf].
    destruct (harmless_agree sg cl x x' Hh W Sf E) as (W' & S' & Di & M & Ca).
    eapply rest_agree; eassumption.
  Qed.

  Lemma restf_keeps : forall sg cl, harmless [] cl -> call_keeps (RestF sg) cl.
  Proof.
    intros sg cl Hh x x' R E. pose proof R as (_ & _ & W & Sf & _).
    destruct (harmless_agree [] cl x x' Hh W Sf E) as (W' & S' & Di & M & Ca).
    eapply restf_agree; eassumption.
  Qed.

  (* "the old map or the new map": the shape of the statements about crashed operations *)
  Definition RestD (sg sg' : smap bytes) (x : fs) : Prop := Rest x sg \/ Rest x sg'.

  Lemma restd_keeps : forall sg sg' cl, harmless sg cl -> harmless sg' cl ->
    call_keeps (RestD sg sg') cl.
  Proof.
    intros sg sg' cl H1 H2 x x' [R|R] E; [left|right]; eapply rest_keeps; eassumption.
  Qed.

  (* ---- stale segments: dropping any segments below the segment of the snapshot version ---- *)
  Lemma filter_flat_map_keep : forall (f : N * bytes -> bool) (rf : N -> list (N * bytes))
                                      (keep : N -> bool) ids,
    (forall i, In i ids -> keep i = false -> filter f (rf i) = []) ->
    filter f (flat_map rf (filter keep ids)) = filter f (flat_map rf ids).
  Proof.
    intros f rf keep. induction ids as [|a ids IH]; intros Hk; [reflexivity|].
    cbn [filter flat_map]. rewrite filter_app.
    destruct (keep a) eqn:Ka; cbn [flat_map].
    - rewrite filter_app, IH; [reflexivity|]. intros i Ii. apply Hk. now right.
    - rewrite (Hk a (or_introl eq_refl) Ka). cbn [app]. apply IH. intros i Ii. apply Hk. now right.
  Qed.

  Lemma V_drop : forall c nv sb pre dv dv' sg,
    DiskOkW c nv sb pre dv sg ->
    dv' PSettings = dv PSettings -> dv' PIndex = dv PIndex ->
    (forall i, dv' (PWal i) = dv (PWal i) \/ (i < seg_of c /\ dv' (PWal i) = None)) ->
    DiskOkW c nv sb pre dv' sg.
  Proof.
    intros c nv sb pre dv dv' sg (ids & rf & sf & km_c & ops & D) Es Ei Ew.
    destruct D as [d_sg d_set d_snap d_kmc d_asc d_in d_out d_seg d_filter d_nv d_nvfit d_opsfit d_opsok d_fold].
    set (keep := fun i => match dv' (PWal i) with Some _ => true | None => false end).
    exists (filter keep ids), rf, sf, km_c, ops.
    assert (Kt : forall i, In i ids -> keep i = true -> dv' (PWal i) = dv (PWal i)).
    { intros i Ii K. unfold keep in K. destruct (Ew i) as [X|[_ X]]; [exact X|].
      rewrite X in K. discriminate. }
    constructor; try assumption.
    - now rewrite Es.
    - unfold snap_ok. now rewrite Ei.
    - now apply asc_filter.
    - intros i Ii. apply filter_In in Ii. destruct Ii as [Ii K]. rewrite (Kt i Ii K). auto.
    - intros i Ni. destruct (in_dec N.eq_dec i ids) as [Ii|Ii].
      + destruct (keep i) eqn:K; [exfalso; apply Ni, filter_In; now split|].
        unfold keep in K. destruct (dv' (PWal i)); [discriminate|reflexivity].
      + destruct (Ew i) as [X|[_ X]]; [|exact X]. rewrite X. auto.
    - intros i Ii. apply filter_In in Ii. apply d_seg, Ii.
    - rewrite filter_flat_map_keep; [exact d_filter|].
      intros i Ii K. apply filter_none. intros r Ir.
      assert (Lt : i < seg_of c).
      { destruct (Ew i) as [X|[X _]]; [|exact X]. exfalso. unfold keep in K.
        rewrite X, (d_in i Ii) in K. discriminate. }
      destruct (d_seg i Ii) as (_ & S2 & _). rewrite Forall_forall in S2. specialize (S2 r Ir).
      destruct (c <? fst r) eqn:Cr; [|reflexivity]. exfalso.
      assert (seg_of c <= seg_of (fst r)) by (apply (seg_of_mono cfg n_pos); lia). lia.
  Qed.

  Lemma restp_keeps_drop : forall c nv sb pre sg i, i < seg_of c ->
    call_keeps (RestP c nv sb pre sg) (CUnlink (PWal i)).
  Proof.
    intros c nv sb pre sg i Li x x' [A D] E. pose proof A as (W & Sf & _).
    destruct (apply_call_view _ x x' W E) as (W' & Di & [_ Ns] & _ & V).
    split.
    - eapply aux_agree; [exact A|exact W'| |exact Di|].
      + intros j Lj. rewrite Ns in Lj. rewrite V, vset_other by discriminate. now apply Sf.
      + intros k c0 _. rewrite V. apply vset_other. discriminate.
    - eapply V_drop; [exact D| | |].
      + rewrite V. apply vset_other. discriminate.
      + rewrite V. apply vset_other. discriminate.
      + intros j. rewrite V. unfold vset. destruct (path_eqb_spec (PWal j) (PWal i)) as [X|X].
        * inversion X; subst j. right. now split.
        * now left.
  Qed.

  (* syncing any file changes nothing the invariant looks at (also covered by harmless) *)
  Lemma view_eq_rest : forall sg x x', Rest x sg -> FsWf x' ->
    (forall d, In d (dirs x) -> In d (dirs x')) -> nstage x' = nstage x ->
    (forall q, fdat x' q = fdat x q) -> Rest x' sg.
  Proof.
    intros sg x x' R W' Di Ns V.
    assert (Sf : stage_fresh x).
    { destruct R as (_ & _ & [(c & nv & pre & (_ & Sf & _) & _)|(_ & _ & _ & Sf & _)]); exact Sf. }
    eapply rest_agree; [exact R|exact W'| |exact Di| |].
    - intros i Li. rewrite Ns in Li. rewrite V. now apply Sf.
    - split; [apply V|]. split; [apply V|]. intros i. apply V.
    - intros k c _. apply V.
  Qed.

  Lemma view_eq_restp : forall c nv sb pre sg x x', RestP c nv sb pre sg x -> FsWf x' ->
    (forall d, In d (dirs x) -> In d (dirs x')) -> nstage x' = nstage x ->
    (forall q, fdat x' q = fdat x q) -> RestP c nv sb pre sg x'.
  Proof.
    intros c nv sb pre sg x x' R W' Di Ns V. pose proof R as [(_ & Sf & _) _].
    eapply restp_agree; [exact R|exact W'| |exact Di| |].
    - intros i Li. rewrite Ns in Li. rewrite V. now apply Sf.
    - split; [apply V|]. split; [apply V|]. intros i. apply V.
    - intros k c0 _. apply V.
  Qed.

  (* ---- the invariant with a bound on the next version ----
     After a crash the version counter is recomputed from the disk.  To follow a whole history
     (CrashHist.v) one needs to know that it did not run ahead: RestB B is Rest together with
     "the next version recovery will compute is at most B". *)
  Definition RestB (B : N) (x : fs) (sg : smap bytes) : Prop :=
    sorted cmp sg /\ NoCollide (map snd sg) /\
    ((exists c nv pre, nv <= B /\ RestP c nv (seg_of nv) pre sg x) \/ RestF sg x).
  Definition RestDB (B : N) (sg sg' : smap bytes) (x : fs) : Prop := RestB B x sg \/ RestB B x sg'.

  Lemma restb_rest : forall B x sg, RestB B x sg -> Rest x sg.
  Proof.
    intros B x sg (Ss & Nc & [(c & nv & pre & _ & R)|R]); (split; [exact Ss|split; [exact Nc|]]);
      [left; now exists c, nv, pre|now right].
  Qed.

  Lemma rest_restb : forall x sg, Rest x sg -> exists B, 1 <= B /\ RestB B x sg.
  Proof.
    intros x sg (Ss & Nc & [(c & nv & pre & R)|R]).
    - exists (nv + 1). split; [lia|]. split; [exact Ss|]. split; [exact Nc|]. left.
      exists c, nv, pre. split; [lia|exact R].
    - exists 1. split; [lia|]. split; [exact Ss|]. split; [exact Nc|]. now right.
  Qed.

  Lemma restb_mono : forall B B' x sg, B <= B' -> RestB B x sg -> RestB B' x sg.
  Proof.
    intros B B' x sg L (Ss & Nc & [(c & nv & pre & Ln & R)|R]); (split; [exact Ss|split; [exact Nc|]]);
      [left; exists c, nv, pre; split; [lia|exact R]|now right].
  Qed.

  Lemma restdb_rest : forall B sg sg' x, RestDB B sg sg' x -> RestD sg sg' x.
  Proof. intros B sg sg' x [R|R]; [left|right]; eapply restb_rest; exact R. Qed.

  Lemma restp_restb : forall B c nv sb pre sg x, sorted cmp sg -> NoCollide (map snd sg) ->
    sb <= seg_of nv -> nv <= B -> RestP c nv sb pre sg x -> RestB B x sg.
  Proof.
    intros B c nv sb pre sg x Ss Nc L Ln [A D]. split; [exact Ss|]. split; [exact Nc|]. left.
    exists c, nv, pre. split; [exact Ln|]. split; [exact A|].
    eapply (DiskOkW_weaken_sb H H_len H_byte cfg n_pos); eassumption.
  Qed.

  Lemma restb_wf : forall B x sg, RestB B x sg -> FsWf x.
  Proof. intros B x sg R. eapply rest_wf, restb_rest, R. Qed.

  Lemma restb_agree : forall B sg x x', RestB B x sg ->
    FsWf x' -> stage_fresh x' -> (forall d, In d (dirs x) -> In d (dirs x')) ->
    meta_agree x x' ->
    (forall k c, In (k, c) sg -> fdat x' (cas_path (H c)) = fdat x (cas_path (H c))) ->
    RestB B x' sg.
  Proof.
    intros B sg x x' (Ss & Nc & [(c & nv & pre & Ln & R)|R]) W' S' Di M Ca.
    - split; [exact Ss|]. split; [exact Nc|]. left. exists c, nv, pre. split; [exact Ln|].
      eapply restp_agree; eassumption.
    - split; [exact Ss|]. split; [exact Nc|]. right. eapply restf_agree; eassumption.
  Qed.

  Lemma restb_fresh : forall B x sg, RestB B x sg -> stage_fresh x.
  Proof.
    intros B x sg (_ & _ & [(c & nv & pre & _ & (_ & Sf & _) & _)|(_ & _ & _ & Sf & _)]); exact Sf.
  Qed.

  Lemma restb_keeps : forall B sg cl, harmless sg cl -> call_keeps (fun x => RestB B x sg) cl.
  Proof.
    intros B sg cl Hh x x' R E.
    destruct (harmless_agree sg cl x x' Hh (restb_wf _ _ _ R) (restb_fresh _ _ _ R) E)
      as (W' & S' & Di & M & Ca).
    eapply restb_agree; eassumption.
  Qed.

  Lemma restdb_keeps : forall B sg sg' cl, harmless sg cl -> harmless sg' cl ->
    call_keeps (RestDB B sg sg') cl.
  Proof.
    intros B sg sg' cl H1 H2 x x' [R|R] E; [left|right];
      eapply (restb_keeps B); eassumption.
  Qed.

  Lemma view_eq_restb : forall B sg x x', RestB B x sg -> FsWf x' ->
    (forall d, In d (dirs x) -> In d (dirs x')) -> nstage x' = nstage x ->
    (forall q, fdat x' q = fdat x q) -> RestB B x' sg.
  Proof.
    intros B sg x x' R W' Di Ns V. pose proof (restb_fresh _ _ _ R) as Sf.
    eapply restb_agree; [exact R|exact W'| |exact Di| |].
    - intros i Li. rewrite Ns in Li. rewrite V. now apply Sf.
    - split; [apply V|]. split; [apply V|]. intros i. apply V.
    - intros k c _. apply V.
  Qed.
End CrashInv.

Print Assumptions walk_trans.
Print Assumptions walk_call.
Print Assumptions replay_trace.
Print Assumptions apply_call_view.
Print Assumptions rest_of_inv.
Print Assumptions rest_keeps.
Print Assumptions V_drop.
