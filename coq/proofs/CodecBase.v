(* CodecBase.v -- small lemmas about theories/Base.v needed by CodecProofs.v:
   little-endian round trip, checked slicing, byte-string equality. *)
From Coq Require Import List NArith ZArith Bool Lia ZifyBool ZifyNat ZifyN.
From Cas Require Import Base.
Import ListNotations.
Open Scope N_scope.

Arguments N.add : simpl never.
Arguments N.sub : simpl never.
Arguments N.mul : simpl never.
Arguments N.div : simpl never.
Arguments N.modulo : simpl never.
Arguments N.eqb : simpl never.
Arguments N.ltb : simpl never.
Arguments N.leb : simpl never.
Arguments N.pow : simpl never.

(* ---- lists ---- *)
Lemma firstn_app_exact (a b : bytes) : firstn (length a) (a ++ b) = a.
Proof. induction a as [|x a IH]; cbn [length app firstn]; [now destruct b | now rewrite IH]. Qed.

Lemma skipn_app_exact (a b : bytes) : skipn (length a) (a ++ b) = b.
Proof. induction a as [|x a IH]; cbn [length app skipn]; auto. Qed.

Lemma firstn_app_n (n : nat) (a b : bytes) : length a = n -> firstn n (a ++ b) = a.
Proof. intros <-. apply firstn_app_exact. Qed.

Lemma skipn_app_n (n : nat) (a b : bytes) : length a = n -> skipn n (a ++ b) = b.
Proof. intros <-. apply skipn_app_exact. Qed.

(* ---- little endian ---- *)
Lemma le_enc_length n : forall v, length (le_enc n v) = n.
Proof. induction n as [|n IH]; intro v; cbn [le_enc length]; [reflexivity | now rewrite IH]. Qed.

Lemma le_dec_enc n : forall v, le_dec (le_enc n v) = v mod 256 ^ N.of_nat n.
Proof.
  induction n as [|n IH]; intro v.
  - cbn [le_enc le_dec]. change (256 ^ N.of_nat 0) with 1. now rewrite N.mod_1_r.
  - cbn [le_enc le_dec]. rewrite IH, Nat2N.inj_succ, N.pow_succ_r'.
    assert (Hp : 256 ^ N.of_nat n <> 0) by (apply N.pow_nonzero; lia).
    rewrite N.mod_mul_r; [reflexivity | lia | exact Hp].
Qed.

Lemma le_enc_byte n : forall v, Forall (fun b => b < 256) (le_enc n v).
Proof.
  induction n as [|n IH]; intro v; cbn [le_enc]; constructor; [|apply IH].
  apply N.mod_lt. lia.
Qed.

Lemma u32_length v : length (u32 v) = 4%nat.
Proof. apply le_enc_length. Qed.
Lemma u64_length v : length (u64 v) = 8%nat.
Proof. apply le_enc_length. Qed.

Lemma le_dec_u32 v : v < 2 ^ 32 -> le_dec (u32 v) = v.
Proof.
  intro Hv. unfold u32. rewrite le_dec_enc.
  change (256 ^ N.of_nat 4) with (2 ^ 32). now apply N.mod_small.
Qed.

Lemma le_dec_u64 v : v < 2 ^ 64 -> le_dec (u64 v) = v.
Proof.
  intro Hv. unfold u64. rewrite le_dec_enc.
  change (256 ^ N.of_nat 8) with (2 ^ 64). now apply N.mod_small.
Qed.

(* ---- take / takeN ---- *)
Lemma take_app (n : nat) (a b : bytes) : length a = n -> take n (a ++ b) = Some (a, b).
Proof.
  intros <-. unfold take. rewrite app_length.
  replace (Nat.leb (length a) (length a + length b)) with true
    by (symmetry; apply Nat.leb_le; lia).
  now rewrite firstn_app_exact, skipn_app_exact.
Qed.

Lemma takeN_app (n : N) (a b : bytes) : len a = n -> takeN n (a ++ b) = Some (a, b).
Proof.
  intros <-. unfold takeN, len. rewrite app_length.
  replace (N.of_nat (length a) <=? N.of_nat (length a + length b)) with true
    by (symmetry; apply N.leb_le; lia).
  rewrite Nat2N.id. now apply take_app.
Qed.

Lemma take_some (n : nat) (bs a b : bytes) :
  take n bs = Some (a, b) -> bs = a ++ b /\ length a = n.
Proof.
  unfold take. destruct (Nat.leb n (length bs)) eqn:E; [|discriminate].
  apply Nat.leb_le in E. intro Hs. inversion Hs; subst. split.
  - symmetry. apply firstn_skipn.
  - apply firstn_length_le. exact E.
Qed.

Lemma take_none (n : nat) (bs : bytes) : (length bs < n)%nat -> take n bs = None.
Proof.
  intro Hl. unfold take.
  replace (Nat.leb n (length bs)) with false; [reflexivity|].
  symmetry. apply Nat.leb_gt. exact Hl.
Qed.

Lemma take_none_inv (n : nat) (bs : bytes) : take n bs = None -> (length bs < n)%nat.
Proof.
  unfold take. destruct (Nat.leb n (length bs)) eqn:E; [discriminate|].
  intros _. now apply Nat.leb_gt.
Qed.

Lemma takeN_some (n : N) (bs a b : bytes) :
  takeN n bs = Some (a, b) -> bs = a ++ b /\ len a = n.
Proof.
  unfold takeN. destruct (n <=? N.of_nat (length bs)) eqn:E; [|discriminate].
  intro Hs. apply take_some in Hs. destruct Hs as [-> Hl]. split; [reflexivity|].
  unfold len. rewrite Hl. apply N2Nat.id.
Qed.

Lemma takeN_none (n : N) (bs : bytes) : len bs < n -> takeN n bs = None.
Proof.
  intro Hl. unfold takeN, len in *.
  replace (n <=? N.of_nat (length bs)) with false; [reflexivity|].
  symmetry. apply N.leb_gt. exact Hl.
Qed.

(* ---- beqb ---- *)
Lemma beqb_true_iff : forall a b, beqb a b = true <-> a = b.
Proof.
  induction a as [|x a IH]; destruct b as [|y b]; cbn [beqb]; split; intro Hq;
    try reflexivity; try discriminate.
  - apply andb_true_iff in Hq. destruct Hq as [H1 H2].
    apply N.eqb_eq in H1. apply IH in H2. now subst.
  - inversion Hq; subst. apply andb_true_iff. split; [apply N.eqb_refl | now apply IH].
Qed.

Lemma beqb_refl a : beqb a a = true.
Proof. now apply beqb_true_iff. Qed.

Lemma beqb_false_iff a b : beqb a b = false <-> a <> b.
Proof.
  split.
  - intros Hf Heq. apply beqb_true_iff in Heq. congruence.
  - intro Hne. destruct (beqb a b) eqn:E; [|reflexivity].
    apply beqb_true_iff in E. contradiction.
Qed.

Print Assumptions le_dec_enc.
Print Assumptions takeN_app.
Print Assumptions beqb_true_iff.
