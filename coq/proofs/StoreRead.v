(* StoreRead.v -- the read path of the store model: under the invariant Live0 every read
   returns what the abstract ordered map says (C01, read side), and the identity of a blob
   depends only on the concatenated content (C18). *)
From Cas Require Import History.
From CasProofs Require Import BaseProofs SMapProofs IndexProofs RangeProofs StoreFS StoreInv StoreWrite.
From Coq Require Import ZifyBool ZifyNat ZifyN.
Open Scope N_scope.

Section StoreRead.
  Variable H : bytes -> bytes.
  Hypothesis H_len : forall b, length (H b) = 32%nat.
  Hypothesis H_byte : forall b, Forall (fun x => x < 256) (H b).
  Variable cfg : config.
  Hypothesis n_pos : 0 < c_n cfg.
  Let cmp := key_cmp (c_kt cfg).

  Local Notation KX L :=
    (L cmp (key_cmp_refl _) (key_cmp_eq _) (key_cmp_antisym _) (key_cmp_trans _)) (only parsing).
  Local Notation item_of := (item_of H).
  Local Notation km_of := (km_of H).
  Local Notation NoCollide := (NoCollide H).
  Local Notation Live0 := (Live0 H cfg).

  Lemma blob_of_content : forall m s sg k c, Live0 m s sg -> sm_get cmp sg k = Some c ->
    blob_of s (H c) = Some c.
  Proof.
    intros m s sg k c L G. destruct L as [Ssg _ _ _ Hcas _ _ _].
    apply (KX get_in _ _ _ Ssg) in G. destruct (Hcas k c G) as (f & Gf & Df).
    unfold blob_of. now rewrite Gf, Df.
  Qed.

  Theorem get_spec : forall m s sg k, Live0 m s sg ->
    get cfg m s k = Ok (sm_get cmp sg k).
  Proof.
    intros m s sg k L. unfold get. fold cmp. rewrite (lv_km _ _ _ _ _ L), (km_of_get H cfg).
    fold cmp. destruct (sm_get cmp sg k) as [c|] eqn:G; cbn [option_map]; [|reflexivity].
    cbn [StoreInv.item_of ihash]. now rewrite (blob_of_content m s sg k c L G).
  Qed.

  Theorem get_size_spec : forall m s sg k, Live0 m s sg ->
    get_size cfg m k = option_map len (sm_get cmp sg k).
  Proof.
    intros m s sg k L. unfold get_size. fold cmp. rewrite (lv_km _ _ _ _ _ L), (km_of_get H cfg).
    fold cmp. destruct (sm_get cmp sg k); reflexivity.
  Qed.

  Theorem get_range_spec : forall m s sg k a b, Live0 m s sg ->
    get_range_api cfg m s k a b =
    match sm_get cmp sg k with
    | None => Ok None
    | Some c => if (b <? a) && (a <? len c) then Err EInvalidRange
                else Ok (Some (slice c a b))
    end.
  Proof.
    intros m s sg k a b L. unfold get_range_api. fold cmp.
    rewrite (lv_km _ _ _ _ _ L), (km_of_get H cfg). fold cmp.
    destruct (sm_get cmp sg k) as [c|] eqn:G; cbn [option_map]; [|reflexivity].
    cbn [StoreInv.item_of ihash isize].
    destruct (N.leb_spec (len c) a) as [La|La].
    - rewrite slice_beyond by exact La.
      replace (a <? len c) with false by lia. now rewrite andb_false_r.
    - replace (a <? len c) with true by lia. rewrite andb_true_r.
      destruct (N.ltb_spec b a) as [Lb|Lb].
      + replace (N.min b (len c) <? a) with true by lia. reflexivity.
      + replace (N.min b (len c) <? a) with false by lia.
        rewrite (blob_of_content m s sg k c L G), C17_total.
        replace (b <? a) with false by lia. reflexivity.
  Qed.

  (* iter: the index key map is the abstract map with every content replaced by its
     (hash, length) item *)
  Theorem iter_spec : forall m s sg, Live0 m s sg -> km (idx m) = km_of sg.
  Proof. intros m s sg L. exact (lv_km _ _ _ _ _ L). Qed.

  Theorem range_iter_spec : forall m s sg lo hi, Live0 m s sg ->
    (nonempty (km (idx m)) && range_panics cmp lo hi) = false ->
    range_iter cfg m lo hi = Ok (km_of (filter (fun e => in_range cmp lo hi (fst e)) sg)).
  Proof.
    intros m s sg lo hi L NP. unfold range_iter. fold cmp. rewrite NP.
    rewrite (lv_km _ _ _ _ _ L), (km_of_filter H (in_range cmp lo hi)). reflexivity.
  Qed.

  (* stats / blobs: the reference counts and the statistics are those of the abstract map *)
  Theorem blobs_spec : forall m s sg h c, Live0 m s sg ->
    (rc_get (rc (idx m)) h = Some c <-> c = count_refs (km_of sg) h /\ 0 < c).
  Proof.
    intros m s sg h c L. rewrite <- (lv_km _ _ _ _ _ L).
    apply (C12_counts_exact cmp), (lv_idx _ _ _ _ _ L).
  Qed.

  Theorem blobs_known_iff_referenced : forall m s sg h, Live0 m s sg ->
    (rc_get (rc (idx m)) h <> None <-> exists k c, In (k, c) sg /\ H c = h).
  Proof.
    intros m s sg h L.
    rewrite (C12_known_iff_referenced cmp _ (lv_idx _ _ _ _ _ L)), (lv_km _ _ _ _ _ L). split.
    - intros (k & i & Ik & E). apply (In_km_of H) in Ik. destruct Ik as (c & Ic & ->).
      now exists k, c.
    - intros (k & c & Ic & E). exists k, (item_of c). split; [|exact E].
      apply (In_km_of H). now exists c.
  Qed.

  Theorem stats_spec : forall m s sg, Live0 m s sg ->
    ub (idx m) = N.of_nat (length (rc (idx m))).
  Proof.
    intros m s sg L.
    apply (C12_ub_is_rc_length cmp), (lv_idx _ _ _ _ _ L).
  Qed.

  (* C18: the identity (hash, length) recorded for a key after put, and the blob stored under
     that hash, depend only on the concatenation of the chunks *)
  Theorem C18_put_identity : forall m s sg k chunks w,
    Live0 m s sg -> wfs w = s -> wfault w = None ->
    NoCollide (concat chunks :: map snd sg) ->
    exists m' w', put H cfg m k chunks w = ((Ok tt, m'), w') /\
      sm_get cmp (km (idx m')) k = Some (mkItem (H (concat chunks)) (len (concat chunks))) /\
      exists f, fget (wfs w') (cas_path (H (concat chunks))) = Some f /\ fdata f = concat chunks.
  Proof.
    intros m s sg k chunks w L Ws F NC.
    destruct (put_spec H H_len H_byte cfg n_pos m s sg k chunks w L Ws F NC)
      as (m' & w' & E & _ & _ & L' & _).
    exists m', w'. split; [exact E|]. fold cmp in L'. split.
    - rewrite (lv_km _ _ _ _ _ L'), (km_of_get H cfg). fold cmp.
      now rewrite (KX get_ins_same).
    - destruct L' as [Ssg' _ _ _ Hcas' _ _ _]. apply (Hcas' k).
      apply (KX get_in _ _ _ Ssg'). apply (KX get_ins_same).
  Qed.

  Corollary C18_chunking_irrelevant : forall m s sg k chunks1 chunks2 w,
    Live0 m s sg -> wfs w = s -> wfault w = None ->
    NoCollide (concat chunks1 :: map snd sg) -> concat chunks1 = concat chunks2 ->
    exists m1 w1 m2 w2,
      put H cfg m k chunks1 w = ((Ok tt, m1), w1) /\ put H cfg m k chunks2 w = ((Ok tt, m2), w2) /\
      sm_get cmp (km (idx m1)) k = sm_get cmp (km (idx m2)) k /\
      blob_of (wfs w1) (H (concat chunks1)) = Some (concat chunks1) /\
      blob_of (wfs w2) (H (concat chunks1)) = Some (concat chunks1).
  Proof.
    intros m s sg k chunks1 chunks2 w L Ws F NC E.
    destruct (C18_put_identity m s sg k chunks1 w L Ws F NC) as (m1 & w1 & E1 & G1 & f1 & B1 & D1).
    rewrite E in NC.
    destruct (C18_put_identity m s sg k chunks2 w L Ws F NC) as (m2 & w2 & E2 & G2 & f2 & B2 & D2).
    exists m1, w1, m2, w2. split; [exact E1|]. split; [exact E2|]. split.
    - rewrite G1, G2, E. reflexivity.
    - unfold blob_of. rewrite B1, D1, E, B2, D2. now split.
  Qed.
End StoreRead.

Print Assumptions get_spec.
Print Assumptions get_size_spec.
Print Assumptions get_range_spec.
Print Assumptions range_iter_spec.
Print Assumptions blobs_spec.
Print Assumptions C18_put_identity.
Print Assumptions C18_chunking_irrelevant.
