(* PowerLossOpen.v -- power-loss durability (C09), part 3: recovery itself.  From a state of the
   sync-aware invariant, every intermediate filesystem of open_with_recover survives power loss
   for every victim set (recovery writes the settings file and the snapshot through
   atomic_write -- synced before the rename -- and creates the next segment empty), and the
   recovered handle is again sync-clean: Inv' and SyncedFor.  Also: power loss at rest, and
   power loss during recovery, to any depth of nesting. *)
From Cas Require Import History.
From CasProofs Require Import BaseProofs CodecBase CodecProofs SMapProofs IndexProofs
  StoreFS StoreInv StoreWrite StoreRead StoreHist DiskInv Recover CrashInv CrashOps CrashOpen
  PowerLoss PowerLossOps.
From Coq Require Import ZifyBool ZifyNat ZifyN.
Open Scope N_scope.

Arguments N.add : simpl never.
Arguments N.sub : simpl never.
Arguments N.mul : simpl never.
Arguments N.div : simpl never.
Arguments N.modulo : simpl never.
Arguments N.eqb : simpl never.
Arguments N.ltb : simpl never.
Arguments N.leb : simpl never.
Arguments N.pow : simpl never.
Arguments N.max : simpl never.

Section OpenTriples.
  Variable H : bytes -> bytes.
  Variable cfg : config.
  Variable C : Ctx.
  Hypothesis JpTmp : cJp C PIndexTmp.
  Hypothesis JpSet : cJp C PSettingsTmp.
  Hypothesis Ntmp : ~ cR C PIndexTmp.
  Hypothesis Nset : ~ cR C PSettingsTmp.

  Local Notation HR := (HR C).
  Local Notation Good := (SynOn (cR C)).
  Local Notation mono c := (hr_call_mono C c (cR C)) (only parsing).

  Lemma hr_load_tail : forall pre s st0, HR Good (load_tail H cfg pre s st0) (fun _ => Good).
  Proof.
    intros pre s st0. unfold load_tail. cbv zeta.
    destruct (replay_segments H cfg (lpv st0) s (sort_ids (wal_ids s)) st0 (lpv st0) 0)
      as [[[st hi] cnt]|e]; [|apply hr_ret; auto].
    apply hr_bind with (Mid := fun _ => Good).
    - destruct (fget s (PWal ((hi + 1 - 1) / c_n cfg))); [apply hr_ret; auto|].
      eapply hr_bind; [apply (mono (CCreate _)); [exact I|auto]|].
      intros [u|e]; cbv beta iota; [|apply hr_ret; auto]. apply (mono (CSync _)); [exact I|auto].
    - intros [u|e]; cbv beta iota; [|apply hr_ret; auto].
      destruct (0 <? cnt); [|apply hr_ret; auto].
      eapply hr_bind; [apply (hr_checkpoint_inner cfg C JpTmp); exact Ntmp|].
      intros [[u2|e2] m']; cbv beta iota; apply hr_ret; auto.
  Qed.

  Lemma hr_index_load : forall pre, HR Good (index_load H cfg pre) (fun _ => Good).
  Proof.
    intros pre w F. rewrite index_load_split.
    destruct (loaded_of cfg (wfs w)) as [st0|e].
    - now apply hr_load_tail.
    - exact (hr_ret C Good (Err e) (fun _ => Good) (fun x Y => Y) w F).
  Qed.

  Lemma hr_open : HR Good (open_with_recover H cfg) (fun _ => Good).
  Proof.
    unfold open_with_recover.
    eapply hr_bind; [apply (hr_mkdir_p C)|].
    intros [u|e]; cbv beta iota; [|apply hr_ret; auto].
    eapply hr_bind; [apply (hr_mkdir_p C)|].
    intros [u1|e]; cbv beta iota; [|apply hr_ret; auto].
    eapply hr_bind; [apply (mono (CCreate PLock)); [exact I|auto]|].
    intros [u2|e]; cbv beta iota; [|apply hr_ret; auto].
    eapply hr_bind; [apply hr_read_file|]. intros sf. cbv beta.
    apply hr_bind with (Mid := fun _ => Good).
    - destruct sf as [data|].
      + destruct (dec_settings data) as [[[ver pre] n]|]; [|apply hr_ret; auto].
        destruct (negb (ver =? CURRENT_DB_VERSION)); [apply hr_ret; auto|].
        destruct (negb (n =? c_n cfg)); apply hr_ret; auto.
      + apply hr_bind with (Mid := fun _ => Good).
        * destruct (c_pre cfg); [apply (hr_mkdirs_pre C)|apply hr_ret; auto].
        * intros [u3|e]; cbv beta iota; [|apply hr_ret; auto].
          eapply hr_bind; [apply (hr_atomic_write C); [exact Nset|exact JpSet]|].
          intros [u4|e]; cbv beta iota; apply hr_ret; auto.
    - intros [pre|e]; cbv beta iota; [|apply hr_ret; auto].
      eapply hr_bind; [apply hr_index_load|].
      intros [m|e]; cbv beta iota; [|apply hr_ret; auto].
      eapply hr_bind; [apply hr_get_fs|]. intros s. apply hr_ret. auto.
  Qed.
End OpenTriples.

Section PowerOpen.
  Variable H : bytes -> bytes.
  Hypothesis H_len : forall b, length (H b) = 32%nat.
  Hypothesis H_byte : forall b, Forall (fun x => x < 256) (H b).
  Variable cfg : config.
  Hypothesis n_pos : 0 < c_n cfg.
  Let cmp := key_cmp (c_kt cfg).

  Local Notation DX L := (L H H_len H_byte cfg n_pos) (only parsing).
  Local Notation Inv' := (Inv' H cfg).
  Local Notation Rest := (Rest H cfg).
  Local Notation RestB := (RestB H cfg).
  Local Notation Rel := (Rel H).
  Local Notation SyncedFor := (SyncedFor H).
  Local Notation RestS := (RestS H cfg).
  Local Notation RestSB := (RestSB H cfg).
  Local Notation PLB := (PLB H cfg).
  Local Notation PL1 := (PL1 H cfg).

  (* recovery from the sync-aware invariant: succeeds, every intermediate filesystem survives
     power loss (any victim set), the handle is again sync-clean.  Holds in both sync modes:
     recovery always syncs what it writes. *)
  Theorem open_powerloss_b : forall B s sg w,
    RestSB B s sg -> 1 <= B -> wfault w = None -> wfs w = s ->
    exists m' os w', open_with_recover H cfg w = (Ok (m', os), w') /\ wfault w' = None /\
      Inv' m' (wfs w') sg /\ SyncedFor sg (wfs w') /\ writer (mwal m') = None /\
      nextv (mwal m') <= B /\ Walk (PLB B sg) w w'.
  Proof.
    intros B s sg w [RB Y] B1 F Ws. pose proof RB as (Ss & Nc & _).
    destruct (DX a_open B s sg w RB B1 F Ws)
      as (m' & os & w' & E & F' & Wr & Nv & NvB & Km & Iv & RP & Hs & Hc & Sz & K).
    exists m', os, w'. split; [exact E|]. split; [exact F'|].
    destruct (rel_not_tmp H sg) as (Nt & Nset & _ & _).
    destruct (jps_facts H sg sg) as (_ & JT & JSet & _).
    destruct (DX run_b B sg (open_with_recover H cfg) _ w _ w'
                (hr_open H cfg (DX ctx_b B sg) JT JSet Nt Nset) F E K) as [KP Po].
    { subst s. now apply syncedfor_rel. }
    destruct RP as [A D]. split; [|split; [now apply syncedfor_rel|]].
    - split; [now apply (restp_live H cfg)|]. split; [|exact (proj1 A)].
      unfold CrashInv.DiskOk'. now rewrite Wr.
    - split; [exact Wr|]. split; [exact NvB|exact KP].
  Qed.

  (* L2 for open, in the form of the task statement *)
  Theorem open_powerloss : forall s sg w, RestS s sg -> wfault w = None -> wfs w = s ->
    exists m' os w', open_with_recover H cfg w = (Ok (m', os), w') /\ Along (PL1 sg) w w'.
  Proof.
    intros s sg w [R Y] F Ws. destruct (rest_restb H cfg n_pos _ _ R) as (B & B1 & RB).
    destruct (open_powerloss_b B s sg w (conj RB Y) B1 F Ws)
      as (m' & os & w' & E & _ & _ & _ & _ & _ & K).
    exists m', os, w'. split; [exact E|].
    eapply along_weaken; [|exact (walk_along _ _ _ K)]. intros x Px. exact (plb_rest H cfg _ _ _ Px).
  Qed.

  Corollary rests_open : forall s sg w, RestS s sg -> wfault w = None -> wfs w = s ->
    exists m' os w', open_with_recover H cfg w = (Ok (m', os), w') /\ wfault w' = None /\
      Inv' m' (wfs w') sg /\ SyncedFor sg (wfs w').
  Proof.
    intros s sg w [R Y] F Ws. destruct (rest_restb H cfg n_pos _ _ R) as (B & B1 & RB).
    destruct (open_powerloss_b B s sg w (conj RB Y) B1 F Ws)
      as (m' & os & w' & E & F' & IV & Y' & _).
    now exists m', os, w'.
  Qed.

  (* power loss at rest *)
  Theorem loss_at_rest : forall x sg victims, RestS x sg ->
    exists m' os w', open_with_recover H cfg (init_world (lose victims x) None) = (Ok (m', os), w') /\
      Inv' m' (wfs w') sg /\ SyncedFor sg (wfs w').
  Proof.
    intros x sg v RS.
    assert (RS' : RestS (lose v x) sg) by (apply lose_restS; assumption).
    destruct (rests_open (lose v x) sg (init_world (lose v x) None) RS' eq_refl eq_refl)
      as (m' & os & w' & E & _ & IV & Y).
    now exists m', os, w'.
  Qed.

  (* power loss during recovery: the process is killed after n calls of the recovery and the
     files in [victims] lose their unsynced bytes *)
  Definition loss_open (n : nat) (victims : path -> bool) (x : fs) : fs :=
    lose victims (crash_open H cfg n x).

  Theorem loss_open_restb : forall B n v x sg, RestSB B x sg -> 1 <= B ->
    RestB B (loss_open n v x) sg.
  Proof.
    intros B n v x sg RS B1. unfold loss_open, crash_open.
    destruct (open_powerloss_b B x sg (init_world x None) RS B1 eq_refl eq_refl)
      as (m' & os & w' & E & _ & _ & _ & _ & _ & K).
    rewrite E. cbn [snd].
    exact (proj1 (along_crash cfg n_pos (PLB B sg) x w' n (walk_along _ _ _ K)) v).
  Qed.

  (* when the victims include every segment file, the state after a power loss during
     recovery is again a state of the sync-aware invariant *)
  Theorem loss_open_restsb : forall B n v x sg, RestSB B x sg -> 1 <= B -> wal_victims v ->
    RestSB B (loss_open n v x) sg.
  Proof.
    intros B n v x sg RS B1 Hv. unfold loss_open, crash_open.
    destruct (open_powerloss_b B x sg (init_world x None) RS B1 eq_refl eq_refl)
      as (m' & os & w' & E & _ & _ & _ & _ & _ & K).
    rewrite E. cbn [snd].
    exact (proj2 (along_crash cfg n_pos (PLB B sg) x w' n (walk_along _ _ _ K)) v Hv).
  Qed.

  (* reopening a state of the invariant; if its relevant files are synced, so are those of the
     recovered state *)
  Lemma reopen_b : forall B y sg, RestB B y sg -> 1 <= B ->
    exists m2 os2 w2, open_with_recover H cfg (init_world y None) = (Ok (m2, os2), w2) /\
      wfault w2 = None /\ Inv' m2 (wfs w2) sg /\ nextv (mwal m2) <= B /\
      (SyncedFor sg y -> SyncedFor sg (wfs w2)).
  Proof.
    intros B y sg RB B1.
    destruct (DX rest_open_b B y sg (init_world y None) RB B1 eq_refl eq_refl)
      as (m2 & os2 & w2 & E & F2 & IV & _ & Nv & _).
    exists m2, os2, w2. split; [exact E|]. split; [exact F2|]. split; [exact IV|]. split; [exact Nv|].
    intros Y. destruct (open_powerloss_b B y sg (init_world y None) (conj RB Y) B1 eq_refl eq_refl)
      as (m3 & os3 & w3 & E3 & _ & _ & Y3 & _).
    rewrite E in E3. inversion E3; subst. exact Y3.
  Qed.

  Theorem loss_open_then_open : forall n v x sg, RestS x sg ->
    exists m' os w', open_with_recover H cfg (init_world (loss_open n v x) None) = (Ok (m', os), w') /\
      Inv' m' (wfs w') sg.
  Proof.
    intros n v x sg [R Y]. destruct (rest_restb H cfg n_pos _ _ R) as (B & B1 & RB).
    pose proof (loss_open_restb B n v x sg (conj RB Y) B1) as RX.
    destruct (DX rest_open_b B _ sg (init_world (loss_open n v x) None) RX B1 eq_refl eq_refl)
      as (m' & os & w' & E & _ & IV & _).
    now exists m', os, w'.
  Qed.
  (* the empty directory is a state of the sync-aware invariant, for either choice of
     pre_create_cas_dirs *)
  Lemma rests_empty : c_n cfg < 2 ^ 64 -> RestS empty_fs [].
  Proof.
    intros Nfit. split; [exact (rest_empty H cfg Nfit)|].
    assert (E : forall p, syn empty_fs p) by (intros p f G; discriminate).
    split; [apply E|]. split; [apply E|]. split; intros; apply E.
  Qed.

  (* power loss during the FIRST open of an empty directory, after any number of its calls
     (also in the middle of the mkdir loop of the fan-out tree when pre_create_cas_dirs = true),
     any victim set: the next open succeeds with a handle for the empty map *)
  Theorem first_open_powerloss : c_n cfg < 2 ^ 64 -> forall n v,
    exists m' os w',
      open_with_recover H cfg (init_world (loss_open n v empty_fs) None) = (Ok (m', os), w') /\
      Inv' m' (wfs w') [].
  Proof. intros Nfit n v. exact (loss_open_then_open n v empty_fs [] (rests_empty Nfit)). Qed.
End PowerOpen.

Print Assumptions open_powerloss_b.
Print Assumptions open_powerloss.
Print Assumptions loss_at_rest.
Print Assumptions loss_open_then_open.
Print Assumptions first_open_powerloss.
