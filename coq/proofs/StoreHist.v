(* StoreHist.v -- C01: a whole history of API calls on one open handle refines a plain ordered
   map (fault-free); C07 / C06 along the history; first-time initialisation (open_fresh);
   a closed, computed example. *)
From Cas Require Import History.
From CasProofs Require Import BaseProofs SMapProofs IndexProofs RangeProofs
  StoreFS StoreInv StoreWrite StoreRead.
From Coq Require Import ZifyBool ZifyNat ZifyN.
Open Scope N_scope.

Section StoreHist.
  Variable H : bytes -> bytes.
  Hypothesis H_len : forall b, length (H b) = 32%nat.
  Hypothesis H_byte : forall b, Forall (fun x => x < 256) (H b).
  Variable cfg : config.
  Hypothesis n_pos : 0 < c_n cfg.
  Let cmp := key_cmp (c_kt cfg).

  Local Notation KX L :=
    (L cmp (key_cmp_refl _) (key_cmp_eq _) (key_cmp_antisym _) (key_cmp_trans _)) (only parsing).
  Local Notation item_of := (item_of H).
  Local Notation km_of := (km_of H).
  Local Notation NoCollide := (NoCollide H).
  Local Notation Live0 := (Live0 H cfg).
  Local Notation Clean := (Clean H).
  Local Notation CasNamed := (CasNamed H).
  Local Notation Post := (Post H cfg).

  (* ---------------------------------------------------------------- *)
  (* H1. the specification                                             *)
  (* ---------------------------------------------------------------- *)
  Definition spec_out (sg : smap bytes) (o : op) : out :=
    match o with
    | OpPut _ _ | OpAbort _ _ | OpCheckpoint => OutUnit
    | OpRemove k => OutBool (match sm_get cmp sg k with Some _ => true | None => false end)
    | OpRemoveRange lo hi =>
      OutNum (N.of_nat (length (filter (fun e => in_range cmp lo hi (fst e)) sg)))
    | OpGet k | OpGetReader k => OutBytes (sm_get cmp sg k)
    | OpGetSize k => OutSize (option_map len (sm_get cmp sg k))
    | OpGetRange k a b =>
      match sm_get cmp sg k with
      | None => OutBytes None
      | Some c => if (b <? a) && (a <? len c) then OutErr EInvalidRange
                  else OutBytes (Some (slice c a b))
      end
    | OpIter => OutEntries (km_of sg)
    | OpRange lo hi => OutEntries (km_of (filter (fun e => in_range cmp lo hi (fst e)) sg))
    | _ => OutClosed
    end.

  Fixpoint spec_outs (sg : smap bytes) (ops : list op) : list out :=
    match ops with
    | [] => []
    | o :: r => spec_out sg o :: spec_outs (spec_step cmp sg o) r
    end.

  (* the calls covered: the data API on an open handle; range bounds that make
     BTreeMap::range panic are excluded *)
  Definition api_op (o : op) : Prop :=
    match o with
    | OpPut _ _ | OpAbort _ _ | OpRemove _ | OpCheckpoint | OpGet _ | OpGetReader _
    | OpGetSize _ | OpGetRange _ _ _ | OpIter => True
    | OpRemoveRange lo hi | OpRange lo hi => range_panics cmp lo hi = false
    | _ => False
    end.

  Definition op_contents (o : op) : list bytes :=
    match o with OpPut _ chunks => [concat chunks] | _ => [] end.
  Definition hist_contents (ops : list op) : list bytes := flat_map op_contents ops.

  Lemma spec_step_contents : forall sg o x, In x (map snd (spec_step cmp sg o)) ->
    In x (op_contents o) \/ In x (map snd sg).
  Proof.
    intros sg o x Ix. apply in_map_iff in Ix. destruct Ix as ([k c] & <- & Ik). cbn [snd].
    destruct o; cbn [spec_step op_contents] in *;
      try (right; apply in_map_iff; now exists (k, c)).
    - apply (KX In_ins) in Ik. destruct Ik as [Ik|Ik].
      + inversion Ik. left. now left.
      + right. apply in_map_iff. now exists (k, c).
    - apply (KX In_del) in Ik. right. apply in_map_iff. now exists (k, c).
    - right. apply in_map_iff. exists (k, c). split; [reflexivity|].
      destruct (nonempty sg && range_panics cmp lo hi); [exact Ik|].
      apply filter_In in Ik. tauto.
  Qed.

  Lemma Post_trans : forall s sg w w1 m1 sg1 w2 m2 sg2,
    Post s sg w w1 m1 sg1 -> Post (wfs w1) sg1 w1 w2 m2 sg2 -> Post s sg w w2 m2 sg2.
  Proof.
    intros s sg w w1 m1 sg1 w2 m2 sg2 (X1 & L1 & W1 & C1 & N1) (X2 & L2 & W2 & C2 & N2).
    split; [eapply ext_trans; eassumption|]. split; [exact L2|]. split; [auto|]. split; auto.
  Qed.

  (* ---------------------------------------------------------------- *)
  (* H2. one call                                                      *)
  (* ---------------------------------------------------------------- *)
  Lemma step_ok : forall m s sg os o w,
    Live0 m s sg -> wfs w = s -> wfault w = None -> api_op o ->
    NoCollide (op_contents o ++ map snd sg) ->
    exists m' w',
      step H (Some (mkHandle cfg m os)) o w = ((spec_out sg o, Some (mkHandle cfg m' os)), w') /\
      wfault w' = None /\ Post s sg w w' m' (spec_step cmp sg o).
  Proof.
    intros m s sg os o w L Ws F A NC.
    assert (RD : forall (x : out),
              exists m' w', (x, Some (mkHandle cfg m os), w) = (x, Some (mkHandle cfg m' os), w') /\
                            wfault w' = None /\ Post s sg w w' m' sg).
    { intros x. exists m, w. split; [reflexivity|]. split; [exact F|].
      now apply (Post_refl H cfg). }
    destruct o; cbn [api_op] in A; try contradiction;
      cbn [step h_cfg h_mem h_ostats spec_out spec_step op_contents] in *.
    - (* put *)
      destruct (put_spec H H_len H_byte cfg n_pos m s sg k chunks w L Ws F NC)
        as (m' & w' & E & F' & P).
      exists m', w'. rewrite (bind_eq _ _ _ _ _ E). split; [reflexivity|]. now split.
    - (* abort *)
      destruct (abort_post H H_len H_byte cfg n_pos m s sg k chunks w L Ws F) as (w' & E & F' & P).
      exists m, w'. rewrite (bind_eq _ _ _ _ _ E). split; [reflexivity|]. now split.
    - (* remove *)
      destruct (remove_spec H H_len H_byte cfg n_pos m s sg k w L Ws F)
        as (m' & w' & E & F' & P & _).
      exists m', w'. rewrite (bind_eq _ _ _ _ _ E). split; [reflexivity|]. now split.
    - (* remove_range *)
      assert (NP : (nonempty (km (idx m)) && range_panics cmp lo hi) = false)
        by (rewrite A; apply andb_false_r).
      destruct (remove_range_spec H H_len H_byte cfg n_pos m s sg lo hi w L Ws F NP)
        as (m' & w' & E & F' & P).
      exists m', w'. rewrite (bind_eq _ _ _ _ _ E). fold cmp. rewrite A, andb_false_r.
      split; [reflexivity|]. now split.
    - (* checkpoint *)
      destruct (checkpoint_spec H H_len H_byte cfg n_pos m s sg w L Ws F) as (m' & w' & E & F' & P).
      exists m', w'. rewrite (bind_eq _ _ _ _ _ E). split; [reflexivity|]. now split.
    - (* get *)
      unfold bind, get_fs, ret. rewrite Ws, (get_spec H cfg m s sg k L). apply RD.
    - (* get_size *)
      unfold ret. rewrite (get_size_spec H cfg m s sg k L). apply RD.
    - (* get_range *)
      unfold bind, get_fs, ret. rewrite Ws, (get_range_spec H H_len H_byte cfg n_pos m s sg k a b L). fold cmp.
      destruct (sm_get cmp sg k) as [c|]; [|apply RD].
      destruct ((b <? a) && (a <? len c)); apply RD.
    - (* get via reader *)
      unfold bind, get_fs, ret. rewrite Ws, (get_spec H cfg m s sg k L). apply RD.
    - (* iter *)
      unfold ret. rewrite (iter_spec H cfg m s sg L). apply RD.
    - (* range *)
      assert (NP : (nonempty (km (idx m)) && range_panics cmp lo hi) = false)
        by (rewrite A; apply andb_false_r).
      unfold ret. rewrite (range_iter_spec H cfg m s sg lo hi L NP). apply RD.
  Qed.

  (* ---------------------------------------------------------------- *)
  (* H3. whole histories                                               *)
  (* ---------------------------------------------------------------- *)
  Theorem C01_full : forall ops m s sg os w,
    Live0 m s sg -> wfs w = s -> wfault w = None -> Forall api_op ops ->
    NoCollide (hist_contents ops ++ map snd sg) ->
    exists m' w',
      run_ops H (Some (mkHandle cfg m os)) ops w
      = ((spec_outs sg ops, Some (mkHandle cfg m' os)), w') /\
      wfault w' = None /\ Post s sg w w' m' (fold_left (spec_step cmp) ops sg).
  Proof.
    induction ops as [|o ops IH]; intros m s sg os w L Ws F A NC.
    - exists m, w. split; [reflexivity|]. split; [exact F|]. now apply (Post_refl H cfg).
    - inversion A as [|? ? Ao Aops]; subst.
      destruct (step_ok m (wfs w) sg os o w L eq_refl F Ao) as (m1 & w1 & E1 & F1 & P1).
      { eapply (NoCollide_incl H); [|exact NC]. intros x Ix. cbn [hist_contents flat_map].
        rewrite <- app_assoc. apply in_app_or in Ix. apply in_or_app.
        destruct Ix; [now left|right; apply in_or_app; now right]. }
      destruct (IH m1 (wfs w1) (spec_step cmp sg o) os w1 (proj1 (proj2 P1)) eq_refl F1 Aops)
        as (m2 & w2 & E2 & F2 & P2).
      { eapply (NoCollide_incl H); [|exact NC]. intros x Ix. cbn [hist_contents flat_map].
        rewrite <- app_assoc. apply in_app_or in Ix. apply in_or_app.
        destruct Ix as [Ix|Ix]; [right; apply in_or_app; now left|].
        apply spec_step_contents in Ix. destruct Ix; [now left|right; apply in_or_app; now right]. }
      exists m2, w2. cbn [run_ops spec_outs fold_left].
      rewrite (bind_eq _ _ _ _ _ E1). cbn [snd fst]. rewrite (bind_eq _ _ _ _ _ E2).
      split; [reflexivity|]. split; [exact F2|]. eapply Post_trans; eassumption.
  Qed.

  (* C01: the outputs of a history are those of the ordered map, and the invariant holds at
     the end (so the history can be continued) *)
  Theorem C01_refines_ordered_map : forall ops m s sg os w,
    Live0 m s sg -> wfs w = s -> wfault w = None -> Forall api_op ops ->
    NoCollide (hist_contents ops ++ map snd sg) ->
    exists outs hd' w',
      run_ops H (Some (mkHandle cfg m os)) ops w = ((outs, Some hd'), w') /\
      outs = spec_outs sg ops /\
      Live0 (h_mem hd') (wfs w') (fold_left (spec_step cmp) ops sg) /\ h_cfg hd' = cfg /\
      wfault w' = None.
  Proof.
    intros ops m s sg os w L Ws F A NC.
    destruct (C01_full ops m s sg os w L Ws F A NC) as (m' & w' & E & F' & P).
    exists (spec_outs sg ops), (mkHandle cfg m' os), w'. split; [exact E|].
    split; [reflexivity|]. split; [exact (proj1 (proj2 P))|]. split; [reflexivity|exact F'].
  Qed.

  (* C07: exact reclamation along the whole history (on filesystems without duplicate
     entries, see FsWf) *)
  Theorem C07_exact_seq : forall ops m s sg os w,
    Live0 m s sg -> wfs w = s -> wfault w = None -> Forall api_op ops ->
    NoCollide (hist_contents ops ++ map snd sg) -> FsWf s -> Clean s sg ->
    exists r w', run_ops H (Some (mkHandle cfg m os)) ops w = (r, w') /\
                 FsWf (wfs w') /\ Clean (wfs w') (fold_left (spec_step cmp) ops sg).
  Proof.
    intros ops m s sg os w L Ws F A NC W C.
    destruct (C01_full ops m s sg os w L Ws F A NC) as (m' & w' & E & F' & _ & _ & W' & C' & _).
    eexists _, w'. split; [exact E|]. split; auto.
  Qed.

  (* C06: blobs keep the content their name promises, and the trace never writes under cas/ *)
  Theorem C06_cas_immutable_seq : forall ops m s sg os w,
    Live0 m s sg -> wfs w = s -> wfault w = None -> Forall api_op ops ->
    NoCollide (hist_contents ops ++ map snd sg) ->
    exists r w', run_ops H (Some (mkHandle cfg m os)) ops w = (r, w') /\
                 (FsWf s -> CasNamed s -> CasNamed (wfs w')) /\
                 exists tr, wtrace w' = tr ++ wtrace w /\ Forall cas_safe tr.
  Proof.
    intros ops m s sg os w L Ws F A NC.
    destruct (C01_full ops m s sg os w L Ws F A NC) as (m' & w' & E & F' & X & _ & _ & _ & N').
    eexists _, w'. split; [exact E|]. split; [exact N'|exact (proj2 X)].
  Qed.

  (* ---------------------------------------------------------------- *)
  (* H4. first-time initialisation                                     *)
  (* ---------------------------------------------------------------- *)
  Definition is_rootfile (q : path) : Prop :=
    match q with PStaging _ | PCas _ => False | _ => True end.

  Lemma wal_ids_nil : forall s, (forall i, fget s (PWal i) = None) -> wal_ids s = [].
  Proof.
    intros [fl ds ns]. unfold wal_ids, fget. cbn [files].
    induction fl as [|[q f] fl IH]; intros N; [reflexivity|].
    cbn [fold_right fst].
    destruct q; try (apply IH; intros j; specialize (N j); cbn [lookup path_eqb] in N; exact N).
    specialize (N id). cbn [lookup] in N. rewrite path_eqb_refl in N. discriminate.
  Qed.

  Lemma index_load_fresh : forall pre w, wfault w = None ->
    (forall i, fget (wfs w) (PWal i) = None) -> fget (wfs w) PIndex = None ->
    exists w', index_load H cfg pre w = (Ok (mkMem empty_istate (mkWal (0 + 1) None) pre), w') /\
               Step is_rootfile (ev_on is_rootfile) w w'.
  Proof.
    intros pre w F GW GI. unfold index_load. unfold bind at 1, get_fs at 1. rewrite GI. cbv zeta.
    cbn [lpv empty_istate]. rewrite (wal_ids_nil _ GW). cbn [sort_ids fold_right replay_segments].
    change (0 + 1 - 1) with 0. rewrite N.div_0_l by lia. rewrite (GW 0).
    destruct (call_create is_rootfile w (PWal 0) F I eq_refl) as (w5 & E5 & W5 & S5).
    destruct (call_sync is_rootfile w5 (PWal 0) (mkFile [] 0) (st_fault _ _ _ _ S5) I)
      as (w6 & E6 & W6 & S6).
    { rewrite W5. apply fget_upd_same. }
    assert (EB : (do! x <- do_call (CCreate (PWal 0)) ;;
                  match x with Err e => ret (Err e) | Ok _ => do_call (CSync (PWal 0)) end) w
                 = (Ok tt, w6)).
    { rewrite (bind_eq _ _ _ _ _ E5). exact E6. }
    rewrite (bind_eq _ _ _ _ _ EB). change (0 <? 0) with false. cbv iota.
    exists w6. split; [reflexivity|]. eapply step_trans; eassumption.
  Qed.

  Theorem open_fresh : c_pre cfg = false ->
    exists m os w', open_with_recover H cfg (init_world empty_fs None) = (Ok (m, os), w') /\
      wfault w' = None /\ Live0 m (wfs w') [] /\ Clean (wfs w') [] /\ CasNamed (wfs w') /\
      FsWf (wfs w').
  Proof.
    intros Pre. set (w0 := init_world empty_fs None). unfold open_with_recover.
    destruct (mkdir_p_ok [s_staging] w0 eq_refl (or_introl eq_refl)) as (w1 & E1 & G1 & D1).
    rewrite (bind_eq _ _ _ _ _ E1).
    destruct (mkdir_p_ok [s_cas] w1 (proj1 (gr_ext _ _ G1)) (or_introl eq_refl)) as (w2 & E2 & G2 & D2).
    rewrite (bind_eq _ _ _ _ _ E2).
    pose proof (grow_trans _ _ _ G1 G2) as G02.
    destruct (call_create is_rootfile w2 PLock (proj1 (gr_ext _ _ G2)) I eq_refl) as (w3 & E3 & W3 & S3).
    rewrite (bind_eq _ _ _ _ _ E3).
    assert (Fl2 : files (wfs w2) = []) by (rewrite (gr_files _ _ G02); reflexivity).
    assert (G2n : forall q, fget (wfs w2) q = None) by (intros q; unfold fget; now rewrite Fl2).
    assert (G3n : forall q, q <> PLock -> fget (wfs w3) q = None).
    { intros q Nq. rewrite W3, fget_upd_other by exact Nq. apply G2n. }
    unfold bind at 1, read_file at 1. rewrite G3n by discriminate. rewrite Pre.
    destruct (atomic_write_ok PSettings PSettingsTmp (enc_settings CURRENT_DB_VERSION false (c_n cfg))
                w3 (st_fault _ _ _ _ S3) eq_refl eq_refl) as (w4 & E4 & S4 & _).
    assert (S4' : Step is_rootfile (ev_on is_rootfile) w3 w4).
    { eapply step_weaken; [| |exact S4].
      - intros q [->| ->]; exact I.
      - intros e. apply ev_on_weaken. intros q [->| ->]; exact I. }
    assert (G4n : forall q, q <> PLock -> q <> PSettings -> q <> PSettingsTmp -> fget (wfs w4) q = None).
    { intros q N1 N2 N3. destruct (fr_get _ _ _ (st_frame _ _ _ _ S4) q) as [[X|X]|X];
        [contradiction|contradiction|]. rewrite X. now apply G3n. }
    destruct (index_load_fresh false w4 (st_fault _ _ _ _ S4)) as (w6 & E6 & S6).
    { intros i. apply G4n; discriminate. }
    { apply G4n; discriminate. }
    unfold bind, ret. rewrite E4, E6. unfold get_fs.
    eexists _, _, w6. split; [reflexivity|].
    pose proof (step_trans _ _ _ _ _ S3 (step_trans _ _ _ _ _ S4' S6)) as S26.
    assert (G6n : forall q, ~ is_rootfile q -> fget (wfs w6) q = None).
    { intros q Nq. destruct (fr_get _ _ _ (st_frame _ _ _ _ S26) q) as [X|X]; [contradiction|].
      rewrite X. apply G2n. }
    assert (Dirs6 : forall d, has_dir (wfs w2) d = true -> has_dir (wfs w6) d = true).
    { intros d. unfold has_dir. now rewrite (fr_dirs _ _ _ (st_frame _ _ _ _ S26)). }
    split; [exact (st_fault _ _ _ _ S26)|]. split; [|split; [|split]].
    - constructor.
      + exact I.
      + reflexivity.
      + apply C12_empty.
      + intros a b [].
      + intros k c [].
      + intros i _. apply G6n. intros X; exact X.
      + split; [apply Dirs6, (gr_dirs _ _ G2), D1|]. split; [apply Dirs6, D2|]. discriminate.
      + split; [cbn [mwal nextv]; lia|exact I].
    - split.
      + intros comps f Gf. rewrite G6n in Gf; [discriminate|intros X; exact X].
      + intros i. apply G6n. intros X; exact X.
    - intros comps f Gf. rewrite G6n in Gf; [discriminate|intros X; exact X].
    - apply (fr_wf _ _ _ (st_frame _ _ _ _ S26)). unfold FsWf. rewrite Fl2. constructor.
  Qed.

  (* C01 from a fresh directory: open, then any history of API calls *)
  Theorem C01_from_fresh : forall ops, c_pre cfg = false -> Forall api_op ops ->
    NoCollide (hist_contents ops) ->
    exists os hd' w',
      run_ops H None (OpOpen cfg false :: ops) (init_world empty_fs None)
      = ((OutOpened os :: spec_outs [] ops, Some hd'), w') /\
      h_cfg hd' = cfg /\ wfault w' = None /\
      Live0 (h_mem hd') (wfs w') (fold_left (spec_step cmp) ops []) /\
      Clean (wfs w') (fold_left (spec_step cmp) ops []) /\ CasNamed (wfs w').
  Proof.
    intros ops Pre A NC.
    destruct (open_fresh Pre) as (m & os & w1 & E1 & F1 & L1 & C1 & N1 & W1).
    destruct (C01_full ops m (wfs w1) [] os w1 L1 eq_refl F1 A) as (m' & w' & E & F' & P).
    { now rewrite app_nil_r. }
    exists os, (mkHandle cfg m' os), w'. cbn [run_ops step].
    assert (E0 : (do! r <- open_with_recover H cfg ;;
                  match r with
                  | Ok (m0, os0) => ret (OutOpened os0, Some (mkHandle cfg m0 os0))
                  | Err e => ret (OutErr e, None)
                  end) (init_world empty_fs None)
                 = ((OutOpened os, Some (mkHandle cfg m os)), w1)).
    { rewrite (bind_eq _ _ _ _ _ E1). reflexivity. }
    rewrite (bind_eq _ _ _ _ _ E0). cbn [snd fst]. rewrite (bind_eq _ _ _ _ _ E).
    split; [reflexivity|]. split; [reflexivity|]. split; [exact F'|].
    destruct P as (_ & L' & _ & C' & N'). split; [exact L'|]. split; auto.
  Qed.
End StoreHist.

Print Assumptions C01_refines_ordered_map.
Print Assumptions C07_exact_seq.
Print Assumptions C06_cas_immutable_seq.
Print Assumptions open_fresh.
Print Assumptions C01_from_fresh.

(* ------------------------------------------------------------------ *)
(* H5. a closed, computed instance                                     *)
(* ------------------------------------------------------------------ *)
(* a toy hash: 32 copies of the length (mod 256): well-formed, and collision-free on contents
   of different lengths below 256 *)
Definition toyH (b : bytes) : bytes := repeat (N.of_nat (length b) mod 256) 32.
Definition toy_cfg : config := mkConfig KBytes 2 true false false false false.

Lemma toyH_len : forall b, length (toyH b) = 32%nat.
Proof. intros b. apply repeat_length. Qed.

Lemma toyH_byte : forall b, Forall (fun x => x < 256) (toyH b).
Proof.
  intros b. apply Forall_forall. intros x Ix. apply repeat_spec in Ix. subst x.
  apply N.mod_lt. discriminate.
Qed.

Definition toy_k1 : bytes := [1]. Definition toy_k2 : bytes := [2].
Definition toy_c1 : bytes := [10; 11; 12]. Definition toy_c2 : bytes := [13; 14].
Definition toy_ops : list op :=
  [OpPut toy_k1 [toy_c1]; OpPut toy_k2 [toy_c1; toy_c2]; OpGet toy_k1; OpRemove toy_k1;
   OpGet toy_k1; OpGet toy_k2; OpIter; OpCheckpoint; OpGetRange toy_k2 1 3;
   OpRemoveRange Unb Unb; OpIter].

(* the model, run from an empty directory, produces exactly the specified outputs *)
Example toy_run_matches_spec :
  fst (fst (run_hist toyH empty_fs None (OpOpen toy_cfg false :: toy_ops)))
  = OutOpened None :: spec_outs toyH toy_cfg [] toy_ops.
Proof. vm_compute. reflexivity. Qed.

Example toy_run_outputs :
  fst (fst (run_hist toyH empty_fs None (OpOpen toy_cfg false :: toy_ops)))
  = [OutOpened None; OutUnit; OutUnit; OutBytes (Some toy_c1); OutBool true; OutBytes None;
     OutBytes (Some (toy_c1 ++ toy_c2));
     OutEntries [(toy_k2, mkItem (toyH (toy_c1 ++ toy_c2)) 5)];
     OutUnit; OutBytes (Some [11; 12]); OutNum 1; OutEntries []].
Proof. vm_compute. reflexivity. Qed.

(* after the history: nothing is left under cas/ or staging/ *)
Example toy_run_clean :
  let w := snd (run_hist toyH empty_fs None (OpOpen toy_cfg false :: toy_ops)) in
  filter (fun pf => match fst pf with PCas _ | PStaging _ => true | _ => false end) (files (wfs w)) = [].
Proof. vm_compute. reflexivity. Qed.

(* the hypotheses of the theorems are satisfiable: the general theorem applies to the toy
   instance (and agrees with the computation above) *)
Lemma toy_nocollide : NoCollide toyH (hist_contents toy_ops).
Proof.
  intros a b Ia Ib E. cbn in Ia, Ib.
  destruct Ia as [<-|[<-|[]]]; destruct Ib as [<-|[<-|[]]]; try reflexivity;
    vm_compute in E; discriminate.
Qed.

Example toy_theorem_instance :
  exists os hd' w',
    run_ops toyH None (OpOpen toy_cfg false :: toy_ops) (init_world empty_fs None)
    = ((OutOpened os :: spec_outs toyH toy_cfg [] toy_ops, Some hd'), w') /\
    Clean toyH (wfs w') [] /\ CasNamed toyH (wfs w').
Proof.
  destruct (C01_from_fresh toyH toyH_len toyH_byte toy_cfg eq_refl toy_ops eq_refl)
    as (os & hd' & w' & E & _ & _ & _ & C & N).
  - repeat constructor.
  - exact toy_nocollide.
  - exists os, hd', w'. split; [exact E|]. split; [exact C|exact N].
Qed.

Print Assumptions toy_run_matches_spec.
Print Assumptions toy_theorem_instance.
