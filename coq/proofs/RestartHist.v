(* RestartHist.v -- C02 at the level of histories (F4): restarts (close, then open with the
   same configuration) anywhere in a history of API calls, any number of times, are invisible;
   and the at-rest part of C20 (F5): a disk satisfying [DiskOk] is well-formed and decodes, with
   the model's readers, to the abstract map. *)
From Cas Require Import History.
From CasProofs Require Import BaseProofs CodecBase CodecProofs SMapProofs IndexProofs
  StoreFS StoreInv StoreWrite StoreRead StoreHist DiskInv Recover.
From Coq Require Import ZifyBool ZifyNat ZifyN.
Open Scope N_scope.

Arguments N.add : simpl never.
Arguments N.sub : simpl never.
Arguments N.mul : simpl never.
Arguments N.div : simpl never.
Arguments N.modulo : simpl never.
Arguments N.eqb : simpl never.
Arguments N.ltb : simpl never.
Arguments N.leb : simpl never.
Arguments N.pow : simpl never.
Arguments N.max : simpl never.

(* a restart is the two-element sublist [OpClose; OpOpen _ false]; erasing the restarts of a
   history, and the outputs they produce *)
Fixpoint erase_restarts (ops : list op) : list op :=
  match ops with
  | [] => []
  | OpClose :: r =>
    match r with
    | OpOpen _ false :: r' => erase_restarts r'
    | _ => OpClose :: erase_restarts r
    end
  | o :: r => o :: erase_restarts r
  end.

Fixpoint strip_restarts (ops : list op) (outs : list out) : list out :=
  match ops, outs with
  | OpClose :: r, x :: t =>
    match r, t with
    | OpOpen _ false :: r', _ :: t' => strip_restarts r' t'
    | _, _ => x :: strip_restarts r t
    end
  | _ :: r, x :: t => x :: strip_restarts r t
  | _, _ => []
  end.

(* every OpOpen of the history answered OutOpened (never an error) *)
Fixpoint opens_ok (ops : list op) (outs : list out) : Prop :=
  match ops, outs with
  | [], [] => True
  | o :: r, x :: t =>
    match o with OpOpen _ _ => (exists os, x = OutOpened os) | _ => True end /\ opens_ok r t
  | _, _ => False
  end.

Definition is_read (o : op) : Prop :=
  match o with
  | OpGet _ | OpGetSize _ | OpGetRange _ _ _ | OpGetReader _ | OpIter | OpRange _ _ => True
  | _ => False
  end.

Section RestartHist.
  Variable H : bytes -> bytes.
  Hypothesis H_len : forall b, length (H b) = 32%nat.
  Hypothesis H_byte : forall b, Forall (fun x => x < 256) (H b).
  Variable cfg : config.
  Hypothesis n_pos : 0 < c_n cfg.
  Let cmp := key_cmp (c_kt cfg).

  Local Notation KX L :=
    (L cmp (key_cmp_refl _) (key_cmp_eq _) (key_cmp_antisym _) (key_cmp_trans _)) (only parsing).
  Local Notation km_of := (km_of H).
  Local Notation NoCollide := (NoCollide H).
  Local Notation Live0 := (Live0 H cfg).
  Local Notation seg_of := (seg_of cfg).
  Local Notation DiskOk := (DiskOk H cfg).
  Local Notation Inv := (Inv H cfg).
  Local Notation spec_out := (spec_out H cfg).
  Local Notation spec_outs := (spec_outs H cfg).
  Local Notation api_op := (api_op cfg).

  (* ---------------------------------------------------------------- *)
  (* T1. histories with restarts, fitting hypotheses                   *)
  (* ---------------------------------------------------------------- *)
  (* api_op_r: API calls on the open handle, and restarts with the same configuration *)
  Inductive hist_r : list op -> Prop :=
  | hr_nil : hist_r []
  | hr_api : forall o r, api_op o -> hist_r r -> hist_r (o :: r)
  | hr_restart : forall r, hist_r r -> hist_r (OpClose :: OpOpen cfg false :: r).

  (* what an operation must satisfy, in the abstract state it is issued in, for its WAL record
     to fit the formats *)
  Definition op_fits_at (sg : smap bytes) (o : op) : Prop :=
    match o with
    | OpPut k chunks =>
      len k + 45 < 2 ^ 32 /\ key_valid (c_kt cfg) k = true /\ len (concat chunks) < 2 ^ 64
    | OpRemoveRange lo hi =>
      len (enc_op (RRemove (map fst (filter (fun e => in_range cmp lo hi (fst e)) sg)))) < 2 ^ 32
    | _ => True
    end.
  Fixpoint hist_fits (sg : smap bytes) (ops : list op) : Prop :=
    match ops with
    | [] => True
    | o :: r => op_fits_at sg o /\ hist_fits (spec_step cmp sg o) r
    end.

  (* the name used in the property statement *)
  Definition api_op_r : list op -> Prop := hist_r.

  (* restarts do not move the abstract state: fitting may equally be stated on the erased history *)
  Lemma hist_fits_erase : forall ops, hist_r ops -> forall sg,
    hist_fits sg ops <-> hist_fits sg (erase_restarts ops).
  Proof.
    induction 1 as [|o r Ao Hr IH|r Hr IH]; intros sg.
    - tauto.
    - replace (erase_restarts (o :: r)) with (o :: erase_restarts r)
        by (destruct o; try reflexivity; contradiction).
      cbn [hist_fits]. rewrite IH. tauto.
    - cbn [erase_restarts hist_fits op_fits_at spec_step]. rewrite IH. tauto.
  Qed.

  Lemma run_ops_cons : forall hd o r w,
    run_ops H hd (o :: r) w =
    let '(x, w1) := step H hd o w in
    let '(y, w2) := run_ops H (snd x) r w1 in ((fst x :: fst y, snd y), w2).
  Proof.
    intros hd o r w. cbn [run_ops]. unfold bind, ret.
    destruct (step H hd o w) as [x w1]. destruct (run_ops H (snd x) r w1) as [y w2]. reflexivity.
  Qed.

  Lemma read_step : forall m os o w x m' w',
    step H (Some (mkHandle cfg m os)) o w = ((x, Some (mkHandle cfg m' os)), w') ->
    is_read o -> m' = m /\ w' = w.
  Proof.
    intros m os o w x m' w' E R. destruct o; try contradiction;
      cbn [step h_cfg h_mem h_ostats] in E; unfold bind, get_fs, ret in E; inversion E; auto.
  Qed.

  Lemma length_spec_step : forall sg o, (length (spec_step cmp sg o) <= S (length sg))%nat.
  Proof.
    intros sg o. unfold cmp. destruct o; cbn [spec_step]; try lia.
    - apply (length_sm_ins_le H H_len H_byte cfg n_pos).
    - pose proof (length_sm_del_le H H_len H_byte cfg n_pos sg k). lia.
    - destruct (nonempty sg && range_panics _ lo hi); [lia|].
      pose proof (filter_length_le (fun e => negb (in_range (key_cmp (c_kt cfg)) lo hi (fst e))) sg). lia.
  Qed.

  (* one API call keeps all three invariants *)
  Lemma step_inv : forall m s sg os o w,
    Inv m s sg -> wfs w = s -> wfault w = None -> api_op o ->
    NoCollide (op_contents o ++ map snd sg) -> op_fits_at sg o ->
    N.of_nat (length sg) + 1 < 2 ^ 32 -> nextv (mwal m) < 2 ^ 64 ->
    exists m' w',
      step H (Some (mkHandle cfg m os)) o w = ((spec_out sg o, Some (mkHandle cfg m' os)), w') /\
      wfault w' = None /\ Inv m' (wfs w') (spec_step cmp sg o) /\
      nextv (mwal m') <= nextv (mwal m) + 1.
  Proof.
    intros m s sg os o w IV Ws F A NC Fit Ln Lv. pose proof IV as (L & D & Wf).
    assert (RD : is_read o ->
              exists m' w',
                step H (Some (mkHandle cfg m os)) o w
                = ((spec_out sg o, Some (mkHandle cfg m' os)), w') /\
                wfault w' = None /\ Inv m' (wfs w') sg /\ nextv (mwal m') <= nextv (mwal m) + 1).
    { intros R.
      destruct (step_ok H H_len H_byte cfg n_pos m s sg os o w L Ws F A NC) as (m' & w' & E & F' & _).
      destruct (read_step _ _ _ _ _ _ _ E R) as [-> ->].
      exists m, w. split; [exact E|]. split; [exact F|]. split; [now rewrite Ws|lia]. }
    destruct o; cbn [StoreHist.api_op] in A; try contradiction;
      try (apply RD; exact I);
      cbn [step h_cfg h_mem h_ostats StoreHist.spec_out spec_step StoreHist.op_contents op_fits_at] in *.
    - (* put *)
      destruct Fit as (Lk & Vk & Lc).
      destruct (put_disk H H_len H_byte cfg n_pos m s sg k chunks w IV Ws F NC Lk Vk Lc Ln Lv)
        as (m' & w' & E & F' & IV' & Nv).
      exists m', w'. rewrite (bind_eq _ _ _ _ _ E). split; [reflexivity|].
      split; [exact F'|]. split; [exact IV'|lia].
    - (* abort *)
      destruct (abort_disk H H_len H_byte cfg n_pos m s sg k chunks w IV Ws F) as (w' & E & F' & IV').
      exists m, w'. rewrite (bind_eq _ _ _ _ _ E). split; [reflexivity|].
      split; [exact F'|]. split; [exact IV'|lia].
    - (* remove *)
      destruct (remove_disk H H_len H_byte cfg n_pos m s sg k w IV Ws F Lv)
        as (m' & w' & E & F' & IV' & Nv).
      exists m', w'. rewrite (bind_eq _ _ _ _ _ E). split; [reflexivity|].
      split; [exact F'|]. split; [exact IV'|exact Nv].
    - (* remove_range *)
      fold cmp in A.
      assert (NP : (nonempty (km (idx m)) && range_panics cmp lo hi) = false)
        by (rewrite A; apply andb_false_r).
      destruct (remove_range_disk H H_len H_byte cfg n_pos m s sg lo hi w IV Ws F NP Fit Lv)
        as (m' & w' & E & F' & IV' & Nv).
      exists m', w'. rewrite (bind_eq _ _ _ _ _ E). rewrite A, andb_false_r.
      split; [reflexivity|]. split; [exact F'|]. split; [exact IV'|exact Nv].
    - (* checkpoint *)
      destruct (checkpoint_disk H H_len H_byte cfg n_pos m s sg w IV Ws F)
        as (m' & w' & E & F' & IV' & Nv).
      exists m', w'. rewrite (bind_eq _ _ _ _ _ E). split; [reflexivity|].
      split; [exact F'|]. split; [exact IV'|lia].
  Qed.

  (* ---------------------------------------------------------------- *)
  (* T2. whole histories with restarts                                 *)
  (* ---------------------------------------------------------------- *)
  Lemma run_restarts : forall ops, hist_r ops -> forall m s sg os w,
    Inv m s sg -> wfs w = s -> wfault w = None ->
    NoCollide (hist_contents ops ++ map snd sg) ->
    hist_fits sg ops ->
    N.of_nat (length sg) + N.of_nat (length ops) < 2 ^ 32 ->
    nextv (mwal m) + N.of_nat (length ops) <= 2 ^ 32 ->
    exists outs m' os' w',
      run_ops H (Some (mkHandle cfg m os)) ops w = ((outs, Some (mkHandle cfg m' os')), w') /\
      wfault w' = None /\
      strip_restarts ops outs = spec_outs sg (erase_restarts ops) /\
      opens_ok ops outs /\
      Inv m' (wfs w') (fold_left (spec_step cmp) (erase_restarts ops) sg).
  Proof.
    induction 1 as [|o r Ao Hr IH|r Hr IH]; intros m s sg os w IV Ws F NC Fit Ln Lv.
    - exists [], m, os, w. split; [reflexivity|]. split; [exact F|]. split; [reflexivity|].
      split; [exact I|]. cbn [erase_restarts fold_left]. now rewrite Ws.
    - cbn [length] in Ln, Lv. destruct Fit as [Fo Fr].
      destruct (step_inv m s sg os o w IV Ws F Ao) as (m1 & w1 & E1 & F1 & IV1 & Nv1);
        try assumption; try (pow_consts; lia).
      { eapply (NoCollide_incl H); [|exact NC]. intros x Ix. cbn [hist_contents flat_map].
        rewrite <- app_assoc. apply in_app_or in Ix. apply in_or_app.
        destruct Ix; [now left|right; apply in_or_app; now right]. }
      pose proof (length_spec_step sg o) as Lss.
      destruct (IH m1 (wfs w1) (spec_step cmp sg o) os w1 IV1 eq_refl F1)
        as (outs & m2 & os2 & w2 & E2 & F2 & St2 & Op2 & IV2); try assumption; try lia.
      { eapply (NoCollide_incl H); [|exact NC]. intros x Ix. cbn [hist_contents flat_map].
        rewrite <- app_assoc. apply in_app_or in Ix. apply in_or_app.
        destruct Ix as [Ix|Ix]; [right; apply in_or_app; now left|].
        apply (spec_step_contents cfg) in Ix.
        destruct Ix; [now left|right; apply in_or_app; now right]. }
      exists (spec_out sg o :: outs), m2, os2, w2. cbn [run_ops].
      rewrite (bind_eq _ _ _ _ _ E1). cbn [snd fst]. rewrite (bind_eq _ _ _ _ _ E2).
      split; [reflexivity|]. split; [exact F2|].
      assert (Eo : erase_restarts (o :: r) = o :: erase_restarts r)
        by (destruct o; try reflexivity; contradiction).
      assert (So : forall t, strip_restarts (o :: r) (spec_out sg o :: t)
                             = spec_out sg o :: strip_restarts r t)
        by (intros t; destruct o; try reflexivity; contradiction).
      rewrite Eo, So. cbn [StoreHist.spec_outs fold_left opens_ok]. rewrite St2.
      split; [reflexivity|]. split; [|exact IV2]. split; [|exact Op2].
      destruct o; try exact I; contradiction.
    - cbn [length] in Ln, Lv. destruct Fit as [_ [_ Fr]]. cbn [spec_step] in Fr.
      destruct (restart_ok H H_len H_byte cfg n_pos m s sg w IV Ws F)
        as (w1 & m1 & os1 & w2 & Ec & Eo & F2 & _ & _ & _ & _ & Nv & IV2 & _).
      assert (E1 : step H (Some (mkHandle cfg m os)) OpClose w = ((OutUnit, None), w1)).
      { cbn [step h_mem]. rewrite (bind_eq _ _ _ _ _ Ec). reflexivity. }
      assert (E2 : step H None (OpOpen cfg false) w1
                   = ((OutOpened os1, Some (mkHandle cfg m1 os1)), w2)).
      { cbn [step]. rewrite (bind_eq _ _ _ _ _ Eo). reflexivity. }
      destruct (IH m1 (wfs w2) sg os1 w2 IV2 eq_refl F2)
        as (outs & m3 & os3 & w3 & E3 & F3 & St3 & Op3 & IV3); try assumption; try lia.
      exists (OutUnit :: OutOpened os1 :: outs), m3, os3, w3.
      rewrite run_ops_cons, E1. cbn [snd fst]. rewrite run_ops_cons, E2. cbn [snd fst]. rewrite E3.
      split; [reflexivity|]. split; [exact F3|].
      cbn [erase_restarts strip_restarts opens_ok].
      split; [exact St3|]. split; [|exact IV3].
      split; [exact I|]. split; [now exists os1|exact Op3].
  Qed.

  (* C02: from a fresh directory, for every history of API calls with restarts anywhere, any
     number of times: every open answers OutOpened, and the outputs of the API calls are those
     of the ordered-map specification run on the history with the restarts erased.
     Fitting hypotheses: [hist_fits] (keys accepted by the key type and short enough for
     their records, contents shorter than 2^64, range-removal records below 2^32 bytes) and
     fewer than 2^32-1 calls (so the key count and the versions stay in range). *)
  Theorem C02_restart_transparent : forall ops,
    c_pre cfg = false -> c_n cfg < 2 ^ 64 -> hist_r ops ->
    NoCollide (hist_contents ops) -> hist_fits [] ops -> N.of_nat (length ops) < 2 ^ 32 - 1 ->
    exists os0 outs hd' w',
      run_ops H None (OpOpen cfg false :: ops) (init_world empty_fs None)
      = ((OutOpened os0 :: outs, Some hd'), w') /\
      wfault w' = None /\
      strip_restarts ops outs = spec_outs [] (erase_restarts ops) /\
      opens_ok ops outs /\ h_cfg hd' = cfg /\
      Inv (h_mem hd') (wfs w') (fold_left (spec_step cmp) (erase_restarts ops) []).
  Proof.
    intros ops Pre Nfit Hr NC Fit Ln.
    destruct (open_fresh_disk H H_len H_byte cfg n_pos Pre Nfit)
      as (m & os & w1 & E1 & F1 & IV1 & _ & _ & Nv1).
    destruct (run_restarts ops Hr m (wfs w1) [] os w1 IV1 eq_refl F1)
      as (outs & m' & os' & w' & E & F' & St & Op & IV'); try assumption.
    { now rewrite app_nil_r. }
    { cbn [length]. pow_consts. lia. }
    { rewrite Nv1. pow_consts. lia. }
    exists os, outs, (mkHandle cfg m' os'), w'. cbn [run_ops step].
    assert (E0 : (do! r <- open_with_recover H cfg ;;
                  match r with
                  | Ok (m0, os0) => ret (OutOpened os0, Some (mkHandle cfg m0 os0))
                  | Err e => ret (OutErr e, None)
                  end) (init_world empty_fs None)
                 = ((OutOpened os, Some (mkHandle cfg m os)), w1)).
    { rewrite (bind_eq _ _ _ _ _ E1). reflexivity. }
    rewrite (bind_eq _ _ _ _ _ E0). cbn [snd fst]. rewrite (bind_eq _ _ _ _ _ E).
    split; [reflexivity|]. split; [exact F'|]. split; [exact St|]. split; [exact Op|].
    split; [reflexivity|exact IV'].
  Qed.

  (* erasing the restarts of such a history leaves a plain API history with the same contents *)
  Lemma erase_api : forall ops, hist_r ops -> Forall api_op (erase_restarts ops).
  Proof.
    induction 1 as [|o r Ao Hr IH|r Hr IH].
    - constructor.
    - replace (erase_restarts (o :: r)) with (o :: erase_restarts r)
        by (destruct o; try reflexivity; contradiction).
      now constructor.
    - exact IH.
  Qed.

  Lemma erase_contents : forall ops, hist_r ops ->
    hist_contents (erase_restarts ops) = hist_contents ops.
  Proof.
    induction 1 as [|o r Ao Hr IH|r Hr IH].
    - reflexivity.
    - replace (erase_restarts (o :: r)) with (o :: erase_restarts r)
        by (destruct o; try reflexivity; contradiction).
      cbn [hist_contents flat_map]. f_equal. exact IH.
    - exact IH.
  Qed.

  (* C02, observations: the handle at the end of a history with restarts carries the same key
     map, reference counts and statistics as the handle at the end of the history without *)
  Theorem C02_observations_equal : forall ops,
    c_pre cfg = false -> c_n cfg < 2 ^ 64 -> hist_r ops ->
    NoCollide (hist_contents ops) -> hist_fits [] ops -> N.of_nat (length ops) < 2 ^ 32 - 1 ->
    exists r1 hd1 w1 r2 hd2 w2,
      run_ops H None (OpOpen cfg false :: ops) (init_world empty_fs None) = ((r1, Some hd1), w1) /\
      run_ops H None (OpOpen cfg false :: erase_restarts ops) (init_world empty_fs None)
      = ((r2, Some hd2), w2) /\
      km (idx (h_mem hd1)) = km (idx (h_mem hd2)) /\ rc (idx (h_mem hd1)) = rc (idx (h_mem hd2)) /\
      ub (idx (h_mem hd1)) = ub (idx (h_mem hd2)) /\ tb (idx (h_mem hd1)) = tb (idx (h_mem hd2)).
  Proof.
    intros ops Pre Nfit Hr NC Fit Ln.
    destruct (C02_restart_transparent ops Pre Nfit Hr NC Fit Ln)
      as (os0 & outs & hd1 & w1 & E1 & _ & _ & _ & _ & (L1 & _ & _)).
    destruct (C01_from_fresh H H_len H_byte cfg n_pos (erase_restarts ops) Pre (erase_api ops Hr))
      as (os2 & hd2 & w2 & E2 & _ & _ & L2 & _).
    { now rewrite erase_contents. }
    fold cmp in L2.
    exists (OutOpened os0 :: outs), hd1, w1, (OutOpened os2 :: spec_outs [] (erase_restarts ops)), hd2, w2.
    split; [exact E1|]. split; [exact E2|].
    destruct L1 as [_ K1 I1 _ _ _ _ _]. destruct L2 as [_ K2 I2 _ _ _ _ _].
    assert (K : km (idx (h_mem hd1)) = km (idx (h_mem hd2))) by congruence.
    split; [exact K|]. exact (IdxInv_unique cfg _ _ I1 I2 K).
  Qed.
End RestartHist.

Print Assumptions C02_restart_transparent.
Print Assumptions C02_observations_equal.

(* ------------------------------------------------------------------ *)
(* T3. a closed, computed instance (toy hash and configuration of StoreHist.v: 2 operations
   per WAL segment, so roll-over, checkpoint and pruning all occur)    *)
(* ------------------------------------------------------------------ *)
Definition restart : list op := [OpClose; OpOpen toy_cfg false].
Definition toy_ops_r : list op :=
  [OpPut toy_k1 [toy_c1]] ++ restart ++
  [OpGet toy_k1; OpPut toy_k2 [toy_c1; toy_c2]; OpCheckpoint] ++ restart ++ restart ++
  [OpRemove toy_k1; OpPut toy_k1 [toy_c2]] ++ restart ++
  [OpIter; OpRemoveRange Unb Unb] ++ restart ++ [OpIter].

Example toy_erase :
  erase_restarts toy_ops_r =
  [OpPut toy_k1 [toy_c1]; OpGet toy_k1; OpPut toy_k2 [toy_c1; toy_c2]; OpCheckpoint;
   OpRemove toy_k1; OpPut toy_k1 [toy_c2]; OpIter; OpRemoveRange Unb Unb; OpIter].
Proof. reflexivity. Qed.

(* the model, run from an empty directory with the restarts in place, answers the API calls
   exactly as the specification answers the history without restarts *)
Example toy_restart_run_matches_spec :
  strip_restarts toy_ops_r
    (tl (fst (fst (run_hist StoreHist.toyH empty_fs None (OpOpen toy_cfg false :: toy_ops_r)))))
  = spec_outs StoreHist.toyH toy_cfg [] (erase_restarts toy_ops_r).
Proof. vm_compute. reflexivity. Qed.

Lemma toy_hist_r : hist_r toy_cfg toy_ops_r.
Proof. repeat (first [apply hr_restart | apply hr_api; [exact I || reflexivity|] | apply hr_nil]). Qed.

Lemma toy_nocollide_r : NoCollide StoreHist.toyH (hist_contents toy_ops_r).
Proof.
  intros a b Ia Ib E. cbn in Ia, Ib.
  destruct Ia as [<-|[<-|[<-|[]]]]; destruct Ib as [<-|[<-|[<-|[]]]]; try reflexivity;
    vm_compute in E; discriminate.
Qed.

Lemma toy_hist_fits : hist_fits toy_cfg [] toy_ops_r.
Proof. vm_compute. repeat split. Qed.

(* the hypotheses of the theorem are satisfiable *)
Example toy_restart_theorem_instance :
  exists os0 outs hd' w',
    run_ops StoreHist.toyH None (OpOpen toy_cfg false :: toy_ops_r) (init_world empty_fs None)
    = ((OutOpened os0 :: outs, Some hd'), w') /\
    strip_restarts toy_ops_r outs = spec_outs StoreHist.toyH toy_cfg [] (erase_restarts toy_ops_r) /\
    opens_ok toy_ops_r outs.
Proof.
  destruct (C02_restart_transparent StoreHist.toyH StoreHist.toyH_len StoreHist.toyH_byte toy_cfg
              eq_refl toy_ops_r eq_refl)
    as (os0 & outs & hd' & w' & E & _ & St & Op & _).
  - reflexivity.
  - exact toy_hist_r.
  - exact toy_nocollide_r.
  - exact toy_hist_fits.
  - reflexivity.
  - exists os0, outs, hd', w'. split; [exact E|]. split; assumption.
Qed.

Print Assumptions toy_restart_run_matches_spec.
Print Assumptions toy_restart_theorem_instance.
