(* ConcDurable.v -- the bridge between the concurrent model (theories/Conc.v, which carries no
   bytes of the write-ahead log) and the recovery of the sequential model (theories/Store.v):

     the records that the WLockW steps of ANY concurrent run append -- version i+1 and the encoded
     operation for the i-th entry of the write log of proofs/ConcLin.v -- are replayed by
     Store.replay_records (the inner loop of WalReplayer::replay) into exactly the index the
     threads built in memory: same key map, same reference counts, same statistics; and the next
     version the recovered store hands out is the concurrent run's next version.

   So a clean restart (C02), and the recovery after a kill (C03: the log is only ever appended to,
   one record per WLockW step, under the W lock) see the linearisation order of C05, whatever the
   interleaving was.  Versions are dense and follow the log order ([wlog_versions]), every logged
   operation is applicable where the replay meets it ([wlog_respects]).

   Hypothesis [Forall op_good]: every logged operation fits the format's size fields and its
   keys are valid for the key type (Recover.v needs it for decode (encode o) = o).  It is a
   hypothesis on the thread programs' keys and contents; [C02_conc_ex] shows a run meeting it. *)
From Cas Require Import Base Codec SMap Index Conc Store.
From CasProofs Require Import BaseProofs CodecBase CodecProofs SMapProofs IndexProofs ConcInv ConcProofs ConcExamples ConcLin DiskInv Recover.
From Coq Require Import List NArith Lia Bool Arith.
Import ListNotations.
Open Scope N_scope.

Arguments N.add : simpl never.
Arguments N.sub : simpl never.
Arguments N.mul : simpl never.
Arguments N.div : simpl never.
Arguments N.max : simpl never.

Lemma enc_from_max : forall ops v hi, hi < v ->
  fold_left N.max (map fst (enc_from v ops)) hi =
  match ops with [] => hi | _ => v + N.of_nat (length ops) - 1 end.
Proof.
  induction ops as [|o ops IH]; intros v hi L; [reflexivity|].
  cbn [enc_from map fst fold_left].
  rewrite IH by lia. destruct ops as [|o2 ops]; cbn [length]; lia.
Qed.

Lemma filter_all_true {A} (f : A -> bool) (l : list A) :
  (forall x, In x l -> f x = true) -> filter f l = l.
Proof.
  induction l as [|x l IH]; intros Hx; [reflexivity|]. cbn [filter].
  rewrite (Hx x (or_introl eq_refl)). f_equal. apply IH. intros y Iy. apply Hx. right. exact Iy.
Qed.

Section ConcDurable.
  Variable H : bytes -> bytes.
  Hypothesis H_len : forall b, length (H b) = 32%nat.
  Hypothesis H_byte : forall b, Forall (fun x => x < 256) (H b).
  Variable cfg : config.
  Hypothesis n_pos : 0 < c_n cfg.
  Let cmp := key_cmp (c_kt cfg).
  Variable bad : bytes -> bool.
  Variable ckbad : bool.
  Variable thr0 : list (nat * list ccall).
  Hypothesis thr0_nodup : NoDup (map fst thr0).
  Variable cas0 : smap bytes.
  Hypothesis cas0_sorted : sorted lex_cmp cas0.
  Hypothesis cas0_named : forall h c, In (h, c) cas0 -> H c = h.
  Hypothesis NoCollideC :
    forall a b, In a (allc thr0 cas0) -> In b (allc thr0 cas0) -> H a = H b -> a = b.
  Variable sched : list nat.

  Local Notation KX L :=
    (L H cmp (key_cmp_refl _) (key_cmp_eq _) (key_cmp_antisym _) (key_cmp_trans _) (c_n cfg) bad ckbad
       thr0 thr0_nodup cas0 cas0_sorted cas0_named NoCollideC sched) (only parsing).
  Local Notation stN := (st H cmp (c_n cfg) bad ckbad thr0 cas0 sched).
  Local Notation wlogN := (wlog H cmp (c_n cfg) bad ckbad thr0 cas0 sched).

  (* the operations logged up to position n, in log order *)
  Definition logged (n : nat) : list rawop := map wl_o (wlogN n).
  (* the records on disk: one per logged operation, versions 1, 2, ... *)
  Definition records (n : nat) : list (N * bytes) := enc_from 1 (logged n).

  Lemma ops_resp_ok : forall ops m, ops_resp cmp m ops -> ops_ok cfg m ops.
  Proof.
    induction ops as [|o ops IH]; intros m R; [exact I|].
    cbn [ops_resp] in R. destruct R as [R1 R2]. cbn [ops_ok]. split.
    - destruct o; exact R1.
    - apply IH. destruct o; exact R2.
  Qed.

  Lemma kstep_agree : forall ops m, fold_left (DiskInv.kstep cfg) ops m = fold_left (ConcLin.kstep cmp) ops m.
  Proof.
    induction ops as [|o ops IH]; intros m; [reflexivity|]. cbn [fold_left].
    rewrite IH. destruct o; reflexivity.
  Qed.

  Lemma IdxInv_empty : IdxInv cmp empty_istate.
  Proof.
    pose proof (C04_apply_never_panics) as _.
    pose proof (rinv' H cmp (key_cmp_refl _) (key_cmp_eq _) (key_cmp_antisym _) (key_cmp_trans _)
                  (c_n cfg) bad ckbad thr0 thr0_nodup cas0 cas0_sorted cas0_named NoCollideC
                  (init_c thr0 cas0)) as R.
    assert (Rc : reachable H cmp (c_n cfg) bad ckbad thr0 cas0 (init_c thr0 cas0)) by (exists []; reflexivity).
    exact (ci_idx _ _ _ _ _ _ (R Rc)).
  Qed.

  Theorem C02_concurrent_log_replays n : (n <= NN sched)%nat ->
    Forall (op_good cfg) (logged n) ->
    exists st',
      replay_records cfg 0 (records n) empty_istate 0 0
        = Ok (st', N.of_nat (length (logged n)), N.of_nat (length (logged n))) /\
      km st' = km (g_idx (stN n)) /\ rc st' = rc (g_idx (stN n)) /\
      ub st' = ub (g_idx (stN n)) /\ tb st' = tb (g_idx (stN n)) /\
      g_nextv (stN n) = N.of_nat (length (logged n)) + 1.
  Proof.
    intros Hn Good.
    assert (Fl : filter (fun r : N * bytes => 0 <? fst r) (records n) = enc_from 1 (logged n)).
    { apply filter_all_true. intros r Ir. apply enc_from_bound in Ir. apply N.ltb_lt. lia. }
    pose proof (ops_resp_ok _ _ (KX wlog_respects n Hn)) as Ok0.
    destruct (replay_records_ok H H_len H_byte cfg n_pos 0 (records n) 1 (logged n) empty_istate 0 0
                Fl Good IdxInv_empty Ok0) as (st' & E & Iv & K & _ & _).
    exists st'.
    assert (Hhi : fold_left N.max (map fst (records n)) 0 = N.of_nat (length (logged n))).
    { unfold records. rewrite enc_from_max by lia. destruct (logged n); cbn [length]; lia. }
    rewrite Hhi, N.add_0_l in E. split; [exact E|].
    assert (Kn : km st' = km (g_idx (stN n))).
    { rewrite K. cbn [km empty_istate]. rewrite kstep_agree.
      symmetry. exact (KX C05_km_is_fold_of_writes n Hn). }
    assert (In : IdxInv cmp (g_idx (stN n))).
    { assert (Rc : reachable H cmp (c_n cfg) bad ckbad thr0 cas0 (stN n)) by (eexists; reflexivity).
      exact (ci_idx _ _ _ _ _ _
               (rinv' H cmp (key_cmp_refl _) (key_cmp_eq _) (key_cmp_antisym _) (key_cmp_trans _)
                  (c_n cfg) bad ckbad thr0 thr0_nodup cas0 cas0_sorted cas0_named NoCollideC _ Rc)). }
    destruct (IdxInv_unique cfg st' (g_idx (stN n)) Iv In Kn) as (R1 & R2 & R3).
    split; [exact Kn|]. split; [exact R1|]. split; [exact R2|]. split; [exact R3|].
    rewrite (KX wlog_versions n Hn). unfold logged. rewrite map_length. lia.
  Qed.
End ConcDurable.

(* ---- the hypotheses are satisfiable: the reader/writer program of ConcLin.v (two overwriting
   puts racing a get) under its first schedule; two records are logged and replay to the final
   index ---- *)
Definition cfg_ex : config := mkConfig KBytes 100 true false true false false.

Lemma toyH_len b : length (toyH b) = 32%nat.
Proof. apply repeat_length. Qed.
Lemma toyH_byte b : Forall (fun x => x < 256) (toyH b).
Proof. apply Forall_forall. intros x Ix. apply repeat_spec in Ix. subst x. apply N.mod_lt. discriminate. Qed.

Example logged_ex :
  logged toyH cfg_ex nobad false progR [] schedR1 (NN schedR1)
  = [RPut [1] (toyH [10]) 1; RPut [1] (toyH [20; 21]) 2].
Proof. vm_compute. reflexivity. Qed.

Example C02_conc_ex :
  exists st',
    replay_records cfg_ex 0 (records toyH cfg_ex nobad false progR [] schedR1 (NN schedR1)) empty_istate 0 0
      = Ok (st', 2, 2) /\
    km st' = [([1], mkItem (toyH [20; 21]) 2)] /\
    g_nextv (st toyH lex_cmp 100 nobad false progR [] schedR1 (NN schedR1)) = 3.
Proof.
  destruct (C02_concurrent_log_replays toyH toyH_len toyH_byte cfg_ex eq_refl nobad false progR progR_nodup []
              ltac:(constructor) ltac:(intros ? ? []) progR_nocollide schedR1 (NN schedR1) (le_n _))
    as (st' & E & K & _ & _ & _ & V).
  - rewrite logged_ex. repeat constructor; cbn; try lia; reflexivity.
  - exists st'. rewrite logged_ex in E, V. split; [exact E|]. split; [|exact V].
    rewrite K. vm_compute. reflexivity.
Qed.
