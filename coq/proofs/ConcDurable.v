(* ConcDurable.v -- the bridge between the concurrent model (theories/Conc.v, which carries no
   bytes of the write-ahead log) and the recovery of the sequential model (theories/Store.v):

     the records that the WLockW steps of ANY concurrent run append -- version i+1 and the encoded
     operation for the i-th entry of the write log of proofs/ConcLin.v -- are replayed by
     Store.replay_records (the inner loop of WalReplayer::replay) into exactly the index the
     threads built in memory: same key map, same reference counts, same statistics; and the next
     version the recovered store hands out is the concurrent run's next version.

   So a clean restart (C02), and the recovery after a kill (C03: the log is only ever appended to,
   one record per WLockW step, under the W lock) see the linearisation order of C05, whatever the
   interleaving was.  Versions are dense and follow the log order ([wlog_versions]), every logged
   operation is applicable where the replay meets it ([wlog_respects]).

   Hypothesis [Forall op_good]: every logged operation fits the format's size fields and its
   keys are valid for the key type (Recover.v needs it for decode (encode o) = o).  It is a
   hypothesis on the thread programs' keys and contents; [C02_conc_ex] shows a run meeting it. *)
From Cas Require Import Base Codec SMap Index Conc Store.
From CasProofs Require Import BaseProofs CodecBase CodecProofs SMapProofs IndexProofs ConcInv ConcProofs ConcExamples ConcLin DiskInv Recover.
From Coq Require Import List NArith Lia Bool Arith.
Import ListNotations.
Open Scope N_scope.

Arguments N.add : simpl never.
Arguments N.sub : simpl never.
Arguments N.mul : simpl never.
Arguments N.div : simpl never.
Arguments N.max : simpl never.

Lemma enc_from_max : forall ops v hi, hi < v ->
  fold_left N.max (map fst (enc_from v ops)) hi =
  match ops with [] => hi | _ => v + N.of_nat (length ops) - 1 end.
Proof.
  induction ops as [|o ops IH]; intros v hi L; [reflexivity|].
  cbn [enc_from map fst fold_left].
  rewrite IH by lia. destruct ops as [|o2 ops]; cbn [length]; lia.
Qed.

Lemma filter_len_le {A} (f : A -> bool) (l : list A) : (length (filter f l) <= length l)%nat.
Proof. induction l as [|x l IH]; cbn [filter length]; [lia|]. destruct (f x); cbn [length]; lia. Qed.

Lemma filter_all_true {A} (f : A -> bool) (l : list A) :
  (forall x, In x l -> f x = true) -> filter f l = l.
Proof.
  induction l as [|x l IH]; intros Hx; [reflexivity|]. cbn [filter].
  rewrite (Hx x (or_introl eq_refl)). f_equal. apply IH. intros y Iy. apply Hx. right. exact Iy.
Qed.

Section ConcDurable.
  Variable H : bytes -> bytes.
  Hypothesis H_len : forall b, length (H b) = 32%nat.
  Hypothesis H_byte : forall b, Forall (fun x => x < 256) (H b).
  Variable cfg : config.
  Hypothesis n_pos : 0 < c_n cfg.
  Let cmp := key_cmp (c_kt cfg).
  Variable bad : bytes -> bool.
  Variable ckbad : bool.
  Variable thr0 : list (nat * list ccall).
  Hypothesis thr0_nodup : NoDup (map fst thr0).
  Variable cas0 : smap bytes.
  Hypothesis cas0_sorted : sorted lex_cmp cas0.
  Hypothesis cas0_named : forall h c, In (h, c) cas0 -> H c = h.
  Hypothesis NoCollideC :
    forall a b, In a (allc thr0 cas0) -> In b (allc thr0 cas0) -> H a = H b -> a = b.
  Variable sched : list nat.

  Local Notation KX L :=
    (L H cmp (key_cmp_refl _) (key_cmp_eq _) (key_cmp_antisym _) (key_cmp_trans _) (c_n cfg) bad ckbad
       thr0 thr0_nodup cas0 cas0_sorted cas0_named NoCollideC sched) (only parsing).
  Local Notation stN := (st H cmp (c_n cfg) bad ckbad thr0 cas0 sched).
  Local Notation wlogN := (wlog H cmp (c_n cfg) bad ckbad thr0 cas0 sched).

  (* the operations logged up to position n, in log order *)
  Definition logged (n : nat) : list rawop := map wl_o (wlogN n).
  (* the records on disk: one per logged operation, versions 1, 2, ... *)
  Definition records (n : nat) : list (N * bytes) := enc_from 1 (logged n).

  Lemma ops_resp_ok : forall ops m, ops_resp cmp m ops -> ops_ok cfg m ops.
  Proof.
    induction ops as [|o ops IH]; intros m R; [exact I|].
    cbn [ops_resp] in R. destruct R as [R1 R2]. cbn [ops_ok]. split.
    - destruct o; exact R1.
    - apply IH. destruct o; exact R2.
  Qed.

  Lemma kstep_agree : forall ops m, fold_left (DiskInv.kstep cfg) ops m = fold_left (ConcLin.kstep cmp) ops m.
  Proof.
    induction ops as [|o ops IH]; intros m; [reflexivity|]. cbn [fold_left].
    rewrite IH. destruct o; reflexivity.
  Qed.

  Lemma IdxInv_empty : IdxInv cmp empty_istate.
  Proof.
    pose proof (C04_apply_never_panics) as _.
    pose proof (rinv' H cmp (key_cmp_refl _) (key_cmp_eq _) (key_cmp_antisym _) (key_cmp_trans _)
                  (c_n cfg) bad ckbad thr0 thr0_nodup cas0 cas0_sorted cas0_named NoCollideC
                  (init_c thr0 cas0)) as R.
    assert (Rc : reachable H cmp (c_n cfg) bad ckbad thr0 cas0 (init_c thr0 cas0)) by (exists []; reflexivity).
    exact (ci_idx _ _ _ _ _ _ (R Rc)).
  Qed.

  Theorem C02_concurrent_log_replays n : (n <= NN sched)%nat ->
    Forall (op_good cfg) (logged n) ->
    exists st',
      replay_records cfg 0 (records n) empty_istate 0 0
        = Ok (st', N.of_nat (length (logged n)), N.of_nat (length (logged n))) /\
      km st' = km (g_idx (stN n)) /\ rc st' = rc (g_idx (stN n)) /\
      ub st' = ub (g_idx (stN n)) /\ tb st' = tb (g_idx (stN n)) /\
      g_nextv (stN n) = N.of_nat (length (logged n)) + 1.
  Proof.
    intros Hn Good.
    assert (Fl : filter (fun r : N * bytes => 0 <? fst r) (records n) = enc_from 1 (logged n)).
    { apply filter_all_true. intros r Ir. apply enc_from_bound in Ir. apply N.ltb_lt. lia. }
    pose proof (ops_resp_ok _ _ (KX wlog_respects n Hn)) as Ok0.
    destruct (replay_records_ok H H_len H_byte cfg n_pos 0 (records n) 1 (logged n) empty_istate 0 0
                Fl Good IdxInv_empty Ok0) as (st' & E & Iv & K & _ & _).
    exists st'.
    assert (Hhi : fold_left N.max (map fst (records n)) 0 = N.of_nat (length (logged n))).
    { unfold records. rewrite enc_from_max by lia. destruct (logged n); cbn [length]; lia. }
    rewrite Hhi, N.add_0_l in E. split; [exact E|].
    assert (Kn : km st' = km (g_idx (stN n))).
    { rewrite K. cbn [km empty_istate]. rewrite kstep_agree.
      symmetry. exact (KX C05_km_is_fold_of_writes n Hn). }
    assert (In : IdxInv cmp (g_idx (stN n))).
    { assert (Rc : reachable H cmp (c_n cfg) bad ckbad thr0 cas0 (stN n)) by (eexists; reflexivity).
      exact (ci_idx _ _ _ _ _ _
               (rinv' H cmp (key_cmp_refl _) (key_cmp_eq _) (key_cmp_antisym _) (key_cmp_trans _)
                  (c_n cfg) bad ckbad thr0 thr0_nodup cas0 cas0_sorted cas0_named NoCollideC _ Rc)). }
    destruct (IdxInv_unique cfg st' (g_idx (stN n)) Iv In Kn) as (R1 & R2 & R3).
    split; [exact Kn|]. split; [exact R1|]. split; [exact R2|]. split; [exact R3|].
    rewrite (KX wlog_versions n Hn). unfold logged. rewrite map_length. lia.
  Qed.

  (* C03 for concurrent use: a kill at ANY position n of ANY schedule.  The disk then holds the
     records of the write log up to n (the WLockW step appends and applies in one critical
     section; nothing else touches the log) and the blobs g_cas.  Recovery replays them into the
     key map of position n; every recovered key has its blob, complete, on disk; every writing call
     that had returned before the kill is in the replayed log, each call at most once
     (ConcLin.wlog_key_unique), and every entry of the log is the write of a call that was taken
     before the kill (ConcLin.wlog_entry_call): acknowledged operations survive, in-flight ones
     are all-or-nothing, nothing else appears. *)
  Theorem C03_concurrent_kill_any_position n : (n <= NN sched)%nat ->
    Forall (op_good cfg) (logged n) ->
    exists st',
      replay_records cfg 0 (records n) empty_istate 0 0
        = Ok (st', N.of_nat (length (logged n)), N.of_nat (length (logged n))) /\
      km st' = km (g_idx (stN n)) /\
      (forall k it, sm_get cmp (km st') k = Some it ->
         exists c, sm_get lex_cmp (g_cas (stN n)) (ihash it) = Some c /\ H c = ihash it /\ len c = isize it) /\
      (forall t ts j c r,
         tst H cmp (c_n cfg) bad ckbad thr0 cas0 sched n t = Some ts ->
         nth_error (prog thr0 cas0 t) j = Some c -> nth_error (t_res ts) j = Some r ->
         writes c r = true -> exists p o, In (mkWl p t j o) (wlogN n)).
  Proof.
    intros Hn Good.
    destruct (C02_concurrent_log_replays n Hn Good) as (st' & E & K & _).
    exists st'. split; [exact E|]. split; [exact K|]. split.
    - intros k it G. rewrite K in G.
      assert (Rc : reachable H cmp (c_n cfg) bad ckbad thr0 cas0 (stN n)) by (eexists; reflexivity).
      exact (C04_no_dangling H cmp (key_cmp_refl _) (key_cmp_eq _) (key_cmp_antisym _) (key_cmp_trans _)
               (c_n cfg) bad ckbad thr0 thr0_nodup cas0 cas0_sorted cas0_named NoCollideC _ Rc k it G).
    - intros t ts j c r Ht Hc Hr W.
      destruct (KX C05_calls_linearizable n t ts j c r Hn Ht Hc Hr)
        as (s & e & q & _ & _ & _ & _ & _ & _ & _ & L).
      destruct (L W) as (p & o & _ & I). exists p, o. exact I.
  Qed.

  (* ---------------------------------------------------------------------------------- *)
  (* [Forall op_good (logged n)] from hypotheses on the PROGRAMS: every key that is put is
     accepted by the key type and fits a u32 length, every content fits a u64 length, and the
     store never holds 2^32 keys *)
  Definition key_good (k : bytes) : Prop := key_fits k /\ key_valid (c_kt cfg) k = true.
  Hypothesis prog_good : forall t k x, In (KPut k x) (prog thr0 cas0 t) -> key_good k /\ len x < 2 ^ 64.

  Lemma In_fold_del (ks : list bytes) : forall (m : smap item) e,
    In e (fold_left (fun m k => sm_del cmp m k) ks m) -> In e m.
  Proof.
    induction ks as [|k ks IH]; intros m e I; [exact I|]. cbn [fold_left] in I.
    apply IH in I. exact (In_del cmp (key_cmp_refl _) (key_cmp_eq _) (key_cmp_antisym _) (key_cmp_trans _) _ _ _ I).
  Qed.

  Lemma fold_keys (ops : list rawop) : forall (m : smap item) e,
    In e (fold_left (ConcLin.kstep cmp) ops m) ->
    In e m \/ exists h sz, In (RPut (fst e) h sz) ops.
  Proof.
    induction ops as [|o ops IH]; intros m e I; [left; exact I|]. cbn [fold_left] in I.
    destruct (IH _ _ I) as [I1|(h & sz & I1)].
    - destruct o as [k h sz|ks]; cbn [ConcLin.kstep] in I1.
      + apply (In_ins cmp (key_cmp_refl _) (key_cmp_eq _) (key_cmp_antisym _) (key_cmp_trans _)) in I1. destruct I1 as [->|I1]; [|left; exact I1].
        right. exists h, sz. left. reflexivity.
      + left. eapply In_fold_del. exact I1.
    - right. exists h, sz. right. exact I1.
  Qed.

  Lemma put_entries_good n : (n <= NN sched)%nat ->
    forall k h sz, In (RPut k h sz) (logged n) -> key_good k /\ hash_ok h /\ sz < 2 ^ 64.
  Proof.
    intros Hn k h sz I. unfold logged in I. apply in_map_iff in I. destruct I as (e & Eo & Ie).
    destruct (KX wlog_entry_call n e Hn Ie) as (c & s & Hc & _ & _ & Op & _).
    rewrite Eo in Op. cbn [op_of_call] in Op. destruct Op as (x & -> & -> & ->).
    apply nth_error_In in Hc. destruct (prog_good _ _ _ Hc) as [G L].
    split; [exact G|]. split; [apply H_len|exact L].
  Qed.

  Lemma kmap_keys_good q : (q <= NN sched)%nat ->
    forall e, In e (kmap H cmp (c_n cfg) bad ckbad thr0 cas0 sched q) -> key_good (fst e).
  Proof.
    intros Hq e I. rewrite (KX C05_km_is_fold_of_writes q Hq) in I.
    destruct (fold_keys _ _ _ I) as [[]|(h & sz & I1)].
    exact (proj1 (put_entries_good q Hq _ _ _ I1)).
  Qed.

  Theorem logged_good n : (n <= NN sched)%nat ->
    (forall q, (q <= n)%nat -> N.of_nat (length (kmap H cmp (c_n cfg) bad ckbad thr0 cas0 sched q)) < 2 ^ 32) ->
    Forall (op_good cfg) (logged n).
  Proof.
    intros Hn Small. apply Forall_forall. intros o Io.
    destruct o as [k h sz|ks].
    - destruct (put_entries_good n Hn _ _ _ Io) as ((F & V) & Hh & L).
      split; [split; [exact F|split; [exact Hh|exact L]]|].
      constructor; [exact V|constructor].
    - unfold logged in Io. apply in_map_iff in Io. destruct Io as (e & Eo & Ie).
      destruct (KX wlog_entry_call n e Hn Ie) as (c & s & _ & _ & _ & Op & _).
      rewrite Eo in Op. cbn [op_of_call] in Op. destruct Op as (q & r & Bq & _ & Sc).
      pose proof (wlog_lt _ _ _ _ _ _ _ _ _ _ Ie) as Lp. cbn beta in Lp.
      assert (Hq : (q <= n)%nat) by lia. assert (Hq' : (q <= NN sched)%nat) by lia.
      assert (Keys : forall k, In k ks -> exists it, In (k, it) (kmap H cmp (c_n cfg) bad ckbad thr0 cas0 sched q)).
      { destruct Sc as [(k0 & _ & -> & _ & G)|(lo & hi & _ & -> & _ & _)].
        - intros k [<-|[]]. destruct (sm_get cmp (kmap H cmp (c_n cfg) bad ckbad thr0 cas0 sched q) k0) as [it|] eqn:E;
            [|exfalso; apply G; reflexivity].
          exists it. revert E. generalize (kmap H cmp (c_n cfg) bad ckbad thr0 cas0 sched q). intros m.
          induction m as [|[k1 v1] m IH]; cbn [sm_get]; [discriminate|].
          destruct (cmp k0 k1) eqn:C; try discriminate.
          + intros E. injection E as <-. apply (key_cmp_eq (c_kt cfg)) in C. subst k1. left. reflexivity.
          + intros E. right. apply IH, E.
        - intros k Ik. unfold keys_in in Ik. apply in_map_iff in Ik. destruct Ik as ([k1 it] & <- & If).
          apply filter_In in If. exists it. exact (proj1 If). }
      assert (Len : (length ks <= length (kmap H cmp (c_n cfg) bad ckbad thr0 cas0 sched q))%nat).
      { destruct Sc as [(k0 & _ & -> & _ & G)|(lo & hi & _ & -> & _ & _)].
        - destruct (Keys k0 (or_introl eq_refl)) as (it & Iit).
          destruct (kmap H cmp (c_n cfg) bad ckbad thr0 cas0 sched q); [destruct Iit|cbn [length]; lia].
        - unfold keys_in. rewrite map_length. apply filter_len_le. }
      pose proof (Small q Hq) as Sm.
      split.
      + split; [lia|]. apply Forall_forall. intros k Ik. destruct (Keys k Ik) as (it & Iit).
        exact (proj1 (kmap_keys_good q Hq' _ Iit)).
      + apply Forall_forall. intros k Ik. destruct (Keys k Ik) as (it & Iit).
        exact (proj2 (kmap_keys_good q Hq' _ Iit)).
  Qed.

  (* the two theorems above, from hypotheses on the programs alone *)
  Corollary C03_concurrent_kill_any_position_programs n : (n <= NN sched)%nat ->
    (forall q, (q <= n)%nat -> N.of_nat (length (kmap H cmp (c_n cfg) bad ckbad thr0 cas0 sched q)) < 2 ^ 32) ->
    exists st',
      replay_records cfg 0 (records n) empty_istate 0 0
        = Ok (st', N.of_nat (length (logged n)), N.of_nat (length (logged n))) /\
      km st' = km (g_idx (stN n)) /\ rc st' = rc (g_idx (stN n)) /\
      g_nextv (stN n) = N.of_nat (length (logged n)) + 1.
  Proof.
    intros Hn Small.
    destruct (C02_concurrent_log_replays n Hn (logged_good n Hn Small)) as (st' & E & K & R & _ & _ & V).
    exists st'. repeat split; assumption.
  Qed.
End ConcDurable.

(* ---- the hypotheses are satisfiable: the reader/writer program of ConcLin.v (two overwriting
   puts racing a get) under its first schedule; two records are logged and replay to the final
   index ---- *)
Definition cfg_ex : config := mkConfig KBytes 100 true false true false false.

Lemma toyH_len b : length (toyH b) = 32%nat.
Proof. apply repeat_length. Qed.
Lemma toyH_byte b : Forall (fun x => x < 256) (toyH b).
Proof. apply Forall_forall. intros x Ix. apply repeat_spec in Ix. subst x. apply N.mod_lt. discriminate. Qed.

Example logged_ex :
  logged toyH cfg_ex nobad false progR [] schedR1 (NN schedR1)
  = [RPut [1] (toyH [10]) 1; RPut [1] (toyH [20; 21]) 2].
Proof. vm_compute. reflexivity. Qed.

Example C02_conc_ex :
  exists st',
    replay_records cfg_ex 0 (records toyH cfg_ex nobad false progR [] schedR1 (NN schedR1)) empty_istate 0 0
      = Ok (st', 2, 2) /\
    km st' = [([1], mkItem (toyH [20; 21]) 2)] /\
    g_nextv (st toyH lex_cmp 100 nobad false progR [] schedR1 (NN schedR1)) = 3.
Proof.
  destruct (C02_concurrent_log_replays toyH toyH_len toyH_byte cfg_ex eq_refl nobad false progR progR_nodup []
              ltac:(constructor) ltac:(intros ? ? []) progR_nocollide schedR1 (NN schedR1) (le_n _))
    as (st' & E & K & _ & _ & _ & V).
  - rewrite logged_ex. repeat constructor; cbn; try lia; reflexivity.
  - exists st'. rewrite logged_ex in E, V. split; [exact E|]. split; [|exact V].
    rewrite K. vm_compute. reflexivity.
Qed.

(* the program-level hypotheses are satisfiable as well *)
Example progR_good : forall t k x, In (KPut k x) (prog progR [] t) -> key_good cfg_ex k /\ len x < 2 ^ 64.
Proof.
  intros t k x I. destruct t as [|[|[|t]]]; vm_compute in I;
    repeat match goal with
           | Hx : _ \/ _ |- _ => destruct Hx
           | Hx : False |- _ => destruct Hx
           | Hx : KPut _ _ = KPut _ _ |- _ => injection Hx as <- <-
           | Hx : _ = KPut _ _ |- _ => discriminate Hx
           end;
    (split; [split; [unfold key_fits, len; cbn; lia|reflexivity]|unfold len; cbn; lia]).
Qed.

Example C03_conc_programs_ex :
  exists st',
    replay_records cfg_ex 0 (records toyH cfg_ex nobad false progR [] schedR1 (NN schedR1)) empty_istate 0 0
      = Ok (st', 2, 2).
Proof.
  destruct (C03_concurrent_kill_any_position_programs toyH toyH_len toyH_byte cfg_ex eq_refl nobad false progR
              progR_nodup [] ltac:(constructor) ltac:(intros ? ? []) progR_nocollide schedR1 progR_good
              (NN schedR1) (le_n _)) as (st' & E & _).
  - intros q Hq. unfold NN in Hq. cbn [length schedR1] in Hq.
    assert (B : forall m : smap item, (length m <= 1)%nat -> N.of_nat (length m) < 2 ^ 32).
    { intros m L. change (2 ^ 32) with 4294967296. lia. }
    apply B. change (c_kt cfg_ex) with KBytes. change (c_n cfg_ex) with 100.
    rewrite (C05_km_is_fold_of_writes toyH (key_cmp KBytes) (key_cmp_refl _) (key_cmp_eq _) (key_cmp_antisym _)
               (key_cmp_trans _) 100 nobad false progR progR_nodup [] ltac:(constructor) ltac:(intros ? ? [])
               progR_nocollide schedR1 q Hq).
    (* both logged operations write the single key [1] *)
    assert (Sub : forall e, In e (wlog toyH (key_cmp KBytes) 100 nobad false progR [] schedR1 q) ->
                  In e (wlog toyH (key_cmp KBytes) 100 nobad false progR [] schedR1 (NN schedR1))).
    { intros e. apply wlog_mono. exact Hq. }
    assert (Ops : forall o, In o (map wl_o (wlog toyH (key_cmp KBytes) 100 nobad false progR [] schedR1 q)) ->
                  exists h sz, o = RPut [1] h sz).
    { intros o Io. apply in_map_iff in Io. destruct Io as (e & <- & Ie). apply Sub in Ie.
      assert (Io : In (wl_o e) (logged toyH cfg_ex nobad false progR [] schedR1 (NN schedR1))).
      { unfold logged. apply in_map. exact Ie. }
      rewrite logged_ex in Io. destruct Io as [<-|[<-|[]]]; eexists; eexists; reflexivity. }
    revert Ops. generalize (map wl_o (wlog toyH (key_cmp KBytes) 100 nobad false progR [] schedR1 q)).
    intros ops Ops.
    assert (G : forall m : smap item, (m = [] \/ exists it, m = [([1], it)]) ->
                (length (fold_left (ConcLin.kstep (key_cmp KBytes)) ops m) <= 1)%nat).
    { induction ops as [|o ops IH]; intros m Hm.
      - cbn [fold_left]. destruct Hm as [->|(it & ->)]; cbn; lia.
      - cbn [fold_left]. apply IH.
        + intros o' Io'. apply Ops. right. exact Io'.
        + destruct (Ops o (or_introl eq_refl)) as (h & sz & ->). cbn [ConcLin.kstep].
          destruct Hm as [->|(it & ->)]; right; eexists; vm_compute; reflexivity. }
    apply G. left. reflexivity.
  - rewrite logged_ex in E. exists st'. exact E.
Qed.
