(* DiskInv.v -- the on-disk invariant [DiskOk] (snapshot file + WAL segment files, related to the
   open handle's memory and to the abstract map), the exact effect of the write path on the
   meta files, and preservation of [DiskOk] by every fault-free write operation (F2).

   DiskOk m s sg  :=  DiskOkW (lpv (idx m)) (nextv (mwal m)) (seg_of (nextv (mwal m) - 1))
                              (mpre m) (fdat s) sg
   where [fdat s p] is the content of file p (None if absent) and DiskOkW c nv sb pre dv sg says:
   there are segment ids [ids] (strictly ascending), records [rf i] and sealed flags [sf i] per
   segment, a snapshot key map [km_c] and operations [ops] such that
     - sg fits the formats (< 2^32 keys, keys valid and short, contents < 2^64 bytes);
     - PSettings exists and decodes to (CURRENT_DB_VERSION, pre, c_n cfg);
     - PIndex is absent, c = 0 and km_c = [];  or PIndex = enc_snapshot c km_c with 0 < c;
       km_c is sorted, one hash one size, entries fit, keys valid, < 2^32 entries;
     - the PWal files are exactly those with an id in ids, and
       PWal i = render (rf i) ++ (if sf i then sentinel else []);
     - per segment: records rec_ok, every version v in segment i has seg_of v = i, versions
       strictly ascending, i <= seg_of nv, and sealed segments have i < sb;
     - the records with version > c, in file order, are exactly (c+1, enc_op o1), (c+2, enc_op o2),
       ... for ops = [o1; o2; ...], and nv = c + 1 + length ops <= 2^64;
     - every op in ops is read back by the codec (op_fits) with keys accepted by the key type;
     - replaying ops on km_c (key-map level, with the one-hash-one-size side condition holding
       at every step) gives km_of sg.

   Organisation:
     D1  ascending lists, sort_ids / wal_ids
     D2  the data view [fdat] of a filesystem, exact effect of the primitive calls
     D3  the invariant: [DiskW] / [DiskOkW] over a data view, [DiskOk] for a handle
     D4  view transformers: extension, new empty segment, seal, append, checkpoint/prune
     D5  exact effect of the BufWriter / segment writer / append_op / prune / checkpoint_inner
     D6  log_and_apply and the API operations (F2):
         put_disk, remove_disk, remove_range_disk, checkpoint_disk, abort_disk *)
From Cas Require Import History.
From CasProofs Require Import BaseProofs CodecBase CodecProofs SMapProofs IndexProofs
  StoreFS StoreInv StoreWrite.
From Coq Require Import ZifyBool ZifyNat ZifyN.
Open Scope N_scope.

Arguments N.add : simpl never.
Arguments N.sub : simpl never.
Arguments N.mul : simpl never.
Arguments N.div : simpl never.
Arguments N.modulo : simpl never.
Arguments N.eqb : simpl never.
Arguments N.ltb : simpl never.
Arguments N.leb : simpl never.
Arguments N.pow : simpl never.
Arguments N.max : simpl never.

(* ------------------------------------------------------------------ *)
(* D1. ascending lists of numbers, sort_ids, wal_ids                   *)
(* ------------------------------------------------------------------ *)
Fixpoint asc (l : list N) : Prop :=
  match l with [] => True | x :: r => (forall y, In y r -> x < y) /\ asc r end.

Lemma asc_app : forall l1 l2,
  asc (l1 ++ l2) <-> asc l1 /\ asc l2 /\ (forall x y, In x l1 -> In y l2 -> x < y).
Proof.
  induction l1 as [|a l1 IH]; intros l2; cbn [app asc].
  - split; [intros A; repeat split; auto; intros x y []|tauto].
  - rewrite IH. split.
    + intros (Ha & A1 & A2 & A3). repeat split; auto.
      * intros y Iy. apply Ha. apply in_or_app; auto.
      * intros x y [<-|Ix] Iy; [apply Ha, in_or_app; auto|auto].
    + intros ((Ha & A1) & A2 & A3). repeat split; auto.
      * intros y Iy. apply in_app_or in Iy. destruct Iy; [auto|apply A3; [now left|auto]].
      * intros x y Ix Iy. apply A3; [now right|auto].
Qed.

Lemma asc_snoc : forall l x, asc l -> (forall y, In y l -> y < x) -> asc (l ++ [x]).
Proof.
  intros l x A Hx. apply asc_app. split; [exact A|]. split; [cbn; tauto|].
  intros a b Ia [<-|[]]. now apply Hx.
Qed.

Lemma asc_nodup : forall l, asc l -> NoDup l.
Proof.
  induction l as [|a l IH]; intros A; [constructor|]. destruct A as [Ha A]. constructor; [|auto].
  intros I. specialize (Ha a I). lia.
Qed.

Lemma asc_unique : forall l1 l2, asc l1 -> asc l2 -> (forall x, In x l1 <-> In x l2) -> l1 = l2.
Proof.
  induction l1 as [|a l1 IH]; intros [|b l2] A1 A2 E.
  - reflexivity.
  - exfalso. apply (E b). now left.
  - exfalso. apply (E a). now left.
  - destruct A1 as [Ha A1]. destruct A2 as [Hb A2].
    assert (a = b).
    { assert (Ia : In a (b :: l2)) by (apply E; now left).
      assert (Ib : In b (a :: l1)) by (apply E; now left).
      destruct Ia as [->|Ia]; [reflexivity|]. destruct Ib as [->|Ib]; [reflexivity|].
      specialize (Ha _ Ib). specialize (Hb _ Ia). lia. }
    subst b. f_equal. apply IH; try assumption. intros x. split; intros Ix.
    + assert (I2 : In x (a :: l2)) by (apply E; now right). destruct I2 as [->|I2]; [|exact I2].
      specialize (Ha _ Ix). lia.
    + assert (I2 : In x (a :: l1)) by (apply E; now right). destruct I2 as [->|I2]; [|exact I2].
      specialize (Hb _ Ix). lia.
Qed.

Lemma asc_filter : forall (f : N -> bool) l, asc l -> asc (filter f l).
Proof.
  intros f. induction l as [|a l IH]; intros A; [exact I|]. destruct A as [Ha A].
  cbn [filter]. destruct (f a); [|auto]. split; [|auto].
  intros y Iy. apply filter_In in Iy. apply Ha, Iy.
Qed.

Lemma In_insert_sorted : forall x l y, In y (insert_sorted x l) <-> y = x \/ In y l.
Proof.
  intros x. induction l as [|a l IH]; intros y; cbn [insert_sorted].
  - cbn [In]. intuition.
  - destruct (x <=? a); cbn [In]; [intuition|]. rewrite IH. intuition.
Qed.

Lemma asc_insert_sorted : forall x l, asc l -> ~ In x l -> asc (insert_sorted x l).
Proof.
  intros x. induction l as [|a l IH]; intros A N; cbn [insert_sorted].
  - cbn. tauto.
  - destruct A as [Ha A]. destruct (N.leb_spec x a) as [L|L].
    + assert (x <> a) by (intros ->; apply N; now left).
      split; [|split; assumption]. intros y [<-|Iy]; [lia|]. specialize (Ha _ Iy). lia.
    + split.
      * intros y Iy. apply In_insert_sorted in Iy. destruct Iy as [->|Iy]; [exact L|auto].
      * apply IH; [exact A|]. intros I. apply N. now right.
Qed.

Lemma sort_ids_spec : forall l, NoDup l ->
  asc (sort_ids l) /\ forall y, In y (sort_ids l) <-> In y l.
Proof.
  induction l as [|a l IH]; intros ND.
  - split; [exact I|tauto].
  - inversion ND as [|? ? Na ND']; subst. destruct (IH ND') as [A E].
    change (sort_ids (a :: l)) with (insert_sorted a (sort_ids l)). split.
    + apply asc_insert_sorted; [exact A|]. intros I. apply Na. now apply E.
    + intros y. rewrite In_insert_sorted, E. cbn [In]. intuition.
Qed.

Definition widl (l : list (path * file)) : list N :=
  fold_right (fun pf acc => match fst pf with PWal i => i :: acc | _ => acc end) [] l.

Lemma In_widl : forall l i, In i (widl l) <-> In (PWal i) (paths l).
Proof.
  induction l as [|[q f] l IH]; intros i; cbn [widl fold_right paths map fst In]; [tauto|].
  fold (widl l). fold (paths l). destruct q; cbn [In]; rewrite IH;
    try (split; [intros X; now right|intros [X|X]; [discriminate|exact X]]).
  split; intros [X|X]; auto; [left; congruence|left; congruence].
Qed.

Lemma widl_nodup : forall l, NoDup (paths l) -> NoDup (widl l).
Proof.
  induction l as [|[q f] l IH]; intros ND; cbn [widl fold_right fst]; [constructor|].
  fold (widl l). cbn [paths map fst] in ND. inversion ND as [|? ? Nq ND']; subst.
  destruct q; auto. constructor; [|auto]. intros I. apply Nq. now apply In_widl.
Qed.

Lemma In_wal_ids : forall s i, In i (wal_ids s) <-> fget s (PWal i) <> None.
Proof.
  intros s i. change (wal_ids s) with (widl (files s)). rewrite In_widl.
  unfold fget. pose proof (lookup_none_iff (files s) (PWal i)) as L.
  split.
  - intros I E. apply L in E. contradiction.
  - intros N. destruct (in_dec path_eq_dec (PWal i) (paths (files s))) as [I|I]; [exact I|].
    exfalso. apply N, L, I.
Qed.

Lemma sort_ids_char : forall s ids, FsWf s -> asc ids ->
  (forall i, In i ids <-> fget s (PWal i) <> None) -> sort_ids (wal_ids s) = ids.
Proof.
  intros s ids W A E.
  destruct (sort_ids_spec (wal_ids s)) as [A' E']; [apply widl_nodup, W|].
  apply asc_unique; try assumption. intros x. rewrite E', In_wal_ids. symmetry. apply E.
Qed.

Lemma NoDup_map_PWal : forall l : list N, NoDup l -> NoDup (map PWal l).
Proof.
  induction l as [|a l IH]; intros ND; cbn [map]; [constructor|].
  inversion ND as [|? ? Na ND']; subst. constructor; [|auto].
  intros I. apply in_map_iff in I. destruct I as (x & Q & Ix). inversion Q; subst. contradiction.
Qed.

Lemma flat_map_ext_in : forall {A B} (f g : A -> list B) l,
  (forall a, In a l -> f a = g a) -> flat_map f l = flat_map g l.
Proof.
  intros A B f g. induction l as [|a l IH]; intros E; cbn [flat_map]; [reflexivity|].
  rewrite (E a (or_introl eq_refl)), IH; [reflexivity|]. intros b Ib. apply E. now right.
Qed.

Lemma filter_length_le : forall {A} (f : A -> bool) l, (length (filter f l) <= length l)%nat.
Proof.
  intros A f. induction l as [|a l IH]; cbn [filter length]; [lia|].
  destruct (f a); cbn [length]; lia.
Qed.

Lemma filter_none : forall {A} (f : A -> bool) l, (forall x, In x l -> f x = false) -> filter f l = [].
Proof.
  intros A f. induction l as [|a l IH]; intros E; cbn [filter]; [reflexivity|].
  rewrite (E a (or_introl eq_refl)). apply IH. intros x Ix. apply E. now right.
Qed.

(* ------------------------------------------------------------------ *)
(* D2. the data view of a filesystem                                   *)
(* ------------------------------------------------------------------ *)
Definition fdat (s : fs) (p : path) : option bytes := option_map fdata (fget s p).

Lemma fdat_none : forall s p, fdat s p = None <-> fget s p = None.
Proof. intros s p. unfold fdat. destruct (fget s p); cbn; split; congruence. Qed.

Lemma fdat_some : forall s p d, fdat s p = Some d <-> exists f, fget s p = Some f /\ fdata f = d.
Proof.
  intros s p d. unfold fdat. destruct (fget s p) as [f|]; cbn; split.
  - intros E. exists f. split; congruence.
  - intros (g & E & D). congruence.
  - discriminate.
  - intros (g & E & _). discriminate.
Qed.

Lemma fdat_of_fget : forall s s' p, fget s' p = fget s p -> fdat s' p = fdat s p.
Proof. intros s s' p E. unfold fdat. now rewrite E. Qed.

Definition vset (dv : path -> option bytes) (p : path) (x : option bytes) : path -> option bytes :=
  fun q => if path_eqb q p then x else dv q.

Lemma vset_same : forall dv p x, vset dv p x p = x.
Proof. intros. unfold vset. now rewrite path_eqb_refl. Qed.
Lemma vset_other : forall dv p x q, q <> p -> vset dv p x q = dv q.
Proof. intros. unfold vset. now rewrite path_eqb_neq. Qed.

Lemma fdat_upd : forall s p f q, fdat (upd s p f) q = vset (fdat s) p (Some (fdata f)) q.
Proof.
  intros. unfold fdat, vset. rewrite fget_upd. destruct (path_eqb q p); reflexivity.
Qed.

Lemma fdat_del : forall s p q, FsWf s -> fdat (del s p) q = vset (fdat s) p None q.
Proof.
  intros s p q W. unfold vset. destruct (path_eqb_spec q p) as [->|N].
  - apply fdat_none. now apply fget_del_same.
  - apply fdat_of_fget. now apply fget_del_other.
Qed.

(* what every step of a fault-free program preserves *)
Definition Eff (w w' : world) : Prop :=
  wfault w' = None /\ FsWf (wfs w') /\ dirs (wfs w') = dirs (wfs w) /\
  nstage (wfs w') = nstage (wfs w).

Lemma eff_refl : forall w, wfault w = None -> FsWf (wfs w) -> Eff w w.
Proof. intros. repeat split; auto. Qed.

Lemma eff_trans : forall w1 w2 w3, Eff w1 w2 -> Eff w2 w3 -> Eff w1 w3.
Proof. intros w1 w2 w3 (F1 & W1 & D1 & N1) (F2 & W2 & D2 & N2). repeat split; congruence. Qed.

Lemma step_eff : forall T P w w', FsWf (wfs w) -> Step T P w w' -> Eff w w'.
Proof.
  intros T P w w' W [F _ [G D N Wf]]. repeat split; auto.
Qed.

Lemma step_fdat : forall (T : path -> Prop) P w w' q, Step T P w w' -> ~ T q ->
  fdat (wfs w') q = fdat (wfs w) q.
Proof.
  intros T P w w' q S N. apply fdat_of_fget.
  destruct (fr_get _ _ _ (st_frame _ _ _ _ S) q) as [X|X]; [contradiction|exact X].
Qed.

Section Prim.
  Lemma x_append : forall w p d b, wfault w = None -> FsWf (wfs w) -> fdat (wfs w) p = Some d ->
    exists w', do_call (CAppend p b) w = (Ok tt, w') /\ Eff w w' /\
               forall q, fdat (wfs w') q = vset (fdat (wfs w)) p (Some (d ++ b)) q.
  Proof.
    intros w p d b F W G. apply fdat_some in G. destruct G as (f & G & <-).
    destruct (call_append (fun _ => True) w p f b F I G) as (w' & E & S & St).
    exists w'. split; [exact E|]. split; [eapply step_eff; eassumption|].
    intros q. rewrite S. apply fdat_upd.
  Qed.

  Lemma x_sync : forall w p d, wfault w = None -> FsWf (wfs w) -> fdat (wfs w) p = Some d ->
    exists w', do_call (CSync p) w = (Ok tt, w') /\ Eff w w' /\
               forall q, fdat (wfs w') q = fdat (wfs w) q.
  Proof.
    intros w p d F W G. pose proof G as G0. apply fdat_some in G. destruct G as (f & G & <-).
    destruct (call_sync (fun _ => True) w p f F I G) as (w' & E & S & St).
    exists w'. split; [exact E|]. split; [eapply step_eff; eassumption|].
    intros q. rewrite S, fdat_upd. unfold vset. destruct (path_eqb_spec q p) as [->|N]; [|reflexivity].
    cbn [fdata]. now rewrite G0.
  Qed.

  Lemma x_create : forall w p, wfault w = None -> FsWf (wfs w) -> parent_dir p = None ->
    exists w', do_call (CCreate p) w = (Ok tt, w') /\ Eff w w' /\
               forall q, fdat (wfs w') q = vset (fdat (wfs w)) p (Some []) q.
  Proof.
    intros w p F W G.
    destruct (call_create (fun _ => True) w p F I) as (w' & E & S & St).
    { unfold parent_ok. now rewrite G. }
    exists w'. split; [exact E|]. split; [eapply step_eff; eassumption|].
    intros q. rewrite S. apply fdat_upd.
  Qed.

  Lemma x_open_append : forall w p, wfault w = None -> FsWf (wfs w) -> parent_dir p = None ->
    exists w', do_call (COpenAppend p) w = (Ok tt, w') /\ Eff w w' /\
               forall q, fdat (wfs w') q
                         = match fdat (wfs w) p with
                           | Some _ => fdat (wfs w) q
                           | None => vset (fdat (wfs w)) p (Some []) q
                           end.
  Proof.
    intros w p F W G. destruct (fget (wfs w) p) as [f|] eqn:Gf.
    - destruct (do_call_step (fun _ => True) (fun _ => True) (COpenAppend p) w (wfs w))
        as (w' & E & S & St); try assumption; try exact I.
      + cbn [apply_call]. unfold parent_ok. now rewrite G, Gf.
      + apply frame_refl.
      + exists w'. split; [exact E|]. split; [eapply step_eff; eassumption|].
        intros q. rewrite S. unfold fdat at 2. now rewrite Gf.
    - destruct (do_call_step (fun _ => True) (fun _ => True) (COpenAppend p) w
                  (upd (wfs w) p (mkFile [] 0))) as (w' & E & S & St); try assumption; try exact I.
      + cbn [apply_call]. unfold parent_ok. now rewrite G, Gf.
      + now apply frame_upd.
      + exists w'. split; [exact E|]. split; [eapply step_eff; eassumption|].
        intros q. rewrite S. unfold fdat at 2. rewrite Gf. cbn [option_map]. apply fdat_upd.
  Qed.

  Lemma x_unlink : forall w p, wfault w = None -> FsWf (wfs w) -> fdat (wfs w) p <> None ->
    exists w', do_call (CUnlink p) w = (Ok tt, w') /\ Eff w w' /\
               forall q, fdat (wfs w') q = vset (fdat (wfs w)) p None q.
  Proof.
    intros w p F W G. destruct (fget (wfs w) p) as [f|] eqn:Gf.
    - destruct (do_call_step (fun _ => True) (fun _ => True) (CUnlink p) w (del (wfs w) p))
        as (w' & E & S & St); try assumption; try exact I.
      + cbn [apply_call]. now rewrite Gf.
      + now apply frame_del.
      + exists w'. split; [exact E|]. split; [eapply step_eff; eassumption|].
        intros q. rewrite S. now apply fdat_del.
    - exfalso. apply G. now apply fdat_none.
  Qed.
End Prim.

(* ------------------------------------------------------------------ *)
(* D3. the invariant                                                   *)
(* ------------------------------------------------------------------ *)
Definition tailb (b : bool) : bytes := if b then sentinel else [].

(* the records of the operations [ops], numbered from version [v] *)
Fixpoint enc_from (v : N) (ops : list rawop) : list (N * bytes) :=
  match ops with [] => [] | o :: r => (v, enc_op o) :: enc_from (v + 1) r end.

Lemma enc_from_app : forall a b v,
  enc_from v (a ++ b) = enc_from v a ++ enc_from (v + N.of_nat (length a)) b.
Proof.
  induction a as [|o a IH]; intros b v; cbn [app enc_from length].
  - f_equal. lia.
  - rewrite IH. do 3 f_equal. lia.
Qed.

Lemma enc_from_bound : forall ops v r, In r (enc_from v ops) ->
  v <= fst r /\ fst r < v + N.of_nat (length ops).
Proof.
  induction ops as [|o ops IH]; intros v r []; cbn [length].
  - subst r. cbn [fst]. lia.
  - apply IH in H. lia.
Qed.

Lemma enc_from_length : forall ops v, length (enc_from v ops) = length ops.
Proof. induction ops as [|o ops IH]; intros v; cbn [enc_from length]; [reflexivity|]. now rewrite IH. Qed.

Section DiskInv.
  Variable H : bytes -> bytes.
  Hypothesis H_len : forall b, length (H b) = 32%nat.
  Hypothesis H_byte : forall b, Forall (fun x => x < 256) (H b).
  Variable cfg : config.
  Hypothesis n_pos : 0 < c_n cfg.
  Let cmp := key_cmp (c_kt cfg).

  Local Notation KX L :=
    (L cmp (key_cmp_refl _) (key_cmp_eq _) (key_cmp_antisym _) (key_cmp_trans _)) (only parsing).
  Local Notation item_of := (item_of H).
  Local Notation km_of := (km_of H).
  Local Notation NoCollide := (NoCollide H).
  Local Notation Live0 := (Live0 H cfg).
  Local Notation seg_of := (seg_of cfg).

  Lemma seg_of_mono : forall a b, a <= b -> seg_of a <= seg_of b.
  Proof. intros a b L. unfold Store.seg_of. apply N.div_le_mono; lia. Qed.

  (* the key map component of apply_op, and its side condition (one hash, one size) *)
  Definition kstep (k : smap item) (o : rawop) : smap item :=
    km_expected cmp (mkIstate k [] 0 0 0 0) o.
  Definition kresp (k : smap item) (o : rawop) : Prop :=
    op_respects_sizes (mkIstate k [] 0 0 0 0) o.
  Fixpoint ops_ok (k : smap item) (ops : list rawop) : Prop :=
    match ops with [] => True | o :: r => kresp k o /\ ops_ok (kstep k o) r end.

  Lemma kstep_expected : forall s o, km_expected cmp s o = kstep (km s) o.
  Proof. intros s [k h sz|ks]; reflexivity. Qed.
  Lemma kresp_respects : forall s o, op_respects_sizes s o <-> kresp (km s) o.
  Proof. intros s [k h sz|ks]; reflexivity. Qed.

  Lemma ops_ok_app : forall a b k,
    ops_ok k (a ++ b) <-> ops_ok k a /\ ops_ok (fold_left kstep a k) b.
  Proof.
    induction a as [|o a IH]; intros b k; cbn [app ops_ok fold_left]; [tauto|].
    rewrite IH. tauto.
  Qed.

  (* an operation that the codec reads back and whose keys the key type accepts *)
  Definition op_good (o : rawop) : Prop := op_fits o /\ keys_valid (c_kt cfg) (op_keys o).

  Definition entry_good (e : entry) : Prop := entry_fits e /\ key_valid (c_kt cfg) (fst e) = true.
  Definition km_good (k : smap item) : Prop :=
    sorted cmp k /\ hashes_sized k /\ Forall entry_good k /\ N.of_nat (length k) < 2 ^ 32.

  (* the abstract map fits the formats: at most 2^32-1 keys; every key is accepted by the key
     type and short enough for a put record (45 = tag + length prefix + hash + size); every
     content length fits a u64 *)
  Definition sg_fits (sg : smap bytes) : Prop :=
    N.of_nat (length sg) < 2 ^ 32 /\
    Forall (fun kc => len (fst kc) + 45 < 2 ^ 32 /\ key_valid (c_kt cfg) (fst kc) = true /\
                      len (snd kc) < 2 ^ 64) sg.

  Definition snap_ok (c : N) (km_c : smap item) (dv : path -> option bytes) : Prop :=
    match dv PIndex with
    | None => c = 0 /\ km_c = []
    | Some d => 0 < c /\ d = enc_snapshot c km_c
    end.

  (* one segment: records well-framed, each in the segment its version belongs to, versions
     strictly ascending; no segment beyond the one of the next version; sealed only below [sb] *)
  Definition SegOk (nv sb i : N) (recs : list (N * bytes)) (sealed : bool) : Prop :=
    Forall rec_ok recs /\ Forall (fun r => seg_of (fst r) = i) recs /\ asc (map fst recs) /\
    i <= seg_of nv /\ (sealed = true -> i < sb).

  (* c = persisted snapshot version (0 = none), nv = next version, sb = seal bound,
     pre = the pre-created flag in the settings file, dv = data view of the filesystem;
     witnesses: ids = segment ids (ascending), rf = records per segment, sf = sealed flags,
     km_c = snapshot key map, ops = the operations logged after the snapshot *)
  Record DiskW (c nv sb : N) (pre : bool) (dv : path -> option bytes) (sg : smap bytes)
         (ids : list N) (rf : N -> list (N * bytes)) (sf : N -> bool)
         (km_c : smap item) (ops : list rawop) : Prop := mkDiskW {
    dw_sg : sg_fits sg;
    dw_settings : exists d, dv PSettings = Some d /\
                            dec_settings d = Some (CURRENT_DB_VERSION, pre, c_n cfg);
    dw_snap : snap_ok c km_c dv;
    dw_kmc : km_good km_c;
    dw_asc : asc ids;
    dw_in : forall i, In i ids -> dv (PWal i) = Some (render H (rf i) ++ tailb (sf i));
    dw_out : forall i, ~ In i ids -> dv (PWal i) = None;
    dw_seg : forall i, In i ids -> SegOk nv sb i (rf i) (sf i);
    dw_filter : filter (fun r => c <? fst r) (flat_map rf ids) = enc_from (c + 1) ops;
    dw_nv : nv = c + 1 + N.of_nat (length ops);
    dw_nvfit : nv <= 2 ^ 64;
    dw_opsfit : Forall op_good ops;
    dw_opsok : ops_ok km_c ops;
    dw_fold : fold_left kstep ops km_c = km_of sg
  }.

  Definition DiskOkW (c nv sb : N) (pre : bool) (dv : path -> option bytes) (sg : smap bytes)
    : Prop := exists ids rf sf km_c ops, DiskW c nv sb pre dv sg ids rf sf km_c ops.

  (* THE on-disk invariant of an open handle *)
  Definition DiskOk (m : mem) (s : fs) (sg : smap bytes) : Prop :=
    DiskOkW (lpv (idx m)) (nextv (mwal m)) (seg_of (nextv (mwal m) - 1)) (mpre m) (fdat s) sg.

  (* ---------------------------------------------------------------- *)
  (* D4. view transformers                                             *)
  (* ---------------------------------------------------------------- *)
  Lemma all_lt_nv : forall c nv (all : list (N * bytes)) ops,
    filter (fun r => c <? fst r) all = enc_from (c + 1) ops ->
    nv = c + 1 + N.of_nat (length ops) ->
    forall r, In r all -> fst r < nv.
  Proof.
    intros c nv all ops Fl Nv r Ir. destruct (c <? fst r) eqn:E; [|lia].
    assert (I2 : In r (enc_from (c + 1) ops)) by (rewrite <- Fl; apply filter_In; now split).
    apply enc_from_bound in I2. lia.
  Qed.

  Lemma DiskOkW_ext : forall c nv sb pre dv dv' sg,
    dv' PSettings = dv PSettings -> dv' PIndex = dv PIndex ->
    (forall i, dv' (PWal i) = dv (PWal i)) ->
    DiskOkW c nv sb pre dv sg -> DiskOkW c nv sb pre dv' sg.
  Proof.
    intros c nv sb pre dv dv' sg Es Ei Ew (ids & rf & sf & km_c & ops & D).
    destruct D. exists ids, rf, sf, km_c, ops. constructor; try assumption.
    - now rewrite Es.
    - unfold snap_ok. now rewrite Ei.
    - intros i Ii. rewrite Ew. auto.
    - intros i Ii. rewrite Ew. auto.
  Qed.

  Lemma DiskOkW_weaken_sb : forall c nv sb sb' pre dv sg, sb <= sb' ->
    DiskOkW c nv sb pre dv sg -> DiskOkW c nv sb' pre dv sg.
  Proof.
    intros c nv sb sb' pre dv sg L (ids & rf & sf & km_c & ops & D).
    destruct D. exists ids, rf, sf, km_c, ops. constructor; try assumption.
    intros i Ii. destruct (dw_seg0 i Ii) as (S1 & S2 & S3 & S4 & S5).
    repeat split; try assumption. intros X. specialize (S5 X). lia.
  Qed.

  (* a new, empty segment file for the next version *)
  Lemma V_add_seg : forall c nv sb pre dv dv' sg,
    DiskOkW c nv sb pre dv sg ->
    dv (PWal (seg_of nv)) = None -> dv' (PWal (seg_of nv)) = Some [] ->
    (forall q, q <> PWal (seg_of nv) -> dv' q = dv q) ->
    DiskOkW c nv sb pre dv' sg.
  Proof.
    intros c nv sb pre dv dv' sg (ids & rf & sf & km_c & ops & D) G0 G1 Go.
    destruct D. set (t := seg_of nv) in *.
    assert (Nt : ~ In t ids).
    { intros I. rewrite (dw_in0 t I) in G0. discriminate. }
    exists (ids ++ [t]), (fun i => if i =? t then [] else rf i),
           (fun i => if i =? t then false else sf i), km_c, ops.
    assert (Neq : forall i, In i ids -> (i =? t) = false).
    { intros i Ii. apply N.eqb_neq. intros ->. contradiction. }
    constructor; try assumption.
    - rewrite Go by discriminate. exact dw_settings0.
    - unfold snap_ok. rewrite Go by discriminate. exact dw_snap0.
    - apply asc_snoc; [exact dw_asc0|]. intros y Iy.
      destruct (dw_seg0 y Iy) as (_ & _ & _ & S4 & _). fold t in S4.
      assert (y <> t) by (intros ->; contradiction). lia.
    - intros i Ii. apply in_app_or in Ii. destruct Ii as [Ii|[<-|[]]].
      + rewrite (Neq i Ii). rewrite Go; [auto|]. intros X. inversion X. subst. contradiction.
      + rewrite N.eqb_refl. exact G1.
    - intros i Ni. rewrite Go.
      + apply dw_out0. intros I. apply Ni, in_or_app. now left.
      + intros X. inversion X. subst. apply Ni, in_or_app. right. now left.
    - intros i Ii. apply in_app_or in Ii. destruct Ii as [Ii|[<-|[]]].
      + rewrite (Neq i Ii). auto.
      + rewrite N.eqb_refl. repeat split; try constructor. lia. discriminate.
    - rewrite flat_map_app. cbn [flat_map]. rewrite N.eqb_refl, !app_nil_r.
      rewrite (flat_map_ext_in _ rf); [exact dw_filter0|].
      intros a Ia. now rewrite (Neq a Ia).
  Qed.

  (* the sentinel appended to the segment of the last written version *)
  Lemma V_seal : forall c nv pre dv dv' sg d0,
    DiskOkW c nv (seg_of (nv - 1)) pre dv sg ->
    seg_of (nv - 1) < seg_of nv ->
    dv (PWal (seg_of (nv - 1))) = Some d0 ->
    dv' (PWal (seg_of (nv - 1))) = Some (d0 ++ sentinel) ->
    (forall q, q <> PWal (seg_of (nv - 1)) -> dv' q = dv q) ->
    DiskOkW c nv (seg_of nv) pre dv' sg.
  Proof.
    intros c nv pre dv dv' sg d0 (ids & rf & sf & km_c & ops & D) Lt G0 G1 Go.
    destruct D. set (s0 := seg_of (nv - 1)) in *.
    assert (I0 : In s0 ids).
    { destruct (in_dec N.eq_dec s0 ids) as [I|I]; [exact I|].
      rewrite (dw_out0 s0 I) in G0. discriminate. }
    assert (Sf : sf s0 = false).
    { destruct (sf s0) eqn:E; [|reflexivity].
      destruct (dw_seg0 s0 I0) as (_ & _ & _ & _ & S5). specialize (S5 E). lia. }
    exists ids, rf, (fun i => if i =? s0 then true else sf i), km_c, ops.
    constructor; try assumption.
    - rewrite Go by discriminate. exact dw_settings0.
    - unfold snap_ok. rewrite Go by discriminate. exact dw_snap0.
    - intros i Ii. destruct (N.eqb_spec i s0) as [->|Ne].
      + rewrite G1. rewrite (dw_in0 s0 I0), Sf in G0. cbn [tailb] in *. inversion G0.
        now rewrite app_nil_r.
      + rewrite Go; [auto|]. intros X. inversion X. contradiction.
    - intros i Ni. rewrite Go; [auto|]. intros X. inversion X. subst. contradiction.
    - intros i Ii. destruct (dw_seg0 i Ii) as (S1 & S2 & S3 & S4 & S5).
      repeat split; try assumption. destruct (N.eqb_spec i s0) as [->|Ne]; [auto|].
      intros X. specialize (S5 X). lia.
  Qed.

  Lemma flat_map_upd_last : forall (rf : N -> list (N * bytes)) t x ids,
    asc ids -> In t ids -> (forall i, In i ids -> i <= t) ->
    flat_map (fun i => if i =? t then rf t ++ x else rf i) ids = flat_map rf ids ++ x.
  Proof.
    intros rf t x. induction ids as [|a ids IH]; intros A It Le; [contradiction|].
    destruct A as [Ha A]. cbn [flat_map]. destruct (N.eqb_spec a t) as [->|Ne].
    - destruct ids as [|b ids].
      + cbn [flat_map]. now rewrite !app_nil_r.
      + exfalso. specialize (Ha b (or_introl eq_refl)). specialize (Le b (or_intror (or_introl eq_refl))). lia.
    - destruct It as [->|It]; [contradiction|]. rewrite IH; auto.
      + now rewrite app_assoc.
      + intros i Ii. apply Le. now right.
  Qed.

  (* one more record, for the operation [o], in the segment of its version *)
  Lemma V_append : forall c nv sb pre dv dv' sg sg' o d,
    DiskOkW c nv sb pre dv sg -> sb <= seg_of nv ->
    dv (PWal (seg_of nv)) = Some d ->
    dv' (PWal (seg_of nv)) = Some (d ++ enc_record H nv (enc_op o)) ->
    (forall q, q <> PWal (seg_of nv) -> dv' q = dv q) ->
    op_good o -> len (enc_op o) < 2 ^ 32 -> nv < 2 ^ 64 ->
    kresp (km_of sg) o -> kstep (km_of sg) o = km_of sg' -> sg_fits sg' ->
    DiskOkW c (nv + 1) (seg_of nv) pre dv' sg'.
  Proof.
    intros c nv sb pre dv dv' sg sg' o d (ids & rf & sf & km_c & ops & D) Lsb G0 G1 Go
           Og Lp Lnv Kr Ks Sf'.
    destruct D. set (t := seg_of nv) in *. set (r := (nv, enc_op o)).
    assert (It : In t ids).
    { destruct (in_dec N.eq_dec t ids) as [I|I]; [exact I|].
      rewrite (dw_out0 t I) in G0. discriminate. }
    assert (Sft : sf t = false).
    { destruct (sf t) eqn:E; [|reflexivity].
      destruct (dw_seg0 t It) as (_ & _ & _ & _ & S5). specialize (S5 E). lia. }
    assert (Lt : forall x, In x (flat_map rf ids) -> fst x < nv)
      by (eapply all_lt_nv; eassumption).
    assert (Le : forall i, In i ids -> i <= t).
    { intros i Ii. destruct (dw_seg0 i Ii) as (_ & _ & _ & S4 & _). exact S4. }
    set (rf' := fun i => if i =? t then rf t ++ [r] else rf i).
    assert (FM : flat_map rf' ids = flat_map rf ids ++ [r])
      by (apply flat_map_upd_last; assumption).
    exists ids, rf', sf, km_c, (ops ++ [o]).
    constructor; try assumption.
    - rewrite Go by discriminate. exact dw_settings0.
    - unfold snap_ok. rewrite Go by discriminate. exact dw_snap0.
    - intros i Ii. unfold rf'. destruct (N.eqb_spec i t) as [->|Ne].
      + rewrite G1. rewrite (dw_in0 t It), Sft in G0. cbn [tailb] in *. inversion G0.
        rewrite render_app. unfold render at 3. cbn [flat_map fst snd r]. rewrite Sft. cbn [tailb].
        now rewrite !app_nil_r.
      + rewrite Go; [auto|]. intros X. inversion X. contradiction.
    - intros i Ni. rewrite Go; [auto|]. intros X. inversion X. subst. contradiction.
    - intros i Ii. destruct (dw_seg0 i Ii) as (S1 & S2 & S3 & S4 & S5).
      assert (M : seg_of nv <= seg_of (nv + 1)) by (apply seg_of_mono; lia).
      unfold rf'. destruct (N.eqb_spec i t) as [->|Ne].
      + split; [|split; [|split; [|split]]].
        * apply Forall_app. split; [exact S1|]. constructor; [|constructor].
          unfold r. pose proof (enc_op_nonempty o). repeat split; cbn [fst snd]; lia.
        * apply Forall_app. split; [exact S2|]. constructor; [reflexivity|constructor].
        * rewrite map_app. cbn [map fst r]. apply asc_snoc; [exact S3|].
          intros y Iy. apply in_map_iff in Iy. destruct Iy as (x & <- & Ix).
          apply Lt. apply in_flat_map. exists t. now split.
        * fold t. lia.
        * rewrite Sft. discriminate.
      + repeat split; try assumption; [fold t; lia|]. intros X. specialize (S5 X). fold t. lia.
    - rewrite FM, filter_app, dw_filter0. cbn [filter fst r].
      replace (c <? nv) with true by lia.
      rewrite enc_from_app. cbn [enc_from]. unfold r. do 3 f_equal. lia.
    - rewrite app_length. cbn [length]. lia.
    - lia.
    - apply Forall_app. split; [exact dw_opsfit0|]. constructor; [exact Og|constructor].
    - apply ops_ok_app. split; [exact dw_opsok0|]. rewrite dw_fold0. cbn [ops_ok]. tauto.
    - rewrite fold_left_app, dw_fold0. cbn [fold_left]. exact Ks.
  Qed.

  Lemma km_of_good : forall sg, sorted cmp sg -> NoCollide (map snd sg) -> sg_fits sg ->
    km_good (km_of sg).
  Proof.
    intros sg Ss Nc [Ln Fa]. split; [|split; [|split]].
    - now apply (sorted_km_of H cfg).
    - intros k1 k2 i1 i2 I1 I2 E.
      apply (In_km_of H) in I1. apply (In_km_of H) in I2.
      destruct I1 as (c1 & I1 & ->). destruct I2 as (c2 & I2 & ->).
      cbn [StoreInv.item_of ihash isize] in *.
      assert (c1 = c2); [|now subst].
      apply Nc; [apply in_map_iff; now exists (k1, c1)|apply in_map_iff; now exists (k2, c2)|exact E].
    - apply Forall_forall. intros [k i] Ik. apply (In_km_of H) in Ik. destruct Ik as (c0 & Ik & ->).
      rewrite Forall_forall in Fa. destruct (Fa _ Ik) as (F1 & F2 & F3). cbn [fst snd] in *.
      split; [|exact F2]. unfold entry_fits, key_fits, hash_ok. cbn [fst snd StoreInv.item_of ihash isize].
      split; [lia|]. split; [apply H_len|exact F3].
    - unfold StoreInv.km_of. now rewrite map_length.
  Qed.

  (* a snapshot of the current map at version nv-1, segments below [b] removed *)
  Lemma V_checkpoint : forall c nv sb pre dv dv' sg b,
    DiskOkW c nv sb pre dv sg -> sorted cmp sg -> NoCollide (map snd sg) ->
    0 < nv - 1 -> b <= seg_of (nv - 1) ->
    dv' PIndex = Some (enc_snapshot (nv - 1) (km_of sg)) ->
    dv' PSettings = dv PSettings ->
    (forall i, dv' (PWal i) = if i <? b then None else dv (PWal i)) ->
    DiskOkW (nv - 1) nv sb pre dv' sg.
  Proof.
    intros c nv sb pre dv dv' sg b (ids & rf & sf & km_c & ops & D) Ss Nc Pos Lb Gi Gs Gw.
    destruct D.
    assert (Lt : forall x, In x (flat_map rf ids) -> fst x < nv)
      by (eapply all_lt_nv; eassumption).
    exists (filter (fun i => negb (i <? b)) ids), rf, sf, (km_of sg), [].
    constructor; try assumption.
    - now rewrite Gs.
    - unfold snap_ok. rewrite Gi. split; [exact Pos|reflexivity].
    - now apply km_of_good.
    - now apply asc_filter.
    - intros i Ii. apply filter_In in Ii. destruct Ii as [Ii Nb]. rewrite Gw.
      destruct (i <? b); [discriminate|auto].
    - intros i Ni. rewrite Gw. destruct (i <? b) eqn:E; [reflexivity|].
      apply dw_out0. intros I. apply Ni, filter_In. split; [exact I|now rewrite E].
    - intros i Ii. apply filter_In in Ii. destruct Ii as [Ii Nb]. auto.
    - cbn [enc_from]. apply filter_none. intros x Ix.
      assert (I2 : In x (flat_map rf ids)).
      { apply in_flat_map in Ix. destruct Ix as (i & Ii & Ix). apply filter_In in Ii.
        apply in_flat_map. exists i. tauto. }
      specialize (Lt x I2). lia.
    - cbn [length]. lia.
    - constructor.
    - exact I.
    - reflexivity.
  Qed.

  (* ---------------------------------------------------------------- *)
  (* D5. exact effect of the WAL writer, pruning and checkpoint        *)
  (* ---------------------------------------------------------------- *)
  (* write_all through an empty BufWriter followed by a flush: [data] reaches the file once *)
  Lemma x_bw_write_flush : forall p data d w,
    wfault w = None -> FsWf (wfs w) -> fdat (wfs w) p = Some d ->
    exists b1 w1 w2, bw_write_all p [] data w = ((Ok tt, b1), w1) /\
                     bw_flush p b1 w1 = ((Ok tt, []), w2) /\ Eff w w2 /\
                     forall q, fdat (wfs w2) q = vset (fdat (wfs w)) p (Some (d ++ data)) q.
  Proof.
    intros p data d w F W G.
    assert (Buf : exists w2, bw_flush p data w = ((Ok tt, []), w2) /\ Eff w w2 /\
                    forall q, fdat (wfs w2) q = vset (fdat (wfs w)) p (Some (d ++ data)) q).
    { destruct data as [|x data].
      - exists w. split; [reflexivity|]. split; [now apply eff_refl|].
        intros q. unfold vset. destruct (path_eqb_spec q p) as [->|N]; [|reflexivity].
        now rewrite app_nil_r.
      - destruct (x_append w p d (x :: data) F W G) as (w2 & E2 & X2 & V2).
        exists w2. unfold bw_flush. rewrite (bind_eq _ _ _ _ _ E2). now split. }
    unfold bw_write_all. cbv zeta.
    destruct (len data <? BUFCAP - len []).
    - destruct Buf as (w2 & E2 & X2 & V2). exists ([] ++ data), w, w2. now split.
    - assert (E0 : (if BUFCAP - len [] <? len data then bw_flush p [] else ret (Ok tt, [])) w
                     = ((Ok tt, []), w)) by (destruct (BUFCAP - len [] <? len data); reflexivity).
      rewrite (bind_eq _ _ _ _ _ E0).
      destruct (BUFCAP <=? len data).
      + destruct (x_append w p d data F W G) as (w2 & E2 & X2 & V2).
        exists [], w2, w2. rewrite (bind_eq _ _ _ _ _ E2). split; [reflexivity|].
        split; [reflexivity|]. now split.
      + destruct Buf as (w2 & E2 & X2 & V2). exists ([] ++ data), w, w2. now split.
  Qed.

  Lemma x_write_entry : forall seg ver payload d w,
    wfault w = None -> FsWf (wfs w) -> fdat (wfs w) (PWal seg) = Some d ->
    exists w', write_entry H seg [] ver payload w = ((Ok tt, []), w') /\ Eff w w' /\
      forall q, fdat (wfs w') q
                = vset (fdat (wfs w)) (PWal seg) (Some (d ++ enc_record H ver payload)) q.
  Proof.
    intros seg ver payload d w F W G. unfold write_entry. cbv zeta.
    destruct (x_bw_write_flush (PWal seg) (enc_record H ver payload) d w F W G)
      as (b1 & w1 & w2 & E1 & E2 & X2 & V2).
    rewrite (bind_eq _ _ _ _ _ E1), (bind_eq _ _ _ _ _ E2).
    destruct X2 as (F2 & W2 & D2 & N2).
    destruct (x_sync w2 (PWal seg) (d ++ enc_record H ver payload) F2 W2) as (w3 & E3 & X3 & V3).
    { now rewrite V2, vset_same. }
    rewrite (bind_eq _ _ _ _ _ E3). exists w3. split; [reflexivity|].
    split; [eapply eff_trans; [|exact X3]; repeat split; assumption|].
    intros q. now rewrite V3, V2.
  Qed.

  Lemma x_writer_close : forall seg d w,
    wfault w = None -> FsWf (wfs w) -> fdat (wfs w) (PWal seg) = Some d ->
    exists w', writer_close seg [] w = (Ok tt, w') /\ Eff w w' /\
               forall q, fdat (wfs w') q = fdat (wfs w) q.
  Proof.
    intros seg d w F W G. unfold writer_close.
    assert (E0 : bw_flush (PWal seg) [] w = ((Ok tt, []), w)) by reflexivity.
    rewrite (bind_eq _ _ _ _ _ E0).
    destruct (x_sync w (PWal seg) d F W G) as (w3 & E3 & X3 & V3).
    rewrite (bind_eq _ _ _ _ _ E3). exists w3. now split.
  Qed.

  Lemma x_writer_seal : forall seg d w,
    wfault w = None -> FsWf (wfs w) -> fdat (wfs w) (PWal seg) = Some d ->
    exists w', writer_seal seg [] w = (Ok tt, w') /\ Eff w w' /\
      forall q, fdat (wfs w') q = vset (fdat (wfs w)) (PWal seg) (Some (d ++ sentinel)) q.
  Proof.
    intros seg d w F W G. unfold writer_seal.
    destruct (x_bw_write_flush (PWal seg) sentinel d w F W G)
      as (b1 & w1 & w2 & E1 & E2 & X2 & V2).
    rewrite (bind_eq _ _ _ _ _ E1). unfold writer_close. rewrite (bind_eq _ _ _ _ _ E2).
    destruct X2 as (F2 & W2 & D2 & N2).
    destruct (x_sync w2 (PWal seg) (d ++ sentinel) F2 W2) as (w3 & E3 & X3 & V3).
    { now rewrite V2, vset_same. }
    rewrite (bind_eq _ _ _ _ _ E3). exists w3. split; [reflexivity|].
    split; [eapply eff_trans; [|exact X3]; repeat split; assumption|].
    intros q. now rewrite V3, V2.
  Qed.

  Definition not_wal (q : path) : Prop := match q with PWal _ => False | _ => True end.

  (* append_op on the views: DiskOkW before, DiskOkW after (for the next version) *)
  Lemma append_op_disk : forall wl c pre sg sg' o w,
    wfault w = None -> FsWf (wfs w) ->
    DiskOkW c (nextv wl) (seg_of (nextv wl - 1)) pre (fdat (wfs w)) sg ->
    match writer wl with
    | None => True
    | Some (s0, buf) => buf = [] /\ fdat (wfs w) (PWal s0) <> None /\ s0 = seg_of (nextv wl - 1)
    end ->
    op_good o -> len (enc_op o) < 2 ^ 32 -> nextv wl < 2 ^ 64 ->
    kresp (km_of sg) o -> kstep (km_of sg) o = km_of sg' -> sg_fits sg' ->
    exists w', append_op H cfg wl (enc_op o) w
               = ((Ok (nextv wl), mkWal (nextv wl + 1) (Some (seg_of (nextv wl), []))), w') /\
               Eff w w' /\
               DiskOkW c (nextv wl + 1) (seg_of (nextv wl)) pre (fdat (wfs w')) sg' /\
               (forall q, not_wal q -> fdat (wfs w') q = fdat (wfs w) q).
  Proof.
    intros wl c pre sg sg' o w F W D Hw Og Lp Lnv Kr Ks Sf'.
    unfold append_op. cbv zeta.
    set (ver := nextv wl) in *. set (t := seg_of ver).
    (* phase 1: seal the old segment and open the target, as needed *)
    assert (P1 : exists w1,
      (if match writer wl with None => true | Some (s, _) => negb (s =? t) end
       then do! rs <- match writer wl with Some (s, b) => writer_seal s b | None => ret (Ok tt) end ;;
            match rs with
            | Err e => ret (Err e, mkWal (ver + 1) None)
            | Ok _ => do! r <- do_call (COpenAppend (PWal t)) ;;
                      match r with
                      | Err _ => ret (Err EWalIo, mkWal (ver + 1) None)
                      | Ok _ => ret (Ok tt, mkWal (ver + 1) (Some (t, [])))
                      end
            end
       else ret (Ok tt, mkWal (ver + 1) (writer wl))) w
      = ((Ok tt, mkWal (ver + 1) (Some (t, []))), w1) /\ Eff w w1 /\
      DiskOkW c ver t pre (fdat (wfs w1)) sg /\ fdat (wfs w1) (PWal t) <> None /\
      (forall q, not_wal q -> fdat (wfs w1) q = fdat (wfs w) q)).
    { assert (Roll : forall w0, Eff w w0 -> DiskOkW c ver t pre (fdat (wfs w0)) sg ->
                (forall q, not_wal q -> fdat (wfs w0) q = fdat (wfs w) q) ->
                exists w1, (do! r <- do_call (COpenAppend (PWal t)) ;;
                      match r with
                      | Err _ => ret (Err EWalIo, mkWal (ver + 1) None)
                      | Ok _ => ret (Ok tt, mkWal (ver + 1) (Some (t, [])))
                      end) w0 = ((Ok tt, mkWal (ver + 1) (Some (t, []))), w1) /\ Eff w w1 /\
                  DiskOkW c ver t pre (fdat (wfs w1)) sg /\ fdat (wfs w1) (PWal t) <> None /\
                  (forall q, not_wal q -> fdat (wfs w1) q = fdat (wfs w) q)).
      { intros w0 X0 D0 N0. pose proof X0 as (F0 & W0 & _).
        destruct (x_open_append w0 (PWal t) F0 W0 eq_refl) as (w1 & E1 & X1 & V1).
        exists w1. rewrite (bind_eq _ _ _ _ _ E1). split; [reflexivity|].
        split; [eapply eff_trans; eassumption|].
        destruct (fdat (wfs w0) (PWal t)) as [d|] eqn:Gt.
        - split; [|split].
          + eapply DiskOkW_ext; [| | |exact D0]; intros; apply V1.
          + rewrite V1, Gt. discriminate.
          + intros q Nq. rewrite V1. now apply N0.
        - split; [|split].
          + eapply V_add_seg; [exact D0|exact Gt| |].
            * fold t. now rewrite V1, vset_same.
            * intros q Nq. rewrite V1. now apply vset_other.
          + rewrite V1, vset_same. discriminate.
          + intros q Nq. rewrite V1, vset_other; [now apply N0|].
            intros ->. exact Nq. }
      destruct (writer wl) as [[s b]|] eqn:Wr.
      - destruct Hw as (-> & Gs & Es). destruct (N.eqb_spec s t) as [Est|Nst]; cbn [negb].
        + rewrite Est in Gs. rewrite Est.
          exists w. split; [reflexivity|]. split; [now apply eff_refl|].
          split; [|split; [exact Gs|auto]].
          eapply DiskOkW_weaken_sb; [|exact D]. rewrite <- Es, Est. lia.
        + destruct (fdat (wfs w) (PWal s)) as [d0|] eqn:G0; [|contradiction].
          destruct (x_writer_seal s d0 w F W G0) as (w0 & E0 & X0 & V0).
          rewrite (bind_eq _ _ _ _ _ E0).
          assert (Lt : seg_of (ver - 1) < seg_of ver).
          { assert (seg_of (ver - 1) <= seg_of ver) by (apply seg_of_mono; lia).
            fold t. rewrite <- Es. lia. }
          apply Roll; [exact X0| |].
          * eapply V_seal; [exact D|exact Lt| | |].
            -- rewrite <- Es. exact G0.
            -- rewrite <- Es. now rewrite V0, vset_same.
            -- intros q Nq. rewrite V0. apply vset_other. now rewrite Es.
          * intros q Nq. rewrite V0. apply vset_other. intros ->. exact Nq.
      - unfold bind at 1. cbn [ret]. apply Roll; [now apply eff_refl| |auto].
        eapply DiskOkW_weaken_sb; [|exact D]. apply seg_of_mono. lia. }
    destruct P1 as (w1 & E1 & X1 & D1 & G1 & N1).
    rewrite (bind_eq _ _ _ _ _ E1). cbn [writer nextv].
    destruct (fdat (wfs w1) (PWal t)) as [d|] eqn:Gt; [|contradiction].
    pose proof X1 as (F1 & W1 & _).
    destruct (x_write_entry t ver (enc_op o) d w1 F1 W1 Gt) as (w2 & E2 & X2 & V2).
    rewrite (bind_eq _ _ _ _ _ E2).
    exists w2. split; [reflexivity|]. split; [eapply eff_trans; eassumption|]. split.
    - eapply (V_append c ver t pre (fdat (wfs w1)) (fdat (wfs w2)) sg sg' o d); try assumption.
      + unfold t. lia.
      + fold t. now rewrite V2, vset_same.
      + intros q Nq. rewrite V2. now apply vset_other.
    - intros q Nq. rewrite V2, vset_other; [now apply N1|]. intros ->. exact Nq.
  Qed.

  (* unlinking a duplicate-free list of existing files *)
  Lemma x_unlink_all : forall ps w, wfault w = None -> FsWf (wfs w) -> NoDup ps ->
    (forall p, In p ps -> fdat (wfs w) p <> None) ->
    exists w', unlink_all ps w = (Ok tt, w') /\ Eff w w' /\
               (forall q, In q ps -> fdat (wfs w') q = None) /\
               (forall q, ~ In q ps -> fdat (wfs w') q = fdat (wfs w) q).
  Proof.
    induction ps as [|p ps IH]; intros w F W ND Ex; cbn [unlink_all].
    - exists w. split; [reflexivity|]. split; [now apply eff_refl|]. split; [intros q []|auto].
    - inversion ND as [|? ? Np ND']; subst.
      destruct (x_unlink w p F W (Ex p (or_introl eq_refl))) as (w1 & E1 & X1 & V1).
      rewrite (bind_eq _ _ _ _ _ E1). pose proof X1 as (F1 & W1 & _).
      destruct (IH w1 F1 W1 ND') as (w2 & E2 & X2 & V2a & V2b).
      { intros q Iq. rewrite V1, vset_other; [apply Ex; now right|]. intros ->. contradiction. }
      exists w2. split; [exact E2|]. split; [eapply eff_trans; eassumption|]. split.
      + intros q [<-|Iq]; [|auto]. rewrite V2b by exact Np. now rewrite V1, vset_same.
      + intros q Nq. rewrite V2b by (intros I; apply Nq; now right).
        rewrite V1. apply vset_other. intros ->. apply Nq. now left.
  Qed.

  Lemma x_prune_below : forall b w, wfault w = None -> FsWf (wfs w) ->
    exists w', prune_below b w = (tt, w') /\ Eff w w' /\
               (forall i, fdat (wfs w') (PWal i) = if i <? b then None else fdat (wfs w) (PWal i)) /\
               (forall q, not_wal q -> fdat (wfs w') q = fdat (wfs w) q).
  Proof.
    intros b w F W. unfold prune_below. unfold bind at 1, get_fs at 1.
    set (ids := filter (fun i => i <? b) (sort_ids (wal_ids (wfs w)))).
    destruct (sort_ids_spec (wal_ids (wfs w))) as [A E]; [apply widl_nodup, W|].
    assert (Iid : forall i, In i ids <-> (i <? b) = true /\ fdat (wfs w) (PWal i) <> None).
    { intros i. unfold ids. rewrite filter_In, E, In_wal_ids.
      pose proof (fdat_none (wfs w) (PWal i)). tauto. }
    destruct (x_unlink_all (map PWal ids) w F W) as (w' & E' & X' & Va & Vb).
    { apply NoDup_map_PWal, NoDup_filter, asc_nodup, A. }
    { intros p Ip. apply in_map_iff in Ip. destruct Ip as (i & <- & Ii). now apply Iid. }
    rewrite (bind_eq _ _ _ _ _ E'). exists w'. split; [reflexivity|]. split; [exact X'|]. split.
    - intros i. destruct (i <? b) eqn:Lb.
      + destruct (fdat (wfs w) (PWal i)) as [d|] eqn:G.
        * apply Va, in_map, Iid. split; [exact Lb|]. rewrite G. discriminate.
        * rewrite Vb; [exact G|]. intros I. apply in_map_iff in I. destruct I as (j & Q & Ij).
          inversion Q; subst j. apply Iid in Ij. rewrite G in Ij. tauto.
      + apply Vb. intros I. apply in_map_iff in I. destruct I as (j & Q & Ij).
        inversion Q; subst j. apply Iid in Ij. rewrite Lb in Ij. destruct Ij; discriminate.
    - intros q Nq. apply Vb. intros I. apply in_map_iff in I. destruct I as (j & <- & _). exact Nq.
  Qed.

  (* checkpoint_inner: either nothing happens, or the snapshot of the current map at version
     nextv-1 replaces the index file and the segments below its segment are removed *)
  Lemma ck_disk : forall reason m sb sg w,
    wfault w = None -> FsWf (wfs w) ->
    DiskOkW (lpv (idx m)) (nextv (mwal m)) sb (mpre m) (fdat (wfs w)) sg ->
    km (idx m) = km_of sg -> sorted cmp sg -> NoCollide (map snd sg) ->
    exists m' w', checkpoint_inner cfg reason m w = ((Ok tt, m'), w') /\ Eff w w' /\
      DiskOkW (lpv (idx m')) (nextv (mwal m)) sb (mpre m) (fdat (wfs w')) sg /\
      km (idx m') = km (idx m) /\ rc (idx m') = rc (idx m) /\
      ub (idx m') = ub (idx m) /\ tb (idx m') = tb (idx m) /\
      mwal m' = mwal m /\ mpre m' = mpre m /\
      (forall q, ~ is_meta q -> fdat (wfs w') q = fdat (wfs w) q) /\
      (reason <> RRollover -> 0 < nextv (mwal m) - 1 ->
       lpv (idx m') = nextv (mwal m) - 1 /\
       exists d, fdat (wfs w') PIndex = Some d /\ ssz (idx m') = len d).
  Proof.
    intros reason m sb sg w F W D Km Ss Nc. unfold checkpoint_inner. cbv zeta.
    set (nv := nextv (mwal m)) in *.
    match goal with |- context [if ?c then _ else _] => destruct c eqn:Cond end.
    - exists m, w. split; [reflexivity|]. split; [now apply eff_refl|]. split; [exact D|].
      do 6 (split; [reflexivity|]). split; [auto|].
      intros Nr Pos. exfalso. apply orb_true_iff in Cond. destruct Cond as [Cond|Cond]; [|lia].
      destruct reason; cbn in Cond; try discriminate. contradiction.
    - apply orb_false_iff in Cond. destruct Cond as [_ Pos]. apply N.eqb_neq in Pos.
      match goal with |- context [atomic_write PIndex PIndexTmp ?d] =>
        destruct (atomic_write_ok PIndex PIndexTmp d w F eq_refl eq_refl) as (w1 & E1 & S1 & G1);
        set (data := d) in *
      end.
      rewrite (bind_eq _ _ _ _ _ E1).
      pose proof (step_eff _ _ _ _ W S1) as X1.
      assert (V1 : forall q, q <> PIndex -> q <> PIndexTmp -> fdat (wfs w1) q = fdat (wfs w) q).
      { intros q N1 N2. eapply step_fdat; [exact S1|]. intros [X|X]; contradiction. }
      assert (Gi : fdat (wfs w1) PIndex = Some data) by (apply fdat_some; exact G1).
      assert (Dk : forall b w2, b <= seg_of (nv - 1) ->
                (forall i, fdat (wfs w2) (PWal i) = if i <? b then None else fdat (wfs w1) (PWal i)) ->
                (forall q, not_wal q -> fdat (wfs w2) q = fdat (wfs w1) q) ->
                DiskOkW (nv - 1) nv sb (mpre m) (fdat (wfs w2)) sg).
      { intros b w2 Lb Vw Vo. eapply V_checkpoint; [exact D|exact Ss|exact Nc|lia|exact Lb| | |].
        - rewrite Vo by exact I. rewrite Gi. unfold data. cbn [km]. now rewrite Km.
        - rewrite Vo by exact I. apply V1; discriminate.
        - intros i. rewrite Vw. destruct (i <? b); [reflexivity|]. apply V1; discriminate. }
      match goal with |- context [if ?c then ret tt else _] => destruct c end.
      + unfold bind at 1. cbn [ret]. eexists _, w1. split; [reflexivity|]. split; [exact X1|].
        cbn [idx lpv km rc ub tb ssz mwal mpre]. split.
        { apply (Dk 0 w1); [lia| |auto]. intros i. destruct (i <? 0) eqn:E; [lia|reflexivity]. }
        do 6 (split; [reflexivity|]). split.
        * intros q Nq. apply V1; intros ->; apply Nq; exact I.
        * intros _ _. split; [reflexivity|]. exists data. now split.
      + pose proof X1 as (F1 & W1 & _).
        destruct (x_prune_below (seg_of (nv - 1)) w1 F1 W1) as (w2 & E2 & X2 & Vw & Vo).
        fold nv. rewrite (bind_eq _ _ _ _ _ E2). eexists _, w2. split; [reflexivity|].
        split; [eapply eff_trans; eassumption|].
        cbn [idx lpv km rc ub tb ssz mwal mpre]. split.
        { apply (Dk (seg_of (nv - 1)) w2); [lia|exact Vw|exact Vo]. }
        do 6 (split; [reflexivity|]). split.
        * intros q Nq. rewrite Vo; [apply V1; intros ->; apply Nq; exact I|].
          destruct q; try exact I. apply Nq. exact I.
        * intros _ _. split; [reflexivity|]. exists data. split; [|reflexivity].
          rewrite Vo by exact I. exact Gi.
  Qed.

  (* ---------------------------------------------------------------- *)
  (* D6. log_and_apply and the API operations                          *)
  (* ---------------------------------------------------------------- *)
  Lemma DiskOk_ext : forall m s s' sg,
    fdat s' PSettings = fdat s PSettings -> fdat s' PIndex = fdat s PIndex ->
    (forall i, fdat s' (PWal i) = fdat s (PWal i)) ->
    DiskOk m s sg -> DiskOk m s' sg.
  Proof. intros m s s' sg E1 E2 E3. unfold DiskOk. now apply DiskOkW_ext. Qed.

  Lemma wal_ok_fdat : forall m s, wal_ok cfg m s ->
    match writer (mwal m) with
    | None => True
    | Some (s0, buf) => buf = [] /\ fdat s (PWal s0) <> None /\ s0 = seg_of (nextv (mwal m) - 1)
    end.
  Proof.
    intros m s [_ Hw]. destruct (writer (mwal m)) as [[s0 buf]|]; [|exact I].
    destruct Hw as (B & G & _ & Es). split; [exact B|]. split; [|exact Es].
    intros X. apply G. now apply fdat_none.
  Qed.

  (* the weak form: only what the log / snapshot path needs of the handle *)
  Lemma log_and_apply_disk0 : forall m sg sg' o w,
    km (idx m) = km_of sg -> IdxInv cmp (idx m) -> wal_ok cfg m (wfs w) ->
    DiskOk m (wfs w) sg -> FsWf (wfs w) -> wfault w = None ->
    op_respects_sizes (idx m) o ->
    sorted cmp sg' -> km_of sg' = km_expected cmp (idx m) o -> NoCollide (map snd sg') ->
    sg_fits sg' -> op_good o -> len (enc_op o) < 2 ^ 32 -> nextv (mwal m) < 2 ^ 64 ->
    exists m' w', log_and_apply H cfg m o w = ((Ok tt, m'), w') /\ wfault w' = None /\
      DiskOk m' (wfs w') sg' /\ FsWf (wfs w') /\ nextv (mwal m') = nextv (mwal m) + 1.
  Proof.
    intros m sg sg' o w Hkm Hidx Hwal D Wf F Hop Ssg' Kexp Nc' Sf' Og Lp Lnv.
    unfold log_and_apply. cbv zeta.
    destruct (append_op_disk (mwal m) (lpv (idx m)) (mpre m) sg sg' o w F Wf D)
      as (w1 & E1 & X1 & D1 & N1); try assumption.
    { now apply wal_ok_fdat. }
    { rewrite <- Hkm. now apply kresp_respects. }
    { rewrite <- Hkm, <- kstep_expected. now symmetry. }
    rewrite (bind_eq _ _ _ _ _ E1).
    destruct (C12_apply cmp (key_cmp_refl _) (key_cmp_eq _) (key_cmp_antisym _) (key_cmp_trans _)
                (idx m) o Hidx Hop) as (i' & un & Eap & Inv' & Ki' & Li' & _ & _).
    unfold cmp in Eap. rewrite Eap.
    pose proof X1 as (F1 & W1 & _).
    destruct (delete_blobs_ok un w1 F1) as (w2 & E2 & S2 & _).
    rewrite (bind_eq _ _ _ _ _ E2).
    set (wl' := mkWal (nextv (mwal m) + 1) (Some (seg_of (nextv (mwal m)), []))) in *.
    set (m1 := mkMem i' wl' (mpre m)).
    pose proof (step_eff _ _ _ _ W1 S2) as X2. pose proof X2 as (F2 & W2 & _).
    assert (D2 : DiskOk m1 (wfs w2) sg').
    { unfold DiskOk, m1, wl'. cbn [idx mwal mpre nextv]. rewrite Li'.
      replace (nextv (mwal m) + 1 - 1) with (nextv (mwal m)) by lia.
      eapply DiskOkW_ext; [| | |exact D1]; intros; (eapply step_fdat; [exact S2|]);
        intros (h & _ & Q); discriminate. }
    match goal with |- context [if ?c then checkpoint_inner cfg RRollover m1 else _] =>
      destruct c end.
    - destruct (ck_disk RRollover m1 _ sg' w2 F2 W2 D2)
        as (m' & w3 & E3 & X3 & D3 & _ & _ & _ & _ & Wl3 & P3 & _); try assumption.
      { unfold m1. cbn [idx]. rewrite Ki'. now symmetry. }
      exists m', w3. split; [exact E3|]. destruct X3 as (F3 & W3 & _).
      split; [exact F3|]. split; [|split; [exact W3|now rewrite Wl3]].
      unfold DiskOk. rewrite Wl3, P3. exact D3.
    - exists m1, w2. split; [reflexivity|]. split; [exact F2|]. split; [exact D2|].
      split; [exact W2|reflexivity].
  Qed.

  Lemma log_and_apply_disk : forall m s sg sg' o w,
    Live0 m s sg -> DiskOk m s sg -> FsWf s -> wfs w = s -> wfault w = None ->
    op_respects_sizes (idx m) o ->
    sorted cmp sg' -> km_of sg' = km_expected cmp (idx m) o -> NoCollide (map snd sg') ->
    sg_fits sg' -> op_good o -> len (enc_op o) < 2 ^ 32 -> nextv (mwal m) < 2 ^ 64 ->
    exists m' w', log_and_apply H cfg m o w = ((Ok tt, m'), w') /\ wfault w' = None /\
      DiskOk m' (wfs w') sg' /\ FsWf (wfs w') /\ nextv (mwal m') = nextv (mwal m) + 1.
  Proof.
    intros m s sg sg' o w L D Wf Ws F. subst s. destruct L as [_ Hkm Hidx _ _ _ _ Hwal].
    now apply (log_and_apply_disk0 m sg sg' o w).
  Qed.

  (* the three properties carried along a history *)
  Definition Inv (m : mem) (s : fs) (sg : smap bytes) : Prop :=
    Live0 m s sg /\ DiskOk m s sg /\ FsWf s.

  Lemma run_det : forall {A} (r1 r2 : A * world), r1 = r2 -> fst r1 = fst r2 /\ snd r1 = snd r2.
  Proof. intros A r1 r2 ->. now split. Qed.

  (* ---- put ---- *)
  (* the staging part of put leaves the meta files alone *)
  Lemma put_stage_meta : forall m s sg k chunks w,
    Live0 m s sg -> wfs w = s -> wfault w = None -> FsWf s ->
    let c := concat chunks in
    exists w5,
      put H cfg m k chunks w = log_and_apply H cfg m (RPut k (H c) (len c)) w5 /\
      wfault w5 = None /\ FsWf (wfs w5) /\
      (forall r, not_cas r -> ~ is_staging r -> fget (wfs w5) r = fget (wfs w) r).
  Proof.
    intros m s sg k chunks w L Ws F Wf c. subst s.
    pose proof L as [Ssg Hkm Hidx Hnc Hcas Hst Hdirs Hwal]. destruct Hdirs as (D1 & D2 & D3).
    unfold put. cbv zeta. fold c. clearbody c.
    set (h := H c). set (p := PStaging (nstage (wfs w))). set (q := cas_path h).
    assert (Npq : p <> q) by discriminate.
    set (s1 := mkFs (set_path (files (wfs w)) p (mkFile [] 0)) (dirs (wfs w)) (nstage (wfs w) + 1)).
    set (w1 := mkWorld s1 (TCall (CCreateExcl p) :: wtrace w) (S (wcount w)) None).
    assert (EA : new_staging w = (Ok p, w1)).
    { unfold new_staging. unfold bind at 1, get_fs at 1. fold p.
      assert (E : apply_call (CCreateExcl p) (wfs w) = Ok s1).
      { unfold p. cbn [apply_call]. unfold parent_ok. cbn [parent_dir]. rewrite D1.
        rewrite (Hst (nstage (wfs w))) by lia. reflexivity. }
      rewrite (bind_eq _ _ _ _ _ (do_call_ok _ _ _ F E)). reflexivity. }
    rewrite (bind_eq _ _ _ _ _ EA).
    assert (G1 : forall r, fget s1 r = if path_eqb r p then Some (mkFile [] 0) else fget (wfs w) r).
    { intros r. unfold fget, s1. cbn [files]. apply lookup_set_path. }
    assert (Wf1 : FsWf (wfs w1)).
    { unfold FsWf. cbn [wfs w1 s1 files]. now apply paths_set_nodup. }
    assert (PB : exists w2 f2, (match c with [] => ret (Ok tt) | _ => do_call (CAppend p c) end) w1
                   = (Ok tt, w2) /\ Step (eq p) (ev_on (eq p)) w1 w2 /\
                   fget (wfs w2) p = Some f2 /\ fdata f2 = c).
    { destruct c as [|x c].
      - exists w1, (mkFile [] 0). split; [reflexivity|]. split; [now apply step_refl|].
        split; [|reflexivity]. cbn [wfs w1]. now rewrite G1, path_eqb_refl.
      - destruct (call_append (eq p) w1 p (mkFile [] 0) (x :: c) eq_refl eq_refl)
          as (w2 & E2 & W2 & S2).
        { cbn [wfs w1]. now rewrite G1, path_eqb_refl. }
        exists w2, (mkFile ([] ++ x :: c) 0). split; [exact E2|]. split; [exact S2|].
        split; [|reflexivity]. rewrite W2. apply fget_upd_same. }
    destruct PB as (w2 & f2 & E2 & S2 & G2 & Df2). rewrite (bind_eq _ _ _ _ _ E2).
    assert (PC : exists w3 f3, (if c_sync cfg then do_call (CSync p) else ret (Ok tt)) w2
                   = (Ok tt, w3) /\ Step (eq p) (ev_on (eq p)) w2 w3 /\
                   fget (wfs w3) p = Some f3 /\ fdata f3 = c).
    { destruct (c_sync cfg).
      - destruct (call_sync (eq p) w2 p f2 (st_fault _ _ _ _ S2) eq_refl G2) as (w3 & E3 & W3 & S3).
        exists w3, (mkFile (fdata f2) (length (fdata f2))). split; [exact E3|]. split; [exact S3|].
        split; [|exact Df2]. rewrite W3. apply fget_upd_same.
      - exists w2, f2. split; [reflexivity|]. split; [apply step_refl, S2|]. now split. }
    destruct PC as (w3 & f3 & E3 & S3 & G3 & Df3). rewrite (bind_eq _ _ _ _ _ E3).
    pose proof (step_trans _ _ _ _ _ S2 S3) as S13.
    assert (Dirs3 : dirs (wfs w3) = dirs (wfs w)).
    { now rewrite (fr_dirs _ _ _ (st_frame _ _ _ _ S13)). }
    destruct (hexpath_shape h (H_len c) (H_byte c)) as (xa & xb & xc & Hp & _).
    assert (PD : exists w4, (if mpre m then ret (Ok tt)
                             else mkdir_cas2 (nth 0 (hexpath h) []) (nth 1 (hexpath h) [])) w3
                   = (Ok tt, w4) /\ Grow w3 w4 /\ parent_ok (wfs w4) q = true).
    { destruct (mpre m) eqn:Pre.
      - exists w3. split; [reflexivity|]. split; [apply grow_refl, S3|].
        specialize (D3 eq_refl h (H_len c) (H_byte c)). fold q in D3. unfold parent_ok, has_dir in *.
        now rewrite Dirs3.
      - destruct (mkdir_cas2_ok (nth 0 (hexpath h) []) (nth 1 (hexpath h) []) w3
                    (st_fault _ _ _ _ S3)) as (w4 & E4 & G4 & D4).
        { unfold has_dir in *. now rewrite Dirs3. }
        exists w4. split; [exact E4|]. split; [exact G4|].
        unfold parent_ok, q, cas_path. cbn [parent_dir]. rewrite Hp in *.
        cbn [removelast nth] in *. exact D4. }
    destruct PD as (w4 & E4 & G4 & PO4). rewrite (bind_eq _ _ _ _ _ E4).
    assert (G4p : fget (wfs w4) p = Some f3) by now rewrite (grow_fget _ _ _ G4).
    destruct (do_call_step (fun r => r = p \/ r = q) (fun e => e = TCall (CRename p q))
                (CRename p q) w4 (ren (wfs w4) p q f3) (proj1 (gr_ext _ _ G4)))
      as (w5 & E5 & W5 & S5).
    { cbn [apply_call]. now rewrite G4p, PO4. }
    { apply frame_ren; auto. }
    { reflexivity. }
    rewrite (bind_eq _ _ _ _ _ E5). exists w5. split; [reflexivity|].
    split; [exact (st_fault _ _ _ _ S5)|]. split.
    - rewrite W5. apply ren_wf. unfold FsWf. rewrite (gr_files _ _ G4).
      apply (fr_wf _ _ _ (st_frame _ _ _ _ S13)), Wf1.
    - intros r Nc Ns.
      assert (Np : r <> p) by (intros ->; apply Ns; exact I).
      assert (Nq : r <> q) by (intros ->; exact Nc).
      rewrite W5, fget_ren, (path_eqb_neq _ _ Nq), (fget_del_other _ _ _ Np).
      rewrite (grow_fget _ _ _ G4).
      destruct (fr_get _ _ _ (st_frame _ _ _ _ S13) r) as [X|X]; [now subst|].
      rewrite X. cbn [wfs w1]. now rewrite G1, (path_eqb_neq _ _ Np).
  Qed.

  Lemma length_sm_ins_le : forall {V} (mm : smap V) k v,
    (length (sm_ins cmp mm k v) <= S (length mm))%nat.
  Proof.
    intros V. induction mm as [|[k1 v1] mm IH]; intros k v; cbn [sm_ins length]; [lia|].
    destruct (cmp k k1); cbn [length]; try lia. specialize (IH k v). lia.
  Qed.

  Lemma length_sm_del_le : forall {V} (mm : smap V) k,
    (length (sm_del cmp mm k) <= length mm)%nat.
  Proof.
    intros V. induction mm as [|[k1 v1] mm IH]; intros k; cbn [sm_del length]; [lia|].
    destruct (cmp k k1); cbn [length]; try lia. specialize (IH k). lia.
  Qed.

  Lemma sg_fits_sub : forall sg sg', sg_fits sg -> (forall e, In e sg' -> In e sg) ->
    (length sg' <= length sg)%nat -> sg_fits sg'.
  Proof.
    intros sg sg' [Ln Fa] Sub Le. split; [lia|]. apply Forall_forall. intros e Ie.
    rewrite Forall_forall in Fa. apply Fa, Sub, Ie.
  Qed.

  Lemma len_enc_put : forall k h sz, length h = 32%nat -> len (enc_op (RPut k h sz)) = len k + 45.
  Proof.
    intros k h sz Lh. unfold len. cbn [enc_op length].
    rewrite !app_length, enc_key_length, length_u64, Lh. lia.
  Qed.

  Lemma len_enc_remove1 : forall k, len (enc_op (RRemove [k])) = len k + 9.
  Proof.
    intros k. unfold len. cbn [enc_op length flat_map].
    rewrite !app_length, enc_key_length. unfold u32. rewrite length_le_enc. cbn [length]. lia.
  Qed.

  (* F2, put.  Fitting hypotheses: the key is accepted by the key type and short enough for a
     put record, the content length fits a u64, there is room for one more key and one more
     version *)
  Theorem put_disk : forall m s sg k chunks w,
    Inv m s sg -> wfs w = s -> wfault w = None ->
    NoCollide (concat chunks :: map snd sg) ->
    len k + 45 < 2 ^ 32 -> key_valid (c_kt cfg) k = true -> len (concat chunks) < 2 ^ 64 ->
    N.of_nat (length sg) + 1 < 2 ^ 32 -> nextv (mwal m) < 2 ^ 64 ->
    exists m' w', put H cfg m k chunks w = ((Ok tt, m'), w') /\ wfault w' = None /\
                  Inv m' (wfs w') (sm_ins cmp sg k (concat chunks)) /\
                  nextv (mwal m') = nextv (mwal m) + 1.
  Proof.
    intros m s sg k chunks w (L & D & Wf) Ws F NC Lk Vk Lc Ln Lv.
    destruct (put_spec H H_len H_byte cfg n_pos m s sg k chunks w L Ws F NC)
      as (m' & w' & E & F' & P).
    destruct (put_stage_meta m s sg k chunks w L Ws F Wf) as (w5 & E5 & F5 & W5 & G5).
    cbv zeta in E5. set (c := concat chunks) in *. set (sg' := sm_ins cmp sg k c) in *.
    pose proof L as [Ssg Hkm Hidx Hnc _ _ _ Hwal]. subst s.
    assert (M5 : forall r, not_cas r -> ~ is_staging r -> fdat (wfs w5) r = fdat (wfs w) r).
    { intros r A B. apply fdat_of_fget. now apply G5. }
    destruct (log_and_apply_disk0 m sg sg' (RPut k (H c) (len c)) w5)
      as (m2 & w2 & E2 & F2 & D2 & W2 & N2); try assumption.
    - destruct Hwal as [N1 Hw]. split; [exact N1|].
      destruct (writer (mwal m)) as [[sgm buf]|]; [|exact I].
      destruct Hw as (B & G & Hw). split; [exact B|]. split; [|exact Hw].
      rewrite G5; [exact G|exact I|intros X; exact X].
    - eapply DiskOk_ext; [| | |exact D]; intros; apply M5; try exact I; intros X; exact X.
    - intros k' i Ik Eh. rewrite Hkm in Ik. apply (In_km_of H) in Ik. destruct Ik as (c' & Ic & ->).
      cbn [StoreInv.item_of ihash isize] in *.
      assert (c' = c); [|now subst].
      apply NC; [right; apply in_map_iff; now exists (k', c')|now left|exact Eh].
    - apply (KX sorted_ins), Ssg.
    - unfold sg'. rewrite (km_of_ins H cfg). cbn [km_expected]. now rewrite Hkm.
    - eapply (NoCollide_incl H); [|exact NC]. intros x Ix. apply in_map_iff in Ix.
      destruct Ix as ([k' c'] & <- & Ik). apply (KX In_ins) in Ik. destruct Ik as [Ik|Ik].
      + inversion Ik. now left.
      + right. apply in_map_iff. now exists (k', c').
    - destruct D as (ids & rf & sf & km_c & ops & Dw). destruct (dw_sg _ _ _ _ _ _ _ _ _ _ _ Dw) as [Ln0 Fa0].
      split.
      + pose proof (length_sm_ins_le sg k c). fold sg' in H0. lia.
      + apply Forall_forall. intros e Ie. apply (KX In_ins) in Ie. destruct Ie as [->|Ie].
        * cbn [fst snd]. auto.
        * rewrite Forall_forall in Fa0. now apply Fa0.
    - split.
      + cbn [op_fits]. unfold key_fits, hash_ok. split; [lia|]. split; [apply H_len|exact Lc].
      + cbn [op_keys]. constructor; [exact Vk|constructor].
    - rewrite len_enc_put by apply H_len. exact Lk.
    - rewrite E5, E2 in E. inversion E; subst m2 w2.
      exists m', w'. split; [rewrite E5; exact E2|]. split; [exact F'|]. split; [|exact N2].
      split; [exact (proj1 (proj2 P))|]. split; assumption.
  Qed.

  (* ---- remove / remove_range ---- *)
  Lemma removal_disk : forall m s sg sg' ks w,
    Inv m s sg -> wfs w = s -> wfault w = None ->
    sorted cmp sg' -> (forall e, In e sg' -> In e sg) -> (length sg' <= length sg)%nat ->
    km_of sg' = fold_left (fun mm k => sm_del cmp mm k) ks (km_of sg) ->
    (forall k, In k ks -> In k (map fst sg)) -> N.of_nat (length ks) < 2 ^ 32 ->
    len (enc_op (RRemove ks)) < 2 ^ 32 -> nextv (mwal m) < 2 ^ 64 ->
    exists m' w', log_and_apply H cfg m (RRemove ks) w = ((Ok tt, m'), w') /\ wfault w' = None /\
                  DiskOk m' (wfs w') sg' /\ FsWf (wfs w') /\
                  nextv (mwal m') = nextv (mwal m) + 1.
  Proof.
    intros m s sg sg' ks w (L & D & Wf) Ws F Ssg' Sub Le Kd Kin Lks Lp Lv.
    pose proof L as [Ssg Hkm _ Hnc _ _ _ _].
    pose proof D as (ids & rf & sf & km_c & ops & Dw).
    pose proof (dw_sg _ _ _ _ _ _ _ _ _ _ _ Dw) as Sf.
    apply (log_and_apply_disk m s sg sg' (RRemove ks) w L D Wf Ws F); try assumption.
    - exact I.
    - cbn [km_expected]. now rewrite Hkm.
    - eapply (NoCollide_incl H); [|exact Hnc]. intros x Ix. apply in_map_iff in Ix.
      destruct Ix as (e & <- & Ie). apply in_map, Sub, Ie.
    - eapply sg_fits_sub; eassumption.
    - destruct Sf as [_ Fa]. rewrite Forall_forall in Fa. split.
      + cbn [op_fits]. split; [exact Lks|]. apply Forall_forall. intros k Ik.
        apply Kin, in_map_iff in Ik. destruct Ik as (e & <- & Ie). specialize (Fa e Ie).
        unfold key_fits. lia.
      + cbn [op_keys]. apply Forall_forall. intros k Ik.
        apply Kin, in_map_iff in Ik. destruct Ik as (e & <- & Ie). now apply Fa.
  Qed.

  (* F2, remove: needs room for one more version only *)
  Theorem remove_disk : forall m s sg k w,
    Inv m s sg -> wfs w = s -> wfault w = None -> nextv (mwal m) < 2 ^ 64 ->
    exists m' w',
      remove H cfg m k w
      = ((Ok (match sm_get cmp sg k with Some _ => true | None => false end), m'), w') /\
      wfault w' = None /\ Inv m' (wfs w') (sm_del cmp sg k) /\
      nextv (mwal m') <= nextv (mwal m) + 1.
  Proof.
    intros m s sg k w IV Ws F Lv. pose proof IV as (L & D & Wf).
    destruct (remove_spec H H_len H_byte cfg n_pos m s sg k w L Ws F) as (m' & w' & E & F' & P & Same).
    fold cmp in E, P, Same. exists m', w'. split; [exact E|]. split; [exact F'|].
    pose proof L as [Ssg Hkm _ _ _ _ _ _].
    destruct (sm_get cmp sg k) as [c0|] eqn:G.
    - destruct (removal_disk m s sg (sm_del cmp sg k) [k] w IV Ws F)
        as (m2 & w2 & E2 & F2 & D2 & W2 & N2); try assumption.
      + apply (KX sorted_del), Ssg.
      + intros e. apply (KX In_del).
      + apply length_sm_del_le.
      + cbn [fold_left]. apply (km_of_del H cfg).
      + intros k' [<-|[]]. apply in_map_iff. exists (k, c0). split; [reflexivity|].
        now apply (KX get_in _ _ _ Ssg).
      + cbn [length]. pow_consts. lia.
      + rewrite len_enc_remove1.
        pose proof D as (ids & rf & sf & km_c & ops & Dw).
        destruct (dw_sg _ _ _ _ _ _ _ _ _ _ _ Dw) as [_ Fa]. rewrite Forall_forall in Fa.
        assert (Ik : In (k, c0) sg) by now apply (KX get_in _ _ _ Ssg).
        specialize (Fa _ Ik). cbn [fst] in Fa. lia.
      + unfold remove in E. fold cmp in E. rewrite Hkm, (km_of_get H cfg) in E. fold cmp in E.
        rewrite G in E. cbn [option_map] in E. rewrite (bind_eq _ _ _ _ _ E2) in E.
        inversion E; subst m2 w2.
        split; [|lia]. split; [exact (proj1 (proj2 P))|]. split; assumption.
    - destruct (Same eq_refl) as [-> ->]. rewrite (KX del_absent _ _ G).
      split; [|lia]. rewrite Ws. exact IV.
  Qed.

  (* F2, remove_range: the record naming the removed keys must fit (payload < 2^32 bytes) *)
  Theorem remove_range_disk : forall m s sg lo hi w,
    Inv m s sg -> wfs w = s -> wfault w = None ->
    (nonempty (km (idx m)) && range_panics cmp lo hi) = false ->
    let inr := fun e : bytes * bytes => in_range cmp lo hi (fst e) in
    len (enc_op (RRemove (map fst (filter inr sg)))) < 2 ^ 32 -> nextv (mwal m) < 2 ^ 64 ->
    exists m' w',
      remove_range H cfg m lo hi w = ((Ok (N.of_nat (length (filter inr sg))), m'), w') /\
      wfault w' = None /\ Inv m' (wfs w') (filter (fun e => negb (inr e)) sg) /\
      nextv (mwal m') <= nextv (mwal m) + 1.
  Proof.
    intros m s sg lo hi w IV Ws F NP inr Lp Lv. pose proof IV as (L & D & Wf).
    destruct (remove_range_spec H H_len H_byte cfg n_pos m s sg lo hi w L Ws F NP)
      as (m' & w' & E & F' & P).
    fold inr in E, P. exists m', w'. split; [exact E|]. split; [exact F'|].
    pose proof L as [Ssg Hkm _ _ _ _ _ _].
    unfold remove_range in E. fold cmp in E. rewrite NP in E. unfold keys_in_range in E.
    fold cmp in E. rewrite Hkm in E.
    rewrite <- (km_of_filter H (in_range cmp lo hi)), km_of_keys in E. fold inr in E.
    destruct (map fst (filter inr sg)) as [|k0 ks0] eqn:Eks.
    - inversion E; subst m' w'. apply map_eq_nil in Eks.
      rewrite (filter_none_all inr sg Eks). split; [|lia]. rewrite Ws. exact IV.
    - rewrite <- Eks in *.
      destruct (removal_disk m s sg (filter (fun e => negb (inr e)) sg) (map fst (filter inr sg)) w
                  IV Ws F) as (m2 & w2 & E2 & F2 & D2 & W2 & N2); try assumption.
      + apply (KX sorted_filter), Ssg.
      + intros e Ie. apply filter_In in Ie. tauto.
      + apply filter_length_le.
      + rewrite (km_of_filter H (fun k => negb (in_range cmp lo hi k))).
        rewrite <- (km_of_keys H (filter inr sg)).
        unfold inr. rewrite (km_of_filter H (in_range cmp lo hi)).
        symmetry. apply (fold_del_filter cfg (in_range cmp lo hi)). apply (sorted_km_of H cfg), Ssg.
      + intros k Ik. apply in_map_iff in Ik. destruct Ik as (e & <- & Ie).
        apply filter_In in Ie. apply in_map. tauto.
      + rewrite map_length. pose proof (filter_length_le inr sg).
        pose proof D as (ids & rf & sf & km_c & ops & Dw).
        destruct (dw_sg _ _ _ _ _ _ _ _ _ _ _ Dw) as [Ln _]. lia.
      + rewrite (bind_eq _ _ _ _ _ E2) in E. inversion E; subst m2 w2.
        split; [|lia]. split; [exact (proj1 (proj2 P))|]. split; assumption.
  Qed.

  (* F2, checkpoint *)
  Theorem checkpoint_disk : forall m s sg w,
    Inv m s sg -> wfs w = s -> wfault w = None ->
    exists m' w', checkpoint cfg m w = ((Ok tt, m'), w') /\ wfault w' = None /\
                  Inv m' (wfs w') sg /\ nextv (mwal m') = nextv (mwal m).
  Proof.
    intros m s sg w (L & D & Wf) Ws F.
    destruct (checkpoint_spec H H_len H_byte cfg n_pos m s sg w L Ws F) as (m' & w' & E & F' & P).
    exists m', w'. split; [exact E|]. split; [exact F'|]. subst s.
    pose proof L as [Ssg Hkm _ Hnc _ _ _ _].
    destruct (ck_disk RExplicit m _ sg w F Wf D Hkm Ssg Hnc)
      as (m2 & w2 & E2 & X2 & D2 & _ & _ & _ & _ & Wl2 & P2 & _).
    unfold checkpoint in E. rewrite E2 in E. inversion E; subst m2 w2.
    split; [|now rewrite Wl2]. split; [exact (proj1 (proj2 P))|]. split.
    - unfold DiskOk. rewrite Wl2, P2. exact D2.
    - exact (proj1 (proj2 X2)).
  Qed.

  (* F2, abort: no meta file is touched *)
  Theorem abort_disk : forall m s sg k chunks w,
    Inv m s sg -> wfs w = s -> wfault w = None ->
    exists w', abort m k chunks w = ((Ok tt, m), w') /\ wfault w' = None /\ Inv m (wfs w') sg.
  Proof.
    intros m s sg k chunks w (L & D & Wf) Ws F.
    destruct (abort_post H H_len H_byte cfg n_pos m s sg k chunks w L Ws F) as (w' & E & F' & P).
    destruct (abort_spec H H_len H_byte cfg n_pos m s sg k chunks w L Ws F)
      as (w2 & E2 & _ & Fi & _).
    rewrite E in E2. inversion E2; subst w2.
    exists w'. split; [exact E|]. split; [exact F'|].
    split; [exact (proj1 (proj2 P))|]. split.
    - eapply DiskOk_ext; [| | |exact D]; intros; unfold fdat, fget; now rewrite Fi.
    - unfold FsWf. now rewrite Fi.
  Qed.
End DiskInv.

Print Assumptions put_disk.
Print Assumptions remove_disk.
Print Assumptions remove_range_disk.
Print Assumptions checkpoint_disk.
Print Assumptions abort_disk.
