(* PowerLossToy.v -- closed, computed instances for C09 (toy hash and configuration of
   StoreHist.v: 2 operations per WAL segment, Sync mode).

   L5  Sync mode: the third put of the toy history rolls the log over; its 17 effective calls are
         create staging, write, SYNC, mkdir, mkdir, rename into cas/, seal segment 0, sync,
         open segment 1, append the record, SYNC, unlink the unreferenced blob,
         create index.tmp, write, sync, rename to index, unlink segment 0.
       Cutting the power after n of them, for every n and the victim sets {all files},
       {segment files}, {blobs}, {} and reopening yields the old map or the new map, with intact
       blobs; with the segment files among the victims the new map appears from n = 11 on (after
       the sync of the record), otherwise from n = 10 on.
   L4  Async mode (c_sync = false): the staged blob is not synced before the rename.  After the
       ACKNOWLEDGED first put, a power loss that hits the blob file leaves the key with an empty
       blob: recovery succeeds, get returns wrong bytes; with the integrity gate the open is
       refused.  So the hypothesis c_sync cfg = true of the theorems is needed. *)
From Cas Require Import History.
From CasProofs Require Import BaseProofs StoreHist RestartHist CrashInv CrashOps CrashOpen
  CrashHist PowerLoss PowerLossOps PowerLossOpen PowerLossHist.
Open Scope N_scope.

Definition all_files : path -> bool := fun _ => true.
Definition wal_only : path -> bool := fun p => match p with PWal _ => true | _ => false end.
Definition cas_only : path -> bool := fun p => match p with PCas _ => true | _ => false end.
Definition no_files : path -> bool := fun _ => false.

Definition toy_hl (n : nat) (v : path -> bool) : list evl :=
  [LOp (OpPut toy_k1 [toy_c1]); LOp (OpPut toy_k2 [toy_c1; toy_c2]);
   LLoss (OpPut toy_k1 [toy_c2]) n v].

(* the recovered key map (key, size) and what get returns for the two keys *)
Definition toy_final_gen (post : fs -> fs) (n : nat) (v : path -> bool)
  : option (list (bytes * N) * res serr (option bytes) * res serr (option bytes)) :=
  match reopen toyH toy_cfg empty_fs with
  | None => None
  | Some st0 =>
    match run_extl toyH toy_cfg post st0 (toy_hl n v) with
    | None => None
    | Some (hd, w) =>
      Some (map (fun e => (fst e, isize (snd e))) (km (idx (h_mem hd))),
            get toy_cfg (h_mem hd) (wfs w) toy_k1, get toy_cfg (h_mem hd) (wfs w) toy_k2)
    end
  end.

Definition toy_finall := toy_final_gen (fun y => y).

Definition toy_old := Some ([(toy_k1, 3); (toy_k2, 5)], Ok (Some toy_c1) : res serr (option bytes),
                            Ok (Some (toy_c1 ++ toy_c2)) : res serr (option bytes)).
Definition toy_new := Some ([(toy_k1, 2); (toy_k2, 5)], Ok (Some toy_c2) : res serr (option bytes),
                            Ok (Some (toy_c1 ++ toy_c2)) : res serr (option bytes)).

Example toy_powerloss_all_files :
  map (fun n => toy_finall n all_files) (seq 0 19) = repeat toy_old 11 ++ repeat toy_new 8.
Proof. vm_compute. reflexivity. Qed.

Example toy_powerloss_wal_files :
  map (fun n => toy_finall n wal_only) (seq 0 19) = repeat toy_old 11 ++ repeat toy_new 8.
Proof. vm_compute. reflexivity. Qed.

Example toy_powerloss_blobs :
  map (fun n => toy_finall n cas_only) (seq 0 19) = repeat toy_old 10 ++ repeat toy_new 9.
Proof. vm_compute. reflexivity. Qed.

Example toy_powerloss_no_file :
  map (fun n => toy_finall n no_files) (seq 0 19) = repeat toy_old 10 ++ repeat toy_new 9.
Proof. vm_compute. reflexivity. Qed.

(* two power losses in a row, survivors durable ([settle]): the third put is cut after 10 calls
   (record appended, not synced) and nothing is lost; the recovery replays the record; the power
   is cut again after k calls of the next operation (a checkpoint) with all files as victims *)
Definition toy_h2 (k : nat) : list evl :=
  [LOp (OpPut toy_k1 [toy_c1]); LOp (OpPut toy_k2 [toy_c1; toy_c2]);
   LLoss (OpPut toy_k1 [toy_c2]) 10 no_files; LLoss OpCheckpoint k all_files].

Definition toy_final2 (k : nat) : option (list (bytes * N)) :=
  match reopen toyH toy_cfg empty_fs with
  | None => None
  | Some st0 =>
    match run_extl toyH toy_cfg settle st0 (toy_h2 k) with
    | None => None
    | Some (hd, w) => Some (map (fun e => (fst e, isize (snd e))) (km (idx (h_mem hd))))
    end
  end.

Example toy_two_power_losses_settled :
  map toy_final2 (seq 0 8) = repeat (Some [(toy_k1, 2); (toy_k2, 5)]) 8.
Proof. vm_compute. reflexivity. Qed.

(* the hypotheses of the history theorem are satisfiable, for every cut point and victim set *)
Lemma toy_nocollide_hl : forall n v, StoreInv.NoCollide toyH (flat_map evl_contents (toy_hl n v)).
Proof.
  intros n v a b Ia Ib E. cbn in Ia, Ib.
  destruct Ia as [<-|[<-|[<-|[]]]]; destruct Ib as [<-|[<-|[<-|[]]]]; try reflexivity;
    vm_compute in E; discriminate.
Qed.

Example toy_powerloss_theorem_instance : forall n v,
  exists hd0 w0 hd w' sg,
    reopen toyH toy_cfg empty_fs = Some (hd0, w0) /\
    run_extl toyH toy_cfg (fun y => y) (hd0, w0) (toy_hl n v) = Some (hd, w') /\
    allowedl toy_cfg [] (toy_hl n v) sg /\ km (idx (h_mem hd)) = StoreInv.km_of toyH sg.
Proof.
  intros n v.
  destruct (C09_powerloss_partial toyH toyH_len toyH_byte toy_cfg eq_refl eq_refl (toy_hl n v))
    as (hd0 & w0 & E0 & hd & w' & E & _ & _ & sg & Al & (L & _)).
  - reflexivity.
  - cbn. repeat split; auto.
  - apply toy_nocollide_hl.
  - vm_compute. repeat split.
  - reflexivity.
  - exists hd0, w0, hd, w', sg. split; [exact E0|]. split; [exact E|]. split; [exact Al|].
    exact (StoreInv.lv_km _ _ _ _ _ L).
Qed.

(* ------------------------------------------------------------------ *)
(* L4. Async mode: the counter-example                                 *)
(* ------------------------------------------------------------------ *)
Definition toy_cfg_async : config := mkConfig KBytes 2 false false false false false.
(* the same with scan_orphans_on_startup, verify_blob_integrity, fail_on_integrity_errors *)
Definition toy_cfg_async_gate : config := mkConfig KBytes 2 false false true true true.

(* put k1 c1 on a fresh store, cut the power after n effective calls, the blobs lose their
   unsynced bytes; reopen; result of the put, number of calls of the put, get k1 *)
Definition first_put_case (cfg : config) (n : nat)
  : option (out * nat * res serr (option bytes)) :=
  match reopen toyH cfg empty_fs with
  | None => None
  | Some (hd, w) =>
    let r := step toyH (Some hd) (OpPut toy_k1 [toy_c1]) w in
    let w' := snd r in
    let x := lose cas_only (crash_fs n (rev (new_trace w w')) (wfs w)) in
    match reopen toyH cfg x with
    | None => None
    | Some (hd2, w2) => Some (fst (fst r), length (new_trace w w'), get cfg (h_mem hd2) (wfs w2) toy_k1)
    end
  end.

(* Async: the put consists of 8 calls (no sync of the staged blob) and is acknowledged
   (OutUnit); after all 8 calls -- the record is synced -- a power loss that hits the blob
   leaves the key with an EMPTY blob: recovery succeeds, get returns wrong bytes *)
Example async_acknowledged_put_loses_its_blob :
  first_put_case toy_cfg_async 8 = Some (OutUnit, 8%nat, Ok (Some [])).
Proof. vm_compute. reflexivity. Qed.

(* ... and with the integrity gate the store refuses to open *)
Example async_integrity_gate_fails :
  match reopen toyH toy_cfg_async_gate empty_fs with
  | None => None
  | Some (hd, w) =>
    let w' := snd (step toyH (Some hd) (OpPut toy_k1 [toy_c1]) w) in
    let x := lose cas_only (wfs w') in
    Some (fst (open_store toyH toy_cfg_async_gate (init_world x None)))
  end = Some (Err EIntegrity).
Proof. vm_compute. reflexivity. Qed.

(* Sync mode, same experiment: 9 calls (the staged blob is synced), and at every cut point the
   key is absent or has its full content *)
Example sync_put_keeps_its_blob :
  map (first_put_case toy_cfg) (seq 0 11)
  = repeat (Some (OutUnit, 9%nat, Ok None)) 8 ++ repeat (Some (OutUnit, 9%nat, Ok (Some toy_c1))) 3.
Proof. vm_compute. reflexivity. Qed.

Print Assumptions toy_powerloss_all_files.
Print Assumptions toy_powerloss_theorem_instance.
Print Assumptions async_acknowledged_put_loses_its_blob.
Print Assumptions async_integrity_gate_fails.
