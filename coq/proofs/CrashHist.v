(* CrashHist.v -- C03 at the level of histories (G4): extended histories with crashes.

   ev := EvOp o            an API call that completes (is acknowledged)
       | EvRestart         close, then open
       | EvCrash o n       the process is killed during the API call o, after n of its effective
                           filesystem calls (n >= the number of calls of o: killed right after o,
                           before the acknowledgement is used); then the store is opened again
       | EvCrashOpen n     the process is killed at rest, the recovery is killed after n calls,
                           and the store is opened again (several of these in a row: nested
                           crashes during recovery)

   C03_crash_atomic: from an empty directory, for every such history of API operations (fitting
   as in hist_fits, no hash collision among the contents), every open succeeds and the final
   handle satisfies the (weak) handle invariant Inv' for some map in [allowed h]: acknowledged
   operations applied in order, each crashed operation applied entirely or not at all, nothing
   else. *)
From Cas Require Import History.
From CasProofs Require Import BaseProofs CodecBase CodecProofs SMapProofs IndexProofs
  StoreFS StoreInv StoreWrite StoreRead StoreHist DiskInv Recover RestartHist
  CrashInv CrashOps CrashOpen.
From Coq Require Import ZifyBool ZifyNat ZifyN.
Open Scope N_scope.

Arguments N.add : simpl never.
Arguments N.sub : simpl never.
Arguments N.mul : simpl never.
Arguments N.div : simpl never.
Arguments N.modulo : simpl never.
Arguments N.eqb : simpl never.
Arguments N.ltb : simpl never.
Arguments N.leb : simpl never.
Arguments N.pow : simpl never.
Arguments N.max : simpl never.

Inductive ev :=
| EvOp (o : op)
| EvRestart
| EvCrash (o : op) (n : nat)
| EvCrashOpen (n : nat).

(* the events recorded between w and a later world w' (most recent first) *)
Definition new_trace (w w' : world) : list tev :=
  firstn (length (wtrace w') - length (wtrace w)) (wtrace w').

Lemma new_trace_app : forall w w' tr, wtrace w' = tr ++ wtrace w -> new_trace w w' = tr.
Proof.
  intros w w' tr E. unfold new_trace. rewrite E, app_length.
  replace (length tr + length (wtrace w) - length (wtrace w))%nat with (length tr) by lia.
  rewrite firstn_app, Nat.sub_diag, firstn_all. cbn [firstn]. apply app_nil_r.
Qed.

Lemma along_crash_at : forall (P : fs -> Prop) w w' n, Along P w w' ->
  P (crash_fs n (rev (new_trace w w')) (wfs w)).
Proof.
  intros P w w' n (_ & tr & E & A). rewrite (new_trace_app _ _ _ E). unfold crash_fs.
  destruct (Nat.le_gt_cases n (length tr)) as [L|L]; [now apply A|].
  rewrite firstn_all2 by (rewrite rev_length; lia).
  rewrite <- (firstn_all (rev tr)), rev_length. apply A. lia.
Qed.

Definition ev_contents (e : ev) : list bytes :=
  match e with EvOp o | EvCrash o _ => op_contents o | _ => [] end.

Section CrashHist.
  Variable H : bytes -> bytes.
  Hypothesis H_len : forall b, length (H b) = 32%nat.
  Hypothesis H_byte : forall b, Forall (fun x => x < 256) (H b).
  Variable cfg : config.
  Hypothesis n_pos : 0 < c_n cfg.
  Let cmp := key_cmp (c_kt cfg).

  Local Notation KX L :=
    (L cmp (key_cmp_refl _) (key_cmp_eq _) (key_cmp_antisym _) (key_cmp_trans _)) (only parsing).
  Local Notation DX L := (L H H_len H_byte cfg n_pos) (only parsing).
  Local Notation km_of := (km_of H).
  Local Notation NoCollide := (NoCollide H).
  Local Notation Live0 := (Live0 H cfg).
  Local Notation Inv' := (Inv' H cfg).
  Local Notation Rest := (Rest H cfg).
  Local Notation RestB := (RestB H cfg).
  Local Notation RestDB := (RestDB H cfg).
  Local Notation spec_out := (spec_out H cfg).
  Local Notation api_op := (api_op cfg).
  Local Notation op_fits_at := (op_fits_at cfg).

  (* ---------------------------------------------------------------- *)
  (* running an extended history                                       *)
  (* ---------------------------------------------------------------- *)
  Definition opened (r : res serr (mem * option ostats) * world) : option (handle * world) :=
    match r with
    | (Ok (m, os), w') => Some (mkHandle cfg m os, w')
    | (Err _, _) => None
    end.

  (* memory is lost: a new process opens the store on the filesystem x *)
  Definition reopen (x : fs) : option (handle * world) :=
    opened (open_with_recover H cfg (init_world x None)).

  Definition run_ev (st : handle * world) (e : ev) : option (handle * world) :=
    let '(hd, w) := st in
    match e with
    | EvOp o =>
      let '((_, ohd), w') := step H (Some hd) o w in
      match ohd with Some hd' => Some (hd', w') | None => None end
    | EvRestart =>
      let '(_, w1) := close (h_mem hd) w in opened (open_with_recover H cfg w1)
    | EvCrash o n =>
      let w' := snd (step H (Some hd) o w) in
      reopen (crash_fs n (rev (new_trace w w')) (wfs w))
    | EvCrashOpen n => reopen (crash_open H cfg n (wfs w))
    end.

  Fixpoint run_ext (st : handle * world) (h : list ev) : option (handle * world) :=
    match h with
    | [] => Some st
    | e :: r => match run_ev st e with Some st' => run_ext st' r | None => None end
    end.

  (* the maps a history may end in *)
  Fixpoint allowed (sg : smap bytes) (h : list ev) (sgf : smap bytes) : Prop :=
    match h with
    | [] => sgf = sg
    | EvOp o :: r => allowed (spec_step cmp sg o) r sgf
    | EvRestart :: r | EvCrashOpen _ :: r => allowed sg r sgf
    | EvCrash o _ :: r => allowed sg r sgf \/ allowed (spec_step cmp sg o) r sgf
    end.

  (* fitting hypotheses (as hist_fits), along every allowed branch *)
  Fixpoint ext_fits (sg : smap bytes) (h : list ev) : Prop :=
    match h with
    | [] => True
    | EvOp o :: r => api_op o /\ op_fits_at sg o /\ ext_fits (spec_step cmp sg o) r
    | EvRestart :: r | EvCrashOpen _ :: r => ext_fits sg r
    | EvCrash o _ :: r =>
      api_op o /\ op_fits_at sg o /\ ext_fits sg r /\ ext_fits (spec_step cmp sg o) r
    end.

  (* ---------------------------------------------------------------- *)
  (* one API call, with its walk                                       *)
  (* ---------------------------------------------------------------- *)
  Lemma step_walk : forall m s sg os o w,
    Inv' m s sg -> wfs w = s -> wfault w = None -> api_op o ->
    NoCollide (op_contents o ++ map snd sg) -> op_fits_at sg o ->
    N.of_nat (length sg) + 1 < 2 ^ 32 -> nextv (mwal m) < 2 ^ 64 ->
    exists m' w',
      step H (Some (mkHandle cfg m os)) o w = ((spec_out sg o, Some (mkHandle cfg m' os)), w') /\
      wfault w' = None /\ Inv' m' (wfs w') (spec_step cmp sg o) /\
      nextv (mwal m') <= nextv (mwal m) + 1 /\
      Walk (RestDB (nextv (mwal m) + 1) sg (spec_step cmp sg o)) w w'.
  Proof.
    intros m s sg os o w IV Ws F A NC Fit Ln Lv. pose proof IV as (L & D & Wf).
    assert (RB : RestB (nextv (mwal m) + 1) s sg) by (eapply (DX inv'_restb); [exact IV|lia]).
    assert (RD : is_read o ->
              exists m' w',
                step H (Some (mkHandle cfg m os)) o w
                = ((spec_out sg o, Some (mkHandle cfg m' os)), w') /\
                wfault w' = None /\ Inv' m' (wfs w') sg /\ nextv (mwal m') <= nextv (mwal m) + 1 /\
                Walk (RestDB (nextv (mwal m) + 1) sg sg) w w').
    { intros R.
      destruct (step_ok H H_len H_byte cfg n_pos m s sg os o w L Ws F A NC) as (m' & w' & E & F' & _).
      destruct (read_step _ _ _ _ _ _ _ _ _ E R) as [-> ->].
      exists m, w. split; [exact E|]. split; [exact F|]. split; [now rewrite Ws|]. split; [lia|].
      apply walk_refl; [exact F|]. left. now rewrite Ws. }
    destruct o; cbn [StoreHist.api_op] in A; try contradiction;
      try (apply RD; exact I);
      cbn [step h_cfg h_mem h_ostats StoreHist.spec_out spec_step StoreHist.op_contents
           RestartHist.op_fits_at] in *.
    - (* put *)
      destruct Fit as (Lk & Vk & Lc).
      destruct (DX put_crash' m s sg k chunks w IV Ws F NC Lk Vk Lc Ln Lv)
        as (m' & w' & E & F' & IV' & Nv & K).
      exists m', w'. rewrite (bind_eq _ _ _ _ _ E). split; [reflexivity|].
      split; [exact F'|]. split; [exact IV'|]. split; [lia|exact K].
    - (* abort *)
      destruct (DX abort_crash' m s sg k chunks w IV Ws F) as (w' & E & F' & IV' & K).
      exists m, w'. rewrite (bind_eq _ _ _ _ _ E). split; [reflexivity|].
      split; [exact F'|]. split; [exact IV'|]. split; [lia|].
      eapply walk_weaken; [|exact K]. intros x Rx. left.
      eapply (restb_mono H cfg n_pos); [|exact Rx]. lia.
    - (* remove *)
      destruct (DX remove_crash' m s sg k w IV Ws F Lv) as (m' & w' & E & F' & IV' & Nv & K).
      exists m', w'. rewrite (bind_eq _ _ _ _ _ E). split; [reflexivity|].
      split; [exact F'|]. split; [exact IV'|]. split; [exact Nv|exact K].
    - (* remove_range *)
      fold cmp in A.
      assert (NP : (nonempty (km (idx m)) && range_panics cmp lo hi) = false)
        by (rewrite A; apply andb_false_r).
      destruct (DX remove_range_crash' m s sg lo hi w IV Ws F NP Fit Lv)
        as (m' & w' & E & F' & IV' & Nv & K).
      exists m', w'. rewrite (bind_eq _ _ _ _ _ E). rewrite A, andb_false_r.
      split; [reflexivity|]. split; [exact F'|]. split; [exact IV'|]. split; [exact Nv|exact K].
    - (* checkpoint *)
      destruct (DX checkpoint_crash' m s sg w IV Ws F) as (m' & w' & E & F' & IV' & Nv & K).
      exists m', w'. rewrite (bind_eq _ _ _ _ _ E). split; [reflexivity|].
      split; [exact F'|]. split; [exact IV'|]. split; [lia|].
      eapply walk_weaken; [|exact K]. intros x Rx. left.
      eapply (restb_mono H cfg n_pos); [|exact Rx]. lia.
  Qed.

  (* ---------------------------------------------------------------- *)
  (* whole histories                                                   *)
  (* ---------------------------------------------------------------- *)
  Lemma inv'_nextv_pos : forall m s sg, Inv' m s sg -> 1 <= nextv (mwal m).
  Proof. intros m s sg (L & _). exact (proj1 (lv_wal _ _ _ _ _ L)). Qed.

  Lemma run_ext_ok : forall h m os w sg,
    Inv' m (wfs w) sg -> wfault w = None ->
    NoCollide (flat_map ev_contents h ++ map snd sg) -> ext_fits sg h ->
    N.of_nat (length sg) + N.of_nat (length h) < 2 ^ 32 ->
    nextv (mwal m) + N.of_nat (length h) <= 2 ^ 32 ->
    exists hd w', run_ext (mkHandle cfg m os, w) h = Some (hd, w') /\ h_cfg hd = cfg /\
      wfault w' = None /\ exists sgf, allowed sg h sgf /\ Inv' (h_mem hd) (wfs w') sgf.
  Proof.
    induction h as [|e r IH]; intros m os w sg IV F NC Fit Ln Lv.
    - exists (mkHandle cfg m os), w. split; [reflexivity|]. split; [reflexivity|].
      split; [exact F|]. exists sg. split; [reflexivity|exact IV].
    - cbn [length] in Ln, Lv. cbn [flat_map] in NC.
      pose proof (inv'_nextv_pos _ _ _ IV) as Nv1.
      (* the remaining history, from a handle for sgX obtained with at most one more version *)
      assert (Next : forall m2 os2 w2 sgX,
                Inv' m2 (wfs w2) sgX -> wfault w2 = None ->
                nextv (mwal m2) <= nextv (mwal m) + 1 ->
                (length sgX <= S (length sg))%nat ->
                (forall x, In x (map snd sgX) -> In x (ev_contents e) \/ In x (map snd sg)) ->
                ext_fits sgX r ->
                exists hd w', run_ext (mkHandle cfg m2 os2, w2) r = Some (hd, w') /\ h_cfg hd = cfg /\
                  wfault w' = None /\ exists sgf, allowed sgX r sgf /\ Inv' (h_mem hd) (wfs w') sgf).
      { intros m2 os2 w2 sgX IV2 F2 Nv2 Lx Cx Fx. apply IH; try assumption; try lia.
        eapply (NoCollide_incl H); [|exact NC]. intros x Ix. rewrite <- app_assoc.
        apply in_app_or in Ix. apply in_or_app. destruct Ix as [Ix|Ix].
        - right. apply in_or_app. now left.
        - destruct (Cx x Ix) as [Iy|Iy]; [now left|right; apply in_or_app; now right]. }
      assert (Same : forall x, In x (map snd sg) -> In x (ev_contents e) \/ In x (map snd sg))
        by (intros x Ix; now right).
      destruct e as [o| |o n|n]; cbn [ext_fits] in Fit; cbn [run_ext run_ev allowed].
      + (* an acknowledged operation *)
        destruct Fit as (Ao & Fo & Fr).
        destruct (step_walk m (wfs w) sg os o w IV eq_refl F Ao) as (m1 & w1 & E1 & F1 & IV1 & Nv & _);
          try assumption; try (pow_consts; lia).
        { eapply (NoCollide_incl H); [|exact NC]. intros x Ix. cbn [ev_contents].
          rewrite <- app_assoc. apply in_app_or in Ix. apply in_or_app.
          destruct Ix; [now left|right; apply in_or_app; now right]. }
        rewrite E1. apply (Next m1 os w1 (spec_step cmp sg o)); try assumption.
        * apply (DX length_spec_step).
        * intros x Ix. apply (spec_step_contents cfg) in Ix. exact Ix.
      + (* restart *)
        destruct (DX close_crash' m (wfs w) sg w IV eq_refl F) as (w1 & Ec & F1 & RB1 & _).
        destruct (DX rest_open_b (nextv (mwal m)) (wfs w1) sg w1 RB1 Nv1 F1 eq_refl)
          as (m2 & os2 & w2 & Eo & F2 & IV2 & _ & Nv2 & _).
        cbn [h_mem]. rewrite Ec, Eo. cbn [opened].
        apply (Next m2 os2 w2 sg); try assumption; try lia.
      + (* crash during an operation *)
        destruct Fit as (Ao & Fo & Fr1 & Fr2).
        destruct (step_walk m (wfs w) sg os o w IV eq_refl F Ao) as (m1 & w1 & E1 & F1 & IV1 & Nv & K);
          try assumption; try (pow_consts; lia).
        { eapply (NoCollide_incl H); [|exact NC]. intros x Ix. cbn [ev_contents].
          rewrite <- app_assoc. apply in_app_or in Ix. apply in_or_app.
          destruct Ix; [now left|right; apply in_or_app; now right]. }
        rewrite E1. cbn [snd].
        set (x := crash_fs n (rev (new_trace w w1)) (wfs w)).
        pose proof (along_crash_at _ w w1 n (walk_along _ _ _ K)) as RX. fold x in RX.
        unfold reopen. destruct RX as [RX|RX].
        * destruct (DX rest_open_b (nextv (mwal m) + 1) x sg (init_world x None) RX)
            as (m2 & os2 & w2 & Eo & F2 & IV2 & _ & Nv2 & _); try reflexivity; try lia.
          rewrite Eo. cbn [opened].
          destruct (Next m2 os2 w2 sg) as (hd & w' & Er & Hc & F' & sgf & Al & IVf);
            try assumption; try lia.
          exists hd, w'. split; [exact Er|]. split; [exact Hc|]. split; [exact F'|].
          exists sgf. split; [now left|exact IVf].
        * destruct (DX rest_open_b (nextv (mwal m) + 1) x (spec_step cmp sg o) (init_world x None) RX)
            as (m2 & os2 & w2 & Eo & F2 & IV2 & _ & Nv2 & _); try reflexivity; try lia.
          rewrite Eo. cbn [opened].
          destruct (Next m2 os2 w2 (spec_step cmp sg o)) as (hd & w' & Er & Hc & F' & sgf & Al & IVf);
            try assumption; try lia.
          { apply (DX length_spec_step). }
          { intros y Iy. apply (spec_step_contents cfg) in Iy. exact Iy. }
          exists hd, w'. split; [exact Er|]. split; [exact Hc|]. split; [exact F'|].
          exists sgf. split; [now right|exact IVf].
      + (* crash at rest, crash during the recovery *)
        assert (RB : RestB (nextv (mwal m)) (wfs w) sg) by (eapply (DX inv'_restb); [exact IV|lia]).
        pose proof (DX crash_open_restb _ n _ _ RB Nv1) as RX.
        unfold reopen.
        destruct (DX rest_open_b (nextv (mwal m)) _ sg (init_world (crash_open H cfg n (wfs w)) None) RX)
          as (m2 & os2 & w2 & Eo & F2 & IV2 & _ & Nv2 & _); try reflexivity; try lia.
        rewrite Eo. cbn [opened].
        apply (Next m2 os2 w2 sg); try assumption; try lia.
  Qed.


  (* C03 for one operation, spelled out: kill the process after any number n of the effective
     calls of an API operation issued on a handle satisfying the invariant; the next open
     succeeds and yields a handle for the map before the operation or for the map after it *)
  Theorem crash_any_instant : forall m s sg os o w n,
    Inv' m s sg -> wfs w = s -> wfault w = None -> api_op o ->
    NoCollide (op_contents o ++ map snd sg) -> op_fits_at sg o ->
    N.of_nat (length sg) + 1 < 2 ^ 32 -> nextv (mwal m) < 2 ^ 64 ->
    let w' := snd (step H (Some (mkHandle cfg m os)) o w) in
    let x := crash_fs n (rev (new_trace w w')) (wfs w) in
    exists m2 os2 w2, open_with_recover H cfg (init_world x None) = (Ok (m2, os2), w2) /\
      (Inv' m2 (wfs w2) sg \/ Inv' m2 (wfs w2) (spec_step cmp sg o)).
  Proof.
    intros m s sg os o w n IV Ws F A NC Fit Ln Lv. cbv zeta.
    destruct (step_walk m s sg os o w IV Ws F A NC Fit Ln Lv) as (m1 & w1 & E1 & _ & _ & _ & K).
    rewrite E1. cbn [snd]. set (x := crash_fs n (rev (new_trace w w1)) (wfs w)).
    pose proof (along_crash_at _ w w1 n (walk_along _ _ _ K)) as RX. fold x in RX.
    pose proof (inv'_nextv_pos _ _ _ IV) as Nv1.
    destruct RX as [RX|RX].
    - destruct (DX rest_open_b (nextv (mwal m) + 1) x sg (init_world x None) RX)
        as (m2 & os2 & w2 & Eo & _ & IV2 & _); try reflexivity; try lia.
      exists m2, os2, w2. split; [exact Eo|now left].
    - destruct (DX rest_open_b (nextv (mwal m) + 1) x (spec_step cmp sg o) (init_world x None) RX)
        as (m2 & os2 & w2 & Eo & _ & IV2 & _); try reflexivity; try lia.
      exists m2, os2, w2. split; [exact Eo|now right].
  Qed.

  (* C03.  From an empty directory (either choice of pre_create_cas_dirs: the empty directory
     is a state of the first-time clause RestF of the invariant, and CrashOpen.a_open covers
     the first open for both), for every extended history whose operations are API calls fitting
     the formats (ext_fits: as hist_fits, along every branch), without hash collisions among the
     written contents, of fewer than 2^32-1 events: every open of the history -- after a
     restart, after a crash during an operation at ANY call boundary, after crashes during the
     recovery itself -- succeeds, and the final handle satisfies the handle invariant for a map
     in [allowed [] h]: acknowledged operations applied in order, each crashed operation
     applied entirely or not at all.  (Inv' is the invariant every further operation needs;
     it gives Live0, hence exact reads, counts and statistics for that map.) *)
  Theorem C03_crash_atomic : forall h,
    c_n cfg < 2 ^ 64 ->
    NoCollide (flat_map ev_contents h) -> ext_fits [] h -> N.of_nat (length h) < 2 ^ 32 - 1 ->
    exists hd0 w0, reopen empty_fs = Some (hd0, w0) /\
    exists hd w', run_ext (hd0, w0) h = Some (hd, w') /\ h_cfg hd = cfg /\ wfault w' = None /\
      exists sg, allowed [] h sg /\ Inv' (h_mem hd) (wfs w') sg.
  Proof.
    intros h Nfit NC Fit Ln.
    assert (R0 : RestB 1 empty_fs []).
    { split; [constructor|]. split; [intros a b []|]. right.
      split; [reflexivity|]. split; [exact Nfit|]. split; [exact empty_fs_wf|].
      repeat split; intros; reflexivity. }
    destruct (DX rest_open_b 1 empty_fs [] (init_world empty_fs None) R0 (N.le_refl _) eq_refl eq_refl)
      as (m & os & w1 & E1 & F1 & IV1 & _ & Nv1 & _).
    exists (mkHandle cfg m os), w1. split; [unfold reopen; rewrite E1; reflexivity|].
    apply run_ext_ok; try assumption.
    - now rewrite app_nil_r.
    - cbn [length]. pow_consts. lia.
    - pow_consts. lia.
  Qed.

  (* what Inv' gives the user of the final handle: reads answer as the ordered map sgf *)
  Corollary C03_final_reads : forall m s sg k, Inv' m s sg ->
    get cfg m s k = Ok (sm_get cmp sg k) /\ km (idx m) = km_of sg.
  Proof.
    intros m s sg k (L & _). split; [|exact (lv_km _ _ _ _ _ L)].
    apply (get_spec H cfg). exact L.
  Qed.
End CrashHist.

Print Assumptions crash_any_instant.
Print Assumptions C03_crash_atomic.

(* ------------------------------------------------------------------ *)
(* a closed, computed instance (toy hash and configuration of StoreHist.v: 2 operations per WAL
   segment).  The third put rolls the log over: its 17 effective calls are
     create staging, write, sync, mkdir, mkdir, rename into cas/, seal segment 0, sync,
     open segment 1, APPEND THE RECORD, sync, unlink the unreferenced blob,
     create index.tmp, write, sync, rename to index, unlink segment 0.
   Killing the process after n of them (and then once more during the recovery) and reopening
   yields the old map for n < 10 and the new map from n = 10 on. *)
Definition toy_h (n : nat) : list ev :=
  [EvOp (OpPut toy_k1 [toy_c1]); EvOp (OpPut toy_k2 [toy_c1; toy_c2]);
   EvCrash (OpPut toy_k1 [toy_c2]) n; EvCrashOpen 2].

Definition toy_final (n : nat) : option (list (bytes * N)) :=
  match reopen toyH toy_cfg empty_fs with
  | None => None
  | Some st0 =>
    match run_ext toyH toy_cfg st0 (toy_h n) with
    | None => None
    | Some (hd, _) => Some (map (fun e => (fst e, isize (snd e))) (km (idx (h_mem hd))))
    end
  end.

Example toy_crash_every_instant :
  map toy_final (seq 0 19)
  = repeat (Some [(toy_k1, 3); (toy_k2, 5)]) 10 ++ repeat (Some [(toy_k1, 2); (toy_k2, 5)]) 9.
Proof. vm_compute. reflexivity. Qed.

Lemma toy_nocollide_h : forall n, NoCollide toyH (flat_map ev_contents (toy_h n)).
Proof.
  intros n a b Ia Ib E. cbn in Ia, Ib.
  destruct Ia as [<-|[<-|[<-|[]]]]; destruct Ib as [<-|[<-|[<-|[]]]]; try reflexivity;
    vm_compute in E; discriminate.
Qed.

Lemma toy_ext_fits : forall n, ext_fits toy_cfg [] (toy_h n).
Proof. intros n. vm_compute. repeat split. Qed.

(* the hypotheses of the theorem are satisfiable, for every crash point *)
Example toy_crash_theorem_instance : forall n,
  exists hd0 w0 hd w' sg,
    reopen toyH toy_cfg empty_fs = Some (hd0, w0) /\
    run_ext toyH toy_cfg (hd0, w0) (toy_h n) = Some (hd, w') /\
    allowed toy_cfg [] (toy_h n) sg /\ km (idx (h_mem hd)) = km_of toyH sg.
Proof.
  intros n.
  destruct (C03_crash_atomic toyH toyH_len toyH_byte toy_cfg eq_refl (toy_h n))
    as (hd0 & w0 & E0 & hd & w' & E & _ & _ & sg & Al & (L & _)).
  - reflexivity.
  - apply toy_nocollide_h.
  - apply toy_ext_fits.
  - reflexivity.
  - exists hd0, w0, hd, w', sg. split; [exact E0|]. split; [exact E|]. split; [exact Al|].
    exact (lv_km _ _ _ _ _ L).
Qed.


(* Why recovery re-establishes Inv' and not the strict Inv of DiskInv.v: kill the third put
   after its 8th call (segment 0 sealed and synced, segment 1 not yet opened), reopen.  The
   recovered handle has next version 3 and no active writer; segment 0 -- the segment of the
   last written version 2 -- ends with the sentinel.  [DiskOk] demands that sealed segments
   lie strictly below the segment of the last written version, so it is false for EVERY map. *)
Definition toy_after (n : nat) : option (handle * world) :=
  match reopen toyH toy_cfg empty_fs with
  | None => None
  | Some st0 => run_ext toyH toy_cfg st0
                  [EvOp (OpPut toy_k1 [toy_c1]); EvOp (OpPut toy_k2 [toy_c1; toy_c2]);
                   EvCrash (OpPut toy_k1 [toy_c2]) n]
  end.

Example strict_DiskOk_fails_after_seal_crash :
  exists hd w', toy_after 8 = Some (hd, w') /\
                forall sg, ~ DiskOk toyH toy_cfg (h_mem hd) (wfs w') sg.
Proof.
  destruct (toy_after 8) as [[hd w']|] eqn:E; [|vm_compute in E; discriminate].
  exists hd, w'. split; [reflexivity|]. intros sg (ids & rf & sf & km_c & ops & D).
  vm_compute in E. inversion E; subst hd w'. clear E.
  destruct D as [d_sg d_set d_snap d_kmc d_asc d_in d_out d_seg d_filter d_nv d_nvfit
                   d_opsfit d_opsok d_fold].
  assert (I0 : In 0 ids).
  { destruct (in_dec N.eq_dec 0 ids) as [Ii|Ni]; [exact Ii|]. exfalso.
    specialize (d_out 0 Ni). vm_compute in d_out. discriminate. }
  destruct (d_seg 0 I0) as (S1 & _ & _ & _ & S5).
  assert (Sf0 : sf 0 = false).
  { destruct (sf 0); [|reflexivity]. specialize (S5 eq_refl). vm_compute in S5. discriminate. }
  pose proof (d_in 0 I0) as G. rewrite Sf0 in G. cbn [tailb] in G. rewrite app_nil_r in G.
  pose proof (parse_segment_render toyH toyH_len (rf 0) S1) as Pr.
  remember (rf 0) as recs eqn:Erecs. remember (render toyH recs) as R eqn:ER.
  vm_compute in G. inversion G as [GR]. clear G. rewrite <- GR in ER, Pr. clear GR R.
  vm_compute in Pr. inversion Pr as [Prr]. clear Pr.
  rewrite <- Prr in ER. apply (f_equal (@length N)) in ER. vm_compute in ER. discriminate.
Qed.

Print Assumptions toy_crash_every_instant.
Print Assumptions strict_DiskOk_fails_after_seal_crash.
Print Assumptions toy_crash_theorem_instance.
