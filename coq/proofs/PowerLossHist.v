(* PowerLossHist.v -- power-loss durability in Sync mode (C09) at the level of single
   operations and of histories (L3).

   powerloss_any_instant   cut the power after ANY number n of the effective calls of an API
       operation, with ANY victim set: the next open succeeds and yields a handle for the map
       before the operation or for the map after it.
   C09_powerloss_partial   histories  evl := LOp o | LRestart | LLoss o n victims
       | LLossOpen n victims  from an empty directory: every open succeeds and the final handle
       satisfies Inv' for a map in [allowedl]: acknowledged operations in order, each
       interrupted operation entirely or not at all.  The LAST event may be a power loss with
       an ARBITRARY victim set; for the earlier power losses the victim set must contain every
       segment file (wal_victims) -- see the remark at [hist_good].
   C09_powerloss_settled   the same for ARBITRARY victim sets at EVERY power loss, when what
       survives a power loss counts as durable from then on ([settle]). *)
From Cas Require Import History.
From CasProofs Require Import BaseProofs CodecBase CodecProofs SMapProofs IndexProofs
  StoreFS StoreInv StoreWrite StoreRead StoreHist DiskInv Recover RestartHist
  CrashInv CrashOps CrashOpen CrashHist PowerLoss PowerLossOps PowerLossOpen.
From Coq Require Import ZifyBool ZifyNat ZifyN.
Open Scope N_scope.

Arguments N.add : simpl never.
Arguments N.sub : simpl never.
Arguments N.mul : simpl never.
Arguments N.div : simpl never.
Arguments N.modulo : simpl never.
Arguments N.eqb : simpl never.
Arguments N.ltb : simpl never.
Arguments N.leb : simpl never.
Arguments N.pow : simpl never.
Arguments N.max : simpl never.

Inductive evl :=
| LOp (o : op)                                          (* an acknowledged API call *)
| LRestart                                              (* close, then open *)
| LLoss (o : op) (n : nat) (victims : path -> bool)     (* power loss during o, after n calls *)
| LLossOpen (n : nat) (victims : path -> bool).         (* kill at rest, power loss after n calls
                                                           of the recovery (n = 0: at rest) *)

Definition evl_contents (e : evl) : list bytes :=
  match e with LOp o | LLoss o _ _ => op_contents o | _ => [] end.

(* the victim sets of an event satisfy [good] *)
Definition evl_good (good : (path -> bool) -> Prop) (e : evl) : Prop :=
  match e with LLoss _ _ v | LLossOpen _ v => good v | _ => True end.

(* Every power loss but the last one must have the segment files among its victims.  Reason:
   in the model a file that is NOT a victim keeps its unsynced bytes AND stays marked as
   unsynced.  A record that was in flight at the first power loss and survived it still counts
   as unsynced at a second power loss, although the recovery in between has replayed it.  To
   follow such stale unsynced tails one would have to show that every power-loss image of every
   intermediate state of that recovery is a state of Rest again; for Rest as defined (DiskW of
   DiskInv.v) this is not even true: with num_ops_per_wal = 1 the recovery creates the segment
   of the next version, and in the image that lacks the stale record this segment lies beyond
   the segment DiskW allows (SegOk: i <= seg_of nv) -- although the real recovery of that
   image would succeed.  See [settle] below for the reading of a power loss under which the
   restriction disappears. *)
Fixpoint hist_good (good : (path -> bool) -> Prop) (h : list evl) : Prop :=
  match h with
  | [] => True
  | e :: r => (r = [] \/ evl_good good e) /\ hist_good good r
  end.
Definition hist_wal : list evl -> Prop := hist_good wal_victims.

(* An alternative reading of a power loss, closer to what happens: whatever survives a power
   loss IS on the disk, hence durable from then on.  [settle] marks every surviving byte as
   synced; with [settle] applied after each power loss the restriction on the victim sets
   disappears (C09_powerloss_settled). *)
Definition settle (s : fs) : fs :=
  with_files s (map (fun pf : path * file =>
                       (fst pf, mkFile (fdata (snd pf)) (length (fdata (snd pf))))) (files s)).

Lemma fget_settle : forall s p,
  fget (settle s) p = option_map (fun f => mkFile (fdata f) (length (fdata f))) (fget s p).
Proof.
  intros s p. unfold fget, settle. cbn [with_files files].
  induction (files s) as [|[q f] l IH]; cbn [map lookup fst snd option_map]; [reflexivity|].
  destruct (path_eqb p q); [reflexivity|exact IH].
Qed.

Lemma settle_wf : forall s, FsWf s -> FsWf (settle s).
Proof.
  intros s W. unfold FsWf, settle, paths in *. cbn [with_files files]. rewrite map_map.
  cbn [fst]. exact W.
Qed.

Lemma fdat_settle : forall s p, fdat (settle s) p = fdat s p.
Proof. intros s p. unfold fdat. rewrite fget_settle. now destruct (fget s p). Qed.

Lemma syn_settle : forall s p, syn (settle s) p.
Proof.
  intros s p f G. rewrite fget_settle in G. destruct (fget s p); [|discriminate].
  cbn [option_map] in G. inversion G. reflexivity.
Qed.

Section PowerHist.
  Variable H : bytes -> bytes.
  Hypothesis H_len : forall b, length (H b) = 32%nat.
  Hypothesis H_byte : forall b, Forall (fun x => x < 256) (H b).
  Variable cfg : config.
  Hypothesis n_pos : 0 < c_n cfg.
  Hypothesis sync_on : c_sync cfg = true.
  Let cmp := key_cmp (c_kt cfg).

  Local Notation KX L :=
    (L cmp (key_cmp_refl _) (key_cmp_eq _) (key_cmp_antisym _) (key_cmp_trans _)) (only parsing).
  Local Notation DX L := (L H H_len H_byte cfg n_pos) (only parsing).
  Local Notation SX L := (L H H_len H_byte cfg n_pos sync_on) (only parsing).
  Local Notation km_of := (km_of H).
  Local Notation NoCollide := (NoCollide H).
  Local Notation Inv' := (Inv' H cfg).
  Local Notation Rest := (Rest H cfg).
  Local Notation RestB := (RestB H cfg).
  Local Notation RestSB := (RestSB H cfg).
  Local Notation SyncedFor := (SyncedFor H).
  Local Notation spec_out := (spec_out H cfg).
  Local Notation api_op := (api_op cfg).
  Local Notation op_fits_at := (op_fits_at cfg).
  Local Notation PLD := (PLD H cfg).
  Local Notation PLB := (PLB H cfg).
  Local Notation reopen := (reopen H cfg).

  (* ---------------------------------------------------------------- *)
  (* one API call, with its power-loss walk                            *)
  (* ---------------------------------------------------------------- *)
  Lemma step_walk_pl : forall m s sg os o w,
    Inv' m s sg -> SyncedFor sg s -> wfs w = s -> wfault w = None -> api_op o ->
    NoCollide (op_contents o ++ map snd sg) -> op_fits_at sg o ->
    N.of_nat (length sg) + 1 < 2 ^ 32 -> nextv (mwal m) < 2 ^ 64 ->
    exists m' w',
      step H (Some (mkHandle cfg m os)) o w = ((spec_out sg o, Some (mkHandle cfg m' os)), w') /\
      wfault w' = None /\ Inv' m' (wfs w') (spec_step cmp sg o) /\
      SyncedFor (spec_step cmp sg o) (wfs w') /\
      nextv (mwal m') <= nextv (mwal m) + 1 /\
      Walk (PLD (nextv (mwal m) + 1) sg (spec_step cmp sg o)) w w'.
  Proof.
    intros m s sg os o w IV Y Ws F A NC Fit Ln Lv. pose proof IV as (L & D & Wf).
    assert (RB : RestB (nextv (mwal m) + 1) s sg) by (eapply (DX inv'_restb); [exact IV|lia]).
    assert (Y0 : SynOn (Rel H sg) s) by now apply syncedfor_rel.
    assert (RD : is_read o ->
              exists m' w',
                step H (Some (mkHandle cfg m os)) o w
                = ((spec_out sg o, Some (mkHandle cfg m' os)), w') /\
                wfault w' = None /\ Inv' m' (wfs w') sg /\ SyncedFor sg (wfs w') /\
                nextv (mwal m') <= nextv (mwal m) + 1 /\
                Walk (PLD (nextv (mwal m) + 1) sg sg) w w').
    { intros R.
      destruct (step_ok H H_len H_byte cfg n_pos m s sg os o w L Ws F A NC) as (m' & w' & E & F' & _).
      destruct (read_step _ _ _ _ _ _ _ _ _ E R) as [-> ->].
      exists m, w. split; [exact E|]. split; [exact F|]. rewrite Ws. split; [exact IV|].
      split; [exact Y|]. split; [lia|].
      apply walk_refl; [exact F|]. rewrite Ws. now apply (DX stab_pld_l). }
    destruct o; cbn [StoreHist.api_op] in A; try contradiction;
      try (apply RD; exact I);
      cbn [step h_cfg h_mem h_ostats StoreHist.spec_out spec_step StoreHist.op_contents
           RestartHist.op_fits_at] in *.
    - (* put *)
      destruct Fit as (Lk & Vk & Lc).
      destruct (SX put_powerloss' m s sg k chunks w IV Y Ws F NC Lk Vk Lc Ln Lv)
        as (m' & w' & E & F' & IV' & Y' & Nv & K).
      exists m', w'. rewrite (bind_eq _ _ _ _ _ E). split; [reflexivity|].
      split; [exact F'|]. split; [exact IV'|]. split; [exact Y'|]. split; [lia|exact K].
    - (* abort *)
      destruct (DX abort_powerloss' m s sg k chunks w IV Y Ws F) as (w' & E & F' & IV' & Y' & K).
      exists m, w'. rewrite (bind_eq _ _ _ _ _ E). split; [reflexivity|].
      split; [exact F'|]. split; [exact IV'|]. split; [exact Y'|]. split; [lia|].
      eapply walk_weaken; [|exact K]. intros x Px. eapply (plb_pld_same H cfg n_pos); [|exact Px]. lia.
    - (* remove *)
      destruct (DX remove_powerloss' m s sg k w IV Y Ws F Lv) as (m' & w' & E & F' & IV' & Y' & Nv & K).
      exists m', w'. rewrite (bind_eq _ _ _ _ _ E). split; [reflexivity|].
      split; [exact F'|]. split; [exact IV'|]. split; [exact Y'|]. split; [exact Nv|exact K].
    - (* remove_range *)
      fold cmp in A.
      assert (NP : (nonempty (km (idx m)) && range_panics cmp lo hi) = false)
        by (rewrite A; apply andb_false_r).
      destruct (DX remove_range_powerloss' m s sg lo hi w IV Y Ws F NP Fit Lv)
        as (m' & w' & E & F' & IV' & Y' & Nv & K).
      exists m', w'. rewrite (bind_eq _ _ _ _ _ E). rewrite A, andb_false_r.
      split; [reflexivity|]. split; [exact F'|]. split; [exact IV'|]. split; [exact Y'|].
      split; [exact Nv|exact K].
    - (* checkpoint *)
      destruct (DX checkpoint_powerloss' m s sg w IV Y Ws F) as (m' & w' & E & F' & IV' & Y' & Nv & K).
      exists m', w'. rewrite (bind_eq _ _ _ _ _ E). split; [reflexivity|].
      split; [exact F'|]. split; [exact IV'|]. split; [exact Y'|]. split; [lia|].
      eapply walk_weaken; [|exact K]. intros x Px. eapply (plb_pld_same H cfg n_pos); [|exact Px]. lia.
  Qed.

  (* C09 for one operation: cut the power after any number n of the effective calls of an API
     operation issued in Sync mode on a handle satisfying the invariant (relevant files
     synced), let ANY set of files lose their unsynced bytes: the next open succeeds and yields
     a handle for the map before the operation or for the map after it *)
  Theorem powerloss_any_instant : forall m s sg os o w n victims,
    Inv' m s sg -> SyncedFor sg s -> wfs w = s -> wfault w = None -> api_op o ->
    NoCollide (op_contents o ++ map snd sg) -> op_fits_at sg o ->
    N.of_nat (length sg) + 1 < 2 ^ 32 -> nextv (mwal m) < 2 ^ 64 ->
    let w' := snd (step H (Some (mkHandle cfg m os)) o w) in
    let x := lose victims (crash_fs n (rev (new_trace w w')) (wfs w)) in
    exists m2 os2 w2, open_with_recover H cfg (init_world x None) = (Ok (m2, os2), w2) /\
      (Inv' m2 (wfs w2) sg \/ Inv' m2 (wfs w2) (spec_step cmp sg o)).
  Proof.
    intros m s sg os o w n v IV Y Ws F A NC Fit Ln Lv. cbv zeta.
    destruct (step_walk_pl m s sg os o w IV Y Ws F A NC Fit Ln Lv) as (m1 & w1 & E1 & _ & _ & _ & _ & K).
    rewrite E1. cbn [snd].
    pose proof (along_crash_at _ w w1 n (walk_along _ _ _ K)) as [RX _].
    pose proof (inv'_nextv_pos H cfg _ _ _ IV) as Nv1.
    destruct (RX v) as [RX1|RX1].
    - destruct (DX reopen_b _ _ sg RX1) as (m2 & os2 & w2 & Eo & _ & IV2 & _); [lia|].
      exists m2, os2, w2. split; [exact Eo|now left].
    - destruct (DX reopen_b _ _ (spec_step cmp sg o) RX1) as (m2 & os2 & w2 & Eo & _ & IV2 & _); [lia|].
      exists m2, os2, w2. split; [exact Eo|now right].
  Qed.

  (* ---------------------------------------------------------------- *)
  (* running a history with power losses                               *)
  (* ---------------------------------------------------------------- *)
  Section Run.
  (* [post] is applied to the filesystem after each power loss: the identity (the model of
     theories/FS.v as it is: a surviving file stays marked as unsynced) or [settle];
     [good] is the condition on the victim sets of all power losses but the last *)
  Variable post : fs -> fs.
  Variable good : (path -> bool) -> Prop.
  Hypothesis post_any : forall B sg sg' x v, PLD B sg sg' x ->
    RestB B (post (lose v x)) sg \/ RestB B (post (lose v x)) sg'.
  Hypothesis post_good : forall B sg sg' x v, PLD B sg sg' x -> good v ->
    RestSB B (post (lose v x)) sg \/ RestSB B (post (lose v x)) sg'.

  Definition run_evl (st : handle * world) (e : evl) : option (handle * world) :=
    let '(hd, w) := st in
    match e with
    | LOp o =>
      let '((_, ohd), w') := step H (Some hd) o w in
      match ohd with Some hd' => Some (hd', w') | None => None end
    | LRestart =>
      let '(_, w1) := close (h_mem hd) w in opened cfg (open_with_recover H cfg w1)
    | LLoss o n v =>
      let w' := snd (step H (Some hd) o w) in
      reopen (post (lose v (crash_fs n (rev (new_trace w w')) (wfs w))))
    | LLossOpen n v => reopen (post (lose v (crash_open H cfg n (wfs w))))
    end.

  Fixpoint run_extl (st : handle * world) (h : list evl) : option (handle * world) :=
    match h with
    | [] => Some st
    | e :: r => match run_evl st e with Some st' => run_extl st' r | None => None end
    end.

  (* the maps a history may end in *)
  Fixpoint allowedl (sg : smap bytes) (h : list evl) (sgf : smap bytes) : Prop :=
    match h with
    | [] => sgf = sg
    | LOp o :: r => allowedl (spec_step cmp sg o) r sgf
    | LRestart :: r | LLossOpen _ _ :: r => allowedl sg r sgf
    | LLoss o _ _ :: r => allowedl sg r sgf \/ allowedl (spec_step cmp sg o) r sgf
    end.

  Fixpoint extl_fits (sg : smap bytes) (h : list evl) : Prop :=
    match h with
    | [] => True
    | LOp o :: r => api_op o /\ op_fits_at sg o /\ extl_fits (spec_step cmp sg o) r
    | LRestart :: r | LLossOpen _ _ :: r => extl_fits sg r
    | LLoss o _ _ :: r =>
      api_op o /\ op_fits_at sg o /\ extl_fits sg r /\ extl_fits (spec_step cmp sg o) r
    end.

  (* the walk of recovery, as a PLD for one map *)
  Lemma crash_open_pld : forall B n x sg, RestSB B x sg -> 1 <= B ->
    PLD B sg sg (crash_open H cfg n x).
  Proof.
    intros B n x sg RS B1. unfold crash_open.
    destruct (DX open_powerloss_b B x sg (init_world x None) RS B1 eq_refl eq_refl)
      as (m' & os & w' & E & _ & _ & _ & _ & _ & K).
    rewrite E. cbn [snd]. eapply (plb_pld_same H cfg n_pos); [apply N.le_refl|].
    exact (along_crash cfg n_pos (PLB B sg) x w' n (walk_along _ _ _ K)).
  Qed.

  Lemma run_extl_ok : forall h m os w sg,
    Inv' m (wfs w) sg -> SyncedFor sg (wfs w) -> wfault w = None -> hist_good good h ->
    NoCollide (flat_map evl_contents h ++ map snd sg) -> extl_fits sg h ->
    N.of_nat (length sg) + N.of_nat (length h) < 2 ^ 32 ->
    nextv (mwal m) + N.of_nat (length h) <= 2 ^ 32 ->
    exists hd w', run_extl (mkHandle cfg m os, w) h = Some (hd, w') /\ h_cfg hd = cfg /\
      wfault w' = None /\ exists sgf, allowedl sg h sgf /\ Inv' (h_mem hd) (wfs w') sgf.
  Proof.
    induction h as [|e r IH]; intros m os w sg IV Y F HWal NC Fit Ln Lv.
    - exists (mkHandle cfg m os), w. split; [reflexivity|]. split; [reflexivity|].
      split; [exact F|]. exists sg. split; [reflexivity|exact IV].
    - cbn [length] in Ln, Lv. cbn [flat_map] in NC. cbn [hist_good] in HWal.
      destruct HWal as [HW1 HWr].
      pose proof (inv'_nextv_pos H cfg _ _ _ IV) as Nv1.
      (* the remaining history, from a handle for sgX obtained with at most one more version;
         its relevant files must be synced unless the history ends here *)
      assert (Next : forall m2 os2 w2 sgX,
                Inv' m2 (wfs w2) sgX -> (r = [] \/ SyncedFor sgX (wfs w2)) -> wfault w2 = None ->
                nextv (mwal m2) <= nextv (mwal m) + 1 ->
                (length sgX <= S (length sg))%nat ->
                (forall x, In x (map snd sgX) -> In x (evl_contents e) \/ In x (map snd sg)) ->
                extl_fits sgX r ->
                exists hd w', run_extl (mkHandle cfg m2 os2, w2) r = Some (hd, w') /\ h_cfg hd = cfg /\
                  wfault w' = None /\ exists sgf, allowedl sgX r sgf /\ Inv' (h_mem hd) (wfs w') sgf).
      { intros m2 os2 w2 sgX IV2 Y2 F2 Nv2 Lx Cx Fx.
        destruct r as [|e' r'] eqn:Er.
        - exists (mkHandle cfg m2 os2), w2. split; [reflexivity|]. split; [reflexivity|].
          split; [exact F2|]. exists sgX. split; [reflexivity|exact IV2].
        - destruct Y2 as [X|Y2]; [discriminate|]. rewrite <- Er in *.
          apply IH; try assumption; try lia.
          eapply (NoCollide_incl H); [|exact NC]. intros x Ix. rewrite <- app_assoc.
          apply in_app_or in Ix. apply in_or_app. destruct Ix as [Ix|Ix].
          + right. apply in_or_app. now left.
          + destruct (Cx x Ix) as [Iy|Iy]; [now left|right; apply in_or_app; now right]. }
      (* reopening a state of the invariant, then the remaining history *)
      assert (Fin : forall sgX y,
                RestB (nextv (mwal m) + 1) y sgX -> (r = [] \/ SyncedFor sgX y) ->
                (length sgX <= S (length sg))%nat ->
                (forall x, In x (map snd sgX) -> In x (evl_contents e) \/ In x (map snd sg)) ->
                extl_fits sgX r ->
                exists hd w', match reopen y with Some st' => run_extl st' r | None => None end
                              = Some (hd, w') /\ h_cfg hd = cfg /\
                  wfault w' = None /\ exists sgf, allowedl sgX r sgf /\ Inv' (h_mem hd) (wfs w') sgf).
      { intros sgX y RB YX Lx Cx Fx.
        destruct (DX reopen_b _ y sgX RB) as (m2 & os2 & w2 & Eo & F2 & IV2 & Nv2 & Y2); [lia|].
        unfold CrashHist.reopen. rewrite Eo. cbn [opened].
        apply (Next m2 os2 w2 sgX); try assumption.
        destruct YX as [X|YX]; [now left|right; now apply Y2]. }
      (* after a power loss at a state x with PLD: the old map or the new map *)
      assert (Loss : forall sg' x v, PLD (nextv (mwal m) + 1) sg sg' x -> (r = [] \/ good v) ->
                (length sg' <= S (length sg))%nat ->
                (forall z, In z (map snd sg') -> In z (evl_contents e) \/ In z (map snd sg)) ->
                extl_fits sg r -> extl_fits sg' r ->
                exists hd w', match reopen (post (lose v x)) with
                              | Some st' => run_extl st' r | None => None end
                              = Some (hd, w') /\ h_cfg hd = cfg /\ wfault w' = None /\
                  exists sgf, (allowedl sg r sgf \/ allowedl sg' r sgf) /\
                              Inv' (h_mem hd) (wfs w') sgf).
      { intros sg' x v PX HG Lx Cx Fr1 Fr2.
        assert (Old : forall y, RestB (nextv (mwal m) + 1) y sg -> (r = [] \/ SyncedFor sg y) ->
                  exists hd w', match reopen y with Some st' => run_extl st' r | None => None end
                                = Some (hd, w') /\ h_cfg hd = cfg /\ wfault w' = None /\
                    exists sgf, (allowedl sg r sgf \/ allowedl sg' r sgf) /\
                                Inv' (h_mem hd) (wfs w') sgf).
        { intros y RB YX. destruct (Fin sg y RB YX) as (hd & w' & Er & Hc & F' & sgf & Al & IVf);
            try assumption; try lia; [intros z Iz; now right|].
          exists hd, w'. split; [exact Er|]. split; [exact Hc|]. split; [exact F'|].
          exists sgf. split; [now left|exact IVf]. }
        assert (New : forall y, RestB (nextv (mwal m) + 1) y sg' -> (r = [] \/ SyncedFor sg' y) ->
                  exists hd w', match reopen y with Some st' => run_extl st' r | None => None end
                                = Some (hd, w') /\ h_cfg hd = cfg /\ wfault w' = None /\
                    exists sgf, (allowedl sg r sgf \/ allowedl sg' r sgf) /\
                                Inv' (h_mem hd) (wfs w') sgf).
        { intros y RB YX. destruct (Fin sg' y RB YX) as (hd & w' & Er & Hc & F' & sgf & Al & IVf);
            try assumption.
          exists hd, w'. split; [exact Er|]. split; [exact Hc|]. split; [exact F'|].
          exists sgf. split; [now right|exact IVf]. }
        destruct HG as [Re|Hv].
        - destruct (post_any _ _ _ _ v PX) as [RX|RX]; [apply Old|apply New]; try exact RX; now left.
        - destruct (post_good _ _ _ _ v PX Hv) as [[RX YX]|[RX YX]]; [apply Old|apply New];
            try exact RX; now right. }
      destruct e as [o| |o n v|n v]; cbn [extl_fits] in Fit;
        cbn [run_extl run_evl allowedl evl_good evl_contents] in *.
      + (* an acknowledged operation *)
        destruct Fit as (Ao & Fo & Fr).
        destruct (step_walk_pl m (wfs w) sg os o w IV Y eq_refl F Ao)
          as (m1 & w1 & E1 & F1 & IV1 & Y1 & Nv & _); try assumption; try (pow_consts; lia).
        { eapply (NoCollide_incl H); [|exact NC]. intros x Ix.
          rewrite <- app_assoc. apply in_app_or in Ix. apply in_or_app.
          destruct Ix; [now left|right; apply in_or_app; now right]. }
        rewrite E1. apply (Next m1 os w1 (spec_step cmp sg o)); try assumption.
        * now right.
        * apply (DX length_spec_step).
        * intros x Ix. apply (spec_step_contents cfg) in Ix. exact Ix.
      + (* restart *)
        destruct (DX close_powerloss' m (wfs w) sg w IV Y eq_refl F) as (w1 & Ec & F1 & RB1 & Y1 & _).
        destruct (DX open_powerloss_b (nextv (mwal m)) (wfs w1) sg w1 (conj RB1 Y1) Nv1 F1 eq_refl)
          as (m2 & os2 & w2 & Eo & F2 & IV2 & Y2 & _ & Nv2 & _).
        cbn [h_mem]. rewrite Ec, Eo. cbn [opened].
        apply (Next m2 os2 w2 sg); try assumption; try lia; [now right|intros x Ix; now right].
      + (* power loss during an operation *)
        destruct Fit as (Ao & Fo & Fr1 & Fr2).
        destruct (step_walk_pl m (wfs w) sg os o w IV Y eq_refl F Ao)
          as (m1 & w1 & E1 & F1 & IV1 & Y1 & Nv & K); try assumption; try (pow_consts; lia).
        { eapply (NoCollide_incl H); [|exact NC]. intros x Ix.
          rewrite <- app_assoc. apply in_app_or in Ix. apply in_or_app.
          destruct Ix; [now left|right; apply in_or_app; now right]. }
        rewrite E1. cbn [snd].
        apply (Loss (spec_step cmp sg o)); try assumption.
        * exact (along_crash_at _ w w1 n (walk_along _ _ _ K)).
        * apply (DX length_spec_step).
        * intros z Iz. apply (spec_step_contents cfg) in Iz. exact Iz.
      + (* kill at rest, power loss during the recovery *)
        assert (RB : RestB (nextv (mwal m) + 1) (wfs w) sg) by (eapply (DX inv'_restb); [exact IV|lia]).
        destruct (Loss sg (crash_open H cfg n (wfs w)) v) as (hd & w' & Er & Hc & F' & sgf & Al & IVf);
          try assumption; try lia.
        * apply crash_open_pld; [now split|lia].
        * intros z Iz. now right.
        * exists hd, w'. split; [exact Er|]. split; [exact Hc|]. split; [exact F'|].
          exists sgf. split; [destruct Al; assumption|exact IVf].
  Qed.

  Theorem C09_gen : forall h,
    c_n cfg < 2 ^ 64 -> hist_good good h ->
    NoCollide (flat_map evl_contents h) -> extl_fits [] h -> N.of_nat (length h) < 2 ^ 32 - 1 ->
    exists hd0 w0, reopen empty_fs = Some (hd0, w0) /\
    exists hd w', run_extl (hd0, w0) h = Some (hd, w') /\ h_cfg hd = cfg /\ wfault w' = None /\
      exists sg, allowedl [] h sg /\ Inv' (h_mem hd) (wfs w') sg.
  Proof.
    intros h Nfit HWal NC Fit Ln.
    assert (R0 : RestSB 1 empty_fs []).
    { split.
      - split; [constructor|]. split; [intros a b []|]. right.
        split; [reflexivity|]. split; [exact Nfit|]. split; [exact empty_fs_wf|].
        repeat split; intros; reflexivity.
      - assert (E : forall p, syn empty_fs p) by (intros p f G; discriminate).
        split; [apply E|]. split; [apply E|]. split; intros; apply E. }
    destruct (DX open_powerloss_b 1 empty_fs [] (init_world empty_fs None) R0 (N.le_refl _) eq_refl eq_refl)
      as (m & os & w1 & E1 & F1 & IV1 & Y1 & _ & Nv1 & _).
    exists (mkHandle cfg m os), w1. split; [unfold CrashHist.reopen; rewrite E1; reflexivity|].
    apply run_extl_ok; try assumption.
    - now rewrite app_nil_r.
    - cbn [length]. pow_consts. lia.
    - pow_consts. lia.
  Qed.
  End Run.

  (* C09 with the model of theories/FS.v as it is (partial, see hist_good).  From an empty
     directory, in Sync mode, for every history of API calls, restarts and POWER LOSSES -- during
     an operation at any call boundary, at rest, during the recovery -- every open succeeds and
     the final handle satisfies the handle invariant for a map in [allowedl [] h]: acknowledged
     operations applied in order, each interrupted operation applied entirely or not at all.
     The last power loss may hit ANY set of files; the earlier ones must include the segment
     files among their victims. *)
  Theorem C09_powerloss_partial : forall h,
    c_n cfg < 2 ^ 64 -> hist_wal h ->
    NoCollide (flat_map evl_contents h) -> extl_fits [] h -> N.of_nat (length h) < 2 ^ 32 - 1 ->
    exists hd0 w0, reopen empty_fs = Some (hd0, w0) /\
    exists hd w', run_extl (fun y => y) (hd0, w0) h = Some (hd, w') /\ h_cfg hd = cfg /\
      wfault w' = None /\ exists sg, allowedl [] h sg /\ Inv' (h_mem hd) (wfs w') sg.
  Proof.
    intros h. apply (C09_gen (fun y => y) wal_victims).
    - intros B sg sg' x v [P _]. apply P.
    - intros B sg sg' x v [_ Q] Hv. now apply Q.
  Qed.

  (* C09 with durable survivors: after each power loss whatever survived is marked as synced
     ([settle]).  EVERY power loss of the history may hit ANY set of files. *)
  Lemma restb_settle : forall B y sg, RestB B y sg -> RestSB B (settle y) sg.
  Proof.
    intros B y sg RB. split.
    - eapply (view_eq_restb H cfg); [exact RB|apply settle_wf; eapply restb_wf; exact RB| | |].
      + auto.
      + reflexivity.
      + intros q. apply fdat_settle.
    - repeat split; intros; apply syn_settle.
  Qed.

  Theorem C09_powerloss_settled : forall h,
    c_n cfg < 2 ^ 64 ->
    NoCollide (flat_map evl_contents h) -> extl_fits [] h -> N.of_nat (length h) < 2 ^ 32 - 1 ->
    exists hd0 w0, reopen empty_fs = Some (hd0, w0) /\
    exists hd w', run_extl settle (hd0, w0) h = Some (hd, w') /\ h_cfg hd = cfg /\
      wfault w' = None /\ exists sg, allowedl [] h sg /\ Inv' (h_mem hd) (wfs w') sg.
  Proof.
    intros h Nfit NC Fit Ln.
    apply (C09_gen settle (fun _ => True)); try assumption.
    - intros B sg sg' x v [P _]. destruct (P v) as [X|X]; [left|right]; exact (proj1 (restb_settle _ _ _ X)).
    - intros B sg sg' x v [P _] _. destruct (P v) as [X|X]; [left|right]; now apply restb_settle.
    - clear. induction h as [|e r IH]; cbn [hist_good]; [exact I|]. split; [right|exact IH].
      destruct e; exact I.
  Qed.
End PowerHist.

Print Assumptions powerloss_any_instant.
Print Assumptions C09_powerloss_partial.
Print Assumptions C09_powerloss_settled.
