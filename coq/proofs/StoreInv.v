(* StoreInv.v -- the invariant relating an open handle's memory, the filesystem and the abstract
   ordered map, for fault-free runs; definitions fixed by the task description (TASK D). *)
From Cas Require Import History.
From CasProofs Require Import BaseProofs SMapProofs IndexProofs.

Section StoreInv.
  Variable H : bytes -> bytes.
  Hypothesis H_len : forall b, length (H b) = 32%nat.
  Hypothesis H_byte : forall b, Forall (fun x => x < 256) (H b).
  Variable cfg : config.
  Hypothesis n_pos : 0 < c_n cfg.
  Let cmp := key_cmp (c_kt cfg).

  Definition item_of (c : bytes) : item := mkItem (H c) (len c).
  Definition km_of (sg : smap bytes) : smap item := map (fun kc => (fst kc, item_of (snd kc))) sg.
  Definition NoCollide (l : list bytes) : Prop := forall a b, In a l -> In b l -> H a = H b -> a = b.

  Definition wal_ok (m : mem) (s : fs) : Prop :=
    1 <= nextv (mwal m) /\
    match writer (mwal m) with
    | None => True
    | Some (sg, buf) => buf = [] /\ fget s (PWal sg) <> None /\ 2 <= nextv (mwal m)
                        /\ sg = seg_of cfg (nextv (mwal m) - 1)
    end.

  (* third clause: a handle that remembers pre-created fan-out directories finds the parent
     directory of every WELL-FORMED hash (32 bytes, each < 256: finitely many directories, so the
     clause is satisfiable -- PreCreate.open_fresh_disk_pre_Inv; put uses it for H content only) *)
  Definition dirs_ok (m : mem) (s : fs) : Prop :=
    has_dir s [s_staging] = true /\ has_dir s [s_cas] = true /\
    (mpre m = true -> forall h, length h = 32%nat -> Forall (fun x => x < 256) h ->
                        parent_ok s (cas_path h) = true).

  (* core invariant: holds after every fault-free operation, also when garbage is around *)
  Record Live0 (m : mem) (s : fs) (sg : smap bytes) : Prop := mkLive0 {
    lv_sorted : sorted cmp sg;
    lv_km : km (idx m) = km_of sg;
    lv_idx : IdxInv cmp (idx m);
    lv_nocollide : NoCollide (map snd sg);
    lv_cas : forall k c, In (k, c) sg -> exists f, fget s (cas_path (H c)) = Some f /\ fdata f = c;
    lv_stage_fresh : forall i, nstage s <= i -> fget s (PStaging i) = None;
    lv_dirs : dirs_ok m s;
    lv_wal : wal_ok m s
  }.

  (* exactness (C07): nothing but the referenced blobs under cas/, nothing under staging/ *)
  Definition Clean (s : fs) (sg : smap bytes) : Prop :=
    (forall comps f, fget s (PCas comps) = Some f -> exists k c, In (k, c) sg /\ comps = hexpath (H c))
    /\ (forall i, fget s (PStaging i) = None).

  (* every CAS file holds the bytes its name promises (C06) *)
  Definition CasNamed (s : fs) : Prop :=
    forall comps f, fget s (PCas comps) = Some f -> comps = hexpath (H (fdata f)).
End StoreInv.
