(* PowerLossOps.v -- power-loss durability in Sync mode (C09), part 2 (L2): every intermediate
   filesystem of a fault-free put / remove / remove_range / checkpoint / abort / close, issued
   in Sync mode on a handle whose relevant files are synced, survives power loss for EVERY
   victim set: recovery yields the old map or the new map.

   The crash-atomicity theorems of CrashOps.v give "old map or new map" for every intermediate
   filesystem; the logic of PowerLoss.v adds the sync status.  Only the staging part of put is
   followed call by call once more (s_put_stage): there the relevant set grows (the blob of
   the new content becomes relevant when it is renamed into cas/, fully synced). *)
From Cas Require Import History.
From CasProofs Require Import BaseProofs CodecBase CodecProofs SMapProofs IndexProofs
  StoreFS StoreInv StoreWrite StoreRead StoreHist DiskInv Recover CrashInv CrashOps PowerLoss.
From Coq Require Import ZifyBool ZifyNat ZifyN.
Open Scope N_scope.

Arguments N.add : simpl never.
Arguments N.sub : simpl never.
Arguments N.mul : simpl never.
Arguments N.div : simpl never.
Arguments N.modulo : simpl never.
Arguments N.eqb : simpl never.
Arguments N.ltb : simpl never.
Arguments N.leb : simpl never.
Arguments N.pow : simpl never.
Arguments N.max : simpl never.

(* using a triple on a run whose crash atomicity is known *)
Lemma hr_run : forall (C : Ctx) {A} (m : M A) (Post : A -> fs -> Prop) w a w',
  HR C (SynOn (cR C)) m Post -> wfault w = None -> m w = (a, w') -> Walk (cP0 C) w w' ->
  SynOn (cR C) (wfs w) -> Walk (PLs C) w w' /\ Post a (wfs w').
Proof.
  intros C A m Post w a w' Hm F E K Y. destruct (Hm w F) as [T C0]. rewrite E in *.
  cbn [fst snd] in *.
  destruct (C0 (walk_along _ _ _ K) (pls_synced C _ (walk_start _ _ _ K) Y) Y) as [AI Po].
  split; [|exact Po]. apply along_walk; [exact AI|exact (walk_runs _ _ _ K)].
Qed.

Section OpsTriples.
  Variable H : bytes -> bytes.
  Variable cfg : config.
  Variable C : Ctx.
  Hypothesis JpWal : forall i, cJp C (PWal i).
  Hypothesis JpTmp : cJp C PIndexTmp.
  Hypothesis JpStg : forall i, cJp C (PStaging i).
  Hypothesis Ntmp : ~ cR C PIndexTmp.
  Hypothesis Nstg : forall i, ~ cR C (PStaging i).
  Let cmp := key_cmp (c_kt cfg).

  Local Notation R := (cR C).
  Local Notation HR := (HR C).
  Local Notation Good := (SynOn (cR C)).
  Local Notation OkGood := (fun r x => match fst r with Ok _ => SynOn (cR C) x | Err _ => True end).

  Lemma hr_remove : forall m k, (forall s b, writer (mwal m) = Some (s, b) -> b = []) ->
    HR Good (remove H cfg m k) OkGood.
  Proof.
    intros m k Hb. unfold remove. destruct (sm_get _ (km (idx m)) k); [|apply hr_ret; cbn [fst]; auto].
    eapply hr_bind; [apply (hr_log_and_apply H cfg C JpWal JpTmp m _ Ntmp Hb)|].
    intros [[u|e] m']; cbv beta iota; cbn [fst]; apply hr_ret; cbn [fst]; auto.
  Qed.

  Lemma hr_remove_range : forall m lo hi, (forall s b, writer (mwal m) = Some (s, b) -> b = []) ->
    HR Good (remove_range H cfg m lo hi) OkGood.
  Proof.
    intros m lo hi Hb. unfold remove_range.
    match goal with |- @PowerLoss.HR _ _ _ (if ?c then _ else _) _ => destruct c end;
      [apply hr_ret; cbn [fst]; auto|].
    destruct (keys_in_range cfg m lo hi) as [|k0 ks]; [apply hr_ret; cbn [fst]; auto|].
    eapply hr_bind; [apply (hr_log_and_apply H cfg C JpWal JpTmp m _ Ntmp Hb)|].
    intros [[u|e] m']; cbv beta iota; cbn [fst]; apply hr_ret; cbn [fst]; auto.
  Qed.

  Lemma hr_checkpoint : forall m, HR Good (checkpoint cfg m) (fun _ => Good).
  Proof. intros m. unfold checkpoint. now apply (hr_checkpoint_inner cfg C JpTmp). Qed.

  (* abort: only the transaction's own staging file is written *)
  Lemma hr_abort : forall m k chunks, HR Good (abort m k chunks) (fun _ => Good).
  Proof.
    intros m k chunks. unfold abort.
    apply hr_bind with
      (Mid := fun rp x => match rp with Ok p => ~ R p /\ cJp C p | Err _ => True end /\ Good x).
    - unfold new_staging. eapply hr_bind; [apply hr_get_fs|]. intros s. cbv beta zeta.
      eapply hr_bind; [apply (hr_call_mono C (CCreateExcl (PStaging (nstage s))) R); [exact I|auto]|].
      intros [u|e]; cbv beta iota; apply hr_ret; intros x Y; (split; [|exact Y]); [|exact I].
      split; [apply Nstg|apply JpStg].
    - intros [p|e]; cbv beta iota; [|apply hr_ret; intros x [_ Y]; exact Y].
      apply hr_pure.
      { unfold drop_staging. faithful. }
      intros [Np Jpp].
      assert (App : forall b, HR Good (do_call (CAppend p b)) (fun _ => Good)).
      { intros b. eapply hr_post; [|apply (hr_call_append C p b Good Jpp); auto].
        intros [u|e] x Y; [|exact Y]. intros q Rq. apply Y. split; [exact Rq|].
        intros X. apply Np. now rewrite <- X. }
      apply hr_bind with (Mid := fun _ => Good).
      { destruct (bw_sim 0 chunks); [apply App|apply hr_ret; auto]. }
      intros [u|e]; cbv beta iota.
      + eapply hr_bind; [apply (hr_call_mono C (CUnlink p) R); [exact I|auto]|].
        intros r. cbv beta. apply hr_bind with (Mid := fun _ => Good); [|intros ?; apply hr_ret; auto].
        destruct r as [u2|e2]; [apply hr_ret; auto|].
        destruct (concat chunks); [apply hr_ret; auto|].
        destruct (bw_sim 0 chunks); [apply hr_ret; auto|apply App].
      + unfold drop_staging. apply hr_bind with (Mid := fun _ => Good).
        * eapply hr_bind; [apply (hr_call_mono C (CUnlink p) R); [exact I|auto]|].
          intros ?. apply hr_ret. auto.
        * intros ?. apply hr_ret. auto.
  Qed.
End OpsTriples.

Section PowerOps.
  Variable H : bytes -> bytes.
  Hypothesis H_len : forall b, length (H b) = 32%nat.
  Hypothesis H_byte : forall b, Forall (fun x => x < 256) (H b).
  Variable cfg : config.
  Hypothesis n_pos : 0 < c_n cfg.
  Hypothesis sync_on : c_sync cfg = true.          (* SyncMode::Sync *)
  Let cmp := key_cmp (c_kt cfg).

  Local Notation KX L :=
    (L cmp (key_cmp_refl _) (key_cmp_eq _) (key_cmp_antisym _) (key_cmp_trans _)) (only parsing).
  Local Notation DX L := (L H H_len H_byte cfg n_pos) (only parsing).
  Local Notation km_of := (km_of H).
  Local Notation NoCollide := (NoCollide H).
  Local Notation Live0 := (Live0 H cfg).
  Local Notation seg_of := (seg_of cfg).
  Local Notation Inv := (Inv H cfg).
  Local Notation Inv' := (Inv' H cfg).
  Local Notation Rest := (Rest H cfg).
  Local Notation RestP := (RestP H cfg).
  Local Notation RestB := (RestB H cfg).
  Local Notation RestDB := (RestDB H cfg).
  Local Notation cas_has := (cas_has H).
  Local Notation Rel := (Rel H).
  Local Notation Rel2 := (Rel2 H).
  Local Notation SyncedFor := (SyncedFor H).
  Local Notation seal_bound := (seal_bound cfg).
  Local Notation sg_fits := (sg_fits cfg).

  Local Notation RestSB := (RestSB H cfg).
  Local Notation CDB B sg sg' := (ctx_db H H_len H_byte cfg n_pos B sg sg') (only parsing).
  Local Notation CB B sg := (ctx_b H H_len H_byte cfg n_pos B sg) (only parsing).

  (* the walked predicates.  PLD: after power loss with ANY victim set, recovery yields the old
     map or the new map; moreover, when the victims include every segment file, the state after
     the loss is again a state of the sync-aware invariant (for the old or the new map).
     PLB: the same for operations that do not change the map. *)
  Definition PLD (B : N) (sg sg' : smap bytes) (x : fs) : Prop :=
    (forall victims, RestDB B sg sg' (lose victims x)) /\
    (forall victims, wal_victims victims ->
       RestSB B (lose victims x) sg \/ RestSB B (lose victims x) sg').
  Definition PLB (B : N) (sg : smap bytes) (x : fs) : Prop :=
    (forall victims, RestB B (lose victims x) sg) /\
    (forall victims, wal_victims victims -> RestSB B (lose victims x) sg).

  Lemma pld_rest : forall B sg sg' x, PLD B sg sg' x ->
    forall victims, Rest (lose victims x) sg \/ Rest (lose victims x) sg'.
  Proof. intros B sg sg' x [P _] v. destruct (P v) as [X|X]; [left|right]; eapply restb_rest; exact X. Qed.

  Lemma plb_rest : forall B sg x, PLB B sg x -> forall victims, Rest (lose victims x) sg.
  Proof. intros B sg x [P _] v. eapply restb_rest. apply P. Qed.

  Lemma pls_pld : forall B sg sg' x, PLs (CDB B sg sg') x -> PLD B sg sg' x.
  Proof.
    intros B sg sg' x [P Jx]. split; [exact P|]. intros v Hv.
    destruct (js_lose H cfg n_pos sg sg' x v Jx Hv) as [Y1 Y2].
    destruct (P v) as [X|X]; [left|right]; now split.
  Qed.

  Lemma pls_plb : forall B sg x, PLs (CB B sg) x -> PLB B sg x.
  Proof.
    intros B sg x [P Jx]. split; [exact P|]. intros v Hv.
    destruct (js_lose H cfg n_pos sg sg x v Jx Hv) as [Y1 _]. split; [apply P|exact Y1].
  Qed.

  Lemma plb_pld_same : forall B B' sg x, B <= B' -> PLB B sg x -> PLD B' sg sg x.
  Proof.
    intros B B' sg x L [P Q]. split.
    - intros v. left. eapply (restb_mono H cfg n_pos); [exact L|apply P].
    - intros v Hv. left. destruct (Q v Hv) as [X Y]. split; [|exact Y].
      eapply (restb_mono H cfg n_pos); [exact L|exact X].
  Qed.

  (* a state of the invariant whose relevant files are synced *)
  Lemma stab_plb : forall B sg x, RestB B x sg -> SynOn (Rel sg) x -> PLB B sg x.
  Proof. intros B sg x Rx Y. apply pls_plb. now apply (pls_synced (CB B sg)). Qed.

  Lemma stab_pld_l : forall B sg sg' x, RestB B x sg -> SynOn (Rel sg) x -> PLD B sg sg' x.
  Proof.
    intros B sg sg' x Rx Y. destruct (stab_plb B sg x Rx Y) as [P Q]. split.
    - intros v. left. apply P.
    - intros v Hv. left. now apply Q.
  Qed.

  Lemma inv'_buf : forall m s sg, Inv' m s sg -> forall s0 b, writer (mwal m) = Some (s0, b) -> b = [].
  Proof.
    intros m s sg (L & _) s0 b Wr. destruct (lv_wal _ _ _ _ _ L) as [_ Hw]. rewrite Wr in Hw.
    exact (proj1 Hw).
  Qed.

  Lemma rel2_sub : forall sg sg' q, (forall e, In e sg' -> In e sg) -> Rel2 sg sg' q -> Rel sg q.
  Proof. intros sg sg' q Sub [X|X]; [exact X|]. eapply rel_sub; eassumption. Qed.

  Lemma rel2_not_tmp : forall sg sg', ~ Rel2 sg sg' PIndexTmp /\ forall i, ~ Rel2 sg sg' (PStaging i).
  Proof.
    intros sg sg'. destruct (rel_not_tmp H sg) as (A1 & _ & _ & A2).
    destruct (rel_not_tmp H sg') as (B1 & _ & _ & B2).
    split; [intros [X|X]; contradiction|]. intros i [X|X]; [now apply (A2 i)|now apply (B2 i)].
  Qed.

  (* appends may be in flight on segments, index.tmp, settings.tmp and staging files *)
  Lemma jps_facts : forall sg sg', (forall i, JpS H sg sg' (PWal i)) /\ JpS H sg sg' PIndexTmp /\
    JpS H sg sg' PSettingsTmp /\ forall i, JpS H sg sg' (PStaging i).
  Proof.
    intros sg sg'. split; [intros i|split; [|split; [|intros i]]]; apply jps_other;
      try intros ?; discriminate.
  Qed.

  Lemma run_db : forall B sg sg' {A} (m : M A) (Post : A -> fs -> Prop) w a w',
    HR (CDB B sg sg') (SynOn (Rel2 sg sg')) m Post -> wfault w = None -> m w = (a, w') ->
    Walk (RestDB B sg sg') w w' -> SynOn (Rel2 sg sg') (wfs w) ->
    Walk (PLD B sg sg') w w' /\ Post a (wfs w').
  Proof.
    intros B sg sg' A m Post w a w' Hm F E K Y.
    destruct (hr_run (CDB B sg sg') m Post w a w' Hm F E K Y) as [KP Po]. split; [|exact Po].
    eapply walk_weaken; [|exact KP]. apply pls_pld.
  Qed.

  Lemma run_b : forall B sg {A} (m : M A) (Post : A -> fs -> Prop) w a w',
    HR (CB B sg) (SynOn (Rel sg)) m Post -> wfault w = None -> m w = (a, w') ->
    Walk (fun x => RestB B x sg) w w' -> SynOn (Rel sg) (wfs w) ->
    Walk (PLB B sg) w w' /\ Post a (wfs w').
  Proof.
    intros B sg A m Post w a w' Hm F E K Y.
    destruct (hr_run (CB B sg) m Post w a w' Hm F E K Y) as [KP Po]. split; [|exact Po].
    eapply walk_weaken; [|exact KP]. apply pls_plb.
  Qed.

  (* ---------------------------------------------------------------- *)
  (* remove / remove_range                                             *)
  (* ---------------------------------------------------------------- *)
  Theorem remove_powerloss' : forall m s sg k w,
    Inv' m s sg -> SyncedFor sg s -> wfs w = s -> wfault w = None -> nextv (mwal m) < 2 ^ 64 ->
    exists m' w',
      remove H cfg m k w
      = ((Ok (match sm_get cmp sg k with Some _ => true | None => false end), m'), w') /\
      wfault w' = None /\ Inv' m' (wfs w') (sm_del cmp sg k) /\
      SyncedFor (sm_del cmp sg k) (wfs w') /\
      nextv (mwal m') <= nextv (mwal m) + 1 /\
      Walk (PLD (nextv (mwal m) + 1) sg (sm_del cmp sg k)) w w'.
  Proof.
    intros m s sg k w IV Y Ws F Lv.
    destruct (DX remove_crash' m s sg k w IV Ws F Lv) as (m' & w' & E & F' & IV' & Nv & K).
    exists m', w'. split; [exact E|]. split; [exact F'|]. split; [exact IV'|].
    set (sg' := sm_del cmp sg k) in *.
    assert (Sub : forall e, In e sg' -> In e sg) by (intros e; apply (KX In_del)).
    destruct (rel2_not_tmp sg sg') as [Nt Ns]. destruct (jps_facts sg sg') as (JW & JT & _ & JS0).
    destruct (run_db _ sg sg' (remove H cfg m k) _ w _ w'
                (hr_remove H cfg (CDB _ sg sg') JW JT Nt m k (inv'_buf _ _ _ IV)) F E K) as [KP Po].
    { subst s. intros q Rq. apply (proj1 (syncedfor_rel H sg (wfs w)) Y). eapply rel2_sub; eassumption. }
    cbn [fst] in Po. split; [|split; [exact Nv|exact KP]].
    apply syncedfor_rel. intros q Rq. apply Po. now right.
  Qed.

  Theorem remove_range_powerloss' : forall m s sg lo hi w,
    Inv' m s sg -> SyncedFor sg s -> wfs w = s -> wfault w = None ->
    (nonempty (km (idx m)) && range_panics cmp lo hi) = false ->
    let inr := fun e : bytes * bytes => in_range cmp lo hi (fst e) in
    len (enc_op (RRemove (map fst (filter inr sg)))) < 2 ^ 32 -> nextv (mwal m) < 2 ^ 64 ->
    exists m' w',
      remove_range H cfg m lo hi w = ((Ok (N.of_nat (length (filter inr sg))), m'), w') /\
      wfault w' = None /\ Inv' m' (wfs w') (filter (fun e => negb (inr e)) sg) /\
      SyncedFor (filter (fun e => negb (inr e)) sg) (wfs w') /\
      nextv (mwal m') <= nextv (mwal m) + 1 /\
      Walk (PLD (nextv (mwal m) + 1) sg (filter (fun e => negb (inr e)) sg)) w w'.
  Proof.
    intros m s sg lo hi w IV Y Ws F NP inr Lp Lv.
    destruct (DX remove_range_crash' m s sg lo hi w IV Ws F NP Lp Lv)
      as (m' & w' & E & F' & IV' & Nv & K).
    fold inr in E, IV', K. exists m', w'. split; [exact E|]. split; [exact F'|]. split; [exact IV'|].
    set (sg' := filter (fun e => negb (inr e)) sg) in *.
    assert (Sub : forall e, In e sg' -> In e sg) by (intros e Ie; apply filter_In in Ie; tauto).
    destruct (rel2_not_tmp sg sg') as [Nt Ns]. destruct (jps_facts sg sg') as (JW & JT & _ & JS0).
    destruct (run_db _ sg sg' (remove_range H cfg m lo hi) _ w _ w'
                (hr_remove_range H cfg (CDB _ sg sg') JW JT Nt m lo hi (inv'_buf _ _ _ IV)) F E K)
      as [KP Po].
    { subst s. intros q Rq. apply (proj1 (syncedfor_rel H sg (wfs w)) Y). eapply rel2_sub; eassumption. }
    cbn [fst] in Po. split; [|split; [exact Nv|exact KP]].
    apply syncedfor_rel. intros q Rq. apply Po. now right.
  Qed.

  (* ---------------------------------------------------------------- *)
  (* checkpoint, abort, close                                          *)
  (* ---------------------------------------------------------------- *)
  Theorem checkpoint_powerloss' : forall m s sg w,
    Inv' m s sg -> SyncedFor sg s -> wfs w = s -> wfault w = None ->
    exists m' w', checkpoint cfg m w = ((Ok tt, m'), w') /\ wfault w' = None /\
                  Inv' m' (wfs w') sg /\ SyncedFor sg (wfs w') /\
                  nextv (mwal m') = nextv (mwal m) /\
                  Walk (PLB (nextv (mwal m)) sg) w w'.
  Proof.
    intros m s sg w IV Y Ws F.
    destruct (DX checkpoint_crash' m s sg w IV Ws F) as (m' & w' & E & F' & IV' & Nv & K).
    exists m', w'. split; [exact E|]. split; [exact F'|]. split; [exact IV'|].
    destruct (rel_not_tmp H sg) as (Nt & _ & _ & Ns). destruct (jps_facts sg sg) as (JW & JT & _ & JS0).
    destruct (run_b _ sg (checkpoint cfg m) _ w _ w'
                (hr_checkpoint cfg (CB _ sg) JT Nt m) F E K) as [KP Po].
    { subst s. now apply syncedfor_rel. }
    split; [now apply syncedfor_rel|]. split; [exact Nv|exact KP].
  Qed.

  Theorem abort_powerloss' : forall m s sg k chunks w,
    Inv' m s sg -> SyncedFor sg s -> wfs w = s -> wfault w = None ->
    exists w', abort m k chunks w = ((Ok tt, m), w') /\ wfault w' = None /\ Inv' m (wfs w') sg /\
               SyncedFor sg (wfs w') /\ Walk (PLB (nextv (mwal m)) sg) w w'.
  Proof.
    intros m s sg k chunks w IV Y Ws F.
    destruct (DX abort_crash' m s sg k chunks w IV Ws F) as (w' & E & F' & IV' & K).
    exists w'. split; [exact E|]. split; [exact F'|]. split; [exact IV'|].
    destruct (rel_not_tmp H sg) as (Nt & _ & _ & Ns). destruct (jps_facts sg sg) as (JW & JT & _ & JS0).
    destruct (run_b _ sg (abort m k chunks) _ w _ w'
                (hr_abort (CB _ sg) JS0 Ns m k chunks) F E K) as [KP Po].
    { subst s. now apply syncedfor_rel. }
    split; [now apply syncedfor_rel|exact KP].
  Qed.

  Theorem close_powerloss' : forall m s sg w,
    Inv' m s sg -> SyncedFor sg s -> wfs w = s -> wfault w = None ->
    exists w', close m w = (tt, w') /\ wfault w' = None /\ RestB (nextv (mwal m)) (wfs w') sg /\
               SyncedFor sg (wfs w') /\ Walk (PLB (nextv (mwal m)) sg) w w'.
  Proof.
    intros m s sg w IV Y Ws F.
    destruct (DX close_crash' m s sg w IV Ws F) as (w' & E & F' & RB' & K).
    exists w'. split; [exact E|]. split; [exact F'|]. split; [exact RB'|].
    pose proof IV as (L & D & Wf). subst s.
    assert (Y0 : SynOn (Rel sg) (wfs w)) by now apply syncedfor_rel.
    unfold close in E. destruct (lv_wal _ _ _ _ _ L) as [_ Hw].
    destruct (writer (mwal m)) as [[s0 b]|] eqn:Wr.
    - destruct Hw as (-> & G & _).
      destruct (fget (wfs w) (PWal s0)) as [f|] eqn:Gf; [|contradiction].
      destruct (x_writer_close s0 (fdata f) w F Wf) as (w1 & E1 & _ & _).
      { apply fdat_some. now exists f. }
      rewrite (bind_eq _ _ _ _ _ E1) in E. inversion E; subst w1.
      destruct (jps_facts sg sg) as (JW & _).
      destruct (run_b _ sg (writer_close s0 []) _ w _ w'
                  (hr_pre (CB _ sg) _ _ _ _
                     (fun x (Yx : SynOn (Rel sg) x) =>
                        conj (rx_weak (CB (nextv (mwal m)) sg) (PWal s0) x Yx)
                             (fun (N0 : @nil N <> []) => Yx))
                     (hr_writer_close (CB _ sg) JW s0 [])) F E1 K Y0) as [KP Po].
      cbv beta iota in Po. split; [now apply syncedfor_rel|exact KP].
    - inversion E; subst w'. split; [now apply syncedfor_rel|].
      apply walk_refl; [exact F|]. apply stab_plb; [exact (walk_start _ _ _ K)|exact Y0].
  Qed.

  (* ---------------------------------------------------------------- *)
  (* put                                                               *)
  (* ---------------------------------------------------------------- *)
  (* the staging part of put, once more call by call (cf. a_put_stage of CrashOps.v), now with
     the sync status: the staged blob is synced BEFORE it is renamed into cas/ -- also when it
     replaces the blob of a content that is already stored -- so that at the end the blobs of
     the new map are synced, too *)
  Lemma s_put_stage : forall m s sg k chunks w c0 nv sb,
    Live0 m s sg -> wfs w = s -> wfault w = None ->
    RestP c0 nv sb (mpre m) sg s -> SynOn (Rel sg) s ->
    NoCollide (concat chunks :: map snd sg) ->
    let c := concat chunks in
    let sg' := sm_ins cmp sg k c in
    exists w5,
      put H cfg m k chunks w = log_and_apply H cfg m (RPut k (H c) (len c)) w5 /\
      wfault w5 = None /\
      RestP c0 nv sb (mpre m) sg (wfs w5) /\ cas_has sg' (wfs w5) /\
      (forall i, fdat (wfs w5) (PWal i) = fdat (wfs w) (PWal i)) /\
      SynOn (Rel2 sg sg') (wfs w5) /\
      Walk (fun x => RestP c0 nv sb (mpre m) sg x /\ SynOn (Rel sg) x) w w5.
  Proof.
    intros m s sg k chunks w c0 nv sb L Ws F R Y0 NC c sg'. subst s.
    pose proof L as [Ssg Hkm Hidx Hnc Hcas Hst Hdirs Hwal]. destruct Hdirs as (D1 & D2 & D3).
    unfold put. cbv zeta. fold c. fold c in NC. subst sg'. clearbody c.
    set (h := H c). set (p := PStaging (nstage (wfs w))). set (q := cas_path h).
    set (RP := RestP c0 nv sb (mpre m) sg).
    set (SP := fun x => RP x /\ SynOn (Rel sg) x).
    pose proof R as [(Wf & Sf & _) _].
    assert (Np : ~ Rel sg p) by apply (proj2 (proj2 (proj2 (rel_not_tmp H sg)))).
    (* A. the staging file *)
    set (s1 := mkFs (set_path (files (wfs w)) p (mkFile [] 0)) (dirs (wfs w)) (nstage (wfs w) + 1)).
    set (w1 := mkWorld s1 (TCall (CCreateExcl p) :: wtrace w) (S (wcount w)) None).
    assert (Ea : apply_call (CCreateExcl p) (wfs w) = Ok s1).
    { unfold p. cbn [apply_call]. unfold parent_ok. cbn [parent_dir]. rewrite D1.
      rewrite (Hst (nstage (wfs w))) by lia. reflexivity. }
    assert (Ed : do_call (CCreateExcl p) w = (Ok tt, w1)) by exact (do_call_ok _ _ _ F Ea).
    assert (EA : new_staging w = (Ok p, w1)).
    { unfold new_staging. unfold bind at 1, get_fs at 1. fold p.
      rewrite (bind_eq _ _ _ _ _ Ed). reflexivity. }
    rewrite (bind_eq _ _ _ _ _ EA).
    destruct (apply_call_view _ _ _ Wf Ea) as (Wf1 & Di1 & _ & _ & _ & V1).
    assert (R1 : RP (wfs w1)).
    { cbn [wfs w1]. eapply (restp_agree H cfg); [exact R|exact Wf1| |exact Di1| |].
      - intros i Li. cbn [s1 nstage] in Li. rewrite V1, vset_other; [apply Sf; lia|].
        unfold p. intros X. inversion X. lia.
      - split; [|split]; intros; rewrite V1; apply vset_other; discriminate.
      - intros k0 c1 _. rewrite V1. apply vset_other. discriminate. }
    assert (Y1 : SynOn (Rel sg) (wfs w1)).
    { cbn [wfs w1]. eapply synon_mono; [|exact Wf|exact Ea|exact Y0]. exact I. }
    assert (K1 : Walk SP w w1) by (eapply walk_call; [exact F|exact Ed|now split|now split]).
    assert (G1 : forall r, fget s1 r = if path_eqb r p then Some (mkFile [] 0) else fget (wfs w) r).
    { intros r. unfold fget, s1. cbn [files]. apply lookup_set_path. }
    (* B. the content *)
    assert (PB : exists w2 f2, (match c with [] => ret (Ok tt) | _ => do_call (CAppend p c) end) w1
                   = (Ok tt, w2) /\ Step (eq p) (ev_on (eq p)) w1 w2 /\
                   fget (wfs w2) p = Some f2 /\ fdata f2 = c /\ FsWf (wfs w2) /\ Walk SP w1 w2).
    { destruct c as [|x c].
      - exists w1, (mkFile [] 0). split; [reflexivity|]. split; [now apply step_refl|].
        split; [cbn [wfs w1]; now rewrite G1, path_eqb_refl|]. split; [reflexivity|].
        split; [exact Wf1|]. apply walk_refl; [reflexivity|now split].
      - destruct (call_append (eq p) w1 p (mkFile [] 0) (x :: c) eq_refl eq_refl)
          as (w2 & E2 & W2 & S2).
        { cbn [wfs w1]. now rewrite G1, path_eqb_refl. }
        pose proof (do_call_ok_apply _ _ _ _ E2) as Ea2.
        exists w2, (mkFile ([] ++ x :: c) 0). split; [exact E2|]. split; [exact S2|].
        split; [rewrite W2; apply fget_upd_same|]. split; [reflexivity|].
        split; [eapply apply_call_wf; [exact Ea2|exact Wf1]|].
        eapply walk_call; [reflexivity|exact E2|now split|]. split.
        + eapply (restp_keeps H cfg); [|exact R1|exact Ea2]. right. exact I.
        + intros r Rr. apply (syn_call _ _ _ r Wf1 Ea2).
          split; [intros X; apply Np; now rewrite <- X|now apply Y1]. }
    destruct PB as (w2 & f2 & E2 & S2 & G2 & Df2 & Wf2 & K2). rewrite (bind_eq _ _ _ _ _ E2).
    (* C. the sync -- Sync mode *)
    rewrite sync_on.
    destruct (call_sync (eq p) w2 p f2 (st_fault _ _ _ _ S2) eq_refl G2) as (w3 & E3 & W3 & S3).
    rewrite (bind_eq _ _ _ _ _ E3).
    pose proof (do_call_ok_apply _ _ _ _ E3) as Ea3.
    set (f3 := mkFile (fdata f2) (length (fdata f2))).
    assert (G3 : fget (wfs w3) p = Some f3) by (rewrite W3; apply fget_upd_same).
    pose proof (walk_end _ _ _ K2) as [R2 Y2].
    assert (Wf3 : FsWf (wfs w3)) by (eapply apply_call_wf; eassumption).
    assert (Y3 : SynOn (Rel sg) (wfs w3))
      by (eapply synon_mono; [|exact Wf2|exact Ea3|exact Y2]; exact I).
    assert (R3 : RP (wfs w3)) by (eapply (restp_keeps H cfg); [|exact R2|exact Ea3]; exact I).
    assert (K3 : Walk SP w2 w3)
      by (eapply walk_call; [exact (st_fault _ _ _ _ S2)|exact E3|now split|now split]).
    pose proof (step_trans _ _ _ _ _ S2 S3) as S13.
    assert (Dirs3 : dirs (wfs w3) = dirs (wfs w)).
    { now rewrite (fr_dirs _ _ _ (st_frame _ _ _ _ S13)). }
    destruct (hexpath_shape h (H_len c) (H_byte c)) as (xa & xb & xc & Hp & _).
    assert (Kmk : forall d, call_keeps SP (CMkdir d)).
    { intros d x x' [Rx Yx] Ex. split; [eapply (restp_keeps H cfg); [|exact Rx|exact Ex]; exact I|].
      destruct Rx as [(Wx & _) _]. eapply synon_mono; [|exact Wx|exact Ex|exact Yx]. exact I. }
    assert (PD : exists w4, (if mpre m then ret (Ok tt)
                             else mkdir_cas2 (nth 0 (hexpath h) []) (nth 1 (hexpath h) [])) w3
                   = (Ok tt, w4) /\ Grow w3 w4 /\ parent_ok (wfs w4) q = true /\ Walk SP w3 w4).
    { destruct (mpre m) eqn:Pre.
      - exists w3. split; [reflexivity|]. split; [apply grow_refl, S3|].
        split; [|apply walk_refl; [exact (st_fault _ _ _ _ S3)|now split]].
        specialize (D3 eq_refl h (H_len c) (H_byte c)). fold q in D3. unfold parent_ok, has_dir in *.
        now rewrite Dirs3.
      - destruct (mkdir_cas2_ok (nth 0 (hexpath h) []) (nth 1 (hexpath h) []) w3
                    (st_fault _ _ _ _ S3)) as (w4 & E4 & G4 & D4).
        { unfold has_dir in *. now rewrite Dirs3. }
        exists w4. split; [exact E4|]. split; [exact G4|]. split.
        + unfold parent_ok, q, cas_path. cbn [parent_dir]. rewrite Hp in *.
          cbn [removelast nth] in *. exact D4.
        + pose proof (walkm_mkdir_cas2 SP (nth 0 (hexpath h) []) (nth 1 (hexpath h) []) Kmk w3
                        (st_fault _ _ _ _ S3) (conj R3 Y3)) as Wm.
          now rewrite E4 in Wm. }
    destruct PD as (w4 & E4 & G4 & PO4 & K4). rewrite (bind_eq _ _ _ _ _ E4).
    assert (G4p : fget (wfs w4) p = Some f3) by now rewrite (grow_fget _ _ _ G4).
    pose proof (walk_end _ _ _ K4) as [R4 Y4]. pose proof R4 as [(Wf4 & Sf4 & _ & Ca4) _].
    destruct (x_rename w4 p q c (proj1 (gr_ext _ _ G4)) Wf4) as (w5 & E5 & X5 & V5).
    { apply fdat_some. now exists f3. }
    { exact PO4. }
    rewrite (bind_eq _ _ _ _ _ E5). exists w5. split; [reflexivity|].
    pose proof X5 as (F5 & Wf5 & Dd5 & Ns5).
    pose proof (do_call_ok_apply _ _ _ _ E5) as Ea5.
    assert (Cag : forall k0 c1, In (k0, c1) sg ->
              fdat (wfs w5) (cas_path (H c1)) = fdat (wfs w4) (cas_path (H c1))).
    { intros k0 c1 Ik. rewrite V5. unfold vset at 1.
      destruct (path_eqb_spec (cas_path (H c1)) q) as [Eq|Nq].
      - apply (cas_path_inj H H_len H_byte) in Eq.
        assert (c1 = c).
        { apply NC; [right; apply in_map_iff; now exists (k0, c1)|now left|exact Eq]. }
        subst c1. symmetry. now apply (Ca4 k0).
      - apply vset_other. discriminate. }
    assert (R5 : RP (wfs w5)).
    { eapply (restp_agree H cfg); [exact R4|exact Wf5| | | |exact Cag].
      - intros i Li. rewrite Ns5 in Li. rewrite V5, vset_other by discriminate.
        unfold vset. destruct (path_eqb (PStaging i) p); [reflexivity|now apply Sf4].
      - intros d. now rewrite Dd5.
      - split; [|split]; intros; rewrite V5, !vset_other; try reflexivity; discriminate. }
    (* the renamed file is the synced staging file *)
    assert (Sp4 : syn (wfs w4) p).
    { intros f G. rewrite G4p in G. inversion G. reflexivity. }
    assert (Y5 : forall r, Rel sg r \/ r = q -> syn (wfs w5) r).
    { intros r Rr. apply (syn_call _ _ _ r Wf4 Ea5).
      destruct (path_eqb_spec r q) as [->|Nq]; [exact Sp4|]. right.
      destruct Rr as [Rr|Rr]; [now apply Y4|contradiction]. }
    split; [exact F5|]. split; [exact R5|]. split; [|split; [|split]].
    - intros k' c' Ik. apply (KX In_ins) in Ik. destruct Ik as [Ik|Ik].
      + inversion Ik; subst k' c'. fold h q. rewrite V5. apply vset_same.
      + rewrite (Cag k' c' Ik). now apply (Ca4 k').
    - intros i. rewrite V5, !vset_other by discriminate.
      unfold fdat. rewrite (grow_fget _ _ _ G4).
      destruct (fr_get _ _ _ (st_frame _ _ _ _ S13) (PWal i)) as [X|X]; [discriminate|].
      rewrite X. cbn [wfs w1]. rewrite G1. reflexivity.
    - intros r [Rr|Rr]; [apply Y5; now left|].
      destruct Rr as [X|[X|[X|(k' & c' & Ik & X)]]];
        [apply Y5; left; now left|apply Y5; left; right; now left|
         apply Y5; left; right; right; now left|].
      apply (KX In_ins) in Ik. destruct Ik as [Ik|Ik].
      + inversion Ik; subst k' c'. apply Y5. now right.
      + apply Y5. left. right; right; right. now exists k', c'.
    - eapply walk_trans; [exact K1|]. eapply walk_trans; [exact K2|].
      eapply walk_trans; [exact K3|]. eapply walk_trans; [exact K4|].
      eapply walk_call; [exact (proj1 (gr_ext _ _ G4))|exact E5|now split|].
      split; [exact R5|]. intros r Rr. apply Y5. now left.
  Qed.

  Theorem put_powerloss' : forall m s sg k chunks w,
    Inv' m s sg -> SyncedFor sg s -> wfs w = s -> wfault w = None ->
    NoCollide (concat chunks :: map snd sg) ->
    len k + 45 < 2 ^ 32 -> key_valid (c_kt cfg) k = true -> len (concat chunks) < 2 ^ 64 ->
    N.of_nat (length sg) + 1 < 2 ^ 32 -> nextv (mwal m) < 2 ^ 64 ->
    exists m' w', put H cfg m k chunks w = ((Ok tt, m'), w') /\ wfault w' = None /\
                  Inv' m' (wfs w') (sm_ins cmp sg k (concat chunks)) /\
                  SyncedFor (sm_ins cmp sg k (concat chunks)) (wfs w') /\
                  nextv (mwal m') = nextv (mwal m) + 1 /\
                  Walk (PLD (nextv (mwal m) + 1) sg (sm_ins cmp sg k (concat chunks))) w w'.
  Proof.
    intros m s sg k chunks w IV Y Ws F NC Lk Vk Lc Ln Lv. pose proof IV as (L & D & Wf).
    destruct (put_spec H H_len H_byte cfg n_pos m s sg k chunks w L Ws F NC)
      as (m' & w' & E & F' & P).
    pose proof (inv'_restp H cfg m s sg IV) as R.
    assert (Y0 : SynOn (Rel sg) s) by now apply syncedfor_rel.
    destruct (s_put_stage m s sg k chunks w _ _ _ L Ws F R Y0 NC)
      as (w5 & E5 & F5 & R5 & C5 & Wl5 & Y5 & K5).
    cbv zeta in E5, C5, Y5. set (c := concat chunks) in *. set (sg' := sm_ins cmp sg k c) in *.
    pose proof L as [Ssg Hkm Hidx Hnc _ _ _ Hwal]. subst s.
    assert (Nc' : NoCollide (map snd sg')).
    { eapply (NoCollide_incl H); [|exact NC]. intros x Ix. apply in_map_iff in Ix.
      destruct Ix as ([k' c'] & <- & Ik). apply (KX In_ins) in Ik. destruct Ik as [Ik|Ik].
      + inversion Ik. now left.
      + right. apply in_map_iff. now exists (k', c'). }
    destruct (DX a_log_and_apply m sg sg' (RPut k (H c) (len c)) w5 F5 R5 C5)
      as (m2 & w2 & E2 & F2 & R2 & N2 & P2 & K2); try assumption.
    - destruct Hwal as [N1 Hw]. split; [exact N1|].
      destruct (writer (mwal m)) as [[sgm buf]|]; [|exact I].
      destruct Hw as (B & G & Hw). split; [exact B|]. split; [|exact Hw].
      intros X. apply G. apply fdat_none. rewrite <- Wl5. now apply fdat_none.
    - intros k' i Ik Eh. rewrite Hkm in Ik. apply (In_km_of H) in Ik. destruct Ik as (c' & Ic & ->).
      cbn [StoreInv.item_of ihash isize] in *.
      assert (c' = c); [|now subst].
      apply NC; [right; apply in_map_iff; now exists (k', c')|now left|exact Eh].
    - apply (KX sorted_ins), Ssg.
    - unfold sg'. rewrite (km_of_ins H cfg). cbn [km_expected]. now rewrite Hkm.
    - destruct D as (ids & rf & sf & km_c & ops & Dw).
      destruct (dw_sg _ _ _ _ _ _ _ _ _ _ _ _ _ Dw) as [Ln0 Fa0].
      split.
      + pose proof (DX length_sm_ins_le sg k c) as Hl. fold cmp sg' in Hl. lia.
      + apply Forall_forall. intros e Ie. apply (KX In_ins) in Ie. destruct Ie as [->|Ie].
        * cbn [fst snd]. auto.
        * rewrite Forall_forall in Fa0. now apply Fa0.
    - split.
      + cbn [op_fits]. unfold key_fits, hash_ok. split; [lia|]. split; [apply H_len|exact Lc].
      + cbn [op_keys]. constructor; [exact Vk|constructor].
    - rewrite (DX len_enc_put) by apply H_len. exact Lk.
    - rewrite E5, E2 in E. inversion E; subst m2 w2.
      destruct (rel2_not_tmp sg sg') as [Nt Ns]. destruct (jps_facts sg sg') as (JW & JT & _).
      destruct (run_db _ sg sg' (log_and_apply H cfg m (RPut k (H c) (len c))) _ w5 _ w'
                  (hr_log_and_apply H cfg (CDB _ sg sg') JW JT m _ Nt (inv'_buf _ _ _ IV)) F5 E2 K2 Y5)
        as [KP Po].
      cbn [fst] in Po.
      exists m', w'. split; [rewrite E5; exact E2|]. split; [exact F'|]. split; [|split; [|split; [exact N2|]]].
      + apply (restp_inv' H cfg); [exact (proj1 (proj2 P))|exact R2].
      + apply syncedfor_rel. intros q Rq. apply Po. now right.
      + eapply walk_trans; [|exact KP]. eapply walk_weaken; [|exact K5]. intros x [Rx Yx].
        apply stab_pld_l; [|exact Yx]. eapply (DX restp_to_restb); try eassumption. lia.
  Qed.

  (* ---------------------------------------------------------------- *)
  (* L2 in the form of the task statement: Along, from Inv' (or Inv)    *)
  (* ---------------------------------------------------------------- *)
  Definition PL2 (sg sg' : smap bytes) (x : fs) : Prop :=
    forall victims, Rest (lose victims x) sg \/ Rest (lose victims x) sg'.
  Definition PL1 (sg : smap bytes) (x : fs) : Prop := forall victims, Rest (lose victims x) sg.

  Theorem put_powerloss : forall m s sg k chunks w,
    Inv' m s sg -> SyncedFor sg s -> wfs w = s -> wfault w = None ->
    NoCollide (concat chunks :: map snd sg) ->
    len k + 45 < 2 ^ 32 -> key_valid (c_kt cfg) k = true -> len (concat chunks) < 2 ^ 64 ->
    N.of_nat (length sg) + 1 < 2 ^ 32 -> nextv (mwal m) < 2 ^ 64 ->
    exists m' w', put H cfg m k chunks w = ((Ok tt, m'), w') /\
      Along (PL2 sg (sm_ins cmp sg k (concat chunks))) w w'.
  Proof.
    intros m s sg k chunks w IV Y Ws F NC Lk Vk Lc Ln Lv.
    destruct (put_powerloss' m s sg k chunks w IV Y Ws F NC Lk Vk Lc Ln Lv)
      as (m' & w' & E & _ & _ & _ & _ & K).
    exists m', w'. split; [exact E|].
    eapply along_weaken; [|exact (walk_along _ _ _ K)]. intros x Px. exact (pld_rest _ _ _ _ Px).
  Qed.

  Theorem remove_powerloss : forall m s sg k w,
    Inv' m s sg -> SyncedFor sg s -> wfs w = s -> wfault w = None -> nextv (mwal m) < 2 ^ 64 ->
    exists r m' w', remove H cfg m k w = ((Ok r, m'), w') /\
      Along (PL2 sg (sm_del cmp sg k)) w w'.
  Proof.
    intros m s sg k w IV Y Ws F Lv.
    destruct (remove_powerloss' m s sg k w IV Y Ws F Lv) as (m' & w' & E & _ & _ & _ & _ & K).
    eexists _, m', w'. split; [exact E|].
    eapply along_weaken; [|exact (walk_along _ _ _ K)]. intros x Px. exact (pld_rest _ _ _ _ Px).
  Qed.

  Theorem remove_range_powerloss : forall m s sg lo hi w,
    Inv' m s sg -> SyncedFor sg s -> wfs w = s -> wfault w = None ->
    (nonempty (km (idx m)) && range_panics cmp lo hi) = false ->
    let inr := fun e : bytes * bytes => in_range cmp lo hi (fst e) in
    len (enc_op (RRemove (map fst (filter inr sg)))) < 2 ^ 32 -> nextv (mwal m) < 2 ^ 64 ->
    exists r m' w', remove_range H cfg m lo hi w = ((Ok r, m'), w') /\
      Along (PL2 sg (filter (fun e => negb (inr e)) sg)) w w'.
  Proof.
    intros m s sg lo hi w IV Y Ws F NP inr Lp Lv.
    destruct (remove_range_powerloss' m s sg lo hi w IV Y Ws F NP Lp Lv)
      as (m' & w' & E & _ & _ & _ & _ & K).
    eexists _, m', w'. split; [exact E|].
    eapply along_weaken; [|exact (walk_along _ _ _ K)]. intros x Px. exact (pld_rest _ _ _ _ Px).
  Qed.

  Theorem checkpoint_powerloss : forall m s sg w,
    Inv' m s sg -> SyncedFor sg s -> wfs w = s -> wfault w = None ->
    exists m' w', checkpoint cfg m w = ((Ok tt, m'), w') /\ Along (PL1 sg) w w'.
  Proof.
    intros m s sg w IV Y Ws F.
    destruct (checkpoint_powerloss' m s sg w IV Y Ws F) as (m' & w' & E & _ & _ & _ & _ & K).
    exists m', w'. split; [exact E|].
    eapply along_weaken; [|exact (walk_along _ _ _ K)]. intros x Px. exact (plb_rest _ _ _ Px).
  Qed.

  Theorem abort_powerloss : forall m s sg k chunks w,
    Inv' m s sg -> SyncedFor sg s -> wfs w = s -> wfault w = None ->
    exists w', abort m k chunks w = ((Ok tt, m), w') /\ Along (PL1 sg) w w'.
  Proof.
    intros m s sg k chunks w IV Y Ws F.
    destruct (abort_powerloss' m s sg k chunks w IV Y Ws F) as (w' & E & _ & _ & _ & K).
    exists w'. split; [exact E|].
    eapply along_weaken; [|exact (walk_along _ _ _ K)]. intros x Px. exact (plb_rest _ _ _ Px).
  Qed.

  Theorem close_powerloss : forall m s sg w,
    Inv' m s sg -> SyncedFor sg s -> wfs w = s -> wfault w = None ->
    exists w', close m w = (tt, w') /\ Along (PL1 sg) w w'.
  Proof.
    intros m s sg w IV Y Ws F.
    destruct (close_powerloss' m s sg w IV Y Ws F) as (w' & E & _ & _ & _ & K).
    exists w'. split; [exact E|].
    eapply along_weaken; [|exact (walk_along _ _ _ K)]. intros x Px. exact (plb_rest _ _ _ Px).
  Qed.
End PowerOps.

Print Assumptions put_powerloss'.
Print Assumptions put_powerloss.
Print Assumptions remove_powerloss.
Print Assumptions remove_range_powerloss.
Print Assumptions checkpoint_powerloss.
Print Assumptions abort_powerloss.
Print Assumptions close_powerloss.
