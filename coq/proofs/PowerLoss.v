(* PowerLoss.v -- power-loss durability in Sync mode (property C09), part 1: the model of power
   loss ([lose] of theories/FS.v), the sync-aware invariant RestS, the key lemma lose_rest,
   and a relative program logic for "every intermediate filesystem survives power loss".

   A   [syn x p]: the file at p (if any) is entirely covered by its last sync;
       [SyncedFor sg x]: the files recovery relies upon -- settings, snapshot, every segment,
       the blob of every content of sg -- are synced;  RestS x sg := Rest x sg /\ SyncedFor sg x.
       lose_rest : RestS x sg -> forall victims, Rest (lose victims x) sg   (and RestS again).
   B   the two facts everything rests on, for any predicate P that only looks at the data of a
       set R of paths ([Closed R P]):
         lose_closed    P x, R synced in x                  ==> P (lose v x) for every v
         lose_inflight  P x0, R synced in x0, x = x0 + one append (to any file), P x
                                                              ==> P (lose v x) for every v
       (the unsynced bytes can only be the ones of that single append: losing them gives the
       data of x0, keeping them the data of x).
   C   a Hoare-style logic [HR] RELATIVE to a crash-atomicity result: given that every
       intermediate filesystem of a run satisfies P0 (the theorems of CrashOps.v/CrashOpen.v),
       it remains to follow the sync status of the files through the program; the rules are
       about sync status only.  The walked predicate [PLs]: P0 holds after power loss with every
       victim set, and a property J of single states (used for: the relevant files other than
       segments are synced and no segment is marked synced beyond its end -- so that a power
       loss that hits all segment files leads back into RestS).  Triples for all building
       blocks of the store. *)
From Cas Require Import History.
From CasProofs Require Import BaseProofs CodecBase CodecProofs SMapProofs IndexProofs
  StoreFS StoreInv StoreWrite StoreRead StoreHist DiskInv Recover CrashInv CrashOps.
From Coq Require Import ZifyBool ZifyNat ZifyN.
Open Scope N_scope.

Arguments N.add : simpl never.
Arguments N.sub : simpl never.
Arguments N.mul : simpl never.
Arguments N.div : simpl never.
Arguments N.modulo : simpl never.
Arguments N.eqb : simpl never.
Arguments N.ltb : simpl never.
Arguments N.leb : simpl never.
Arguments N.pow : simpl never.
Arguments N.max : simpl never.

(* ------------------------------------------------------------------ *)
(* P1. lose                                                            *)
(* ------------------------------------------------------------------ *)
Definition lost (v : path -> bool) (p : path) (f : file) : file :=
  if v p then mkFile (firstn (fsynced f) (fdata f)) (fsynced f) else f.

Lemma lookup_lose : forall (v : path -> bool) l p,
  lookup (map (fun pf : path * file =>
                 if v (fst pf)
                 then (fst pf, mkFile (firstn (fsynced (snd pf)) (fdata (snd pf))) (fsynced (snd pf)))
                 else pf) l) p
  = option_map (lost v p) (lookup l p).
Proof.
  intros v. induction l as [|[q f] l IH]; intros p; cbn [map lookup fst snd]; [reflexivity|].
  destruct (v q) eqn:Vq; cbn [lookup];
    (destruct (path_eqb_spec p q) as [->|N]; [|apply IH]); cbn [option_map]; unfold lost;
    now rewrite Vq.
Qed.

Lemma fget_lose : forall v x p, fget (lose v x) p = option_map (lost v p) (fget x p).
Proof. intros v x p. unfold fget, lose. cbn [with_files files]. apply lookup_lose. Qed.

Lemma paths_lose : forall v x, paths (files (lose v x)) = paths (files x).
Proof.
  intros v x. unfold lose, paths. cbn [with_files files]. rewrite map_map. apply map_ext.
  intros [q f]. cbn [fst snd]. now destruct (v q).
Qed.

Lemma lose_wf : forall v x, FsWf x -> FsWf (lose v x).
Proof. intros v x W. unfold FsWf. now rewrite paths_lose. Qed.

Lemma lose_dirs : forall v x, dirs (lose v x) = dirs x.
Proof. reflexivity. Qed.

Lemma lose_nstage : forall v x, nstage (lose v x) = nstage x.
Proof. reflexivity. Qed.

(* the file at p, if there is one, is entirely covered by its last sync *)
Definition syn (x : fs) (p : path) : Prop :=
  forall f, fget x p = Some f -> fsynced f = length (fdata f).
Definition SynOn (S : path -> Prop) (x : fs) : Prop := forall q, S q -> syn x q.

Lemma lose_fdat_syn : forall v x p, syn x p -> fdat (lose v x) p = fdat x p.
Proof.
  intros v x p S. unfold fdat. rewrite fget_lose. destruct (fget x p) as [f|] eqn:G; [|reflexivity].
  cbn [option_map]. unfold lost. destruct (v p); [|reflexivity]. cbn [fdata].
  now rewrite (S f G), firstn_all.
Qed.

Lemma lose_fdat_keep : forall v x p, v p = false -> fdat (lose v x) p = fdat x p.
Proof.
  intros v x p E. unfold fdat. rewrite fget_lose. destruct (fget x p) as [f|]; [|reflexivity].
  cbn [option_map]. unfold lost. now rewrite E.
Qed.

Lemma lose_fdat_victim : forall v x p f, v p = true -> fget x p = Some f ->
  fdat (lose v x) p = Some (firstn (fsynced f) (fdata f)).
Proof.
  intros v x p f E G. unfold fdat. rewrite fget_lose, G. cbn [option_map]. unfold lost.
  now rewrite E.
Qed.

Lemma lose_fdat_none : forall v x p, fdat x p = None -> fdat (lose v x) p = None.
Proof.
  intros v x p G. apply fdat_none in G. apply fdat_none. now rewrite fget_lose, G.
Qed.

Lemma lose_syn : forall v x p, syn x p -> syn (lose v x) p.
Proof.
  intros v x p S f G. rewrite fget_lose in G. destruct (fget x p) as [g|] eqn:Gg; [|discriminate].
  cbn [option_map] in G. inversion G; subst f. unfold lost. destruct (v p); [|now apply S].
  cbn [fsynced fdata]. now rewrite (S g Gg), firstn_all.
Qed.

Lemma synon_weaken : forall (S S' : path -> Prop) x, (forall q, S' q -> S q) ->
  SynOn S x -> SynOn S' x.
Proof. intros S S' x I0 Y q Sq. apply Y, I0, Sq. Qed.

(* ------------------------------------------------------------------ *)
(* P2. sync status after a call                                        *)
(* ------------------------------------------------------------------ *)
Lemma syn_call : forall c x x' r, FsWf x -> apply_call c x = Ok x' ->
  match c with
  | CAppend p _ => r <> p /\ syn x r
  | CRename p q => if path_eqb r q then syn x p else (r = p \/ syn x r)
  | CSync p => r = p \/ syn x r
  | _ => syn x r
  end -> syn x' r.
Proof.
  intros c x x' r W E Hc. destruct c; cbn [apply_call] in E.
  - destruct (has_dir x d); [discriminate|].
    assert (X : x' = mkFs (files x) (dirs x ++ [d]) (nstage x)).
    { destruct (removelast d); [|destruct (has_dir x _)]; inversion E; reflexivity. }
    subst x'. exact Hc.
  - destruct (parent_ok x p); inversion E; subst x'. intros f G.
    change (fget (upd x p (mkFile [] 0)) r = Some f) in G. rewrite fget_upd in G.
    destruct (path_eqb r p); [inversion G; reflexivity|now apply Hc].
  - destruct (parent_ok x p); [|discriminate]. destruct (fget x p) eqn:Gp; inversion E; subst x'.
    intros f G. unfold fget in G. cbn [files] in G. rewrite lookup_set_path in G.
    destruct (path_eqb r p); [inversion G; reflexivity|now apply Hc].
  - destruct (parent_ok x p); [|discriminate]. destruct (fget x p) eqn:Gp; inversion E; subst x'.
    + exact Hc.
    + intros f G. change (fget (upd x p (mkFile [] 0)) r = Some f) in G. rewrite fget_upd in G.
      destruct (path_eqb r p); [inversion G; reflexivity|now apply Hc].
  - destruct (fget x p) as [g|] eqn:Gp; inversion E; subst x'. destruct Hc as [N S].
    intros f G. change (fget (upd x p (mkFile (fdata g ++ b) (fsynced g))) r = Some f) in G.
    rewrite fget_upd_other in G by exact N. now apply S.
  - destruct (fget x p) as [g|] eqn:Gp; inversion E; subst x'. intros f G.
    change (fget (upd x p (mkFile (fdata g) (length (fdata g)))) r = Some f) in G.
    rewrite fget_upd in G. destruct (path_eqb_spec r p) as [->|N].
    + inversion G. reflexivity.
    + destruct Hc as [X|S]; [contradiction|now apply S].
  - destruct (fget x p) as [g|] eqn:Gp; [|discriminate].
    destruct (parent_ok x q); inversion E; subst x'. intros f G.
    change (fget (ren x p q g) r = Some f) in G. rewrite fget_ren in G.
    destruct (path_eqb r q).
    + inversion G; subst f. now apply Hc.
    + destruct (path_eqb_spec r p) as [->|N].
      * rewrite fget_del_same in G by exact W. discriminate.
      * rewrite fget_del_other in G by exact N. destruct Hc as [X|S]; [contradiction|now apply S].
  - destruct (fget x p) as [g|] eqn:Gp; inversion E; subst x'. intros f G.
    change (fget (del x p) r = Some f) in G. destruct (path_eqb_spec r p) as [->|N].
    + rewrite fget_del_same in G by exact W. discriminate.
    + rewrite fget_del_other in G by exact N. now apply Hc.
Qed.

(* calls that never make a synced file unsynced *)
Definition mono_call (c : call) : Prop :=
  match c with CAppend _ _ | CRename _ _ => False | _ => True end.

Lemma syn_mono : forall c x x' r, mono_call c -> FsWf x -> apply_call c x = Ok x' ->
  syn x r -> syn x' r.
Proof.
  intros c x x' r M W E S. apply (syn_call c x x' r W E).
  destruct c; try exact S; try contradiction. now right.
Qed.

Lemma synon_mono : forall c S x x', mono_call c -> FsWf x -> apply_call c x = Ok x' ->
  SynOn S x -> SynOn S x'.
Proof. intros c S x x' M W E Y q Sq. eapply syn_mono; eauto. Qed.

(* ------------------------------------------------------------------ *)
(* P3. predicates that only look at the data of a set of paths         *)
(* ------------------------------------------------------------------ *)
Definition Closed (R : path -> Prop) (P : fs -> Prop) : Prop :=
  forall x y, P x -> FsWf y -> nstage y = nstage x ->
    (forall d, In d (dirs x) -> In d (dirs y)) ->
    (forall i, fdat x (PStaging i) = None -> fdat y (PStaging i) = None) ->
    (forall q, R q -> fdat y q = fdat x q) -> P y.

Lemma closed_mono : forall (R R' : path -> Prop) P, (forall q, R q -> R' q) ->
  Closed R P -> Closed R' P.
Proof. intros R R' P I0 C x y Px W N D St A. apply (C x y); auto. Qed.

Lemma closed_or : forall R (P Q : fs -> Prop), Closed R P -> Closed R Q ->
  Closed R (fun x => P x \/ Q x).
Proof.
  intros R P Q CP CQ x y [Px|Qx] W N D St A; [left; eapply CP|right; eapply CQ]; eauto.
Qed.

(* all of R synced: power loss changes nothing P looks at *)
Lemma lose_closed : forall R (P : fs -> Prop) x, Closed R P -> FsWf x -> P x -> SynOn R x ->
  forall v, P (lose v x).
Proof.
  intros R P x C W Px Y v. apply (C x (lose v x) Px).
  - now apply lose_wf.
  - reflexivity.
  - auto.
  - intros i. apply lose_fdat_none.
  - intros q Rq. apply lose_fdat_syn, Y, Rq.
Qed.

(* one append in flight on top of a fully synced state: losing the appended bytes gives the
   data of the state before, keeping them the data of the state after *)
Lemma lose_inflight : forall R (P : fs -> Prop) x0 x' p b, Closed R P ->
  FsWf x0 -> FsWf x' -> P x0 -> SynOn R x0 -> apply_call (CAppend p b) x0 = Ok x' -> P x' ->
  forall v, P (lose v x').
Proof.
  intros R P x0 x' p b C W0 W' P0 Y E P' v. cbn [apply_call] in E.
  destruct (fget x0 p) as [g|] eqn:Gp; [|discriminate].
  assert (E' : upd x0 p (mkFile (fdata g ++ b) (fsynced g)) = x') by (unfold upd; congruence).
  clear E.
  assert (Go : forall q, q <> p -> fget x' q = fget x0 q).
  { intros q N. rewrite <- E'. now apply (fget_upd_other x0 p). }
  assert (Gs : fget x' p = Some (mkFile (fdata g ++ b) (fsynced g))).
  { rewrite <- E'. apply (fget_upd_same x0 p). }
  assert (Meta : nstage x' = nstage x0 /\ dirs x' = dirs x0) by (rewrite <- E'; now split).
  destruct Meta as [Ns Dd].
  assert (SO : forall q, R q -> q <> p -> syn x' q).
  { intros q Rq N f G. rewrite Go in G by exact N. now apply (Y q Rq). }
  destruct (v p) eqn:Vp.
  - apply (C x0 (lose v x') P0).
    + now apply lose_wf.
    + exact Ns.
    + intros d. change (dirs (lose v x')) with (dirs x'). rewrite Dd. auto.
    + intros i G. apply lose_fdat_none. apply fdat_none. apply fdat_none in G.
      destruct (path_eqb_spec (PStaging i) p) as [X|N]; [rewrite X in G; congruence|].
      now rewrite Go.
    + intros q Rq. destruct (path_eqb_spec q p) as [->|N].
      * rewrite (lose_fdat_victim v x' p _ Vp Gs). cbn [fsynced fdata].
        rewrite (Y p Rq g Gp), firstn_app, firstn_all, Nat.sub_diag. cbn [firstn].
        rewrite app_nil_r. symmetry. apply fdat_some. now exists g.
      * rewrite lose_fdat_syn by now apply SO. apply fdat_of_fget. now apply Go.
  - apply (C x' (lose v x') P').
    + now apply lose_wf.
    + reflexivity.
    + auto.
    + intros i. apply lose_fdat_none.
    + intros q Rq. destruct (path_eqb_spec q p) as [->|N].
      * now apply lose_fdat_keep.
      * apply lose_fdat_syn. now apply SO.
Qed.

(* ------------------------------------------------------------------ *)
(* P4. walks: conjunction, splitting                                   *)
(* ------------------------------------------------------------------ *)
Definition TT : fs -> Prop := fun _ => True.

Lemma along_split : forall P w w1 w2, Along P w w2 -> Walk TT w w1 -> Walk TT w1 w2 ->
  Along P w w1 /\ Along P w1 w2.
Proof.
  intros P w w1 w2 (F2 & tr & E & A) (F1 & t1 & E1 & R1 & _) (_ & t2 & E2 & R2 & _).
  rewrite E2, E1, app_assoc in E. apply app_inv_tail in E. subst tr.
  rewrite rev_app_distr in A. split.
  - split; [exact F1|]. exists t1. split; [exact E1|]. intros n Ln.
    specialize (A n). rewrite firstn_app, rev_length in A.
    replace (n - length t1)%nat with 0%nat in A by lia. cbn [firstn] in A. rewrite app_nil_r in A.
    apply A. rewrite app_length. lia.
  - split; [exact F2|]. exists t2. split; [exact E2|]. intros n Ln.
    specialize (A (length t1 + n)%nat). rewrite firstn_app, replay_calls_app, rev_length in A.
    rewrite (firstn_all2 (rev t1)) in A by (rewrite rev_length; lia). rewrite R1 in A.
    replace (length t1 + n - length t1)%nat with n in A by lia.
    apply A. rewrite app_length. lia.
Qed.

Lemma along_end : forall P w w', Along P w w' -> Walk TT w w' -> P (wfs w').
Proof.
  intros P w w' (_ & tr & E & A) (_ & t1 & E1 & R1 & _). rewrite E1 in E.
  apply app_inv_tail in E. subst t1. rewrite <- R1.
  specialize (A (length tr) (Nat.le_refl _)). now rewrite <- rev_length, firstn_all in A.
Qed.

Lemma along_start : forall P w w', Along P w w' -> P (wfs w).
Proof. intros P w w' (_ & tr & _ & A). apply (A 0%nat). lia. Qed.

Lemma along_walk : forall P w w', Along P w w' -> Runs w w' -> Walk P w w'.
Proof.
  intros P w w' (F & tr & E & A) (_ & t1 & E1 & R1). rewrite E in E1. apply app_inv_tail in E1.
  subst t1. split; [exact F|]. exists tr. now split.
Qed.

Lemma walk_conj : forall (P Q : fs -> Prop) w w', Walk P w w' -> Walk Q w w' ->
  Walk (fun x => P x /\ Q x) w w'.
Proof.
  intros P Q w w' (F & tr & E & R0 & A) (_ & t1 & E1 & _ & A1). rewrite E in E1.
  apply app_inv_tail in E1. subst t1. split; [exact F|]. exists tr. split; [exact E|].
  split; [exact R0|]. intros n Ln. split; [now apply A|now apply A1].
Qed.

(* every program of the monad extends the trace faithfully *)
Definition Faithful {A} (m : M A) : Prop := WalkM TT m.

Lemma tt_keeps : forall c, call_keeps TT c.
Proof. intros c s s' _ _. exact I. Qed.

Ltac faithful := unfold Faithful; walkm ltac:(apply tt_keeps).

(* ------------------------------------------------------------------ *)
(* P5. the relative logic                                              *)
(* ------------------------------------------------------------------ *)
(* what the logic is instantiated with:
   P0  what crash atomicity gives for every intermediate state of the run,
   R   the paths P0 looks at,
   J   an additional property of single states to carry along (e.g. True, or "the relevant
       files other than segments are synced, no segment is synced beyond its end"),
   Jp  the files an append may be in flight on. *)
Record Ctx := mkCtx {
  cP0 : fs -> Prop;
  cR : path -> Prop;
  cJ : fs -> Prop;
  cJp : path -> Prop;
  cHC : Closed cR cP0;
  cHW : forall x, cP0 x -> FsWf x;
  cHJ : forall x, FsWf x -> SynOn cR x -> cJ x;
  cHJa : forall p b x x', cJp p -> FsWf x -> SynOn cR x ->
                          apply_call (CAppend p b) x = Ok x' -> cJ x'
}.

Section Logic.
  Variable C : Ctx.
  Local Notation P0 := (cP0 C).
  Local Notation R := (cR C).
  Local Notation J := (cJ C).
  Local Notation Jp := (cJp C).

  (* the goal: P0 survives power loss, for every victim set (and J holds) *)
  Definition PLs (x : fs) : Prop := (forall v, P0 (lose v x)) /\ J x.

  Lemma pls_synced : forall x, P0 x -> SynOn R x -> PLs x.
  Proof.
    intros x Px Y. split.
    - intros v. eapply lose_closed; eauto; [apply (cHC C)|now apply (cHW C)].
    - apply (cHJ C); [now apply (cHW C)|exact Y].
  Qed.

  (* [HR Pre m Post]: m extends the trace faithfully, and IF every intermediate state of m's
     run from w satisfies P0, the start survives power loss and satisfies Pre, THEN every
     intermediate state survives power loss and the result satisfies Post *)
  Definition HR {A} (Pre : fs -> Prop) (m : M A) (Post : A -> fs -> Prop) : Prop :=
    forall w, wfault w = None ->
      Walk TT w (snd (m w)) /\
      (Along P0 w (snd (m w)) -> PLs (wfs w) -> Pre (wfs w) ->
       Along PLs w (snd (m w)) /\ Post (fst (m w)) (wfs (snd (m w)))).

  Lemma hr_faithful : forall {A} Pre (m : M A) Post, HR Pre m Post -> Faithful m.
  Proof. intros A Pre m Post Hm w F _. exact (proj1 (Hm w F)). Qed.

  Lemma hr_ret : forall {A} (Pre : fs -> Prop) (a : A) (Post : A -> fs -> Prop),
    (forall x, Pre x -> Post a x) -> HR Pre (ret a) Post.
  Proof.
    intros A Pre a Post Hp w F. cbn [ret fst snd]. split; [now apply walk_refl|].
    intros _ Iw Pw. split; [now apply along_refl|now apply Hp].
  Qed.

  Lemma hr_bind : forall {A B} Pre (m : M A) Mid (f : A -> M B) Post,
    HR Pre m Mid -> (forall a, HR (Mid a) (f a) Post) -> HR Pre (bind m f) Post.
  Proof.
    intros A B Pre m Mid f Post Hm Hf w F. unfold bind. specialize (Hm w F).
    destruct (m w) as [a w1] eqn:E. cbn [fst snd] in Hm. destruct Hm as [T1 C1].
    pose proof (walk_fault _ _ _ T1) as F1. destruct (Hf a w1 F1) as [T2 C2].
    split; [exact (walk_trans _ _ _ _ T1 T2)|]. intros AL Iw Pw.
    destruct (along_split _ _ _ _ AL T1 T2) as [AL1 AL2].
    destruct (C1 AL1 Iw Pw) as [AI1 M1].
    destruct (C2 AL2 (along_end _ _ _ AI1 T1) M1) as [AI2 Po].
    split; [|exact Po]. eapply along_trans; [exact (walk_runs _ _ _ T1)|exact AI1|exact AI2].
  Qed.

  Lemma hr_bind_ret : forall {A B} Pre (a : A) (f : A -> M B) Post,
    HR Pre (f a) Post -> HR Pre (bind (ret a) f) Post.
  Proof. intros A B Pre a f Post Hf w F. exact (Hf w F). Qed.

  Lemma hr_conseq : forall {A} (Pre Pre' : fs -> Prop) (m : M A) (Post Post' : A -> fs -> Prop),
    (forall x, Pre' x -> Pre x) -> (forall a x, Post a x -> Post' a x) ->
    HR Pre m Post -> HR Pre' m Post'.
  Proof.
    intros A Pre Pre' m Post Post' I1 I2 Hm w F. destruct (Hm w F) as [T C0]. split; [exact T|].
    intros AL Iw Pw. destruct (C0 AL Iw (I1 _ Pw)) as [AI Po]. split; [exact AI|now apply I2].
  Qed.

  Lemma hr_pre : forall {A} (Pre Pre' : fs -> Prop) (m : M A) Post,
    (forall x, Pre' x -> Pre x) -> HR Pre m Post -> HR Pre' m Post.
  Proof. intros A Pre Pre' m Post I1. apply hr_conseq; auto. Qed.

  Lemma hr_post : forall {A} Pre (m : M A) (Post Post' : A -> fs -> Prop),
    (forall a x, Post a x -> Post' a x) -> HR Pre m Post -> HR Pre m Post'.
  Proof. intros A Pre m Post Post' I2. apply hr_conseq; auto. Qed.

  (* a pure fact carried by the precondition *)
  Lemma hr_pure : forall {A} (phi : Prop) Pre (m : M A) Post, Faithful m ->
    (phi -> HR Pre m Post) -> HR (fun x => phi /\ Pre x) m Post.
  Proof.
    intros A phi Pre m Post Fm Hm w F. split; [now apply Fm|]. intros AL Iw [Hphi Pw].
    exact (proj2 (Hm Hphi w F) AL Iw Pw).
  Qed.

  Lemma hr_false : forall {A} (m : M A) Post, Faithful m -> HR (fun _ => False) m Post.
  Proof. intros A m Post Fm w F. split; [now apply Fm|]. intros _ _ []. Qed.

  Lemma hr_get_fs : forall Pre, HR Pre get_fs (fun _ x => Pre x).
  Proof.
    intros Pre w F. cbn [get_fs fst snd]. split; [now apply walk_refl|].
    intros _ Iw Pw. split; [now apply along_refl|exact Pw].
  Qed.

  Lemma hr_read_file : forall Pre p, HR Pre (read_file p) (fun _ x => Pre x).
  Proof.
    intros Pre p w F. cbn [read_file fst snd]. split; [now apply walk_refl|].
    intros _ Iw Pw. split; [now apply along_refl|exact Pw].
  Qed.

  (* one call, in general *)
  Lemma hr_call : forall c (Pre : fs -> Prop) (Post : res errno unit -> fs -> Prop),
    (forall x x', FsWf x -> P0 x -> PLs x -> Pre x -> apply_call c x = Ok x' -> P0 x' ->
                  PLs x' /\ Post (Ok tt) x') ->
    (forall x e, Pre x -> apply_call c x = Err e -> Post (Err e) x) ->
    HR Pre (do_call c) Post.
  Proof.
    intros c Pre Post HOk HErr w F.
    assert (T : Walk TT w (snd (do_call c w))) by (apply walkm_do_call; [apply tt_keeps|exact F|exact I]).
    split; [exact T|]. intros AL Iw Pw.
    destruct (do_call_any c w F) as [(e & Ea & Ed)|(s' & Ea & Ed)]; rewrite Ed in *; cbn [fst snd] in *.
    - split; [now apply along_refl|now apply HErr].
    - pose proof (along_start _ _ _ AL) as Px. pose proof (along_end _ _ _ AL T) as Px'.
      cbn [wfs] in Px'. destruct (HOk _ _ (cHW C _ Px) Px Iw Pw Ea Px') as [Is' Po].
      split; [|exact Po]. apply walk_along. eapply walk_call; [exact F|exact Ed|exact Iw|exact Is'].
  Qed.

  (* a call after which all of R is synced *)
  Lemma hr_call_syn : forall c (S S' : path -> Prop),
    (forall x x', FsWf x -> SynOn S x -> apply_call c x = Ok x' -> SynOn S' x') ->
    (forall q, R q -> S' q) ->
    HR (SynOn S) (do_call c)
       (fun r x => match r with Ok _ => SynOn S' x | Err _ => SynOn S x end).
  Proof.
    intros c S S' Hs Sub. apply hr_call.
    - intros x x' W Px Ix Y E Px'. pose proof (Hs x x' W Y E) as Y'. split; [|exact Y'].
      apply pls_synced; [exact Px'|]. eapply synon_weaken; [|exact Y']. exact Sub.
    - intros x e Y _. exact Y.
  Qed.

  (* a call that never unsyncs anything *)
  Lemma hr_call_mono : forall c (S : path -> Prop), mono_call c -> (forall q, R q -> S q) ->
    HR (SynOn S) (do_call c) (fun _ x => SynOn S x).
  Proof.
    intros c S M Sub. eapply hr_post; [|apply (hr_call_syn c S S)].
    - intros [u|e] x Y; exact Y.
    - intros x x' W Y E. eapply synon_mono; eauto.
    - exact Sub.
  Qed.

  (* an append (to a file of Jp) issued when all of R is synced: the state after it survives
     power loss (lose_inflight); afterwards everything but that file is still synced *)
  Definition Rx (p : path) : path -> Prop := fun q => R q /\ q <> p.

  Lemma hr_call_append : forall p b (Pre : fs -> Prop), Jp p -> (forall x, Pre x -> SynOn R x) ->
    HR Pre (do_call (CAppend p b))
       (fun r x => match r with Ok _ => SynOn (Rx p) x | Err _ => Pre x end).
  Proof.
    intros p b Pre Hjp Hp. apply hr_call.
    - intros x x' W Px Ix Pw E Px'. pose proof (Hp x Pw) as Y. split; [split|].
      + intros v. eapply (lose_inflight R P0 x x' p b); eauto; [apply (cHC C)|now apply (cHW C)].
      + eapply (cHJa C); eauto.
      + intros q [Rq N]. apply (syn_call _ _ _ q W E). split; [exact N|now apply Y].
    - intros x e Pw _. exact Pw.
  Qed.

  Lemma rx_weak : forall p x, SynOn R x -> SynOn (Rx p) x.
  Proof. intros p x Y q [Rq _]. now apply Y. Qed.

  (* the sync that ends the flight *)
  Lemma hr_call_sync : forall p,
    HR (SynOn (Rx p)) (do_call (CSync p))
       (fun r x => match r with Ok _ => SynOn R x | Err _ => SynOn (Rx p) x end).
  Proof.
    intros p. apply (hr_call_syn (CSync p) (Rx p) R); [|auto].
    intros x x' W Y E q Rq. apply (syn_call _ _ _ q W E).
    destruct (path_eqb_spec q p) as [->|N]; [now left|right]. apply Y. now split.
  Qed.
End Logic.

(* ------------------------------------------------------------------ *)
(* P6. faithfulness of the building blocks (for hr_pure / hr_false)    *)
(* ------------------------------------------------------------------ *)
Lemma faithful_bw_flush : forall p b, WalkM TT (bw_flush p b).
Proof. intros p b. unfold bw_flush. walkm ltac:(apply tt_keeps). Qed.
#[export] Hint Resolve faithful_bw_flush : walkm.

Lemma faithful_bw_write_all : forall p b d, WalkM TT (bw_write_all p b d).
Proof. intros p b d. unfold bw_write_all. walkm ltac:(apply tt_keeps). Qed.
#[export] Hint Resolve faithful_bw_write_all : walkm.

Lemma faithful_write_entry : forall H seg b ver payload, WalkM TT (write_entry H seg b ver payload).
Proof. intros. unfold write_entry. walkm ltac:(apply tt_keeps). Qed.
#[export] Hint Resolve faithful_write_entry : walkm.

(* ------------------------------------------------------------------ *)
(* P7. triples for the building blocks of the store                    *)
(* ------------------------------------------------------------------ *)
Section Blocks.
  Variable H : bytes -> bytes.
  Variable cfg : config.
  Variable C : Ctx.
  Hypothesis JpWal : forall i, cJp C (PWal i).     (* appends to segments may be in flight *)
  Hypothesis JpTmp : cJp C PIndexTmp.              (* ... and to index.tmp *)

  Local Notation R := (cR C).
  Local Notation HR := (HR C).
  Local Notation Rx := (Rx C).
  Local Notation Good := (SynOn (cR C)).
  Local Notation mono c := (hr_call_mono C c (cR C)) (only parsing).

  Lemma hr_unlink_all : forall ps, HR Good (unlink_all ps) (fun _ => Good).
  Proof.
    induction ps as [|p ps IH]; cbn [unlink_all]; [apply hr_ret; auto|].
    eapply hr_bind; [apply (mono (CUnlink p)); [exact I|auto]|].
    intros [u|e]; cbv beta iota; [exact IH|apply hr_ret; auto].
  Qed.

  Lemma hr_prune_below : forall b, HR Good (prune_below b) (fun _ => Good).
  Proof.
    intros b. unfold prune_below. eapply hr_bind; [apply hr_get_fs|]. intros s. cbv beta.
    eapply hr_bind; [apply hr_unlink_all|]. intros ?. apply hr_ret; auto.
  Qed.

  Lemma hr_delete_blobs : forall hs, HR Good (delete_blobs hs) (fun _ => Good).
  Proof.
    induction hs as [|h hs IH]; cbn [delete_blobs]; [apply hr_ret; auto|].
    eapply hr_bind; [apply (mono (CUnlink (cas_path h))); [exact I|auto]|].
    intros [u|[| |]]; cbv beta iota; try exact IH; apply hr_ret; auto.
  Qed.

  Lemma hr_mkdir_p : forall d, HR Good (mkdir_p d) (fun _ => Good).
  Proof.
    intros d. unfold mkdir_p. eapply hr_bind; [apply hr_get_fs|]. intros s. cbv beta.
    destruct (has_dir s d); [apply hr_ret; auto|]. apply (mono (CMkdir d)); [exact I|auto].
  Qed.

  Lemma hr_mkdir_cas2 : forall a b, HR Good (mkdir_cas2 a b) (fun _ => Good).
  Proof.
    intros a b. unfold mkdir_cas2. eapply hr_bind; [apply hr_mkdir_p|].
    intros [u|e]; cbv beta iota; [apply hr_mkdir_p|apply hr_ret; auto].
  Qed.

  Lemma hr_mkdirs_pre : forall ds, HR Good (mkdirs_pre ds) (fun _ => Good).
  Proof.
    induction ds as [|[i j] ds IH]; cbn [mkdirs_pre]; [apply hr_ret; auto|].
    eapply hr_bind; [apply hr_mkdir_cas2|]. intros [u|e]; cbv beta iota; [exact IH|apply hr_ret; auto].
  Qed.

  (* atomically_write_file_bytes: the temporary is synced before it is renamed over the
     target, so the target is synced whenever it is visible *)
  Lemma hr_atomic_write : forall target tmp data, ~ R tmp -> cJp C tmp ->
    HR Good (atomic_write target tmp data) (fun _ => Good).
  Proof.
    intros target tmp data Nt Jt. unfold atomic_write.
    eapply hr_bind; [apply (mono (CCreate tmp)); [exact I|auto]|].
    intros [u|e]; cbv beta iota; [|apply hr_ret; auto].
    apply hr_bind with (Mid := fun _ => Good).
    { destruct data as [|b0 data]; [apply hr_ret; auto|].
      eapply hr_post; [|apply (hr_call_append C tmp (b0 :: data) Good); auto].
      intros [u'|e'] x Y; [|exact Y].
      intros q Rq. apply Y. split; [exact Rq|]. intros X. apply Nt. now rewrite <- X. }
    intros [u2|e2]; cbv beta iota; [|apply hr_ret; auto].
    eapply hr_bind.
    { apply (hr_call_syn C (CSync tmp) R (fun q => R q \/ q = tmp)); [|auto].
      intros x x' W Y E q [Rq| ->]; apply (syn_call _ _ _ _ W E); [right; now apply Y|now left]. }
    intros [u3|e3]; cbv beta iota; [|apply hr_ret; auto].
    eapply hr_post;
      [|apply (hr_call_syn C (CRename tmp target) (fun q => R q \/ q = tmp) R); [|auto]].
    - intros [u4|e4] x Y; [exact Y|]. eapply synon_weaken; [|exact Y]. intros q Rq. now left.
    - intros x x' W Y E q Rq. apply (syn_call _ _ _ q W E).
      destruct (path_eqb q target); [apply Y; now right|]. right. apply Y. now left.
  Qed.

  (* BufWriter: either nothing is in flight and the buffer may hold bytes, or the buffer is
     empty *)
  Definition FlushPre (p : path) (buf : bytes) (x : fs) : Prop :=
    SynOn (Rx p) x /\ (buf <> [] -> Good x).

  Lemma hr_bw_flush : forall p buf, cJp C p ->
    HR (FlushPre p buf) (bw_flush p buf)
       (fun rb x => SynOn (Rx p) x /\
                    match fst rb with Err _ => snd rb <> [] -> Good x | Ok _ => True end).
  Proof.
    intros p buf Jpp. destruct buf as [|b0 buf]; cbn [bw_flush].
    - apply hr_ret. intros x [Y _]. cbn [fst snd]. now split.
    - eapply hr_bind; [apply (hr_call_append C p (b0 :: buf) (FlushPre p (b0 :: buf)) Jpp)|].
      + intros x [_ G]. apply G. discriminate.
      + intros [u|e]; cbv beta iota; apply hr_ret; cbn [fst snd].
        * intros x Y. now split.
        * intros x [Y G]. now split.
  Qed.

  Lemma hr_bw_write_all : forall p data, cJp C p ->
    HR Good (bw_write_all p [] data) (fun rb x => FlushPre p (snd rb) x).
  Proof.
    intros p data Jpp. unfold bw_write_all. cbv zeta.
    destruct (len data <? BUFCAP - len []).
    - apply hr_ret. intros x Y. cbn [snd]. split; [now apply rx_weak|auto].
    - assert (E0 : forall c : bool,
                (if c then bw_flush p [] else ret (Ok tt, [])) = ret (Ok tt, @nil N))
        by (intros []; reflexivity).
      rewrite E0. apply hr_bind_ret. cbv beta iota.
      destruct (BUFCAP <=? len data).
      + eapply hr_bind; [apply (hr_call_append C p data Good Jpp); auto|].
        intros r. apply hr_ret. intros x Y. cbn [snd]. split; [|intros X; now elim X].
        destruct r; [exact Y|now apply rx_weak].
      + apply hr_ret. intros x Y. cbn [snd]. split; [now apply rx_weak|auto].
  Qed.

  Lemma hr_writer_close : forall seg b,
    HR (FlushPre (PWal seg) b) (writer_close seg b)
       (fun r x => match r with Ok _ => Good x | Err _ => True end).
  Proof.
    intros seg b. unfold writer_close.
    eapply hr_bind; [apply hr_bw_flush; apply JpWal|]. intros [[u|e] b']; cbv beta iota; cbn [fst snd].
    - eapply hr_bind.
      + eapply hr_pre; [|apply (hr_call_sync C (PWal seg))]. intros x [Y _]. exact Y.
      + intros [u2|e2]; cbv beta iota; apply hr_ret; auto.
    - eapply hr_bind; [apply hr_bw_flush; apply JpWal|]. intros ?. apply hr_ret; auto.
  Qed.

  Lemma hr_writer_seal : forall seg,
    HR Good (writer_seal seg []) (fun r x => match r with Ok _ => Good x | Err _ => True end).
  Proof.
    intros seg. unfold writer_seal. eapply hr_bind; [apply hr_bw_write_all; apply JpWal|].
    intros [[u|e] b]; cbv beta iota; cbn [fst snd].
    - apply hr_writer_close.
    - eapply hr_bind; [apply hr_bw_flush; apply JpWal|]. intros ?. apply hr_ret; auto.
  Qed.

  (* write_entry: the record is written, flushed, synced -- one append in flight *)
  Lemma hr_write_entry : forall seg ver payload,
    HR Good (write_entry H seg [] ver payload)
       (fun rb x => match fst rb with Ok _ => Good x | Err _ => True end).
  Proof.
    intros seg ver payload. unfold write_entry. cbv zeta.
    eapply hr_bind; [apply hr_bw_write_all; apply JpWal|].
    intros [[u|e] b]; cbv beta iota; cbn [fst snd]; [|apply hr_ret; cbn [fst]; auto].
    eapply hr_bind; [apply hr_bw_flush; apply JpWal|].
    intros [[u2|e2] b2]; cbv beta iota; cbn [fst snd]; [|apply hr_ret; cbn [fst]; auto].
    eapply hr_bind.
    - eapply hr_pre; [|apply (hr_call_sync C (PWal seg))]. intros x [Y _]. exact Y.
    - intros [u3|e3]; cbv beta iota; apply hr_ret; cbn [fst]; auto.
  Qed.

  Lemma hr_append_op : forall wl payload, (forall s b, writer wl = Some (s, b) -> b = []) ->
    HR Good (append_op H cfg wl payload)
       (fun r x => match fst r with Ok _ => Good x | Err _ => True end).
  Proof.
    intros wl payload Hb. unfold append_op. cbv zeta.
    apply hr_bind with
      (Mid := fun ro x => match fst ro with
                          | Ok _ => (forall s b, writer (snd ro) = Some (s, b) -> b = []) /\ Good x
                          | Err _ => True
                          end).
    - assert (Open : forall t v,
                HR Good (do! r <- do_call (COpenAppend (PWal t)) ;;
                         match r with
                         | Err _ => ret (Err EWalIo, mkWal v None)
                         | Ok _ => ret (Ok tt, mkWal v (Some (t, [])))
                         end)
                   (fun ro x => match fst ro with
                                | Ok _ => (forall s b, writer (snd ro) = Some (s, b) -> b = []) /\ Good x
                                | Err _ => True
                                end)).
      { intros t v. eapply hr_bind; [apply (mono (COpenAppend (PWal t))); [exact I|auto]|].
        intros [u|e]; cbv beta iota; apply hr_ret; intros x Y; cbn [fst snd writer]; [|exact I].
        split; [|exact Y]. intros s b X. now inversion X. }
      destruct (writer wl) as [[s b]|] eqn:Wr.
      + assert (b = []) by (apply (Hb s); reflexivity). subst b.
        destruct (negb (s =? seg_of cfg (nextv wl))).
        * eapply hr_bind; [apply hr_writer_seal|]. intros [u|e]; cbv beta iota; [apply Open|].
          apply hr_ret. intros x _. exact I.
        * apply hr_ret. intros x Y. cbn [fst snd writer]. split; [|exact Y].
          intros s0 b0 X. now inversion X.
      + apply hr_bind_ret. cbv beta iota. apply Open.
    - intros [[u|e] w2]; cbv beta iota; cbn [fst snd]; [|apply hr_ret; cbn [fst]; auto].
      apply hr_pure; [solve [faithful]|]. intros Hw2.
      destruct (writer w2) as [[s b]|]; [|apply hr_ret; cbn [fst]; auto].
      rewrite (Hw2 s b eq_refl). eapply hr_bind; [apply hr_write_entry|].
      intros [[u2|e2] b']; cbv beta iota; cbn [fst snd]; apply hr_ret; cbn [fst]; auto.
  Qed.

  Lemma hr_checkpoint_inner : forall reason m, ~ R PIndexTmp ->
    HR Good (checkpoint_inner cfg reason m) (fun _ => Good).
  Proof.
    intros reason m Nt. unfold checkpoint_inner. cbv zeta.
    match goal with |- @PowerLoss.HR _ _ _ (if ?c then _ else _) _ => destruct c end;
      [apply hr_ret; auto|].
    eapply hr_bind; [apply hr_atomic_write; [exact Nt|exact JpTmp]|].
    intros [u|e]; cbv beta iota; [|apply hr_ret; auto].
    apply hr_bind with (Mid := fun _ => Good).
    - match goal with |- @PowerLoss.HR _ _ _ (if ?c then _ else _) _ => destruct c end;
        [apply hr_ret; auto|apply hr_prune_below].
    - intros ?. apply hr_ret; auto.
  Qed.

  Lemma hr_log_and_apply : forall m o, ~ R PIndexTmp ->
    (forall s b, writer (mwal m) = Some (s, b) -> b = []) ->
    HR Good (log_and_apply H cfg m o)
       (fun r x => match fst r with Ok _ => Good x | Err _ => True end).
  Proof.
    intros m o Nt Hb. unfold log_and_apply. cbv zeta.
    eapply hr_bind; [apply hr_append_op; exact Hb|].
    intros [[ver|e] w']; cbv beta iota; cbn [fst snd]; [|apply hr_ret; cbn [fst]; auto].
    destruct (apply_op _ (idx m) o) as [[i' unref]|e]; [|apply hr_ret; cbn [fst]; auto].
    eapply hr_bind; [apply hr_delete_blobs|].
    intros [u|e]; cbv beta iota; [|apply hr_ret; cbn [fst]; auto].
    match goal with |- @PowerLoss.HR _ _ _ (if ?c then _ else _) _ => destruct c end.
    - eapply hr_post; [|apply hr_checkpoint_inner; exact Nt]. intros [[u2|e2] m2] x Y; cbn [fst]; auto.
    - apply hr_ret. cbn [fst]. auto.
  Qed.
End Blocks.

(* ------------------------------------------------------------------ *)
(* P8. the sync-aware invariant RestS and the key lemma lose_rest      *)
(* ------------------------------------------------------------------ *)
Section PowerInv.
  Variable H : bytes -> bytes.
  Hypothesis H_len : forall b, length (H b) = 32%nat.
  Hypothesis H_byte : forall b, Forall (fun x => x < 256) (H b).
  Variable cfg : config.
  Hypothesis n_pos : 0 < c_n cfg.
  Let cmp := key_cmp (c_kt cfg).

  Local Notation Rest := (Rest H cfg).
  Local Notation RestB := (RestB H cfg).
  Local Notation RestD := (RestD H cfg).
  Local Notation RestDB := (RestDB H cfg).

  (* the paths recovery of the map sg reads: settings, snapshot, every segment, the blob of
     every content of sg.  Everything else (staging files, *.tmp, the lock file, blobs that
     sg does not reference) may be arbitrarily unsynced. *)
  Definition Rel (sg : smap bytes) (q : path) : Prop :=
    q = PSettings \/ q = PIndex \/ (exists i, q = PWal i) \/
    exists k c, In (k, c) sg /\ q = cas_path (H c).

  Definition SyncedFor (sg : smap bytes) (x : fs) : Prop :=
    syn x PSettings /\ syn x PIndex /\ (forall i, syn x (PWal i)) /\
    forall k c, In (k, c) sg -> syn x (cas_path (H c)).

  Lemma syncedfor_rel : forall sg x, SyncedFor sg x <-> SynOn (Rel sg) x.
  Proof.
    intros sg x. split.
    - intros (S1 & S2 & S3 & S4) q [->|[->|[(i & ->)|(k & c & Ik & ->)]]]; auto. now apply (S4 k).
    - intros Y. split; [apply Y; now left|]. split; [apply Y; right; now left|].
      split; [intros i; apply Y; right; right; left; now exists i|].
      intros k c Ik. apply Y. right; right; right. now exists k, c.
  Qed.

  (* THE sync-aware strengthening of Rest (L1) *)
  Definition RestS (x : fs) (sg : smap bytes) : Prop := Rest x sg /\ SyncedFor sg x.
  Definition RestSB (B : N) (x : fs) (sg : smap bytes) : Prop := RestB B x sg /\ SyncedFor sg x.

  Lemma restsb_rests : forall B x sg, RestSB B x sg -> RestS x sg.
  Proof. intros B x sg [Rb Y]. split; [eapply restb_rest; exact Rb|exact Y]. Qed.

  Lemma closed_restb : forall B sg, Closed (Rel sg) (fun x => RestB B x sg).
  Proof.
    intros B sg x y Rx W N D St A. eapply (restb_agree H cfg); [exact Rx|exact W| |exact D| |].
    - intros i Li. rewrite N in Li. apply St. now apply (restb_fresh H cfg _ _ _ Rx).
    - split; [apply A; now left|]. split; [apply A; right; now left|].
      intros i. apply A. right; right; left. now exists i.
    - intros k c Ik. apply A. right; right; right. now exists k, c.
  Qed.

  Lemma closed_rest : forall sg, Closed (Rel sg) (fun x => Rest x sg).
  Proof.
    intros sg x y Rx W N D St A. destruct (rest_restb H cfg n_pos _ _ Rx) as (B & _ & Rb).
    eapply restb_rest. eapply (closed_restb B sg); eauto.
  Qed.

  Definition Rel2 (sg sg' : smap bytes) (q : path) : Prop := Rel sg q \/ Rel sg' q.

  Lemma closed_restdb : forall B sg sg', Closed (Rel2 sg sg') (RestDB B sg sg').
  Proof.
    intros B sg sg'. apply (closed_or (Rel2 sg sg') (fun x => RestB B x sg) (fun x => RestB B x sg')).
    - eapply closed_mono; [|apply closed_restb]. intros q Rq. now left.
    - eapply closed_mono; [|apply closed_restb]. intros q Rq. now right.
  Qed.

  Lemma restdb_wf : forall B sg sg' x, RestDB B sg sg' x -> FsWf x.
  Proof. intros B sg sg' x [Rx|Rx]; eapply restb_wf; exact Rx. Qed.

  Lemma rel_sub : forall sg sg' q, (forall e, In e sg' -> In e sg) -> Rel sg' q -> Rel sg q.
  Proof.
    intros sg sg' q Sub [X|[X|[X|(k & c & Ik & X)]]]; [now left|right; now left|right; right; now left|].
    right; right; right. exists k, c. split; [now apply Sub|exact X].
  Qed.

  Lemma rel_not_tmp : forall sg, ~ Rel sg PIndexTmp /\ ~ Rel sg PSettingsTmp /\ ~ Rel sg PLock /\
    forall i, ~ Rel sg (PStaging i).
  Proof.
    intros sg.
    assert (G : forall p, p <> PSettings -> p <> PIndex -> (forall i, p <> PWal i) ->
                (forall l, p <> PCas l) -> ~ Rel sg p).
    { intros p N1 N2 N3 N4 [X|[X|[(j & X)|(k & c & _ & X)]]]; [now apply N1|now apply N2| |].
      - now apply (N3 j).
      - now apply (N4 (hexpath (H c))). }
    split; [|split; [|split; [|intros i]]]; apply G; try intros ?; discriminate.
  Qed.


  (* ---- what holds at EVERY intermediate state of an operation in Sync mode, also while a
     record is in flight: the relevant files other than segments are synced, and no segment
     is marked synced beyond its end.  With it: when the victims include every segment file,
     the state after power loss is again a state of the sync-aware invariant. ---- *)
  Definition RelNW (sg : smap bytes) (q : path) : Prop :=
    q = PSettings \/ q = PIndex \/ exists k c, In (k, c) sg /\ q = cas_path (H c).
  Definition WalWf (x : fs) : Prop :=
    forall i f, fget x (PWal i) = Some f -> (fsynced f <= length (fdata f))%nat.
  Definition JS (sg sg' : smap bytes) (x : fs) : Prop :=
    SynOn (fun q => RelNW sg q \/ RelNW sg' q) x /\ WalWf x.
  Definition JpS (sg sg' : smap bytes) (p : path) : Prop := ~ RelNW sg p /\ ~ RelNW sg' p.
  Definition wal_victims (v : path -> bool) : Prop := forall i, v (PWal i) = true.

  Lemma relnw_rel : forall sg q, RelNW sg q -> Rel sg q.
  Proof.
    intros sg q [X|[X|(k & c & Ik & X)]]; [now left|right; now left|].
    right; right; right. now exists k, c.
  Qed.

  Lemma js_synced : forall sg sg' x, SynOn (Rel2 sg sg') x -> JS sg sg' x.
  Proof.
    intros sg sg' x Y. split.
    - intros q [Rq|Rq]; apply Y; [left|right]; now apply relnw_rel.
    - intros i f G. rewrite (Y (PWal i)) with (f := f); [lia| |exact G].
      left. right; right; left. now exists i.
  Qed.

  Lemma js_append : forall sg sg' p b x x', JpS sg sg' p -> FsWf x -> SynOn (Rel2 sg sg') x ->
    apply_call (CAppend p b) x = Ok x' -> JS sg sg' x'.
  Proof.
    intros sg sg' p b x x' [N1 N2] W Y E. destruct (js_synced sg sg' x Y) as [Y1 Y2]. split.
    - intros q Rq. apply (syn_call _ _ _ q W E). split; [|now apply Y1].
      intros ->. destruct Rq; contradiction.
    - intros i f G. cbn [apply_call] in E. destruct (fget x p) as [g|] eqn:Gp; [|discriminate].
      assert (E' : upd x p (mkFile (fdata g ++ b) (fsynced g)) = x') by (unfold upd; congruence).
      rewrite <- E', fget_upd in G. destruct (path_eqb_spec (PWal i) p) as [Ep|Np].
      + inversion G. cbn [fsynced fdata]. rewrite <- Ep in Gp. specialize (Y2 i g Gp).
        rewrite app_length. lia.
      + now apply (Y2 i).
  Qed.

  Lemma jps_other : forall sg sg' p, p <> PSettings -> p <> PIndex -> (forall l, p <> PCas l) ->
    JpS sg sg' p.
  Proof.
    intros sg sg' p N1 N2 N3.
    split; intros [X|[X|(k & c & _ & X)]]; try contradiction; now apply (N3 (hexpath (H c))).
  Qed.

  Lemma js_lose : forall sg sg' x v, JS sg sg' x -> wal_victims v ->
    SyncedFor sg (lose v x) /\ SyncedFor sg' (lose v x).
  Proof.
    intros sg sg' x v [Y1 Y2] Hv.
    assert (Wl : forall i, syn (lose v x) (PWal i)).
    { intros i f G. rewrite fget_lose in G. destruct (fget x (PWal i)) as [g|] eqn:Gg; [|discriminate].
      cbn [option_map] in G. inversion G. unfold lost. rewrite Hv. cbn [fsynced fdata].
      rewrite firstn_length. specialize (Y2 i g Gg). lia. }
    split.
    - split; [apply lose_syn, Y1; left; now left|]. split; [apply lose_syn, Y1; left; right; now left|].
      split; [exact Wl|]. intros k c Ik. apply lose_syn, Y1. left. right; right. now exists k, c.
    - split; [apply lose_syn, Y1; left; now left|]. split; [apply lose_syn, Y1; left; right; now left|].
      split; [exact Wl|]. intros k c Ik. apply lose_syn, Y1. right. right; right. now exists k, c.
  Qed.

  (* the two contexts of the logic used for the store *)
  Definition ctx_db (B : N) (sg sg' : smap bytes) : Ctx :=
    mkCtx (RestDB B sg sg') (Rel2 sg sg') (JS sg sg') (JpS sg sg')
          (closed_restdb B sg sg') (restdb_wf B sg sg')
          (fun x _ Y => js_synced sg sg' x Y) (js_append sg sg').

  Lemma rel2_same : forall sg x, SynOn (Rel sg) x -> SynOn (Rel2 sg sg) x.
  Proof. intros sg x Y q [Rq|Rq]; now apply Y. Qed.

  Definition ctx_b (B : N) (sg : smap bytes) : Ctx :=
    mkCtx (fun x => RestB B x sg) (Rel sg) (JS sg sg) (JpS sg sg)
          (closed_restb B sg) (fun x Rx => restb_wf H cfg B x sg Rx)
          (fun x _ Y => js_synced sg sg x (rel2_same sg x Y))
          (fun p b x x' Hp W Y E => js_append sg sg p b x x' Hp W (rel2_same sg x Y) E).

  (* L1, the key lemma: the invariant survives power loss, for every victim set *)
  Theorem lose_rest : forall x sg, RestS x sg -> forall victims, Rest (lose victims x) sg.
  Proof.
    intros x sg [Rx Y] v. apply (lose_closed (Rel sg) (fun y => Rest y sg)).
    - apply closed_rest.
    - eapply rest_wf; exact Rx.
    - exact Rx.
    - now apply syncedfor_rel.
  Qed.

  Lemma lose_syncedfor : forall sg x v, SyncedFor sg x -> SyncedFor sg (lose v x).
  Proof.
    intros sg x v Y. apply syncedfor_rel. intros q Rq. apply lose_syn.
    now apply (proj1 (syncedfor_rel sg x) Y).
  Qed.

  (* ... and it is again a state of the sync-aware invariant *)
  Theorem lose_restS : forall x sg, RestS x sg -> forall victims, RestS (lose victims x) sg.
  Proof.
    intros x sg RS v. split; [now apply lose_rest|]. apply lose_syncedfor. exact (proj2 RS).
  Qed.

  Theorem lose_restSB : forall B x sg, RestSB B x sg -> forall victims, RestSB B (lose victims x) sg.
  Proof.
    intros B x sg [Rx Y] v. split; [|now apply lose_syncedfor].
    apply (lose_closed (Rel sg) (fun y => RestB B y sg)).
    - apply closed_restb.
    - eapply restb_wf; exact Rx.
    - exact Rx.
    - now apply syncedfor_rel.
  Qed.
End PowerInv.

Print Assumptions lose_inflight.
Print Assumptions hr_log_and_apply.
Print Assumptions lose_rest.
Print Assumptions lose_restS.

