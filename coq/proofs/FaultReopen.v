(* FaultReopen.v -- C14's reopen clause for ONE operation hit by an injected I/O error.

   Fault plan (theories/FS.v do_call): `wfault w = Some n` makes the effective call with index n
   (the call counter wcount w reaches n) return EIO WITHOUT effect; the plan stays `Some n`, but
   the counter moves on, so exactly one call fails.

   R1  a two-run program logic.  [arm n w] is the fault-free world w with the plan `Some n`.
       FR m Q: run m from w (fault-free) and from arm n w.  Either the fault does not hit inside m
       and the two runs agree (same result, same world up to the plan), or it hits a call c and
       the filesystem left by the faulted run is reached from SOME PREFIX STATE of the fault-free
       run of m by calls of a small class T ("tail calls": the clean-up of the error path), and
       the result satisfies Q.  Rules for ret / bind / do_call; the error paths are handled by
       FaultLogic.Inv (valid under any plan); the one place where the error path REPEATS the
       failed call (BufWriter::drop retries the flush: writer_close) is a leaf lemma: there the
       prefix grows by one.
   R2  FR for every API operation (put, abort, remove, remove_range, checkpoint, the reads);
       R2a Calls C m: every call m can issue is of class C (log_and_apply: LogCall), used to track
       the memory a failed operation returns when the failing call is not a LogCall.
   R3  the theorems:
         C14_reopen_after_any_single_fault_op     EVERY position of the fault, also the WAL class
         C14_reopen_after_fault_outside_known_class_op   (the task's statement; corollary)
       After the faulted operation the filesystem satisfies Rest for the old or for the new map,
       hence (CrashOpen.rest_open) a fresh open_with_recover succeeds with Inv' for that map.
         C14_benign_fault_keeps_invariant   a put / abort failing before its blob is published:
                                            memory unchanged and the FULL handle invariant Inv'
         C14_history_after_benign_fault     hence any further history (operations, restarts,
                                            crashes; CrashHist.run_ext) ends in an allowed map
   R4  computed instances on the toy hash (non-vacuity), next to the known refutation F4. *)
From Cas Require Import History.
From CasProofs Require Import BaseProofs CodecBase CodecProofs SMapProofs IndexProofs
  StoreFS StoreInv StoreWrite StoreRead StoreHist DiskInv Recover RestartHist
  CrashInv CrashOps CrashOpen CrashHist WorldRel FaultLogic Faults FaultHist FaultWitness.
From Coq Require Import ZifyBool ZifyNat ZifyN.
Open Scope N_scope.

Arguments N.add : simpl never.
Arguments N.sub : simpl never.
Arguments N.mul : simpl never.
Arguments N.div : simpl never.
Arguments N.modulo : simpl never.
Arguments N.eqb : simpl never.
Arguments N.ltb : simpl never.
Arguments N.leb : simpl never.
Arguments N.pow : simpl never.
Arguments N.max : simpl never.

(* ------------------------------------------------------------------ *)
(* R0. structural facts about every program: Str                        *)
(* ------------------------------------------------------------------ *)
(* the plan is never changed, the counter and the trace only grow, and the recorded trace is
   faithful under every plan (a faulted call is recorded as TFault and replayed as a no-op) *)
Definition Str {A} (m : M A) : Prop :=
  forall w,
    wfault (snd (m w)) = wfault w /\ (wcount w <= wcount (snd (m w)))%nat /\
    exists tr, wtrace (snd (m w)) = tr ++ wtrace w /\
               replay_calls (rev tr) (wfs w) = wfs (snd (m w)).

Lemma str_ret : forall {A} (a : A), Str (ret a).
Proof.
  intros A a w. cbn [ret snd]. split; [reflexivity|]. split; [lia|]. exists []. now split.
Qed.

Lemma str_bind : forall {A B} (m : M A) (f : A -> M B),
  Str m -> (forall a, Str (f a)) -> Str (bind m f).
Proof.
  intros A B m f Sm Sf w. unfold bind. specialize (Sm w). destruct (m w) as [a w1].
  cbn [snd] in Sm. destruct Sm as (F1 & C1 & t1 & E1 & R1).
  specialize (Sf a w1). destruct (f a w1) as [b w2]. cbn [snd] in *.
  destruct Sf as (F2 & C2 & t2 & E2 & R2).
  split; [congruence|]. split; [lia|]. exists (t2 ++ t1). split.
  - rewrite E2, E1. apply app_assoc.
  - now rewrite rev_app_distr, replay_calls_app, R1.
Qed.

Lemma str_do_call : forall c, Str (do_call c).
Proof.
  intros c w. unfold do_call. destruct (apply_call c (wfs w)) as [s'|e] eqn:E.
  - destruct (wfault w) as [k|] eqn:F; [destruct (Nat.eqb k (wcount w))|]; cbn [snd wfault wcount wtrace wfs].
    + split; [reflexivity|]. split; [lia|]. exists [TFault c]. split; reflexivity.
    + split; [reflexivity|]. split; [lia|]. exists [TCall c]. split; [reflexivity|].
      cbn [rev app replay_calls]. now rewrite E.
    + split; [reflexivity|]. split; [lia|]. exists [TCall c]. split; [reflexivity|].
      cbn [rev app replay_calls]. now rewrite E.
  - cbn [snd]. split; [reflexivity|]. split; [lia|]. exists []. now split.
Qed.

Lemma str_get_fs : Str get_fs.
Proof. intros w. cbn [get_fs snd]. split; [reflexivity|]. split; [lia|]. exists []. now split. Qed.

Lemma str_read_file : forall p, Str (read_file p).
Proof. intros p w. cbn [read_file snd]. split; [reflexivity|]. split; [lia|]. exists []. now split. Qed.

Create HintDb str.
#[export] Hint Resolve str_do_call str_get_fs str_read_file : str.

Ltac str :=
  repeat (cbv beta iota zeta;
          first
            [ solve [auto with str]
            | lazymatch goal with
              | |- forall _, _ => intro
              | |- Str (ret _) => apply str_ret
              | |- Str (bind _ _) => apply str_bind
              | |- Str (match ?x with _ => _ end) => destruct x
              end ]).

Section StrStore.
  Variable H : bytes -> bytes.

  Lemma str_mkdir_p : forall d, Str (mkdir_p d).
  Proof. intros. unfold mkdir_p. str. Qed.
  Hint Resolve str_mkdir_p : str.
  Lemma str_mkdir_cas2 : forall a b, Str (mkdir_cas2 a b).
  Proof. intros. unfold mkdir_cas2. str. Qed.
  Hint Resolve str_mkdir_cas2 : str.
  Lemma str_atomic_write : forall t tmp data, Str (atomic_write t tmp data).
  Proof. intros. unfold atomic_write. str. Qed.
  Hint Resolve str_atomic_write : str.
  Lemma str_bw_flush : forall p buf, Str (bw_flush p buf).
  Proof. intros. unfold bw_flush. str. Qed.
  Hint Resolve str_bw_flush : str.
  Lemma str_bw_write_all : forall p buf data, Str (bw_write_all p buf data).
  Proof. intros. unfold bw_write_all. str. Qed.
  Hint Resolve str_bw_write_all : str.
  Lemma str_writer_close : forall seg buf, Str (writer_close seg buf).
  Proof. intros. unfold writer_close. str. Qed.
  Hint Resolve str_writer_close : str.
  Lemma str_writer_seal : forall seg buf, Str (writer_seal seg buf).
  Proof. intros. unfold writer_seal. str. Qed.
  Hint Resolve str_writer_seal : str.
  Lemma str_write_entry : forall seg buf ver payload, Str (write_entry H seg buf ver payload).
  Proof. intros. unfold write_entry. str. Qed.
  Hint Resolve str_write_entry : str.
  Lemma str_unlink_all : forall ps, Str (unlink_all ps).
  Proof. induction ps as [|p ps IH]; cbn [unlink_all]; str. Qed.
  Hint Resolve str_unlink_all : str.
  Lemma str_close : forall m, Str (close m).
  Proof. intros. unfold close. str. Qed.

  Section Cfg.
    Variable cfg : config.
    Lemma str_append_op : forall wl payload, Str (append_op H cfg wl payload).
    Proof. intros. unfold append_op. str. Qed.
    Hint Resolve str_append_op : str.
    Lemma str_prune_below : forall bound, Str (prune_below bound).
    Proof. intros. unfold prune_below. str. Qed.
    Hint Resolve str_prune_below : str.
    Lemma str_checkpoint_inner : forall reason m, Str (checkpoint_inner cfg reason m).
    Proof. intros. unfold checkpoint_inner. str. Qed.
    Hint Resolve str_checkpoint_inner : str.
    Lemma str_delete_blobs : forall hs, Str (delete_blobs hs).
    Proof. induction hs as [|h hs IH]; cbn [delete_blobs]; str. Qed.
    Hint Resolve str_delete_blobs : str.
    Lemma str_log_and_apply : forall m o, Str (log_and_apply H cfg m o).
    Proof. intros. unfold log_and_apply. str. Qed.
    Hint Resolve str_log_and_apply : str.
    Lemma str_new_staging : Str new_staging.
    Proof. unfold new_staging. str. Qed.
    Hint Resolve str_new_staging : str.
    Lemma str_drop_staging : forall p, Str (drop_staging p).
    Proof. intros. unfold drop_staging. str. Qed.
    Hint Resolve str_drop_staging : str.
    Lemma str_put : forall m k chunks, Str (put H cfg m k chunks).
    Proof. intros. unfold put. str. Qed.
    Lemma str_abort : forall m k chunks, Str (abort m k chunks).
    Proof. intros. unfold abort. str. Qed.
    Lemma str_remove : forall m k, Str (remove H cfg m k).
    Proof. intros. unfold remove. str. Qed.
    Lemma str_remove_range : forall m lo hi, Str (remove_range H cfg m lo hi).
    Proof. intros. unfold remove_range. str. Qed.
    Lemma str_checkpoint : forall m, Str (checkpoint cfg m).
    Proof. intros. unfold checkpoint. str. Qed.
  End Cfg.
End StrStore.

#[export] Hint Resolve str_mkdir_p str_mkdir_cas2 str_atomic_write str_bw_flush str_bw_write_all
  str_writer_close str_writer_seal str_write_entry str_unlink_all str_close str_append_op
  str_prune_below str_checkpoint_inner str_delete_blobs str_log_and_apply str_new_staging
  str_drop_staging str_put str_abort str_remove str_remove_range str_checkpoint : str.

Lemma str_step_api : forall H cfg m os o, api_op cfg o -> Str (step H (Some (mkHandle cfg m os)) o).
Proof.
  intros H cfg m os o A. destruct o; cbn [StoreHist.api_op] in A; try contradiction;
    cbn [step h_cfg h_mem h_ostats]; str.
Qed.

(* ------------------------------------------------------------------ *)
(* R1. the two-run logic                                               *)
(* ------------------------------------------------------------------ *)
Definition arm (n : nat) (w : world) : world := mkWorld (wfs w) (wtrace w) (wcount w) (Some n).

(* the filesystem predicate I is kept by every call of the class T *)
Definition keepsT (T : call -> Prop) (I : fs -> Prop) : Prop :=
  forall c, T c -> WorldRel.call_keeps I c.

(* a program all of whose calls are of class T (the clean-up of an error path), with a pure
   statement Q about its result; valid under any fault plan *)
Definition TailP (T : call -> Prop) {A} (m : M A) (Q : A -> Prop) : Prop :=
  forall I, keepsT T I -> FaultLogic.Inv I m Q.

Lemma firstn_app_len : forall {A} (l1 l2 : list A) j,
  firstn (length l1 + j) (l1 ++ l2) = l1 ++ firstn j l2.
Proof.
  intros A l1 l2 j. rewrite firstn_app. rewrite firstn_all2 by lia. f_equal. f_equal. lia.
Qed.

Lemma firstn_app_le : forall {A} (l1 l2 : list A) j, (j <= length l1)%nat ->
  firstn j (l1 ++ l2) = firstn j l1.
Proof.
  intros A l1 l2 j L. rewrite firstn_app. replace (j - length l1)%nat with 0%nat by lia.
  cbn [firstn]. apply app_nil_r.
Qed.

Lemma do_call_some : forall c w k s', apply_call c (wfs w) = Ok s' -> wfault w = Some k ->
  do_call c w = if Nat.eqb k (wcount w)
                then (Err EIO, mkWorld (wfs w) (TFault c :: wtrace w) (S (wcount w)) (Some k))
                else (Ok tt, mkWorld s' (TCall c :: wtrace w) (S (wcount w)) (Some k)).
Proof. intros c w k s' E F. unfold do_call. now rewrite E, F. Qed.

Section FR.
  Variable n : nat.                 (* index of the failing call *)
  Variable T : call -> Prop.        (* tail calls *)
  Variable K : call -> Prop.        (* a class of calls about which nothing is claimed *)

  Definition FR {A} (m : M A) (Q : A -> Prop) : Prop :=
    forall w, wfault w = None -> (wcount w <= n)%nat ->
      ((wcount (snd (m w)) <= n)%nat /\ m (arm n w) = (fst (m w), arm n (snd (m w))))
      \/
      ((n < wcount (snd (m w)))%nat /\ (n < wcount (snd (m (arm n w))))%nat /\
       wfault (snd (m (arm n w))) = Some n /\
       exists c tr' tr0,
         wtrace (snd (m (arm n w))) = tr' ++ wtrace w /\ In (TFault c) tr' /\
         wtrace (snd (m w)) = tr0 ++ wtrace w /\
         (~ K c ->
          Q (fst (m (arm n w))) /\
          exists j, (j <= length tr0)%nat /\
            forall I, keepsT T I ->
              I (replay_calls (firstn j (rev tr0)) (wfs w)) -> I (wfs (snd (m (arm n w)))))).

  Lemma fr_ret : forall {A} (a : A) Q, FR (ret a) Q.
  Proof. intros A a Q w F C. left. cbn [ret fst snd]. now split. Qed.

  Lemma fr_get_fs : forall Q, FR get_fs Q.
  Proof. intros Q w F C. left. cbn [get_fs fst snd]. now split. Qed.

  Lemma fr_read_file : forall p Q, FR (read_file p) Q.
  Proof. intros p Q w F C. left. cbn [read_file fst snd]. now split. Qed.

  Lemma fr_weaken : forall {A} (m : M A) (Q Q' : A -> Prop),
    (forall a, Q a -> Q' a) -> FR m Q -> FR m Q'.
  Proof.
    intros A m Q Q' I0 Hm w F C. destruct (Hm w F C) as [X|(X1 & X2 & X3 & c & tr' & tr0 & E1 & I1 & E0 & X)].
    - now left.
    - right. split; [exact X1|]. split; [exact X2|]. split; [exact X3|].
      exists c, tr', tr0. split; [exact E1|]. split; [exact I1|]. split; [exact E0|].
      intros NK. destruct (X NK) as [Qa J]. split; [now apply I0|exact J].
  Qed.

  (* the single call: when the fault hits it, the result is EIO and nothing happened *)
  Lemma fr_do_call : forall c, FR (do_call c) (fun r => r = Err EIO).
  Proof.
    intros c w F C. destruct (apply_call c (wfs w)) as [s'|e] eqn:E.
    - rewrite (do_call_ok c w s' F E), (do_call_some c (arm n w) n s' E eq_refl).
      cbn [arm wcount wfs wtrace].
      destruct (Nat.eqb n (wcount w)) eqn:Eq.
      + right. apply Nat.eqb_eq in Eq. cbn [fst snd wcount wfault wtrace wfs].
        split; [lia|]. split; [lia|]. split; [reflexivity|].
        exists c, [TFault c], [TCall c]. split; [reflexivity|]. split; [now left|].
        split; [reflexivity|]. intros _. split; [reflexivity|]. exists 0%nat. split; [cbn; lia|].
        intros I _ X. exact X.
      + left. apply Nat.eqb_neq in Eq. cbn [fst snd wcount]. split; [lia|reflexivity].
    - rewrite (do_call_err c w e E), (do_call_err c (arm n w) e E).
      left. cbn [fst snd]. split; [exact C|reflexivity].
  Qed.

  (* a call of the class K: nothing to show *)
  Lemma fr_do_call_K : forall c Q, K c -> FR (do_call c) Q.
  Proof.
    intros c Q Kc w F C. destruct (apply_call c (wfs w)) as [s'|e] eqn:E.
    - rewrite (do_call_ok c w s' F E), (do_call_some c (arm n w) n s' E eq_refl).
      cbn [arm wcount wfs wtrace].
      destruct (Nat.eqb n (wcount w)) eqn:Eq.
      + right. apply Nat.eqb_eq in Eq. cbn [fst snd wcount wfault wtrace wfs].
        split; [lia|]. split; [lia|]. split; [reflexivity|].
        exists c, [TFault c], [TCall c]. split; [reflexivity|]. split; [now left|].
        split; [reflexivity|]. intros NK. exfalso. exact (NK Kc).
      + left. apply Nat.eqb_neq in Eq. cbn [fst snd wcount]. split; [lia|reflexivity].
    - rewrite (do_call_err c w e E), (do_call_err c (arm n w) e E).
      left. cbn [fst snd]. split; [exact C|reflexivity].
  Qed.

  (* sequencing.  R: what is known of the result of m in every world (a pure fact, e.g. from
     FaultLogic.inv_result); Qm: what is known of it when the fault hit inside m (an error).
     If the fault hit inside m, the continuation runs the clean-up of the error path: calls of
     the class T only. *)
  Lemma fr_bind : forall {A B} (m : M A) (f : A -> M B) (R Qm : A -> Prop) (Q : B -> Prop),
    Str m -> (forall a, Str (f a)) ->
    (forall w, R (fst (m w))) ->
    FR m Qm ->
    (forall a, R a -> FR (f a) Q) ->
    (forall a, Qm a -> TailP T (f a) Q) ->
    FR (bind m f) Q.
  Proof.
    intros A B m f R Qm Q Sm Sf HR Hm Hf Ht w F C. unfold bind.
    pose proof (Sm w) as (F1 & C1 & t1 & E1 & R1). pose proof (HR w) as Ra.
    specialize (Hm w F C).
    destruct (m w) as [a0 w1] eqn:E0. cbn [fst snd] in *.
    destruct Hm as [(Cn & Er)|(X1 & X2 & X3 & c & tr' & tr0 & Et' & Ic & Et0 & X)].
    - (* the fault does not hit inside m *)
      rewrite Er. assert (F1' : wfault w1 = None) by congruence.
      specialize (Hf a0 Ra w1 F1' Cn). pose proof (Sf a0 w1) as (F2 & C2 & t2 & E2 & R2).
      destruct (f a0 w1) as [b0 w2] eqn:E2'. cbn [fst snd] in *.
      destruct Hf as [(Cn2 & Er2)|(Y1 & Y2 & Y3 & c & tr' & tr0 & Et' & Ic & Et0 & Y)].
      + left. split; [exact Cn2|exact Er2].
      + right. split; [exact Y1|]. split; [exact Y2|]. split; [exact Y3|].
        exists c, (tr' ++ t1), (tr0 ++ t1).
        split; [rewrite Et', E1; apply app_assoc|]. split; [apply in_or_app; now left|].
        split; [rewrite Et0, E1; apply app_assoc|].
        intros NK. destruct (Y NK) as (Qb & j & Lj & J). split; [exact Qb|].
        exists (length t1 + j)%nat. split; [rewrite app_length; lia|].
        intros I KI X. apply (J I KI).
        rewrite rev_app_distr, <- (rev_length t1), firstn_app_len, replay_calls_app, R1 in X.
        exact X.
    - (* the fault hits inside m: the rest is clean-up *)
      destruct (m (arm n w)) as [a wf1] eqn:Ef. cbn [fst snd] in *.
      pose proof (Sf a wf1) as (F2 & C2 & t2 & E2 & _).
      pose proof (Sf a0 w1) as (_ & C2' & t2' & E2' & _).
      right. split; [lia|]. split; [lia|]. split; [congruence|].
      exists c, (t2 ++ tr'), (t2' ++ tr0).
      split; [rewrite E2, Et'; apply app_assoc|]. split; [apply in_or_app; now right|].
      split; [rewrite E2', Et0; apply app_assoc|].
      intros NK. destruct (X NK) as (Qa & j & Lj & J).
      pose proof (Ht a Qa) as Tl. split.
      + assert (KT : keepsT T (fun _ => True)) by (intros c0 _ s s' _ _; exact I).
        exact (proj2 (Tl _ KT wf1 I)).
      + exists j. split; [rewrite app_length; lia|]. intros I KI Xj.
        refine (proj1 (Tl I KI wf1 _)). apply (J I KI).
        rewrite rev_app_distr, firstn_app_le in Xj by (rewrite rev_length; exact Lj). exact Xj.
  Qed.
End FR.

(* ------------------------------------------------------------------ *)
(* R2. FR for the programs of the store                                *)
(* ------------------------------------------------------------------ *)
Definition iserr {E X} (r : res E X) : Prop := match r with Err _ => True | Ok _ => False end.

(* ------------------------------------------------------------------ *)
(* R2a. which calls a program can issue at all: Calls                   *)
(* ------------------------------------------------------------------ *)
Definition Calls (C : call -> Prop) {A} (m : M A) : Prop :=
  forall w, exists tr, wtrace (snd (m w)) = tr ++ wtrace w /\
                       Forall (fun e => match e with TCall c | TFault c => C c end) tr.

Lemma calls_ret : forall C {A} (a : A), Calls C (ret a).
Proof. intros C A a w. exists []. split; [reflexivity|constructor]. Qed.

Lemma calls_bind : forall C {A B} (m : M A) (f : A -> M B),
  Calls C m -> (forall a, Calls C (f a)) -> Calls C (bind m f).
Proof.
  intros C A B m f Cm Cf w. unfold bind. destruct (Cm w) as (t1 & E1 & F1).
  destruct (m w) as [a w1]. cbn [snd] in *. destruct (Cf a w1) as (t2 & E2 & F2).
  destruct (f a w1) as [b w2]. cbn [snd] in *. exists (t2 ++ t1).
  split; [rewrite E2, E1; apply app_assoc|]. apply Forall_app. now split.
Qed.

Lemma calls_do_call : forall (C : call -> Prop) c, C c -> Calls C (do_call c).
Proof.
  intros C c Cc w. unfold do_call. destruct (apply_call c (wfs w)).
  - destruct (wfault w) as [k|]; [destruct (Nat.eqb k (wcount w))|]; cbn [snd wtrace].
    + exists [TFault c]. split; [reflexivity|]. constructor; [exact Cc|constructor].
    + exists [TCall c]. split; [reflexivity|]. constructor; [exact Cc|constructor].
    + exists [TCall c]. split; [reflexivity|]. constructor; [exact Cc|constructor].
  - exists []. split; [reflexivity|constructor].
Qed.

Lemma calls_get_fs : forall C, Calls C get_fs.
Proof. intros C w. exists []. split; [reflexivity|constructor]. Qed.

Lemma calls_weaken : forall (C C' : call -> Prop) {A} (m : M A),
  (forall c, C c -> C' c) -> Calls C m -> Calls C' m.
Proof.
  intros C C' A m I0 Cm w. destruct (Cm w) as (tr & E & Fa). exists tr. split; [exact E|].
  eapply Forall_impl; [|exact Fa]. intros [c|c]; apply I0.
Qed.

Create HintDb calls.
#[export] Hint Resolve calls_get_fs : calls.

Ltac calls leaf :=
  repeat (cbv beta iota zeta;
          first
            [ solve [auto with calls]
            | lazymatch goal with
              | |- forall _, _ => intro
              | |- Calls _ (ret _) => apply calls_ret
              | |- Calls _ (bind _ _) => apply calls_bind
              | |- Calls _ (do_call _) => apply calls_do_call; solve [leaf]
              | |- Calls _ (match ?x with _ => _ end) => destruct x
              end ]).

(* the calls of log_and_apply and of a checkpoint: on WAL segments, on index.tmp / index, and
   the removal of blobs *)
Definition LogCall (c : call) : Prop :=
  match c with
  | CCreate q | COpenAppend q | CAppend q _ | CSync q =>
    match q with PWal _ | PIndexTmp => True | _ => False end
  | CRename PIndexTmp PIndex => True
  | CUnlink (PWal _) | CUnlink (PCas _) => True
  | _ => False
  end.

Section CallsStore.
  Variable H : bytes -> bytes.
  Variable cfg : config.
  Local Ltac leaf := exact I.

  Lemma calls_bw_flush : forall seg buf, Calls LogCall (bw_flush (PWal seg) buf).
  Proof. intros. unfold bw_flush. calls leaf. Qed.
  Hint Resolve calls_bw_flush : calls.
  Lemma calls_bw_write_all : forall seg buf data, Calls LogCall (bw_write_all (PWal seg) buf data).
  Proof. intros. unfold bw_write_all. calls leaf. Qed.
  Hint Resolve calls_bw_write_all : calls.
  Lemma calls_writer_close : forall seg buf, Calls LogCall (writer_close seg buf).
  Proof. intros. unfold writer_close. calls leaf. Qed.
  Hint Resolve calls_writer_close : calls.
  Lemma calls_writer_seal : forall seg buf, Calls LogCall (writer_seal seg buf).
  Proof. intros. unfold writer_seal. calls leaf. Qed.
  Hint Resolve calls_writer_seal : calls.
  Lemma calls_write_entry : forall seg buf ver payload, Calls LogCall (write_entry H seg buf ver payload).
  Proof. intros. unfold write_entry. calls leaf. Qed.
  Hint Resolve calls_write_entry : calls.
  Lemma calls_append_op : forall wl payload, Calls LogCall (append_op H cfg wl payload).
  Proof. intros. unfold append_op. calls leaf. Qed.
  Hint Resolve calls_append_op : calls.
  Lemma calls_unlink_wals : forall ids, Calls LogCall (unlink_all (map PWal ids)).
  Proof. induction ids as [|i ids IH]; cbn [map unlink_all]; calls leaf. Qed.
  Hint Resolve calls_unlink_wals : calls.
  Lemma calls_prune_below : forall b, Calls LogCall (prune_below b).
  Proof. intros. unfold prune_below. calls leaf. Qed.
  Hint Resolve calls_prune_below : calls.
  Lemma calls_write_index : forall data, Calls LogCall (atomic_write PIndex PIndexTmp data).
  Proof. intros. unfold atomic_write. calls leaf. Qed.
  Hint Resolve calls_write_index : calls.
  Lemma calls_checkpoint_inner : forall reason m, Calls LogCall (checkpoint_inner cfg reason m).
  Proof. intros. unfold checkpoint_inner. calls leaf. Qed.
  Hint Resolve calls_checkpoint_inner : calls.
  Lemma calls_delete_blobs : forall hs, Calls LogCall (delete_blobs hs).
  Proof. induction hs as [|h hs IH]; cbn [delete_blobs]; calls leaf. Qed.
  Hint Resolve calls_delete_blobs : calls.
  Lemma calls_log_and_apply : forall m o, Calls LogCall (log_and_apply H cfg m o).
  Proof. intros. unfold log_and_apply. calls leaf. Qed.
  Hint Resolve calls_log_and_apply : calls.
  Lemma calls_remove : forall m k, Calls LogCall (remove H cfg m k).
  Proof. intros. unfold remove. calls leaf. Qed.
  Lemma calls_remove_range : forall m lo hi, Calls LogCall (remove_range H cfg m lo hi).
  Proof. intros. unfold remove_range. calls leaf. Qed.
End CallsStore.

(* [tailp]: a goal TailP T m Q, m a straight-line error path; leaves the pure goals *)
Ltac tailp :=
  let P := fresh "P" in let KP := fresh "KP" in
  intros P KP; inv_walk ltac:(apply KP; auto).

Section Progs.
  Variable n : nat.
  Variable T K : call -> Prop.
  (* the tail calls: a write to, and the removal of, a staging file *)
  Hypothesis TA : forall i b, T (CAppend (PStaging i) b).
  Hypothesis TU : forall i, T (CUnlink (PStaging i)).
  Variable H : bytes -> bytes.
  Variable cfg : config.

  Local Notation FR := (FR n T K).

  Lemma fr_bind' : forall {A B} (m : M A) (f : A -> M B) (Qm : A -> Prop) (Q : B -> Prop),
    Str m -> (forall a, Str (f a)) -> FR m Qm -> (forall a, FR (f a) Q) ->
    (forall a, Qm a -> TailP T (f a) Q) -> FR (bind m f) Q.
  Proof.
    intros A B m f Qm Q S1 S2 Hm Hf Ht.
    eapply (fr_bind n T K m f (fun _ => True) Qm Q); auto.
  Qed.

  Lemma fr_bind_err : forall {E X B} (m : M (res E X)) (f : res E X -> M B) (Q : B -> Prop),
    Str m -> (forall a, Str (f a)) -> FR m iserr ->
    (forall x, FR (f (Ok x)) Q) -> (forall e, FR (f (Err e)) Q) ->
    (forall e, TailP T (f (Err e)) Q) -> FR (bind m f) Q.
  Proof.
    intros E X B m f Q S1 S2 Hm Ho He Ht. eapply fr_bind'; [exact S1|exact S2|exact Hm| |].
    - intros [x|e]; auto.
    - intros [x|e] Qa; [destruct Qa|auto].
  Qed.

  Lemma fr_bind_err2 : forall {E X Y B} (m : M (res E X * Y)) (f : res E X * Y -> M B) (Q : B -> Prop),
    Str m -> (forall a, Str (f a)) -> FR m (fun r => iserr (fst r)) ->
    (forall x y, FR (f (Ok x, y)) Q) -> (forall e y, FR (f (Err e, y)) Q) ->
    (forall e y, TailP T (f (Err e, y)) Q) -> FR (bind m f) Q.
  Proof.
    intros E X Y B m f Q S1 S2 Hm Ho He Ht. eapply fr_bind'; [exact S1|exact S2|exact Hm| |].
    - intros [[x|e] y]; auto.
    - intros [[x|e] y] Qa; [destruct Qa|auto].
  Qed.

  Lemma fr_call_err : forall c, FR (do_call c) iserr.
  Proof. intros c. eapply fr_weaken; [|apply fr_do_call]. intros r ->. exact I. Qed.

  Lemma fr_call_any : forall c, FR (do_call c) (fun _ => True).
  Proof. intros c. eapply fr_weaken; [|apply fr_do_call]. auto. Qed.

  Lemma fr_mkdir_p : forall d, FR (mkdir_p d) iserr.
  Proof.
    intros d. unfold mkdir_p. eapply fr_bind' with (Qm := fun _ => False); [str|str|apply fr_get_fs| |].
    - intros s. destruct (has_dir s d); [apply fr_ret|apply fr_call_err].
    - intros a [].
  Qed.

  Lemma fr_mkdir_cas2 : forall a b, FR (mkdir_cas2 a b) iserr.
  Proof.
    intros a b. unfold mkdir_cas2. apply fr_bind_err; [str|str|apply fr_mkdir_p| | |].
    - intros x. apply fr_mkdir_p.
    - intros e. apply fr_ret.
    - intros e. tailp; try exact I.
  Qed.

  Lemma fr_new_staging : FR new_staging iserr.
  Proof.
    unfold new_staging. eapply fr_bind' with (Qm := fun _ => False); [str|str|apply fr_get_fs| |].
    - intros s. apply fr_bind_err; [str|str|apply fr_call_err| | |].
      + intros x. apply fr_ret.
      + intros e. apply fr_ret.
      + intros e. tailp; try exact I.
    - intros a [].
  Qed.

  Lemma fr_drop_ret : forall {B} i (b : B),
    FR (do! _ <- drop_staging (PStaging i) ;; ret b) (fun _ => True).
  Proof.
    intros B i b. eapply fr_bind' with (Qm := fun _ => True); [str|str| | |].
    - unfold drop_staging. eapply fr_bind' with (Qm := fun _ => True); [str|str|apply fr_call_any| |].
      + intros a. apply fr_ret.
      + intros a _. tailp; try exact I.
    - intros a. apply fr_ret.
    - intros a _. tailp; try exact I.
  Qed.

  Lemma tail_drop_ret : forall {B} i (b : B),
    TailP T (do! _ <- drop_staging (PStaging i) ;; ret b) (fun _ => True).
  Proof. intros B i b. unfold drop_staging. tailp; try exact I. Qed.

  Lemma fr_atomic_write : forall target tmp data, FR (atomic_write target tmp data) iserr.
  Proof.
    intros target tmp data. unfold atomic_write.
    apply fr_bind_err; [str|str|apply fr_call_err| |intros e; apply fr_ret|intros e; tailp; try exact I].
    intros x1. cbv beta iota.
    apply fr_bind_err; [str|str| | |intros e; apply fr_ret|intros e; tailp; try exact I].
    { destruct data; [apply fr_ret|apply fr_call_err]. }
    intros x2. cbv beta iota.
    apply fr_bind_err; [str|str|apply fr_call_err| |intros e; apply fr_ret|intros e; tailp; try exact I].
    intros x3. cbv beta iota. apply fr_call_err.
  Qed.

  Lemma fr_unlink_all : forall ps, FR (unlink_all ps) iserr.
  Proof.
    induction ps as [|p ps IH]; cbn [unlink_all]; [apply fr_ret|].
    apply fr_bind_err; [str|str|apply fr_call_err| |intros e; apply fr_ret|intros e; tailp; try exact I].
    intros x. exact IH.
  Qed.

  Lemma fr_prune_below : forall b, FR (prune_below b) (fun _ => True).
  Proof.
    intros b. unfold prune_below.
    eapply fr_bind' with (Qm := fun _ => False); [str|str|apply fr_get_fs| |intros a []].
    intros s. eapply fr_bind' with (Qm := fun _ => True); [str|str| | |].
    - eapply fr_weaken; [|apply fr_unlink_all]. auto.
    - intros a. apply fr_ret.
    - intros a _. tailp; try exact I.
  Qed.

  Lemma fr_checkpoint_inner : forall reason m, FR (checkpoint_inner cfg reason m) (fun _ => True).
  Proof.
    intros reason m. unfold checkpoint_inner. cbv zeta.
    match goal with |- FR (if ?c then _ else _) _ => destruct c end; [apply fr_ret|].
    apply fr_bind_err; [str|str|apply fr_atomic_write| |intros e; apply fr_ret|intros e; tailp; try exact I].
    intros x. cbv beta iota.
    eapply fr_bind' with (Qm := fun _ => True); [str|str| | |].
    - match goal with |- FR (if ?c then _ else _) _ => destruct c end; [apply fr_ret|apply fr_prune_below].
    - intros a. apply fr_ret.
    - intros a _. tailp; try exact I.
  Qed.

  Lemma fr_delete_blobs : forall hs, FR (delete_blobs hs) iserr.
  Proof.
    induction hs as [|h hs IH]; cbn [delete_blobs]; [apply fr_ret|].
    eapply fr_bind' with (Qm := fun r => r = Err EIO); [str|str|apply fr_do_call| |].
    - intros [u|[| |]]; try exact IH; apply fr_ret.
    - intros a ->. tailp; try exact I.
  Qed.

  Lemma fr_bw_flush : forall p buf, FR (bw_flush p buf) (fun r => iserr (fst r)).
  Proof.
    intros p buf. unfold bw_flush. destruct buf as [|x buf]; [apply fr_ret|].
    apply fr_bind_err; [str|str|apply fr_call_err| | |].
    - intros u. apply fr_ret.
    - intros e. apply fr_ret.
    - intros e. tailp; try exact I.
  Qed.

  Lemma fr_bw_write_all : forall p buf data, FR (bw_write_all p buf data) (fun r => iserr (fst r)).
  Proof.
    intros p buf data. unfold bw_write_all. cbv zeta.
    match goal with |- FR (if ?c then _ else _) _ => destruct c end; [apply fr_ret|].
    apply fr_bind_err2; [str|str| | |intros e y; apply fr_ret|intros e y; tailp; try exact I].
    - match goal with |- FR (if ?c then _ else _) _ => destruct c end; [apply fr_bw_flush|apply fr_ret].
    - intros x b1. cbv beta iota.
      match goal with |- FR (if ?c then _ else _) _ => destruct c end; [|apply fr_ret].
      eapply fr_bind' with (Qm := fun r => r = Err EIO); [str|str|apply fr_do_call| |].
      + intros a. apply fr_ret.
      + intros a ->. tailp; try exact I.
  Qed.

  (* a failing WAL append or fdatasync: the operation stops there, there is no clean-up call *)
  Lemma fr_write_entry : forall seg buf ver payload,
    FR (write_entry H seg buf ver payload) (fun r => iserr (fst r)).
  Proof.
    intros seg buf ver payload. unfold write_entry. cbv zeta.
    apply fr_bind_err2; [str|str|apply fr_bw_write_all| |intros e y; apply fr_ret|intros e y; tailp; try exact I].
    intros x b. cbv beta iota.
    apply fr_bind_err2; [str|str|apply fr_bw_flush| |intros e y; apply fr_ret|intros e y; tailp; try exact I].
    intros x' b'. cbv beta iota.
    apply fr_bind_err; [str|str|apply fr_call_err| | |].
    - intros u. apply fr_ret.
    - intros e. apply fr_ret.
    - intros e. tailp; try exact I.
  Qed.

  (* SegmentWriter::close with a non-empty buffer: when the flush fails, the BufWriter's Drop
     retries it -- the retried call IS the next call of the fault-free run *)
  Lemma writer_close_cons_unfold : forall seg x b w0,
    writer_close seg (x :: b) w0 =
    let '(r, w1) := do_call (CAppend (PWal seg) (x :: b)) w0 in
    match r with
    | Ok _ => let '(r2, w2) := do_call (CSync (PWal seg)) w1 in
              (match r2 with Ok _ => Ok tt | Err _ => Err EWalIo end, w2)
    | Err _ => let '(_, w2) := do_call (CAppend (PWal seg) (x :: b)) w1 in (Err EWalIo, w2)
    end.
  Proof.
    intros seg x b w0. unfold writer_close, bw_flush, bind, ret.
    destruct (do_call (CAppend (PWal seg) (x :: b)) w0) as [[u|e] w1].
    - destruct (do_call (CSync (PWal seg)) w1) as [[u2|e2] w2]; reflexivity.
    - destruct (do_call (CAppend (PWal seg) (x :: b)) w1) as [[u2|e2] w2]; reflexivity.
  Qed.

  Lemma fr_writer_close_cons : forall seg x b, FR (writer_close seg (x :: b)) iserr.
  Proof.
    intros seg x b w F C. rewrite !writer_close_cons_unfold.
    set (c1 := CAppend (PWal seg) (x :: b)). set (c2 := CSync (PWal seg)).
    destruct (apply_call c1 (wfs w)) as [s1|e1] eqn:E1.
    2:{ (* the append fails by itself: no call is counted *)
        rewrite (do_call_err c1 w e1 E1), (do_call_err c1 (arm n w) e1 E1).
        rewrite (do_call_err c1 w e1 E1), (do_call_err c1 (arm n w) e1 E1).
        left. cbn [fst snd]. now split. }
    rewrite (do_call_ok c1 w s1 F E1).
    set (w1 := mkWorld s1 (TCall c1 :: wtrace w) (S (wcount w)) None).
    rewrite (do_call_some c1 (arm n w) n s1 E1 eq_refl). cbn [arm wcount wfs wtrace].
    destruct (Nat.eqb n (wcount w)) eqn:Q1.
    - (* the append is hit; the retry succeeds *)
      apply Nat.eqb_eq in Q1.
      set (wa := mkWorld (wfs w) (TFault c1 :: wtrace w) (S (wcount w)) (Some n)).
      rewrite (do_call_some c1 wa n s1 E1 eq_refl). cbn [wa wcount wfs wtrace].
      replace (Nat.eqb n (S (wcount w))) with false by (symmetry; apply Nat.eqb_neq; lia).
      assert (G : forall tr0 : list tev, firstn 1 (rev tr0) = [TCall c1] ->
                 exists j, (j <= length tr0)%nat /\ forall I0 : fs -> Prop, keepsT T I0 ->
                   I0 (replay_calls (firstn j (rev tr0)) (wfs w)) -> I0 s1).
      { intros tr0 Fj. exists 1%nat. split.
        - destruct tr0 as [|e0 tr0]; [discriminate|]. cbn [length]. lia.
        - intros I0 _ X. rewrite Fj in X. cbn [replay_calls] in X. now rewrite E1 in X. }
      destruct (apply_call c2 s1) as [s2|e2] eqn:E2.
      + rewrite (do_call_ok c2 w1 s2 eq_refl E2).
        right. cbn [fst snd w1 wcount wfault wtrace wfs].
        split; [lia|]. split; [lia|]. split; [reflexivity|].
        exists c1, [TCall c1; TFault c1], [TCall c2; TCall c1].
        split; [reflexivity|]. split; [right; now left|]. split; [reflexivity|].
        intros _. split; [exact I|]. apply G. reflexivity.
      + rewrite (do_call_err c2 w1 e2 E2).
        right. cbn [fst snd w1 wcount wfault wtrace wfs].
        split; [lia|]. split; [lia|]. split; [reflexivity|].
        exists c1, [TCall c1; TFault c1], [TCall c1].
        split; [reflexivity|]. split; [right; now left|]. split; [reflexivity|].
        intros _. split; [exact I|]. apply G. reflexivity.
    - apply Nat.eqb_neq in Q1.
      set (wb := mkWorld s1 (TCall c1 :: wtrace w) (S (wcount w)) (Some n)).
      destruct (apply_call c2 s1) as [s2|e2] eqn:E2.
      + rewrite (do_call_ok c2 w1 s2 eq_refl E2).
        rewrite (do_call_some c2 wb n s2 E2 eq_refl). cbn [wb wcount wfs wtrace].
        destruct (Nat.eqb n (S (wcount w))) eqn:Q2.
        * (* the fdatasync is hit *)
          apply Nat.eqb_eq in Q2. right. cbn [fst snd w1 wcount wfault wtrace wfs].
          split; [lia|]. split; [lia|]. split; [reflexivity|].
          exists c2, [TFault c2; TCall c1], [TCall c2; TCall c1].
          split; [reflexivity|]. split; [now left|]. split; [reflexivity|].
          intros _. split; [exact I|]. exists 1%nat. split; [cbn; lia|].
          intros I0 _ X. cbn [rev app firstn replay_calls] in X. now rewrite E1 in X.
        * apply Nat.eqb_neq in Q2. left. cbn [fst snd w1 wcount]. split; [lia|reflexivity].
      + rewrite (do_call_err c2 w1 e2 E2), (do_call_err c2 wb e2 E2).
        left. cbn [fst snd w1 wcount]. split; [lia|reflexivity].
  Qed.

  Lemma fr_writer_close_nil : forall seg, FR (writer_close seg []) iserr.
  Proof.
    intros seg. unfold writer_close.
    eapply (fr_bind n T K) with (R := fun a => a = (Ok tt, [])) (Qm := fun _ => False);
      [str|str|reflexivity|apply (fr_ret n T K (Ok tt, []))| |intros a []].
    intros a ->. cbv beta iota.
    apply fr_bind_err; [str|str|apply fr_call_err| | |].
    - intros x. apply fr_ret.
    - intros e. apply fr_ret.
    - intros e. tailp; try exact I.
  Qed.

  Lemma writer_seal_nil : forall seg, writer_seal seg [] = writer_close seg (0 :: repeat 0 43).
  Proof. intros seg. reflexivity. Qed.

  Lemma fr_writer_seal_nil : forall seg, FR (writer_seal seg []) iserr.
  Proof. intros seg. rewrite writer_seal_nil. apply fr_writer_close_cons. Qed.

  (* the segment writer of a handle at rest holds no bytes *)
  Definition buf_empty (wl : wal) : Prop :=
    match writer wl with Some (_, b) => b = [] | None => True end.

  Lemma fr_append_op : forall wl payload, buf_empty wl ->
    FR (append_op H cfg wl payload) (fun r => iserr (fst r)).
  Proof.
    intros wl payload Hb. unfold append_op. cbv zeta.
    assert (OPEN : forall (w2 w3 : wal),
      FR (do! r <- do_call (COpenAppend (PWal (seg_of cfg (nextv wl)))) ;;
          match r with
          | Err _ => ret (Err EWalIo : res serr unit, w2)
          | Ok _ => ret (Ok tt, w3)
          end) (fun r => iserr (fst r))).
    { intros w2 w3. apply fr_bind_err; [str|str|apply fr_call_err| | |].
      - intros x. apply fr_ret.
      - intros e. apply fr_ret.
      - intros e. tailp; try exact I. }
    apply fr_bind_err2; [str|str| | |intros e y; apply fr_ret|intros e y; tailp; try exact I].
    - unfold buf_empty in Hb. destruct (writer wl) as [[s b]|].
      + subst b. destruct (negb (s =? seg_of cfg (nextv wl))); [|apply fr_ret].
        apply fr_bind_err; [str|str|apply fr_writer_seal_nil| |intros e; apply fr_ret|intros e; tailp; try exact I].
        intros x. cbv beta iota. apply OPEN.
      + eapply fr_bind' with (Qm := fun _ => False); [str|str|apply fr_ret| |intros a []].
        intros [u|e]; cbv beta iota; [apply OPEN|apply fr_ret].
    - intros x w2. cbv beta iota. destruct (writer w2) as [[s b]|]; [|apply fr_ret].
      apply fr_bind_err2; [str|str|apply fr_write_entry| | |].
      + intros u b'. apply fr_ret.
      + intros e b'. apply fr_ret.
      + intros e b'. tailp; try exact I.
  Qed.

  Lemma fr_log_and_apply : forall m o, buf_empty (mwal m) ->
    FR (log_and_apply H cfg m o) (fun _ => True).
  Proof.
    intros m o Hb. unfold log_and_apply. cbv zeta.
    apply fr_bind_err2; [str|str|apply fr_append_op; exact Hb| |intros e y; apply fr_ret|intros e y; tailp; try exact I].
    intros ver w'. cbv beta iota.
    destruct (apply_op (key_cmp (c_kt cfg)) (idx m) o) as [[i' unref]|e]; [|apply fr_ret].
    apply fr_bind_err; [str|str|apply fr_delete_blobs| |intros e; apply fr_ret|intros e; tailp; try exact I].
    intros x. cbv beta iota.
    match goal with |- FR (if ?c then _ else _) _ => destruct c end;
      [apply fr_checkpoint_inner|apply fr_ret].
  Qed.

  Lemma new_staging_shape : forall w,
    match fst (new_staging w) with Ok p => exists i, p = PStaging i | Err _ => True end.
  Proof.
    intros w.
    pose proof (inv_result new_staging _
                  (inv_new_staging (fun _ => True) (fun c _ s s' _ _ => I)) w) as X.
    destruct (fst (new_staging w)); [exact X|exact I].
  Qed.

  Lemma fr_put : forall m k chunks, buf_empty (mwal m) ->
    FR (put H cfg m k chunks) (fun _ => True).
  Proof.
    intros m k chunks Hb. unfold put. cbv zeta.
    eapply (fr_bind n T K) with
      (R := fun rp => match rp with Ok p => exists i, p = PStaging i | Err _ => True end)
      (Qm := iserr); [str|str|exact new_staging_shape|apply fr_new_staging| |].
    2:{ intros [p|e] Qa; [destruct Qa|]. tailp; try exact I. }
    intros [p|e] Rp; [|apply fr_ret]. destruct Rp as [i ->].
    apply fr_bind_err; [str|str| | | |].
    { destruct (concat chunks); [apply fr_ret|apply fr_call_err]. }
    2:{ intros e.
        eapply fr_bind' with (Qm := fun _ => True); [str|str| | |].
        - destruct (bw_sim 0 chunks); [apply fr_ret|apply fr_call_any].
        - intros a. apply fr_drop_ret.
        - intros a _. apply tail_drop_ret. }
    2:{ intros e. unfold drop_staging. tailp; try exact I. }
    intros x1. cbv beta iota.
    apply fr_bind_err; [str|str| | |intros e; apply fr_drop_ret|intros e; apply tail_drop_ret].
    { destruct (c_sync cfg); [apply fr_call_err|apply fr_ret]. }
    intros x2. cbv beta iota.
    apply fr_bind_err; [str|str| | |intros e; apply fr_drop_ret|intros e; apply tail_drop_ret].
    { destruct (mpre m); [apply fr_ret|apply fr_mkdir_cas2]. }
    intros x3. cbv beta iota.
    apply fr_bind_err; [str|str|apply fr_call_err| |intros e; apply fr_drop_ret|intros e; apply tail_drop_ret].
    intros x4. cbv beta iota. apply fr_log_and_apply. exact Hb.
  Qed.

  Lemma fr_abort : forall m k chunks, FR (abort m k chunks) (fun _ => True).
  Proof.
    intros m k chunks. unfold abort.
    eapply (fr_bind n T K) with
      (R := fun rp => match rp with Ok p => exists i, p = PStaging i | Err _ => True end)
      (Qm := iserr); [str|str|exact new_staging_shape|apply fr_new_staging| |].
    2:{ intros [p|e] Qa; [destruct Qa|]. tailp; try exact I. }
    intros [p|e] Rp; [|apply fr_ret]. destruct Rp as [i ->].
    apply fr_bind_err; [str|str| | |intros e; apply fr_drop_ret|intros e; apply tail_drop_ret].
    { destruct (bw_sim 0 chunks); [apply fr_call_err|apply fr_ret]. }
    intros x1. cbv beta iota.
    eapply fr_bind' with (Qm := fun _ => True); [str|str|apply fr_call_any| |].
    - intros u. eapply fr_bind' with (Qm := fun _ => True); [str|str| | |].
      + destruct u; destruct (concat chunks); try apply fr_ret.
        destruct (bw_sim 0 chunks); [apply fr_ret|apply fr_call_any].
      + intros a. apply fr_ret.
      + intros a _. tailp; try exact I.
    - intros u _. tailp; try exact I.
  Qed.

  Lemma fr_remove : forall m k, buf_empty (mwal m) -> FR (remove H cfg m k) (fun _ => True).
  Proof.
    intros m k Hb. unfold remove. destruct (sm_get (key_cmp (c_kt cfg)) (km (idx m)) k); [|apply fr_ret].
    eapply fr_bind' with (Qm := fun _ => True); [str|str|apply fr_log_and_apply; exact Hb| |].
    - intros [[u|e] m']; apply fr_ret.
    - intros [[u|e] m'] _; tailp; try exact I.
  Qed.

  Lemma fr_remove_range : forall m lo hi, buf_empty (mwal m) ->
    FR (remove_range H cfg m lo hi) (fun _ => True).
  Proof.
    intros m lo hi Hb. unfold remove_range.
    match goal with |- FR (if ?c then _ else _) _ => destruct c end; [apply fr_ret|].
    destruct (keys_in_range cfg m lo hi) as [|k0 ks]; [apply fr_ret|].
    eapply fr_bind' with (Qm := fun _ => True); [str|str|apply fr_log_and_apply; exact Hb| |].
    - intros [[u|e] m']; apply fr_ret.
    - intros [[u|e] m'] _; tailp; try exact I.
  Qed.

  Lemma fr_step : forall m os o, buf_empty (mwal m) -> api_op cfg o ->
    FR (step H (Some (mkHandle cfg m os)) o) (fun _ => True).
  Proof.
    intros m os o Hb A.
    assert (RD : forall (x : fs -> out * option handle),
              FR (do! s <- get_fs ;; ret (x s)) (fun _ => True)).
    { intros x. eapply fr_bind' with (Qm := fun _ => False); [str|str|apply fr_get_fs| |intros a []].
      intros s. apply fr_ret. }
    destruct o; cbn [StoreHist.api_op] in A; try contradiction;
      cbn [step h_cfg h_mem h_ostats]; try apply fr_ret;
      try (apply (RD (fun s => _))).
    - eapply fr_bind' with (Qm := fun _ => True); [str|str|apply fr_put; exact Hb| |].
      + intros a. apply fr_ret.
      + intros a _. tailp; try exact I.
    - eapply fr_bind' with (Qm := fun _ => True); [str|str|apply fr_abort| |].
      + intros a. apply fr_ret.
      + intros a _. tailp; try exact I.
    - eapply fr_bind' with (Qm := fun _ => True); [str|str|apply fr_remove; exact Hb| |].
      + intros a. apply fr_ret.
      + intros a _. tailp; try exact I.
    - eapply fr_bind' with (Qm := fun _ => True); [str|str|apply fr_remove_range; exact Hb| |].
      + intros a. apply fr_ret.
      + intros a _. tailp; try exact I.
    - eapply fr_bind' with (Qm := fun _ => True); [str|str|apply fr_checkpoint_inner| |].
      + intros a. apply fr_ret.
      + intros a _. tailp; try exact I.
  Qed.
  (* ---- the memory a failed operation returns, when the failing call is not a LogCall ---- *)
  Lemma fr_all_K : forall {A} (m : M A) (Q' Q : A -> Prop), FR m Q' -> Calls K m -> FR m Q.
  Proof.
    intros A m Q' Q Hm Cm w F C.
    destruct (Hm w F C) as [X|(X1 & X2 & X3 & c & tr' & tr0 & E1 & I1 & E0 & X)]; [now left|].
    right. split; [exact X1|]. split; [exact X2|]. split; [exact X3|].
    exists c, tr', tr0. split; [exact E1|]. split; [exact I1|]. split; [exact E0|].
    intros NK. exfalso. apply NK. destruct (Cm (arm n w)) as (tr & Et & Fa).
    change (wtrace (arm n w)) with (wtrace w) in Et. rewrite E1 in Et.
    apply app_inv_tail in Et. subst tr. rewrite Forall_forall in Fa. exact (Fa _ I1).
  Qed.

  Hypothesis KL : forall c, LogCall c -> K c.

  Lemma fr_log_K : forall m o (Q : res serr unit * mem -> Prop), buf_empty (mwal m) ->
    FR (log_and_apply H cfg m o) Q.
  Proof.
    intros m o Q Hb. eapply fr_all_K; [apply fr_log_and_apply; exact Hb|].
    eapply calls_weaken; [exact KL|apply calls_log_and_apply].
  Qed.

  Lemma fr_drop_ret' : forall {B} i (b : B) (Q : B -> Prop), Q b ->
    FR (do! _ <- drop_staging (PStaging i) ;; ret b) Q.
  Proof.
    intros B i b Q Qb. eapply fr_bind' with (Qm := fun _ => True); [str|str| | |].
    - unfold drop_staging. eapply fr_bind' with (Qm := fun _ => True); [str|str|apply fr_call_any| |].
      + intros a. apply fr_ret.
      + intros a _. tailp; try exact I.
    - intros a. apply fr_ret.
    - intros a _. tailp; exact Qb.
  Qed.

  Lemma tail_drop_ret' : forall {B} i (b : B) (Q : B -> Prop), Q b ->
    TailP T (do! _ <- drop_staging (PStaging i) ;; ret b) Q.
  Proof. intros B i b Q Qb. unfold drop_staging. tailp; exact Qb. Qed.

  Lemma fr_put_mem : forall m k chunks, buf_empty (mwal m) ->
    FR (put H cfg m k chunks) (fun rm => snd rm = m).
  Proof.
    intros m k chunks Hb. unfold put. cbv zeta.
    eapply (fr_bind n T K) with
      (R := fun rp => match rp with Ok p => exists i, p = PStaging i | Err _ => True end)
      (Qm := iserr); [str|str|exact new_staging_shape|apply fr_new_staging| |].
    2:{ intros [p|e] Qa; [destruct Qa|]. tailp; reflexivity. }
    intros [p|e] Rp; [|apply fr_ret]. destruct Rp as [i ->].
    apply fr_bind_err; [str|str| | | |].
    { destruct (concat chunks); [apply fr_ret|apply fr_call_err]. }
    2:{ intros e.
        eapply fr_bind' with (Qm := fun _ => True); [str|str| | |].
        - destruct (bw_sim 0 chunks); [apply fr_ret|apply fr_call_any].
        - intros a. apply fr_drop_ret'. reflexivity.
        - intros a _. apply tail_drop_ret'. reflexivity. }
    2:{ intros e. unfold drop_staging. tailp; reflexivity. }
    intros x1. cbv beta iota.
    apply fr_bind_err; [str|str| | |intros e; apply fr_drop_ret'; reflexivity
                                   |intros e; apply tail_drop_ret'; reflexivity].
    { destruct (c_sync cfg); [apply fr_call_err|apply fr_ret]. }
    intros x2. cbv beta iota.
    apply fr_bind_err; [str|str| | |intros e; apply fr_drop_ret'; reflexivity
                                   |intros e; apply tail_drop_ret'; reflexivity].
    { destruct (mpre m); [apply fr_ret|apply fr_mkdir_cas2]. }
    intros x3. cbv beta iota.
    apply fr_bind_err; [str|str|apply fr_call_err| |intros e; apply fr_drop_ret'; reflexivity
                                                    |intros e; apply tail_drop_ret'; reflexivity].
    intros x4. cbv beta iota. apply fr_log_K. exact Hb.
  Qed.

  Lemma fr_abort_mem : forall m k chunks, FR (abort m k chunks) (fun rm => snd rm = m).
  Proof.
    intros m k chunks. unfold abort.
    eapply (fr_bind n T K) with
      (R := fun rp => match rp with Ok p => exists i, p = PStaging i | Err _ => True end)
      (Qm := iserr); [str|str|exact new_staging_shape|apply fr_new_staging| |].
    2:{ intros [p|e] Qa; [destruct Qa|]. tailp; reflexivity. }
    intros [p|e] Rp; [|apply fr_ret]. destruct Rp as [i ->].
    apply fr_bind_err; [str|str| | |intros e; apply fr_drop_ret'; reflexivity
                                   |intros e; apply tail_drop_ret'; reflexivity].
    { destruct (bw_sim 0 chunks); [apply fr_call_err|apply fr_ret]. }
    intros x1. cbv beta iota.
    eapply fr_bind' with (Qm := fun _ => True); [str|str|apply fr_call_any| |].
    - intros u. eapply fr_bind' with (Qm := fun _ => True); [str|str| | |].
      + destruct u; destruct (concat chunks); try apply fr_ret.
        destruct (bw_sim 0 chunks); [apply fr_ret|apply fr_call_any].
      + intros a. apply fr_ret.
      + intros a _. tailp; reflexivity.
    - intros u _. tailp; reflexivity.
  Qed.

  Lemma fr_step_mem : forall m os o, buf_empty (mwal m) -> api_op cfg o ->
    FR (step H (Some (mkHandle cfg m os)) o) (fun r => snd r = Some (mkHandle cfg m os)).
  Proof.
    intros m os o Hb A.
    assert (RD : forall (x : fs -> out * option handle),
              FR (do! s <- get_fs ;; ret (x s)) (fun r => snd r = Some (mkHandle cfg m os))).
    { intros x. eapply fr_bind' with (Qm := fun _ => False); [str|str|apply fr_get_fs| |intros a []].
      intros s. apply fr_ret. }
    destruct o; cbn [StoreHist.api_op] in A; try contradiction;
      cbn [step h_cfg h_mem h_ostats]; try apply fr_ret;
      try (apply (RD (fun s => _))).
    - eapply fr_bind' with (Qm := fun rm => snd rm = m); [str|str|apply fr_put_mem; exact Hb| |].
      + intros a. apply fr_ret.
      + intros a Qa. tailp. cbn [snd]. now rewrite Qa.
    - eapply fr_bind' with (Qm := fun rm => snd rm = m); [str|str|apply fr_abort_mem| |].
      + intros a. apply fr_ret.
      + intros a Qa. tailp. cbn [snd]. now rewrite Qa.
    - eapply fr_bind' with (Qm := fun _ => False); [str|str| | |intros a []].
      + eapply fr_all_K; [apply fr_remove; exact Hb|].
        eapply calls_weaken; [exact KL|apply calls_remove].
      + intros a. apply fr_ret.
    - eapply fr_bind' with (Qm := fun _ => False); [str|str| | |intros a []].
      + eapply fr_all_K; [apply fr_remove_range; exact Hb|].
        eapply calls_weaken; [exact KL|apply calls_remove_range].
      + intros a. apply fr_ret.
    - eapply fr_bind' with (Qm := fun _ => False); [str|str| | |intros a []].
      + eapply fr_all_K; [apply fr_checkpoint_inner|].
        eapply calls_weaken; [exact KL|apply calls_checkpoint_inner].
      + intros a. apply fr_ret.
  Qed.
End Progs.

(* ------------------------------------------------------------------ *)
(* R3. the theorems                                                    *)
(* ------------------------------------------------------------------ *)
(* the known-finding class F4 (FaultWitness.v): an append to, or an fdatasync of, a WAL segment *)
Definition KnownClass (c : call) : Prop :=
  match c with CAppend (PWal _) _ | CSync (PWal _) => True | _ => False end.

(* the clean-up calls of the error paths: the retried flush into, and the removal of, the
   operation's own staging file *)
Definition StageTail (c : call) : Prop :=
  match c with CAppend (PStaging _) _ | CUnlink (PStaging _) => True | _ => False end.

(* benign faults: the failed operation touched nothing but its staging file and directories *)
Definition StageCall (c : call) : Prop :=
  match c with
  | CMkdir _ => True
  | CCreateExcl (PStaging _) | CAppend (PStaging _) _ | CSync (PStaging _) | CUnlink (PStaging _) => True
  | _ => False
  end.
Definition BlobRename (c : call) : Prop :=
  match c with CRename (PStaging _) (PCas _) => True | _ => False end.

Lemma log_not_benign : forall c, LogCall c -> StageCall c \/ BlobRename c -> False.
Proof.
  intros c L [S|S]; destruct c as [d|q|q|q|q b|q|a b|q]; cbn in *; try contradiction;
    try (destruct q; contradiction).
  destruct a; contradiction.
Qed.

(* x differs from s0 only in staging files and additional directories *)
Definition Agree (s0 x : fs) : Prop :=
  FsWf x /\ (forall d, In d (dirs s0) -> In d (dirs x)) /\
  forall q, ~ is_staging q -> fdat x q = fdat s0 q.

Lemma agree_call : forall s0 c x x', StageCall c -> Agree s0 x -> apply_call c x = Ok x' ->
  Agree s0 x'.
Proof.
  intros s0 c x x' Sc (W & Di & V) E. destruct (apply_call_view c x x' W E) as (W' & Di' & Vw).
  split; [exact W'|]. split; [auto|]. intros q Nq.
  assert (Ns : forall i, q <> PStaging i) by (intros i ->; apply Nq; exact I).
  destruct c as [d|p|p|p|p b|p|a b|p]; cbn [StageCall] in Sc; try contradiction;
    try (destruct p; try contradiction).
  - destruct Vw as [_ Vw]. rewrite Vw. now apply V.
  - destruct Vw as (_ & _ & _ & Vw). rewrite Vw, vset_other by apply Ns. now apply V.
  - destruct Vw as (_ & d & _ & Vw). rewrite Vw, vset_other by apply Ns. now apply V.
  - destruct Vw as [_ Vw]. rewrite Vw. now apply V.
  - destruct Vw as (_ & _ & Vw). rewrite Vw, vset_other by apply Ns. now apply V.
Qed.

Lemma agree_replay : forall s0 l x, (forall c, In (TCall c) l -> StageCall c) -> Agree s0 x ->
  Agree s0 (replay_calls l x).
Proof.
  intros s0. induction l as [|e l IH]; intros x Hl A; cbn [replay_calls]; [exact A|].
  assert (Hl' : forall c, In (TCall c) l -> StageCall c) by (intros c Ic; apply Hl; now right).
  destruct e as [c|c]; [|now apply IH].
  destruct (apply_call c x) as [x'|e] eqn:E; [|now apply IH].
  apply IH; [exact Hl'|]. eapply agree_call; [apply Hl; now left|exact A|exact E].
Qed.

Section Thm.
  Variable H : bytes -> bytes.
  Hypothesis H_len : forall b, length (H b) = 32%nat.
  Hypothesis H_byte : forall b, Forall (fun x => x < 256) (H b).
  Variable cfg : config.
  Hypothesis n_pos : 0 < c_n cfg.
  Let cmp := key_cmp (c_kt cfg).

  Local Notation DX L := (L H H_len H_byte cfg n_pos) (only parsing).
  Local Notation NoCollide := (NoCollide H).
  Local Notation Inv' := (Inv' H cfg).
  Local Notation Rest := (Rest H cfg).
  Local Notation RestD := (RestD H cfg).
  Local Notation LiveF := (LiveF H cfg).
  Local Notation spec_out := (spec_out H cfg).
  Local Notation api_op := (api_op cfg).
  Local Notation op_fits_at := (op_fits_at cfg).

  Lemma stage_tail_keeps : forall sg sg', keepsT StageTail (RestD sg sg').
  Proof.
    intros sg sg' c Tc. apply (restd_keeps H cfg);
      destruct c as [d|q|q|q|q b|q|a b|q]; cbn [StageTail] in Tc; try contradiction;
      destruct q; try contradiction; cbn [harmless]; right; try left; exact I.
  Qed.

  Lemma inv'_buf_empty : forall m s sg, Inv' m s sg -> buf_empty (mwal m).
  Proof.
    intros m s sg (L & _). destruct (lv_wal _ _ _ _ _ L) as [_ Hw]. unfold buf_empty.
    destruct (writer (mwal m)) as [[s0 b]|]; [exact (proj1 Hw)|exact I].
  Qed.

  (* the filesystem after ONE operation whose j-th effective call (any j) failed with EIO *)
  Theorem fault_op_rest : forall m s sg os o w j,
    Inv' m s sg -> wfs w = s -> wfault w = None -> api_op o ->
    NoCollide (op_contents o ++ map snd sg) -> op_fits_at sg o ->
    N.of_nat (length sg) + 1 < 2 ^ 32 -> nextv (mwal m) < 2 ^ 64 ->
    let w' := snd (step H (Some (mkHandle cfg m os)) o (arm (wcount w + j) w)) in
    Rest (wfs w') sg \/ Rest (wfs w') (spec_step cmp sg o).
  Proof.
    intros m s sg os o w j IV Ws F A NC Fit Ln Lv. cbv zeta.
    destruct (DX step_walk m s sg os o w IV Ws F A NC Fit Ln Lv) as (m1 & w1 & E1 & F1 & IV1 & _ & K).
    pose proof (fr_step (wcount w + j) StageTail (fun _ => False)
                  (fun i b => I) (fun i => I) H cfg m os o (inv'_buf_empty _ _ _ IV) A w F) as X.
    rewrite E1 in X. cbn [fst snd] in X.
    destruct X as [(_ & Er)|(_ & _ & _ & c & tr' & tr0 & _ & _ & Et0 & X)]; [lia| |].
    - rewrite Er. cbn [snd arm wfs]. right. exact (DX rest_of_inv' _ _ _ IV1).
    - destruct (X (fun f => f)) as (_ & j' & Lj & J).
      apply (J (RestD sg (spec_step cmp sg o)) (stage_tail_keeps _ _)).
      destruct K as (_ & tr & Et & _ & Al). rewrite Et in Et0. apply app_inv_tail in Et0. subst tr0.
      apply (restdb_rest H cfg (nextv (mwal m) + 1)). now apply Al.
  Qed.

  (* C14, the reopen clause, for ONE operation and EVERY position of the fault: from a handle at
     rest (hypotheses of C03_crash_any_instant), run one API operation while its j-th effective
     filesystem call fails with EIO (j beyond the last call: no failure).  The operation
     returns, never with a panic; in memory the handle is consistent with the old or the new map
     (LiveF, C14_put_fault_contained); the filesystem satisfies Rest for the old or the new
     map; a fresh open_with_recover on it succeeds and yields a handle satisfying Inv' for that
     map.  Note: no hypothesis on the failing call -- see the remark at the corollary below. *)
  Theorem C14_reopen_after_any_single_fault_op : forall m s sg os o w j,
    Inv' m s sg -> wfs w = s -> wfault w = None -> api_op o ->
    NoCollide (op_contents o ++ map snd sg) -> op_fits_at sg o ->
    N.of_nat (length sg) + 1 < 2 ^ 32 -> nextv (mwal m) < 2 ^ 64 ->
    let '((x, hd'), w') := step H (Some (mkHandle cfg m os)) o (arm (wcount w + j) w) in
    x <> OutErr EPanic /\
    (exists m', hd' = Some (mkHandle cfg m' os) /\
                (LiveF m' (wfs w') sg \/ LiveF m' (wfs w') (spec_step cmp sg o))) /\
    (Rest (wfs w') sg \/ Rest (wfs w') (spec_step cmp sg o)) /\
    exists m2 os2 w2,
      open_with_recover H cfg (init_world (wfs w') None) = (Ok (m2, os2), w2) /\
      (Inv' m2 (wfs w2) sg \/ Inv' m2 (wfs w2) (spec_step cmp sg o)).
  Proof.
    intros m s sg os o w j IV Ws F A NC Fit Ln Lv.
    pose proof (fault_op_rest m s sg os o w j IV Ws F A NC Fit Ln Lv) as R. cbv zeta in R.
    pose proof IV as (L & _).
    assert (LF : LiveF m (wfs (arm (wcount w + j) w)) sg).
    { cbn [arm wfs]. rewrite Ws. now apply Live0_LiveF. }
    pose proof (DX step_fault m sg os o (arm (wcount w + j) w) LF A NC) as S.
    destruct (step H (Some (mkHandle cfg m os)) o (arm (wcount w + j) w)) as [[x hd'] w'].
    cbn [snd] in R. destruct S as (m' & Eh & S).
    split; [|split; [|split; [exact R|]]].
    - destruct S as [[-> _]|(_ & (e & -> & Ne) & _)]; [apply spec_out_no_panic|congruence].
    - exists m'. split; [exact Eh|]. destruct S as [[_ S]|(_ & _ & S)]; [now right|exact S].
    - assert (Op : forall sgx, Rest (wfs w') sgx ->
                exists m2 os2 w2,
                  open_with_recover H cfg (init_world (wfs w') None) = (Ok (m2, os2), w2) /\
                  Inv' m2 (wfs w2) sgx).
      { intros sgx Rx.
        destruct (DX rest_open (wfs w') sgx (init_world (wfs w') None) Rx eq_refl eq_refl)
          as (m2 & os2 & w2 & Eo & _ & L2 & D2 & W2 & _).
        exists m2, os2, w2. split; [exact Eo|]. split; [exact L2|]. split; [exact D2|exact W2]. }
      destruct R as [R|R]; destruct (Op _ R) as (m2 & os2 & w2 & Eo & IV2);
        exists m2, os2, w2; (split; [exact Eo|]); [now left|now right].
  Qed.

  (* The statement asked for: the failing call is outside the known class.  It is a corollary of
     the theorem above, which needs no such hypothesis: for ONE operation followed directly by
     the reopen, the clause also holds when the failing call IS a WAL append / fdatasync (the
     record is then only in the writer's buffer -- the disk shows the old map -- or already in
     the segment file -- the disk shows the new map).  The known finding F4 needs a LATER
     operation of the same process that reclaims the blob the stale record names
     (FaultWitness.C14_refuted_on_known_class; restated in R4). *)
  Theorem C14_reopen_after_fault_outside_known_class_op : forall m s sg os o w j,
    Inv' m s sg -> wfs w = s -> wfault w = None -> api_op o ->
    NoCollide (op_contents o ++ map snd sg) -> op_fits_at sg o ->
    N.of_nat (length sg) + 1 < 2 ^ 32 -> nextv (mwal m) < 2 ^ 64 ->
    let '((x, hd'), w') := step H (Some (mkHandle cfg m os)) o (arm (wcount w + j) w) in
    (forall c, In (TFault c) (new_trace w w') -> ~ KnownClass c) ->
    x <> OutErr EPanic /\
    (exists m', hd' = Some (mkHandle cfg m' os) /\
                (LiveF m' (wfs w') sg \/ LiveF m' (wfs w') (spec_step cmp sg o))) /\
    (Rest (wfs w') sg \/ Rest (wfs w') (spec_step cmp sg o)) /\
    exists m2 os2 w2,
      open_with_recover H cfg (init_world (wfs w') None) = (Ok (m2, os2), w2) /\
      (Inv' m2 (wfs w2) sg \/ Inv' m2 (wfs w2) (spec_step cmp sg o)).
  Proof.
    intros m s sg os o w j IV Ws F A NC Fit Ln Lv.
    pose proof (C14_reopen_after_any_single_fault_op m s sg os o w j IV Ws F A NC Fit Ln Lv) as X.
    destruct (step H (Some (mkHandle cfg m os)) o (arm (wcount w + j) w)) as [[x hd'] w'].
    intros _. exact X.
  Qed.
  (* ---------------------------------------------------------------- *)
  (* benign faults: the handle invariant survives, histories go on     *)
  (* ---------------------------------------------------------------- *)
  Lemma rest_fresh : forall x sg, Rest x sg -> stage_fresh x.
  Proof.
    intros x sg (_ & _ & [(c & nv & pre & (_ & Sf & _) & _)|(_ & _ & _ & Sf & _)]); exact Sf.
  Qed.

  Lemma agree_inv' : forall m s0 x sg, Inv' m s0 sg -> Agree s0 x -> stage_fresh x -> Inv' m x sg.
  Proof.
    intros m s0 x sg (L & D & W0) (W & Di & V) Sf.
    assert (Nc : forall h, ~ is_staging (cas_path h)) by (intros h X; exact X).
    split; [|split; [|exact W]].
    - destruct L as [L1 L2 L3 L4 L5 L6 L7 L8]. constructor; try assumption.
      + intros k c Ik. apply fdat_some. rewrite V by apply Nc. apply fdat_some. now apply (L5 k).
      + intros i Li. apply fdat_none. now apply Sf.
      + destruct L7 as (D1 & D2 & D3). split; [apply has_dir_iff, Di, has_dir_iff, D1|].
        split; [apply has_dir_iff, Di, has_dir_iff, D2|].
        eapply pre_dirs_mono; [exact Di|exact D3].
      + destruct L8 as [N1 Hw]. split; [exact N1|].
        destruct (writer (mwal m)) as [[sgm buf]|]; [|exact I].
        destruct Hw as (B & G & Hw). split; [exact B|]. split; [|exact Hw].
        intros X. apply G. apply fdat_none. rewrite <- V by (intros Y; exact Y). now apply fdat_none.
    - unfold CrashInv.DiskOk' in *. eapply (DiskOkW_ext H cfg); [| | |exact D];
        intros; apply V; intros Y; exact Y.
  Qed.

  (* If the failed operation touched nothing but its own staging file and directories (every
     effective call of the faulted run is a StageCall) and the failing call is such a call or the
     rename of the staged blob into cas/ -- i.e. a put / abort that fails before its blob is
     published -- then the handle is EXACTLY as before in memory and satisfies the full handle
     invariant Inv' for the old map on the filesystem left behind.  (Second alternative: the
     fault did not strike inside the operation, which completed as specified.) *)
  Theorem C14_benign_fault_keeps_invariant : forall m s sg os o w j,
    Inv' m s sg -> wfs w = s -> wfault w = None -> api_op o ->
    NoCollide (op_contents o ++ map snd sg) -> op_fits_at sg o ->
    N.of_nat (length sg) + 1 < 2 ^ 32 -> nextv (mwal m) < 2 ^ 64 ->
    let '((x, hd'), w') := step H (Some (mkHandle cfg m os)) o (arm (wcount w + j) w) in
    (forall c, In (TCall c) (new_trace w w') -> StageCall c) ->
    (forall c, In (TFault c) (new_trace w w') -> StageCall c \/ BlobRename c) ->
    (hd' = Some (mkHandle cfg m os) /\ Inv' m (wfs w') sg)
    \/ (x = spec_out sg o /\
        exists m', hd' = Some (mkHandle cfg m' os) /\ Inv' m' (wfs w') (spec_step cmp sg o) /\
                   nextv (mwal m') <= nextv (mwal m) + 1).
  Proof.
    intros m s sg os o w j IV Ws F A NC Fit Ln Lv.
    destruct (DX step_walk m s sg os o w IV Ws F A NC Fit Ln Lv) as (m1 & w1 & E1 & F1 & IV1 & Nv1 & K).
    pose proof (fr_step_mem (wcount w + j) StageTail LogCall
                  (fun i b => I) (fun i => I) H cfg (fun c L => L) m os o
                  (inv'_buf_empty _ _ _ IV) A w F) as X.
    pose proof (fault_op_rest m s sg os o w j IV Ws F A NC Fit Ln Lv) as R. cbv zeta in R.
    pose proof (str_step_api H cfg m os o A (arm (wcount w + j) w)) as (_ & _ & tr & Et & Rp).
    rewrite E1 in X. cbn [fst snd] in X.
    destruct X as [(_ & Er)|(_ & _ & _ & c & tr' & tr0 & Et' & Ic & _ & X)]; [lia| |].
    - rewrite Er. intros _ _. right. split; [reflexivity|]. exists m1. split; [reflexivity|].
      split; [exact IV1|exact Nv1].
    - destruct (step H (Some (mkHandle cfg m os)) o (arm (wcount w + j) w)) as [[x hd'] w'].
      cbn [fst snd] in *. intros HG1 HG2. rewrite (new_trace_app w w' tr' Et') in HG1, HG2.
      left. change (wtrace (arm (wcount w + j) w)) with (wtrace w) in Et.
      change (wfs (arm (wcount w + j) w)) with (wfs w) in Rp.
      rewrite Et' in Et. apply app_inv_tail in Et. subst tr.
      assert (NL : ~ LogCall c) by (intros L; exact (log_not_benign c L (HG2 c Ic))).
      destruct (X NL) as (Q & _). split; [exact Q|].
      assert (Ag : Agree s (wfs w')).
      { rewrite <- Rp, Ws. apply agree_replay.
        - intros c0 I0. apply HG1. now apply in_rev.
        - destruct IV as (_ & _ & W0). split; [exact W0|]. split; auto. }
      apply (agree_inv' m s (wfs w') sg IV Ag).
      destruct R as [R|R]; exact (rest_fresh _ _ R).
  Qed.

  (* hence any further history -- operations, restarts, crashes at any instant, crashes during
     recovery (CrashHist.ev) -- run from there (the single fault of the plan is spent: the world
     is fault-free again, [disarm]) ends in a handle satisfying Inv' for a map allowed by the
     history, starting from the old map or from the operation's result *)
  Definition disarm (w : world) : world := mkWorld (wfs w) (wtrace w) (wcount w) None.

  Theorem C14_history_after_benign_fault : forall m s sg os o w j (h : list ev),
    Inv' m s sg -> wfs w = s -> wfault w = None -> api_op o ->
    NoCollide (flat_map ev_contents h ++ op_contents o ++ map snd sg) -> op_fits_at sg o ->
    ext_fits cfg sg h -> ext_fits cfg (spec_step cmp sg o) h ->
    N.of_nat (length sg) + 1 + N.of_nat (length h) < 2 ^ 32 ->
    N.of_nat (length (spec_step cmp sg o)) + N.of_nat (length h) < 2 ^ 32 ->
    nextv (mwal m) + 1 + N.of_nat (length h) <= 2 ^ 32 ->
    let '((x, hd'), w') := step H (Some (mkHandle cfg m os)) o (arm (wcount w + j) w) in
    (forall c, In (TCall c) (new_trace w w') -> StageCall c) ->
    (forall c, In (TFault c) (new_trace w w') -> StageCall c \/ BlobRename c) ->
    exists hd1, hd' = Some hd1 /\
    exists hd2 w2,
      run_ext H cfg (hd1, disarm w') h = Some (hd2, w2) /\ h_cfg hd2 = cfg /\
      exists sgf, (allowed cfg sg h sgf \/ allowed cfg (spec_step cmp sg o) h sgf) /\
                  Inv' (h_mem hd2) (wfs w2) sgf.
  Proof.
    intros m s sg os o w j h IV Ws F A NC Fit Fh Fh' Ln Ln' Lv.
    assert (NCo : NoCollide (op_contents o ++ map snd sg)).
    { eapply (NoCollide_incl H); [|exact NC]. intros y Iy. apply in_or_app. now right. }
    assert (Lv0 : nextv (mwal m) < 2 ^ 64) by (pow_consts; lia).
    assert (Ln0 : N.of_nat (length sg) + 1 < 2 ^ 32) by lia.
    pose proof (C14_benign_fault_keeps_invariant m s sg os o w j IV Ws F A NCo Fit Ln0 Lv0) as X.
    destruct (step H (Some (mkHandle cfg m os)) o (arm (wcount w + j) w)) as [[x hd'] w'].
    intros HG1 HG2. specialize (X HG1 HG2).
    destruct X as [(-> & IV')|(_ & m' & -> & IV' & Nv')].
    - eexists. split; [reflexivity|].
      destruct (DX run_ext_ok h m os (disarm w') sg IV' eq_refl) as (hd2 & w2 & E & C & _ & sgf & Al & IV2).
      + eapply (NoCollide_incl H); [|exact NC]. intros y Iy. apply in_app_or in Iy.
        apply in_or_app. destruct Iy as [Iy|Iy]; [now left|right; apply in_or_app; now right].
      + exact Fh.
      + lia.
      + lia.
      + exists hd2, w2. split; [exact E|]. split; [exact C|]. exists sgf. split; [now left|exact IV2].
    - eexists. split; [reflexivity|].
      destruct (DX run_ext_ok h m' os (disarm w') (spec_step cmp sg o) IV' eq_refl)
        as (hd2 & w2 & E & C & _ & sgf & Al & IV2).
      + eapply (NoCollide_incl H); [|exact NC]. intros y Iy. apply in_app_or in Iy.
        apply in_or_app. destruct Iy as [Iy|Iy]; [now left|right].
        apply (spec_step_contents cfg) in Iy. apply in_or_app. exact Iy.
      + exact Fh'.
      + exact Ln'.
      + lia.
      + exists hd2, w2. split; [exact E|]. split; [exact C|]. exists sgf. split; [now right|exact IV2].
  Qed.
End Thm.

(* ------------------------------------------------------------------ *)
(* R4. computed instances (toy hash), next to the known refutation      *)
(* ------------------------------------------------------------------ *)
(* the injected fault hit a call satisfying f *)
Definition fault_hits (f : call -> bool) (w : world) : Prop :=
  existsb (fun e => match e with TFault c => f c | _ => false end) (wtrace w) = true.
(* the open's statistics are irrelevant here *)
Definition noos (o : out) : out := match o with OutOpened _ => OutOpened None | x => x end.

Definition cY : bytes := [20; 21].
(* num_ops_per_wal = 2: the third put rolls the segment over and checkpoints *)
Definition cfg2 : config := mkConfig KBytes 2 true false true false true.
Definition k1 : bytes := [1].
Definition k2 : bytes := [2].
Definition k3 : bytes := [3].
Definition d1 : bytes := [10].
Definition d2 : bytes := [20; 21].
Definition d3 : bytes := [30; 31; 32].
Definition opsR : list op :=
  [OpOpen cfgK false; OpPut kB [cX]; OpPut kA [cY]; OpGet kA; OpClose; OpOpen cfgK true;
   OpGet kA; OpGet kB].
Definition ops2 : list op :=
  [OpOpen cfg2 false; OpPut k1 [d1]; OpPut k2 [d2]; OpPut k3 [d3]; OpGet k3; OpClose;
   OpOpen cfg2 true; OpGet k3; OpGet k1].

(* (a) EIO at the rename of the staged blob into cas/: put kA fails (EMoveStaged); the reopen
   (with the integrity gate) succeeds and shows the OLD map: kA absent, kB intact *)
Example reopen_after_fault_at_blob_rename :
  let r := run_hist toyH empty_fs (Some 23%nat) opsR in
  fault_hits (fun c => match c with CRename (PStaging _) (PCas _) => true | _ => false end) (world_of r) /\
  map noos (outs_of r)
  = [OutOpened None; OutUnit; OutErr EMoveStaged; OutBytes None; OutUnit; OutOpened None;
     OutBytes None; OutBytes (Some cX)].
Proof. vm_compute. split; reflexivity. Qed.

(* (a') the same fault seen as ONE faulted operation on the handle left by the first two
   operations: the hypotheses of C14_benign_fault_keeps_invariant hold (every effective call of
   the failed put is a StageCall, the failing call is the rename of the staged blob) *)
Definition stage_callb (c : call) : bool :=
  match c with
  | CMkdir _ => true
  | CCreateExcl (PStaging _) | CAppend (PStaging _) _ | CSync (PStaging _) | CUnlink (PStaging _) => true
  | _ => false
  end.
Definition blob_renameb (c : call) : bool :=
  match c with CRename (PStaging _) (PCas _) => true | _ => false end.

Example benign_fault_instance :
  let '(r, w) := run_ops toyH None [OpOpen cfgK false; OpPut kB [cX]] (init_world empty_fs None) in
  match snd r with
  | Some hd =>
    let '((x, hd'), w') := step toyH (Some hd) (OpPut kA [cY]) (arm (wcount w + 5) w) in
    x = OutErr EMoveStaged /\
    forallb (fun e => match e with
                      | TCall c => stage_callb c
                      | TFault c => stage_callb c || blob_renameb c
                      end) (new_trace w w') = true /\
    existsb (fun e => match e with TFault c => blob_renameb c | _ => false end) (new_trace w w') = true
  | None => False
  end.
Proof. vm_compute. repeat split; reflexivity. Qed.

(* (b) EIO at the creation of index.tmp in the roll-over checkpoint of the third put: the put
   reports EIndexWrite although its record is durable; the reopen succeeds and shows the NEW map *)
Example reopen_after_fault_at_index_tmp :
  let r := run_hist toyH empty_fs (Some 37%nat) ops2 in
  fault_hits (fun c => match c with CCreate PIndexTmp => true | _ => false end) (world_of r) /\
  map noos (outs_of r)
  = [OutOpened None; OutUnit; OutUnit; OutErr EIndexWrite; OutBytes (Some d3); OutUnit;
     OutOpened None; OutBytes (Some d3); OutBytes (Some d1)].
Proof. vm_compute. split; reflexivity. Qed.

(* (c) the calls on WAL files that are NOT record appends: EIO at the append of the end marker
   when the full segment is sealed (the BufWriter's drop retries it), at the fdatasync of the
   sealed segment, at the creation of the next segment file.  The put fails (EWalIo), the
   reopen succeeds and shows the OLD map.  (KnownClass, being a predicate on the call alone,
   contains the first two; they are harmless for the reopen.) *)
Example reopen_after_fault_at_seal :
  forall n, In n [32%nat; 33%nat; 34%nat] ->
  let r := run_hist toyH empty_fs (Some n) ops2 in
  fault_hits (fun c => match c with
                       | CAppend (PWal 0) _ | CSync (PWal 0) | COpenAppend (PWal 1) => true
                       | _ => false end) (world_of r) /\
  map noos (outs_of r)
  = [OutOpened None; OutUnit; OutUnit; OutErr EWalIo; OutBytes None; OutUnit;
     OutOpened None; OutBytes None; OutBytes (Some d1)].
Proof.
  intros n [<-|[<-|[<-|[]]]]; vm_compute; split; reflexivity.
Qed.

(* (d) INSIDE the known class, one operation only: EIO at the append of the record of put kA.
   Reopening at once (the process is gone, the record was only in its buffer) shows the old map;
   closing first flushes the stale record and the reopen shows the new map.  Both succeed:
   the single-operation theorem needs no hypothesis on the failing call. *)
Example reopen_after_wal_append_fault_single_op :
  let r1 := run_hist toyH empty_fs (Some 24%nat)
              [OpOpen cfgK false; OpPut kB [cX]; OpPut kA [cY]; OpOpen cfgK true; OpGet kA; OpGet kB] in
  let r2 := run_hist toyH empty_fs (Some 24%nat)
              [OpOpen cfgK false; OpPut kB [cX]; OpPut kA [cY]; OpClose; OpOpen cfgK true; OpGet kA; OpGet kB] in
  fault_hits_wal_append (world_of r1) /\ fault_hits_wal_append (world_of r2) /\
  map noos (outs_of r1)
  = [OutOpened None; OutUnit; OutErr EWalIo; OutOpened None; OutBytes None; OutBytes (Some cX)] /\
  map noos (outs_of r2)
  = [OutOpened None; OutUnit; OutErr EWalIo; OutUnit; OutOpened None; OutBytes (Some cY);
     OutBytes (Some cX)].
Proof. vm_compute. repeat split; reflexivity. Qed.

(* (e) the known refutation, restated (FaultWitness.v): inside the class, with ONE MORE operation
   of the same process after the failed one (remove kB reclaims the blob the stale record
   names), the reopen fails *)
Theorem C14_reopen_refuted_inside_known_class :
  exists (n : nat) (ops : list op),
    let r := run_hist toyH empty_fs (Some n) ops in
    fault_hits_wal_append (world_of r) /\ last (outs_of r) OutUnit = OutErr EIntegrity.
Proof. exact FaultWitness.C14_refuted_on_known_class. Qed.

Print Assumptions fr_bind.
Print Assumptions fr_writer_close_cons.
Print Assumptions fr_step.
Print Assumptions fault_op_rest.
Print Assumptions C14_reopen_after_any_single_fault_op.
Print Assumptions C14_reopen_after_fault_outside_known_class_op.
Print Assumptions C14_benign_fault_keeps_invariant.
Print Assumptions C14_history_after_benign_fault.
Print Assumptions reopen_after_fault_at_blob_rename.
Print Assumptions benign_fault_instance.
Print Assumptions reopen_after_fault_at_index_tmp.
Print Assumptions reopen_after_fault_at_seal.
Print Assumptions reopen_after_wal_append_fault_single_op.
Print Assumptions C14_reopen_refuted_inside_known_class.
