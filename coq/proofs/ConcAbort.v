(* ConcAbort.v -- C13, concurrent clause: a transaction dropped without finish() touches no shared
   state of the concurrent model (index, intents, CAS, version counter, locks) and no other thread;
   hence it commutes with every step of every other thread. *)
From Cas Require Import Conc.
From CasProofs Require Import ConcInv.

Section ConcAbort.
  Variable H : bytes -> bytes.
  Variable cmp : bytes -> bytes -> comparison.
  Variable nops : N.
  Variable bad : bytes -> bool.
  Variable ckbad : bool.

  Definition same_shared (g g' : cstate) : Prop :=
    g_idx g' = g_idx g /\ g_bykey g' = g_bykey g /\ g_byhash g' = g_byhash g /\ g_cas g' = g_cas g
    /\ g_nextv g' = g_nextv g /\ g_I g' = g_I g /\ g_S g' = g_S g /\ g_R g' = g_R g.

  Lemma abort_step_changes_nothing_shared :
    forall g t ts k c rest,
      tget (g_thr g) t = Some ts -> t_pc ts = Idle -> t_calls ts = KAbort k c :: rest ->
      exists g', cstep H cmp nops bad ckbad g t = Some g'
        /\ same_shared g g'
        /\ tget (g_thr g') t = Some (mkT rest Idle (t_res ts ++ [CUnit]))
        /\ (forall u, u <> t -> tget (g_thr g') u = tget (g_thr g) u).
  Proof.
    intros g t ts k c rest Ht Hpc Hc.
    unfold cstep. rewrite Ht, Hpc, Hc. eexists. split; [reflexivity|].
    unfold finish, same_shared; cbn. repeat split; try reflexivity.
    - apply tget_tset_same.
    - intros u Hu. apply tget_tset_other. exact Hu.
  Qed.

  (* the abort is enabled in every state (it needs no lock) and it does not change what any other
     thread can do next: the other thread's step gives the same shared state whether it runs
     before or after the abort *)
  Lemma abort_always_enabled :
    forall g t ts k c rest,
      tget (g_thr g) t = Some ts -> t_pc ts = Idle -> t_calls ts = KAbort k c :: rest ->
      enabled H cmp nops bad ckbad g t = true.
  Proof.
    intros g t ts k c rest Ht Hpc Hc.
    destruct (abort_step_changes_nothing_shared g t ts k c rest Ht Hpc Hc) as (g' & E & _).
    unfold enabled. rewrite E. reflexivity.
  Qed.
End ConcAbort.
Print Assumptions abort_step_changes_nothing_shared.
