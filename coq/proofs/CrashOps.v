(* CrashOps.v -- crash atomicity of the write operations (G2): from the invariant of an open
   handle, every intermediate filesystem of a fault-free put / remove / remove_range /
   checkpoint / abort / close satisfies  Rest _ sg \/ Rest _ sg'  (old map or new map).

   O1  single calls with their exact view effect and a walk
   O2  BufWriter / segment writer / atomic write, generic in the predicate walked in
   O3  checkpoint_inner, append_op, log_and_apply
   O4  the API operations *)
From Cas Require Import History.
From CasProofs Require Import BaseProofs CodecBase CodecProofs SMapProofs IndexProofs
  StoreFS StoreInv StoreWrite StoreRead StoreHist DiskInv Recover CrashInv.
From Coq Require Import ZifyBool ZifyNat ZifyN.
Open Scope N_scope.

Arguments N.add : simpl never.
Arguments N.sub : simpl never.
Arguments N.mul : simpl never.
Arguments N.div : simpl never.
Arguments N.modulo : simpl never.
Arguments N.eqb : simpl never.
Arguments N.ltb : simpl never.
Arguments N.leb : simpl never.
Arguments N.pow : simpl never.
Arguments N.max : simpl never.

(* ------------------------------------------------------------------ *)
(* O1. single calls                                                    *)
(* ------------------------------------------------------------------ *)
(* P holds at every well-formed filesystem with the directories and staging counter of s and
   the data view v *)
Definition AtW (P : fs -> Prop) (s : fs) (v : path -> option bytes) : Prop :=
  forall x, FsWf x -> same_meta s x -> (forall q, fdat x q = v q) -> P x.

Lemma atw_eff : forall P w w' v, Eff w w' -> AtW P (wfs w) v ->
  (forall q, fdat (wfs w') q = v q) -> P (wfs w').
Proof. intros P w w' v X A V. apply A; [exact (proj1 (proj2 X))|now apply eff_same|exact V]. Qed.

Lemma atw_ext : forall P s (v v' : path -> option bytes), (forall q, v q = v' q) ->
  AtW P s v -> AtW P s v'.
Proof. intros P s v v' E A x W M V. apply A; auto. intros q. now rewrite V, E. Qed.

Lemma atw_same : forall P s s' v, same_meta s s' -> AtW P s v -> AtW P s' v.
Proof.
  intros P s s' v [D N] A x W [D' N'] V. apply A; auto. split; congruence.
Qed.

Lemma keeps_call : forall (P : fs -> Prop) c w r w', call_keeps P c -> wfault w = None ->
  P (wfs w) -> do_call c w = (r, w') -> Walk P w w'.
Proof.
  intros P c w r w' K F X E. pose proof (walkm_do_call P c K w F X) as Wk. now rewrite E in Wk.
Qed.

Lemma x_rename : forall w p q d, wfault w = None -> FsWf (wfs w) ->
  fdat (wfs w) p = Some d -> parent_ok (wfs w) q = true ->
  exists w', do_call (CRename p q) w = (Ok tt, w') /\ Eff w w' /\
             forall r, fdat (wfs w') r = vset (vset (fdat (wfs w)) p None) q (Some d) r.
Proof.
  intros w p q d F W G PO. apply fdat_some in G. destruct G as (f & G & <-).
  destruct (call_rename (fun _ => True) w p q f F I I G PO) as (w' & E & S & St).
  exists w'. split; [exact E|]. split; [eapply step_eff; eassumption|].
  intros r. rewrite S. now apply fdat_ren.
Qed.

Section CrashOps.
  Variable H : bytes -> bytes.
  Hypothesis H_len : forall b, length (H b) = 32%nat.
  Hypothesis H_byte : forall b, Forall (fun x => x < 256) (H b).
  Variable cfg : config.
  Hypothesis n_pos : 0 < c_n cfg.
  Let cmp := key_cmp (c_kt cfg).

  Local Notation KX L :=
    (L cmp (key_cmp_refl _) (key_cmp_eq _) (key_cmp_antisym _) (key_cmp_trans _)) (only parsing).
  Local Notation DX L := (L H H_len H_byte cfg n_pos) (only parsing).
  Local Notation item_of := (item_of H).
  Local Notation km_of := (km_of H).
  Local Notation NoCollide := (NoCollide H).
  Local Notation Live0 := (Live0 H cfg).
  Local Notation seg_of := (seg_of cfg).
  Local Notation DiskOkW := (DiskOkW H cfg).
  Local Notation DiskOk := (DiskOk H cfg).
  Local Notation DiskOk' := (DiskOk' H cfg).
  Local Notation Inv := (Inv H cfg).
  Local Notation Inv' := (Inv' H cfg).
  Local Notation Rest := (Rest H cfg).
  Local Notation RestP := (RestP H cfg).
  Local Notation RestD := (RestD H cfg).
  Local Notation RestB := (RestB H cfg).
  Local Notation RestDB := (RestDB H cfg).
  Local Notation Aux := (Aux H).
  Local Notation cas_has := (cas_has H).
  Local Notation harmless := (harmless H).
  Local Notation kstep := (kstep cfg).
  Local Notation op_good := (op_good cfg).
  Local Notation sg_fits := (sg_fits cfg).

  (* ---------------------------------------------------------------- *)
  (* O2. BufWriter, segment writer, atomic write                       *)
  (* ---------------------------------------------------------------- *)
  Section Gen.
    Variable P : fs -> Prop.

    Lemma a_append : forall w p d b, wfault w = None -> FsWf (wfs w) ->
      fdat (wfs w) p = Some d -> P (wfs w) ->
      AtW P (wfs w) (vset (fdat (wfs w)) p (Some (d ++ b))) ->
      exists w', do_call (CAppend p b) w = (Ok tt, w') /\ Eff w w' /\
                 (forall q, fdat (wfs w') q = vset (fdat (wfs w)) p (Some (d ++ b)) q) /\
                 Walk P w w'.
    Proof using.
      intros w p d b F W G X A. destruct (x_append w p d b F W G) as (w' & E & Ef & V).
      exists w'. split; [exact E|]. split; [exact Ef|]. split; [exact V|].
      eapply walk_call; [exact F|exact E|exact X|]. eapply atw_eff; eassumption.
    Qed.

    Lemma a_sync : forall w p d, wfault w = None -> FsWf (wfs w) ->
      fdat (wfs w) p = Some d -> P (wfs w) -> AtW P (wfs w) (fdat (wfs w)) ->
      exists w', do_call (CSync p) w = (Ok tt, w') /\ Eff w w' /\
                 (forall q, fdat (wfs w') q = fdat (wfs w) q) /\ Walk P w w'.
    Proof using.
      intros w p d F W G X A. destruct (x_sync w p d F W G) as (w' & E & Ef & V).
      exists w'. split; [exact E|]. split; [exact Ef|]. split; [exact V|].
      eapply walk_call; [exact F|exact E|exact X|]. eapply atw_eff; eassumption.
    Qed.

    (* write_all through an empty BufWriter followed by a flush: one append at most *)
    Lemma a_bw_write_flush : forall p data d w,
      wfault w = None -> FsWf (wfs w) -> fdat (wfs w) p = Some d -> P (wfs w) ->
      AtW P (wfs w) (vset (fdat (wfs w)) p (Some (d ++ data))) ->
      exists b1 w1 w2, bw_write_all p [] data w = ((Ok tt, b1), w1) /\
                       bw_flush p b1 w1 = ((Ok tt, []), w2) /\ Eff w w2 /\
                       (forall q, fdat (wfs w2) q = vset (fdat (wfs w)) p (Some (d ++ data)) q) /\
                       Walk P w w2.
    Proof using.
      intros p data d w F W G X A.
      assert (Buf : exists w2, bw_flush p data w = ((Ok tt, []), w2) /\ Eff w w2 /\
                      (forall q, fdat (wfs w2) q = vset (fdat (wfs w)) p (Some (d ++ data)) q) /\
                      Walk P w w2).
      { destruct data as [|x data].
        - exists w. split; [reflexivity|]. split; [now apply eff_refl|]. split.
          + intros q. unfold vset. destruct (path_eqb_spec q p) as [->|N]; [|reflexivity].
            now rewrite app_nil_r.
          + now apply walk_refl.
        - destruct (a_append w p d (x :: data) F W G X A) as (w2 & E2 & X2 & V2 & K2).
          exists w2. unfold bw_flush. rewrite (bind_eq _ _ _ _ _ E2). now split. }
      unfold bw_write_all. cbv zeta.
      destruct (len data <? BUFCAP - len []).
      - destruct Buf as (w2 & E2 & X2 & V2 & K2). exists ([] ++ data), w, w2. now split.
      - assert (E0 : (if BUFCAP - len [] <? len data then bw_flush p [] else ret (Ok tt, [])) w
                       = ((Ok tt, []), w)) by (destruct (BUFCAP - len [] <? len data); reflexivity).
        rewrite (bind_eq _ _ _ _ _ E0).
        destruct (BUFCAP <=? len data).
        + destruct (a_append w p d data F W G X A) as (w2 & E2 & X2 & V2 & K2).
          exists [], w2, w2. rewrite (bind_eq _ _ _ _ _ E2). split; [reflexivity|].
          split; [reflexivity|]. now split.
        + destruct Buf as (w2 & E2 & X2 & V2 & K2). exists ([] ++ data), w, w2. now split.
    Qed.

    Lemma a_write_entry : forall seg ver payload d w,
      wfault w = None -> FsWf (wfs w) -> fdat (wfs w) (PWal seg) = Some d -> P (wfs w) ->
      AtW P (wfs w) (vset (fdat (wfs w)) (PWal seg) (Some (d ++ enc_record H ver payload))) ->
      exists w', write_entry H seg [] ver payload w = ((Ok tt, []), w') /\ Eff w w' /\
        (forall q, fdat (wfs w') q
                   = vset (fdat (wfs w)) (PWal seg) (Some (d ++ enc_record H ver payload)) q) /\
        Walk P w w'.
    Proof using.
      intros seg ver payload d w F W G X A. unfold write_entry. cbv zeta.
      destruct (a_bw_write_flush (PWal seg) (enc_record H ver payload) d w F W G X A)
        as (b1 & w1 & w2 & E1 & E2 & X2 & V2 & K2).
      rewrite (bind_eq _ _ _ _ _ E1), (bind_eq _ _ _ _ _ E2).
      pose proof X2 as (F2 & W2 & D2 & N2).
      destruct (a_sync w2 (PWal seg) (d ++ enc_record H ver payload) F2 W2) as (w3 & E3 & X3 & V3 & K3).
      { now rewrite V2, vset_same. }
      { exact (walk_end _ _ _ K2). }
      { eapply atw_ext; [|eapply atw_same; [|exact A]]; [intros q; now rewrite V2|now split]. }
      rewrite (bind_eq _ _ _ _ _ E3). exists w3. split; [reflexivity|].
      split; [exact (eff_trans _ _ _ X2 X3)|]. split; [|exact (walk_trans _ _ _ _ K2 K3)].
      intros q. now rewrite V3, V2.
    Qed.

    Lemma a_writer_close : forall seg d w,
      wfault w = None -> FsWf (wfs w) -> fdat (wfs w) (PWal seg) = Some d -> P (wfs w) ->
      AtW P (wfs w) (fdat (wfs w)) ->
      exists w', writer_close seg [] w = (Ok tt, w') /\ Eff w w' /\
                 (forall q, fdat (wfs w') q = fdat (wfs w) q) /\ Walk P w w'.
    Proof using.
      intros seg d w F W G X A. unfold writer_close.
      assert (E0 : bw_flush (PWal seg) [] w = ((Ok tt, []), w)) by reflexivity.
      rewrite (bind_eq _ _ _ _ _ E0).
      destruct (a_sync w (PWal seg) d F W G X A) as (w3 & E3 & X3 & V3 & K3).
      rewrite (bind_eq _ _ _ _ _ E3). exists w3. now split.
    Qed.

    Lemma a_writer_seal : forall seg d w,
      wfault w = None -> FsWf (wfs w) -> fdat (wfs w) (PWal seg) = Some d -> P (wfs w) ->
      AtW P (wfs w) (vset (fdat (wfs w)) (PWal seg) (Some (d ++ sentinel))) ->
      exists w', writer_seal seg [] w = (Ok tt, w') /\ Eff w w' /\
        (forall q, fdat (wfs w') q = vset (fdat (wfs w)) (PWal seg) (Some (d ++ sentinel)) q) /\
        Walk P w w'.
    Proof using.
      intros seg d w F W G X A. unfold writer_seal.
      destruct (a_bw_write_flush (PWal seg) sentinel d w F W G X A)
        as (b1 & w1 & w2 & E1 & E2 & X2 & V2 & K2).
      rewrite (bind_eq _ _ _ _ _ E1). unfold writer_close. rewrite (bind_eq _ _ _ _ _ E2).
      pose proof X2 as (F2 & W2 & D2 & N2).
      destruct (a_sync w2 (PWal seg) (d ++ sentinel) F2 W2) as (w3 & E3 & X3 & V3 & K3).
      { now rewrite V2, vset_same. }
      { exact (walk_end _ _ _ K2). }
      { eapply atw_ext; [|eapply atw_same; [|exact A]]; [intros q; now rewrite V2|now split]. }
      rewrite (bind_eq _ _ _ _ _ E3). exists w3. split; [reflexivity|].
      split; [exact (eff_trans _ _ _ X2 X3)|]. split; [|exact (walk_trans _ _ _ _ K2 K3)].
      intros q. now rewrite V3, V2.
    Qed.

    (* atomically_write_file_bytes: any content of the temporary, then the rename *)
    Lemma a_atomic_write : forall target tmp data w,
      wfault w = None -> FsWf (wfs w) -> parent_dir target = None -> parent_dir tmp = None ->
      P (wfs w) ->
      (forall o, AtW P (wfs w) (vset (fdat (wfs w)) tmp o)) ->
      AtW P (wfs w) (vset (vset (fdat (wfs w)) tmp None) target (Some data)) ->
      exists w', atomic_write target tmp data w = (Ok tt, w') /\ Eff w w' /\
        (forall q, fdat (wfs w') q = vset (vset (fdat (wfs w)) tmp None) target (Some data) q) /\
        Walk P w w'.
    Proof using.
      intros target tmp data w F W Pt Pm X At Af. unfold atomic_write.
      destruct (x_create w tmp F W Pm) as (w1 & E1 & X1 & V1).
      rewrite (bind_eq _ _ _ _ _ E1). pose proof X1 as (F1 & W1 & _).
      assert (K1 : Walk P w w1).
      { eapply walk_call; [exact F|exact E1|exact X|]. eapply atw_eff; [exact X1|apply At|exact V1]. }
      assert (P2 : exists w2, (match data with [] => ret (Ok tt) | _ => do_call (CAppend tmp data) end) w1
                     = (Ok tt, w2) /\ Eff w w2 /\
                     (forall q, fdat (wfs w2) q = vset (fdat (wfs w)) tmp (Some data) q) /\
                     Walk P w w2).
      { destruct data as [|b data].
        - exists w1. split; [reflexivity|]. split; [exact X1|]. split; [exact V1|exact K1].
        - destruct (x_append w1 tmp [] (b :: data) F1 W1) as (w2 & E2 & X2 & V2).
          { now rewrite V1, vset_same. }
          exists w2. split; [exact E2|]. split; [exact (eff_trans _ _ _ X1 X2)|].
          assert (V2' : forall q, fdat (wfs w2) q = vset (fdat (wfs w)) tmp (Some (b :: data)) q).
          { intros q. rewrite V2. unfold vset. destruct (path_eqb q tmp) eqn:Eq; [reflexivity|].
            rewrite V1. unfold vset. now rewrite Eq. }
          split; [exact V2'|]. eapply walk_trans; [exact K1|].
          eapply walk_call; [exact F1|exact E2|exact (walk_end _ _ _ K1)|].
          eapply atw_eff; [exact (eff_trans _ _ _ X1 X2)|apply At|exact V2']. }
      destruct P2 as (w2 & E2 & X2 & V2 & K2). rewrite (bind_eq _ _ _ _ _ E2).
      pose proof X2 as (F2 & W2 & _).
      destruct (x_sync w2 tmp data F2 W2) as (w3 & E3 & X3 & V3).
      { now rewrite V2, vset_same. }
      rewrite (bind_eq _ _ _ _ _ E3). pose proof X3 as (F3 & W3 & _).
      assert (X03 : Eff w w3) by exact (eff_trans _ _ _ X2 X3).
      assert (K3 : Walk P w w3).
      { eapply walk_trans; [exact K2|].
        eapply walk_call; [exact F2|exact E3|exact (walk_end _ _ _ K2)|].
        eapply atw_eff; [exact X03|apply At|]. intros q. now rewrite V3, V2. }
      destruct (x_rename w3 tmp target data F3 W3) as (w4 & E4 & X4 & V4).
      { now rewrite V3, V2, vset_same. }
      { unfold parent_ok. now rewrite Pt. }
      assert (V4' : forall q, fdat (wfs w4) q
                              = vset (vset (fdat (wfs w)) tmp None) target (Some data) q).
      { intros q. rewrite V4. unfold vset. destruct (path_eqb q target); [reflexivity|].
        destruct (path_eqb_spec q tmp) as [->|N]; [reflexivity|].
        rewrite V3, V2. now apply vset_other. }
      exists w4. split; [exact E4|]. split; [exact (eff_trans _ _ _ X03 X4)|].
      split; [exact V4'|]. eapply walk_trans; [exact K3|].
      eapply walk_call; [exact F3|exact E4|exact (walk_end _ _ _ K3)|].
      eapply atw_eff; [exact (eff_trans _ _ _ X03 X4)|exact Af|exact V4'].
    Qed.
  End Gen.

  (* ---------------------------------------------------------------- *)
  (* O3. checkpoint_inner, append_op, log_and_apply                    *)
  (* ---------------------------------------------------------------- *)
  Lemma rest_atw : forall sg s v, Rest s sg ->
    v PSettings = fdat s PSettings -> v PIndex = fdat s PIndex ->
    (forall i, v (PWal i) = fdat s (PWal i)) ->
    (forall i, v (PStaging i) = fdat s (PStaging i)) ->
    (forall k c, In (k, c) sg -> v (cas_path (H c)) = fdat s (cas_path (H c))) ->
    AtW (fun x => Rest x sg) s v.
  Proof.
    intros sg s v R E1 E2 E3 E4 E5 x W [D N] V.
    assert (Sf : stage_fresh s).
    { destruct R as (_ & _ & [(c & nv & pre & (_ & Sf & _) & _)|(_ & _ & _ & Sf & _)]); exact Sf. }
    eapply (rest_agree H cfg); [exact R|exact W| | | |].
    - intros i Li. rewrite N in Li. rewrite V, E4. now apply Sf.
    - intros d. now rewrite D.
    - split; [now rewrite V|]. split; [now rewrite V|]. intros i. now rewrite V.
    - intros k c Ik. rewrite V. now apply (E5 k).
  Qed.

  Lemma restb_atw : forall B sg s v, RestB B s sg ->
    v PSettings = fdat s PSettings -> v PIndex = fdat s PIndex ->
    (forall i, v (PWal i) = fdat s (PWal i)) ->
    (forall i, v (PStaging i) = fdat s (PStaging i)) ->
    (forall k c, In (k, c) sg -> v (cas_path (H c)) = fdat s (cas_path (H c))) ->
    AtW (fun x => RestB B x sg) s v.
  Proof.
    intros B sg s v R E1 E2 E3 E4 E5 x W [D N] V.
    pose proof (restb_fresh H cfg _ _ _ R) as Sf.
    eapply (restb_agree H cfg); [exact R|exact W| | | |].
    - intros i Li. rewrite N in Li. rewrite V, E4. now apply Sf.
    - intros d. now rewrite D.
    - split; [now rewrite V|]. split; [now rewrite V|]. intros i. now rewrite V.
    - intros k c Ik. rewrite V. now apply (E5 k).
  Qed.

  (* the side conditions travel with the staging and blob part of the view; the meta part is
     given by a DiskOkW fact about the view *)
  Lemma restp_atw : forall pre sg' s c' nv' sb' v,
    Aux pre sg' s ->
    (forall i, v (PStaging i) = fdat s (PStaging i)) ->
    (forall k c, In (k, c) sg' -> v (cas_path (H c)) = fdat s (cas_path (H c))) ->
    DiskOkW c' nv' sb' pre v sg' ->
    AtW (RestP c' nv' sb' pre sg') s v.
  Proof.
    intros pre sg' s c' nv' sb' v A E4 E5 D x W [Dx N] V. pose proof A as (_ & Sf & _). split.
    - eapply (aux_agree H); [exact A|exact W| | |].
      + intros i Li. rewrite N in Li. rewrite V, E4. now apply Sf.
      + intros d. now rewrite Dx.
      + intros k c Ik. rewrite V. now apply (E5 k).
    - eapply (DiskOkW_ext H cfg); [| | |exact D]; intros; apply V.
  Qed.

  Lemma atw_weaken : forall (P Q : fs -> Prop) s v, (forall x, P x -> Q x) -> AtW P s v -> AtW Q s v.
  Proof. intros P Q s v I A x W M V. apply I, A; assumption. Qed.

  Lemma atw_here : forall (P : fs -> Prop) s, FsWf s -> AtW P s (fdat s) -> P s.
  Proof. intros P s W A. apply A; [exact W|now split|reflexivity]. Qed.

  Lemma a_checkpoint_inner : forall reason m sb sg B w,
    wfault w = None ->
    RestP (lpv (idx m)) (nextv (mwal m)) sb (mpre m) sg (wfs w) ->
    sb <= seg_of (nextv (mwal m)) -> nextv (mwal m) <= B ->
    km (idx m) = km_of sg -> sorted cmp sg -> NoCollide (map snd sg) ->
    exists m' w', checkpoint_inner cfg reason m w = ((Ok tt, m'), w') /\ Eff w w' /\
      RestP (lpv (idx m')) (nextv (mwal m)) sb (mpre m) sg (wfs w') /\
      km (idx m') = km (idx m) /\ rc (idx m') = rc (idx m) /\
      ub (idx m') = ub (idx m) /\ tb (idx m') = tb (idx m) /\
      mwal m' = mwal m /\ mpre m' = mpre m /\
      (forall q, ~ is_meta q -> fdat (wfs w') q = fdat (wfs w) q) /\
      (reason <> RRollover -> 0 < nextv (mwal m) - 1 ->
       lpv (idx m') = nextv (mwal m) - 1 /\
       exists d, fdat (wfs w') PIndex = Some d /\ ssz (idx m') = len d) /\
      Walk (fun x => RestB B x sg) w w'.
  Proof.
    intros reason m sb sg B w F R Lsb LB Km Ss Nc. pose proof R as [A D]. pose proof A as (W & Sf & _).
    assert (R0 : RestB B (wfs w) sg) by (eapply (restp_restb H H_len H_byte cfg n_pos); eassumption).
    unfold checkpoint_inner. cbv zeta. set (nv := nextv (mwal m)) in *.
    match goal with |- context [if ?c then _ else _] => destruct c eqn:Cond end.
    - exists m, w. split; [reflexivity|]. split; [now apply eff_refl|]. split; [exact R|].
      do 6 (split; [reflexivity|]). split; [auto|]. split; [|now apply walk_refl].
      intros Nr Pos. exfalso. apply orb_true_iff in Cond. destruct Cond as [Cond|Cond]; [|lia].
      destruct reason; cbn in Cond; try discriminate. contradiction.
    - apply orb_false_iff in Cond. destruct Cond as [_ Pos]. apply N.eqb_neq in Pos.
      match goal with |- context [atomic_write PIndex PIndexTmp ?d] => set (data := d) in * end.
      set (v1 := vset (vset (fdat (wfs w)) PIndexTmp None) PIndex (Some data)).
      assert (A1 : AtW (RestP (nv - 1) nv sb (mpre m) sg) (wfs w) v1).
      { apply restp_atw; [exact A| | |].
        - intros i. unfold v1. now rewrite !vset_other by discriminate.
        - intros k c _. unfold v1. now rewrite !vset_other by discriminate.
        - eapply (DX V_checkpoint) with (b := 0); [exact D|exact Ss|exact Nc|lia|lia| | |].
          + unfold v1. rewrite vset_same. unfold data. cbn [km]. now rewrite Km.
          + unfold v1. now rewrite !vset_other by discriminate.
          + intros i. unfold v1. rewrite !vset_other by discriminate.
            destruct (i <? 0) eqn:E; [lia|reflexivity]. }
      destruct (a_atomic_write (fun x => RestB B x sg) PIndex PIndexTmp data w F W eq_refl eq_refl R0)
        as (w1 & E1 & X1 & V1 & K1).
      { intros o. apply restb_atw; try exact R0; intros; now rewrite vset_other by discriminate. }
      { eapply atw_weaken; [|exact A1]. intros x Rx.
        eapply (restp_restb H H_len H_byte cfg n_pos); eassumption. }
      rewrite (bind_eq _ _ _ _ _ E1). pose proof X1 as (F1 & W1 & _).
      assert (R1 : RestP (nv - 1) nv sb (mpre m) sg (wfs w1)) by (eapply atw_eff; eassumption).
      assert (N1 : forall q, ~ is_meta q -> fdat (wfs w1) q = fdat (wfs w) q).
      { intros q Nq. rewrite V1. unfold v1. rewrite !vset_other; [reflexivity| |];
          intros ->; apply Nq; exact I. }
      assert (Gi : fdat (wfs w1) PIndex = Some data) by (rewrite V1; apply vset_same).
      match goal with |- context [if ?c then ret tt else _] => destruct c end.
      + unfold bind at 1. cbn [ret]. eexists _, w1. split; [reflexivity|]. split; [exact X1|].
        cbn [idx lpv km rc ub tb ssz mwal mpre]. split; [exact R1|].
        do 6 (split; [reflexivity|]). split; [exact N1|]. split; [|exact K1].
        intros _ _. split; [reflexivity|]. exists data. now split.
      + destruct (x_prune_below cfg (seg_of (nv - 1)) w1 F1 W1) as (w2 & E2 & X2 & Vw & Vo).
        fold nv. rewrite (bind_eq _ _ _ _ _ E2).
        assert (K2 : Walk (RestP (nv - 1) nv sb (mpre m) sg) w1 w2).
        { pose proof (walkm_prune_below (RestP (nv - 1) nv sb (mpre m) sg) (seg_of (nv - 1))) as Wm.
          specialize (Wm (fun i Li => restp_keeps_drop H H_len H_byte cfg n_pos _ _ _ _ _ i Li) w1 F1 R1).
          now rewrite E2 in Wm. }
        eexists _, w2. split; [reflexivity|]. split; [exact (eff_trans _ _ _ X1 X2)|].
        cbn [idx lpv km rc ub tb ssz mwal mpre]. split; [exact (walk_end _ _ _ K2)|].
        do 6 (split; [reflexivity|]). split; [|split].
        * intros q Nq. rewrite Vo; [now apply N1|]. destruct q; try exact I. apply Nq. exact I.
        * intros _ _. split; [reflexivity|]. exists data. split; [|reflexivity].
          rewrite Vo by exact I. exact Gi.
        * eapply walk_trans; [exact K1|]. eapply walk_weaken; [|exact K2]. intros x Rx.
          eapply (restp_restb H H_len H_byte cfg n_pos); eassumption.
  Qed.

  Lemma aux_swap : forall pre sg sg' x, Aux pre sg x -> cas_has sg' x -> Aux pre sg' x.
  Proof. intros pre sg sg' x (W & S & P & _) C. repeat split; assumption. Qed.

  Lemma cas_has_notwal : forall sg x x', cas_has sg x ->
    (forall q, not_wal q -> fdat x' q = fdat x q) -> cas_has sg x'.
  Proof. intros sg x x' C N k c Ik. rewrite N by exact I. now apply (C k). Qed.

  Lemma restp_weaken_sb : forall c nv sb sb' pre sg x, sb <= sb' ->
    RestP c nv sb pre sg x -> RestP c nv sb' pre sg x.
  Proof.
    intros c nv sb sb' pre sg x L [A D]. split; [exact A|].
    eapply (DX DiskOkW_weaken_sb); eassumption.
  Qed.

  Definition seal_bound (wl : wal) : N :=
    match writer wl with None => seg_of (nextv wl) | Some _ => seg_of (nextv wl - 1) end.

  Lemma vset_notwal : forall (v : path -> option bytes) i o q, not_wal q -> vset v (PWal i) o q = v q.
  Proof. intros v i o q Nq. apply vset_other. intros ->. exact Nq. Qed.

  (* WalManager::append_op, call by call: [seal + sync], [open], append, sync *)
  Lemma a_append_op : forall wl c pre sg sg' o w,
    wfault w = None ->
    RestP c (nextv wl) (seal_bound wl) pre sg (wfs w) ->
    cas_has sg' (wfs w) ->
    sorted cmp sg -> NoCollide (map snd sg) -> sorted cmp sg' -> NoCollide (map snd sg') ->
    match writer wl with
    | None => True
    | Some (s0, buf) => buf = [] /\ fdat (wfs w) (PWal s0) <> None /\ s0 = seg_of (nextv wl - 1)
    end ->
    op_good o -> len (enc_op o) < 2 ^ 32 -> nextv wl < 2 ^ 64 ->
    kresp (km_of sg) o -> kstep (km_of sg) o = km_of sg' -> sg_fits sg' ->
    exists w', append_op H cfg wl (enc_op o) w
               = ((Ok (nextv wl), mkWal (nextv wl + 1) (Some (seg_of (nextv wl), []))), w') /\
               Eff w w' /\
               RestP c (nextv wl + 1) (seg_of (nextv wl)) pre sg' (wfs w') /\
               (forall q, not_wal q -> fdat (wfs w') q = fdat (wfs w) q) /\
               Walk (RestDB (nextv wl + 1) sg sg') w w'.
  Proof.
    intros wl c pre sg sg' o w F R C' Ss Nc Ss' Nc' Hw Og Lp Lnv Kr Ks Sf'.
    unfold append_op. cbv zeta.
    set (ver := nextv wl) in *. set (t := seg_of ver).
    pose proof R as [A D]. pose proof A as (W & _).
    assert (ToRest : forall x, RestP c ver t pre sg x -> RestB (ver + 1) x sg).
    { intros x Rx. eapply (restp_restb H H_len H_byte cfg n_pos); try eassumption; [unfold t|]; lia. }
    (* phase 1: seal the old segment and open the target, as needed *)
    assert (P1 : exists w1,
      (if match writer wl with None => true | Some (s, _) => negb (s =? t) end
       then do! rs <- match writer wl with Some (s, b) => writer_seal s b | None => ret (Ok tt) end ;;
            match rs with
            | Err e => ret (Err e, mkWal (ver + 1) None)
            | Ok _ => do! r <- do_call (COpenAppend (PWal t)) ;;
                      match r with
                      | Err _ => ret (Err EWalIo, mkWal (ver + 1) None)
                      | Ok _ => ret (Ok tt, mkWal (ver + 1) (Some (t, [])))
                      end
            end
       else ret (Ok tt, mkWal (ver + 1) (writer wl))) w
      = ((Ok tt, mkWal (ver + 1) (Some (t, []))), w1) /\ Eff w w1 /\
      RestP c ver t pre sg (wfs w1) /\ fdat (wfs w1) (PWal t) <> None /\
      (forall q, not_wal q -> fdat (wfs w1) q = fdat (wfs w) q) /\
      Walk (fun x => RestB (ver + 1) x sg) w w1).
    { assert (Roll : forall w0, Eff w w0 -> RestP c ver t pre sg (wfs w0) ->
                (forall q, not_wal q -> fdat (wfs w0) q = fdat (wfs w) q) ->
                Walk (fun x => RestB (ver + 1) x sg) w w0 ->
                exists w1, (do! r <- do_call (COpenAppend (PWal t)) ;;
                      match r with
                      | Err _ => ret (Err EWalIo, mkWal (ver + 1) None)
                      | Ok _ => ret (Ok tt, mkWal (ver + 1) (Some (t, [])))
                      end) w0 = ((Ok tt, mkWal (ver + 1) (Some (t, []))), w1) /\ Eff w w1 /\
                  RestP c ver t pre sg (wfs w1) /\ fdat (wfs w1) (PWal t) <> None /\
                  (forall q, not_wal q -> fdat (wfs w1) q = fdat (wfs w) q) /\
                  Walk (fun x => RestB (ver + 1) x sg) w w1).
      { intros w0 X0 R0 N0 K0. pose proof X0 as (F0 & W0 & _). pose proof R0 as [A0 D0].
        destruct (x_open_append w0 (PWal t) F0 W0 eq_refl) as (w1 & E1 & X1 & V1).
        exists w1. rewrite (bind_eq _ _ _ _ _ E1). split; [reflexivity|].
        split; [exact (eff_trans _ _ _ X0 X1)|]. pose proof X1 as (F1 & W1 & _).
        assert (Q : RestP c ver t pre sg (wfs w1) /\ fdat (wfs w1) (PWal t) <> None /\
                    (forall q, not_wal q -> fdat (wfs w1) q = fdat (wfs w) q)).
        { destruct (fdat (wfs w0) (PWal t)) as [d|] eqn:Gt.
          - split; [|split].
            + eapply (view_eq_restp H cfg); [exact R0|exact W1| | |exact V1];
                destruct (eff_same _ _ X1) as [Dd Nn]; [intros d'; now rewrite Dd|exact Nn].
            + rewrite V1, Gt. discriminate.
            + intros q Nq. rewrite V1. now apply N0.
          - split; [|split].
            + eapply (atw_eff (RestP c ver t pre sg)); [exact X1| |exact V1].
              apply restp_atw; [exact A0| | |].
              * intros i. now rewrite vset_notwal.
              * intros k c0 _. now rewrite vset_notwal.
              * eapply (DX V_add_seg); [exact D0|exact Gt| |].
                -- fold t. now rewrite vset_same.
                -- intros q Nq. now apply vset_other.
            + rewrite V1, vset_same. discriminate.
            + intros q Nq. rewrite V1, vset_notwal by exact Nq. now apply N0. }
        destruct Q as (Q1 & Q2 & Q3). split; [exact Q1|]. split; [exact Q2|]. split; [exact Q3|].
        eapply walk_trans; [exact K0|].
        eapply walk_call; [exact F0|exact E1|exact (walk_end _ _ _ K0)|]. now apply ToRest. }
      destruct (writer wl) as [[s b]|] eqn:Wr.
      - destruct Hw as (-> & Gs & Es). unfold seal_bound in R, D. rewrite Wr in R, D.
        destruct (N.eqb_spec s t) as [Est|Nst]; cbn [negb].
        + rewrite Est in Gs. rewrite Est.
          assert (Rt : RestP c ver t pre sg (wfs w)).
          { eapply restp_weaken_sb; [|exact R]. fold ver. rewrite <- Es, Est. lia. }
          exists w. split; [reflexivity|]. split; [now apply eff_refl|].
          split; [exact Rt|]. split; [exact Gs|]. split; [auto|]. apply walk_refl; [exact F|].
          now apply ToRest.
        + destruct (fdat (wfs w) (PWal s)) as [d0|] eqn:G0; [|contradiction].
          assert (Lt : seg_of (ver - 1) < seg_of ver).
          { pose proof (seg_of_pred_le cfg n_pos ver). fold t. rewrite <- Es. lia. }
          assert (As : AtW (RestP c ver t pre sg) (wfs w)
                           (vset (fdat (wfs w)) (PWal s) (Some (d0 ++ sentinel)))).
          { apply restp_atw; [exact A| | |].
            - intros i. now rewrite vset_notwal.
            - intros k c0 _. now rewrite vset_notwal.
            - eapply (DX V_seal); [exact D|exact Lt| | |].
              + rewrite <- Es. exact G0.
              + rewrite <- Es. now rewrite vset_same.
              + intros q Nq. apply vset_other. now rewrite Es. }
          destruct (a_writer_seal (fun x => RestB (ver + 1) x sg) s d0 w F W G0) as (w0 & E0 & X0 & V0 & K0).
          { eapply (restp_restb H H_len H_byte cfg n_pos); try eassumption; [apply seg_of_pred_le, n_pos|lia]. }
          { eapply atw_weaken; [|exact As]. exact ToRest. }
          rewrite (bind_eq _ _ _ _ _ E0).
          apply Roll; [exact X0| | |exact K0].
          * eapply atw_eff; eassumption.
          * intros q Nq. rewrite V0. now apply vset_notwal.
      - unfold bind at 1. cbn [ret]. unfold seal_bound in R. rewrite Wr in R. fold ver t in R.
        apply Roll; [now apply eff_refl|exact R|auto|].
        apply walk_refl; [exact F|now apply ToRest]. }
    destruct P1 as (w1 & E1 & X1 & R1 & G1 & N1 & K1).
    rewrite (bind_eq _ _ _ _ _ E1). cbn [writer nextv].
    destruct (fdat (wfs w1) (PWal t)) as [d|] eqn:Gt; [|contradiction].
    pose proof X1 as (F1 & W1 & _). pose proof R1 as [A1 D1].
    assert (A3 : AtW (RestP c (ver + 1) t pre sg') (wfs w1)
                     (vset (fdat (wfs w1)) (PWal t) (Some (d ++ enc_record H ver (enc_op o))))).
    { apply restp_atw.
      - eapply aux_swap; [exact A1|]. eapply cas_has_notwal; eassumption.
      - intros i. now rewrite vset_notwal.
      - intros k c0 _. now rewrite vset_notwal.
      - eapply (DX V_append) with (sb := t) (d := d); try eassumption.
        + unfold t. lia.
        + fold t. now rewrite vset_same.
        + intros q Nq. now apply vset_other. }
    destruct (a_write_entry (RestDB (ver + 1) sg sg') t ver (enc_op o) d w1 F1 W1 Gt) as (w2 & E2 & X2 & V2 & K2).
    { left. now apply ToRest. }
    { eapply atw_weaken; [|exact A3]. intros x Rx. right.
      eapply (restp_restb H H_len H_byte cfg n_pos); try eassumption; [|lia].
      apply (seg_of_mono cfg n_pos). lia. }
    rewrite (bind_eq _ _ _ _ _ E2).
    exists w2. split; [reflexivity|]. split; [exact (eff_trans _ _ _ X1 X2)|]. split; [|split].
    - eapply atw_eff; eassumption.
    - intros q Nq. rewrite V2, vset_notwal by exact Nq. now apply N1.
    - eapply walk_trans; [|exact K2]. eapply walk_weaken; [|exact K1]. intros x Rx. now left.
  Qed.

  Lemma diskok'_seal_bound : forall m s sg,
    DiskOk' m s sg =
    DiskOkW (lpv (idx m)) (nextv (mwal m)) (seal_bound (mwal m)) (mpre m) (fdat s) sg.
  Proof. reflexivity. Qed.

  (* log_and_apply: the record, the blob deletions, the roll-over checkpoint *)
  Lemma a_log_and_apply : forall m sg sg' o w,
    wfault w = None ->
    RestP (lpv (idx m)) (nextv (mwal m)) (seal_bound (mwal m)) (mpre m) sg (wfs w) ->
    cas_has sg' (wfs w) ->
    km (idx m) = km_of sg -> IdxInv cmp (idx m) -> wal_ok cfg m (wfs w) ->
    sorted cmp sg -> NoCollide (map snd sg) ->
    op_respects_sizes (idx m) o ->
    sorted cmp sg' -> km_of sg' = km_expected cmp (idx m) o -> NoCollide (map snd sg') ->
    sg_fits sg' -> op_good o -> len (enc_op o) < 2 ^ 32 -> nextv (mwal m) < 2 ^ 64 ->
    exists m' w', log_and_apply H cfg m o w = ((Ok tt, m'), w') /\ wfault w' = None /\
      RestP (lpv (idx m')) (nextv (mwal m')) (seal_bound (mwal m')) (mpre m') sg' (wfs w') /\
      nextv (mwal m') = nextv (mwal m) + 1 /\ mpre m' = mpre m /\
      Walk (RestDB (nextv (mwal m) + 1) sg sg') w w'.
  Proof.
    intros m sg sg' o w F R C' Hkm Hidx Hwal Ss Nc Hop Ss' Kexp Nc' Sf' Og Lp Lnv.
    unfold log_and_apply. cbv zeta.
    destruct (a_append_op (mwal m) (lpv (idx m)) (mpre m) sg sg' o w F R C' Ss Nc Ss' Nc')
      as (w1 & E1 & X1 & R1 & N1 & K1); try assumption.
    { now apply wal_ok_fdat. }
    { rewrite <- Hkm. now apply kresp_respects. }
    { rewrite <- Hkm, <- kstep_expected. now symmetry. }
    rewrite (bind_eq _ _ _ _ _ E1).
    destruct (C12_apply cmp (key_cmp_refl _) (key_cmp_eq _) (key_cmp_antisym _) (key_cmp_trans _)
                (idx m) o Hidx Hop) as (i' & un & Eap & Inv' & Ki' & Li' & _ & Hun).
    unfold cmp in Eap. rewrite Eap.
    pose proof X1 as (F1 & W1 & _).
    destruct (delete_blobs_ok un w1 F1) as (w2 & E2 & S2 & _).
    rewrite (bind_eq _ _ _ _ _ E2).
    set (nv := nextv (mwal m)) in *.
    set (wl' := mkWal (nv + 1) (Some (seg_of nv, []))) in *.
    set (m1 := mkMem i' wl' (mpre m)).
    assert (K2 : Walk (RestP (lpv (idx m)) (nv + 1) (seg_of nv) (mpre m) sg') w1 w2).
    { pose proof (walkm_delete_blobs (RestP (lpv (idx m)) (nv + 1) (seg_of nv) (mpre m) sg') un) as Wm.
      assert (Kp : forall h, In h un ->
                call_keeps (RestP (lpv (idx m)) (nv + 1) (seg_of nv) (mpre m) sg') (CUnlink (cas_path h))).
      { intros h Ih. apply (restp_keeps H cfg). cbn [CrashInv.harmless]. right. right.
        split; [exact I|]. intros k c Ik Ep. apply Hun in Ih. destruct Ih as [Ih1 Ih2].
        rewrite Hkm in Ih1. apply (count_pos_content H) in Ih1.
        destruct Ih1 as (k0 & c0 & _ & <-). apply (cas_path_inj H H_len H_byte) in Ep.
        pose proof (content_count_pos H sg' k c Ik) as Pc.
        rewrite Ki', <- Kexp, <- Ep in Ih2. lia. }
      specialize (Wm Kp w1 F1 R1). now rewrite E2 in Wm. }
    pose proof (walk_end _ _ _ K2) as R2. pose proof (walk_fault _ _ _ K2) as F2.
    assert (K02 : Walk (RestDB (nv + 1) sg sg') w w2).
    { eapply walk_trans; [exact K1|]. eapply walk_weaken; [|exact K2]. intros x Rx. right.
      eapply (restp_restb H H_len H_byte cfg n_pos); try eassumption; [|lia].
      apply (seg_of_mono cfg n_pos). lia. }
    assert (Sb1 : seal_bound wl' = seg_of nv).
    { unfold seal_bound, wl'. cbn [writer nextv]. f_equal. lia. }
    match goal with |- context [if ?c then checkpoint_inner cfg RRollover m1 else _] =>
      destruct c end.
    - destruct (a_checkpoint_inner RRollover m1 (seg_of nv) sg' (nv + 1) w2 F2)
        as (m' & w3 & E3 & X3 & R3 & _ & _ & _ & _ & Wl3 & P3 & _ & _ & K3); try assumption.
      { unfold m1. cbn [idx mwal mpre nextv wl']. rewrite Li'. exact R2. }
      { unfold m1. cbn [mwal nextv wl']. apply (seg_of_mono cfg n_pos). lia. }
      { unfold m1. cbn [mwal nextv wl']. lia. }
      { unfold m1. cbn [idx]. rewrite Ki'. now symmetry. }
      exists m', w3. split; [exact E3|]. split; [exact (proj1 X3)|].
      rewrite Wl3, P3. unfold m1. cbn [mwal mpre nextv]. fold wl'. rewrite Sb1.
      split; [exact R3|]. split; [reflexivity|]. split; [reflexivity|].
      eapply walk_trans; [exact K02|]. eapply walk_weaken; [|exact K3]. intros x Rx. now right.
    - exists m1, w2. split; [reflexivity|]. split; [exact F2|].
      unfold m1. cbn [idx mwal mpre nextv]. fold wl'. rewrite Sb1, Li'.
      split; [exact R2|]. split; [reflexivity|]. split; [reflexivity|exact K02].
  Qed.

  (* ---------------------------------------------------------------- *)
  (* O4. the API operations                                            *)
  (* ---------------------------------------------------------------- *)
  Lemma harmless_walk : forall c0 nv sb pre sg cl w r w', harmless sg cl -> wfault w = None ->
    RestP c0 nv sb pre sg (wfs w) -> do_call cl w = (r, w') -> Walk (RestP c0 nv sb pre sg) w w'.
  Proof.
    intros c0 nv sb pre sg cl w r w' Hh F R E.
    eapply keeps_call; [apply (restp_keeps H cfg); exact Hh|exact F|exact R|exact E].
  Qed.

  (* the staging part of put: create the staging file, write, sync, make the fan-out
     directories, rename into cas/ -- the old map stays recoverable at every step *)
  Lemma a_put_stage : forall m s sg k chunks w c0 nv sb,
    Live0 m s sg -> wfs w = s -> wfault w = None ->
    RestP c0 nv sb (mpre m) sg s ->
    NoCollide (concat chunks :: map snd sg) ->
    let c := concat chunks in
    let sg' := sm_ins cmp sg k c in
    exists w5,
      put H cfg m k chunks w = log_and_apply H cfg m (RPut k (H c) (len c)) w5 /\
      wfault w5 = None /\
      RestP c0 nv sb (mpre m) sg (wfs w5) /\ cas_has sg' (wfs w5) /\
      (forall i, fdat (wfs w5) (PWal i) = fdat (wfs w) (PWal i)) /\
      Walk (RestP c0 nv sb (mpre m) sg) w w5.
  Proof.
    intros m s sg k chunks w c0 nv sb L Ws F R NC c sg'. subst s.
    pose proof L as [Ssg Hkm Hidx Hnc Hcas Hst Hdirs Hwal]. destruct Hdirs as (D1 & D2 & D3).
    unfold put. cbv zeta. fold c. fold c in NC. subst sg'. clearbody c.
    set (h := H c). set (p := PStaging (nstage (wfs w))). set (q := cas_path h).
    set (RP := RestP c0 nv sb (mpre m) sg).
    pose proof R as [(Wf & Sf & _) _].
    (* A. the staging file *)
    set (s1 := mkFs (set_path (files (wfs w)) p (mkFile [] 0)) (dirs (wfs w)) (nstage (wfs w) + 1)).
    set (w1 := mkWorld s1 (TCall (CCreateExcl p) :: wtrace w) (S (wcount w)) None).
    assert (Ea : apply_call (CCreateExcl p) (wfs w) = Ok s1).
    { unfold p. cbn [apply_call]. unfold parent_ok. cbn [parent_dir]. rewrite D1.
      rewrite (Hst (nstage (wfs w))) by lia. reflexivity. }
    assert (Ed : do_call (CCreateExcl p) w = (Ok tt, w1)) by exact (do_call_ok _ _ _ F Ea).
    assert (EA : new_staging w = (Ok p, w1)).
    { unfold new_staging. unfold bind at 1, get_fs at 1. fold p.
      rewrite (bind_eq _ _ _ _ _ Ed). reflexivity. }
    rewrite (bind_eq _ _ _ _ _ EA).
    destruct (apply_call_view _ _ _ Wf Ea) as (Wf1 & Di1 & _ & _ & _ & V1).
    assert (R1 : RP (wfs w1)).
    { cbn [wfs w1]. eapply (restp_agree H cfg); [exact R|exact Wf1| |exact Di1| |].
      - intros i Li. cbn [s1 nstage] in Li. rewrite V1, vset_other; [apply Sf; lia|].
        unfold p. intros X. inversion X. lia.
      - split; [|split]; intros; rewrite V1; apply vset_other; discriminate.
      - intros k0 c1 _. rewrite V1. apply vset_other. discriminate. }
    assert (K1 : Walk RP w w1) by (eapply walk_call; [exact F|exact Ed|exact R|exact R1]).
    assert (G1 : forall r, fget s1 r = if path_eqb r p then Some (mkFile [] 0) else fget (wfs w) r).
    { intros r. unfold fget, s1. cbn [files]. apply lookup_set_path. }
    (* B. the content *)
    assert (PB : exists w2 f2, (match c with [] => ret (Ok tt) | _ => do_call (CAppend p c) end) w1
                   = (Ok tt, w2) /\ Step (eq p) (ev_on (eq p)) w1 w2 /\
                   fget (wfs w2) p = Some f2 /\ fdata f2 = c /\ Walk RP w1 w2).
    { destruct c as [|x c].
      - exists w1, (mkFile [] 0). split; [reflexivity|]. split; [now apply step_refl|].
        split; [cbn [wfs w1]; now rewrite G1, path_eqb_refl|]. split; [reflexivity|].
        now apply walk_refl.
      - destruct (call_append (eq p) w1 p (mkFile [] 0) (x :: c) eq_refl eq_refl)
          as (w2 & E2 & W2 & S2).
        { cbn [wfs w1]. now rewrite G1, path_eqb_refl. }
        exists w2, (mkFile ([] ++ x :: c) 0). split; [exact E2|]. split; [exact S2|].
        split; [rewrite W2; apply fget_upd_same|]. split; [reflexivity|].
        eapply harmless_walk; [|reflexivity|exact R1|exact E2]. right. exact I. }
    destruct PB as (w2 & f2 & E2 & S2 & G2 & Df2 & K2). rewrite (bind_eq _ _ _ _ _ E2).
    assert (PC : exists w3 f3, (if c_sync cfg then do_call (CSync p) else ret (Ok tt)) w2
                   = (Ok tt, w3) /\ Step (eq p) (ev_on (eq p)) w2 w3 /\
                   fget (wfs w3) p = Some f3 /\ fdata f3 = c /\ Walk RP w2 w3).
    { destruct (c_sync cfg).
      - destruct (call_sync (eq p) w2 p f2 (st_fault _ _ _ _ S2) eq_refl G2) as (w3 & E3 & W3 & S3).
        exists w3, (mkFile (fdata f2) (length (fdata f2))). split; [exact E3|]. split; [exact S3|].
        split; [rewrite W3; apply fget_upd_same|]. split; [exact Df2|].
        eapply harmless_walk; [|exact (st_fault _ _ _ _ S2)|exact (walk_end _ _ _ K2)|exact E3].
        exact I.
      - exists w2, f2. split; [reflexivity|]. split; [apply step_refl, S2|].
        split; [exact G2|]. split; [exact Df2|].
        apply walk_refl; [exact (st_fault _ _ _ _ S2)|exact (walk_end _ _ _ K2)]. }
    destruct PC as (w3 & f3 & E3 & S3 & G3 & Df3 & K3). rewrite (bind_eq _ _ _ _ _ E3).
    pose proof (step_trans _ _ _ _ _ S2 S3) as S13.
    assert (Dirs3 : dirs (wfs w3) = dirs (wfs w)).
    { now rewrite (fr_dirs _ _ _ (st_frame _ _ _ _ S13)). }
    destruct (hexpath_shape h (H_len c) (H_byte c)) as (xa & xb & xc & Hp & _).
    assert (Kmk : forall d, call_keeps RP (CMkdir d)) by (intros d; apply (restp_keeps H cfg); exact I).
    assert (PD : exists w4, (if mpre m then ret (Ok tt)
                             else mkdir_cas2 (nth 0 (hexpath h) []) (nth 1 (hexpath h) [])) w3
                   = (Ok tt, w4) /\ Grow w3 w4 /\ parent_ok (wfs w4) q = true /\ Walk RP w3 w4).
    { destruct (mpre m) eqn:Pre.
      - exists w3. split; [reflexivity|]. split; [apply grow_refl, S3|].
        split; [|apply walk_refl; [exact (st_fault _ _ _ _ S3)|exact (walk_end _ _ _ K3)]].
        specialize (D3 eq_refl h (H_len c) (H_byte c)). fold q in D3. unfold parent_ok, has_dir in *.
        now rewrite Dirs3.
      - destruct (mkdir_cas2_ok (nth 0 (hexpath h) []) (nth 1 (hexpath h) []) w3
                    (st_fault _ _ _ _ S3)) as (w4 & E4 & G4 & D4).
        { unfold has_dir in *. now rewrite Dirs3. }
        exists w4. split; [exact E4|]. split; [exact G4|]. split.
        + unfold parent_ok, q, cas_path. cbn [parent_dir]. rewrite Hp in *.
          cbn [removelast nth] in *. exact D4.
        + pose proof (walkm_mkdir_cas2 RP (nth 0 (hexpath h) []) (nth 1 (hexpath h) []) Kmk w3
                        (st_fault _ _ _ _ S3) (walk_end _ _ _ K3)) as Wm.
          now rewrite E4 in Wm. }
    destruct PD as (w4 & E4 & G4 & PO4 & K4). rewrite (bind_eq _ _ _ _ _ E4).
    assert (G4p : fget (wfs w4) p = Some f3) by now rewrite (grow_fget _ _ _ G4).
    pose proof (walk_end _ _ _ K4) as R4. pose proof R4 as [(Wf4 & Sf4 & _ & Ca4) _].
    destruct (x_rename w4 p q c (proj1 (gr_ext _ _ G4)) Wf4) as (w5 & E5 & X5 & V5).
    { apply fdat_some. now exists f3. }
    { exact PO4. }
    rewrite (bind_eq _ _ _ _ _ E5). exists w5. split; [reflexivity|].
    pose proof X5 as (F5 & Wf5 & Dd5 & Ns5).
    assert (Cag : forall k0 c1, In (k0, c1) sg ->
              fdat (wfs w5) (cas_path (H c1)) = fdat (wfs w4) (cas_path (H c1))).
    { intros k0 c1 Ik. rewrite V5. unfold vset at 1.
      destruct (path_eqb_spec (cas_path (H c1)) q) as [Eq|Nq].
      - apply (cas_path_inj H H_len H_byte) in Eq.
        assert (c1 = c).
        { apply NC; [right; apply in_map_iff; now exists (k0, c1)|now left|exact Eq]. }
        subst c1. symmetry. now apply (Ca4 k0).
      - apply vset_other. discriminate. }
    assert (R5 : RP (wfs w5)).
    { eapply (restp_agree H cfg); [exact R4|exact Wf5| | | |exact Cag].
      - intros i Li. rewrite Ns5 in Li. rewrite V5, vset_other by discriminate.
        unfold vset. destruct (path_eqb (PStaging i) p); [reflexivity|now apply Sf4].
      - intros d. now rewrite Dd5.
      - split; [|split]; intros; rewrite V5, !vset_other; try reflexivity; discriminate. }
    split; [exact F5|]. split; [exact R5|]. split; [|split].
    - intros k' c' Ik. apply (KX In_ins) in Ik. destruct Ik as [Ik|Ik].
      + inversion Ik; subst k' c'. fold h q. rewrite V5. apply vset_same.
      + rewrite (Cag k' c' Ik). now apply (Ca4 k').
    - intros i. rewrite V5, !vset_other by discriminate.
      unfold fdat. rewrite (grow_fget _ _ _ G4).
      destruct (fr_get _ _ _ (st_frame _ _ _ _ S13) (PWal i)) as [X|X]; [discriminate|].
      rewrite X. cbn [wfs w1]. rewrite G1. reflexivity.
    - eapply walk_trans; [exact K1|]. eapply walk_trans; [exact K2|].
      eapply walk_trans; [exact K3|]. eapply walk_trans; [exact K4|].
      eapply walk_call; [exact (proj1 (gr_ext _ _ G4))|exact E5|exact R4|exact R5].
  Qed.

  Lemma seal_bound_le : forall wl, seal_bound wl <= seg_of (nextv wl).
  Proof.
    intros wl. unfold seal_bound. destruct (writer wl); [apply seg_of_pred_le, n_pos|lia].
  Qed.

  Lemma inv'_restp : forall m s sg, Inv' m s sg ->
    RestP (lpv (idx m)) (nextv (mwal m)) (seal_bound (mwal m)) (mpre m) sg s.
  Proof. intros m s sg (L & D & W). split; [now apply (live_aux H cfg)|exact D]. Qed.

  Lemma restp_inv' : forall m s sg, Live0 m s sg ->
    RestP (lpv (idx m)) (nextv (mwal m)) (seal_bound (mwal m)) (mpre m) sg s -> Inv' m s sg.
  Proof. intros m s sg L [(W & _) D]. split; [exact L|]. split; [exact D|exact W]. Qed.

  Lemma restp_to_rest : forall wl c pre sg x, sorted cmp sg -> NoCollide (map snd sg) ->
    RestP c (nextv wl) (seal_bound wl) pre sg x -> Rest x sg.
  Proof.
    intros wl c pre sg x Ss Nc R. eapply (restp_rest H H_len H_byte cfg n_pos); try eassumption.
    apply seal_bound_le.
  Qed.

  Lemma restp_to_restb : forall B wl c pre sg x, sorted cmp sg -> NoCollide (map snd sg) ->
    nextv wl <= B -> RestP c (nextv wl) (seal_bound wl) pre sg x -> RestB B x sg.
  Proof.
    intros B wl c pre sg x Ss Nc L R. eapply (restp_restb H H_len H_byte cfg n_pos); try eassumption.
    apply seal_bound_le.
  Qed.

  Lemma inv'_restb : forall B m s sg, Inv' m s sg -> nextv (mwal m) <= B -> RestB B s sg.
  Proof.
    intros B m s sg IV L. pose proof IV as (Lv & _).
    eapply restp_to_restb; [exact (lv_sorted _ _ _ _ _ Lv)|exact (lv_nocollide _ _ _ _ _ Lv)|exact L|].
    now apply inv'_restp.
  Qed.

  (* G2, put (stated from the weak handle invariant Inv'; [put_crash] below is the corollary
     from Inv).  Fitting hypotheses as for put_disk. *)
  Theorem put_crash' : forall m s sg k chunks w,
    Inv' m s sg -> wfs w = s -> wfault w = None ->
    NoCollide (concat chunks :: map snd sg) ->
    len k + 45 < 2 ^ 32 -> key_valid (c_kt cfg) k = true -> len (concat chunks) < 2 ^ 64 ->
    N.of_nat (length sg) + 1 < 2 ^ 32 -> nextv (mwal m) < 2 ^ 64 ->
    exists m' w', put H cfg m k chunks w = ((Ok tt, m'), w') /\ wfault w' = None /\
                  Inv' m' (wfs w') (sm_ins cmp sg k (concat chunks)) /\
                  nextv (mwal m') = nextv (mwal m) + 1 /\
                  Walk (RestDB (nextv (mwal m) + 1) sg (sm_ins cmp sg k (concat chunks))) w w'.
  Proof.
    intros m s sg k chunks w IV Ws F NC Lk Vk Lc Ln Lv. pose proof IV as (L & D & Wf).
    destruct (put_spec H H_len H_byte cfg n_pos m s sg k chunks w L Ws F NC)
      as (m' & w' & E & F' & P).
    pose proof (inv'_restp m s sg IV) as R.
    destruct (a_put_stage m s sg k chunks w _ _ _ L Ws F R NC) as (w5 & E5 & F5 & R5 & C5 & Wl5 & K5).
    cbv zeta in E5, C5. set (c := concat chunks) in *. set (sg' := sm_ins cmp sg k c) in *.
    pose proof L as [Ssg Hkm Hidx Hnc _ _ _ Hwal]. subst s.
    assert (Nc' : NoCollide (map snd sg')).
    { eapply (NoCollide_incl H); [|exact NC]. intros x Ix. apply in_map_iff in Ix.
      destruct Ix as ([k' c'] & <- & Ik). apply (KX In_ins) in Ik. destruct Ik as [Ik|Ik].
      + inversion Ik. now left.
      + right. apply in_map_iff. now exists (k', c'). }
    destruct (a_log_and_apply m sg sg' (RPut k (H c) (len c)) w5 F5 R5 C5)
      as (m2 & w2 & E2 & F2 & R2 & N2 & P2 & K2); try assumption.
    - destruct Hwal as [N1 Hw]. split; [exact N1|].
      destruct (writer (mwal m)) as [[sgm buf]|]; [|exact I].
      destruct Hw as (B & G & Hw). split; [exact B|]. split; [|exact Hw].
      intros X. apply G. apply fdat_none. rewrite <- Wl5. now apply fdat_none.
    - intros k' i Ik Eh. rewrite Hkm in Ik. apply (In_km_of H) in Ik. destruct Ik as (c' & Ic & ->).
      cbn [StoreInv.item_of ihash isize] in *.
      assert (c' = c); [|now subst].
      apply NC; [right; apply in_map_iff; now exists (k', c')|now left|exact Eh].
    - apply (KX sorted_ins), Ssg.
    - unfold sg'. rewrite (km_of_ins H cfg). cbn [km_expected]. now rewrite Hkm.
    - destruct D as (ids & rf & sf & km_c & ops & Dw).
      destruct (dw_sg _ _ _ _ _ _ _ _ _ _ _ _ _ Dw) as [Ln0 Fa0].
      split.
      + pose proof (DX length_sm_ins_le sg k c) as Hl. fold cmp sg' in Hl. lia.
      + apply Forall_forall. intros e Ie. apply (KX In_ins) in Ie. destruct Ie as [->|Ie].
        * cbn [fst snd]. auto.
        * rewrite Forall_forall in Fa0. now apply Fa0.
    - split.
      + cbn [op_fits]. unfold key_fits, hash_ok. split; [lia|]. split; [apply H_len|exact Lc].
      + cbn [op_keys]. constructor; [exact Vk|constructor].
    - rewrite (DX len_enc_put) by apply H_len. exact Lk.
    - rewrite E5, E2 in E. inversion E; subst m2 w2.
      exists m', w'. split; [rewrite E5; exact E2|]. split; [exact F'|]. split; [|split; [exact N2|]].
      + apply restp_inv'; [exact (proj1 (proj2 P))|exact R2].
      + eapply walk_trans; [|exact K2]. eapply walk_weaken; [|exact K5]. intros x Rx. left.
        eapply restp_to_restb; try eassumption. lia.
  Qed.

  (* ---- remove / remove_range: one record, all or nothing ---- *)
  Lemma a_removal : forall m s sg sg' ks w,
    Inv' m s sg -> wfs w = s -> wfault w = None ->
    sorted cmp sg' -> (forall e, In e sg' -> In e sg) -> (length sg' <= length sg)%nat ->
    km_of sg' = fold_left (fun mm k => sm_del cmp mm k) ks (km_of sg) ->
    (forall k, In k ks -> In k (map fst sg)) -> N.of_nat (length ks) < 2 ^ 32 ->
    len (enc_op (RRemove ks)) < 2 ^ 32 -> nextv (mwal m) < 2 ^ 64 ->
    exists m' w', log_and_apply H cfg m (RRemove ks) w = ((Ok tt, m'), w') /\ wfault w' = None /\
      RestP (lpv (idx m')) (nextv (mwal m')) (seal_bound (mwal m')) (mpre m') sg' (wfs w') /\
      nextv (mwal m') = nextv (mwal m) + 1 /\
      Walk (RestDB (nextv (mwal m) + 1) sg sg') w w'.
  Proof.
    intros m s sg sg' ks w IV Ws F Ssg' Sub Le Kd Kin Lks Lp Lv. pose proof IV as (L & D & Wf).
    pose proof (inv'_restp m s sg IV) as R. subst s.
    pose proof L as [Ssg Hkm Hidx Hnc _ _ _ Hwal].
    pose proof D as (ids & rf & sf & km_c & ops & Dw).
    pose proof (dw_sg _ _ _ _ _ _ _ _ _ _ _ _ _ Dw) as Sf.
    pose proof R as [(_ & _ & _ & Ca) _].
    destruct (a_log_and_apply m sg sg' (RRemove ks) w F R) as (m2 & w2 & E2 & F2 & R2 & N2 & P2 & K2);
      try assumption.
    - intros k c Ik. apply (Ca k), Sub, Ik.
    - exact I.
    - cbn [km_expected]. now rewrite Hkm.
    - eapply (NoCollide_incl H); [|exact Hnc]. intros x Ix. apply in_map_iff in Ix.
      destruct Ix as (e & <- & Ie). apply in_map, Sub, Ie.
    - eapply (sg_fits_sub cfg n_pos); eassumption.
    - destruct Sf as [_ Fa]. rewrite Forall_forall in Fa. split.
      + cbn [op_fits]. split; [exact Lks|]. apply Forall_forall. intros k Ik.
        apply Kin, in_map_iff in Ik. destruct Ik as (e & <- & Ie). specialize (Fa e Ie).
        unfold key_fits. lia.
      + cbn [op_keys]. apply Forall_forall. intros k Ik.
        apply Kin, in_map_iff in Ik. destruct Ik as (e & <- & Ie). now apply Fa.
    - exists m2, w2. split; [exact E2|]. split; [exact F2|]. split; [exact R2|].
      split; [exact N2|exact K2].
  Qed.

  Theorem remove_crash' : forall m s sg k w,
    Inv' m s sg -> wfs w = s -> wfault w = None -> nextv (mwal m) < 2 ^ 64 ->
    exists m' w',
      remove H cfg m k w
      = ((Ok (match sm_get cmp sg k with Some _ => true | None => false end), m'), w') /\
      wfault w' = None /\ Inv' m' (wfs w') (sm_del cmp sg k) /\
      nextv (mwal m') <= nextv (mwal m) + 1 /\
      Walk (RestDB (nextv (mwal m) + 1) sg (sm_del cmp sg k)) w w'.
  Proof.
    intros m s sg k w IV Ws F Lv. pose proof IV as (L & D & Wf).
    destruct (remove_spec H H_len H_byte cfg n_pos m s sg k w L Ws F) as (m' & w' & E & F' & P & Same).
    fold cmp in E, P, Same. exists m', w'. split; [exact E|]. split; [exact F'|].
    pose proof L as [Ssg Hkm _ Hnc _ _ _ _].
    destruct (sm_get cmp sg k) as [c0|] eqn:G.
    - destruct (a_removal m s sg (sm_del cmp sg k) [k] w IV Ws F)
        as (m2 & w2 & E2 & F2 & R2 & N2 & K2); try assumption.
      + apply (KX sorted_del), Ssg.
      + intros e. apply (KX In_del).
      + apply (DX length_sm_del_le).
      + cbn [fold_left]. apply (km_of_del H cfg).
      + intros k' [<-|[]]. apply in_map_iff. exists (k, c0). split; [reflexivity|].
        now apply (KX get_in _ _ _ Ssg).
      + cbn [length]. pow_consts. lia.
      + rewrite (DX len_enc_remove1).
        pose proof D as (ids & rf & sf & km_c & ops & Dw).
        destruct (dw_sg _ _ _ _ _ _ _ _ _ _ _ _ _ Dw) as [_ Fa]. rewrite Forall_forall in Fa.
        assert (Ik : In (k, c0) sg) by now apply (KX get_in _ _ _ Ssg).
        specialize (Fa _ Ik). cbn [fst] in Fa. lia.
      + unfold remove in E. fold cmp in E. rewrite Hkm, (km_of_get H cfg) in E. fold cmp in E.
        rewrite G in E. cbn [option_map] in E. rewrite (bind_eq _ _ _ _ _ E2) in E.
        inversion E; subst m2 w2.
        split; [|split; [lia|exact K2]]. apply restp_inv'; [exact (proj1 (proj2 P))|exact R2].
    - destruct (Same eq_refl) as [-> ->]. rewrite (KX del_absent _ _ G).
      split; [|split; [lia|]]; [rewrite Ws; exact IV|].
      apply walk_refl; [exact F|]. left. rewrite Ws. eapply inv'_restb; [exact IV|lia].
  Qed.

  Theorem remove_range_crash' : forall m s sg lo hi w,
    Inv' m s sg -> wfs w = s -> wfault w = None ->
    (nonempty (km (idx m)) && range_panics cmp lo hi) = false ->
    let inr := fun e : bytes * bytes => in_range cmp lo hi (fst e) in
    len (enc_op (RRemove (map fst (filter inr sg)))) < 2 ^ 32 -> nextv (mwal m) < 2 ^ 64 ->
    exists m' w',
      remove_range H cfg m lo hi w = ((Ok (N.of_nat (length (filter inr sg))), m'), w') /\
      wfault w' = None /\ Inv' m' (wfs w') (filter (fun e => negb (inr e)) sg) /\
      nextv (mwal m') <= nextv (mwal m) + 1 /\
      Walk (RestDB (nextv (mwal m) + 1) sg (filter (fun e => negb (inr e)) sg)) w w'.
  Proof.
    intros m s sg lo hi w IV Ws F NP inr Lp Lv. pose proof IV as (L & D & Wf).
    destruct (remove_range_spec H H_len H_byte cfg n_pos m s sg lo hi w L Ws F NP)
      as (m' & w' & E & F' & P).
    fold inr in E, P. exists m', w'. split; [exact E|]. split; [exact F'|].
    pose proof L as [Ssg Hkm _ _ _ _ _ _].
    unfold remove_range in E. fold cmp in E. rewrite NP in E. unfold keys_in_range in E.
    fold cmp in E. rewrite Hkm in E.
    rewrite <- (km_of_filter H (in_range cmp lo hi)), km_of_keys in E. fold inr in E.
    destruct (map fst (filter inr sg)) as [|k0 ks0] eqn:Eks.
    - inversion E; subst m' w'. apply map_eq_nil in Eks.
      rewrite (filter_none_all inr sg Eks). split; [|split; [lia|]]; [rewrite Ws; exact IV|].
      apply walk_refl; [exact F|]. left. rewrite Ws. eapply inv'_restb; [exact IV|lia].
    - rewrite <- Eks in *.
      destruct (a_removal m s sg (filter (fun e => negb (inr e)) sg) (map fst (filter inr sg)) w
                  IV Ws F) as (m2 & w2 & E2 & F2 & R2 & N2 & K2); try assumption.
      + apply (KX sorted_filter), Ssg.
      + intros e Ie. apply filter_In in Ie. tauto.
      + apply filter_length_le.
      + rewrite (km_of_filter H (fun k => negb (in_range cmp lo hi k))).
        rewrite <- (km_of_keys H (filter inr sg)).
        unfold inr. rewrite (km_of_filter H (in_range cmp lo hi)).
        symmetry. apply (fold_del_filter cfg (in_range cmp lo hi)). apply (sorted_km_of H cfg), Ssg.
      + intros k Ik. apply in_map_iff in Ik. destruct Ik as (e & <- & Ie).
        apply filter_In in Ie. apply in_map. tauto.
      + rewrite map_length. pose proof (filter_length_le inr sg).
        pose proof D as (ids & rf & sf & km_c & ops & Dw).
        destruct (dw_sg _ _ _ _ _ _ _ _ _ _ _ _ _ Dw) as [Ln _]. lia.
      + rewrite (bind_eq _ _ _ _ _ E2) in E. inversion E; subst m2 w2.
        split; [|split; [lia|exact K2]]. apply restp_inv'; [exact (proj1 (proj2 P))|exact R2].
  Qed.

  (* ---- checkpoint ---- *)
  Theorem checkpoint_crash' : forall m s sg w,
    Inv' m s sg -> wfs w = s -> wfault w = None ->
    exists m' w', checkpoint cfg m w = ((Ok tt, m'), w') /\ wfault w' = None /\
                  Inv' m' (wfs w') sg /\ nextv (mwal m') = nextv (mwal m) /\
                  Walk (fun x => RestB (nextv (mwal m)) x sg) w w'.
  Proof.
    intros m s sg w IV Ws F. pose proof IV as (L & D & Wf).
    destruct (checkpoint_spec H H_len H_byte cfg n_pos m s sg w L Ws F) as (m' & w' & E & F' & P).
    exists m', w'. split; [exact E|]. split; [exact F'|]. subst s.
    pose proof L as [Ssg Hkm _ Hnc _ _ _ _].
    destruct (a_checkpoint_inner RExplicit m (seal_bound (mwal m)) sg (nextv (mwal m)) w F
                (inv'_restp _ _ _ IV) (seal_bound_le _) (N.le_refl _) Hkm Ssg Hnc)
      as (m2 & w2 & E2 & X2 & R2 & _ & _ & _ & _ & Wl2 & P2 & _ & _ & K2).
    unfold checkpoint in E. rewrite E2 in E. inversion E; subst m2 w2.
    split; [|split; [now rewrite Wl2|exact K2]].
    apply restp_inv'; [exact (proj1 (proj2 P))|]. rewrite Wl2, P2. exact R2.
  Qed.

  (* ---- abort: only the transaction's own staging file is touched ---- *)
  Theorem abort_crash' : forall m s sg k chunks w,
    Inv' m s sg -> wfs w = s -> wfault w = None ->
    exists w', abort m k chunks w = ((Ok tt, m), w') /\ wfault w' = None /\ Inv' m (wfs w') sg /\
               Walk (fun x => RestB (nextv (mwal m)) x sg) w w'.
  Proof.
    intros m s sg k chunks w IV Ws F. pose proof IV as (L & D & Wf).
    destruct (abort_post H H_len H_byte cfg n_pos m s sg k chunks w L Ws F) as (w' & E & F' & P).
    exists w'. split; [exact E|]. split; [exact F'|].
    pose proof (inv'_restp m s sg IV) as R. subst s.
    pose proof L as [Ssg _ _ Hnc _ Hst (D1 & _) _].
    set (RP := RestP (lpv (idx m)) (nextv (mwal m)) (seal_bound (mwal m)) (mpre m) sg) in *.
    pose proof R as [(_ & Sf & _) _].
    set (p := PStaging (nstage (wfs w))).
    set (s1 := mkFs (set_path (files (wfs w)) p (mkFile [] 0)) (dirs (wfs w)) (nstage (wfs w) + 1)).
    set (w1 := mkWorld s1 (TCall (CCreateExcl p) :: wtrace w) (S (wcount w)) None).
    assert (Ea : apply_call (CCreateExcl p) (wfs w) = Ok s1).
    { unfold p. cbn [apply_call]. unfold parent_ok. cbn [parent_dir]. rewrite D1.
      rewrite (Hst (nstage (wfs w))) by lia. reflexivity. }
    assert (Ed : do_call (CCreateExcl p) w = (Ok tt, w1)) by exact (do_call_ok _ _ _ F Ea).
    assert (EA : new_staging w = (Ok p, w1)).
    { unfold new_staging. unfold bind at 1, get_fs at 1. fold p.
      rewrite (bind_eq _ _ _ _ _ Ed). reflexivity. }
    destruct (apply_call_view _ _ _ Wf Ea) as (Wf1 & Di1 & _ & _ & _ & V1).
    assert (R1 : RP (wfs w1)).
    { cbn [wfs w1]. eapply (restp_agree H cfg); [exact R|exact Wf1| |exact Di1| |].
      - intros i Li. cbn [s1 nstage] in Li. rewrite V1, vset_other; [apply Sf; lia|].
        unfold p. intros X. inversion X. lia.
      - split; [|split]; intros; rewrite V1; apply vset_other; discriminate.
      - intros k0 c1 _. rewrite V1. apply vset_other. discriminate. }
    assert (K1 : Walk RP w w1) by (eapply walk_call; [exact F|exact Ed|exact R|exact R1]).
    unfold abort in E. rewrite (bind_eq _ _ _ _ _ EA) in E.
    assert (Ks : forall b, call_keeps RP (CAppend p b))
      by (intros b; apply (restp_keeps H cfg); right; exact I).
    assert (Ku : call_keeps RP (CUnlink p))
      by (apply (restp_keeps H cfg); right; left; exact I).
    match type of E with ?f w1 = _ => assert (Kc : WalkM RP f) end.
    { unfold drop_staging. walkm ltac:(first [apply Ks|apply Ku]). }
    specialize (Kc w1 eq_refl R1). rewrite E in Kc. cbn [snd] in Kc.
    pose proof (walk_trans _ _ _ _ K1 Kc) as K.
    split.
    - apply restp_inv'; [exact (proj1 (proj2 P))|exact (walk_end _ _ _ K)].
    - eapply walk_weaken; [|exact K]. intros x Rx. eapply restp_to_restb; try eassumption. lia.
  Qed.

  (* ---- close: only a sync ---- *)
  Theorem close_crash' : forall m s sg w,
    Inv' m s sg -> wfs w = s -> wfault w = None ->
    exists w', close m w = (tt, w') /\ wfault w' = None /\ RestB (nextv (mwal m)) (wfs w') sg /\
               Walk (fun x => RestB (nextv (mwal m)) x sg) w w'.
  Proof.
    intros m s sg w IV Ws F. pose proof IV as (L & D & Wf). subst s.
    pose proof (inv'_restb _ _ _ _ IV (N.le_refl _)) as R0.
    destruct (close m w) as [[] w'] eqn:E. exists w'. split; [reflexivity|].
    assert (Kc : WalkM (fun x => RestB (nextv (mwal m)) x sg) (close m)).
    { unfold close. destruct L as [_ _ _ _ _ _ _ [_ Hw]].
      destruct (writer (mwal m)) as [[s0 b]|]; [|apply walkm_ret].
      destruct Hw as (-> & _). apply walkm_bind; [|intros; apply walkm_ret].
      intros w0 F0 X0. unfold writer_close.
      rewrite (bind_eq _ _ _ _ _ (eq_refl : bw_flush (PWal s0) [] w0 = (Ok tt, [], w0))).
      match goal with |- Walk _ _ (snd (?f w0)) =>
        assert (Kf : WalkM (fun x => RestB (nextv (mwal m)) x sg) f) end.
      { walkm ltac:(apply (restb_keeps H cfg); exact I). }
      now apply Kf. }
    specialize (Kc w F R0). rewrite E in Kc. cbn [snd] in Kc.
    split; [exact (walk_fault _ _ _ Kc)|]. split; [exact (walk_end _ _ _ Kc)|exact Kc].
  Qed.

  (* ---------------------------------------------------------------- *)
  (* G2 in the form of the task statement: from Inv, Along             *)
  (* ---------------------------------------------------------------- *)
  Theorem put_crash : forall m s sg k chunks w,
    Inv m s sg -> wfs w = s -> wfault w = None ->
    NoCollide (concat chunks :: map snd sg) ->
    len k + 45 < 2 ^ 32 -> key_valid (c_kt cfg) k = true -> len (concat chunks) < 2 ^ 64 ->
    N.of_nat (length sg) + 1 < 2 ^ 32 -> nextv (mwal m) < 2 ^ 64 ->
    exists m' w', put H cfg m k chunks w = ((Ok tt, m'), w') /\
      Along (fun x => Rest x sg \/ Rest x (sm_ins cmp sg k (concat chunks))) w w'.
  Proof.
    intros m s sg k chunks w IV Ws F NC Lk Vk Lc Ln Lv.
    destruct (put_crash' m s sg k chunks w (inv_inv' H H_len H_byte cfg n_pos _ _ _ IV) Ws F NC
                Lk Vk Lc Ln Lv) as (m' & w' & E & _ & _ & _ & K).
    exists m', w'. split; [exact E|].
    eapply along_weaken; [|exact (walk_along _ _ _ K)]. apply (restdb_rest H cfg).
  Qed.

  Theorem remove_crash : forall m s sg k w,
    Inv m s sg -> wfs w = s -> wfault w = None -> nextv (mwal m) < 2 ^ 64 ->
    exists r m' w', remove H cfg m k w = ((Ok r, m'), w') /\
      Along (fun x => Rest x sg \/ Rest x (sm_del cmp sg k)) w w'.
  Proof.
    intros m s sg k w IV Ws F Lv.
    destruct (remove_crash' m s sg k w (inv_inv' H H_len H_byte cfg n_pos _ _ _ IV) Ws F Lv)
      as (m' & w' & E & _ & _ & _ & K).
    eexists _, m', w'. split; [exact E|].
    eapply along_weaken; [|exact (walk_along _ _ _ K)]. apply (restdb_rest H cfg).
  Qed.

  (* a range removal is one operation: all of its keys or none *)
  Theorem remove_range_crash : forall m s sg lo hi w,
    Inv m s sg -> wfs w = s -> wfault w = None ->
    (nonempty (km (idx m)) && range_panics cmp lo hi) = false ->
    let inr := fun e : bytes * bytes => in_range cmp lo hi (fst e) in
    len (enc_op (RRemove (map fst (filter inr sg)))) < 2 ^ 32 -> nextv (mwal m) < 2 ^ 64 ->
    exists r m' w', remove_range H cfg m lo hi w = ((Ok r, m'), w') /\
      Along (fun x => Rest x sg \/ Rest x (filter (fun e => negb (inr e)) sg)) w w'.
  Proof.
    intros m s sg lo hi w IV Ws F NP inr Lp Lv.
    destruct (remove_range_crash' m s sg lo hi w (inv_inv' H H_len H_byte cfg n_pos _ _ _ IV)
                Ws F NP Lp Lv) as (m' & w' & E & _ & _ & _ & K).
    eexists _, m', w'. split; [exact E|].
    eapply along_weaken; [|exact (walk_along _ _ _ K)]. apply (restdb_rest H cfg).
  Qed.

  Theorem checkpoint_crash : forall m s sg w,
    Inv m s sg -> wfs w = s -> wfault w = None ->
    exists m' w', checkpoint cfg m w = ((Ok tt, m'), w') /\ Along (fun x => Rest x sg) w w'.
  Proof.
    intros m s sg w IV Ws F.
    destruct (checkpoint_crash' m s sg w (inv_inv' H H_len H_byte cfg n_pos _ _ _ IV) Ws F)
      as (m' & w' & E & _ & _ & _ & K).
    exists m', w'. split; [exact E|].
    eapply along_weaken; [|exact (walk_along _ _ _ K)]. intros x. apply (restb_rest H cfg).
  Qed.

  Theorem abort_crash : forall m s sg k chunks w,
    Inv m s sg -> wfs w = s -> wfault w = None ->
    exists w', abort m k chunks w = ((Ok tt, m), w') /\ Along (fun x => Rest x sg) w w'.
  Proof.
    intros m s sg k chunks w IV Ws F.
    destruct (abort_crash' m s sg k chunks w (inv_inv' H H_len H_byte cfg n_pos _ _ _ IV) Ws F)
      as (w' & E & _ & _ & K).
    exists w'. split; [exact E|].
    eapply along_weaken; [|exact (walk_along _ _ _ K)]. intros x. apply (restb_rest H cfg).
  Qed.

  Theorem close_crash : forall m s sg w,
    Inv m s sg -> wfs w = s -> wfault w = None ->
    exists w', close m w = (tt, w') /\ Along (fun x => Rest x sg) w w'.
  Proof.
    intros m s sg w IV Ws F.
    destruct (close_crash' m s sg w (inv_inv' H H_len H_byte cfg n_pos _ _ _ IV) Ws F)
      as (w' & E & _ & _ & K).
    exists w'. split; [exact E|].
    eapply along_weaken; [|exact (walk_along _ _ _ K)]. intros x. apply (restb_rest H cfg).
  Qed.
End CrashOps.

Print Assumptions put_crash'.
Print Assumptions put_crash.
Print Assumptions remove_crash.
Print Assumptions remove_range_crash.
Print Assumptions checkpoint_crash.
Print Assumptions abort_crash.
Print Assumptions close_crash.

