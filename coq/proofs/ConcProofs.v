(* ConcProofs.v -- properties of the concurrent model theories/Conc.v, derived from the
   invariant of ConcInv.v:

     C04  no dangling reference under any interleaving
            C04_no_dangling, C04_commit_window_protected, C04_never_deletes_protected,
            C04_apply_never_panics
     C15  concurrent calls always complete (lock discipline, deadlock freedom)
            C15_lock_order, C15_readers_shared_only, C15_iter_step,
            holds_sound, readers_sound, S_excludes_readers,
            acquires_sound, acquires_complete,
            C15_deadlock_free            (progress / termination: ConcProgress.v)
     C05  reads
            C05_read_never_fails  (no CMissing result in any reachable state, unconditionally),
            C05_read_returns_indexed_slice (get and get_range), C05_read_returns_indexed_content
            (get: pc_mode = MFull), C05_lookup_step, C05_retry_sees_current
            (full linearizability of reads is NOT claimed)
            no_faults_no_errors  (without faults no call returns CErr)
     C07  exactness of the blob directory at quiescence
            C07_nothing_less (unconditional), C07_quiescent_exact (no obstructed path, or no
            call returned an error), C07_quiescent_exact_nofaults

   Faults: everything here holds for ARBITRARY fault parameters bad / ckbad of the model, except
   where a hypothesis says otherwise (C07_quiescent_exact, no_faults_no_errors). *)
From Cas Require Import Base Codec SMap Index Conc.
From CasProofs Require Import SMapProofs IndexProofs ConcInv.
From Coq Require Import List NArith Lia Bool Arith.
Import ListNotations.
Open Scope N_scope.

Arguments N.add : simpl never.
Arguments N.sub : simpl never.
Arguments N.mul : simpl never.
Arguments N.div : simpl never.
Arguments N.modulo : simpl never.
Arguments N.eqb : simpl never.
Arguments N.ltb : simpl never.
Arguments N.leb : simpl never.

Local Notation LX L := (L lex_cmp lex_refl lex_eq lex_antisym lex_trans) (only parsing).

(* ---- the lock discipline, as data ---- *)
Inductive lockname := LI | LS | LW.

(* the acquisition order I < S < W *)
Definition lock_lt (a b : lockname) : Prop :=
  match a, b with LI, LS | LI, LW | LS, LW => True | _, _ => False end.

(* locks held while parked at p; a reader parked at GOpenL holds S in SHARED mode *)
Definition holds (p : pc) : list lockname :=
  (if holdsI p then [LI] else []) ++ (if holdsS p || holdsR p then [LS] else []).

(* locks acquired by the step that leaves p (shared acquisitions of S included) *)
Definition acquires (p : pc) : list lockname :=
  match p with
  | PILock _ _ | PDropI _ _ _ | WLockI _ | OLockI (_ :: _) _ _ => [LI]
  | WLockS _ | WCkS _ _ | RRead _ | RRRead _ _ | GRead _ _ | GReread _ _ _ | IRead | ORead _ _ _ _ => [LS]
  | WLockW _ | WCkW _ _ => [LW]
  | _ => []
  end.

(* the steps that take S in EXCLUSIVE mode *)
Definition excl (p : pc) : bool :=
  match p with WLockS _ | WCkS _ _ => true | _ => false end.

(* lock l cannot be acquired by the step leaving p: I is a mutex; S is taken when it has an
   exclusive holder, and for an exclusive acquisition also when it has shared holders;
   W is never held across a step *)
Definition blocked (g : cstate) (p : pc) (l : lockname) : bool :=
  match l with
  | LI => negb (free (g_I g))
  | LS => negb (free (g_S g)) || (excl p && negb (noreaders g))
  | LW => false
  end.

(* which blob a step from p removes *)
Definition unlinking (p : pc) (h : bytes) : Prop :=
  match p with
  | WUnlink _ (x :: _) _ => x = h
  | OUnlink x _ _ _ => x = h
  | _ => False
  end.

Section ConcProofs.
  Variable H : bytes -> bytes.
  Variable cmp : bytes -> bytes -> comparison.
  Hypothesis cmp_refl : forall a, cmp a a = Eq.
  Hypothesis cmp_eq : forall a b, cmp a b = Eq -> a = b.
  Hypothesis cmp_antisym : forall a b, cmp b a = CompOpp (cmp a b).
  Hypothesis cmp_trans : forall a b c, cmp a b = Lt -> cmp b c = Lt -> cmp a c = Lt.
  Variable nops : N.
  Variable bad : bytes -> bool.
  Variable ckbad : bool.
  Variable thr0 : list (nat * list ccall).
  Hypothesis thr0_nodup : NoDup (map fst thr0).
  Variable cas0 : smap bytes.
  Hypothesis cas0_sorted : sorted lex_cmp cas0.
  Hypothesis cas0_named : forall h c, In (h, c) cas0 -> H c = h.
  Hypothesis NoCollideC :
    forall a b, In a (allc thr0 cas0) -> In b (allc thr0 cas0) -> H a = H b -> a = b.

  Local Notation KX L := (L cmp cmp_refl cmp_eq cmp_antisym cmp_trans) (only parsing).
  Local Notation Inv := (ConcInv H cmp bad thr0 cas0).
  Local Notation Reach := (reachable H cmp nops bad ckbad thr0 cas0).
  Local Notation step := (cstep H cmp nops bad ckbad).

  Lemma rinv g : Reach g -> Inv g.
  Proof using cmp_refl cmp_eq cmp_antisym cmp_trans thr0_nodup cas0_sorted cas0_named NoCollideC.
    apply reachable_inv; assumption.
  Qed.

  (* ================================================================================== *)
  (* C04 *)

  Theorem C04_no_dangling g : Reach g ->
    forall k it, sm_get cmp (km (g_idx g)) k = Some it ->
    exists c, sm_get lex_cmp (g_cas g) (ihash it) = Some c /\ H c = ihash it /\ len c = isize it.
  Proof using cmp_refl cmp_eq cmp_antisym cmp_trans thr0_nodup cas0_sorted cas0_named NoCollideC.
    intros R k it G. pose proof (rinv g R) as I.
    apply (KX get_in) in G; [|apply (ci_idx _ _ _ _ _ _ I)].
    apply (ci_nodangling _ _ _ _ _ _ I _ _ G).
  Qed.

  (* after its rename and before its apply, a commit has its blob and the blob is protected *)
  Theorem C04_commit_window_protected g t ts k h sz : Reach g ->
    tget (g_thr g) t = Some ts -> in_window (t_pc ts) (WPut k h sz) ->
    (exists c, sm_get lex_cmp (g_cas g) h = Some c /\ H c = h /\ len c = sz) /\
    sm_get lex_cmp (g_byhash g) h <> None.
  Proof using cmp_refl cmp_eq cmp_antisym cmp_trans thr0_nodup cas0_sorted cas0_named NoCollideC.
    intros R Ht W. pose proof (rinv g R) as I.
    destruct (ci_pc _ _ _ _ _ _ I _ _ Ht) as [Pt _]. split.
    - destruct W as [E|[E|E]]; rewrite E in Pt; exact Pt.
    - eapply registered_protected; [exact I|exact Ht|].
      destruct W as [E|[E|E]]; rewrite E; cbn [reg]; apply beqb_refl.
  Qed.

  (* the effect of a step on the blob directory *)
  Lemma cstep_cas g t g' : step g t = Some g' ->
    g_cas g' = g_cas g \/
    (exists ts k c repl, tget (g_thr g) t = Some ts /\ t_pc ts = PRen k c repl /\
                    g_cas g' = sm_ins lex_cmp (g_cas g) (H c) c) \/
    (exists ts h, tget (g_thr g) t = Some ts /\ unlinking (t_pc ts) h /\
                  g_cas g' = sm_del lex_cmp (g_cas g) h).
  Proof using.
    unfold cstep. destruct (tget (g_thr g) t) as [ts|] eqn:Ht; [|discriminate].
    destruct (t_pc ts) eqn:Hpc;
      try (solve [repeat (match goal with
                          | |- (match ?x with _ => _ end = _) -> _ => destruct x
                          end); try discriminate; intros E; injection E as <-; left; reflexivity]).
    - (* PRen *)
      destruct (bad (H c)); intros E; injection E as <-; [left; reflexivity|].
      right; left. exists ts, k, c, repl.
      split; [reflexivity|split; [exact Hpc|reflexivity]].
    - (* WUnlink *)
      destruct todo as [|h rest]; [discriminate|].
      destruct (bad h); [intros E; injection E as <-; left; reflexivity|].
      destruct rest; intros E; injection E as <-; right; right; exists ts, h;
        (split; [reflexivity|split; [rewrite Hpc; reflexivity|reflexivity]]).
    - (* OUnlink *)
      destruct (bad h);
        [cbn beta iota zeta; destruct todo; intros E; injection E as <-; left; reflexivity|].
      destruct (sm_get lex_cmp (g_cas g) h) eqn:G; cbn beta iota zeta;
        destruct todo; intros E; injection E as <-.
      + right; right. exists ts, h. split; [reflexivity|split; [rewrite Hpc; reflexivity|reflexivity]].
      + right; right. exists ts, h. split; [reflexivity|split; [rewrite Hpc; reflexivity|reflexivity]].
      + left; reflexivity.
      + left; reflexivity.
  Qed.

  (* two index states that differ at most in last_persisted_version *)
  Definition same_content (i i' : istate) : Prop :=
    km i' = km i /\ rc i' = rc i /\ ub i' = ub i /\ tb i' = tb i /\ ssz i' = ssz i.

  (* the key map (and the refcounts and the statistics) change only in the WLockW step (append +
     apply) of a writer; a checkpoint (WCkW) records the persisted version, nothing else *)
  Lemma cstep_km g t g' : step g t = Some g' ->
    same_content (g_idx g) (g_idx g') \/
    exists ts w, tget (g_thr g) t = Some ts /\ t_pc ts = WLockW w.
  Proof using.
    unfold cstep. destruct (tget (g_thr g) t) as [ts|] eqn:Ht; [|discriminate].
    destruct (t_pc ts) eqn:Hpc;
      try (solve [cbn zeta;
                  repeat (match goal with
                          | |- (match ?x with _ => _ end = _) -> _ => destruct x
                          end); try discriminate; intros E; injection E as <-; left;
                  repeat split; reflexivity]).
    intros _. right. exists ts, w. split; [reflexivity|exact Hpc].
  Qed.

  (* the index itself changes only in WLockW and WCkW steps *)
  Lemma cstep_idx g t g' : step g t = Some g' ->
    g_idx g' = g_idx g \/
    exists ts, tget (g_thr g) t = Some ts /\
               ((exists w, t_pc ts = WLockW w) \/ (exists r e, t_pc ts = WCkW r e)).
  Proof using.
    unfold cstep. destruct (tget (g_thr g) t) as [ts|] eqn:Ht; [|discriminate].
    destruct (t_pc ts) eqn:Hpc;
      try (solve [repeat (match goal with
                          | |- (match ?x with _ => _ end = _) -> _ => destruct x
                          end); try discriminate; intros E; injection E as <-; left; reflexivity]).
    - intros _. right. exists ts. split; [reflexivity|]. left. eexists. exact Hpc.
    - intros _. right. exists ts. split; [reflexivity|]. right. eexists _, _. exact Hpc.
  Qed.

  (* no step removes a blob that a key references or that an in-flight commit needs *)
  Theorem C04_never_deletes_protected g t g' : Reach g -> step g t = Some g' ->
    forall h, sm_get lex_cmp (g_cas g) h <> None -> sm_get lex_cmp (g_cas g') h = None ->
    count_refs (km (g_idx g)) h = 0 /\ sm_get lex_cmp (g_byhash g) h = None.
  Proof using cmp_refl cmp_eq cmp_antisym cmp_trans thr0_nodup cas0_sorted cas0_named NoCollideC.
    intros R St h H1 H2. pose proof (rinv g R) as I.
    pose proof (ci_cas_sorted _ _ _ _ _ _ I) as S.
    destruct (cstep_cas _ _ _ St) as [E|[(ts & k & c & repl & Ht & Hpc & E)|(ts & x & Ht & Hu & E)]];
      rewrite E in H2.
    - contradiction.
    - exfalso. destruct (key_eq_dec h (H c)) as [->|N].
      + rewrite lex_get_ins_same in H2. discriminate.
      + rewrite lex_get_ins_other in H2 by assumption. contradiction.
    - destruct (key_eq_dec h x) as [->|N].
      + destruct (ci_pc _ _ _ _ _ _ I _ _ Ht) as [Pt _].
        destruct (t_pc ts); cbn [unlinking] in Hu; try contradiction.
        * destruct todo as [|y rest]; [contradiction|]. subst y. cbn [pc_ok] in Pt.
          apply Pt. left; reflexivity.
        * subst h. exact Pt.
      + rewrite lex_get_del_other in H2 by assumption. contradiction.
  Qed.

  (* the `None` branch of cstep at WLockW (a panic of apply) is unreachable; the thread
     parked there holds I and S *)
  Theorem C04_apply_never_panics g t ts w : Reach g ->
    tget (g_thr g) t = Some ts -> t_pc ts = WLockW w ->
    g_I g = Some t /\ g_S g = Some t /\
    exists idx' un, apply_op cmp (g_idx g) (wop w) = Ok (idx', un).
  Proof using cmp_refl cmp_eq cmp_antisym cmp_trans thr0_nodup cas0_sorted cas0_named NoCollideC.
    intros R Ht Hpc. pose proof (rinv g R) as I.
    split; [|split].
    - eapply holder_I; [exact I|exact Ht|rewrite Hpc; reflexivity].
    - eapply holder_S; [exact I|exact Ht|rewrite Hpc; reflexivity].
    - assert (Hresp : op_respects_sizes (g_idx g) (wop w)).
      { eapply window_respects; [exact I|exact Ht|right; right; exact Hpc]. }
      destruct (KX C12_apply_ok (g_idx g) (wop w) (ci_idx _ _ _ _ _ _ I) Hresp) as (s' & un & E & _).
      exists s', un. exact E.
  Qed.

  (* ================================================================================== *)
  (* C15: lock discipline and deadlock freedom *)

  (* every lock acquired by a step is above every lock held; W is never held across a step;
     a reader parked at GOpenL (holding S shared) acquires nothing *)
  Theorem C15_lock_order p :
    (forall a l, In a (acquires p) -> In l (holds p) -> lock_lt l a) /\ ~ In LW (holds p).
  Proof using.
    split.
    - intros a l Ia Il. destruct p; try destruct todo; cbn in Ia, Il;
        repeat match goal with
               | Hx : _ \/ _ |- _ => destruct Hx
               | Hx : False |- _ => destruct Hx
               end; subst; exact I.
    - intros Il. destruct p; cbn in Il;
        repeat match goal with
               | Hx : _ \/ _ |- _ => destruct Hx
               | Hx : False |- _ => destruct Hx
               end; discriminate.
  Qed.

  (* reads (get, get_size, get_range) and iteration take the state lock in SHARED mode only,
     and no other lock: the steps leaving GRead / GReread / IRead acquire S non-exclusively
     while holding nothing *)
  Theorem C15_readers_shared_only p :
    (exists k md, p = GRead k md) \/ (exists k it md, p = GReread k it md) \/ p = IRead ->
    acquires p = [LS] /\ excl p = false /\ holds p = [].
  Proof using.
    intros [(k & md & ->)|[(k & it & md & ->)| ->]]; repeat split.
  Qed.

  (* the iteration step: enabled exactly when nobody holds S exclusively (shared holders and
     the holder of I do not block it); it returns the key list of the current key map, changes
     no lock word and holds nothing afterwards (the read guard does not outlive the step) *)
  Theorem C15_iter_step g t ts : tget (g_thr g) t = Some ts -> t_pc ts = IRead ->
    (enabled H cmp nops bad ckbad g t = true <-> g_S g = None) /\
    forall g', step g t = Some g' ->
      g_I g' = g_I g /\ g_S g' = g_S g /\ g_R g' = g_R g /\ g_idx g' = g_idx g /\ g_cas g' = g_cas g /\
      tget (g_thr g') t =
        Some (mkT (t_calls ts) Idle (t_res ts ++ [CKeys (map fst (km (g_idx g)))])).
  Proof using.
    intros Ht Hpc. unfold enabled, cstep. rewrite Ht, Hpc. split.
    - destruct (g_S g); cbn [free]; split; intros X; try reflexivity; discriminate X.
    - intros g'. destruct (free (g_S g)); [|discriminate]. intros E. injection E as <-.
      unfold finish. cbn [g_I g_S g_R g_idx g_cas g_thr]. repeat split. apply tget_tset_same.
  Qed.

  (* an exclusive holder of S and shared holders never coexist *)
  Theorem S_excludes_readers g : Reach g -> ~ (g_S g <> None /\ g_R g <> []).
  Proof using cmp_refl cmp_eq cmp_antisym cmp_trans thr0_nodup cas0_sorted cas0_named NoCollideC.
    intros R [A B]. apply B. apply (ci_SR _ _ _ _ _ _ (rinv g R) A).
  Qed.

  (* the shared holders are exactly the readers parked at GOpenL *)
  Theorem readers_sound g t : Reach g ->
    NoDup (g_R g) /\
    (In t (g_R g) <-> exists ts k it md, tget (g_thr g) t = Some ts /\ t_pc ts = GOpenL k it md).
  Proof using cmp_refl cmp_eq cmp_antisym cmp_trans thr0_nodup cas0_sorted cas0_named NoCollideC.
    intros R. destruct (ci_R _ _ _ _ _ _ (rinv g R)) as [ND HR]. split; [exact ND|].
    rewrite HR. split.
    - intros (ts & G & Hh). destruct (t_pc ts) eqn:Hpc; try discriminate.
      exists ts, k, it, md. split; assumption.
    - intros (ts & k & it & md & G & Hpc). exists ts. split; [exact G|rewrite Hpc; reflexivity].
  Qed.

  (* [holds] agrees with the lock words of every reachable state *)
  Theorem holds_sound g t ts : Reach g -> tget (g_thr g) t = Some ts ->
    (In LI (holds (t_pc ts)) <-> g_I g = Some t) /\
    (In LS (holds (t_pc ts)) <-> g_S g = Some t \/ In t (g_R g)).
  Proof using cmp_refl cmp_eq cmp_antisym cmp_trans thr0_nodup cas0_sorted cas0_named NoCollideC.
    intros R Ht. pose proof (rinv g R) as I.
    assert (AI : holdsI (t_pc ts) = true <-> g_I g = Some t).
    { split.
      - intros Hh. eapply holder_I; eassumption.
      - intros E. apply (ci_lockI _ _ _ _ _ _ I) in E. destruct E as (ts' & G & Hh).
        rewrite Ht in G. inversion G; subst. exact Hh. }
    assert (AS : holdsS (t_pc ts) = true <-> g_S g = Some t).
    { split.
      - intros Hh. eapply holder_S; eassumption.
      - intros E. apply (ci_lockS _ _ _ _ _ _ I) in E. destruct E as (ts' & G & Hh).
        rewrite Ht in G. inversion G; subst. exact Hh. }
    assert (AR : holdsR (t_pc ts) = true <-> In t (g_R g)).
    { rewrite (proj2 (ci_R _ _ _ _ _ _ I) t). split.
      - intros Hh. exists ts. split; assumption.
      - intros (ts' & G & Hh). rewrite Ht in G. inversion G; subst. exact Hh. }
    rewrite <- AI, <- AS, <- AR. unfold holds.
    destruct (holdsI (t_pc ts)), (holdsS (t_pc ts)), (holdsR (t_pc ts)); cbn;
      intuition discriminate.
  Qed.

  (* a step is blocked only if the thread has finished or the first lock it acquires cannot
     be acquired *)
  Theorem acquires_sound g t ts : Reach g -> tget (g_thr g) t = Some ts ->
    step g t = None ->
    finished_t ts = true \/
    exists l, hd_error (acquires (t_pc ts)) = Some l /\ blocked g (t_pc ts) l = true.
  Proof using cmp_refl cmp_eq cmp_antisym cmp_trans thr0_nodup cas0_sorted cas0_named NoCollideC.
    intros R Ht. pose proof (rinv g R) as I.
    destruct (ci_pc _ _ _ _ _ _ I _ _ Ht) as [Pt _].
    unfold cstep. rewrite Ht. unfold finished_t. revert Pt.
    destruct (t_pc ts) eqn:Hpc; cbn [pc_ok acquires hd_error]; intros Pt;
      try (solve [repeat (match goal with
                          | |- (match ?x with _ => _ end = _) -> _ => destruct x eqn:?
                          end); try discriminate; intros _;
                  first [ left; reflexivity
                        | right; eexists; split; [reflexivity|]; cbn [blocked excl];
                          match goal with Hf : free _ = false |- _ => rewrite Hf; reflexivity end ]]).
    - (* WLockS *)
      destruct (free (g_S g)) eqn:F; cbn [andb].
      + destruct (noreaders g) eqn:NR; [discriminate|]. intros _.
        right. exists LS. split; [reflexivity|]. cbn [blocked excl]. rewrite F, NR. reflexivity.
      + intros _. right. exists LS. split; [reflexivity|]. cbn [blocked]. rewrite F. reflexivity.
    - (* WLockW *)
      destruct (C04_apply_never_panics g t ts w R Ht Hpc) as (_ & _ & idx' & un & E).
      rewrite E. discriminate.
    - (* WUnlink *)
      destruct Pt as [NE _]. destruct todo as [|h rest]; [contradiction|].
      destruct (bad h); [discriminate|]. destruct rest; discriminate.
    - (* WCkS *)
      destruct (free (g_S g)) eqn:F; cbn [andb].
      + destruct (noreaders g) eqn:NR; [discriminate|]. intros _.
        right. exists LS. split; [reflexivity|]. cbn [blocked excl]. rewrite F, NR. reflexivity.
      + intros _. right. exists LS. split; [reflexivity|]. cbn [blocked]. rewrite F. reflexivity.
  Qed.

  (* conversely, a step whose first lock cannot be acquired is blocked (no invariant needed) *)
  Theorem acquires_complete g t ts l : tget (g_thr g) t = Some ts ->
    hd_error (acquires (t_pc ts)) = Some l -> blocked g (t_pc ts) l = true -> step g t = None.
  Proof using.
    intros Ht. unfold cstep. rewrite Ht.
    destruct (t_pc ts) eqn:Hpc; try destruct todo; cbn [acquires hd_error]; try discriminate;
      intros E; injection E as <-; cbn [blocked excl andb orb]; try discriminate;
      rewrite ?orb_false_r; intros Tk;
      try (apply negb_true_iff in Tk; rewrite Tk; reflexivity).
    - destruct (free (g_S g)); [|reflexivity]. cbn [negb orb andb] in *.
      apply negb_true_iff in Tk. rewrite Tk. reflexivity.
    - destruct (free (g_S g)); [|reflexivity]. cbn [negb orb andb] in *.
      apply negb_true_iff in Tk. rewrite Tk. reflexivity.
  Qed.

  Corollary enabled_if_free g t ts : Reach g -> tget (g_thr g) t = Some ts ->
    finished_t ts = false ->
    (forall l, hd_error (acquires (t_pc ts)) = Some l -> blocked g (t_pc ts) l = false) ->
    enabled H cmp nops bad ckbad g t = true.
  Proof using cmp_refl cmp_eq cmp_antisym cmp_trans thr0_nodup cas0_sorted cas0_named NoCollideC.
    intros R Ht NF Fr. unfold enabled. destruct (step g t) eqn:E; [reflexivity|].
    destruct (acquires_sound g t ts R Ht E) as [F|(l & Hl & Tk)]; [congruence|].
    rewrite (Fr l Hl) in Tk. discriminate.
  Qed.

  Lemma holding_not_finished ts :
    holdsI (t_pc ts) = true \/ holdsS (t_pc ts) = true \/ holdsR (t_pc ts) = true ->
    finished_t ts = false.
  Proof using.
    unfold finished_t. destruct (t_pc ts); cbn; intros [E|[E|E]]; try discriminate; reflexivity.
  Qed.

  (* some thread can always move, unless every thread has finished *)
  Theorem C15_deadlock_free g : Reach g -> all_finished g = false ->
    exists t, enabled H cmp nops bad ckbad g t = true.
  Proof using cmp_refl cmp_eq cmp_antisym cmp_trans thr0_nodup cas0_sorted cas0_named NoCollideC.
    intros R NF. pose proof (rinv g R) as I.
    destruct (g_S g) as [u|] eqn:ES.
    { (* the exclusive holder of S is at WLockW or WCkW: its step only needs W *)
      destruct (proj1 (ci_lockS _ _ _ _ _ _ I u) ES) as (tsu & G & Hh).
      exists u. apply (enabled_if_free g u tsu R G).
      - apply holding_not_finished. right; left; exact Hh.
      - intros l. destruct (t_pc tsu); cbn in Hh; try discriminate; cbn [acquires hd_error];
          intros E; inversion E; reflexivity. }
    destruct (g_R g) as [|u rs] eqn:ER.
    2:{ (* a reader holding S shared: its step needs nothing *)
      destruct (proj1 (proj2 (ci_R _ _ _ _ _ _ I) u)) as (tsu & G & Hh);
        [rewrite ER; left; reflexivity|].
      exists u. apply (enabled_if_free g u tsu R G).
      - apply holding_not_finished. right; right; exact Hh.
      - intros l. destruct (t_pc tsu); cbn in Hh; try discriminate; cbn [acquires hd_error];
          discriminate. }
    assert (NR : noreaders g = true) by (unfold noreaders; rewrite ER; reflexivity).
    destruct (g_I g) as [u|] eqn:EI.
    { (* S is entirely free: the holder of I needs S or nothing *)
      destruct (proj1 (ci_lockI _ _ _ _ _ _ I u) EI) as (tsu & G & Hh).
      exists u. apply (enabled_if_free g u tsu R G).
      - apply holding_not_finished. left; exact Hh.
      - intros l. destruct (t_pc tsu); cbn in Hh; try discriminate; cbn [acquires hd_error];
          intros E; inversion E; cbn [blocked]; rewrite ?ES, ?NR; reflexivity. }
    (* all locks are free: any unfinished thread can move *)
    unfold all_finished in NF.
    assert (EX : exists p, In p (g_thr g) /\ finished_t (snd p) = false).
    { clear -NF. induction (g_thr g) as [|p r IH]; cbn [forallb] in NF; [discriminate|].
      destruct (finished_t (snd p)) eqn:F.
      - destruct (IH NF) as (q & Iq & Fq). exists q. split; [right; exact Iq|exact Fq].
      - exists p. split; [left; reflexivity|exact F]. }
    destruct EX as ([t ts] & Ip & Fp). cbn [snd] in Fp.
    exists t. apply (enabled_if_free g t ts R).
    - apply In_tget; [apply (ci_nodup _ _ _ _ _ _ I)|exact Ip].
    - exact Fp.
    - intros l _. destruct l; cbn [blocked]; rewrite ?ES, ?EI, ?NR; cbn;
        rewrite ?andb_false_r; reflexivity.
  Qed.

  (* ================================================================================== *)
  (* C05: what a read returns.  Linearizability of reads is NOT claimed. *)

  Ltac head_destruct :=
    repeat (match goal with
            | |- (match ?x with _ => _ end = _) -> _ => destruct x eqn:?
            end).

  (* results carried by the write path are never read results *)
  Definition plain (r : cres) : Prop :=
    match r with CUnit | CBool _ | CNum _ => True | _ => False end.
  Definition pc_res_ok (p : pc) : Prop :=
    match p with
    | WLockI w | WLockS w | WLockW w | WApplied w _ _ | WUnlink w _ _ | WReleased w _ =>
      plain (wres w)
    | WCkS r _ | WCkW r _ => plain r
    | _ => True
    end.
  Definition ResInv (g : cstate) : Prop :=
    forall t ts, tget (g_thr g) t = Some ts -> pc_res_ok (t_pc ts).

  (* frame: a step of thread t changes only t's tstate in g_thr *)
  Lemma cstep_frame g t g' ts : step g t = Some g' -> tget (g_thr g) t = Some ts ->
    exists ts', g_thr g' = tset (g_thr g) t ts' /\ (pc_res_ok (t_pc ts) -> pc_res_ok (t_pc ts')).
  Proof using.
    intros St Ht. revert St. unfold cstep. rewrite Ht.
    destruct (t_pc ts) eqn:Hpc; head_destruct; try discriminate;
      intros E; injection E as <-; (eexists; split; [reflexivity|]);
      cbn [pc_res_ok t_pc wres plain]; try tauto;
      try (destruct w; cbn [wres plain]; tauto).
  Qed.

  Lemma cstep_frame_other g t g' u : step g t = Some g' -> u <> t ->
    tget (g_thr g') u = tget (g_thr g) u.
  Proof using.
    intros St N. destruct (tget (g_thr g) t) as [ts|] eqn:Ht.
    - destruct (cstep_frame _ _ _ _ St Ht) as (ts' & E & _). rewrite E.
      apply tget_tset_other, N.
    - unfold cstep in St. rewrite Ht in St. discriminate.
  Qed.

  Lemma res_inv g : Reach g -> ResInv g.
  Proof using.
    intros [sched ->]. 
    assert (A : forall s g0, ResInv g0 -> ResInv (crun H cmp nops bad ckbad g0 s)).
    { induction s as [|t s IH]; intros g0 I0; cbn [crun]; [exact I0|].
      destruct (step g0 t) as [g1|] eqn:St; [|apply IH, I0].
      apply IH. intros u tsu G.
      destruct (Nat.eq_dec u t) as [->|N].
      - destruct (tget (g_thr g0) t) as [ts|] eqn:Ht.
        + destruct (cstep_frame _ _ _ _ St Ht) as (ts' & E & P).
          rewrite E, tget_tset_same in G. injection G as <-. apply P, (I0 _ _ Ht).
        + unfold cstep in St. rewrite Ht in St. discriminate.
      - rewrite (cstep_frame_other _ _ _ _ St N) in G. apply (I0 _ _ G). }
    apply A. intros t ts G. apply tget_init in G. destruct G as (cs & _ & ->). exact I.
  Qed.

  (* the read mode carried by a reader's pc: MFull = get, MSize = get_size, MRange a b = get_range *)
  Definition pc_mode (p : pc) : option rmode :=
    match p with
    | GRead _ md | GLooked _ _ md | GOpen _ _ md | GReread _ _ md | GOpenL _ _ md => Some md
    | _ => None
    end.

  (* a step that appends [CBytes (Some c)] to the results of t is a step of a read (get or
     get_range).  Either it is an open_blob step: the thread was parked at GOpen k it md (first
     attempt) or at GOpenL k it md (the retry under the read lock, where it IS the current value
     of k); the blob x stored under ihash it hashes to ihash it, has the recorded size, and c
     is what [read_result md it] makes of x (x itself for a get, a slice of x for a get_range).
     Or it is the empty-range exit of a get_range, decided from the item alone: at GLooked
     with the item looked up one step before, or at GReread with the CURRENT item of k. *)
  Theorem C05_read_returns_indexed_slice g t ts g' ts' c : Reach g ->
    tget (g_thr g) t = Some ts -> step g t = Some g' -> tget (g_thr g') t = Some ts' ->
    t_res ts' = t_res ts ++ [CBytes (Some c)] ->
    exists k it md,
      ((t_pc ts = GOpen k it md \/
        (t_pc ts = GOpenL k it md /\ sm_get cmp (km (g_idx g)) k = Some it)) /\
       exists x, sm_get lex_cmp (g_cas g) (ihash it) = Some x /\ H x = ihash it /\
                 len x = isize it /\ read_result md it x = CBytes (Some c)) \/
      ((t_pc ts = GLooked k it md \/
        ((exists it0, t_pc ts = GReread k it0 md) /\ sm_get cmp (km (g_idx g)) k = Some it)) /\
       pre_open md it = Some (CBytes (Some c))).
  Proof using cmp_refl cmp_eq cmp_antisym cmp_trans thr0_nodup cas0_sorted cas0_named NoCollideC.
    intros R Ht St Ht' Hres. pose proof (rinv g R) as I.
    destruct (ci_pc _ _ _ _ _ _ I _ _ Ht) as [Pt _].
    pose proof (res_inv g R _ _ Ht) as Pr.
    revert St. unfold cstep. rewrite Ht. revert Pt Pr.
    destruct (t_pc ts) eqn:Hpc; cbn [pc_ok pc_res_ok]; intros Pt Pr; head_destruct;
      try discriminate;
      intros E; injection E as <-; unfold finish, set_pc in Ht'; cbn [g_thr] in Ht';
      rewrite tget_tset_same in Ht'; injection Ht' as <-; cbn [t_res] in Hres;
      try (exfalso; apply (f_equal (@length cres)) in Hres; rewrite app_length in Hres;
           cbn [length] in Hres; lia);
      try (apply app_inv_head in Hres; discriminate);
      try (apply app_inv_head in Hres; destruct md; discriminate);
      try (apply app_inv_head in Hres; injection Hres as Hres; rewrite Hres in Pr; destruct Pr);
      try (destruct ckbad; apply app_inv_head in Hres; injection Hres as Hres;
           [discriminate Hres|rewrite Hres in Pr; destruct Pr]).
    - (* GLooked *)
      apply app_inv_head in Hres. injection Hres as ->.
      exists k, it, md. right. split; [left; reflexivity|assumption].
    - (* GOpen *)
      apply app_inv_head in Hres. injection Hres as Hres.
      exists k, it, md. left. split; [left; reflexivity|].
      match goal with G : sm_get lex_cmp (g_cas g) (ihash it) = Some ?x |- _ =>
        exists x; split; [exact G|];
        apply (lex_get_in _ _ _ (ci_cas_sorted _ _ _ _ _ _ I)) in G;
        destruct (ci_cas_named _ _ _ _ _ _ I _ _ G) as [Hh Ic] end.
      split; [exact Hh|]. split; [|exact Hres].
      destruct Pt as (c0 & Ic0 & Hh0 & Hl0).
      match goal with Ic : In ?x _ |- len ?x = _ =>
        assert (c0 = x) by (apply NoCollideC; try assumption; congruence) end.
      subst c0. exact Hl0.
    - (* GReread *)
      apply app_inv_head in Hres. injection Hres as ->.
      match goal with G : sm_get cmp _ k = Some ?cur |- _ =>
        exists k, cur, md; right; split; [right; split; [eexists; reflexivity|exact G]|assumption] end.
    - (* GOpenL *)
      apply app_inv_head in Hres. injection Hres as Hres.
      exists k, it, md. left. split; [right; split; [reflexivity|exact Pt]|].
      destruct (C04_no_dangling g R _ _ Pt) as (c1 & G1 & Hh & Hl).
      match goal with G : sm_get lex_cmp (g_cas g) (ihash it) = Some _ |- _ =>
        rewrite G in G1; injection G1 as <- end.
      eexists. split; [eassumption|]. split; [exact Hh|]. split; [exact Hl|exact Hres].
  Qed.

  (* the statement for get (mode MFull): the step is an open_blob step and the returned
     content is the WHOLE blob stored under the hash of the item *)
  Theorem C05_read_returns_indexed_content g t ts g' ts' c : Reach g ->
    tget (g_thr g) t = Some ts -> step g t = Some g' -> tget (g_thr g') t = Some ts' ->
    t_res ts' = t_res ts ++ [CBytes (Some c)] -> pc_mode (t_pc ts) = Some MFull ->
    exists k it, (t_pc ts = GOpen k it MFull \/
                  (t_pc ts = GOpenL k it MFull /\ sm_get cmp (km (g_idx g)) k = Some it)) /\
                 sm_get lex_cmp (g_cas g) (ihash it) = Some c /\
                 H c = ihash it /\ len c = isize it.
  Proof using cmp_refl cmp_eq cmp_antisym cmp_trans thr0_nodup cas0_sorted cas0_named NoCollideC.
    intros R Ht St Ht' Hres Hm.
    destruct (C05_read_returns_indexed_slice g t ts g' ts' c R Ht St Ht' Hres)
      as (k & it & md & [(Hp & x & G & Hh & Hl & Hr)|(Hp & Hr)]).
    - assert (md = MFull).
      { destruct Hp as [Hp|[Hp _]]; rewrite Hp in Hm; cbn [pc_mode] in Hm; congruence. }
      subst md. cbn [read_result] in Hr. injection Hr as ->.
      exists k, it. split; [exact Hp|]. split; [exact G|]. split; assumption.
    - exfalso. assert (md = MFull).
      { destruct Hp as [Hp|[[it0 Hp] _]]; rewrite Hp in Hm; cbn [pc_mode] in Hm; congruence. }
      subst md. discriminate.
  Qed.

  (* the item carried by a reader was the value of the key at the thread's last lookup step:
     GLooked k it is entered only by a GRead step that found km(k) = it; GOpen k it only from
     GLooked k it; GReread k it only from GOpen k it when the blob of it was not in the
     directory; GOpenL k it only by a GReread step that found km(k) = it (and from then on
     the thread holds the state lock shared, so km(k) = it still holds when it opens the
     blob: clause GOpenL of pc_ok) *)
  Theorem C05_lookup_step g t ts g' ts' : 
    tget (g_thr g) t = Some ts -> step g t = Some g' -> tget (g_thr g') t = Some ts' ->
    (forall k it md, t_pc ts' = GLooked k it md ->
       t_pc ts = GRead k md /\ sm_get cmp (km (g_idx g)) k = Some it) /\
    (forall k it md, t_pc ts' = GOpen k it md ->
       t_pc ts = GLooked k it md /\ pre_open md it = None) /\
    (forall k it md, t_pc ts' = GReread k it md ->
       t_pc ts = GOpen k it md /\ sm_get lex_cmp (g_cas g) (ihash it) = None) /\
    (forall k it md, t_pc ts' = GOpenL k it md ->
       exists it0, t_pc ts = GReread k it0 md /\ sm_get cmp (km (g_idx g)) k = Some it /\
                   pre_open md it = None).
  Proof using.
    intros Ht St Ht'. revert St. unfold cstep. rewrite Ht.
    destruct (t_pc ts) eqn:Hpc; head_destruct; try discriminate;
      intros E; injection E as <-; unfold finish, set_pc in Ht'; cbn [g_thr] in Ht';
      rewrite tget_tset_same in Ht'; injection Ht' as <-; cbn [t_pc];
      (split; [|split; [|split]]); intros; try discriminate;
      match goal with Hx : _ = _ :> pc |- _ => injection Hx; intros; subst end; auto.
    eexists. split; [reflexivity|split; assumption].
  Qed.

  (* a reader parked at GOpenL k it (holding the state lock shared) sees the current item of
     k, and the blob of that item is in the directory *)
  Theorem C05_retry_sees_current g t ts k it md : Reach g ->
    tget (g_thr g) t = Some ts -> t_pc ts = GOpenL k it md ->
    In t (g_R g) /\ g_S g = None /\ sm_get cmp (km (g_idx g)) k = Some it /\
    exists c, sm_get lex_cmp (g_cas g) (ihash it) = Some c /\ H c = ihash it /\ len c = isize it.
  Proof using cmp_refl cmp_eq cmp_antisym cmp_trans thr0_nodup cas0_sorted cas0_named NoCollideC.
    intros R Ht Hpc. pose proof (rinv g R) as I.
    destruct (ci_pc _ _ _ _ _ _ I _ _ Ht) as [Pt _]. rewrite Hpc in Pt. cbn [pc_ok] in Pt.
    assert (IR : In t (g_R g)).
    { apply (proj2 (ci_R _ _ _ _ _ _ I) t). exists ts. split; [exact Ht|rewrite Hpc; reflexivity]. }
    split; [exact IR|]. split.
    - destruct (g_S g) eqn:ES; [|reflexivity]. exfalso.
      assert (E : g_R g = []) by (apply (ci_SR _ _ _ _ _ _ I); rewrite ES; discriminate).
      rewrite E in IR. destruct IR.
    - split; [exact Pt|]. apply (C04_no_dangling g R _ _ Pt).
  Qed.

  (* the answers computed from the index item alone *)
  Lemma pre_open_cases md it r : pre_open md it = Some r ->
    r = CSize (Some (isize it)) \/ r = CBytes (Some []) \/ r = CInvalid.
  Proof using.
    destruct md as [| |a b]; cbn [pre_open]; [discriminate|intros E; injection E as <-; auto|].
    destruct (isize it <=? a); [intros E; injection E as <-; auto|].
    destruct (N.min b (isize it) <? a); [intros E; injection E as <-; auto|discriminate].
  Qed.

  (* C05: reads never fail.  No step ever produces BlobDataMissing: the only step that can is
     the open under the read lock (GOpenL), and there the key is still bound to the item
     (the index cannot change while the lock is held shared), so its blob is present
     (C04_no_dangling). *)
  Lemma cstep_no_missing g t ts g' ts' : Reach g ->
    tget (g_thr g) t = Some ts -> step g t = Some g' -> tget (g_thr g') t = Some ts' ->
    In CMissing (t_res ts') -> In CMissing (t_res ts).
  Proof using cmp_refl cmp_eq cmp_antisym cmp_trans thr0_nodup cas0_sorted cas0_named NoCollideC.
    intros R Ht St Ht' Hin. pose proof (rinv g R) as I.
    destruct (ci_pc _ _ _ _ _ _ I _ _ Ht) as [Pt _].
    pose proof (res_inv g R _ _ Ht) as Pr.
    revert St. unfold cstep. rewrite Ht. revert Pt Pr.
    destruct (t_pc ts) eqn:Hpc; cbn [pc_ok pc_res_ok]; intros Pt Pr; head_destruct;
      try discriminate;
      intros E; injection E as <-; unfold finish, set_pc in Ht'; cbn [g_thr] in Ht';
      rewrite tget_tset_same in Ht'; injection Ht' as <-; cbn [t_res] in Hin;
      try exact Hin;
      (apply in_app_or in Hin; destruct Hin as [Hin|[Hin|[]]]; [exact Hin|exfalso]);
      try discriminate;
      try (destruct md; discriminate);
      try (match goal with Hp : pre_open _ _ = Some _ |- _ =>
             rewrite Hin in Hp; destruct (pre_open_cases _ _ _ Hp) as [X|[X|X]]; discriminate X end);
      try (rewrite Hin in Pr; exact Pr);
      try (destruct ckbad; [discriminate Hin|rewrite Hin in Pr; exact Pr]).
    destruct (C04_no_dangling g R _ _ Pt) as (c1 & G1 & _). congruence.
  Qed.

  Theorem C05_read_never_fails g : Reach g ->
    forall t ts, tget (g_thr g) t = Some ts -> ~ In CMissing (t_res ts).
  Proof using cmp_refl cmp_eq cmp_antisym cmp_trans thr0_nodup cas0_sorted cas0_named NoCollideC.
    intros [sched ->].
    assert (A : forall s g0, Reach g0 ->
                (forall t ts, tget (g_thr g0) t = Some ts -> ~ In CMissing (t_res ts)) ->
                forall t ts, tget (g_thr (crun H cmp nops bad ckbad g0 s)) t = Some ts ->
                             ~ In CMissing (t_res ts)).
    { induction s as [|u s IH]; intros g0 R0 P0; cbn [crun]; [exact P0|].
      destruct (step g0 u) as [g1|] eqn:St; [|apply IH; assumption].
      apply IH; [eapply reachable_step; eassumption|].
      intros t ts G Hin. destruct (Nat.eq_dec t u) as [->|N].
      - destruct (tget (g_thr g0) u) as [ts0|] eqn:Ht0.
        + apply (P0 _ _ Ht0). eapply cstep_no_missing; eassumption.
        + unfold cstep in St. rewrite Ht0 in St. discriminate.
      - rewrite (cstep_frame_other _ _ _ _ St N) in G. apply (P0 _ _ G Hin). }
    apply A; [apply reachable_init|].
    intros t ts G. apply tget_init in G. destruct G as (cs & _ & ->). intros [].
  Qed.

  (* without faults no call ever returns the I/O error: the pc PDropI is unreachable
     (pc_ok: it is only entered when the rename target is obstructed), no unlink or open
     fails, and the results carried by the write path are never CErr (res_inv) *)
  Lemma cstep_no_err g t ts g' ts' : (forall h, bad h = false) -> ckbad = false -> Reach g ->
    tget (g_thr g) t = Some ts -> step g t = Some g' -> tget (g_thr g') t = Some ts' ->
    In CErr (t_res ts') -> In CErr (t_res ts).
  Proof using cmp_refl cmp_eq cmp_antisym cmp_trans thr0_nodup cas0_sorted cas0_named NoCollideC.
    intros NB NC R Ht St Ht' Hin. pose proof (rinv g R) as I.
    destruct (ci_pc _ _ _ _ _ _ I _ _ Ht) as [Pt _].
    pose proof (res_inv g R _ _ Ht) as Pr.
    revert St. unfold cstep. rewrite Ht. revert Pt Pr.
    destruct (t_pc ts) eqn:Hpc; cbn [pc_ok pc_res_ok]; intros Pt Pr; head_destruct;
      try discriminate;
      intros E; injection E as <-; unfold finish, set_pc in Ht'; cbn [g_thr] in Ht';
      rewrite tget_tset_same in Ht'; injection Ht' as <-; cbn [t_res] in Hin;
      try exact Hin;
      (apply in_app_or in Hin; destruct Hin as [Hin|[Hin|[]]]; [exact Hin|exfalso]);
      try discriminate;
      try (destruct md; discriminate);
      try (match goal with Hp : pre_open _ _ = Some _ |- _ =>
             rewrite Hin in Hp; destruct (pre_open_cases _ _ _ Hp) as [X|[X|X]]; discriminate X end);
      try (rewrite Hin in Pr; exact Pr);
      try (rewrite NC in Hin; rewrite Hin in Pr; exact Pr);
      try (rewrite NB in Pt; discriminate Pt);
      try (match goal with Hb : bad _ = true |- _ => rewrite NB in Hb; discriminate Hb end).
  Qed.

  Theorem no_faults_no_errors g : (forall h, bad h = false) -> ckbad = false -> Reach g ->
    forall t ts, tget (g_thr g) t = Some ts -> ~ In CErr (t_res ts).
  Proof using cmp_refl cmp_eq cmp_antisym cmp_trans thr0_nodup cas0_sorted cas0_named NoCollideC.
    intros NB NC [sched ->].
    assert (A : forall s g0, Reach g0 ->
                (forall t ts, tget (g_thr g0) t = Some ts -> ~ In CErr (t_res ts)) ->
                forall t ts, tget (g_thr (crun H cmp nops bad ckbad g0 s)) t = Some ts ->
                             ~ In CErr (t_res ts)).
    { induction s as [|u s IH]; intros g0 R0 P0; cbn [crun]; [exact P0|].
      destruct (step g0 u) as [g1|] eqn:St; [|apply IH; assumption].
      apply IH; [eapply reachable_step; eassumption|].
      intros t ts G Hin. destruct (Nat.eq_dec t u) as [->|N].
      - destruct (tget (g_thr g0) u) as [ts0|] eqn:Ht0.
        + apply (P0 _ _ Ht0). eapply cstep_no_err; eassumption.
        + unfold cstep in St. rewrite Ht0 in St. discriminate.
      - rewrite (cstep_frame_other _ _ _ _ St N) in G. apply (P0 _ _ G Hin). }
    apply A; [apply reachable_init|].
    intros t ts G. apply tget_init in G. destruct G as (cs & _ & ->). intros [].
  Qed.

  (* ================================================================================== *)
  (* C07 at quiescence: with no initial orphans, once every thread has finished the blob
     directory holds exactly the referenced hashes (KDelOrphans calls are allowed) *)
  Lemma all_finished_idle g t ts :
    all_finished g = true -> tget (g_thr g) t = Some ts -> t_pc ts = Idle.
  Proof using.
    intros AF G. apply tget_In in G. unfold all_finished in AF.
    rewrite forallb_forall in AF. specialize (AF _ G). cbn [snd] in AF.
    unfold finished_t in AF. destruct (t_pc ts); try discriminate. reflexivity.
  Qed.

  (* the half that needs no side condition: every referenced hash has its blob (C04) *)
  Lemma C07_nothing_less g : Reach g ->
    forall h, (exists k it, In (k, it) (km (g_idx g)) /\ ihash it = h) ->
              sm_get lex_cmp (g_cas g) h <> None.
  Proof using cmp_refl cmp_eq cmp_antisym cmp_trans thr0_nodup cas0_sorted cas0_named NoCollideC.
    intros R h (k & it & Ii & <-). pose proof (rinv g R) as I.
    destruct (ci_nodangling _ _ _ _ _ _ I _ _ Ii) as (c & Gc & _). congruence.
  Qed.

  (* a blob that nobody references can only survive quiescence when a deletion (or a rename)
     has failed: then some path is obstructed AND some call has returned an error.  So the
     directory is exact when no path is obstructed, and also in every run in which no call
     returned an error (ckbad plays no role: a failed checkpoint leaves no blob behind) *)
  Theorem C07_quiescent_exact g : cas0 = [] -> Reach g -> all_finished g = true ->
    (forall h, bad h = false) \/
    (forall t ts, tget (g_thr g) t = Some ts -> ~ In CErr (t_res ts)) ->
    forall h, sm_get lex_cmp (g_cas g) h <> None <->
              exists k it, In (k, it) (km (g_idx g)) /\ ihash it = h.
  Proof using cmp_refl cmp_eq cmp_antisym cmp_trans thr0_nodup cas0_sorted cas0_named NoCollideC.
    intros E0 R AF NF h. pose proof (rinv g R) as I. split.
    - intros G. destruct (sm_get lex_cmp (g_cas g) h) as [c|] eqn:Gc; [|contradiction].
      destruct (ci_accounted _ _ _ _ _ _ I _ _ Gc)
        as [A|[A|[(u & tsu & Gu & P)|[A|((x & Bx) & u & tsu & Gu & P)]]]].
      + apply count_pos_ex, A.
      + exfalso. apply A. apply (rcrep_none _ _ _ (ci_intents _ _ _ _ _ _ I)).
        apply intents_zero. intros u s Iu. unfold all_finished in AF.
        rewrite forallb_forall in AF. specialize (AF _ Iu). cbn [snd] in AF.
        unfold finished_t in AF. destruct (t_pc s); try discriminate. reflexivity.
      + rewrite (all_finished_idle _ _ _ AF Gu) in P. destruct P.
      + rewrite E0 in A. destruct A.
      + exfalso. destruct NF as [NF|NF]; [rewrite NF in Bx; discriminate|exact (NF _ _ Gu P)].
    - apply C07_nothing_less, R.
  Qed.

  Corollary C07_quiescent_exact_nofaults g : cas0 = [] -> Reach g -> all_finished g = true ->
    (forall h, bad h = false) ->
    forall h, sm_get lex_cmp (g_cas g) h <> None <->
              exists k it, In (k, it) (km (g_idx g)) /\ ihash it = h.
  Proof using cmp_refl cmp_eq cmp_antisym cmp_trans thr0_nodup cas0_sorted cas0_named NoCollideC.
    intros E0 R AF NF. apply C07_quiescent_exact; auto.
  Qed.

End ConcProofs.

Print Assumptions C04_no_dangling.
Print Assumptions C04_commit_window_protected.
Print Assumptions C04_never_deletes_protected.
Print Assumptions C04_apply_never_panics.
Print Assumptions C15_lock_order.
Print Assumptions C15_readers_shared_only.
Print Assumptions C15_iter_step.
Print Assumptions holds_sound.
Print Assumptions acquires_sound.
Print Assumptions acquires_complete.
Print Assumptions C15_deadlock_free.
Print Assumptions C05_read_returns_indexed_slice.
Print Assumptions C05_read_returns_indexed_content.
Print Assumptions C05_lookup_step.
Print Assumptions C05_retry_sees_current.
Print Assumptions C05_read_never_fails.
Print Assumptions no_faults_no_errors.
Print Assumptions S_excludes_readers.
Print Assumptions readers_sound.
Print Assumptions C07_nothing_less.
Print Assumptions C07_quiescent_exact.
Print Assumptions C07_quiescent_exact_nofaults.
