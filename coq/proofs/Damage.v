(* Damage.v -- C10 at the store level: a damaged log is never silently accepted.

   Setting: a store at rest, [Inv m s sg]; c = lpv (idx m) is the snapshot version and the
   records above c are (c+1, enc_op o_1) .. (c+k, enc_op o_k) for ops = [o_1 .. o_k]
   (DiskW.dw_filter).  A damage site is a record (v, p) of a segment file PWal i:
   rf i = recs1 ++ [(v, p)] ++ recs2, i.e. the file is
       render H recs1 ++ enc_record H v p ++ render H recs2 ++ tailb (sf i).
   Three damages: truncation inside the record (and loss of all later segments), a changed
   payload, a changed checksum.  [n_before] counts the records above c strictly before the
   damaged one; the undamaged prefix of the logged operations is [firstn (n_before ..) ops].

   The invariant DiskOk records the abstract map only for the whole log, so "the abstract map
   after the prefix" is expressed by its key-map image
       fold_left kstep (firstn j ops) km_c
   (corollary [C10_truncation_header_abstract]: it is [km_of sg_j] for every abstract map sg_j
   with that image).

   Organisation:
     G1  list facts, enc_from
     G2  uncheckpointed_in_last_segments
     G3  the instrumented replay (rr_log / rs_log): replay that also records the operations
         it applies; faithful to replay_records / replay_segments
     G4  the damaged filesystem: relation [Damaged] and the concrete [damage_fs]
     G5  replay / index_load / open on a damaged filesystem ([rs_log_damaged],
         [index_load_damaged], [open_reduce], [open_store_of]); [index_load_applied]: the
         instrumentation is faithful for every filesystem
     G6  the C10 theorems: open_damaged (general), C10_truncation_header,
         C10_truncation_payload, C10_bad_payload, C10_bad_checksum, C10_damage, C10_no_panic,
         C10_applied_prefix, C10_never_alters, site_exists
     G7  computed examples (toyH; sumH for the payload change, since toyH collides on equal
         lengths) and an instance of the theorems *)
From Cas Require Import History.
From CasProofs Require Import BaseProofs CodecBase CodecProofs SMapProofs IndexProofs
  StoreFS StoreInv StoreWrite StoreRead StoreHist DiskInv Recover RestartHist AtRest.
From Coq Require Import ZifyBool ZifyNat ZifyN.
Open Scope N_scope.

Arguments N.add : simpl never.
Arguments N.sub : simpl never.
Arguments N.mul : simpl never.
Arguments N.div : simpl never.
Arguments N.modulo : simpl never.
Arguments N.eqb : simpl never.
Arguments N.ltb : simpl never.
Arguments N.leb : simpl never.
Arguments N.pow : simpl never.
Arguments N.max : simpl never.

(* ------------------------------------------------------------------ *)
(* G1. generalities                                                    *)
(* ------------------------------------------------------------------ *)
Lemma enc_from_split : forall a b v ops, a ++ b = enc_from v ops ->
  exists o1 o2, ops = o1 ++ o2 /\ a = enc_from v o1 /\
                b = enc_from (v + N.of_nat (length o1)) o2.
Proof.
  induction a as [|x a IH]; intros b v ops E.
  - exists [], ops. cbn [app length enc_from] in *.
    replace (v + N.of_nat 0) with v by lia. auto.
  - destruct ops as [|o ops]; [discriminate|]. cbn [app enc_from] in E.
    inversion E as [[Ex Ea]]. destruct (IH b (v + 1) ops Ea) as (o1 & o2 & -> & -> & ->).
    exists (o :: o1), o2. cbn [app enc_from length]. split; [reflexivity|]. split; [reflexivity|].
    f_equal. lia.
Qed.

Lemma firstn_length_app : forall {A} (a b : list A), firstn (length a) (a ++ b) = a.
Proof. induction a as [|x a IH]; intros b; cbn [length firstn app]; [reflexivity|]. now rewrite IH. Qed.

Lemma filter_all : forall {A} (f : A -> bool) l, (forall x, In x l -> f x = true) -> filter f l = l.
Proof.
  intros A f. induction l as [|a l IH]; intros E; cbn [filter]; [reflexivity|].
  rewrite (E a (or_introl eq_refl)). f_equal. apply IH. intros x Ix. apply E. now right.
Qed.

(* an element of an ascending list splits it into the smaller and the larger elements *)
Lemma asc_split : forall ids i, asc ids -> In i ids ->
  exists hi, ids = filter (fun x => x <? i) ids ++ i :: hi /\ (forall x, In x hi -> i < x) /\
             asc (filter (fun x => x <? i) ids) /\ asc hi /\
             (forall x, In x (filter (fun x => x <? i) ids) -> x < i).
Proof.
  intros ids i A Ii. destruct (in_split _ _ Ii) as (l1 & l2 & E). subst ids.
  apply asc_app in A. destruct A as (A1 & A2 & A3). destruct A2 as [Hi A2].
  assert (L1 : forall x, In x l1 -> x < i) by (intros x Ix; apply A3; [exact Ix|now left]).
  assert (F : filter (fun x => x <? i) (l1 ++ i :: l2) = l1).
  { rewrite filter_app. cbn [filter]. replace (i <? i) with false by lia.
    rewrite (filter_none _ l2) by (intros x Ix; specialize (Hi x Ix); lia).
    rewrite app_nil_r. apply filter_all. intros x Ix. specialize (L1 x Ix). lia. }
  exists l2. rewrite F. repeat split; auto.
Qed.

Lemma filter_flat_map_skip : forall {A B} (P : B -> bool) (g : A -> bool) (f : A -> list B) l,
  (forall a, In a l -> g a = false -> filter P (f a) = []) ->
  filter P (flat_map f (filter g l)) = filter P (flat_map f l).
Proof.
  intros A B P g f. induction l as [|a l IH]; intros E; [reflexivity|].
  cbn [filter flat_map]. rewrite filter_app, <- IH by (intros b Ib; apply E; now right).
  destruct (g a) eqn:G.
  - cbn [flat_map]. now rewrite filter_app.
  - now rewrite (E a (or_introl eq_refl) G).
Qed.

Section Damage.
  Variable H : bytes -> bytes.
  Hypothesis H_len : forall b, length (H b) = 32%nat.
  Hypothesis H_byte : forall b, Forall (fun x => x < 256) (H b).
  Variable cfg : config.
  Hypothesis n_pos : 0 < c_n cfg.
  Let cmp := key_cmp (c_kt cfg).

  Local Notation km_of := (km_of H).
  Local Notation NoCollide := (NoCollide H).
  Local Notation seg_of := (seg_of cfg).
  Local Notation DiskW := (DiskW H cfg).
  Local Notation DiskOk := (DiskOk H cfg).
  Local Notation Inv := (Inv H cfg).
  Local Notation kstep := (kstep cfg).
  Local Notation ops_ok := (ops_ok cfg).
  Local Notation op_good := (op_good cfg).
  Local Notation render := (render H).
  Local Notation loaded_of := (loaded_of cfg).
  Local Notation load_tail := (load_tail H cfg).

  (* ---------------------------------------------------------------- *)
  (* G2. where the records above the snapshot version live             *)
  (* ---------------------------------------------------------------- *)
  (* After a clean history the records above c are in the segments with id >= seg_of (c+1);
     every segment below that bound is either pruned (not in ids) or holds only versions <= c;
     the records above c found in the segments from seg_of (c+1) on are exactly the logged
     operations; and every version in (c, nv) is in the segment it belongs to. *)
  Theorem uncheckpointed_in_last_segments : forall c nv sb pre dv sg ids rf sf km_c ops,
    DiskW c nv sb pre dv sg ids rf sf km_c ops ->
    let b := seg_of (c + 1) in
    (forall i r, In i ids -> In r (rf i) -> c < fst r -> b <= i) /\
    (forall i, In i ids -> i < b -> Forall (fun r => fst r <= c) (rf i)) /\
    filter (fun r => c <? fst r) (flat_map rf (filter (fun i => b <=? i) ids))
      = enc_from (c + 1) ops /\
    (forall v, c < v -> v < nv ->
       In (seg_of v) ids /\ b <= seg_of v /\ exists p, In (v, p) (rf (seg_of v))).
  Proof.
    intros c nv sb pre dv sg ids rf sf km_c ops Dw b. pose proof Dw as [].
    assert (A1 : forall i r, In i ids -> In r (rf i) -> c < fst r -> b <= i).
    { intros i r Ii Ir Lc. destruct (dw_seg i Ii) as (_ & S2 & _).
      rewrite Forall_forall in S2. rewrite <- (S2 r Ir). apply (seg_of_mono cfg n_pos). lia. }
    split; [exact A1|]. split; [|split].
    - intros i Ii Lb. apply Forall_forall. intros r Ir.
      destruct (N.le_gt_cases (fst r) c) as [L|L]; [exact L|].
      specialize (A1 i r Ii Ir L). lia.
    - rewrite filter_flat_map_skip; [exact dw_filter|].
      intros i Ii G. apply filter_none. intros r Ir.
      destruct (c <? fst r) eqn:E; [|reflexivity].
      assert (b <= i) by (apply (A1 i r Ii Ir); lia). lia.
    - intros v L1 L2.
      destruct (enc_from_in cfg n_pos ops (c + 1) v) as (p & Ip); [lia|lia|].
      rewrite <- dw_filter in Ip. apply filter_In in Ip. destruct Ip as [Ip _].
      apply in_flat_map in Ip. destruct Ip as (i & Ii & Ir).
      destruct (dw_seg i Ii) as (_ & S2 & _). rewrite Forall_forall in S2.
      pose proof (S2 _ Ir) as Es. cbn [fst] in Es. rewrite Es.
      split; [exact Ii|]. split; [|exists p; exact Ir].
      apply (A1 i (v, p) Ii Ir). cbn [fst]. exact L1.
  Qed.

  (* the same for a store at rest, in terms of its files *)
  Corollary uncheckpointed_in_last_segments_store : forall m s sg, Inv m s sg ->
    let c := lpv (idx m) in
    let b := seg_of (c + 1) in
    exists rf ops,
      (forall i f, fget s (PWal i) = Some f -> parse_segment H (fdata f) = Ok (rf i)) /\
      (forall i f, fget s (PWal i) = Some f -> i < b -> Forall (fun r => fst r <= c) (rf i)) /\
      filter (fun r => c <? fst r)
             (flat_map rf (filter (fun i => b <=? i) (sort_ids (wal_ids s))))
        = enc_from (c + 1) ops /\
      nextv (mwal m) = c + 1 + N.of_nat (length ops).
  Proof.
    intros m s sg (_ & (ids & rf & sf & km_c & ops & Dw) & Wf) c b.
    pose proof (disk_ids _ _ _ _ _ _ _ _ _ _ _ _ _ Wf Dw) as Eids.
    destruct (uncheckpointed_in_last_segments _ _ _ _ _ _ _ _ _ _ _ Dw) as (_ & U2 & U3 & _).
    pose proof Dw as [].
    assert (Iid : forall i f, fget s (PWal i) = Some f -> In i ids).
    { intros i f G. destruct (in_dec N.eq_dec i ids) as [Ii|Ni]; [exact Ii|].
      apply dw_out, fdat_none in Ni. congruence. }
    exists rf, ops. rewrite Eids. split; [|split; [|split; [exact U3|exact dw_nv]]].
    - intros i f G. pose proof (dw_in i (Iid i f G)) as D. apply fdat_some in D.
      destruct D as (f' & G' & Df). rewrite G in G'. inversion G'; subst f'. rewrite Df.
      apply (parse_seg H H_len). destruct (dw_seg i (Iid i f G)) as (S1 & _). exact S1.
    - intros i f G Lb. apply U2; [exact (Iid i f G)|exact Lb].
  Qed.

  (* ---------------------------------------------------------------- *)
  (* G3. the instrumented replay                                       *)
  (* ---------------------------------------------------------------- *)
  (* replay_records / replay_segments of theories/Store.v with one more accumulator: the list
     of the operations applied so far (in order).  [rr_log_snd] / [rs_log_snd] check that the
     result component is the original function. *)
  Fixpoint rr_log (c : N) (recs : list (N * bytes)) (st : istate) (highest cnt : N)
           (acc : list rawop) : list rawop * res serr (istate * N * N) :=
    match recs with
    | [] => (acc, Ok (st, highest, cnt))
    | (ver, payload) :: r =>
      let highest' := N.max highest ver in
      if ver <=? c then rr_log c r st highest' cnt acc
      else
        match dec_op payload with
        | Err e => (acc, Err (EReplay (RDeserialize e)))
        | Ok raw =>
          match from_raw (c_kt cfg) raw with
          | Err e => (acc, Err (EReplay (RConvert e)))
          | Ok o =>
            match apply_op cmp st o with
            | Err _ => (acc, Err EPanic)
            | Ok (st', _) => rr_log c r st' highest' (cnt + 1) (acc ++ [o])
            end
          end
        end
    end.

  Fixpoint rs_log (c : N) (s : fs) (ids : list N) (st : istate) (highest cnt : N)
           (acc : list rawop) : list rawop * res serr (istate * N * N) :=
    match ids with
    | [] => (acc, Ok (st, highest, cnt))
    | i :: r =>
      match fget s (PWal i) with
      | None => (acc, Err EWalIo)
      | Some f =>
        let '(recs, e) := read_segment_lazy H (S (length (fdata f))) (fdata f) in
        match rr_log c recs st highest cnt acc with
        | (acc', Err x) => (acc', Err x)
        | (acc', Ok (st', hi', cnt')) =>
          match e with
          | Some x => (acc', Err (EReplay x))
          | None => rs_log c s r st' hi' cnt' acc'
          end
        end
      end
    end.

  (* applying a list of operations to an index state *)
  Fixpoint apply_all (st : istate) (l : list rawop) : res ierr istate :=
    match l with
    | [] => Ok st
    | o :: r => match apply_op cmp st o with
                | Ok (st', _) => apply_all st' r
                | Err e => Err e
                end
    end.

  Lemma apply_all_app : forall a b st,
    apply_all st (a ++ b) = match apply_all st a with Ok st' => apply_all st' b | Err e => Err e end.
  Proof.
    induction a as [|o a IH]; intros b st; cbn [app apply_all]; [reflexivity|].
    destruct (apply_op cmp st o) as [[st' un]|e]; [apply IH|reflexivity].
  Qed.

  Lemma rr_log_snd : forall c recs st hi cnt acc,
    snd (rr_log c recs st hi cnt acc) = replay_records cfg c recs st hi cnt.
  Proof.
    intros c. induction recs as [|[ver p] recs IH]; intros st hi cnt acc; [reflexivity|].
    rewrite replay_records_cons. cbn [rr_log]. destruct (ver <=? c); [apply IH|].
    destruct (dec_op p) as [raw|e]; [|reflexivity].
    destruct (from_raw (c_kt cfg) raw) as [o|e]; [|reflexivity].
    fold cmp. destruct (apply_op cmp st o) as [[st' un]|e]; [apply IH|reflexivity].
  Qed.

  Lemma rs_log_snd : forall c s ids st hi cnt acc,
    snd (rs_log c s ids st hi cnt acc) = replay_segments H cfg c s ids st hi cnt.
  Proof.
    intros c s. induction ids as [|i ids IH]; intros st hi cnt acc; [reflexivity|].
    cbn [rs_log replay_segments]. destruct (fget s (PWal i)) as [f|]; [|reflexivity].
    destruct (read_segment_lazy H (S (length (fdata f))) (fdata f)) as [recs e].
    rewrite <- (rr_log_snd c recs st hi cnt acc).
    destruct (rr_log c recs st hi cnt acc) as [acc' [[[st' hi'] cnt']|x]]; cbn [snd]; [|reflexivity].
    destruct e as [x|]; [reflexivity|apply IH].
  Qed.

  (* the recorded operations are exactly those that were applied: the log grows by a list l,
     applying l to the start state succeeds, and on success its result is the final state
     and the counter grew by the length of l *)
  Lemma rr_log_faithful : forall c recs st hi cnt acc acc' r,
    rr_log c recs st hi cnt acc = (acc', r) ->
    exists l st1, acc' = acc ++ l /\ apply_all st l = Ok st1 /\
      match r with
      | Ok (st', _, cnt') => st' = st1 /\ cnt' = cnt + N.of_nat (length l)
      | Err _ => True
      end.
  Proof.
    intros c. induction recs as [|[ver p] recs IH]; intros st hi cnt acc acc' r E.
    - cbn [rr_log] in E. inversion E; subst. exists [], st. rewrite app_nil_r.
      cbn [length apply_all]. repeat split. lia.
    - cbn [rr_log] in E. destruct (ver <=? c); [now apply (IH _ _ _ _ _ _ E)|].
      assert (Stop : forall x, (acc, @Err serr (istate * N * N) x) = (acc', r) ->
                exists l st1, acc' = acc ++ l /\ apply_all st l = Ok st1 /\
                  match r with Ok (st', _, cnt') => st' = st1 /\ cnt' = cnt + N.of_nat (length l)
                             | Err _ => True end).
      { intros x Q. inversion Q; subst. exists [], st. rewrite app_nil_r. now repeat split. }
      destruct (dec_op p) as [raw|e]; [|now apply (Stop _ E)].
      destruct (from_raw (c_kt cfg) raw) as [o|e]; [|now apply (Stop _ E)].
      destruct (apply_op cmp st o) as [[st' un]|e] eqn:Ea; [|now apply (Stop _ E)].
      destruct (IH _ _ _ _ _ _ E) as (l & st1 & -> & Al & R).
      exists (o :: l), st1. rewrite <- app_assoc. cbn [app apply_all]. rewrite Ea.
      split; [reflexivity|]. split; [exact Al|].
      destruct r as [[[s2 h2] c2]|x]; [|exact I]. destruct R as [-> ->].
      split; [reflexivity|]. cbn [length]. lia.
  Qed.

  Lemma rs_log_faithful : forall c s ids st hi cnt acc acc' r,
    rs_log c s ids st hi cnt acc = (acc', r) ->
    exists l st1, acc' = acc ++ l /\ apply_all st l = Ok st1 /\
      match r with
      | Ok (st', _, cnt') => st' = st1 /\ cnt' = cnt + N.of_nat (length l)
      | Err _ => True
      end.
  Proof.
    intros c s. induction ids as [|i ids IH]; intros st hi cnt acc acc' r E.
    - cbn [rs_log] in E. inversion E; subst. exists [], st. rewrite app_nil_r.
      cbn [length apply_all]. repeat split. lia.
    - cbn [rs_log] in E.
      assert (Stop : forall st1 l x, apply_all st l = Ok st1 ->
                (acc ++ l, @Err serr (istate * N * N) x) = (acc', r) ->
                exists l st1, acc' = acc ++ l /\ apply_all st l = Ok st1 /\
                  match r with Ok (st', _, cnt') => st' = st1 /\ cnt' = cnt + N.of_nat (length l)
                             | Err _ => True end).
      { intros st1 l x Al Q. inversion Q; subst. exists l, st1. now repeat split. }
      destruct (fget s (PWal i)) as [f|].
      2:{ apply (Stop st [] EWalIo); [reflexivity|now rewrite app_nil_r]. }
      destruct (read_segment_lazy H (S (length (fdata f))) (fdata f)) as [recs e].
      destruct (rr_log c recs st hi cnt acc) as [acc1 r1] eqn:E1.
      destruct (rr_log_faithful _ _ _ _ _ _ _ _ E1) as (l1 & st1 & -> & A1 & R1).
      destruct r1 as [[[s2 h2] c2]|x]; [|now apply (Stop st1 l1 x)].
      destruct R1 as [-> ->]. destruct e as [x|]; [now apply (Stop st1 l1 (EReplay x))|].
      destruct (IH _ _ _ _ _ _ E) as (l2 & st2 & -> & A2 & R2).
      exists (l1 ++ l2), st2. rewrite app_assoc. split; [reflexivity|].
      rewrite apply_all_app, A1. split; [exact A2|].
      destruct r as [[[s3 h3] c3]|x]; [|exact I]. destruct R2 as [-> ->].
      split; [reflexivity|]. rewrite app_length. lia.
  Qed.

  Lemma rr_log_app : forall c a b st hi cnt acc,
    rr_log c (a ++ b) st hi cnt acc =
    match rr_log c a st hi cnt acc with
    | (acc', Ok (st', hi', cnt')) => rr_log c b st' hi' cnt' acc'
    | (acc', Err x) => (acc', Err x)
    end.
  Proof.
    intros c. induction a as [|[ver p] a IH]; intros b st hi cnt acc; [reflexivity|].
    cbn [app rr_log]. destruct (ver <=? c); [apply IH|].
    destruct (dec_op p) as [raw|e]; [|reflexivity].
    destruct (from_raw (c_kt cfg) raw) as [o|e]; [|reflexivity].
    destruct (apply_op cmp st o) as [[st' un]|e]; [apply IH|reflexivity].
  Qed.

  Lemma rs_log_app : forall c s a b st hi cnt acc,
    rs_log c s (a ++ b) st hi cnt acc =
    match rs_log c s a st hi cnt acc with
    | (acc', Ok (st', hi', cnt')) => rs_log c s b st' hi' cnt' acc'
    | (acc', Err x) => (acc', Err x)
    end.
  Proof.
    intros c s. induction a as [|i a IH]; intros b st hi cnt acc; [reflexivity|].
    cbn [app rs_log]. destruct (fget s (PWal i)) as [f|]; [|reflexivity].
    destruct (read_segment_lazy H (S (length (fdata f))) (fdata f)) as [recs e].
    destruct (rr_log c recs st hi cnt acc) as [acc1 [[[s2 h2] c2]|x]]; [|reflexivity].
    destruct e as [x|]; [reflexivity|apply IH].
  Qed.

  Lemma rs_log_flat : forall c s rf ids st hi cnt acc,
    (forall i, In i ids -> exists f, fget s (PWal i) = Some f /\
       read_segment_lazy H (S (length (fdata f))) (fdata f) = (rf i, None)) ->
    rs_log c s ids st hi cnt acc = rr_log c (flat_map rf ids) st hi cnt acc.
  Proof.
    intros c s rf. induction ids as [|i ids IH]; intros st hi cnt acc Hf; [reflexivity|].
    cbn [rs_log flat_map]. rewrite rr_log_app.
    destruct (Hf i (or_introl eq_refl)) as (f & G & R). rewrite G, R.
    destruct (rr_log c (rf i) st hi cnt acc) as [acc1 [[[s2 h2] c2]|x]]; [|reflexivity].
    apply IH. intros j Ij. apply Hf. now right.
  Qed.

  (* replay of a well-formed list of records: everything above c is applied, nothing else *)
  Lemma rr_log_fst : forall c recs v0 ops st hi cnt acc acc' r,
    filter (fun r => c <? fst r) recs = enc_from v0 ops ->
    Forall op_good ops -> IdxInv cmp st -> ops_ok (km st) ops ->
    rr_log c recs st hi cnt acc = (acc', r) -> acc' = acc ++ ops.
  Proof.
    intros c. induction recs as [|[ver p] recs IH]; intros v0 ops st hi cnt acc acc' r Fl Og Iv Ok0 El.
    - cbn [filter] in Fl. destruct ops; [|discriminate]. cbn [rr_log] in El.
      inversion El. now rewrite app_nil_r.
    - cbn [rr_log] in El. cbn [filter fst] in Fl. destruct (ver <=? c) eqn:Le.
      + replace (c <? ver) with false in Fl by lia. eapply (IH v0 ops st); eassumption.
      + replace (c <? ver) with true in Fl by lia.
        destruct ops as [|o ops]; [discriminate|]. cbn [enc_from] in Fl.
        inversion Fl as [[Ev Ep Fl']]. clear Fl. subst ver p.
        inversion Og as [|? ? [Of Kv] Og']; subst. destruct Ok0 as [Kr Ok1].
        rewrite dec_enc_op_nil in El by exact Of. rewrite from_raw_valid in El by exact Kv.
        destruct (C12_apply cmp (key_cmp_refl _) (key_cmp_eq _) (key_cmp_antisym _)
                    (key_cmp_trans _) st o Iv) as (st1 & un & Eap & Iv1 & K1 & _).
        { now apply kresp_respects. }
        rewrite Eap in El. rewrite (kstep_expected cfg) in K1.
        assert (Ok2 : ops_ok (km st1) ops) by (now rewrite K1).
        rewrite (IH (v0 + 1) ops st1 _ _ _ acc' r Fl' Og' Iv1 Ok2 El).
        now rewrite <- app_assoc.
  Qed.

  Lemma rr_log_ok : forall c recs v0 ops st hi cnt acc,
    filter (fun r => c <? fst r) recs = enc_from v0 ops ->
    Forall op_good ops -> IdxInv cmp st -> ops_ok (km st) ops ->
    exists st', rr_log c recs st hi cnt acc
                = (acc ++ ops,
                   Ok (st', fold_left N.max (map fst recs) hi, cnt + N.of_nat (length ops))) /\
      IdxInv cmp st' /\ km st' = fold_left kstep ops (km st) /\ lpv st' = lpv st /\
      (ops = [] -> st' = st).
  Proof.
    intros c recs v0 ops st hi cnt acc Fl Og Iv Ok0.
    destruct (replay_records_ok H H_len H_byte cfg n_pos c recs v0 ops st hi cnt Fl Og Iv Ok0)
      as (st' & E & Iv' & K' & L' & Z').
    exists st'. split; [|split; [exact Iv'|split; [exact K'|split; [exact L'|exact Z']]]].
    destruct (rr_log c recs st hi cnt acc) as [acc' r] eqn:El.
    pose proof (rr_log_snd c recs st hi cnt acc) as Sn. rewrite El, E in Sn. cbn [snd] in Sn.
    subst r. rewrite (rr_log_fst _ _ _ _ _ _ _ _ _ _ Fl Og Iv Ok0 El). reflexivity.
  Qed.

  (* ---------------------------------------------------------------- *)
  (* G4. damaged filesystems                                           *)
  (* ---------------------------------------------------------------- *)
  (* [sd] is [s] with the content of segment file i replaced by [data'] and, when [cut], all
     segment files with a larger id removed; snapshot, settings and the directories the open
     path needs are as in [s]; everything else is arbitrary *)
  Record Damaged (s sd : fs) (i : N) (data' : bytes) (cut : bool) : Prop := mkDamaged {
    dm_wf : FsWf sd;
    dm_staging : has_dir sd [s_staging] = true;
    dm_cas : has_dir sd [s_cas] = true;
    dm_index : fdat sd PIndex = fdat s PIndex;
    dm_settings : fdat sd PSettings = fdat s PSettings;
    dm_below : forall j, j < i -> fdat sd (PWal j) = fdat s (PWal j);
    dm_at : fdat sd (PWal i) = Some data';
    dm_above : forall j, i < j -> fdat sd (PWal j) = if cut then None else fdat s (PWal j)
  }.

  (* the concrete damage *)
  Definition keepp (i : N) (q : path) : bool := match q with PWal j => j <=? i | _ => true end.
  Definition cut_above (i : N) (s : fs) : fs :=
    with_files s (filter (fun pf => keepp i (fst pf)) (files s)).
  Definition set_data (s : fs) (p : path) (d : bytes) : fs := upd s p (mkFile d (length d)).
  Definition damage_fs (s : fs) (i : N) (d' : bytes) (cut : bool) : fs :=
    set_data (if cut then cut_above i s else s) (PWal i) d'.

  Lemma lookup_filter : forall (g : path -> bool) l q,
    lookup (filter (fun pf => g (fst pf)) l) q = if g q then lookup l q else None.
  Proof.
    intros g. induction l as [|[q' f] l IH]; intros q; cbn [filter lookup fst].
    - now destruct (g q).
    - destruct (g q') eqn:G; cbn [lookup]; destruct (path_eqb_spec q q') as [->|Ne].
      + now rewrite G.
      + apply IH.
      + rewrite IH, G. reflexivity.
      + apply IH.
  Qed.

  Lemma paths_filter : forall (g : path -> bool) l,
    paths (filter (fun pf => g (fst pf)) l) = filter g (paths l).
  Proof.
    intros g. induction l as [|[q f] l IH]; cbn [filter paths map fst]; [reflexivity|].
    destruct (g q); cbn [map fst]; fold (paths l); fold (paths (filter (fun pf => g (fst pf)) l));
      now rewrite IH.
  Qed.

  Lemma cut_above_wf : forall i s, FsWf s -> FsWf (cut_above i s).
  Proof.
    intros i s W. unfold FsWf, cut_above. cbn [files with_files].
    rewrite paths_filter. now apply NoDup_filter.
  Qed.

  Lemma fget_cut_above : forall i s q,
    fget (cut_above i s) q = if keepp i q then fget s q else None.
  Proof. intros i s q. unfold fget, cut_above. cbn [files with_files]. apply lookup_filter. Qed.

  Lemma damage_fs_Damaged : forall s i d' cut, FsWf s ->
    has_dir s [s_staging] = true -> has_dir s [s_cas] = true ->
    Damaged s (damage_fs s i d' cut) i d' cut.
  Proof.
    intros s i d' cut W Hs Hc. unfold damage_fs, set_data.
    set (s1 := if cut then cut_above i s else s).
    assert (W1 : FsWf s1) by (unfold s1; destruct cut; [now apply cut_above_wf|exact W]).
    assert (D1 : dirs s1 = dirs s) by (unfold s1; destruct cut; reflexivity).
    assert (G1 : forall q, fdat s1 q = if cut then (if keepp i q then fdat s q else None) else fdat s q).
    { intros q. unfold s1, fdat. destruct cut; [|reflexivity]. rewrite fget_cut_above.
      now destruct (keepp i q). }
    constructor.
    - now apply upd_wf.
    - unfold has_dir, upd. cbn [dirs with_files]. rewrite D1. exact Hs.
    - unfold has_dir, upd. cbn [dirs with_files]. rewrite D1. exact Hc.
    - rewrite fdat_upd, vset_other by discriminate. rewrite G1. now destruct cut.
    - rewrite fdat_upd, vset_other by discriminate. rewrite G1. now destruct cut.
    - intros j Lj. rewrite fdat_upd, vset_other by (intros X; inversion X; lia).
      rewrite G1. destruct cut; [|reflexivity]. cbn [keepp]. now replace (j <=? i) with true by lia.
    - now rewrite fdat_upd, vset_same.
    - intros j Lj. rewrite fdat_upd, vset_other by (intros X; inversion X; lia).
      rewrite G1. destruct cut; [|reflexivity]. cbn [keepp]. now replace (j <=? i) with false by lia.
  Qed.

  (* ---------------------------------------------------------------- *)
  (* G5. replay, index_load and open on a damaged filesystem           *)
  (* ---------------------------------------------------------------- *)
  (* the damage site: record (v, p) of segment i, between recs1 and recs2 *)
  Record Site (c nv sb : N) (pre : bool) (s : fs) (sg : smap bytes) (ids : list N)
         (rf : N -> list (N * bytes)) (sf : N -> bool) (km_c : smap item) (ops : list rawop)
         (i : N) (recs1 : list (N * bytes)) (v : N) (p : bytes) (recs2 : list (N * bytes))
    : Prop := mkSite {
    si_wf : FsWf s;
    si_dw : DiskW c nv sb pre (fdat s) sg ids rf sf km_c ops;
    si_in : In i ids;
    si_rf : rf i = recs1 ++ [(v, p)] ++ recs2
  }.

  (* all records strictly before the damaged one, in replay order; how many of them are above c *)
  Definition recs_before (ids : list N) (rf : N -> list (N * bytes)) (i : N)
             (recs1 : list (N * bytes)) : list (N * bytes) :=
    flat_map rf (filter (fun x => x <? i) ids) ++ recs1.
  Definition n_before (c : N) (ids : list N) (rf : N -> list (N * bytes)) (i : N)
             (recs1 : list (N * bytes)) : nat :=
    length (filter (fun r => c <? fst r) (recs_before ids rf i recs1)).

  Lemma render_one : forall v p, render [(v, p)] = enc_record H v p.
  Proof. intros. unfold CodecProofs.render. cbn [flat_map fst snd]. apply app_nil_r. Qed.

  Lemma site_facts : forall c nv sb pre s sg ids rf sf km_c ops i recs1 v p recs2,
    Site c nv sb pre s sg ids rf sf km_c ops i recs1 v p recs2 ->
    let lo := filter (fun x => x <? i) ids in
    let j := n_before c ids rf i recs1 in
    exists hi ops2,
      ids = lo ++ i :: hi /\ (forall x, In x hi -> i < x) /\ asc lo /\ asc hi /\
      (forall x, In x lo -> x < i) /\
      ops = firstn j ops ++ ops2 /\ length (firstn j ops) = j /\
      filter (fun r => c <? fst r) (recs_before ids rf i recs1) = enc_from (c + 1) (firstn j ops) /\
      Forall op_good (firstn j ops) /\ ops_ok km_c (firstn j ops) /\
      Forall rec_ok recs1 /\ rec_ok (v, p) /\
      fdat s (PWal i) = Some (render recs1 ++ enc_record H v p ++ render recs2 ++ tailb (sf i)) /\
      (c < v -> v = c + 1 + N.of_nat j /\ (j < length ops)%nat).
  Proof.
    intros c nv sb pre s sg ids rf sf km_c ops i recs1 v p recs2 [Wf Dw Ii Erf] lo j.
    pose proof Dw as [].
    destruct (asc_split ids i dw_asc Ii) as (hi & Eids & Hhi & Alo & Ahi & Hlo). fold lo in Eids, Alo, Hlo.
    set (P := fun r : N * bytes => c <? fst r) in *.
    set (rest := (v, p) :: recs2 ++ flat_map rf hi).
    assert (Efl : flat_map rf ids = recs_before ids rf i recs1 ++ rest).
    { unfold recs_before, rest. fold lo. rewrite Eids at 1. rewrite flat_map_app. cbn [flat_map].
      rewrite Erf. rewrite <- !app_assoc. reflexivity. }
    pose proof dw_filter as Fl. rewrite Efl, filter_app in Fl.
    destruct (enc_from_split _ _ _ _ Fl) as (o1 & o2 & Eo & F1 & F2).
    assert (Lj : length o1 = j).
    { unfold j, n_before. fold P. rewrite F1. now rewrite enc_from_length. }
    assert (Fj : firstn j ops = o1) by (rewrite Eo, <- Lj; apply firstn_length_app).
    rewrite Fj. exists hi, o2.
    assert (Og : Forall op_good o1 /\ Forall op_good o2) by (apply Forall_app; now rewrite <- Eo).
    assert (Oo : ops_ok km_c o1) by (apply (ops_ok_app cfg o1 o2 km_c); now rewrite <- Eo).
    destruct (dw_seg i Ii) as (S1 & _). rewrite Erf in S1.
    apply Forall_app in S1. destruct S1 as [R1 S1]. apply Forall_app in S1. destruct S1 as [S1 _].
    pose proof (Forall_inv S1) as Rv.
    do 5 (split; [assumption|]). split; [exact Eo|]. split; [exact Lj|]. split; [exact F1|].
    split; [apply Og|]. split; [exact Oo|]. split; [exact R1|]. split; [exact Rv|]. split.
    - rewrite (dw_in i Ii), Erf, !render_app, render_one. now rewrite <- !app_assoc.
    - intros Lv. unfold rest in F2. cbn [filter] in F2. unfold P at 1 in F2. cbn [fst] in F2.
      replace (c <? v) with true in F2 by lia.
      destruct o2 as [|o o2]; [discriminate|]. cbn [enc_from] in F2. inversion F2 as [[Ev Ep Fr]].
      split; [lia|]. rewrite Eo, app_length. cbn [length]. lia.
  Qed.

  Lemma fold_max_enc : forall c recs ops1,
    filter (fun r => c <? fst r) recs = enc_from (c + 1) ops1 ->
    fold_left N.max (map fst recs) c = c + N.of_nat (length ops1).
  Proof.
    intros c recs ops1 Fl.
    destruct (fold_max_spec (map fst recs) c) as (M1 & M2 & M3).
    assert (Up : fold_left N.max (map fst recs) c <= c + N.of_nat (length ops1)).
    { destruct M3 as [->|M3]; [lia|]. apply in_map_iff in M3. destruct M3 as (r & <- & Ir).
      destruct (c <? fst r) eqn:E; [|lia].
      assert (I2 : In r (enc_from (c + 1) ops1)) by (rewrite <- Fl; apply filter_In; now split).
      apply enc_from_bound in I2. lia. }
    destruct (Nat.eq_dec (length ops1) 0) as [Z|NZ]; [rewrite Z in *; lia|].
    destruct (@exists_last _ ops1) as (l & o0 & El); [intros ->; now apply NZ|].
    rewrite El in Fl. rewrite El, app_length in *. cbn [length] in *.
    assert (Il : In (c + 1 + N.of_nat (length l), enc_op o0) recs).
    { assert (I2 : In (c + 1 + N.of_nat (length l), enc_op o0) (filter (fun r => c <? fst r) recs)).
      { rewrite Fl, enc_from_app. apply in_or_app. right. now left. }
      apply filter_In in I2. tauto. }
    assert (c + 1 + N.of_nat (length l) <= fold_left N.max (map fst recs) c).
    { apply M2. apply in_map_iff. eexists. split; [|exact Il]. reflexivity. }
    lia.
  Qed.

  (* THE replay lemma: on a filesystem damaged at the site, with the lazy reader delivering
     exactly recs1 from the damaged file, replay applies exactly the operations of the
     undamaged prefix and then stops with the reader's error -- or, when the reader sees a
     clean end and the later segments are gone, ends there *)
  Lemma rs_log_damaged : forall c nv sb pre s sg ids rf sf km_c ops i recs1 v p recs2
                                sd data' cut e st0,
    Site c nv sb pre s sg ids rf sf km_c ops i recs1 v p recs2 ->
    Damaged s sd i data' cut ->
    read_segment_lazy H (S (length data')) data' = (recs1, e) ->
    (e = None -> cut = true) ->
    IdxInv cmp st0 -> km st0 = km_c ->
    let j := n_before c ids rf i recs1 in
    exists st1,
      rs_log c sd (sort_ids (wal_ids sd)) st0 c 0 [] =
        (firstn j ops,
         match e with
         | Some x => Err (EReplay x)
         | None => Ok (st1, c + N.of_nat j, N.of_nat j)
         end) /\
      IdxInv cmp st1 /\ km st1 = fold_left kstep (firstn j ops) km_c /\ lpv st1 = lpv st0 /\
      (j = 0%nat -> st1 = st0) /\ apply_all st0 (firstn j ops) = Ok st1.
  Proof.
    intros c nv sb pre s sg ids rf sf km_c ops i recs1 v p recs2 sd data' cut e st0
           St Dm Rd Ecut Iv0 K0 j.
    destruct (site_facts _ _ _ _ _ _ _ _ _ _ _ _ _ _ _ _ St)
      as (hi & ops2 & Eids & Hhi & Alo & Ahi & Hlo & Eo & Lj & F1 & Og1 & Oo1 & R1 & Rv & Gi & _).
    fold j in Eo, Lj, F1, Og1, Oo1.
    set (lo := filter (fun x => x <? i) ids) in *.
    set (ops1 := firstn j ops) in *.
    destruct St as [Wf Dw Ii Erf]. pose proof Dw as []. destruct Dm.
    set (tl := if cut then [] else hi).
    (* the segment files of the damaged filesystem *)
    assert (Ilo : forall x, In x lo -> In x ids) by (intros x Ix; apply filter_In in Ix; tauto).
    assert (Ihi : forall x, In x hi -> In x ids).
    { intros x Ix. rewrite Eids. apply in_or_app. right. now right. }
    assert (Atl : asc tl /\ forall x, In x tl -> In x hi).
    { unfold tl. destruct cut; [split; [exact I|intros x []]|split; auto]. }
    destruct Atl as [Atl Itl].
    assert (Esd : sort_ids (wal_ids sd) = lo ++ i :: tl).
    { apply sort_ids_char; [exact dm_wf0| |].
      - apply asc_app. split; [exact Alo|]. split.
        + split; [|exact Atl]. intros y Iy. apply Hhi, Itl, Iy.
        + intros x y Ix [<-|Iy]; [now apply Hlo|].
          specialize (Hlo x Ix). specialize (Hhi y (Itl y Iy)). lia.
      - intros x. rewrite <- (fdat_none sd). split.
        + intros Ix. apply in_app_or in Ix. destruct Ix as [Ix|[<-|Ix]].
          * rewrite dm_below0 by (now apply Hlo). rewrite (dw_in x (Ilo x Ix)). discriminate.
          * rewrite dm_at0. discriminate.
          * rewrite dm_above0 by (apply Hhi, Itl, Ix). unfold tl in Ix. destruct cut; [destruct Ix|].
            rewrite (dw_in x (Ihi x Ix)). discriminate.
        + intros Nn. destruct (N.lt_trichotomy x i) as [L|[->|L]].
          * apply in_or_app. left. apply filter_In.
            rewrite dm_below0 in Nn by exact L. split; [|lia].
            destruct (in_dec N.eq_dec x ids) as [Ix|Nx]; [exact Ix|]. now rewrite dw_out in Nn.
          * apply in_or_app. right. now left.
          * apply in_or_app. right. right. rewrite dm_above0 in Nn by exact L.
            unfold tl. destruct cut; [now contradiction Nn|].
            destruct (in_dec N.eq_dec x ids) as [Ix|Nx]; [|now rewrite dw_out in Nn].
            rewrite Eids in Ix. apply in_app_or in Ix. destruct Ix as [Ix|[<-|Ix]]; [|lia|exact Ix].
            specialize (Hlo x Ix). lia. }
    assert (Flo : forall x, In x lo -> exists f, fget sd (PWal x) = Some f /\
                    read_segment_lazy H (S (length (fdata f))) (fdata f) = (rf x, None)).
    { intros x Ix. pose proof (dm_below0 x (Hlo x Ix)) as G. rewrite (dw_in x (Ilo x Ix)) in G.
      apply fdat_some in G. destruct G as (f & G & Df). exists f. split; [exact G|]. rewrite Df.
      apply (read_lazy_seg H H_len). destruct (dw_seg x (Ilo x Ix)) as (S1 & _). exact S1. }
    apply fdat_some in dm_at0. destruct dm_at0 as (fi & Gfi & Dfi).
    (* the prefix replays *)
    assert (Oo1' : ops_ok (km st0) ops1) by (now rewrite K0).
    destruct (rr_log_ok c (recs_before ids rf i recs1) (c + 1) ops1 st0 c 0 [] F1 Og1 Iv0 Oo1')
      as (st1 & E1 & Iv1 & K1 & L1 & Z1).
    assert (Ap : apply_all st0 ops1 = Ok st1).
    { destruct (rr_log_faithful _ _ _ _ _ _ _ _ E1) as (l & stx & El & Al & [Es _]).
      cbn [app] in El. rewrite El, Al. now f_equal. }
    rewrite (fold_max_enc c _ ops1 F1), Lj in E1. cbn [app] in E1.
    replace (0 + N.of_nat j) with (N.of_nat j) in E1 by lia.
    unfold recs_before in E1. fold lo in E1. rewrite rr_log_app in E1.
    exists st1. rewrite Esd, rs_log_app, (rs_log_flat c sd rf lo st0 c 0 [] Flo).
    split; [|split; [exact Iv1|split; [now rewrite K1, K0|split; [exact L1|split; [|exact Ap]]]]].
    - destruct (rr_log c (flat_map rf lo) st0 c 0 []) as [accA [[[sA hA] cA]|x]]; [|discriminate].
      cbn [rs_log]. rewrite Gfi, Dfi, Rd, E1.
      destruct e as [x|]; [reflexivity|]. unfold tl. now rewrite (Ecut eq_refl).
    - intros Zj. apply Z1. unfold ops1. rewrite Zj. reflexivity.
  Qed.

  (* checkpoint_inner after a replay cannot fail without an injected fault *)
  Lemma ck_plain : forall m w, wfault w = None -> FsWf (wfs w) ->
    exists m' w', checkpoint_inner cfg RAfterReplay m w = ((Ok tt, m'), w') /\ Eff w w' /\
      km (idx m') = km (idx m) /\ rc (idx m') = rc (idx m) /\
      ub (idx m') = ub (idx m) /\ tb (idx m') = tb (idx m) /\
      mwal m' = mwal m /\ mpre m' = mpre m.
  Proof.
    intros m w F W. unfold checkpoint_inner. cbv zeta.
    match goal with |- context [if ?c then _ else _] => destruct c end.
    - exists m, w. split; [reflexivity|]. split; [now apply eff_refl|]. now repeat split.
    - match goal with |- context [atomic_write PIndex PIndexTmp ?d] =>
        destruct (atomic_write_ok PIndex PIndexTmp d w F eq_refl eq_refl) as (w1 & E1 & S1 & G1)
      end.
      rewrite (bind_eq _ _ _ _ _ E1).
      pose proof (step_eff _ _ _ _ W S1) as X1.
      match goal with |- context [if ?c then ret tt else _] => destruct c end.
      + unfold bind at 1. cbn [ret]. eexists _, w1. split; [reflexivity|]. split; [exact X1|].
        cbn [idx km rc ub tb mwal mpre]. now repeat split.
      + pose proof X1 as (F1 & W1 & _).
        destruct (x_prune_below cfg (seg_of (nextv (mwal m) - 1)) w1 F1 W1) as (w2 & E2 & X2 & _).
        rewrite (bind_eq _ _ _ _ _ E2). eexists _, w2. split; [reflexivity|].
        split; [eapply eff_trans; eassumption|].
        cbn [idx km rc ub tb mwal mpre]. now repeat split.
  Qed.

  (* the tail of Index::load after a successful replay cannot fail without an injected fault *)
  Lemma load_tail_plain : forall pre st0 st hi cnt w, wfault w = None -> FsWf (wfs w) ->
    replay_segments H cfg (lpv st0) (wfs w) (sort_ids (wal_ids (wfs w))) st0 (lpv st0) 0
      = Ok (st, hi, cnt) ->
    exists m' w', load_tail pre (wfs w) st0 w = (Ok m', w') /\ Eff w w' /\
      km (idx m') = km st /\ rc (idx m') = rc st /\ ub (idx m') = ub st /\ tb (idx m') = tb st /\
      nextv (mwal m') = hi + 1 /\ writer (mwal m') = None /\ mpre m' = pre.
  Proof.
    intros pre st0 st hi cnt w F Wf E. unfold Recover.load_tail. cbv zeta. rewrite E. cbv beta iota.
    set (t := (hi + 1 - 1) / c_n cfg).
    assert (P1 : exists w1,
      (match fget (wfs w) (PWal t) with
       | Some _ => ret (Ok tt)
       | None => do! x <- do_call (CCreate (PWal t)) ;;
                 match x with Err e => ret (Err e) | Ok _ => do_call (CSync (PWal t)) end
       end) w = (Ok tt, w1) /\ Eff w w1).
    { destruct (fget (wfs w) (PWal t)) as [f|] eqn:G.
      - exists w. split; [reflexivity|now apply eff_refl].
      - destruct (x_create w (PWal t) F Wf eq_refl) as (w5 & E5 & X5 & V5).
        pose proof X5 as (F5 & W5 & _).
        destruct (x_sync w5 (PWal t) [] F5 W5) as (w6 & E6 & X6 & V6).
        { now rewrite V5, vset_same. }
        exists w6. rewrite (bind_eq _ _ _ _ _ E5). split; [exact E6|].
        eapply eff_trans; eassumption. }
    destruct P1 as (w1 & E1 & X1). rewrite (bind_eq _ _ _ _ _ E1).
    pose proof X1 as (F1 & W1 & _).
    destruct (0 <? cnt).
    - destruct (ck_plain (mkMem st (mkWal (hi + 1) None) pre) w1 F1 W1)
        as (m' & w2 & E2 & X2 & K2 & R2 & U2 & T2 & Wl2 & P2).
      rewrite (bind_eq _ _ _ _ _ E2). exists m', w2. split; [reflexivity|].
      split; [eapply eff_trans; eassumption|]. rewrite Wl2, P2. now repeat split.
    - eexists _, w1. split; [reflexivity|]. split; [exact X1|]. now repeat split.
  Qed.

  Lemma loaded_of_ext : forall s s', fdat s' PIndex = fdat s PIndex -> loaded_of s' = loaded_of s.
  Proof.
    intros s s' E. unfold Recover.loaded_of, fdat in *.
    destruct (fget s' PIndex) as [f'|], (fget s PIndex) as [f|]; cbn [option_map] in E;
      try discriminate; [|reflexivity].
    inversion E as [E']. now rewrite E'.
  Qed.

  (* the operations the replay of an open applies, as recorded by the instrumented replay *)
  Definition applied_on_open (s : fs) : list rawop :=
    match loaded_of s with
    | Ok st0 => fst (rs_log (lpv st0) s (sort_ids (wal_ids s)) st0 (lpv st0) 0 [])
    | Err _ => []
    end.

  Lemma checkpoint_km : forall reason m w r m' w',
    checkpoint_inner cfg reason m w = ((r, m'), w') -> km (idx m') = km (idx m).
  Proof.
    intros reason m w r m' w' E. unfold checkpoint_inner in E. cbv zeta in E.
    match type of E with (if ?c then _ else _) _ = _ => destruct c end.
    - inversion E. reflexivity.
    - unfold bind at 1 in E.
      match type of E with (let '(_, _) := ?X in _) = _ => destruct X as [[u|e] w1] end.
      + unfold bind in E.
        match type of E with (let '(_, _) := ?X in _) = _ => destruct X as [u2 w2] end.
        inversion E. reflexivity.
      + inversion E. reflexivity.
  Qed.

  (* the instrumentation is faithful for EVERY filesystem: whenever Index::load succeeds, the
     key map of the new handle is the result of applying exactly the operations
     [applied_on_open] to the state loaded from the snapshot *)
  Theorem index_load_applied : forall pre w m' w',
    index_load H cfg pre w = (Ok m', w') ->
    exists st0 st, loaded_of (wfs w) = Ok st0 /\
                   apply_all st0 (applied_on_open (wfs w)) = Ok st /\ km (idx m') = km st.
  Proof.
    intros pre w m' w' E. rewrite index_load_split in E.
    destruct (loaded_of (wfs w)) as [st0|e] eqn:El; [|discriminate].
    unfold Recover.load_tail in E. cbv zeta in E.
    destruct (rs_log (lpv st0) (wfs w) (sort_ids (wal_ids (wfs w))) st0 (lpv st0) 0 [])
      as [acc r] eqn:Er.
    pose proof (rs_log_snd (lpv st0) (wfs w) (sort_ids (wal_ids (wfs w))) st0 (lpv st0) 0 []) as Sn.
    rewrite Er in Sn. cbn [snd] in Sn. rewrite <- Sn in E.
    destruct (rs_log_faithful _ _ _ _ _ _ _ _ _ Er) as (l & st1 & Ea & Al & R).
    cbn [app] in Ea. subst acc.
    destruct r as [[[st hi] cnt]|e]; [|discriminate]. destruct R as [-> _].
    exists st0, st1. split; [reflexivity|]. unfold applied_on_open. rewrite El, Er. cbn [fst].
    split; [exact Al|].
    unfold bind at 1 in E.
    match type of E with (let '(_, _) := ?X in _) = _ => destruct X as [[u|e] w1] end;
      [|discriminate].
    destruct (0 <? cnt).
    - unfold bind in E.
      match type of E with (let '(_, _) := ?X in _) = _ => destruct X as [[rc m2] w2] eqn:Ec end.
      destruct rc; [|discriminate]. inversion E; subst.
      now rewrite (checkpoint_km _ _ _ _ _ _ Ec).
    - inversion E. reflexivity.
  Qed.

  (* Index::load on a damaged filesystem, by what the lazy reader delivers at the site *)
  Lemma index_load_damaged : forall c nv sb pre s sg ids rf sf km_c ops i recs1 v p recs2
                                    data' cut e pre' w,
    Site c nv sb pre s sg ids rf sf km_c ops i recs1 v p recs2 ->
    Damaged s (wfs w) i data' cut -> wfault w = None ->
    read_segment_lazy H (S (length data')) data' = (recs1, e) ->
    (e = None -> cut = true) ->
    let j := n_before c ids rf i recs1 in
    applied_on_open (wfs w) = firstn j ops /\
    (exists st0 st1, loaded_of (wfs w) = Ok st0 /\ km st0 = km_c /\
                     apply_all st0 (firstn j ops) = Ok st1 /\
                     km st1 = fold_left kstep (firstn j ops) km_c) /\
    match e with
    | Some x => index_load H cfg pre' w = (Err (EReplay x), w)
    | None =>
      exists m' w', index_load H cfg pre' w = (Ok m', w') /\ Eff w w' /\
        km (idx m') = fold_left kstep (firstn j ops) km_c /\ IdxInv cmp (idx m') /\
        nextv (mwal m') = c + 1 + N.of_nat j /\ writer (mwal m') = None /\ mpre m' = pre'
    end.
  Proof.
    intros c nv sb pre s sg ids rf sf km_c ops i recs1 v p recs2 data' cut e pre' w
           St Dm F Rd Ecut j.
    destruct (loaded_ok H H_len H_byte cfg n_pos _ _ _ _ _ _ _ _ _ _ _ (si_dw _ _ _ _ _ _ _ _ _ _ _ _ _ _ _ _ St))
      as (st0 & El & Iv0 & K0 & L0 & _).
    rewrite <- (loaded_of_ext s (wfs w) (dm_index _ _ _ _ _ Dm)) in El.
    destruct (rs_log_damaged _ _ _ _ _ _ _ _ _ _ _ _ _ _ _ _ _ _ _ _ st0 St Dm Rd Ecut Iv0 K0)
      as (st1 & E1 & Iv1 & K1 & L1 & _ & Ap). fold j in E1, K1, Ap.
    split; [|split].
    - unfold applied_on_open. rewrite El, L0, E1. reflexivity.
    - exists st0, st1. now repeat split.
    - pose proof (rs_log_snd c (wfs w) (sort_ids (wal_ids (wfs w))) st0 c 0 []) as Sn.
      rewrite E1 in Sn. cbn [snd] in Sn. symmetry in Sn.
      rewrite index_load_split, El. destruct e as [x|].
      + unfold Recover.load_tail. cbv zeta. rewrite L0, Sn. reflexivity.
      + rewrite <- L0 in Sn.
        destruct (load_tail_plain pre' st0 st1 _ _ w F (dm_wf _ _ _ _ _ Dm) Sn)
          as (m' & w' & E' & X' & K' & R' & U' & T' & N' & Wr' & P').
        exists m', w'. split; [exact E'|]. split; [exact X'|]. split; [now rewrite K', K1|].
        split; [eapply (IdxInv_ext cfg); [exact K'|exact R'|exact U'|exact T'|exact Iv1]|].
        split; [rewrite N'; lia|]. now split.
  Qed.

  (* open_with_recover on an initialised directory: everything before Index::load *)
  Lemma open_reduce : forall w pre d, wfault w = None -> FsWf (wfs w) ->
    has_dir (wfs w) [s_staging] = true -> has_dir (wfs w) [s_cas] = true ->
    fdat (wfs w) PSettings = Some d -> dec_settings d = Some (CURRENT_DB_VERSION, pre, c_n cfg) ->
    exists w3, Eff w w3 /\ (forall q, fdat (wfs w3) q = vset (fdat (wfs w)) PLock (Some []) q) /\
      open_with_recover H cfg w =
      match index_load H cfg pre w3 with
      | (Err e, w') => (Err e, w')
      | (Ok m, w') => (Ok (m, if c_scan cfg
                              then Some (scan_orphans H m (wfs w') (c_verify cfg)) else None), w')
      end.
  Proof.
    intros w pre d F Wf Hs Hc Gs Es. unfold open_with_recover.
    rewrite (bind_eq _ _ _ _ _ (mkdir_p_exists _ _ Hs)).
    rewrite (bind_eq _ _ _ _ _ (mkdir_p_exists _ _ Hc)).
    destruct (x_create w PLock F Wf eq_refl) as (w3 & E3 & X3 & V3).
    rewrite (bind_eq _ _ _ _ _ E3). exists w3. split; [exact X3|]. split; [exact V3|].
    assert (Gs3 : fdat (wfs w3) PSettings = Some d) by (rewrite V3, vset_other by discriminate; exact Gs).
    apply fdat_some in Gs3. destruct Gs3 as (f & Gf & Df).
    unfold bind at 1, read_file at 1. rewrite Gf, Df, Es.
    rewrite !N.eqb_refl. cbn [negb].
    rewrite (bind_eq _ _ _ _ _ (eq_refl : ret (Ok pre) w3 = (Ok pre, w3))).
    unfold bind at 1. destruct (index_load H cfg pre w3) as [[m|e] w']; reflexivity.
  Qed.

  (* Cas::open after open_with_recover: the integrity gate *)
  Lemma open_store_of : forall w r w', open_with_recover H cfg w = (r, w') ->
    match r with
    | Err e => open_store H cfg w = (Err e, w')
    | Ok (m, os) =>
      (open_store H cfg w = (Ok (m, os), w') \/
       exists w'', open_store H cfg w = (Err EIntegrity, w'')) /\
      (c_failint cfg = false \/ os = None -> open_store H cfg w = (Ok (m, os), w'))
    end.
  Proof.
    intros w r w' E.
    assert (R : open_store H cfg w =
                match r with
                | Err e => ret (Err e) w'
                | Ok (m, os) =>
                  match os with
                  | Some o =>
                    if c_failint cfg && negb (match o_missing o, o_corrupted o with [], [] => true | _, _ => false end)
                    then (do! _ <- close m ;; ret (Err EIntegrity)) w'
                    else ret (Ok (m, os)) w'
                  | None => ret (Ok (m, os)) w'
                  end
                end).
    { unfold open_store. unfold bind at 1. rewrite E. destruct r as [[m [o|]]|e]; try reflexivity.
      now destruct (c_failint cfg && _). }
    rewrite R. clear R.
    destruct r as [[m os]|e]; [|reflexivity].
    destruct os as [o|].
    - destruct (c_failint cfg && negb _) eqn:C.
      + split.
        * right. unfold bind. destruct (close m w') as [u w'']. now exists w''.
        * intros [Fi|X]; [|discriminate]. rewrite Fi in C. discriminate.
      + split; [now left|reflexivity].
    - split; [now left|reflexivity].
  Qed.

  Lemma Damaged_lock : forall s sd sd' i data' cut,
    Damaged s sd i data' cut -> FsWf sd' -> dirs sd' = dirs sd ->
    (forall q, fdat sd' q = vset (fdat sd) PLock (Some []) q) ->
    Damaged s sd' i data' cut.
  Proof.
    intros s sd sd' i data' cut [] W' D' V'. constructor; try assumption.
    - unfold has_dir. rewrite D'. exact dm_staging0.
    - unfold has_dir. rewrite D'. exact dm_cas0.
    - rewrite V', vset_other by discriminate. exact dm_index0.
    - rewrite V', vset_other by discriminate. exact dm_settings0.
    - intros j Lj. rewrite V', vset_other by discriminate. now apply dm_below0.
    - rewrite V', vset_other by discriminate. exact dm_at0.
    - intros j Lj. rewrite V', vset_other by discriminate. now apply dm_above0.
  Qed.

  Lemma applied_on_open_ext : forall s s', FsWf s -> FsWf s' ->
    fdat s' PIndex = fdat s PIndex -> (forall i, fdat s' (PWal i) = fdat s (PWal i)) ->
    applied_on_open s' = applied_on_open s.
  Proof.
    intros s s' W W' Ei Ew. unfold applied_on_open. rewrite (loaded_of_ext s s' Ei).
    destruct (loaded_of s) as [st0|e]; [|reflexivity].
    assert (Eids : sort_ids (wal_ids s') = sort_ids (wal_ids s)).
    { destruct (sort_ids_spec (wal_ids s)) as [A E]; [apply widl_nodup, W|].
      apply sort_ids_char; [exact W'|exact A|]. intros i. rewrite E, In_wal_ids.
      rewrite <- (fdat_none s'), <- (fdat_none s), Ew. tauto. }
    rewrite Eids. f_equal. generalize (sort_ids (wal_ids s)) as ids.
    generalize (lpv st0) at 2 4 as hi. generalize 0 as cnt. generalize (@nil rawop) as acc.
    generalize st0 at 2 4 as st.
    intros st acc cnt hi ids. revert st acc cnt hi.
    induction ids as [|i ids IH]; intros st acc cnt hi; [reflexivity|].
    cbn [rs_log]. pose proof (Ew i) as G. unfold fdat in G.
    destruct (fget s' (PWal i)) as [f'|], (fget s (PWal i)) as [f|]; cbn [option_map] in G;
      try discriminate; [|reflexivity].
    inversion G as [G']. rewrite G'.
    destruct (read_segment_lazy H (S (length (fdata f))) (fdata f)) as [recs e].
    destruct (rr_log (lpv st0) recs st hi cnt acc) as [acc1 [[[s2 h2] c2]|x]]; [|reflexivity].
    destruct e; [reflexivity|apply IH].
  Qed.

  (* ---------------------------------------------------------------- *)
  (* G6. the C10 theorems                                              *)
  (* ---------------------------------------------------------------- *)
  Inductive damage :=
  | DTrunc (n : nat)          (* the file is cut n bytes into the record; later segments are lost *)
  | DPayload (p' : bytes)     (* the payload is replaced *)
  | DChecksum (c' : bytes).   (* the 32 checksum bytes are replaced *)

  Definition damage_ok (v : N) (p : bytes) (d : damage) : Prop :=
    match d with
    | DTrunc n => (n < length (enc_record H v p))%nat
    | DPayload p' => length p' = length p /\ p' <> p /\ H p' <> H p
    | DChecksum c' => length c' = 32%nat /\ c' <> H p
    end.

  (* the damaged content of a file render recs1 ++ enc_record H v p ++ rest *)
  Definition damaged_data (recs1 : list (N * bytes)) (v : N) (p rest : bytes) (d : damage) : bytes :=
    match d with
    | DTrunc n => firstn (length (render recs1) + n) (render recs1 ++ enc_record H v p ++ rest)
    | DPayload p' => render recs1 ++ header H v p ++ p' ++ rest
    | DChecksum c' => render recs1 ++ u64 v ++ c' ++ u32 (len p) ++ p ++ rest
    end.

  Definition damage_cut (d : damage) : bool := match d with DTrunc _ => true | _ => false end.

  (* what the segment reader reports at the damaged record *)
  Definition damage_reads (d : damage) : option rerr :=
    match d with
    | DTrunc n => if (n <? 44)%nat then None else Some RShortPayload
    | DPayload _ | DChecksum _ => Some RChecksum
    end.

  Lemma damaged_read : forall recs1 v p rest d,
    Forall rec_ok recs1 -> rec_ok (v, p) -> damage_ok v p d ->
    let data' := damaged_data recs1 v p rest d in
    read_segment_lazy H (S (length data')) data' = (recs1, damage_reads d).
  Proof.
    intros recs1 v p rest d R1 Rv Dk. pose proof Rv as [[Hv0 Hv] [Hp0 Hp]]. cbn [fst snd] in *.
    destruct d as [n|p'|c']; cbn [damage_ok damaged_data damage_reads] in *.
    - rewrite firstn_app_2.
      assert (E : firstn n (enc_record H v p ++ rest) = firstn n (enc_record H v p)).
      { rewrite firstn_app. replace (n - length (enc_record H v p))%nat with 0%nat by lia.
        cbn [firstn]. apply app_nil_r. }
      rewrite E.
      pose proof (read_record_truncated H H_len v p n Hv0 Hv Hp0 Hp Dk) as Hr.
      destruct (n <? 44)%nat.
      + now apply (lazy_render_stop H H_len).
      + now apply (lazy_render_err H H_len).
    - destruct Dk as (L & Ne & NeH).
      apply (lazy_segment_bad_payload H H_len recs1 v p p' rest R1 Rv L Ne NeH).
    - destruct Dk as (L & Ne).
      apply (lazy_segment_bad_checksum H H_len recs1 v p c' rest R1 Rv L Ne).
  Qed.

  (* the general statement: the outcome of open on a filesystem damaged at the site *)
  Theorem open_damaged : forall c nv sb pre s sg ids rf sf km_c ops i recs1 v p recs2 d sd w,
    Site c nv sb pre s sg ids rf sf km_c ops i recs1 v p recs2 ->
    damage_ok v p d ->
    Damaged s sd i (damaged_data recs1 v p (render recs2 ++ tailb (sf i)) d) (damage_cut d) ->
    wfs w = sd -> wfault w = None ->
    let j := n_before c ids rf i recs1 in
    applied_on_open sd = firstn j ops /\
    (exists st0 st1, loaded_of sd = Ok st0 /\ km st0 = km_c /\
                     apply_all st0 (firstn j ops) = Ok st1 /\
                     km st1 = fold_left kstep (firstn j ops) km_c) /\
    match damage_reads d with
    | Some x => exists w', open_with_recover H cfg w = (Err (EReplay x), w') /\
                           open_store H cfg w = (Err (EReplay x), w')
    | None =>
      exists m' os w', open_with_recover H cfg w = (Ok (m', os), w') /\ wfault w' = None /\
        km (idx m') = fold_left kstep (firstn j ops) km_c /\ IdxInv cmp (idx m') /\
        nextv (mwal m') = c + 1 + N.of_nat j /\ writer (mwal m') = None /\ mpre m' = pre /\
        (open_store H cfg w = (Ok (m', os), w') \/
         exists w'', open_store H cfg w = (Err EIntegrity, w'')) /\
        (c_failint cfg = false \/ c_scan cfg = false -> open_store H cfg w = (Ok (m', os), w'))
    end.
  Proof.
    intros c nv sb pre s sg ids rf sf km_c ops i recs1 v p recs2 d sd w St Dk Dm Ws F j. subst sd.
    destruct (site_facts _ _ _ _ _ _ _ _ _ _ _ _ _ _ _ _ St)
      as (_ & _ & _ & _ & _ & _ & _ & _ & _ & _ & _ & _ & R1 & Rv & _).
    pose proof (damaged_read recs1 v p (render recs2 ++ tailb (sf i)) d R1 Rv Dk) as Rd.
    cbv zeta in Rd.
    destruct (dw_settings _ _ _ _ _ _ _ _ _ _ _ _ _ (si_dw _ _ _ _ _ _ _ _ _ _ _ _ _ _ _ _ St))
      as (d0 & Gs & Es).
    rewrite <- (dm_settings _ _ _ _ _ Dm) in Gs.
    destruct (open_reduce w pre d0 F (dm_wf _ _ _ _ _ Dm) (dm_staging _ _ _ _ _ Dm)
                (dm_cas _ _ _ _ _ Dm) Gs Es) as (w3 & X3 & V3 & Eo).
    pose proof X3 as (F3 & W3 & D3 & _).
    pose proof (Damaged_lock _ _ _ _ _ _ Dm W3 D3 V3) as Dm3.
    assert (Ecut : damage_reads d = None -> damage_cut d = true).
    { destruct d; cbn [damage_reads damage_cut]; [reflexivity|discriminate|discriminate]. }
    destruct (index_load_damaged _ _ _ _ _ _ _ _ _ _ _ _ _ _ _ _ _ _ _ pre w3 St Dm3 F3 Rd Ecut)
      as (Ap & Ld & Out). fold j in Ap, Ld, Out.
    assert (Eap : applied_on_open (wfs w3) = applied_on_open (wfs w)).
    { apply applied_on_open_ext; [exact (dm_wf _ _ _ _ _ Dm)|exact W3| |];
        intros; rewrite V3; now apply vset_other. }
    split; [now rewrite <- Eap|]. split.
    { destruct Ld as (st0 & st1 & El & K0 & Al & K1). exists st0, st1.
      rewrite <- (loaded_of_ext (wfs w) (wfs w3)); [now repeat split|].
      rewrite V3. now apply vset_other. }
    destruct (damage_reads d) as [x|].
    - rewrite Out in Eo. exists w3. split; [exact Eo|]. exact (open_store_of _ _ _ Eo).
    - destruct Out as (m' & w' & E' & X' & K' & Iv' & N' & Wr' & P'). rewrite E' in Eo.
      pose proof (open_store_of _ _ _ Eo) as [O1 O2]. eexists m', _, w'.
      split; [exact Eo|]. split; [apply X'|]. do 5 (split; [assumption|]). split; [exact O1|].
      intros [Fi|Sc]; apply O2; [now left|right]. now rewrite Sc.
  Qed.

  (* ---- the setting of C10: a store at rest, a record above the snapshot version ---- *)
  Definition Setting (m : mem) (s : fs) (sg : smap bytes) (ids : list N)
             (rf : N -> list (N * bytes)) (sf : N -> bool) (km_c : smap item) (ops : list rawop)
             (i : N) (recs1 : list (N * bytes)) (v : N) (p : bytes) (recs2 : list (N * bytes))
    : Prop :=
    Inv m s sg /\
    DiskW (lpv (idx m)) (nextv (mwal m)) (seg_of (nextv (mwal m) - 1)) (mpre m) (fdat s) sg
          ids rf sf km_c ops /\
    In i ids /\ rf i = recs1 ++ [(v, p)] ++ recs2 /\ lpv (idx m) < v.

  (* the witnesses exist for every store at rest (DiskOk is their existence) *)
  Lemma Inv_witnesses : forall m s sg, Inv m s sg ->
    exists ids rf sf km_c ops,
      DiskW (lpv (idx m)) (nextv (mwal m)) (seg_of (nextv (mwal m) - 1)) (mpre m) (fdat s) sg
            ids rf sf km_c ops.
  Proof. intros m s sg (_ & D & _). exact D. Qed.

  (* a world whose filesystem is [s] damaged by [d] at the site; no injected fault *)
  Definition DamagedBy (s : fs) (sf : N -> bool) (i : N) (recs1 : list (N * bytes)) (v : N)
             (p : bytes) (recs2 : list (N * bytes)) (d : damage) (w : world) : Prop :=
    damage_ok v p d /\
    Damaged s (wfs w) i (damaged_data recs1 v p (render recs2 ++ tailb (sf i)) d) (damage_cut d) /\
    wfault w = None.

  Lemma Setting_site : forall m s sg ids rf sf km_c ops i recs1 v p recs2,
    Setting m s sg ids rf sf km_c ops i recs1 v p recs2 ->
    Site (lpv (idx m)) (nextv (mwal m)) (seg_of (nextv (mwal m) - 1)) (mpre m) s sg
         ids rf sf km_c ops i recs1 v p recs2 /\
    v = lpv (idx m) + 1 + N.of_nat (n_before (lpv (idx m)) ids rf i recs1) /\
    (n_before (lpv (idx m)) ids rf i recs1 < length ops)%nat.
  Proof.
    intros m s sg ids rf sf km_c ops i recs1 v p recs2 ((_ & _ & Wf) & Dw & Ii & Erf & Lv).
    assert (St : Site (lpv (idx m)) (nextv (mwal m)) (seg_of (nextv (mwal m) - 1)) (mpre m) s sg
                      ids rf sf km_c ops i recs1 v p recs2) by (now constructor).
    split; [exact St|].
    destruct (site_facts _ _ _ _ _ _ _ _ _ _ _ _ _ _ _ _ St)
      as (_ & _ & _ & _ & _ & _ & _ & _ & _ & _ & _ & _ & _ & _ & _ & Hv).
    exact (Hv Lv).
  Qed.

  (* the concrete damage of theories-level filesystems satisfies the relation *)
  Lemma damage_fs_DamagedBy : forall m s sg sf i recs1 v p recs2 d w,
    Inv m s sg -> damage_ok v p d ->
    wfs w = damage_fs s i (damaged_data recs1 v p (render recs2 ++ tailb (sf i)) d) (damage_cut d) ->
    wfault w = None ->
    DamagedBy s sf i recs1 v p recs2 d w.
  Proof.
    intros m s sg sf i recs1 v p recs2 d w (L & _ & Wf) Dk Ws F.
    destruct (lv_dirs _ _ _ _ _ L) as (Hs & Hc & _).
    split; [exact Dk|]. split; [|exact F]. rewrite Ws. now apply damage_fs_Damaged.
  Qed.

  (* truncation inside the header part: the reader sees the end of the log.  Recovery yields
     exactly the state after the undamaged prefix o_1 .. o_j (the next version is v again);
     Cas::open returns it, or fails with EIntegrity when the integrity gate is on and the
     prefix state references a blob that a later (now lost) operation had deleted *)
  Theorem C10_truncation_header : forall m s sg ids rf sf km_c ops i recs1 v p recs2 n w,
    Setting m s sg ids rf sf km_c ops i recs1 v p recs2 ->
    DamagedBy s sf i recs1 v p recs2 (DTrunc n) w -> (n < 44)%nat ->
    let j := n_before (lpv (idx m)) ids rf i recs1 in
    v = lpv (idx m) + 1 + N.of_nat j /\ (j < length ops)%nat /\
    exists m' os w',
      open_with_recover H cfg w = (Ok (m', os), w') /\ wfault w' = None /\
      km (idx m') = fold_left kstep (firstn j ops) km_c /\ IdxInv cmp (idx m') /\
      nextv (mwal m') = v /\
      (open_store H cfg w = (Ok (m', os), w') \/
       exists w'', open_store H cfg w = (Err EIntegrity, w'')) /\
      (c_failint cfg = false \/ c_scan cfg = false -> open_store H cfg w = (Ok (m', os), w')).
  Proof.
    intros m s sg ids rf sf km_c ops i recs1 v p recs2 n w Se (Dk & Dm & F) Ln j.
    destruct (Setting_site _ _ _ _ _ _ _ _ _ _ _ _ _ Se) as (St & Ev & Lj). fold j in Ev, Lj.
    split; [exact Ev|]. split; [exact Lj|].
    destruct (open_damaged _ _ _ _ _ _ _ _ _ _ _ _ _ _ _ _ _ _ w St Dk Dm eq_refl F) as (_ & _ & Out).
    cbn [damage_reads] in Out. replace (n <? 44)%nat with true in Out by (symmetry; now apply Nat.ltb_lt).
    destruct Out as (m' & os & w' & E & F' & K & Iv & Nv & _ & _ & O1 & O2). fold j in K, Nv.
    exists m', os, w'. rewrite Ev. now repeat (split; [assumption|]).
  Qed.

  (* the same with an abstract map: whenever sg_j represents the prefix state *)
  Corollary C10_truncation_header_abstract :
    forall m s sg ids rf sf km_c ops i recs1 v p recs2 n w sg_j,
    Setting m s sg ids rf sf km_c ops i recs1 v p recs2 ->
    DamagedBy s sf i recs1 v p recs2 (DTrunc n) w -> (n < 44)%nat ->
    km_of sg_j = fold_left kstep (firstn (n_before (lpv (idx m)) ids rf i recs1) ops) km_c ->
    exists m' os w',
      open_with_recover H cfg w = (Ok (m', os), w') /\
      km (idx m') = km_of sg_j /\ IdxInv cmp (idx m') /\
      (open_store H cfg w = (Ok (m', os), w') \/
       exists w'', open_store H cfg w = (Err EIntegrity, w'')).
  Proof.
    intros m s sg ids rf sf km_c ops i recs1 v p recs2 n w sg_j Se Db Ln Ek.
    destruct (C10_truncation_header _ _ _ _ _ _ _ _ _ _ _ _ _ _ _ Se Db Ln)
      as (_ & _ & m' & os & w' & E & _ & K & Iv & _ & O1 & _).
    exists m', os, w'. rewrite Ek. split; [exact E|]. split; [exact K|]. split; [exact Iv|exact O1].
  Qed.

  (* truncation inside the payload *)
  Theorem C10_truncation_payload : forall m s sg ids rf sf km_c ops i recs1 v p recs2 n w,
    Setting m s sg ids rf sf km_c ops i recs1 v p recs2 ->
    DamagedBy s sf i recs1 v p recs2 (DTrunc n) w -> (44 <= n)%nat ->
    exists w', open_with_recover H cfg w = (Err (EReplay RShortPayload), w') /\
               open_store H cfg w = (Err (EReplay RShortPayload), w').
  Proof.
    intros m s sg ids rf sf km_c ops i recs1 v p recs2 n w Se (Dk & Dm & F) Ln.
    destruct (Setting_site _ _ _ _ _ _ _ _ _ _ _ _ _ Se) as (St & _).
    destruct (open_damaged _ _ _ _ _ _ _ _ _ _ _ _ _ _ _ _ _ _ w St Dk Dm eq_refl F) as (_ & _ & Out).
    cbn [damage_reads] in Out.
    replace (n <? 44)%nat with false in Out by (symmetry; now apply Nat.ltb_ge).
    exact Out.
  Qed.

  (* a changed payload (same length, no collision with the original) *)
  Theorem C10_bad_payload : forall m s sg ids rf sf km_c ops i recs1 v p recs2 p' w,
    Setting m s sg ids rf sf km_c ops i recs1 v p recs2 ->
    DamagedBy s sf i recs1 v p recs2 (DPayload p') w ->
    exists w', open_with_recover H cfg w = (Err (EReplay RChecksum), w') /\
               open_store H cfg w = (Err (EReplay RChecksum), w').
  Proof.
    intros m s sg ids rf sf km_c ops i recs1 v p recs2 p' w Se (Dk & Dm & F).
    destruct (Setting_site _ _ _ _ _ _ _ _ _ _ _ _ _ Se) as (St & _).
    destruct (open_damaged _ _ _ _ _ _ _ _ _ _ _ _ _ _ _ _ _ _ w St Dk Dm eq_refl F) as (_ & _ & Out).
    exact Out.
  Qed.

  (* a changed checksum *)
  Theorem C10_bad_checksum : forall m s sg ids rf sf km_c ops i recs1 v p recs2 c' w,
    Setting m s sg ids rf sf km_c ops i recs1 v p recs2 ->
    DamagedBy s sf i recs1 v p recs2 (DChecksum c') w ->
    exists w', open_with_recover H cfg w = (Err (EReplay RChecksum), w') /\
               open_store H cfg w = (Err (EReplay RChecksum), w').
  Proof.
    intros m s sg ids rf sf km_c ops i recs1 v p recs2 c' w Se (Dk & Dm & F).
    destruct (Setting_site _ _ _ _ _ _ _ _ _ _ _ _ _ Se) as (St & _).
    destruct (open_damaged _ _ _ _ _ _ _ _ _ _ _ _ _ _ _ _ _ _ w St Dk Dm eq_refl F) as (_ & _ & Out).
    exact Out.
  Qed.

  (* the summary: an error (a replay error, or the integrity gate), or exactly the state after
     the longest undamaged prefix, with a consistent index *)
  Theorem C10_damage : forall m s sg ids rf sf km_c ops i recs1 v p recs2 d w,
    Setting m s sg ids rf sf km_c ops i recs1 v p recs2 ->
    DamagedBy s sf i recs1 v p recs2 d w ->
    let j := n_before (lpv (idx m)) ids rf i recs1 in
    (exists e w', open_store H cfg w = (Err e, w') /\
                  (e = EIntegrity \/ e = EReplay RShortPayload \/ e = EReplay RChecksum)) \/
    (exists m' os w', open_store H cfg w = (Ok (m', os), w') /\
       km (idx m') = fold_left kstep (firstn j ops) km_c /\ IdxInv cmp (idx m') /\
       nextv (mwal m') = v /\ (j < length ops)%nat).
  Proof.
    intros m s sg ids rf sf km_c ops i recs1 v p recs2 d w Se Db j.
    destruct d as [n|p'|c'].
    - destruct (Nat.lt_ge_cases n 44) as [Ln|Ln].
      + destruct (C10_truncation_header _ _ _ _ _ _ _ _ _ _ _ _ _ _ _ Se Db Ln)
          as (_ & Lj & m' & os & w' & _ & _ & K & Iv & Nv & [O|(w'' & O)] & _).
        * right. exists m', os, w'. split; [exact O|]. split; [exact K|]. split; [exact Iv|]. split; [exact Nv|exact Lj].
        * left. exists EIntegrity, w''. split; [exact O|now left].
      + destruct (C10_truncation_payload _ _ _ _ _ _ _ _ _ _ _ _ _ _ _ Se Db Ln) as (w' & _ & O).
        left. exists (EReplay RShortPayload), w'. split; [exact O|]. right. now left.
    - destruct (C10_bad_payload _ _ _ _ _ _ _ _ _ _ _ _ _ _ _ Se Db) as (w' & _ & O).
      left. exists (EReplay RChecksum), w'. split; [exact O|]. right. now right.
    - destruct (C10_bad_checksum _ _ _ _ _ _ _ _ _ _ _ _ _ _ _ Se Db) as (w' & _ & O).
      left. exists (EReplay RChecksum), w'. split; [exact O|]. right. now right.
  Qed.

  (* never a panic: the decoded prefix operations keep the index invariant, apply_op never
     errs on them *)
  Theorem C10_no_panic : forall m s sg ids rf sf km_c ops i recs1 v p recs2 d w,
    Setting m s sg ids rf sf km_c ops i recs1 v p recs2 ->
    DamagedBy s sf i recs1 v p recs2 d w ->
    fst (open_store H cfg w) <> Err EPanic /\ fst (open_with_recover H cfg w) <> Err EPanic.
  Proof.
    intros m s sg ids rf sf km_c ops i recs1 v p recs2 d w Se Db. pose proof Db as (Dk & Dm & F).
    destruct (Setting_site _ _ _ _ _ _ _ _ _ _ _ _ _ Se) as (St & _).
    destruct (open_damaged _ _ _ _ _ _ _ _ _ _ _ _ _ _ _ _ _ _ w St Dk Dm eq_refl F) as (_ & _ & Out).
    destruct (damage_reads d) as [x|].
    - destruct Out as (w' & E1 & E2). rewrite E1, E2. cbn [fst]. split; discriminate.
    - destruct Out as (m' & os & w' & E1 & _ & _ & _ & _ & _ & _ & [E2|(w'' & E2)] & _);
        rewrite E1, E2; cbn [fst]; split; discriminate.
  Qed.

  (* no partial or altered operation is ever applied: whatever the outcome, the operations the
     replay applies are o_1 .. o_j, in order, from the start *)
  Theorem C10_applied_prefix : forall m s sg ids rf sf km_c ops i recs1 v p recs2 d w,
    Setting m s sg ids rf sf km_c ops i recs1 v p recs2 ->
    DamagedBy s sf i recs1 v p recs2 d w ->
    applied_on_open (wfs w) = firstn (n_before (lpv (idx m)) ids rf i recs1) ops.
  Proof.
    intros m s sg ids rf sf km_c ops i recs1 v p recs2 d w Se (Dk & Dm & F).
    destruct (Setting_site _ _ _ _ _ _ _ _ _ _ _ _ _ Se) as (St & _).
    destruct (open_damaged _ _ _ _ _ _ _ _ _ _ _ _ _ _ _ _ _ _ w St Dk Dm eq_refl F) as (Ap & _).
    exact Ap.
  Qed.

  (* ... and when the open succeeds, the key map of the new handle is the result of applying
     exactly these operations to the state loaded from the snapshot *)
  Theorem C10_never_alters : forall m s sg ids rf sf km_c ops i recs1 v p recs2 d w m' os w',
    Setting m s sg ids rf sf km_c ops i recs1 v p recs2 ->
    DamagedBy s sf i recs1 v p recs2 d w ->
    open_store H cfg w = (Ok (m', os), w') ->
    let j := n_before (lpv (idx m)) ids rf i recs1 in
    applied_on_open (wfs w) = firstn j ops /\ (j < length ops)%nat /\
    exists st0 st1, loaded_of (wfs w) = Ok st0 /\ km st0 = km_c /\
                    apply_all st0 (applied_on_open (wfs w)) = Ok st1 /\ km (idx m') = km st1.
  Proof.
    intros m s sg ids rf sf km_c ops i recs1 v p recs2 d w m' os w' Se (Dk & Dm & F) Eo j.
    destruct (Setting_site _ _ _ _ _ _ _ _ _ _ _ _ _ Se) as (St & _ & Lj). fold j in Lj.
    destruct (open_damaged _ _ _ _ _ _ _ _ _ _ _ _ _ _ _ _ _ _ w St Dk Dm eq_refl F)
      as (Ap & (st0 & st1 & El & K0 & Al & K1) & Out). fold j in Ap, Al, K1, Out.
    split; [exact Ap|]. split; [exact Lj|]. exists st0, st1. rewrite Ap.
    do 3 (split; [assumption|]).
    destruct (damage_reads d) as [x|].
    - destruct Out as (w1 & _ & E2). rewrite E2 in Eo. discriminate.
    - destruct Out as (m1 & os1 & w1 & _ & _ & K & _ & _ & _ & _ & [E2|(w'' & E2)] & _);
        rewrite E2 in Eo; [|discriminate].
      inversion Eo; subst. now rewrite K, K1.
  Qed.
  (* the setting is not vacuous: every store at rest with at least one record above the
     snapshot version has a damage site (e.g. the first such record) *)
  Lemma site_exists : forall m s sg, Inv m s sg -> lpv (idx m) + 1 < nextv (mwal m) ->
    exists ids rf sf km_c ops i recs1 v p recs2,
      Setting m s sg ids rf sf km_c ops i recs1 v p recs2.
  Proof.
    intros m s sg IV Lt. destruct (Inv_witnesses m s sg IV) as (ids & rf & sf & km_c & ops & Dw).
    destruct (uncheckpointed_in_last_segments _ _ _ _ _ _ _ _ _ _ _ Dw) as (_ & _ & _ & U4).
    destruct (U4 (lpv (idx m) + 1)) as (Ii & _ & p & Ip); [lia|exact Lt|].
    destruct (in_split _ _ Ip) as (l1 & l2 & E).
    exists ids, rf, sf, km_c, ops, (seg_of (lpv (idx m) + 1)), l1, (lpv (idx m) + 1), p, l2.
    split; [exact IV|]. split; [exact Dw|]. split; [exact Ii|]. split; [exact E|lia].
  Qed.
End Damage.

(* ------------------------------------------------------------------ *)
(* G7. computed examples                                               *)
(* ------------------------------------------------------------------ *)
(* the world whose filesystem is [s] with record number k (0-based) of segment file i damaged
   by d; [recs] are the records of that file, [tail] what follows them (sentinel or nothing) *)
Definition damage_world (Hx : bytes -> bytes) (s : fs) (i : N) (recs : list (N * bytes))
           (tail : bytes) (k : nat) (d : damage) : world :=
  match skipn k recs with
  | (v, p) :: recs2 =>
    init_world (damage_fs s i (damaged_data Hx (firstn k recs) v p (render Hx recs2 ++ tail) d)
                          (damage_cut d)) None
  | [] => init_world s None
  end.

Definition opened_km (r : res serr (mem * option ostats)) : res serr (smap item) :=
  match r with Ok (m, _) => Ok (km (idx m)) | Err e => Err e end.

(* --- a three-operation history, 10 operations per segment: no snapshot, all three records in
   segment 0 (c = 0, versions 1, 2, 3) --- *)
Definition dmg_cfg : config := mkConfig KBytes 10 true false false false false.
(* the same directory opened with the orphan scan and the integrity gate switched on *)
Definition dmg_cfg_gate : config := mkConfig KBytes 10 true false true false true.
Definition dmg_ops : list op :=
  [OpPut toy_k1 [toy_c1]; OpPut toy_k2 [toy_c1; toy_c2]; OpRemove toy_k1].
Definition dmg_fs (Hx : bytes -> bytes) : fs :=
  wfs (snd (run_hist Hx empty_fs None (OpOpen dmg_cfg false :: dmg_ops ++ [OpClose]))).
Definition dmg_raw (Hx : bytes -> bytes) : list rawop :=
  [RPut toy_k1 (Hx toy_c1) 3; RPut toy_k2 (Hx (toy_c1 ++ toy_c2)) 5; RRemove [toy_k1]].
Definition dmg_at (Hx : bytes -> bytes) (k : nat) (d : damage) : world :=
  damage_world Hx (dmg_fs Hx) 0 (enc_from 1 (dmg_raw Hx)) [] k d.

(* the log on disk is the rendering of the three records; there is no snapshot *)
Example dmg_log_shape :
  fdat (dmg_fs toyH) (PWal 0) = Some (render toyH (enc_from 1 (dmg_raw toyH))) /\
  fdat (dmg_fs toyH) PIndex = None /\ wal_ids (dmg_fs toyH) = [0].
Proof. vm_compute. repeat split. Qed.

(* undamaged: all three operations are applied *)
Example dmg_none :
  opened_km (fst (open_store toyH dmg_cfg (init_world (dmg_fs toyH) None)))
  = Ok [(toy_k2, mkItem (toyH (toy_c1 ++ toy_c2)) 5)] /\
  applied_on_open toyH dmg_cfg (dmg_fs toyH) = dmg_raw toyH.
Proof. vm_compute. split; reflexivity. Qed.

(* truncation 10 bytes into the header of the third record: the state after o1, o2 *)
Example dmg_trunc_header_3 :
  opened_km (fst (open_store toyH dmg_cfg (dmg_at toyH 2 (DTrunc 10))))
  = Ok [(toy_k1, mkItem (toyH toy_c1) 3); (toy_k2, mkItem (toyH (toy_c1 ++ toy_c2)) 5)] /\
  applied_on_open toyH dmg_cfg (wfs (dmg_at toyH 2 (DTrunc 10))) = firstn 2 (dmg_raw toyH).
Proof. vm_compute. split; reflexivity. Qed.

(* ... with the integrity gate: the prefix state references the blob of toy_c1, which the lost
   third operation had deleted *)
Example dmg_trunc_header_3_gate :
  opened_km (fst (open_store toyH dmg_cfg_gate (dmg_at toyH 2 (DTrunc 10)))) = Err EIntegrity /\
  opened_km (fst (open_with_recover toyH dmg_cfg_gate (dmg_at toyH 2 (DTrunc 10))))
  = Ok [(toy_k1, mkItem (toyH toy_c1) 3); (toy_k2, mkItem (toyH (toy_c1 ++ toy_c2)) 5)].
Proof. vm_compute. split; reflexivity. Qed.

(* truncation at the last header byte of the second record (the third is lost with it): the
   state after o1 *)
Example dmg_trunc_header_2 :
  opened_km (fst (open_store toyH dmg_cfg (dmg_at toyH 1 (DTrunc 43))))
  = Ok [(toy_k1, mkItem (toyH toy_c1) 3)] /\
  applied_on_open toyH dmg_cfg (wfs (dmg_at toyH 1 (DTrunc 43))) = firstn 1 (dmg_raw toyH).
Proof. vm_compute. split; reflexivity. Qed.

(* truncation inside the payload of the second record *)
Example dmg_trunc_payload_2 :
  fst (open_store toyH dmg_cfg (dmg_at toyH 1 (DTrunc 50))) = Err (EReplay RShortPayload) /\
  applied_on_open toyH dmg_cfg (wfs (dmg_at toyH 1 (DTrunc 50))) = firstn 1 (dmg_raw toyH).
Proof. vm_compute. split; reflexivity. Qed.

(* a changed checksum in the second record *)
Example dmg_bad_checksum_2 :
  fst (open_store toyH dmg_cfg (dmg_at toyH 1 (DChecksum (repeat 7 32)))) = Err (EReplay RChecksum) /\
  applied_on_open toyH dmg_cfg (wfs (dmg_at toyH 1 (DChecksum (repeat 7 32)))) = firstn 1 (dmg_raw toyH).
Proof. vm_compute. split; reflexivity. Qed.

(* a changed payload: the size field of the second operation 5 -> 6.  toyH depends only on the
   length of its input, so for toyH this damage is a collision -- excluded by [damage_ok] -- and
   the altered operation IS applied: the no-collision hypothesis cannot be dropped. *)
Definition dmg_p2' (Hx : bytes -> bytes) : bytes := enc_op (RPut toy_k2 (Hx (toy_c1 ++ toy_c2)) 6).
Example dmg_payload_collision_toyH :
  opened_km (fst (open_store toyH dmg_cfg (dmg_at toyH 1 (DPayload (dmg_p2' toyH)))))
  = Ok [(toy_k2, mkItem (toyH (toy_c1 ++ toy_c2)) 6)].
Proof. vm_compute. reflexivity. Qed.

(* with a hash that looks at the content the same damage is detected *)
Definition sumH (b : bytes) : bytes :=
  repeat ((fold_right N.add 0 b + N.of_nat (length b)) mod 256) 32.
Example dmg_bad_payload_2 :
  sumH (dmg_p2' sumH) <> sumH (enc_op (RPut toy_k2 (sumH (toy_c1 ++ toy_c2)) 5)) /\
  fst (open_store sumH dmg_cfg (dmg_at sumH 1 (DPayload (dmg_p2' sumH)))) = Err (EReplay RChecksum) /\
  applied_on_open sumH dmg_cfg (wfs (dmg_at sumH 1 (DPayload (dmg_p2' sumH)))) = firstn 1 (dmg_raw sumH).
Proof. vm_compute. split; [discriminate|split; reflexivity]. Qed.

(* --- two operations per segment, four operations: the third rolls over and checkpoints (c = 3,
   segment 0 pruned); segment 1 holds versions 3 (below the snapshot) and 4 --- *)
Definition dmg2_ops : list op :=
  [OpPut toy_k1 [toy_c1]; OpPut toy_k2 [toy_c1; toy_c2]; OpRemove toy_k1; OpPut toy_k1 [toy_c2]].
Definition dmg2_fs : fs :=
  wfs (snd (run_hist toyH empty_fs None (OpOpen toy_cfg false :: dmg2_ops ++ [OpClose]))).
Definition dmg2_recs : list (N * bytes) :=
  [(3, enc_op (RRemove [toy_k1])); (4, enc_op (RPut toy_k1 (toyH toy_c2) 2))].

Example dmg2_log_shape :
  fdat dmg2_fs (PWal 1) = Some (render toyH dmg2_recs) /\ wal_ids dmg2_fs = [1] /\
  fdat dmg2_fs PIndex = Some (enc_snapshot 3 [(toy_k2, mkItem (toyH (toy_c1 ++ toy_c2)) 5)]).
Proof. vm_compute. repeat split. Qed.

(* truncation in the header of record 4: the snapshot state (j = 0); the record of version 3 is
   read but not applied *)
Example dmg2_trunc_header :
  opened_km (fst (open_store toyH toy_cfg (damage_world toyH dmg2_fs 1 dmg2_recs [] 1 (DTrunc 5))))
  = Ok [(toy_k2, mkItem (toyH (toy_c1 ++ toy_c2)) 5)] /\
  applied_on_open toyH toy_cfg (wfs (damage_world toyH dmg2_fs 1 dmg2_recs [] 1 (DTrunc 5))) = [].
Proof. vm_compute. split; reflexivity. Qed.

Example dmg2_bad_checksum :
  fst (open_store toyH toy_cfg (damage_world toyH dmg2_fs 1 dmg2_recs [] 1 (DChecksum (repeat 9 32))))
  = Err (EReplay RChecksum).
Proof. vm_compute. reflexivity. Qed.

(* --- the hypotheses of the theorems are satisfiable: the general theorems apply to the
   three-operation instance --- *)
Lemma dmg_nocollide : NoCollide toyH (hist_contents dmg_ops).
Proof.
  intros a b Ia Ib E. cbn in Ia, Ib.
  destruct Ia as [<-|[<-|[]]]; destruct Ib as [<-|[<-|[]]]; try reflexivity;
    vm_compute in E; discriminate.
Qed.

Example dmg_theorem_instance :
  exists hd w0 sg ids rf sf km_c ops i recs1 v p recs2,
    run_ops toyH None (OpOpen dmg_cfg false :: dmg_ops) (init_world empty_fs None)
      = ((OutOpened None :: spec_outs toyH dmg_cfg [] dmg_ops, Some hd), w0) /\
    Setting toyH dmg_cfg (h_mem hd) (wfs w0) sg ids rf sf km_c ops i recs1 v p recs2 /\
    forall d w, DamagedBy toyH (wfs w0) sf i recs1 v p recs2 d w ->
      fst (open_store toyH dmg_cfg w) <> Err EPanic /\
      applied_on_open toyH dmg_cfg (wfs w)
      = firstn (n_before (lpv (idx (h_mem hd))) ids rf i recs1) ops.
Proof.
  destruct (C02_restart_transparent toyH toyH_len toyH_byte dmg_cfg eq_refl dmg_ops eq_refl)
    as (os0 & outs & hd & w0 & E & _ & St & _ & _ & IV).
  - reflexivity.
  - repeat (first [apply hr_api; [exact I|] | apply hr_nil]).
  - exact dmg_nocollide.
  - vm_compute. repeat split.
  - reflexivity.
  - assert (Eh : fst (run_ops toyH None (OpOpen dmg_cfg false :: dmg_ops) (init_world empty_fs None))
                 = (OutOpened os0 :: outs, Some hd)) by (now rewrite E).
    vm_compute in Eh. inversion Eh as [[Eo Eouts Ehd]].
    assert (Lt : lpv (idx (h_mem hd)) + 1 < nextv (mwal (h_mem hd))).
    { rewrite <- Ehd. vm_compute. reflexivity. }
    destruct (site_exists toyH toyH_len toyH_byte dmg_cfg eq_refl _ _ _ IV Lt)
      as (ids & rf & sf & km_c & ops & i & recs1 & v & p & recs2 & Se).
    eexists hd, w0, _, ids, rf, sf, km_c, ops, i, recs1, v, p, recs2.
    split; [|split; [exact Se|]].
    + rewrite E. f_equal. f_equal. f_equal; [now rewrite <- Eo|].
      rewrite <- Eouts. vm_compute. reflexivity.
    + intros d w Db. split.
      * exact (proj1 (C10_no_panic toyH toyH_len toyH_byte dmg_cfg eq_refl _ _ _ _ _ _ _ _ _ _ _ _ _ _ _ Se Db)).
      * exact (C10_applied_prefix toyH toyH_len toyH_byte dmg_cfg eq_refl _ _ _ _ _ _ _ _ _ _ _ _ _ _ _ Se Db).
Qed.

Print Assumptions uncheckpointed_in_last_segments.
Print Assumptions uncheckpointed_in_last_segments_store.
Print Assumptions rs_log_snd.
Print Assumptions rs_log_faithful.
Print Assumptions damage_fs_DamagedBy.
Print Assumptions open_damaged.
Print Assumptions C10_truncation_header.
Print Assumptions C10_truncation_header_abstract.
Print Assumptions C10_truncation_payload.
Print Assumptions C10_bad_payload.
Print Assumptions C10_bad_checksum.
Print Assumptions C10_damage.
Print Assumptions C10_no_panic.
Print Assumptions C10_applied_prefix.
Print Assumptions C10_never_alters.
Print Assumptions site_exists.
Print Assumptions index_load_applied.
Print Assumptions dmg_trunc_header_3.
Print Assumptions dmg_theorem_instance.
