(* PreCreate.v -- C19, first-time initialisation with pre_create_cas_dirs = true: the 65,536
   fan-out directories cas/<hh>/<hh> are created before the settings file is written, the
   choice is remembered in the handle (mpre), and it is not observable through the data API.

   NOTE ON StoreInv.dirs_ok.  The third clause of [dirs_ok] is
       mpre m = true -> forall h, length h = 32 -> Forall (< 256) h -> parent_ok s (cas_path h) = true,
   i.e. it speaks about well-formed hashes only (all bytes < 256) -- which is all [put] ever
   needs, since it applies the clause to [H content] only (H_byte).  (An earlier version of the
   clause quantified over ALL 32-element lists of [N], also those with "bytes" >= 256; that
   demanded infinitely many directories and made [Live0]/[Inv] unsatisfiable for mpre m = true.)
   With the restricted clause [Live0]/[Inv] ARE satisfiable for handles that remember pre-created
   directories: [open_fresh_disk_pre_Inv] (first open with pre_create_cas_dirs = true gives Inv),
   [pre_dirs_after_fresh_open] (the crash invariants RestP / Rest hold there, with pre = true).
     - PreDirs s  := cas/<hex2 i> and cas/<hex2 i>/<hex2 j> exist for all i, j < 256
                     (what pre_create_all establishes and what the stored flag promises);
       WfDirs s   := forall h, length h = 32 -> Forall (< 256) h -> parent_ok s (cas_path h) = true
                     (dirs_ok's third clause; PreDirs -> WfDirs; WfDirs gives the second-level
                     directories only, so PreDirs is slightly stronger);
     - LiveP m s sg := Live0 (unpre m) s sg /\ (mpre m = true -> PreDirs s), where [unpre m] is m
       with the flag cleared; LiveP m -> Live0 m ([LiveP_Live0]); for mpre m = false,
       LiveP m <-> Live0 m; Live0 m -> LiveP m given mpre m = true -> PreDirs s ([Live0_LiveP]:
       Live0 alone does not say that the FIRST-level directories cas/<hh> exist, which the
       simulation below needs);
     - a simulation ([run_sim]): on a filesystem with PreDirs, every API call on a handle m
       behaves exactly like the same call on [unpre m] (same output, same world, memories equal
       up to the flag: with the flag no mkdir is issued, without it mkdir_cas2 finds both
       directories and issues no call either), so that C01 / C06 / C07 transfer from Live0 to
       LiveP ([C01_full_P]); the flag never changes ([run_mpre]);
     - InvP m s sg := LiveP m s sg /\ DiskOk m s sg /\ FsWf s, established by the first open
       ([open_fresh_disk_pre_InvP]) and re-established by close + open ([restart_ok_P]);
       InvP -> Inv ([InvP_Inv]), and Inv <-> InvP given mpre m = true -> PreDirs s ([Inv_InvP_iff]).
   The part that does not need the store invariants (PreDirs, WfDirs, mkdirs_pre_ok,
   pre_create_all_ok, ...) lives in PreTree.v, re-exported here; the history theorems C01 / C02
   for both values of c_pre are in PreCreateHist.v; a first open killed in the middle of the
   mkdir loop is covered by CrashInv.RestF / CrashOpen.a_open (first_open_crash). *)
From Cas Require Import History.
From CasProofs Require Import BaseProofs CodecBase CodecProofs SMapProofs IndexProofs RangeProofs
  StoreFS StoreInv StoreWrite StoreRead StoreHist WorldRel DiskInv Recover SettingsGate CrashInv.
From CasProofs Require Export PreTree.
From Coq Require Import ZifyBool ZifyNat ZifyN.
Open Scope N_scope.

Local Opaque all256.

(* P0 - P2 (hex2_covers, PreDirs, WfDirs, mkdirs_pre_ok, pre_create_all_ok, ...): PreTree.v *)

(* ------------------------------------------------------------------ *)
(* P3. every API call preserves a predicate that every call preserves  *)
(* ------------------------------------------------------------------ *)
Lemma pres_elim : forall (P : fs -> Prop) {A} (c : M A) w a w',
  Pres P c -> c w = (a, w') -> P (wfs w) -> P (wfs w').
Proof. intros P A c w a w' Pc E X. specialize (Pc w X). now rewrite E in Pc. Qed.

Section PresAll.
  Variable H : bytes -> bytes.
  Variable cfg : config.
  Variable P : fs -> Prop.
  Hypothesis K : forall c, call_keeps P c.
  Local Ltac leaf := apply K.

  Lemma pa_mkdir_cas2 : forall a b, Pres P (mkdir_cas2 a b).
  Proof. intros. apply pres_mkdir_cas2. intros d. apply K. Qed.
  Hint Resolve pa_mkdir_cas2 : pres.
  Lemma pa_atomic_write : forall t tmp data, Pres P (atomic_write t tmp data).
  Proof. intros. apply pres_atomic_write; intros; apply K. Qed.
  Hint Resolve pa_atomic_write : pres.
  Lemma pa_bw_flush : forall p buf, Pres P (bw_flush p buf).
  Proof. intros. unfold bw_flush. pres leaf. Qed.
  Hint Resolve pa_bw_flush : pres.
  Lemma pa_bw_write_all : forall p buf data, Pres P (bw_write_all p buf data).
  Proof. intros. unfold bw_write_all. pres leaf. Qed.
  Hint Resolve pa_bw_write_all : pres.
  Lemma pa_writer_close : forall seg buf, Pres P (writer_close seg buf).
  Proof. intros. unfold writer_close. pres leaf. Qed.
  Hint Resolve pa_writer_close : pres.
  Lemma pa_writer_seal : forall seg buf, Pres P (writer_seal seg buf).
  Proof. intros. unfold writer_seal. pres leaf. Qed.
  Hint Resolve pa_writer_seal : pres.
  Lemma pa_write_entry : forall seg buf ver payload, Pres P (write_entry H seg buf ver payload).
  Proof. intros. unfold write_entry. pres leaf. Qed.
  Hint Resolve pa_write_entry : pres.
  Lemma pa_append_op : forall wl payload, Pres P (append_op H cfg wl payload).
  Proof. intros. unfold append_op. pres leaf. Qed.
  Hint Resolve pa_append_op : pres.
  Lemma pa_unlink_all : forall ps, Pres P (unlink_all ps).
  Proof. induction ps as [|p ps IH]; cbn [unlink_all]; pres leaf. Qed.
  Hint Resolve pa_unlink_all : pres.
  Lemma pa_prune_below : forall bound, Pres P (prune_below bound).
  Proof. intros. unfold prune_below. pres leaf. Qed.
  Hint Resolve pa_prune_below : pres.
  Lemma pa_checkpoint_inner : forall reason m, Pres P (checkpoint_inner cfg reason m).
  Proof. intros. unfold checkpoint_inner. pres leaf. Qed.
  Hint Resolve pa_checkpoint_inner : pres.
  Lemma pa_delete_blobs : forall hs, Pres P (delete_blobs hs).
  Proof. induction hs as [|h hs IH]; cbn [delete_blobs]; pres leaf. Qed.
  Hint Resolve pa_delete_blobs : pres.
  Lemma pa_log_and_apply : forall m o, Pres P (log_and_apply H cfg m o).
  Proof. intros. unfold log_and_apply. pres leaf. Qed.
  Hint Resolve pa_log_and_apply : pres.
  Lemma pa_new_staging : Pres P new_staging.
  Proof. unfold new_staging. pres leaf. Qed.
  Hint Resolve pa_new_staging : pres.
  Lemma pa_drop_staging : forall p, Pres P (drop_staging p).
  Proof. intros. unfold drop_staging. pres leaf. Qed.
  Hint Resolve pa_drop_staging : pres.
  Lemma pa_put : forall m k chunks, Pres P (put H cfg m k chunks).
  Proof. intros. unfold put. pres leaf. Qed.
  Lemma pa_abort : forall m k chunks, Pres P (abort m k chunks).
  Proof. intros. unfold abort. pres leaf. Qed.
  Lemma pa_remove : forall m k, Pres P (remove H cfg m k).
  Proof. intros. unfold remove. pres leaf. Qed.
  Lemma pa_remove_range : forall m lo hi, Pres P (remove_range H cfg m lo hi).
  Proof. intros. unfold remove_range. pres leaf. Qed.
  Lemma pa_checkpoint : forall m, Pres P (checkpoint cfg m).
  Proof. intros. unfold checkpoint. pres leaf. Qed.
End PresAll.

(* ------------------------------------------------------------------ *)
(* P4. simulation: a handle and the same handle with the flag cleared  *)
(* ------------------------------------------------------------------ *)
Definition unpre (m : mem) : mem := mkMem (idx m) (mwal m) false.

Lemma unpre_nopre : forall m, mpre m = false -> unpre m = m.
Proof. intros [i wl p] E. cbn in E. subst p. reflexivity. Qed.

(* a : the run from [unpre m], b : the run from m (flag p) *)
Definition SimR {A} (p : bool) (a b : (A * mem) * world) : Prop :=
  fst (fst a) = fst (fst b) /\ snd (fst a) = unpre (snd (fst b)) /\ snd a = snd b /\
  mpre (snd (fst b)) = p.

Lemma SimR_elim : forall {A} p (a : (A * mem) * world) x m' w',
  SimR p a ((x, m'), w') -> a = ((x, unpre m'), w') /\ mpre m' = p.
Proof.
  intros A p [[x0 m0] w0] x m' w'. unfold SimR. cbn [fst snd]. intros (-> & -> & -> & E).
  now split.
Qed.

Ltac sim_leaf := unfold SimR, ret; cbn [fst snd unpre idx mwal mpre]; auto.

Section Sim.
  Variable H : bytes -> bytes.
  Hypothesis H_len : forall b, length (H b) = 32%nat.
  Hypothesis H_byte : forall b, Forall (fun x => x < 256) (H b).
  Variable cfg : config.

  Lemma checkpoint_inner_sim : forall reason m w,
    SimR (mpre m) (checkpoint_inner cfg reason (unpre m) w) (checkpoint_inner cfg reason m w).
  Proof.
    intros reason m w. unfold checkpoint_inner. cbn [unpre idx mwal mpre].
    destruct (negb _ || _); [sim_leaf|]. unfold bind.
    destruct (atomic_write _ _ _ w) as [[u|e] w1]; [|sim_leaf].
    match goal with |- context [(if ?c then ret tt else ?x) w1] =>
      destruct ((if c then ret tt else x) w1) as [u' w2] end.
    sim_leaf.
  Qed.

  Lemma log_and_apply_sim : forall m o w,
    SimR (mpre m) (log_and_apply H cfg (unpre m) o w) (log_and_apply H cfg m o w).
  Proof.
    intros m o w. unfold log_and_apply. cbn [unpre idx mwal mpre]. unfold bind.
    destruct (append_op H cfg (mwal m) (enc_op o) w) as [[[ver|e] wl'] w1]; [|sim_leaf].
    destruct (apply_op _ (idx m) o) as [[i' unref]|e]; [|sim_leaf].
    destruct (delete_blobs unref w1) as [[u|e] w2]; [|sim_leaf].
    destruct (negb _); [|sim_leaf].
    exact (checkpoint_inner_sim RRollover (mkMem i' wl' (mpre m)) w2).
  Qed.

  Lemma remove_sim : forall m k w,
    SimR (mpre m) (remove H cfg (unpre m) k w) (remove H cfg m k w).
  Proof.
    intros m k w. unfold remove. cbn [unpre idx]. destruct (sm_get _ _ k); [|sim_leaf].
    unfold bind. pose proof (log_and_apply_sim m (RRemove [k]) w) as S.
    destruct (log_and_apply H cfg m (RRemove [k]) w) as [[r m'] w'].
    apply SimR_elim in S. destruct S as [-> E]. destruct r; sim_leaf.
  Qed.

  Lemma remove_range_sim : forall m lo hi w,
    SimR (mpre m) (remove_range H cfg (unpre m) lo hi w) (remove_range H cfg m lo hi w).
  Proof.
    intros m lo hi w. unfold remove_range, keys_in_range. cbn [unpre idx].
    destruct (nonempty _ && _); [sim_leaf|].
    destruct (map fst _) as [|k0 ks]; [sim_leaf|].
    unfold bind. pose proof (log_and_apply_sim m (RRemove (k0 :: ks)) w) as S.
    destruct (log_and_apply H cfg m (RRemove (k0 :: ks)) w) as [[r m'] w'].
    apply SimR_elim in S. destruct S as [-> E]. destruct r; sim_leaf.
  Qed.

  Lemma checkpoint_sim : forall m w,
    SimR (mpre m) (checkpoint cfg (unpre m) w) (checkpoint cfg m w).
  Proof. intros. apply checkpoint_inner_sim. Qed.

  Lemma abort_sim : forall m k chunks w,
    SimR (mpre m) (abort (unpre m) k chunks w) (abort m k chunks w).
  Proof.
    intros m k chunks w. unfold abort, bind.
    destruct (new_staging w) as [[p|e] w1]; [|sim_leaf].
    match goal with |- context [(if ?c then ?x else ?y) w1] =>
      destruct ((if c then x else y) w1) as [[u|e] w2] end.
    - destruct (do_call (CUnlink p) w2) as [u' w3].
      match goal with |- context [?c w3] =>
        match c with match u' with _ => _ end => destruct (c w3) as [u'' w4] end end.
      sim_leaf.
    - unfold drop_staging, bind. destruct (do_call (CUnlink p) w2) as [u' w3]. sim_leaf.
  Qed.

  (* put: with the flag set no mkdir is issued; with the flag cleared mkdir_cas2 runs, finds both
     directories (WfDirs, H_byte) and issues no call either *)
  Lemma put_sim : forall m k chunks w, PreDirs (wfs w) ->
    SimR (mpre m) (put H cfg (unpre m) k chunks w) (put H cfg m k chunks w).
  Proof.
    intros m k chunks w W. unfold put. cbv zeta. cbn [unpre mpre].
    unfold bind, drop_staging, bind.
    destruct (new_staging w) as [[p|e] w1] eqn:E1; [|sim_leaf].
    pose proof (pres_elim _ _ _ _ _ (pa_new_staging PreDirs PreDirs_keeps) E1 W) as W1.
    match goal with |- context [?c w1] =>
      match c with match concat chunks with _ => _ end =>
        assert (Pc : Pres PreDirs c) by (pres ltac:(apply PreDirs_keeps));
        destruct (c w1) as [[u|e] w2] eqn:E2 end end.
    2:{ match goal with |- context [(if ?c then ?x else ?y) w2] =>
          destruct ((if c then x else y) w2) as [u w3] end.
        destruct (do_call (CUnlink p) w3) as [u' w4]. sim_leaf. }
    pose proof (pres_elim _ _ _ _ _ Pc E2 W1) as W2.
    match goal with |- context [(if c_sync cfg then ?x else ?y) w2] =>
      assert (Ps : Pres PreDirs (if c_sync cfg then x else y))
        by (pres ltac:(apply PreDirs_keeps));
      destruct ((if c_sync cfg then x else y) w2) as [[u'|e] w3] eqn:E3 end.
    2:{ destruct (do_call (CUnlink p) w3) as [u' w4]. sim_leaf. }
    pose proof (pres_elim _ _ _ _ _ Ps E3 W2) as W3.
    assert (EM : mkdir_cas2 (nth 0 (hexpath (H (concat chunks))) []) (nth 1 (hexpath (H (concat chunks))) []) w3
                 = (if mpre m then ret (Ok tt)
                    else mkdir_cas2 (nth 0 (hexpath (H (concat chunks))) [])
                                    (nth 1 (hexpath (H (concat chunks))) [])) w3).
    { destruct (mpre m) eqn:Pm; [|reflexivity].
      destruct (hex2_covers (H (concat chunks)) (H_len _) (H_byte _)) as (I & J & -> & -> & _).
      destruct (W3 _ _ I J) as [D1 D2]. now apply mkdir_cas2_noop. }
    rewrite EM.
    match goal with |- context [(if mpre m then ?x else ?y) w3] =>
      destruct ((if mpre m then x else y) w3) as [[u''|e] w4] end.
    2:{ destruct (do_call (CUnlink p) w4) as [u3 w5]. sim_leaf. }
    destruct (do_call (CRename p (cas_path (H (concat chunks)))) w4) as [[u3|e] w5].
    2:{ destruct (do_call (CUnlink p) w5) as [u4 w6]. sim_leaf. }
    apply log_and_apply_sim.
  Qed.
End Sim.

Section SimHist.
  Variable H : bytes -> bytes.
  Hypothesis H_len : forall b, length (H b) = 32%nat.
  Hypothesis H_byte : forall b, Forall (fun x => x < 256) (H b).
  Variable cfg : config.

  Local Notation api_op := (api_op cfg).

  Lemma pres_step_api : forall (P : fs -> Prop), (forall c, call_keeps P c) ->
    forall hd o, api_op o -> Pres P (step H (Some hd) o).
  Proof.
    intros P K hd o A. destruct o; cbn [StoreHist.api_op] in A; try contradiction; cbn [step];
      pres ltac:(apply K);
      first [apply pa_put|apply pa_abort|apply pa_remove|apply pa_remove_range|apply pa_checkpoint];
      exact K.
  Qed.

  (* one API call: same output, same world, memories equal up to the flag, flag kept *)
  Lemma step_sim : forall m os o w, api_op o -> PreDirs (wfs w) ->
    exists out m' w',
      step H (Some (mkHandle cfg m os)) o w = ((out, Some (mkHandle cfg m' os)), w') /\
      step H (Some (mkHandle cfg (unpre m) os)) o w
      = ((out, Some (mkHandle cfg (unpre m') os)), w') /\
      mpre m' = mpre m /\ PreDirs (wfs w').
  Proof.
    intros m os o w A W.
    assert (PW : forall r w', step H (Some (mkHandle cfg m os)) o w = (r, w') -> PreDirs (wfs w')).
    { intros r w' E. exact (pres_elim _ _ _ _ _ (pres_step_api PreDirs PreDirs_keeps _ o A) E W). }
    destruct o; cbn [StoreHist.api_op] in A; try contradiction;
      cbn [step h_cfg h_mem h_ostats] in *.
    - pose proof (put_sim H H_len H_byte cfg m k chunks w W) as S. unfold bind in *.
      destruct (put H cfg m k chunks w) as [[r m'] w'].
      apply SimR_elim in S. destruct S as [-> E]. cbn [fst snd ret] in *.
      eexists _, m', w'. split; [reflexivity|]. split; [reflexivity|]. split; [exact E|]. eapply PW; reflexivity.
    - pose proof (abort_sim m k chunks w) as S. unfold bind in *.
      destruct (abort m k chunks w) as [[r m'] w'].
      apply SimR_elim in S. destruct S as [-> E]. cbn [fst snd ret] in *.
      eexists _, m', w'. split; [reflexivity|]. split; [reflexivity|]. split; [exact E|]. eapply PW; reflexivity.
    - pose proof (remove_sim H cfg m k w) as S. unfold bind in *.
      destruct (remove H cfg m k w) as [[r m'] w'].
      apply SimR_elim in S. destruct S as [-> E]. cbn [fst snd ret] in *.
      eexists _, m', w'. split; [reflexivity|]. split; [reflexivity|]. split; [exact E|]. eapply PW; reflexivity.
    - pose proof (remove_range_sim H cfg m lo hi w) as S. unfold bind in *.
      destruct (remove_range H cfg m lo hi w) as [[r m'] w'].
      apply SimR_elim in S. destruct S as [-> E]. cbn [fst snd ret] in *.
      eexists _, m', w'. split; [reflexivity|]. split; [reflexivity|]. split; [exact E|]. eapply PW; reflexivity.
    - pose proof (checkpoint_sim cfg m w) as S. unfold bind in *.
      destruct (checkpoint cfg m w) as [[r m'] w'].
      apply SimR_elim in S. destruct S as [-> E]. cbn [fst snd ret] in *.
      eexists _, m', w'. split; [reflexivity|]. split; [reflexivity|]. split; [exact E|]. eapply PW; reflexivity.
    - eexists _, m, w. split; [reflexivity|]. split; [reflexivity|]. split; [reflexivity|exact W].
    - eexists _, m, w. split; [reflexivity|]. split; [reflexivity|]. split; [reflexivity|exact W].
    - eexists _, m, w. split; [reflexivity|]. split; [reflexivity|]. split; [reflexivity|exact W].
    - eexists _, m, w. split; [reflexivity|]. split; [reflexivity|]. split; [reflexivity|exact W].
    - eexists _, m, w. split; [reflexivity|]. split; [reflexivity|]. split; [reflexivity|exact W].
    - eexists _, m, w. split; [reflexivity|]. split; [reflexivity|]. split; [reflexivity|exact W].
  Qed.

  Theorem run_sim : forall ops m os w, Forall api_op ops -> PreDirs (wfs w) ->
    exists outs m' w',
      run_ops H (Some (mkHandle cfg m os)) ops w = ((outs, Some (mkHandle cfg m' os)), w') /\
      run_ops H (Some (mkHandle cfg (unpre m) os)) ops w
      = ((outs, Some (mkHandle cfg (unpre m') os)), w') /\
      mpre m' = mpre m /\ PreDirs (wfs w').
  Proof.
    induction ops as [|o ops IH]; intros m os w A W.
    - exists [], m, w. split; [reflexivity|]. split; [reflexivity|]. split; [reflexivity|exact W].
    - inversion A as [|? ? Ao Aops]; subst.
      destruct (step_sim m os o w Ao W) as (out & m1 & w1 & E1 & E1' & P1 & W1).
      destruct (IH m1 os w1 Aops W1) as (outs & m2 & w2 & E2 & E2' & P2 & W2).
      exists (out :: outs), m2, w2. cbn [run_ops].
      rewrite (bind_eq _ _ _ _ _ E1), (bind_eq _ _ _ _ _ E1'). cbn [fst snd].
      rewrite (bind_eq _ _ _ _ _ E2), (bind_eq _ _ _ _ _ E2'). cbn [fst snd ret].
      split; [reflexivity|]. split; [reflexivity|]. split; [congruence|exact W2].
  Qed.
End SimHist.

(* ------------------------------------------------------------------ *)
(* P5. the flag is never changed by an API call                        *)
(* ------------------------------------------------------------------ *)
Section Mpre.
  Variable H : bytes -> bytes.
  Variable cfg : config.

  Lemma log_and_apply_mpre : forall m o w,
    mpre (snd (fst (log_and_apply H cfg m o w))) = mpre m.
  Proof. intros. exact (proj2 (proj2 (proj2 (log_and_apply_sim H cfg m o w)))). Qed.

  Lemma put_mpre : forall m k chunks w, mpre (snd (fst (put H cfg m k chunks w))) = mpre m.
  Proof.
    intros m k chunks w. unfold put. cbv zeta. unfold bind, drop_staging, bind.
    destruct (new_staging w) as [[p|e] w1]; [|reflexivity].
    match goal with |- context [?c w1] =>
      match c with match concat chunks with _ => _ end =>
        destruct (c w1) as [[u|e] w2] end end.
    2:{ match goal with |- context [(if ?c then ?x else ?y) w2] =>
          destruct ((if c then x else y) w2) as [u w3] end.
        destruct (do_call (CUnlink p) w3) as [u' w4]. reflexivity. }
    match goal with |- context [(if c_sync cfg then ?x else ?y) w2] =>
      destruct ((if c_sync cfg then x else y) w2) as [[u'|e] w3] end.
    2:{ destruct (do_call (CUnlink p) w3) as [u' w4]. reflexivity. }
    match goal with |- context [(if mpre m then ?x else ?y) w3] =>
      destruct ((if mpre m then x else y) w3) as [[u''|e] w4] end.
    2:{ destruct (do_call (CUnlink p) w4) as [u3 w5]. reflexivity. }
    destruct (do_call (CRename p (cas_path (H (concat chunks)))) w4) as [[u3|e] w5].
    2:{ destruct (do_call (CUnlink p) w5) as [u4 w6]. reflexivity. }
    apply log_and_apply_mpre.
  Qed.

  (* the flag is never changed by an API call ("remembered") *)
  Lemma step_mpre : forall m os o w, api_op cfg o ->
    exists out m' w', step H (Some (mkHandle cfg m os)) o w
                      = ((out, Some (mkHandle cfg m' os)), w') /\ mpre m' = mpre m.
  Proof.
    intros m os o w A. destruct o; cbn [api_op] in A; try contradiction;
      cbn [step h_cfg h_mem h_ostats]; unfold bind;
      try (eexists _, m, w; split; reflexivity).
    - pose proof (put_mpre m k chunks w) as E.
      destruct (put H cfg m k chunks w) as [[r m'] w']. eexists _, m', w'. split; [reflexivity|exact E].
    - pose proof (proj2 (proj2 (proj2 (abort_sim m k chunks w)))) as E.
      destruct (abort m k chunks w) as [[r m'] w']. eexists _, m', w'. split; [reflexivity|exact E].
    - pose proof (proj2 (proj2 (proj2 (remove_sim H cfg m k w)))) as E.
      destruct (remove H cfg m k w) as [[r m'] w']. eexists _, m', w'. split; [reflexivity|exact E].
    - pose proof (proj2 (proj2 (proj2 (remove_range_sim H cfg m lo hi w)))) as E.
      destruct (remove_range H cfg m lo hi w) as [[r m'] w']. eexists _, m', w'. split; [reflexivity|exact E].
    - pose proof (proj2 (proj2 (proj2 (checkpoint_sim cfg m w)))) as E.
      destruct (checkpoint cfg m w) as [[r m'] w']. eexists _, m', w'. split; [reflexivity|exact E].
  Qed.

  Theorem run_mpre : forall ops m os w, Forall (api_op cfg) ops ->
    exists outs m' w', run_ops H (Some (mkHandle cfg m os)) ops w
                       = ((outs, Some (mkHandle cfg m' os)), w') /\ mpre m' = mpre m.
  Proof.
    induction ops as [|o ops IH]; intros m os w A.
    - exists [], m, w. split; reflexivity.
    - inversion A as [|? ? Ao Aops]; subst.
      destruct (step_mpre m os o w Ao) as (out & m1 & w1 & E1 & P1).
      destruct (IH m1 os w1 Aops) as (outs & m2 & w2 & E2 & P2).
      exists (out :: outs), m2, w2. cbn [run_ops].
      rewrite (bind_eq _ _ _ _ _ E1). cbn [fst snd]. rewrite (bind_eq _ _ _ _ _ E2).
      split; [reflexivity|congruence].
  Qed.
End Mpre.

(* ------------------------------------------------------------------ *)
(* P6. LiveP, the first open with pre-created directories (Q3), C01    *)
(* ------------------------------------------------------------------ *)
Lemma rootfile_ev_safe : forall e, ev_on is_rootfile e -> cas_safe e.
Proof.
  intros [c|c] X; [|contradiction]. destruct c; cbn in *; try exact I;
    try (destruct p; try contradiction; exact I).
  destruct X as [X Y]. right. destruct p; try contradiction; destruct q; try contradiction;
    split; exact I.
Qed.

Section PreOpen.
  Variable H : bytes -> bytes.
  Hypothesis H_len : forall b, length (H b) = 32%nat.
  Hypothesis H_byte : forall b, Forall (fun x => x < 256) (H b).
  Variable cfg : config.
  Hypothesis n_pos : 0 < c_n cfg.
  Let cmp := key_cmp (c_kt cfg).

  Local Notation Live0 := (Live0 H cfg).
  Local Notation Clean := (Clean H).
  Local Notation CasNamed := (CasNamed H).
  Local Notation NoCollide := (NoCollide H).
  Local Notation api_op := (api_op cfg).
  Local Notation spec_outs := (spec_outs H cfg).

  (* the satisfiable replacement of Live0 for handles that remember pre-created directories *)
  Definition LiveP (m : mem) (s : fs) (sg : smap bytes) : Prop :=
    Live0 (unpre m) s sg /\ (mpre m = true -> PreDirs s).

  Lemma LiveP_nopre : forall m s sg, mpre m = false -> (LiveP m s sg <-> Live0 m s sg).
  Proof.
    intros m s sg E. unfold LiveP. rewrite (unpre_nopre m E). split; [tauto|].
    intros L. split; [exact L|]. rewrite E. discriminate.
  Qed.

  (* Live0 does not depend on the flag, except in the third clause of dirs_ok *)
  Lemma Live0_unpre : forall m s sg, Live0 m s sg -> Live0 (unpre m) s sg.
  Proof.
    intros m s sg [L1 L2 L3 L4 L5 L6 (D1 & D2 & _) L8]. constructor; cbn [unpre idx mwal]; try assumption.
    split; [exact D1|]. split; [exact D2|]. cbn [unpre mpre]. discriminate.
  Qed.

  (* LiveP is at least as strong as Live0: PreDirs gives the third clause of dirs_ok *)
  Lemma LiveP_Live0 : forall m s sg, LiveP m s sg -> Live0 m s sg.
  Proof.
    intros m s sg [[L1 L2 L3 L4 L5 L6 (D1 & D2 & _) L8] P]. cbn [unpre idx mwal] in *.
    constructor; try assumption.
    split; [exact D1|]. split; [exact D2|]. intros E h Lh Bh.
    apply (PreDirs_WfDirs s (P E)). now split.
  Qed.

  (* conversely: Live0 speaks about the second-level directories cas/<hh>/<hh> only, PreDirs
     also about the first-level ones, hence the side condition (void for mpre m = false) *)
  Lemma Live0_LiveP : forall m s sg, (mpre m = true -> PreDirs s) -> Live0 m s sg -> LiveP m s sg.
  Proof. intros m s sg P L. split; [now apply Live0_unpre|exact P]. Qed.

  Lemma LiveP_Live0_iff : forall m s sg, (mpre m = true -> PreDirs s) ->
    (LiveP m s sg <-> Live0 m s sg).
  Proof. intros m s sg P. split; [apply LiveP_Live0|now apply Live0_LiveP]. Qed.

  (* the third clause of dirs_ok, for well-formed hashes: what [put] relies on *)
  Lemma LiveP_dirs : forall m s sg, LiveP m s sg ->
    has_dir s [s_staging] = true /\ has_dir s [s_cas] = true /\
    (mpre m = true -> forall h, length h = 32%nat -> Forall (fun x => x < 256) h ->
                                 parent_ok s (cas_path h) = true).
  Proof.
    intros m s sg [L P]. destruct (lv_dirs _ _ _ _ _ L) as (D1 & D2 & _).
    split; [exact D1|]. split; [exact D2|]. intros E h Lh Bh.
    apply (PreDirs_WfDirs s (P E)). now split.
  Qed.

  (* Q3 (in the form that is true, see the note at the top of the file) *)
  Theorem open_fresh_pre_partial : c_pre cfg = true ->
    exists m os w', open_with_recover H cfg (init_world empty_fs None) = (Ok (m, os), w') /\
      wfault w' = None /\ mpre m = true /\ LiveP m (wfs w') [] /\ PreDirs (wfs w') /\
      Clean (wfs w') [] /\ CasNamed (wfs w') /\ FsWf (wfs w') /\
      nextv (mwal m) = 1 /\ Forall cas_safe (wtrace w').
  Proof.
    intros Pre. set (w0 := init_world empty_fs None). unfold open_with_recover.
    destruct (mkdir_p_ok [s_staging] w0 eq_refl (or_introl eq_refl)) as (w1 & E1 & G1 & D1).
    rewrite (bind_eq _ _ _ _ _ E1).
    destruct (mkdir_p_ok [s_cas] w1 (proj1 (gr_ext _ _ G1)) (or_introl eq_refl)) as (w2 & E2 & G2 & D2).
    rewrite (bind_eq _ _ _ _ _ E2).
    pose proof (grow_trans _ _ _ G1 G2) as G02.
    destruct (call_create is_rootfile w2 PLock (proj1 (gr_ext _ _ G2)) I eq_refl) as (w3 & E3 & W3 & S3).
    rewrite (bind_eq _ _ _ _ _ E3).
    assert (Fl2 : files (wfs w2) = []) by (rewrite (gr_files _ _ G02); reflexivity).
    assert (G2n : forall q, fget (wfs w2) q = None) by (intros q; unfold fget; now rewrite Fl2).
    assert (G3n : forall q, q <> PLock -> fget (wfs w3) q = None).
    { intros q Nq. rewrite W3, fget_upd_other by exact Nq. apply G2n. }
    unfold bind at 1, read_file at 1. rewrite G3n by discriminate. rewrite Pre.
    (* the 65,536 directories *)
    assert (D3c : has_dir (wfs w3) [s_cas] = true).
    { unfold has_dir. now rewrite (fr_dirs _ _ _ (st_frame _ _ _ _ S3)). }
    assert (D3s : has_dir (wfs w3) [s_staging] = true).
    { unfold has_dir. rewrite (fr_dirs _ _ _ (st_frame _ _ _ _ S3)). exact (gr_dirs _ _ G2 _ D1). }
    destruct (pre_create_all_ok w3 (st_fault _ _ _ _ S3) D3c) as (wp & Ep & Gp & Pp).
    destruct (atomic_write_ok PSettings PSettingsTmp (enc_settings CURRENT_DB_VERSION true (c_n cfg))
                wp (proj1 (gr_ext _ _ Gp)) eq_refl eq_refl) as (w4 & E4 & S4 & _).
    assert (S4' : Step is_rootfile (ev_on is_rootfile) wp w4).
    { eapply step_weaken; [| |exact S4].
      - intros q [->| ->]; exact I.
      - intros e. apply ev_on_weaken. intros q [->| ->]; exact I. }
    assert (Gpn : forall q, q <> PLock -> fget (wfs wp) q = None).
    { intros q Nq. rewrite (grow_fget _ _ q Gp). now apply G3n. }
    assert (G4n : forall q, q <> PLock -> q <> PSettings -> q <> PSettingsTmp -> fget (wfs w4) q = None).
    { intros q N1 N2 N3. destruct (fr_get _ _ _ (st_frame _ _ _ _ S4) q) as [[X|X]|X];
        [contradiction|contradiction|]. rewrite X. now apply Gpn. }
    destruct (index_load_fresh H cfg n_pos true w4 (st_fault _ _ _ _ S4)) as (w6 & E6 & S6).
    { intros i. apply G4n; discriminate. }
    { apply G4n; discriminate. }
    unfold bind, ret. rewrite Ep, E4, E6. unfold get_fs.
    eexists _, _, w6. split; [reflexivity|].
    pose proof (step_trans _ _ _ _ _ S4' S6) as Sp6.
    assert (G6n : forall q, ~ is_rootfile q -> fget (wfs w6) q = None).
    { intros q Nq. destruct (fr_get _ _ _ (st_frame _ _ _ _ Sp6) q) as [X|X]; [contradiction|].
      rewrite X, (grow_fget _ _ q Gp).
      destruct (fr_get _ _ _ (st_frame _ _ _ _ S3) q) as [Y|Y]; [contradiction|].
      rewrite Y. apply G2n. }
    assert (Dirs6 : forall d, has_dir (wfs wp) d = true -> has_dir (wfs w6) d = true).
    { intros d. unfold has_dir. now rewrite (fr_dirs _ _ _ (st_frame _ _ _ _ Sp6)). }
    assert (P6 : PreDirs (wfs w6)).
    { intros i j Hi Hj. destruct (Pp i j Hi Hj) as [A B]. split; now apply Dirs6. }
    split; [exact (st_fault _ _ _ _ Sp6)|]. split; [reflexivity|].
    split; [split; [|intros _; exact P6]|split; [exact P6|split; [|split; [|split; [|split]]]]].
    - constructor.
      + exact I.
      + reflexivity.
      + apply C12_empty.
      + intros a b [].
      + intros k c [].
      + intros i _. apply G6n. intros X; exact X.
      + split; [apply Dirs6, (gr_dirs _ _ Gp), D3s|].
        split; [apply Dirs6, (gr_dirs _ _ Gp), D3c|]. discriminate.
      + split; [cbn [mwal nextv unpre]; lia|exact I].
    - split.
      + intros comps f Gf. rewrite G6n in Gf; [discriminate|intros X; exact X].
      + intros i. apply G6n. intros X; exact X.
    - intros comps f Gf. rewrite G6n in Gf; [discriminate|intros X; exact X].
    - apply (fr_wf _ _ _ (st_frame _ _ _ _ Sp6)). unfold FsWf. rewrite (gr_files _ _ Gp).
      apply (fr_wf _ _ _ (st_frame _ _ _ _ S3)). unfold FsWf. rewrite Fl2. constructor.
    - reflexivity.
    - assert (X : Ext cas_safe w0 w6).
      { eapply ext_trans; [|eapply ext_trans; [|eapply ext_trans]].
        - eapply ext_weaken; [|exact (gr_ext _ _ G02)]. apply mkdir_ev_safe.
        - eapply ext_weaken; [|exact (step_ext _ _ _ _ S3)]. apply rootfile_ev_safe.
        - eapply ext_weaken; [|exact (gr_ext _ _ Gp)]. apply mkdir_ev_safe.
        - eapply ext_weaken; [|exact (step_ext _ _ _ _ Sp6)]. apply rootfile_ev_safe. }
      destruct X as (_ & tr & Et & At). rewrite Et. cbn [w0 init_world wtrace].
      now rewrite app_nil_r.
  Qed.

  (* first open of an empty directory, either choice: the choice is what the handle remembers *)
  Theorem open_fresh_any :
    exists m os w', open_with_recover H cfg (init_world empty_fs None) = (Ok (m, os), w') /\
      wfault w' = None /\ mpre m = c_pre cfg /\ LiveP m (wfs w') [] /\
      Clean (wfs w') [] /\ CasNamed (wfs w') /\ FsWf (wfs w').
  Proof.
    destruct (c_pre cfg) eqn:Pre.
    - destruct (open_fresh_pre_partial Pre) as (m & os & w' & E & F & P & L & _ & C & N & W & _).
      exists m, os, w'. repeat (split; [assumption|]). assumption.
    - destruct (open_fresh H cfg n_pos Pre) as (m & os & w' & E & F & L & C & N & W).
      exists m, os, w'. split; [exact E|]. split; [exact F|].
      assert (P : mpre m = false).
      { rewrite <- Pre.
        exact (proj1 (open_first_time_settings H cfg (init_world empty_fs None) _ _ _ eq_refl E)). }
      split; [exact P|]. split; [now apply LiveP_nopre|]. repeat (split; [assumption|]). assumption.
  Qed.

  (* C01 / C06 / C07 along a history, from LiveP; the flag is kept *)
  Theorem C01_full_P : forall ops m s sg os w,
    LiveP m s sg -> wfs w = s -> wfault w = None -> Forall api_op ops ->
    NoCollide (hist_contents ops ++ map snd sg) ->
    exists m' w',
      run_ops H (Some (mkHandle cfg m os)) ops w
      = ((spec_outs sg ops, Some (mkHandle cfg m' os)), w') /\
      wfault w' = None /\ mpre m' = mpre m /\
      LiveP m' (wfs w') (fold_left (spec_step cmp) ops sg) /\
      Ext cas_safe w w' /\
      (FsWf s -> FsWf (wfs w')) /\
      (FsWf s -> Clean s sg -> Clean (wfs w') (fold_left (spec_step cmp) ops sg)) /\
      (FsWf s -> CasNamed s -> CasNamed (wfs w')).
  Proof.
    intros ops m s sg os w [L Pd] Ws F A NC.
    destruct (C01_full H H_len H_byte cfg n_pos ops (unpre m) s sg os w L Ws F A NC)
      as (mu & wu & Eu & Fu & Xu & Lu & Wu & Cu & Nu).
    destruct (mpre m) eqn:Pm.
    - assert (W : PreDirs (wfs w)) by (rewrite Ws; now apply Pd).
      destruct (run_sim H H_len H_byte cfg ops m os w A W) as (outs & m' & w' & E & E' & P' & W').
      rewrite Eu in E'. inversion E'; subst outs mu wu.
      exists m', w'. split; [exact E|]. split; [exact Fu|]. split; [congruence|].
      split; [split; [exact Lu|intros _; exact W']|]. repeat (split; [assumption|]). assumption.
    - rewrite (unpre_nopre m Pm) in Eu.
      destruct (run_mpre H cfg ops m os w A) as (outs & m' & w' & E & P').
      rewrite Eu in E. inversion E; subst outs mu wu.
      exists m', w'. split; [exact Eu|]. split; [exact Fu|]. split; [congruence|].
      split; [apply LiveP_nopre; [congruence|exact Lu]|]. repeat (split; [assumption|]). assumption.
  Qed.

  (* the statement of C01_refines_ordered_map, for LiveP *)
  Theorem C01_refines_ordered_map_P : forall ops m s sg os w,
    LiveP m s sg -> wfs w = s -> wfault w = None -> Forall api_op ops ->
    NoCollide (hist_contents ops ++ map snd sg) ->
    exists outs hd' w',
      run_ops H (Some (mkHandle cfg m os)) ops w = ((outs, Some hd'), w') /\
      outs = spec_outs sg ops /\
      LiveP (h_mem hd') (wfs w') (fold_left (spec_step cmp) ops sg) /\ h_cfg hd' = cfg /\
      mpre (h_mem hd') = mpre m /\ wfault w' = None.
  Proof.
    intros ops m s sg os w L Ws F A NC.
    destruct (C01_full_P ops m s sg os w L Ws F A NC) as (m' & w' & E & F' & P & L' & _).
    exists (spec_outs sg ops), (mkHandle cfg m' os), w'. split; [exact E|].
    split; [reflexivity|]. split; [exact L'|]. split; [reflexivity|]. split; [exact P|exact F'].
  Qed.

  (* open (either choice), then any history of API calls *)
  Theorem C01_from_fresh_any : forall ops, Forall api_op ops -> NoCollide (hist_contents ops) ->
    exists os hd' w',
      run_ops H None (OpOpen cfg false :: ops) (init_world empty_fs None)
      = ((OutOpened os :: spec_outs [] ops, Some hd'), w') /\
      h_cfg hd' = cfg /\ wfault w' = None /\ mpre (h_mem hd') = c_pre cfg /\
      LiveP (h_mem hd') (wfs w') (fold_left (spec_step cmp) ops []) /\
      Clean (wfs w') (fold_left (spec_step cmp) ops []) /\ CasNamed (wfs w') /\
      FsWf (wfs w').
  Proof.
    intros ops A NC.
    destruct open_fresh_any as (m & os & w1 & E1 & F1 & P1 & L1 & C1 & N1 & W1).
    destruct (C01_full_P ops m (wfs w1) [] os w1 L1 eq_refl F1 A)
      as (m' & w' & E & F' & P' & L' & X' & W' & C' & N').
    { now rewrite app_nil_r. }
    exists os, (mkHandle cfg m' os), w'. cbn [run_ops step].
    assert (E0 : (do! r <- open_with_recover H cfg ;;
                  match r with
                  | Ok (m0, os0) => ret (OutOpened os0, Some (mkHandle cfg m0 os0))
                  | Err e => ret (OutErr e, None)
                  end) (init_world empty_fs None)
                 = ((OutOpened os, Some (mkHandle cfg m os)), w1)).
    { rewrite (bind_eq _ _ _ _ _ E1). reflexivity. }
    rewrite (bind_eq _ _ _ _ _ E0). cbn [snd fst]. rewrite (bind_eq _ _ _ _ _ E).
    split; [reflexivity|]. split; [reflexivity|]. split; [exact F'|]. split; [cbn [h_mem]; congruence|].
    split; [exact L'|]. split; [auto|]. split; auto.
  Qed.
End PreOpen.

(* ------------------------------------------------------------------ *)
(* P7. Q4: the choice is not observable                                *)
(* ------------------------------------------------------------------ *)
Lemma spec_outs_kt : forall H cfg1 cfg2, c_kt cfg1 = c_kt cfg2 ->
  forall ops sg, spec_outs H cfg1 sg ops = spec_outs H cfg2 sg ops.
Proof.
  intros H cfg1 cfg2 E. induction ops as [|o ops IH]; intros sg; cbn [spec_outs]; [reflexivity|].
  f_equal.
  - unfold spec_out. rewrite E. reflexivity.
  - rewrite E. apply IH.
Qed.

Lemma api_op_kt : forall cfg1 cfg2 o, c_kt cfg1 = c_kt cfg2 -> api_op cfg1 o -> api_op cfg2 o.
Proof. intros cfg1 cfg2 o E. unfold api_op. now rewrite E. Qed.

(* the configuration with pre_create_cas_dirs switched off *)
Definition cfg_nopre (c : config) : config :=
  mkConfig (c_kt c) (c_n c) (c_sync c) false (c_scan c) (c_verify c) (c_failint c).

Section C19.
  Variable H : bytes -> bytes.
  Hypothesis H_len : forall b, length (H b) = 32%nat.
  Hypothesis H_byte : forall b, Forall (fun x => x < 256) (H b).

  (* Two stores created in empty directories, one with and one without pre-created fan-out
     directories (same key type; everything else, even num_ops_per_wal, may differ), then the
     same history of API calls on each: after the answer to open, both produce exactly the
     outputs of the plain ordered map, hence the same outputs; the handles remember the
     choice (mpre) to the end; both end with the same key map, and with nothing but the
     referenced blobs under cas/ and nothing under staging/ *)
  Theorem C19_precreate_unobservable : forall cfg1 cfg2 ops,
    c_kt cfg1 = c_kt cfg2 -> c_pre cfg1 = true -> c_pre cfg2 = false ->
    0 < c_n cfg1 -> 0 < c_n cfg2 ->
    Forall (api_op cfg1) ops -> NoCollide H (hist_contents ops) ->
    exists os1 os2 hd1 hd2 w1 w2,
      run_ops H None (OpOpen cfg1 false :: ops) (init_world empty_fs None)
      = ((OutOpened os1 :: spec_outs H cfg1 [] ops, Some hd1), w1) /\
      run_ops H None (OpOpen cfg2 false :: ops) (init_world empty_fs None)
      = ((OutOpened os2 :: spec_outs H cfg1 [] ops, Some hd2), w2) /\
      wfault w1 = None /\ wfault w2 = None /\
      mpre (h_mem hd1) = true /\ mpre (h_mem hd2) = false /\
      km (idx (h_mem hd1)) = km (idx (h_mem hd2)) /\
      (let sg := fold_left (spec_step (key_cmp (c_kt cfg1))) ops [] in
       Clean H (wfs w1) sg /\ Clean H (wfs w2) sg /\ CasNamed H (wfs w1) /\ CasNamed H (wfs w2)).
  Proof.
    intros cfg1 cfg2 ops Ekt P1 P2 N1 N2 A NC.
    destruct (C01_from_fresh_any H H_len H_byte cfg1 N1 ops A NC)
      as (os1 & hd1 & w1 & E1 & _ & F1 & M1 & [L1 _] & C1 & CN1 & _).
    destruct (C01_from_fresh_any H H_len H_byte cfg2 N2 ops)
      as (os2 & hd2 & w2 & E2 & _ & F2 & M2 & [L2 _] & C2 & CN2 & _).
    { eapply Forall_impl; [|exact A]. intros o. now apply api_op_kt. }
    { exact NC. }
    rewrite <- (spec_outs_kt H cfg1 cfg2 Ekt) in E2. rewrite <- Ekt in L2, C2.
    exists os1, os2, hd1, hd2, w1, w2. split; [exact E1|]. split; [exact E2|].
    split; [exact F1|]. split; [exact F2|]. split; [congruence|]. split; [congruence|].
    split.
    - pose proof (lv_km _ _ _ _ _ L1) as K1. pose proof (lv_km _ _ _ _ _ L2) as K2.
      cbn [unpre idx] in K1, K2. congruence.
    - cbv zeta. repeat (split; [assumption|]). assumption.
  Qed.

  Corollary C19_precreate_unobservable_same_cfg : forall cfg ops,
    c_pre cfg = true -> 0 < c_n cfg ->
    Forall (api_op cfg) ops -> NoCollide H (hist_contents ops) ->
    exists o1 o2 r1 r2 w1 w2,
      run_ops H None (OpOpen cfg false :: ops) (init_world empty_fs None) = ((o1, r1), w1) /\
      run_ops H None (OpOpen (cfg_nopre cfg) false :: ops) (init_world empty_fs None)
      = ((o2, r2), w2) /\
      tl o1 = spec_outs H cfg [] ops /\ tl o2 = tl o1.
  Proof.
    intros cfg ops P N A NC.
    destruct (C19_precreate_unobservable cfg (cfg_nopre cfg) ops eq_refl P eq_refl N N A NC)
      as (os1 & os2 & hd1 & hd2 & w1 & w2 & E1 & E2 & _).
    eexists _, _, _, _, w1, w2. split; [exact E1|]. split; [exact E2|]. split; reflexivity.
  Qed.
End C19.

(* ------------------------------------------------------------------ *)
(* P8. Q5: the on-disk invariant, restart                              *)
(* ------------------------------------------------------------------ *)
Section PreDisk.
  Variable H : bytes -> bytes.
  Hypothesis H_len : forall b, length (H b) = 32%nat.
  Hypothesis H_byte : forall b, Forall (fun x => x < 256) (H b).
  Variable cfg : config.
  Hypothesis n_pos : 0 < c_n cfg.

  (* Q5 (partial): the on-disk invariant holds after the first open with pre-created
     directories: the settings file records the flag, there is no snapshot and segment 0 is
     empty.  Together with LiveP this is the satisfiable content of [Inv]. *)
  Theorem open_fresh_disk_pre_partial : c_pre cfg = true -> c_n cfg < 2 ^ 64 ->
    exists m os w', open_with_recover H cfg (init_world empty_fs None) = (Ok (m, os), w') /\
      wfault w' = None /\ mpre m = true /\
      LiveP H cfg m (wfs w') [] /\ DiskOk H cfg m (wfs w') [] /\ FsWf (wfs w') /\
      Clean H (wfs w') [] /\ CasNamed H (wfs w') /\ nextv (mwal m) = 1.
  Proof.
    intros Pre Nfit.
    destruct (open_fresh_pre_partial H cfg n_pos Pre)
      as (m & os & w' & E & F' & Pm & L & PD & C & N & Wf & Nv & _).
    exists m, os, w'. split; [exact E|]. split; [exact F'|]. split; [exact Pm|].
    set (w0 := init_world empty_fs None) in *. unfold open_with_recover in E.
    destruct (mkdir_p_ok [s_staging] w0 eq_refl (or_introl eq_refl)) as (w1 & E1 & G1 & D1).
    rewrite (bind_eq _ _ _ _ _ E1) in E.
    destruct (mkdir_p_ok [s_cas] w1 (proj1 (gr_ext _ _ G1)) (or_introl eq_refl)) as (w2 & E2 & G2 & D2).
    rewrite (bind_eq _ _ _ _ _ E2) in E.
    pose proof (grow_trans _ _ _ G1 G2) as G02.
    assert (Fl2 : files (wfs w2) = []) by (rewrite (gr_files _ _ G02); reflexivity).
    assert (W2 : FsWf (wfs w2)) by (unfold FsWf; rewrite Fl2; constructor).
    assert (G2n : forall q, fdat (wfs w2) q = None) by (intros q; unfold fdat, fget; now rewrite Fl2).
    destruct (x_create w2 PLock (proj1 (gr_ext _ _ G2)) W2 eq_refl) as (w3 & E3 & X3 & V3).
    rewrite (bind_eq _ _ _ _ _ E3) in E. pose proof X3 as (F3 & W3 & Dr3 & _).
    assert (G3s : fget (wfs w3) PSettings = None).
    { apply fdat_none. rewrite V3, vset_other by discriminate. apply G2n. }
    unfold bind at 1, read_file at 1 in E. rewrite G3s, Pre in E.
    assert (D3c : has_dir (wfs w3) [s_cas] = true) by (unfold has_dir; now rewrite Dr3).
    destruct (pre_create_all_ok w3 F3 D3c) as (wp & Ep & Gp & Pp).
    assert (Wp : FsWf (wfs wp)) by (unfold FsWf; now rewrite (gr_files _ _ Gp)).
    assert (Vp : forall q, fdat (wfs wp) q = fdat (wfs w3) q).
    { intros q. unfold fdat. now rewrite (grow_fget _ _ q Gp). }
    destruct (atomic_write_ok PSettings PSettingsTmp (enc_settings CURRENT_DB_VERSION true (c_n cfg))
                wp (proj1 (gr_ext _ _ Gp)) eq_refl eq_refl) as (w4 & E4 & S4 & G4).
    match type of E with (bind ?X _) _ = _ => assert (ERS : X w3 = (Ok true, w4)) end.
    { rewrite (bind_eq _ _ _ _ _ Ep). rewrite (bind_eq _ _ _ _ _ E4). reflexivity. }
    rewrite (bind_eq _ _ _ _ _ ERS) in E.
    pose proof (step_eff _ _ _ _ Wp S4) as X4. pose proof X4 as (F4 & W4 & _).
    assert (G4n : forall q, q <> PLock -> q <> PSettings -> q <> PSettingsTmp ->
                            fdat (wfs w4) q = None).
    { intros q N1 N2 N3. rewrite (step_fdat _ _ _ _ q S4) by (intros [X|X]; contradiction).
      rewrite Vp, V3, vset_other by exact N1. apply G2n. }
    assert (D4 : DiskOkW H cfg 0 1 (seg_of cfg (1 - 1)) true (fdat (wfs w4)) []).
    { exists [], (fun _ => []), (fun _ => false), [], []. constructor.
      - split; [cbn [length]; pow_consts; lia|constructor].
      - eexists. split; [apply fdat_some; exact G4|].
        apply dec_settings_enc; [unfold CURRENT_DB_VERSION; pow_consts; lia|exact Nfit].
      - unfold snap_ok. rewrite G4n by discriminate. now split.
      - split; [exact I|]. split; [intros k1 k2 i1 i2 []|]. split; [constructor|].
        cbn [length]. pow_consts. lia.
      - exact I.
      - intros i [].
      - intros i _. apply G4n; discriminate.
      - intros i [].
      - reflexivity.
      - reflexivity.
      - pow_consts. lia.
      - constructor.
      - exact I.
      - reflexivity. }
    destruct (index_load_ok H H_len H_byte cfg n_pos 0 1 true [] w4 F4 W4 D4 I)
      as (m2 & w5 & E5 & X5 & P1 & P2 & P3 & P4 & P5 & P6 & P7 & P8).
    { intros a b []. }
    rewrite (bind_eq _ _ _ _ _ E5) in E.
    unfold bind, get_fs, ret in E. inversion E; subst m w'.
    split; [exact L|]. split; [exact P6|]. split; [exact Wf|]. split; [exact C|]. split; [exact N|exact P1].
  Qed.

  (* the satisfiable form of [Inv] *)
  Definition InvP (m : mem) (s : fs) (sg : smap bytes) : Prop :=
    LiveP H cfg m s sg /\ DiskOk H cfg m s sg /\ FsWf s.

  Lemma InvP_Inv : forall m s sg, InvP m s sg -> Inv H cfg m s sg.
  Proof. intros m s sg (L & D & W). split; [exact (LiveP_Live0 H cfg m s sg L)|now split]. Qed.

  (* side condition: see Live0_LiveP *)
  Lemma Inv_InvP : forall m s sg, (mpre m = true -> PreDirs s) -> Inv H cfg m s sg -> InvP m s sg.
  Proof. intros m s sg P (L & D & W). split; [now apply Live0_LiveP|now split]. Qed.

  Lemma Inv_InvP_iff : forall m s sg, (mpre m = true -> PreDirs s) ->
    (Inv H cfg m s sg <-> InvP m s sg).
  Proof. intros m s sg P. split; [now apply Inv_InvP|apply InvP_Inv]. Qed.

  Lemma InvP_nopre : forall m s sg, mpre m = false -> (InvP m s sg <-> Inv H cfg m s sg).
  Proof.
    intros m s sg E. unfold InvP, Inv. now rewrite (LiveP_nopre H cfg m s sg E).
  Qed.

  Theorem open_fresh_disk_pre_InvP : c_pre cfg = true -> c_n cfg < 2 ^ 64 ->
    exists m os w', open_with_recover H cfg (init_world empty_fs None) = (Ok (m, os), w') /\
      wfault w' = None /\ mpre m = true /\ InvP m (wfs w') [] /\
      Clean H (wfs w') [] /\ CasNamed H (wfs w') /\ nextv (mwal m) = 1.
  Proof.
    intros Pre Nfit.
    destruct (open_fresh_disk_pre_partial Pre Nfit) as (m & os & w' & E & F & P & L & D & W & C & N & V).
    exists m, os, w'. split; [exact E|]. split; [exact F|]. split; [exact P|].
    split; [split; [exact L|split; [exact D|exact W]]|]. split; [exact C|]. split; [exact N|exact V].
  Qed.

  (* the first open with pre-created directories establishes the invariant of C02 / C03 itself:
     [Inv] (hence [Live0]) is satisfiable with the flag set *)
  Theorem open_fresh_disk_pre_Inv : c_pre cfg = true -> c_n cfg < 2 ^ 64 ->
    exists m os w', open_with_recover H cfg (init_world empty_fs None) = (Ok (m, os), w') /\
      wfault w' = None /\ mpre m = true /\ Inv H cfg m (wfs w') [] /\
      Clean H (wfs w') [] /\ CasNamed H (wfs w') /\ nextv (mwal m) = 1.
  Proof.
    intros Pre Nfit.
    destruct (open_fresh_disk_pre_InvP Pre Nfit) as (m & os & w' & E & F & P & IV & C & N & V).
    exists m, os, w'. split; [exact E|]. split; [exact F|]. split; [exact P|].
    split; [now apply InvP_Inv|]. split; [exact C|]. split; [exact N|exact V].
  Qed.

  (* non-vacuity of the crash invariants of CrashInv.v for pre-created handles: after that first
     open the (restricted) [pre_dirs] clause holds with pre = true, and so do RestP and Rest *)
  Theorem pre_dirs_after_fresh_open : c_pre cfg = true -> c_n cfg < 2 ^ 64 ->
    exists m os w', open_with_recover H cfg (init_world empty_fs None) = (Ok (m, os), w') /\
      wfault w' = None /\ mpre m = true /\
      pre_dirs true (wfs w') /\
      RestP H cfg (lpv (idx m)) (nextv (mwal m)) (seg_of cfg (nextv (mwal m))) true [] (wfs w') /\
      Rest H cfg (wfs w') [].
  Proof.
    intros Pre Nfit.
    destruct (open_fresh_disk_pre_Inv Pre Nfit) as (m & os & w' & E & F & P & IV & _).
    exists m, os, w'. split; [exact E|]. split; [exact F|]. split; [exact P|].
    pose proof (inv_inv' H H_len H_byte cfg n_pos _ _ _ IV) as (L & D & W).
    pose proof (live_aux H cfg _ _ _ L W) as A. rewrite P in A.
    pose proof (diskok'_weak H H_len H_byte cfg n_pos _ _ _ D) as D'. rewrite P in D'.
    split; [exact (proj1 (proj2 (proj2 A)))|]. split; [split; [exact A|exact D']|].
    exact (rest_of_inv H H_len H_byte cfg n_pos _ _ _ IV).
  Qed.

  (* C02 for one restart, also for a handle that remembers pre-created directories: close and
     open again; the reopened handle has the same index state, remembers the same choice, and
     satisfies the invariant again *)
  Theorem restart_ok_P : forall m s sg w,
    InvP m s sg -> wfs w = s -> wfault w = None ->
    exists w1 m' os w',
      close m w = (tt, w1) /\ open_with_recover H cfg w1 = (Ok (m', os), w') /\
      wfault w' = None /\ mpre m' = mpre m /\
      km (idx m') = km (idx m) /\ rc (idx m') = rc (idx m) /\
      ub (idx m') = ub (idx m) /\ tb (idx m') = tb (idx m) /\
      nextv (mwal m') = nextv (mwal m) /\
      InvP m' (wfs w') sg.
  Proof.
    intros m s sg w ([L PD] & D & Wf) Ws F. subst s.
    pose proof L as [Ssg Hkm Hidx Hnc Hcas Hst Hdirs Hwal].
    cbn [unpre idx mwal mpre] in Hkm, Hidx.
    assert (Hwal' : wal_ok cfg m (wfs w)) by exact Hwal.
    destruct (close_ok cfg m w Hwal' F Wf) as (w1 & E1 & X1 & V1).
    pose proof X1 as (F1 & W1 & Dr1 & Ns1).
    destruct Hdirs as (Hd1 & Hd2 & _).
    destruct (open_ok H H_len H_byte cfg n_pos (lpv (idx m)) (nextv (mwal m)) (mpre m) sg w1 F1 W1)
      as (m' & os & w' & E' & X' & P1 & P2 & P3 & P4 & P5 & P6 & P7 & P8); try assumption.
    { unfold has_dir. now rewrite Dr1. }
    { unfold has_dir. now rewrite Dr1. }
    { eapply (DiskOkW_ext H cfg); [| | |exact D]; intros; apply V1. }
    pose proof X' as (F' & W' & Dr' & Ns').
    destruct (IdxInv_unique cfg (idx m') (idx m) P5 Hidx) as (R1 & R2 & R3); [congruence|].
    exists w1, m', os, w'. split; [exact E1|]. split; [exact E'|]. split; [exact F'|].
    split; [exact P3|].
    split; [congruence|]. split; [exact R1|]. split; [exact R2|]. split; [exact R3|].
    split; [exact P1|]. split; [split|split; assumption].
    - assert (Fr : forall q, ~ is_meta q -> q <> PLock -> fdat (wfs w') q = fdat (wfs w) q).
      { intros q A B. now rewrite P7, V1. }
      constructor; cbn [unpre idx mwal mpre]; try assumption.
      + intros k c Ik. destruct (Hcas k c Ik) as (f & Gf & Df). apply fdat_some.
        rewrite Fr; [|intros X; exact X|discriminate]. apply fdat_some. now exists f.
      + intros i Li. apply fdat_none. rewrite Fr; [|intros X; exact X|discriminate].
        apply fdat_none, Hst. rewrite <- Ns1, <- Ns'. exact Li.
      + unfold dirs_ok, has_dir in *. rewrite Dr', Dr1. cbn [mpre unpre].
        split; [exact Hd1|]. split; [exact Hd2|]. discriminate.
      + destruct Hwal as [N1 _]. cbn [unpre mwal] in N1. split; [cbn [unpre mwal]; lia|].
        cbn [unpre mwal]. now rewrite P2.
    - rewrite P3. intros Pm i j Hi Hj. specialize (PD Pm i j Hi Hj). unfold has_dir in *.
      now rewrite Dr', Dr1.
  Qed.
End PreDisk.

Print Assumptions hex2_covers.
Print Assumptions mkdirs_pre_ok.
Print Assumptions mkdirs_pre_explicit.
Print Assumptions pre_create_all_ok.
Print Assumptions run_sim.
Print Assumptions run_mpre.
Print Assumptions open_fresh_pre_partial.
Print Assumptions open_fresh_any.
Print Assumptions C01_full_P.
Print Assumptions C01_refines_ordered_map_P.
Print Assumptions C01_from_fresh_any.
Print Assumptions C19_precreate_unobservable.
Print Assumptions C19_precreate_unobservable_same_cfg.
Print Assumptions open_fresh_disk_pre_partial.
Print Assumptions open_fresh_disk_pre_InvP.
Print Assumptions restart_ok_P.
Print Assumptions InvP_Inv.
Print Assumptions Inv_InvP_iff.
Print Assumptions pre_dirs_after_fresh_open.
Print Assumptions open_fresh_disk_pre_Inv.
