(* ConcSeq.v -- the concurrent model theories/Conc.v restricted to ONE thread is the sequential
   specification: a plain ordered map from key to byte string (History.spec_step,
   StoreHist.spec_out / spec_outs), in the vocabulary of the sequential development
   (sm_ins / sm_del / in_range, StoreInv.km_of / item_of).

   The specification  cspec : smap bytes -> ccall -> smap bytes * cres  gives every call of the
   concurrent model its ordered-map meaning on a key -> CONTENT map; cspec_outs / cspec_final
   fold it over a program (the analogues of spec_outs / fold of spec_step).

   Z1  single_thread_runs_to_completion (any fault parameters, any well-named initial blob
       directory): one thread t running the program cs
         - finishes under the schedule  repeat t n  for every n >= total_work;
         - is deterministic: two schedules after which the thread has finished end in the SAME
           state (in particular the same results, key map and blob directory).
   Z2  single_thread_is_the_ordered_map (no faults, empty initial blob directory, H
       collision-free on the contents put by cs): after ANY schedule that runs the thread to
       completion
         - the results are  cspec_outs cmp [] cs  (every call kind, KCheckpoint and
           KDelOrphans included),
         - the key map is  km_of H (cspec_final cmp [] cs)  (key k -> item (H c, len c) iff the
           map has k -> c),
         - the blob directory holds exactly the blobs of the final map, each under its hash
           (from ConcProofs.C07_quiescent_exact);
       single_thread_results_are_a_prefix: before completion the results returned so far are
       a prefix of cspec_outs; single_thread_run_is_the_ordered_map: Z1 + Z2 for repeat t n.
       The proof is a refinement invariant [SI] over the micro-steps of the thread: the
       abstract map M with  km = km_of M, and for a call in progress its outcome [J] -- the
       map and the result cspec assigns to it; the facts about the blob directory come from
       the invariant of the concurrent development (ConcInv: no dangling item, blobs named
       by their hash, every blob accounted for).
   Z2' cspec IS the sequential specification: cspec_is_the_sequential_spec relates cspec to
       History.spec_step and StoreHist.spec_out call by call (api_of_call), and
       cspec_outs_are_spec_outs / cspec_final_is_spec_fold lift this to programs; so
       single_thread_refines_the_sequential_spec states Z2 with spec_outs itself.
   Z3  an example by vm_compute (toyH, lex_cmp) with a program using every call kind. *)
From Cas Require Import Base Codec SMap Index Range Conc History.
From CasProofs Require Import BaseProofs SMapProofs IndexProofs RangeProofs ConcInv ConcProofs ConcProgress
  ConcExamples ConcLin StoreInv StoreHist.
From Coq Require Import List NArith Lia Bool Arith ZifyBool ZifyNat ZifyN.
Import ListNotations.
Open Scope N_scope.

Arguments N.add : simpl never.
Arguments N.sub : simpl never.
Arguments N.mul : simpl never.
Arguments N.div : simpl never.
Arguments N.modulo : simpl never.
Arguments N.eqb : simpl never.
Arguments N.ltb : simpl never.
Arguments N.leb : simpl never.
Arguments N.min : simpl never.

(* ------------------------------------------------------------------------------------ *)
(* the ordered-map semantics of the calls of the concurrent model *)

(* get_range(k, a, b) on a key whose content is x: the empty range, InvalidRange, else the bytes
   [a, min b (len x)) *)
Definition range_res (x : bytes) (a b : N) : cres :=
  if len x <=? a then CBytes (Some [])
  else if N.min b (len x) <? a then CInvalid
  else CBytes (Some (slice x a (N.min b (len x)))).

Section CSpec.
  Variable cmp : bytes -> bytes -> comparison.

  Definition cspec (M : smap bytes) (c : ccall) : smap bytes * cres :=
    match c with
    | KPut k x => (sm_ins cmp M k x, CUnit)
    | KAbort _ _ => (M, CUnit)
    | KRemove k =>
      (sm_del cmp M k, CBool (match sm_get cmp M k with Some _ => true | None => false end))
    | KRemoveRange lo hi =>
      (filter (fun e => negb (in_range cmp lo hi (fst e))) M,
       CNum (N.of_nat (length (filter (fun e => in_range cmp lo hi (fst e)) M))))
    | KGet k => (M, CBytes (sm_get cmp M k))
    | KGetSize k => (M, CSize (option_map len (sm_get cmp M k)))
    | KGetRange k a b =>
      (M, match sm_get cmp M k with None => CBytes None | Some x => range_res x a b end)
    | KIter => (M, CKeys (map fst M))
    | KCheckpoint => (M, CUnit)
    (* every blob of a quiescent store that started without orphans is referenced: all the
       candidates are skipped *)
    | KDelOrphans hs => (M, COrphans 0 (N.of_nat (length hs)))
    end.

  (* the pairs (map after the call, result of the call) along a program *)
  Fixpoint cspec_run (M : smap bytes) (cs : list ccall) : list (smap bytes * cres) :=
    match cs with
    | [] => []
    | c :: r => cspec M c :: cspec_run (fst (cspec M c)) r
    end.
  (* the results (as StoreHist.spec_outs) and the final map (the fold of the state component,
     as the fold of History.spec_step) *)
  Fixpoint cspec_outs (M : smap bytes) (cs : list ccall) : list cres :=
    match cs with
    | [] => []
    | c :: r => snd (cspec M c) :: cspec_outs (fst (cspec M c)) r
    end.
  Definition cspec_final (M : smap bytes) (cs : list ccall) : smap bytes :=
    fold_left (fun M c => fst (cspec M c)) cs M.

  Lemma cspec_outs_run cs : forall M, cspec_outs M cs = map snd (cspec_run M cs).
  Proof. induction cs as [|c r IH]; intros M; cbn [cspec_outs cspec_run map]; [reflexivity|]. rewrite IH. reflexivity. Qed.

  Lemma cspec_outs_length cs : forall M, length (cspec_outs M cs) = length cs.
  Proof. induction cs as [|c r IH]; intros M; cbn [cspec_outs length]; [reflexivity|]. rewrite IH. reflexivity. Qed.
End CSpec.

(* the answer of get_range in cspec is the answer of the read path of the model (pre_open, else
   the clamped slice) and of the sequential get_range of theories/Range.v *)
Lemma range_res_pre_open (h x : bytes) (a b : N) :
  range_res x a b = match pre_open (MRange a b) (mkItem h (len x)) with
                    | Some r => r
                    | None => CBytes (Some (slice x a (N.min b (len x))))
                    end.
Proof.
  unfold range_res. cbn [pre_open isize].
  destruct (len x <=? a); [reflexivity|]. destruct (N.min b (len x) <? a); reflexivity.
Qed.

Lemma range_res_is_sequential_get_range (chunk : N -> N -> N) (x : bytes) (a b : N) :
  range_res x a b = cres_of_rres (fst (Range.get_range chunk (len x) x a b)).
Proof. rewrite (range_res_pre_open [] x a b). apply range_answer_is_get_range. Qed.

(* ------------------------------------------------------------------------------------ *)
(* km_of (the key map of a content map) for an arbitrary key order *)

Section KmOf.
  Variable H : bytes -> bytes.
  Variable cmp : bytes -> bytes -> comparison.
  Hypothesis cmp_refl : forall a, cmp a a = Eq.
  Hypothesis cmp_eq : forall a b, cmp a b = Eq -> a = b.
  Hypothesis cmp_antisym : forall a b, cmp b a = CompOpp (cmp a b).
  Hypothesis cmp_trans : forall a b c, cmp a b = Lt -> cmp b c = Lt -> cmp a c = Lt.

  Local Notation KX L := (L cmp cmp_refl cmp_eq cmp_antisym cmp_trans) (only parsing).
  Local Notation km_of := (StoreInv.km_of H).
  Local Notation item_of := (StoreInv.item_of H).

  Lemma cs_km_get M k : sm_get cmp (km_of M) k = option_map item_of (sm_get cmp M k).
  Proof using.
    induction M as [|[k1 c1] M IH]; cbn [StoreInv.km_of map sm_get fst snd]; [reflexivity|].
    destruct (cmp k k1); try reflexivity. apply IH.
  Qed.

  Lemma cs_km_ins M k c : km_of (sm_ins cmp M k c) = sm_ins cmp (km_of M) k (item_of c).
  Proof using.
    induction M as [|[k1 c1] M IH]; cbn [StoreInv.km_of map sm_ins fst snd]; [reflexivity|].
    destruct (cmp k k1); cbn [map fst snd]; try reflexivity. f_equal. apply IH.
  Qed.

  Lemma cs_km_del M k : km_of (sm_del cmp M k) = sm_del cmp (km_of M) k.
  Proof using.
    induction M as [|[k1 c1] M IH]; cbn [StoreInv.km_of map sm_del fst snd]; [reflexivity|].
    destruct (cmp k k1); cbn [map fst snd]; try reflexivity. f_equal. apply IH.
  Qed.

  Lemma cs_km_fold_del ks : forall M,
    km_of (fold_left (fun m k => sm_del cmp m k) ks M)
    = fold_left (fun m k => sm_del cmp m k) ks (km_of M).
  Proof using.
    induction ks as [|k ks IH]; intros M; cbn [fold_left]; [reflexivity|].
    rewrite IH, cs_km_del. reflexivity.
  Qed.

  Lemma cs_km_filter (f : bytes -> bool) M :
    km_of (filter (fun e => f (fst e)) M) = filter (fun e => f (fst e)) (km_of M).
  Proof using.
    induction M as [|[k1 c1] M IH]; cbn [StoreInv.km_of map filter fst snd]; [reflexivity|].
    destruct (f k1); cbn [map fst snd]; [f_equal|]; apply IH.
  Qed.

  Lemma cs_km_keys M : map fst (km_of M) = map fst M.
  Proof using. unfold StoreInv.km_of. rewrite map_map. reflexivity. Qed.

  Lemma cs_km_in M k i : In (k, i) (km_of M) <-> exists c, In (k, c) M /\ i = item_of c.
  Proof using.
    unfold StoreInv.km_of. rewrite in_map_iff. split.
    - intros ([k1 c1] & E & I1). cbn [fst snd] in E. inversion E; subst. exists c1. split; [exact I1|reflexivity].
    - intros (c & I1 & ->). exists (k, c). split; [reflexivity|exact I1].
  Qed.

  Lemma cs_keys_in M lo hi :
    keys_in cmp (km_of M) lo hi = map fst (filter (fun e => in_range cmp lo hi (fst e)) M).
  Proof using.
    unfold keys_in. rewrite <- (cs_km_filter (in_range cmp lo hi)). apply cs_km_keys.
  Qed.

  (* deleting a list of keys from a sorted map *)
  Lemma cs_fold_del_sorted {V} ks : forall (M : smap V), sorted cmp M ->
    sorted cmp (fold_left (fun mm k => sm_del cmp mm k) ks M).
  Proof using cmp_refl cmp_eq cmp_antisym cmp_trans.
    induction ks as [|k ks IH]; intros M S; cbn [fold_left]; [exact S|].
    apply IH, (KX sorted_del), S.
  Qed.

  Lemma cs_fold_del_get_none {V} ks : forall (M : smap V) x, sorted cmp M ->
    sm_get cmp M x = None ->
    sm_get cmp (fold_left (fun mm k => sm_del cmp mm k) ks M) x = None.
  Proof using cmp_refl cmp_eq cmp_antisym cmp_trans.
    induction ks as [|k ks IH]; intros M x S G; cbn [fold_left]; [exact G|].
    apply IH; [apply (KX sorted_del), S|].
    destruct (key_eq_dec x k) as [->|N]; [apply (KX get_del_same), S|].
    rewrite (KX get_del_other); [exact G|exact N|exact S].
  Qed.

  Lemma cs_fold_del_get_in {V} ks : forall (M : smap V) x, sorted cmp M -> In x ks ->
    sm_get cmp (fold_left (fun mm k => sm_del cmp mm k) ks M) x = None.
  Proof using cmp_refl cmp_eq cmp_antisym cmp_trans.
    induction ks as [|k ks IH]; intros M x S []; cbn [fold_left].
    - subst k. apply cs_fold_del_get_none; [apply (KX sorted_del), S|apply (KX get_del_same), S].
    - apply IH; [apply (KX sorted_del), S|assumption].
  Qed.

  Lemma cs_fold_del_get_notin {V} ks : forall (M : smap V) x, sorted cmp M -> ~ In x ks ->
    sm_get cmp (fold_left (fun mm k => sm_del cmp mm k) ks M) x = sm_get cmp M x.
  Proof using cmp_refl cmp_eq cmp_antisym cmp_trans.
    induction ks as [|k ks IH]; intros M x S N; cbn [fold_left]; [reflexivity|].
    rewrite IH; [|apply (KX sorted_del), S|intros X; apply N; right; exact X].
    apply (KX get_del_other); [|exact S]. intros ->. apply N. left; reflexivity.
  Qed.

  (* deleting the keys selected by f leaves the others *)
  Lemma cs_fold_del_filter {V} (f : bytes -> bool) (M : smap V) : sorted cmp M ->
    fold_left (fun mm k => sm_del cmp mm k) (map fst (filter (fun e => f (fst e)) M)) M
    = filter (fun e => negb (f (fst e))) M.
  Proof using cmp_refl cmp_eq cmp_antisym cmp_trans.
    intros S. apply (KX sm_ext).
    - apply cs_fold_del_sorted, S.
    - apply (KX sorted_filter), S.
    - intros x. rewrite (KX get_filter _ _ _ S). cbn [fst].
      destruct (f x) eqn:Fx.
      + destruct (sm_get cmp M x) as [v|] eqn:G.
        * cbn [negb]. apply cs_fold_del_get_in; [exact S|].
          apply in_map_iff. exists (x, v). split; [reflexivity|].
          apply filter_In. split; [apply (KX get_in _ _ _ S); exact G|exact Fx].
        * apply cs_fold_del_get_none; assumption.
      + rewrite cs_fold_del_get_notin; [destruct (sm_get cmp M x); reflexivity|exact S|].
        intros I1. apply in_map_iff in I1. destruct I1 as ([x' v'] & E1 & I1).
        apply filter_In in I1. cbn [fst] in *. subst x'. destruct I1 as [_ I1]. congruence.
  Qed.
End KmOf.

(* ------------------------------------------------------------------------------------ *)
(* one thread: completion and determinism (any fault parameters, any initial directory) *)

Lemma one_nodup (t : nat) (cs : list ccall) : NoDup (map fst [(t, cs)]).
Proof. cbn [map fst]. constructor; [intros []|constructor]. Qed.

Section Single.
  Variable H : bytes -> bytes.
  Variable cmp : bytes -> bytes -> comparison.
  Hypothesis cmp_refl : forall a, cmp a a = Eq.
  Hypothesis cmp_eq : forall a b, cmp a b = Eq -> a = b.
  Hypothesis cmp_antisym : forall a b, cmp b a = CompOpp (cmp a b).
  Hypothesis cmp_trans : forall a b c, cmp a b = Lt -> cmp b c = Lt -> cmp a c = Lt.
  Variable nops : N.
  Variable bad : bytes -> bool.
  Variable ckbad : bool.
  Variable t : nat.
  Variable cs : list ccall.
  Variable cas0 : smap bytes.
  Hypothesis cas0_sorted : sorted lex_cmp cas0.
  Hypothesis cas0_named : forall h c, In (h, c) cas0 -> H c = h.
  Local Notation thr0 := [(t, cs)].
  Hypothesis NoCollideC :
    forall a b, In a (allc thr0 cas0) -> In b (allc thr0 cas0) -> H a = H b -> a = b.

  Local Notation Reach := (reachable H cmp nops bad ckbad thr0 cas0).
  Local Notation step := (cstep H cmp nops bad ckbad).
  Local Notation run := (crun H cmp nops bad ckbad).
  Local Notation g0 := (init_c thr0 cas0).
  Local Notation RX L :=
    (L H cmp cmp_refl cmp_eq cmp_antisym cmp_trans nops bad ckbad thr0 (one_nodup t cs)
       cas0 cas0_sorted cas0_named NoCollideC) (only parsing).

  (* t is the only thread *)
  Definition only (g : cstate) : Prop := exists ts, g_thr g = [(t, ts)].

  Lemma only_tget g ts : g_thr g = [(t, ts)] -> tget (g_thr g) t = Some ts.
  Proof using. intros ->. cbn [tget]. rewrite Nat.eqb_refl. reflexivity. Qed.

  Lemma only_other g u : only g -> u <> t -> step g u = None.
  Proof using.
    intros [ts E] N. apply step_needs_thread. rewrite E. cbn [tget].
    apply Nat.eqb_neq in N. rewrite N. reflexivity.
  Qed.

  Lemma only_step g u g' : only g -> step g u = Some g' -> u = t /\ only g'.
  Proof using.
    intros O St. destruct (Nat.eq_dec u t) as [->|N].
    - split; [reflexivity|]. destruct O as [ts E].
      destruct (cstep_shape _ _ _ _ _ _ _ _ _ St (only_tget _ _ E)) as (ts' & E' & _).
      exists ts'. rewrite E', E. cbn [tset]. rewrite Nat.eqb_refl. reflexivity.
    - rewrite (only_other g u O N) in St. discriminate.
  Qed.

  Lemma only_run sched : forall g, only g -> only (run g sched).
  Proof using.
    induction sched as [|u r IH]; intros g O; cbn [crun]; [exact O|].
    destruct (step g u) as [g'|] eqn:St; [|apply IH, O].
    apply IH. eapply only_step; eassumption.
  Qed.

  Lemma only_init : only g0.
  Proof using. eexists. reflexivity. Qed.

  Lemma only_reach g : Reach g -> only g.
  Proof using. intros [sched ->]. apply only_run, only_init. Qed.

  (* a schedule only matters through the number of times it schedules t *)
  Lemma run_count sched : forall g, only g ->
    run g sched = run g (repeat t (count_occ Nat.eq_dec sched t)).
  Proof using.
    induction sched as [|u r IH]; intros g O; [reflexivity|].
    cbn [count_occ]. destruct (Nat.eq_dec u t) as [->|N].
    - cbn [repeat crun]. destruct (step g t) as [g'|] eqn:St; [|apply IH, O].
      apply IH. eapply only_step; eassumption.
    - cbn [crun]. rewrite (only_other g u O N). apply IH, O.
  Qed.

  (* a finished thread does not move *)
  Lemma finished_stuck g : only g -> all_finished g = true -> step g t = None.
  Proof using.
    intros [ts E] AF. unfold all_finished in AF. rewrite E in AF. cbn [forallb snd] in AF.
    unfold cstep. rewrite (only_tget _ _ E). unfold finished_t in AF.
    destruct (t_pc ts); try discriminate AF. destruct (t_calls ts); [reflexivity|discriminate AF].
  Qed.

  Lemma finished_run g n : only g -> all_finished g = true -> run g (repeat t n) = g.
  Proof using.
    intros O AF. induction n as [|n IH]; cbn [repeat crun]; [reflexivity|].
    rewrite (finished_stuck g O AF). exact IH.
  Qed.

  Lemma finished_more g a b : only g -> all_finished (run g (repeat t a)) = true ->
    run g (repeat t (a + b)) = run g (repeat t a).
  Proof using.
    intros O AF. rewrite repeat_app, crun_app. apply finished_run; [apply only_run, O|exact AF].
  Qed.

  Theorem single_thread_deterministic g s1 s2 : only g ->
    all_finished (run g s1) = true -> all_finished (run g s2) = true -> run g s1 = run g s2.
  Proof using.
    intros O. rewrite (run_count s1 g O), (run_count s2 g O).
    set (n1 := count_occ Nat.eq_dec s1 t). set (n2 := count_occ Nat.eq_dec s2 t).
    intros A1 A2. destruct (Nat.le_ge_cases n1 n2) as [L|L].
    - replace n2 with (n1 + (n2 - n1))%nat by lia. symmetry. apply finished_more; assumption.
    - replace n1 with (n2 + (n1 - n2))%nat by lia. apply finished_more; assumption.
  Qed.

  (* the thread is never blocked: it finishes within [potential] of its own steps *)
  Lemma single_thread_completes n : forall g, Reach g -> (potential thr0 g <= n)%nat ->
    all_finished (run g (repeat t n)) = true.
  Proof using cmp_refl cmp_eq cmp_antisym cmp_trans cas0_sorted cas0_named NoCollideC.
    induction n as [|n IH]; intros g R P.
    - cbn [repeat crun]. destruct (all_finished g) eqn:AF; [reflexivity|exfalso].
      destruct (RX C15_deadlock_free g R AF) as [u En]. unfold enabled in En.
      destruct (step g u) as [g'|] eqn:St; [|discriminate].
      pose proof (C15_potential_decreases H cmp cmp_refl cmp_eq cmp_antisym cmp_trans nops bad
                    ckbad thr0 cas0 g u g' R St). lia.
    - destruct (all_finished g) eqn:AF.
      + rewrite finished_run; [exact AF|apply only_reach, R|exact AF].
      + destruct (RX C15_deadlock_free g R AF) as [u En]. unfold enabled in En.
        destruct (step g u) as [g'|] eqn:St; [|discriminate].
        destruct (only_step g u g' (only_reach g R) St) as [-> _].
        pose proof (C15_potential_decreases H cmp cmp_refl cmp_eq cmp_antisym cmp_trans nops bad
                      ckbad thr0 cas0 g t g' R St).
        cbn [repeat crun]. rewrite St. apply IH; [eapply reachable_step; eassumption|lia].
  Qed.

  (* Z1 *)
  Theorem single_thread_runs_to_completion :
    (forall n, (total_work thr0 cas0 <= n)%nat -> all_finished (run g0 (repeat t n)) = true) /\
    (forall s1 s2, all_finished (run g0 s1) = true -> all_finished (run g0 s2) = true ->
                   run g0 s1 = run g0 s2).
  Proof using cmp_refl cmp_eq cmp_antisym cmp_trans cas0_sorted cas0_named NoCollideC.
    split.
    - intros n Hn. apply single_thread_completes; [apply reachable_init|exact Hn].
    - intros s1 s2. apply single_thread_deterministic, only_init.
  Qed.
End Single.

(* ------------------------------------------------------------------------------------ *)
(* one thread, no faults, no initial blobs: the refinement invariant *)

(* the result of a read of a present key whose content is x *)
Definition rd_res (md : rmode) (x : bytes) : cres :=
  match md with
  | MFull => CBytes (Some x)
  | MSize => CSize (Some (len x))
  | MRange a b => range_res x a b
  end.

Section Bridge.
  Variable H : bytes -> bytes.
  Variable cmp : bytes -> bytes -> comparison.
  Hypothesis cmp_refl : forall a, cmp a a = Eq.
  Hypothesis cmp_eq : forall a b, cmp a b = Eq -> a = b.
  Hypothesis cmp_antisym : forall a b, cmp b a = CompOpp (cmp a b).
  Hypothesis cmp_trans : forall a b c, cmp a b = Lt -> cmp b c = Lt -> cmp a c = Lt.
  Variable nops : N.
  Variable bad : bytes -> bool.
  Variable ckbad : bool.
  Hypothesis NB : forall h, bad h = false.
  Hypothesis NC : ckbad = false.
  Variable t : nat.
  Variable cs : list ccall.
  Local Notation thr0 := [(t, cs)].
  Local Notation AC := (allc thr0 []).
  Hypothesis NoCollideC : forall a b, In a AC -> In b AC -> H a = H b -> a = b.

  Local Notation Reach := (reachable H cmp nops bad ckbad thr0 []).
  Local Notation step := (cstep H cmp nops bad ckbad).
  Local Notation run := (crun H cmp nops bad ckbad).
  Local Notation g0 := (init_c thr0 []).
  Local Notation km_of := (StoreInv.km_of H).
  Local Notation item_of := (StoreInv.item_of H).
  Local Notation KX L := (L cmp cmp_refl cmp_eq cmp_antisym cmp_trans) (only parsing).
  Local Notation KM L := (L H cmp) (only parsing).

  Lemma nil_sorted : sorted lex_cmp (@nil (bytes * bytes)).
  Proof using. exact I. Qed.
  Lemma nil_named : forall h c : bytes, In (h, c) [] -> H c = h.
  Proof using. intros h c []. Qed.

  Local Notation RX L :=
    (L H cmp cmp_refl cmp_eq cmp_antisym cmp_trans nops bad ckbad thr0 (one_nodup t cs)
       [] nil_sorted nil_named NoCollideC) (only parsing).

  Lemma cspec_rd M k md :
    cspec cmp M (rd_call k md)
    = (M, match sm_get cmp M k with None => absent_result md | Some x => rd_res md x end).
  Proof using.
    destruct md; cbn [rd_call cspec absent_result rd_res]; destruct (sm_get cmp M k); reflexivity.
  Qed.

  Lemma pre_open_rd md x r : pre_open md (item_of x) = Some r -> r = rd_res md x.
  Proof using.
    destruct md as [| |a b]; cbn [pre_open rd_res StoreInv.item_of isize]; [discriminate| |].
    - intros E; injection E as <-. reflexivity.
    - unfold range_res. destruct (len x <=? a); [intros E; injection E as <-; reflexivity|].
      destruct (N.min b (len x) <? a); [intros E; injection E as <-; reflexivity|discriminate].
  Qed.

  Lemma read_result_rd md x : pre_open md (item_of x) = None ->
    read_result md (item_of x) x = rd_res md x.
  Proof using.
    destruct md as [| |a b]; cbn [pre_open read_result rd_res StoreInv.item_of isize];
      [reflexivity|discriminate|].
    unfold range_res. destruct (len x <=? a); [discriminate|].
    destruct (N.min b (len x) <? a); [discriminate|reflexivity].
  Qed.

  (* what remains to be returned: the results so far, then the specification run from M *)
  Definition Fut (res : list cres) (M : smap bytes) (calls : list ccall) : Prop :=
    res ++ cspec_outs cmp M calls = cspec_outs cmp [] cs /\
    cspec_final cmp M calls = cspec_final cmp [] cs.

  Lemma Fut_cons res M c rest : Fut res M (c :: rest) ->
    Fut (res ++ [snd (cspec cmp M c)]) (fst (cspec cmp M c)) rest.
  Proof using. intros [A B]. split; [rewrite <- app_assoc; exact A|exact B]. Qed.

  Definition Good (M : smap bytes) : Prop :=
    sorted cmp M /\ forall k c, In (k, c) M -> In c AC.

  Lemma Good_ins M k c : Good M -> In c AC -> Good (sm_ins cmp M k c).
  Proof using cmp_refl cmp_eq cmp_antisym cmp_trans.
    intros [S C] Ic. split; [apply (KX sorted_ins), S|].
    intros k' c' I'. apply (KX In_ins) in I'. destruct I' as [E|I']; [|eapply C, I'].
    injection E as -> ->. exact Ic.
  Qed.

  Lemma Good_fold_del M ks : Good M -> Good (fold_left (fun m k => sm_del cmp m k) ks M).
  Proof using cmp_refl cmp_eq cmp_antisym cmp_trans.
    intros [S C]. split; [apply (KX cs_fold_del_sorted), S|].
    intros k' c' I'. apply In_fold_del in I'. eapply C, I'.
  Qed.

  (* the outcome of the second half of a write parked before its apply *)
  Definition wk_out (M : smap bytes) (w : wkind) (M' : smap bytes) (r : cres) : Prop :=
    match w with
    | WPut k h sz =>
      exists c, In c AC /\ h = H c /\ sz = len c /\ M' = sm_ins cmp M k c /\ r = CUnit
    | WRm ks r0 => M' = fold_left (fun m k => sm_del cmp m k) ks M /\ r = r0
    end.

  (* J M p M' r: the call in progress of a thread parked at p, the key map being km_of M, ends
     with the key map km_of M' and returns r *)
  Definition J (M : smap bytes) (p : pc) (M' : smap bytes) (r : cres) : Prop :=
    match p with
    | Idle | PDropI _ _ _ | GReread _ _ _ | GOpenL _ _ _ => False
    | PReg k c | PILock k c | PRen k c _ => M' = sm_ins cmp M k c /\ r = CUnit
    | WLockI w | WLockS w | WLockW w => wk_out M w M' r
    | WApplied w _ _ | WUnlink w _ _ | WReleased w _ => M' = M /\ r = wres w
    | WCkS r0 _ | WCkW r0 _ => M' = M /\ r = r0
    | RRead k => (M', r) = cspec cmp M (KRemove k)
    | RScanned k => sm_get cmp M k <> None /\ M' = sm_del cmp M k /\ r = CBool true
    | RRRead lo hi => (M', r) = cspec cmp M (KRemoveRange lo hi)
    | RRScanned ks =>
      M' = fold_left (fun m k => sm_del cmp m k) ks M /\ r = CNum (N.of_nat (length ks))
    | GRead k md => (M', r) = cspec cmp M (rd_call k md)
    | GLooked k it md =>
      exists x, sm_get cmp M k = Some x /\ it = item_of x /\ M' = M /\ r = rd_res md x
    | GOpen k it md =>
      exists x, sm_get cmp M k = Some x /\ it = item_of x /\ pre_open md it = None /\
                M' = M /\ r = rd_res md x
    | IRead => M' = M /\ r = CKeys (map fst M)
    | OLockI todo d s => M' = M /\ r = COrphans d (s + N.of_nat (length todo))
    | ORead _ rest d s | OUnlink _ rest d s =>
      M' = M /\ r = COrphans d (s + 1 + N.of_nat (length rest))
    end.

  Definition SI (g : cstate) : Prop :=
    exists ts M, g_thr g = [(t, ts)] /\ km (g_idx g) = km_of M /\ Good M /\
      ((t_pc ts = Idle /\ Fut (t_res ts) M (t_calls ts)) \/
       (exists M' r, J M (t_pc ts) M' r /\ Fut (t_res ts ++ [r]) M' (t_calls ts))).

  Lemma SI_busy g' calls p res M M' r :
    g_thr g' = [(t, mkT calls p res)] -> km (g_idx g') = km_of M -> Good M ->
    J M p M' r -> Fut (res ++ [r]) M' calls -> SI g'.
  Proof using.
    intros A B C D E. exists (mkT calls p res), M.
    split; [exact A|]. split; [exact B|]. split; [exact C|].
    right. exists M', r. split; [exact D|exact E].
  Qed.

  Lemma SI_idle g' calls res M :
    g_thr g' = [(t, mkT calls Idle res)] -> km (g_idx g') = km_of M -> Good M ->
    Fut res M calls -> SI g'.
  Proof using.
    intros A B C E. exists (mkT calls Idle res), M.
    split; [exact A|]. split; [exact B|]. split; [exact C|].
    left. split; [reflexivity|exact E].
  Qed.

  Lemma SI_init : SI g0.
  Proof using.
    apply (SI_idle g0 cs [] []); [reflexivity|reflexivity|split; [exact I|intros k c []]|].
    split; reflexivity.
  Qed.

  Ltac thr_tac Hthr :=
    unfold set_pc, finish; cbn [g_thr]; rewrite Hthr; cbn [tset t_calls t_res];
    rewrite Nat.eqb_refl; reflexivity.
  Ltac go := let E := fresh "E" in intros E; injection E as <-.

  Lemma si_step g g' : Reach g -> SI g -> step g t = Some g' -> SI g'.
  Proof using cmp_refl cmp_eq cmp_antisym cmp_trans NB NC NoCollideC.
    intros R (ts & M & Hthr & Hkm & HG & Hcase) St.
    pose proof (RX reachable_inv g R) as Iv.
    assert (Ht : tget (g_thr g) t = Some ts) by (eapply only_tget; exact Hthr).
    destruct (ci_pc _ _ _ _ _ _ Iv _ _ Ht) as [Pt _].
    pose proof HG as [HS HC].
    revert St. unfold cstep. rewrite Ht.
    destruct Hcase as [[Hpc HF]|(M' & r & HJ & HF)].
    - (* the thread takes its next call *)
      rewrite Hpc. destruct (t_calls ts) as [|c rest] eqn:Hc; [discriminate|].
      apply Fut_cons in HF.
      destruct c as [k x|k x|k|lo hi|k|k|k a b| | |hs]; try (go).
      + eapply SI_busy; [thr_tac Hthr|exact Hkm|exact HG| |exact HF]. split; reflexivity.
      + eapply SI_idle; [thr_tac Hthr|exact Hkm|exact HG|exact HF].
      + eapply SI_busy; [thr_tac Hthr|exact Hkm|exact HG| |exact HF]. reflexivity.
      + eapply SI_busy; [thr_tac Hthr|exact Hkm|exact HG| |exact HF]. reflexivity.
      + eapply SI_busy; [thr_tac Hthr|exact Hkm|exact HG| |exact HF]. reflexivity.
      + eapply SI_busy; [thr_tac Hthr|exact Hkm|exact HG| |exact HF]. reflexivity.
      + eapply SI_busy; [thr_tac Hthr|exact Hkm|exact HG| |exact HF]. reflexivity.
      + eapply SI_busy; [thr_tac Hthr|exact Hkm|exact HG| |exact HF]. split; reflexivity.
      + eapply SI_busy; [thr_tac Hthr|exact Hkm|exact HG| |exact HF]. split; reflexivity.
      + destruct hs as [|h hs]; go.
        * eapply SI_idle; [thr_tac Hthr|exact Hkm|exact HG|exact HF].
        * eapply SI_busy; [thr_tac Hthr|exact Hkm|exact HG| |exact HF].
          split; [reflexivity|]. cbn [cspec snd]. rewrite N.add_0_l. reflexivity.
    - (* the thread continues its call *)
      revert Pt HJ HF.
      destruct (t_pc ts) eqn:Hpc; cbn [pc_ok J]; intros Pt HJ HF; try contradiction.
      + (* PReg *) go. eapply SI_busy; [thr_tac Hthr|exact Hkm|exact HG|exact HJ|exact HF].
      + (* PILock *) destruct (free (g_I g)); [|discriminate]. go.
        eapply SI_busy; [thr_tac Hthr|exact Hkm|exact HG|exact HJ|exact HF].
      + (* PRen *) rewrite NB. go.
        eapply SI_busy; [thr_tac Hthr|exact Hkm|exact HG| |exact HF].
        destruct HJ as [-> ->]. exists c. split; [apply in_or_app; left; exact Pt|].
        repeat split; reflexivity.
      + (* WLockI *) destruct (free (g_I g)); [|discriminate]. go.
        eapply SI_busy; [thr_tac Hthr|exact Hkm|exact HG|exact HJ|exact HF].
      + (* WLockS *) destruct (free (g_S g) && noreaders g); [|discriminate]. go.
        eapply SI_busy; [thr_tac Hthr|exact Hkm|exact HG|exact HJ|exact HF].
      + (* WLockW *)
        destruct (apply_op cmp (g_idx g) (wop w)) as [[idx' un]|e] eqn:A; [|discriminate]. go.
        destruct (KX C12_km_spec _ _ _ _ A) as [K' _].
        destruct w as [k h sz|ks r0]; cbn [wk_out wop km_expected] in HJ, K'.
        * destruct HJ as (c & Ic & -> & -> & -> & ->).
          eapply SI_busy; [thr_tac Hthr| |apply Good_ins; [exact HG|exact Ic]| |exact HF].
          -- cbn [g_idx]. rewrite K', Hkm, (KM cs_km_ins). reflexivity.
          -- split; reflexivity.
        * destruct HJ as [-> ->].
          eapply SI_busy; [thr_tac Hthr| |apply Good_fold_del; exact HG| |exact HF].
          -- cbn [g_idx]. rewrite K', Hkm, (KM cs_km_fold_del). reflexivity.
          -- split; reflexivity.
      + (* WApplied *)
        destruct w as [k h sz|ks r0];
          match goal with |- context [filter ?f un] => destruct (filter f un) end; go;
          (eapply SI_busy; [thr_tac Hthr|exact Hkm|exact HG|exact HJ|exact HF]).
      + (* WUnlink *)
        destruct todo as [|h rest]; [discriminate|]. rewrite NB.
        destruct rest; go; (eapply SI_busy; [thr_tac Hthr|exact Hkm|exact HG|exact HJ|exact HF]).
      + (* WReleased *)
        destruct rolled; go.
        * eapply SI_busy; [thr_tac Hthr|exact Hkm|exact HG|exact HJ|exact HF].
        * destruct HJ as [-> ->]. eapply SI_idle; [thr_tac Hthr|exact Hkm|exact HG|exact HF].
      + (* WCkS *) destruct (free (g_S g) && noreaders g); [|discriminate]. go.
        eapply SI_busy; [thr_tac Hthr|exact Hkm|exact HG|exact HJ|exact HF].
      + (* WCkW *) destruct HJ as [-> ->]. cbv zeta.
        match goal with |- (if ?c then _ else _) = _ -> _ => destruct c end; go.
        * eapply SI_idle; [thr_tac Hthr|exact Hkm|exact HG|exact HF].
        * rewrite NC. eapply SI_idle; [thr_tac Hthr|exact Hkm|exact HG|exact HF].
      + (* RRead *) destruct (free (g_S g)); [|discriminate].
        rewrite Hkm, (KM cs_km_get). cbn [cspec] in HJ. injection HJ as -> ->.
        destruct (sm_get cmp M k) as [x|] eqn:G; cbn [option_map]; go.
        * eapply SI_busy; [thr_tac Hthr|exact Hkm|exact HG| |exact HF].
          split; [congruence|split; reflexivity].
        * rewrite (KX del_absent _ _ G) in HF.
          eapply SI_idle; [thr_tac Hthr|exact Hkm|exact HG|exact HF].
      + (* RScanned *) go. destruct HJ as (_ & -> & ->).
        eapply SI_busy; [thr_tac Hthr|exact Hkm|exact HG| |exact HF]. split; reflexivity.
      + (* RRRead *) destruct (free (g_S g)); [|discriminate]. go.
        cbn [cspec] in HJ. injection HJ as -> ->.
        eapply SI_busy; [thr_tac Hthr|exact Hkm|exact HG| |exact HF].
        cbn [J]. rewrite Hkm, (KM cs_keys_in), map_length. split; [|reflexivity].
        symmetry. apply (KX cs_fold_del_filter (in_range cmp lo hi)), HS.
      + (* RRScanned *) destruct ks as [|k0 ks]; go.
        * destruct HJ as [-> ->]. eapply SI_idle; [thr_tac Hthr|exact Hkm|exact HG|exact HF].
        * eapply SI_busy; [thr_tac Hthr|exact Hkm|exact HG|exact HJ|exact HF].
      + (* GRead *) destruct (free (g_S g)); [|discriminate].
        rewrite Hkm, (KM cs_km_get). rewrite cspec_rd in HJ. injection HJ as -> ->.
        destruct (sm_get cmp M k) as [x|] eqn:G; cbn [option_map]; go.
        * eapply SI_busy; [thr_tac Hthr|exact Hkm|exact HG| |exact HF].
          exists x. repeat split; [exact G].
        * eapply SI_idle; [thr_tac Hthr|exact Hkm|exact HG|exact HF].
      + (* GLooked *) destruct HJ as (x & G & -> & -> & ->).
        destruct (pre_open md (item_of x)) as [r1|] eqn:P; go.
        * apply pre_open_rd in P. subst r1.
          eapply SI_idle; [thr_tac Hthr|exact Hkm|exact HG|exact HF].
        * eapply SI_busy; [thr_tac Hthr|exact Hkm|exact HG| |exact HF].
          exists x. repeat split; assumption.
      + (* GOpen *) destruct HJ as (x & G & -> & P & -> & ->). rewrite NB.
        destruct (sm_get lex_cmp (g_cas g) (ihash (item_of x))) as [c|] eqn:Gc; go.
        * assert (c = x).
          { apply (lex_get_in _ _ _ (ci_cas_sorted _ _ _ _ _ _ Iv)) in Gc.
            destruct (ci_cas_named _ _ _ _ _ _ Iv _ _ Gc) as [Hh Ic].
            apply NoCollideC; [exact Ic| |exact Hh].
            eapply HC. apply (KX get_in _ _ _ HS). exact G. }
          subst c. rewrite (read_result_rd _ _ P).
          eapply SI_idle; [thr_tac Hthr|exact Hkm|exact HG|exact HF].
        * exfalso.
          assert (Gk : sm_get cmp (km (g_idx g)) k = Some (item_of x))
            by (rewrite Hkm, (KM cs_km_get), G; reflexivity).
          destruct (RX C04_no_dangling g R _ _ Gk) as (c & Gc' & _). congruence.
      + (* IRead *) destruct (free (g_S g)); [|discriminate].
        rewrite Hkm, (cs_km_keys H). go. destruct HJ as [-> ->].
        eapply SI_idle; [thr_tac Hthr|exact Hkm|exact HG|exact HF].
      + (* OLockI *) destruct HJ as [-> ->]. destruct todo as [|h rest].
        * go. cbn [length] in HF. change (N.of_nat 0) with 0 in HF. rewrite N.add_0_r in HF.
          eapply SI_idle; [thr_tac Hthr|exact Hkm|exact HG|exact HF].
        * destruct (free (g_I g)); [|discriminate]. go.
          eapply SI_busy; [thr_tac Hthr|exact Hkm|exact HG| |exact HF].
          split; [reflexivity|]. f_equal. cbn [length]. lia.
      + (* ORead *) destruct HJ as [-> ->]. destruct (free (g_S g)); [|discriminate].
        match goal with |- (if ?c then _ else _) = _ -> _ => destruct c end.
        * destruct todo as [|h' rest]; go.
          -- cbn [length] in HF. change (N.of_nat 0) with 0 in HF. rewrite N.add_0_r in HF.
             eapply SI_idle; [thr_tac Hthr|exact Hkm|exact HG|exact HF].
          -- eapply SI_busy; [thr_tac Hthr|exact Hkm|exact HG| |exact HF]. split; reflexivity.
        * go. eapply SI_busy; [thr_tac Hthr|exact Hkm|exact HG| |exact HF]. split; reflexivity.
      + (* OUnlink *) destruct HJ as [-> ->]. rewrite NB.
        destruct (sm_get lex_cmp (g_cas g) h) as [c|] eqn:Gc.
        * exfalso. destruct Pt as [P1 P2].
          destruct (ci_accounted _ _ _ _ _ _ Iv _ _ Gc)
            as [A|[A|[(u & tsu & Gu & P)|[A|((y & By) & _)]]]].
          -- lia.
          -- contradiction.
          -- rewrite Hthr in Gu. cbn [tget] in Gu. destruct (Nat.eqb u t); [|discriminate].
             injection Gu as <-. rewrite Hpc in P. exact P.
          -- destruct A.
          -- rewrite NB in By. discriminate.
        * cbn beta iota zeta. destruct todo as [|h' rest]; go.
          -- cbn [length] in HF. change (N.of_nat 0) with 0 in HF. rewrite N.add_0_r in HF.
             eapply SI_idle; [thr_tac Hthr|exact Hkm|exact HG|exact HF].
          -- eapply SI_busy; [thr_tac Hthr|exact Hkm|exact HG| |exact HF]. split; reflexivity.
  Qed.

  Lemma si_run sched : forall g, Reach g -> SI g -> SI (run g sched).
  Proof using cmp_refl cmp_eq cmp_antisym cmp_trans NB NC NoCollideC.
    induction sched as [|u r IH]; intros g R S; cbn [crun]; [exact S|].
    destruct (step g u) as [g'|] eqn:St; [|apply IH; assumption].
    assert (u = t).
    { destruct S as (ts & M & E & _).
      eapply (only_step H cmp nops bad ckbad t); [eexists; exact E|exact St]. }
    subst u. apply IH; [eapply reachable_step; eassumption|eapply si_step; eassumption].
  Qed.

  (* the invariant holds after every schedule *)
  Theorem SI_always sched : SI (run g0 sched).
  Proof using cmp_refl cmp_eq cmp_antisym cmp_trans NB NC NoCollideC.
    apply si_run; [apply reachable_init|apply SI_init].
  Qed.

  (* at every moment of every schedule the results returned so far are a prefix of the
     results of the specification *)
  Theorem single_thread_results_prefix_AC sched ts :
    tget (g_thr (run g0 sched)) t = Some ts ->
    exists rest, t_res ts ++ rest = cspec_outs cmp [] cs.
  Proof using cmp_refl cmp_eq cmp_antisym cmp_trans NB NC NoCollideC.
    intros G. destruct (SI_always sched) as (ts' & M & Hthr & _ & _ & Hcase).
    rewrite Hthr in G. cbn [tget] in G. rewrite Nat.eqb_refl in G. injection G as <-.
    destruct Hcase as [[_ [F _]]|(M' & r & _ & [F _])].
    - eexists; exact F.
    - rewrite <- app_assoc in F. eexists; exact F.
  Qed.

  (* Z2 *)
  Theorem single_thread_is_the_ordered_map_AC sched :
    all_finished (run g0 sched) = true ->
    let g := run g0 sched in
    let Mf := cspec_final cmp [] cs in
    g_thr g = [(t, mkT [] Idle (cspec_outs cmp [] cs))] /\
    km (g_idx g) = km_of Mf /\
    sorted cmp Mf /\
    (forall k it, sm_get cmp (km (g_idx g)) k = Some it <->
                  exists c, sm_get cmp Mf k = Some c /\ it = mkItem (H c) (len c)) /\
    (forall h x, sm_get lex_cmp (g_cas g) h = Some x <-> (exists k, In (k, x) Mf) /\ h = H x).
  Proof using cmp_refl cmp_eq cmp_antisym cmp_trans NB NC NoCollideC.
    intros AF g Mf.
    assert (R : Reach g) by (exists sched; reflexivity).
    pose proof (RX reachable_inv g R) as Iv.
    destruct (SI_always sched) as (ts & M & Hthr & Hkm & [HS HC] & Hcase).
    fold g in Hthr, Hkm.
    assert (Fin : t_pc ts = Idle /\ t_calls ts = []).
    { pose proof AF as AF'. unfold all_finished in AF'. fold g in AF'. rewrite Hthr in AF'.
      cbn [forallb snd] in AF'. unfold finished_t in AF'.
      destruct (t_pc ts); try discriminate AF'. destruct (t_calls ts); [|discriminate AF'].
      split; reflexivity. }
    destruct Fin as [Hpc Hcalls].
    destruct Hcase as [[_ [F1 F2]]|(M' & r & HJ & _)]; [|rewrite Hpc in HJ; destruct HJ].
    rewrite Hcalls in F1, F2. cbn [cspec_outs] in F1. rewrite app_nil_r in F1.
    unfold cspec_final in F2 at 1. cbn [fold_left] in F2. subst M. fold Mf in Hkm, HS, HC.
    assert (Gk : forall k, sm_get cmp (km (g_idx g)) k = option_map item_of (sm_get cmp Mf k))
      by (intros k; rewrite Hkm; apply (KM cs_km_get)).
    split; [|split; [exact Hkm|split; [exact HS|split]]].
    - rewrite Hthr. destruct ts as [calls p res]. cbn [t_pc t_calls t_res] in *. subst. reflexivity.
    - intros k it. rewrite Gk. split.
      + destruct (sm_get cmp Mf k) as [c|]; cbn [option_map]; [|discriminate].
        intros E; injection E as <-. exists c. split; reflexivity.
      + intros (c & -> & ->). reflexivity.
    - pose proof (RX C07_quiescent_exact g eq_refl R AF (or_introl NB)) as EX.
      intros h x. split.
      + intros Gc.
        destruct (proj1 (EX h)) as (k & it & Ik & Eh); [congruence|].
        rewrite Hkm in Ik. apply (cs_km_in H) in Ik. destruct Ik as (c & Ic & ->).
        cbn [StoreInv.item_of ihash] in Eh.
        apply (lex_get_in _ _ _ (ci_cas_sorted _ _ _ _ _ _ Iv)) in Gc.
        destruct (ci_cas_named _ _ _ _ _ _ Iv _ _ Gc) as [Hh Ix].
        assert (x = c) by (apply NoCollideC; [exact Ix|eapply HC, Ic|congruence]).
        subst c. split; [exists k; exact Ic|congruence].
      + intros [[k Ik] ->].
        destruct (sm_get lex_cmp (g_cas g) (H x)) as [x'|] eqn:Gc.
        * apply (lex_get_in _ _ _ (ci_cas_sorted _ _ _ _ _ _ Iv)) in Gc.
          destruct (ci_cas_named _ _ _ _ _ _ Iv _ _ Gc) as [Hh Ix].
          f_equal. apply NoCollideC; [exact Ix|eapply HC, Ik|exact Hh].
        * exfalso. apply (proj2 (EX (H x))); [|exact Gc].
          exists k, (item_of x). split; [|reflexivity].
          rewrite Hkm. apply (cs_km_in H). exists x. split; [exact Ik|reflexivity].
  Qed.
End Bridge.

(* the contents that can reach the blob directory of a one-thread run without initial blobs
   are the contents put by the program *)
Lemma allc_single t cs x : In x (allc [(t, cs)] []) <-> In x (flat_map call_contents cs).
Proof.
  unfold allc, contents. cbn [flat_map map snd]. rewrite !app_nil_r. reflexivity.
Qed.

Section Main.
  Variable H : bytes -> bytes.
  Variable cmp : bytes -> bytes -> comparison.
  Hypothesis cmp_refl : forall a, cmp a a = Eq.
  Hypothesis cmp_eq : forall a b, cmp a b = Eq -> a = b.
  Hypothesis cmp_antisym : forall a b, cmp b a = CompOpp (cmp a b).
  Hypothesis cmp_trans : forall a b c, cmp a b = Lt -> cmp b c = Lt -> cmp a c = Lt.
  Variable nops : N.
  Variable bad : bytes -> bool.
  Variable ckbad : bool.
  Hypothesis NB : forall h, bad h = false.
  Hypothesis NC : ckbad = false.
  Variable t : nat.
  Variable cs : list ccall.
  (* collision-freedom of H on the contents put by the program *)
  Hypothesis NoCol : StoreInv.NoCollide H (flat_map call_contents cs).

  Lemma NoCol_allc : forall a b, In a (allc [(t, cs)] []) -> In b (allc [(t, cs)] []) ->
    H a = H b -> a = b.
  Proof using NoCol. intros a b Ia Ib. apply NoCol; apply (allc_single t cs); assumption. Qed.

  Local Notation run := (crun H cmp nops bad ckbad).
  Local Notation g0 := (init_c [(t, cs)] []).

  (* Z2: after ANY schedule that runs the single thread to completion: the thread state is
     finished with the results of the specification, the key map is the image of the final map
     of the specification, and the blob directory holds exactly the blobs of that map *)
  Theorem single_thread_is_the_ordered_map sched :
    all_finished (run g0 sched) = true ->
    let g := run g0 sched in
    let Mf := cspec_final cmp [] cs in
    g_thr g = [(t, mkT [] Idle (cspec_outs cmp [] cs))] /\
    km (g_idx g) = StoreInv.km_of H Mf /\
    sorted cmp Mf /\
    (forall k it, sm_get cmp (km (g_idx g)) k = Some it <->
                  exists c, sm_get cmp Mf k = Some c /\ it = mkItem (H c) (len c)) /\
    (forall h x, sm_get lex_cmp (g_cas g) h = Some x <-> (exists k, In (k, x) Mf) /\ h = H x).
  Proof using cmp_refl cmp_eq cmp_antisym cmp_trans NB NC NoCol.
    apply (single_thread_is_the_ordered_map_AC H cmp cmp_refl cmp_eq cmp_antisym cmp_trans nops
             bad ckbad NB NC t cs NoCol_allc).
  Qed.

  (* before completion: the results returned so far are a prefix of the specification's *)
  Theorem single_thread_results_are_a_prefix sched ts :
    tget (g_thr (run g0 sched)) t = Some ts ->
    exists rest, t_res ts ++ rest = cspec_outs cmp [] cs.
  Proof using cmp_refl cmp_eq cmp_antisym cmp_trans NB NC NoCol.
    apply (single_thread_results_prefix_AC H cmp cmp_refl cmp_eq cmp_antisym cmp_trans nops
             bad ckbad NB NC t cs NoCol_allc).
  Qed.

  (* ... and such schedules exist: t scheduled total_work times (or more) *)
  Corollary single_thread_run_is_the_ordered_map n :
    (total_work [(t, cs)] [] <= n)%nat ->
    let g := run g0 (repeat t n) in
    let Mf := cspec_final cmp [] cs in
    all_finished g = true /\
    tget (g_thr g) t = Some (mkT [] Idle (cspec_outs cmp [] cs)) /\
    km (g_idx g) = StoreInv.km_of H Mf /\
    (forall h x, sm_get lex_cmp (g_cas g) h = Some x <-> (exists k, In (k, x) Mf) /\ h = H x).
  Proof using cmp_refl cmp_eq cmp_antisym cmp_trans NB NC NoCol.
    intros Hn g Mf.
    assert (AF : all_finished g = true).
    { apply (proj1 (single_thread_runs_to_completion H cmp cmp_refl cmp_eq cmp_antisym cmp_trans
                      nops bad ckbad t cs [] I (fun h c (X : In (h, c) []) => match X with end)
                      NoCol_allc)). exact Hn. }
    destruct (single_thread_is_the_ordered_map (repeat t n) AF) as (A & B & _ & _ & D).
    split; [exact AF|]. split; [|split; [exact B|exact D]].
    fold g in A. rewrite A. cbn [tget]. rewrite Nat.eqb_refl. reflexivity.
  Qed.
End Main.

(* ------------------------------------------------------------------------------------ *)
(* Z2': cspec is the specification of the sequential development *)

(* the API call of the sequential development (theories/History.v) that a call of the
   concurrent model stands for; a put / an aborted put writes its content as one chunk *)
Definition api_of_call (c : ccall) : op :=
  match c with
  | KPut k x => OpPut k [x]
  | KAbort k x => OpAbort k [x]
  | KRemove k => OpRemove k
  | KRemoveRange lo hi => OpRemoveRange lo hi
  | KGet k => OpGet k
  | KGetSize k => OpGetSize k
  | KGetRange k a b => OpGetRange k a b
  | KIter => OpIter
  | KCheckpoint => OpCheckpoint
  | KDelOrphans _ => OpDeleteOrphans
  end.

(* the calls with a counterpart in StoreHist.api_op: delete_orphans is not part of the
   ordered-map specification of the sequential development, and (as there) range bounds that
   make BTreeMap::range panic are excluded *)
Definition seq_call (cmp : bytes -> bytes -> comparison) (c : ccall) : Prop :=
  match c with
  | KDelOrphans _ => False
  | KRemoveRange lo hi => range_panics cmp lo hi = false
  | _ => True
  end.

(* a result of the concurrent model and an output of the sequential model say the same: the
   iteration of the concurrent model returns the keys of the entries *)
Definition res_matches (r : cres) (o : out) : Prop :=
  match r, o with
  | CUnit, OutUnit => True
  | CBool b, OutBool b' => b = b'
  | CNum n, OutNum n' => n = n'
  | CBytes x, OutBytes y => x = y
  | CSize x, OutSize y => x = y
  | CKeys ks, OutEntries l => ks = map fst l
  | CInvalid, OutErr EInvalidRange => True
  | _, _ => False
  end.

Lemma slice_clamped x a b : slice x a (N.min b (len x)) = slice x a b.
Proof. rewrite !slice_spec. rewrite <- N.min_assoc, N.min_id. reflexivity. Qed.

Section SeqSpec.
  Variable H : bytes -> bytes.
  Variable cfg : config.
  Local Notation cmp := (key_cmp (c_kt cfg)).

  Theorem cspec_is_the_sequential_spec M c : seq_call cmp c ->
    fst (cspec cmp M c) = spec_step cmp M (api_of_call c) /\
    res_matches (snd (cspec cmp M c)) (spec_out H cfg M (api_of_call c)).
  Proof.
    destruct c as [k x|k x|k|lo hi|k|k|k a b| | |hs];
      cbn [seq_call cspec api_of_call spec_step spec_out fst snd res_matches concat];
      intros SC; try contradiction; try (split; reflexivity).
    - rewrite app_nil_r. split; reflexivity.
    - rewrite SC, andb_false_r. split; reflexivity.
    - split; [reflexivity|].
      destruct (sm_get cmp M k) as [x|]; [|reflexivity].
      unfold range_res.
      destruct (N.leb_spec (len x) a) as [L|L].
      + replace (a <? len x) with false by lia. rewrite andb_false_r.
        cbn [res_matches]. rewrite slice_beyond by exact L. reflexivity.
      + replace (a <? len x) with true by lia. rewrite andb_true_r.
        destruct (N.ltb_spec b a) as [L2|L2].
        * replace (N.min b (len x) <? a) with true by lia. exact I.
        * replace (N.min b (len x) <? a) with false by lia.
          cbn [res_matches]. rewrite slice_clamped. reflexivity.
    - split; [reflexivity|]. symmetry. apply (cs_km_keys H).
  Qed.

  (* ... so the final map of a program is the fold of History.spec_step and its results are
     StoreHist.spec_outs *)
  Theorem cspec_final_is_spec_fold cs : forall M, Forall (seq_call cmp) cs ->
    cspec_final cmp M cs = fold_left (spec_step cmp) (map api_of_call cs) M.
  Proof.
    unfold cspec_final. induction cs as [|c r IH]; intros M F; cbn [map fold_left]; [reflexivity|].
    inversion F as [|? ? Fc Fr]; subst.
    rewrite (proj1 (cspec_is_the_sequential_spec M c Fc)). apply IH, Fr.
  Qed.

  Theorem cspec_outs_are_spec_outs cs : forall M, Forall (seq_call cmp) cs ->
    Forall2 res_matches (cspec_outs cmp M cs) (spec_outs H cfg M (map api_of_call cs)).
  Proof.
    induction cs as [|c r IH]; intros M F; cbn [map cspec_outs spec_outs]; [constructor|].
    inversion F as [|? ? Fc Fr]; subst.
    destruct (cspec_is_the_sequential_spec M c Fc) as [E1 E2].
    constructor; [exact E2|]. rewrite <- E1. apply IH, Fr.
  Qed.

  (* Z2 in the words of the sequential development: one thread of the concurrent model, run to
     completion under any schedule, returns what StoreHist.spec_outs prescribes for the same
     history on one open handle (C01_refines_ordered_map), and its key map is km_of of the
     fold of History.spec_step *)
  Theorem single_thread_refines_the_sequential_spec
          (nops : N) (bad : bytes -> bool) (ckbad : bool) (t : nat) (cs : list ccall) sched :
    (forall h, bad h = false) -> ckbad = false ->
    StoreInv.NoCollide H (flat_map call_contents cs) ->
    Forall (seq_call cmp) cs ->
    let g := crun H cmp nops bad ckbad (init_c [(t, cs)] []) sched in
    all_finished g = true ->
    exists res,
      g_thr g = [(t, mkT [] Idle res)] /\
      Forall2 res_matches res (spec_outs H cfg [] (map api_of_call cs)) /\
      km (g_idx g) = StoreInv.km_of H (fold_left (spec_step cmp) (map api_of_call cs) []).
  Proof.
    intros NB NC NoCol F g AF.
    destruct (single_thread_is_the_ordered_map H cmp (key_cmp_refl _) (key_cmp_eq _)
                (key_cmp_antisym _) (key_cmp_trans _) nops bad ckbad NB NC t cs NoCol sched AF)
      as (A & B & _).
    exists (cspec_outs cmp [] cs). split; [exact A|]. split.
    - apply cspec_outs_are_spec_outs, F.
    - fold g in B. rewrite B, (cspec_final_is_spec_fold cs [] F). reflexivity.
  Qed.
End SeqSpec.

(* ------------------------------------------------------------------------------------ *)
(* Z3: an example by computation (toyH, lex_cmp; two operations per WAL segment, so that
   rollover checkpoints happen) with a program that uses every call kind *)

Definition prog1 : list ccall :=
  [ KPut [1] [10; 11; 12]; KPut [2] [13; 14]; KGet [1]; KGetSize [2]; KGet [9]; KGetSize [9];
    KGetRange [1] 1 2; KGetRange [1] 5 9; KGetRange [1] 2 1; KGetRange [9] 0 1;
    KIter; KAbort [3] [9]; KPut [1] [20]; KGet [1]; KRemove [2]; KRemove [7];
    KPut [4] [1; 2; 3; 4]; KPut [5] [20]; KCheckpoint;
    KDelOrphans [ConcExamples.toyH [20]; ConcExamples.toyH [13; 14]]; KDelOrphans [];
    KRemoveRange (Incl [1]) (Excl [5]); KRemoveRange (Incl [6]) Unb; KIter; KGet [5] ].

Lemma prog1_nocollide : StoreInv.NoCollide ConcExamples.toyH (flat_map call_contents prog1).
Proof. unfold StoreInv.NoCollide. apply nocollide_list_sound. vm_compute. reflexivity. Qed.

Definition prog1_results : list cres :=
  [ CUnit; CUnit; CBytes (Some [10; 11; 12]); CSize (Some 2); CBytes None; CSize None;
    CBytes (Some [11]); CBytes (Some []); CInvalid; CBytes None;
    CKeys [[1]; [2]]; CUnit; CUnit; CBytes (Some [20]); CBool true; CBool false;
    CUnit; CUnit; CUnit;
    COrphans 0 2; COrphans 0 0;
    CNum 2; CNum 0; CKeys [[5]]; CBytes (Some [20]) ].

(* the specification, computed *)
Example prog1_spec :
  cspec_outs lex_cmp [] prog1 = prog1_results /\ cspec_final lex_cmp [] prog1 = [([5], [20])].
Proof. vm_compute. split; reflexivity. Qed.

(* the concurrent model, computed: thread 0 scheduled 400 times *)
Example prog1_run :
  let g := crun ConcExamples.toyH lex_cmp 2 nobad false (init_c [(0%nat, prog1)] []) (repeat 0%nat 400) in
  all_finished g = true /\
  tget (g_thr g) 0%nat = Some (mkT [] Idle prog1_results) /\
  km (g_idx g) = [([5], mkItem (ConcExamples.toyH [20]) 1)] /\
  g_cas g = [(ConcExamples.toyH [20], [20])].
Proof. vm_compute. repeat split; reflexivity. Qed.

(* the same from the theorem, for EVERY schedule that completes the thread and every
   num_ops_per_wal *)
Example prog1_every_schedule nops sched :
  let g := crun ConcExamples.toyH lex_cmp nops nobad false (init_c [(0%nat, prog1)] []) sched in
  all_finished g = true ->
  g_thr g = [(0%nat, mkT [] Idle prog1_results)] /\
  km (g_idx g) = [([5], mkItem (ConcExamples.toyH [20]) 1)] /\
  (forall h x, sm_get lex_cmp (g_cas g) h = Some x <-> x = [20] /\ h = ConcExamples.toyH [20]).
Proof.
  intros g AF.
  destruct (single_thread_is_the_ordered_map ConcExamples.toyH lex_cmp lex_refl lex_eq lex_antisym
              lex_trans nops nobad false (fun _ => eq_refl) eq_refl 0%nat prog1 prog1_nocollide
              sched AF) as (A & B & _ & _ & D).
  fold g in A, B, D. destruct prog1_spec as [E1 E2]. rewrite E1 in A. rewrite E2 in B, D.
  split; [exact A|]. split; [exact B|].
  intros h x. rewrite D. split.
  - intros [[k [E|[]]] ->]. injection E as _ <-. split; reflexivity.
  - intros [-> ->]. split; [exists [5]; left; reflexivity|reflexivity].
Qed.

Print Assumptions single_thread_runs_to_completion.
Print Assumptions single_thread_is_the_ordered_map.
Print Assumptions single_thread_run_is_the_ordered_map.
Print Assumptions single_thread_results_are_a_prefix.
Print Assumptions cspec_is_the_sequential_spec.
Print Assumptions single_thread_refines_the_sequential_spec.
Print Assumptions prog1_run.
Print Assumptions prog1_every_schedule.
