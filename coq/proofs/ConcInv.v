(* ConcInv.v -- the invariant of the concurrent model theories/Conc.v.

   [ConcInv g] is an inductive invariant of [cstep] (every thread, every micro-step), it
   holds in [init_c thr0 cas0], hence in every reachable state ([reachable_inv]).

   The clauses (record [ConcInv]):
     ci_nodup      thread ids are unique
     ci_lockI/S    g_I g = Some t  <->  t is parked at a pc that holds I ([holdsI]); same for S
     ci_R          the shared holders g_R are exactly the readers parked at GOpenL, no duplicates
     ci_SR         an exclusive holder of S excludes shared holders: g_S g <> None -> g_R g = []
                   (inductive: a reader enters g_R only when g_S is free, and S is taken
                   exclusively only when g_R is empty)
     ci_idx        IdxInv cmp (g_idx g)                                  (C12 invariant)
     ci_cas_sorted / ci_cas_named   the blob directory is sorted, every blob is stored under
                   its own hash and its content occurs in the programs or in cas0
     ci_nodangling every index entry has its blob, of the recorded size   (C04)
     ci_intents    g_byhash is exactly the number of registered, not yet released intents
                   per hash ([intents], [reg]); registered = PRen, PDropI (a failed rename whose
                   guard has not been dropped yet), WLockI/S/W (WPut), and WApplied (WPut)
                   (the release happens in the step that leaves WApplied, resp. PDropI; the
                   error exit of WUnlink releases NOTHING: the put's intent is already gone)
     ci_pc         per-thread facts [pc_ok]: commit window has its blob, the pending
                   deletions are unreferenced (and unprotected after the filter), the item
                   carried by a reader is a valid item, and for a reader parked at
                   GOpenL k it md (holding S shared) km(k) = it STILL holds -- the key map only
                   changes in WLockW steps, whose thread holds S exclusively ...
     ci_accounted  every blob in the directory is referenced, or protected, or pending in
                   the un/todo list of a thread at WApplied/WUnlink, or an initial orphan,
                   or something has failed ([leaked]: some path is obstructed AND some call
                   has returned CErr) (the extra clause needed for C07 at quiescence)

   Faults: the invariant holds for ARBITRARY fault parameters [bad] (obstructed blob paths) and
   [ckbad] (failing checkpoints) of the model; it depends on bad only through pc_ok (a thread is
   parked at PDropI k h _ only when bad h) and [leaked].  The new steps: PRen with bad (H c)
   (-> PDropI, local), PDropI (step_pdrop: the ledger is decremented once), WUnlink with bad
   head (error exit, I released, local except that the pending deletions become [leaked]),
   GOpen / GOpenL / OUnlink with bad hash, the read pcs in every mode (rmode: get, get_size,
   get_range) with their pre-open exits, the iteration pc IRead (all local) and WCkW (local: a checkpoint that is not skipped
   only records last_persisted_version in the index -- also when the snapshot write fails --
   so the key map, the refcounts and IdxInv are untouched; step_local allows such an idx').

   Setting: H (hash), cmp (key order, four order hypotheses), nops, the programs thr0,
   the initial blob directory cas0 (sorted, well named) and collision freedom over the
   contents that actually occur (NoCollideC). *)
From Cas Require Import Base Codec SMap Index Conc.
From CasProofs Require Import SMapProofs IndexProofs.
From Coq Require Import List NArith Lia Bool Arith.
Import ListNotations.
Open Scope N_scope.

Arguments N.add : simpl never.
Arguments N.sub : simpl never.
Arguments N.mul : simpl never.
Arguments N.div : simpl never.
Arguments N.modulo : simpl never.
Arguments N.eqb : simpl never.
Arguments N.ltb : simpl never.
Arguments N.leb : simpl never.

Local Notation LX L := (L lex_cmp lex_refl lex_eq lex_antisym lex_trans) (only parsing).

(* ------------------------------------------------------------------------------------ *)
(* tget / tset *)

Lemma tget_tset_same l t s : tget (tset l t s) t = Some s.
Proof.
  induction l as [|[u x] r IH]; cbn [tset tget].
  - rewrite Nat.eqb_refl. reflexivity.
  - destruct (Nat.eqb t u) eqn:E; cbn [tget]; rewrite E; [reflexivity|exact IH].
Qed.

Lemma tget_tset_other l t u s : u <> t -> tget (tset l t s) u = tget l u.
Proof.
  intros N. induction l as [|[v x] r IH]; cbn [tset tget].
  - destruct (Nat.eqb u t) eqn:E; [apply Nat.eqb_eq in E; contradiction|reflexivity].
  - destruct (Nat.eqb t v) eqn:E; cbn [tget].
    + apply Nat.eqb_eq in E. subst v.
      destruct (Nat.eqb u t) eqn:E2; [apply Nat.eqb_eq in E2; contradiction|reflexivity].
    + destruct (Nat.eqb u v); [reflexivity|exact IH].
Qed.

Lemma tset_fst l t s s0 : tget l t = Some s0 -> map fst (tset l t s) = map fst l.
Proof.
  induction l as [|[v x] r IH]; cbn [tset tget map fst]; [discriminate|].
  destruct (Nat.eqb t v) eqn:E; cbn [map fst]; [reflexivity|].
  intros G. rewrite (IH G). reflexivity.
Qed.

Lemma tget_In l t s : tget l t = Some s -> In (t, s) l.
Proof.
  induction l as [|[v x] r IH]; cbn [tget]; [discriminate|].
  destruct (Nat.eqb t v) eqn:E.
  - apply Nat.eqb_eq in E. subst v. intros G; inversion G; subst. left; reflexivity.
  - intros G. right. apply IH, G.
Qed.

Lemma In_tget l t s : NoDup (map fst l) -> In (t, s) l -> tget l t = Some s.
Proof.
  induction l as [|[v x] r IH]; cbn [tget map fst]; intros ND I; [destruct I|].
  inversion ND as [|? ? N1 ND']; subst.
  destruct I as [I|I].
  - inversion I; subst. rewrite Nat.eqb_refl. reflexivity.
  - destruct (Nat.eqb t v) eqn:E.
    + apply Nat.eqb_eq in E. subst v. exfalso. apply N1.
      apply in_map_iff. exists (t, s). split; [reflexivity|exact I].
    + apply IH; assumption.
Qed.

(* ------------------------------------------------------------------------------------ *)
(* locks *)

Definition holdsI (p : pc) : bool :=
  match p with
  | WLockS _ | WLockW _ | WApplied _ _ _ | WUnlink _ _ _ | ORead _ _ _ _ | OUnlink _ _ _ _ => true
  | _ => false
  end.
Definition holdsS (p : pc) : bool :=
  match p with WLockW _ | WCkW _ _ => true | _ => false end.

Definition holdsR (p : pc) : bool :=
  match p with GOpenL _ _ _ => true | _ => false end.

(* the lock word L is held by t iff t is parked at a pc satisfying hp *)
Definition lock_inv (L : option nat) (hp : pc -> bool) (thr : list (nat * tstate)) : Prop :=
  forall t, L = Some t <-> exists ts, tget thr t = Some ts /\ hp (t_pc ts) = true.

(* the three ways a step p -> p' of thread t may treat a lock: keep, acquire, release *)
Definition lock_step (L : option nat) (hp : pc -> bool) (p p' : pc) (t : nat) (L' : option nat)
  : Prop :=
  (hp p' = hp p /\ L' = L) \/
  (hp p = false /\ L = None /\ hp p' = true /\ L' = Some t) \/
  (hp p = true /\ hp p' = false /\ L' = None).

Lemma lock_update L hp thr t ts ts' L' :
  lock_inv L hp thr -> tget thr t = Some ts ->
  lock_step L hp (t_pc ts) (t_pc ts') t L' -> lock_inv L' hp (tset thr t ts').
Proof.
  intros Hinv Ht Hstep u. split.
  - intros HL'. destruct (Nat.eq_dec u t) as [->|N].
    + exists ts'. split; [apply tget_tset_same|].
      destruct Hstep as [[E1 E2]|[(E1 & E2 & E3 & E4)|(E1 & E2 & E3)]].
      * subst L'. apply Hinv in HL'. destruct HL' as (ts0 & G & Hh).
        rewrite Ht in G. inversion G; subst. congruence.
      * exact E3.
      * congruence.
    + rewrite (tget_tset_other _ _ _ _ N).
      destruct Hstep as [[E1 E2]|[(E1 & E2 & E3 & E4)|(E1 & E2 & E3)]].
      * subst L'. apply Hinv, HL'.
      * congruence.
      * congruence.
  - intros (tsu & G & Hh). destruct (Nat.eq_dec u t) as [->|N].
    + rewrite tget_tset_same in G. inversion G; subst tsu.
      destruct Hstep as [[E1 E2]|[(E1 & E2 & E3 & E4)|(E1 & E2 & E3)]].
      * subst L'. apply Hinv. exists ts. split; [exact Ht|congruence].
      * exact E4.
      * congruence.
    + rewrite (tget_tset_other _ _ _ _ N) in G.
      assert (HL : L = Some u) by (apply Hinv; exists tsu; split; assumption).
      destruct Hstep as [[E1 E2]|[(E1 & E2 & E3 & E4)|(E1 & E2 & E3)]].
      * congruence.
      * congruence.
      * exfalso. apply N.
        assert (HL2 : L = Some t) by (apply Hinv; exists ts; split; assumption).
        congruence.
Qed.

(* the shared holders of the state lock: exactly the threads parked at GOpenL *)
Definition R_inv (R : list nat) (thr : list (nat * tstate)) : Prop :=
  NoDup R /\ forall t, In t R <-> exists ts, tget thr t = Some ts /\ holdsR (t_pc ts) = true.

Definition R_step (R : list nat) (p p' : pc) (t : nat) (R' : list nat) : Prop :=
  (holdsR p' = holdsR p /\ R' = R) \/
  (holdsR p = false /\ holdsR p' = true /\ R' = t :: R) \/
  (holdsR p = true /\ holdsR p' = false /\ R' = filter (fun u => negb (Nat.eqb u t)) R).

Lemma R_update R thr t ts ts' R' :
  R_inv R thr -> tget thr t = Some ts ->
  R_step R (t_pc ts) (t_pc ts') t R' -> R_inv R' (tset thr t ts').
Proof.
  intros [ND Hinv] Ht Hstep.
  assert (Hself : In t R <-> holdsR (t_pc ts) = true).
  { rewrite Hinv. split.
    - intros (ts0 & G & Hh). rewrite Ht in G. inversion G; subst. exact Hh.
    - intros Hh. exists ts. split; assumption. }
  assert (Hoth : forall u, u <> t ->
            (In u R <-> exists tsu, tget (tset thr t ts') u = Some tsu /\ holdsR (t_pc tsu) = true)).
  { intros u N. rewrite (tget_tset_other _ _ _ _ N). apply Hinv. }
  destruct Hstep as [[E1 ->]|[(E1 & E2 & ->)|(E1 & E2 & ->)]].
  - split; [exact ND|]. intros u. destruct (Nat.eq_dec u t) as [->|N]; [|apply Hoth, N].
    rewrite Hself. split.
    + intros Hh. exists ts'. split; [apply tget_tset_same|congruence].
    + intros (tsu & G & Hh). rewrite tget_tset_same in G. inversion G; subst. congruence.
  - split.
    + constructor; [|exact ND]. intros I. apply Hself in I. congruence.
    + intros u. destruct (Nat.eq_dec u t) as [->|N].
      * split; [|intros _; left; reflexivity].
        intros _. exists ts'. split; [apply tget_tset_same|exact E2].
      * rewrite <- (Hoth u N). cbn [In]. split; [intros [E|I]; [congruence|exact I]|auto].
  - split.
    + apply NoDup_filter, ND.
    + intros u. rewrite filter_In. destruct (Nat.eq_dec u t) as [->|N].
      * rewrite Nat.eqb_refl. cbn [negb]. split; [intros [_ X]; discriminate|].
        intros (tsu & G & Hh). rewrite tget_tset_same in G. inversion G; subst. congruence.
      * rewrite <- (Hoth u N). apply Nat.eqb_neq in N. rewrite N. cbn [negb]. tauto.
Qed.

(* ------------------------------------------------------------------------------------ *)
(* the contents of the programs *)

Definition call_contents (c : ccall) : list bytes :=
  match c with KPut _ c => [c] | _ => [] end.
Definition contents (thr : list (nat * list ccall)) : list bytes :=
  flat_map (fun p => flat_map call_contents (snd p)) thr.

Lemma contents_in thr t cs k c : In (t, cs) thr -> In (KPut k c) cs -> In c (contents thr).
Proof.
  intros I1 I2. unfold contents. apply in_flat_map. exists (t, cs). split; [exact I1|].
  cbn [snd]. apply in_flat_map. exists (KPut k c). split; [exact I2|left; reflexivity].
Qed.

(* ------------------------------------------------------------------------------------ *)
(* RcRep facts for the intent table *)

Lemma rcrep_pos r cnt h : RcRep r cnt -> (sm_get lex_cmp r h <> None <-> 0 < cnt h).
Proof.
  intros [_ Hr]. unfold rc_get in Hr. rewrite Hr.
  destruct (N.eqb_spec (cnt h) 0); split; intros; try lia; congruence.
Qed.

Lemma rcrep_none r cnt h : RcRep r cnt -> (sm_get lex_cmp r h = None <-> cnt h = 0).
Proof.
  intros [_ Hr]. unfold rc_get in Hr. rewrite Hr.
  destruct (N.eqb_spec (cnt h) 0); split; intros; try lia; congruence.
Qed.

Lemma register_rep bh cnt h :
  RcRep bh cnt -> RcRep (register_hash bh h) (fun x => cnt x + b01 (beqb h x)).
Proof.
  intros R. destruct (inc_ref_rep _ _ h R) as [_ R'].
  assert (E : register_hash bh h = sm_ins lex_cmp bh h (cnt h + 1)).
  { unfold register_hash. destruct R as [_ Hr]. unfold rc_get in Hr. rewrite (Hr h).
    destruct (N.eqb_spec (cnt h) 0) as [Z|Z]; [rewrite Z|]; reflexivity. }
  rewrite E. exact R'.
Qed.

Lemma release_rep bh cnt h :
  RcRep bh cnt -> 0 < cnt h -> RcRep (release_hash bh h) (fun x => cnt x - b01 (beqb h x)).
Proof.
  intros [S Hr] P. unfold rc_get in Hr. unfold release_hash. rewrite (Hr h).
  destruct (N.eqb_spec (cnt h) 0) as [E0|E0]; [lia|].
  destruct (N.leb_spec (cnt h) 1) as [E1|E1].
  - split; [apply lex_sorted_del, S|].
    intros x. unfold rc_get. destruct (beqb h x) eqn:E; cbn [b01].
    + apply beqb_true_iff in E. subst x. rewrite lex_get_del_same by exact S.
      destruct (N.eqb_spec (cnt h - 1) 0); [reflexivity|lia].
    + apply beqb_false_iff in E. rewrite lex_get_del_other by (auto; congruence).
      rewrite N.sub_0_r. apply Hr.
  - split; [apply lex_sorted_ins, S|].
    intros x. unfold rc_get. destruct (beqb h x) eqn:E; cbn [b01].
    + apply beqb_true_iff in E. subst x. rewrite lex_get_ins_same.
      destruct (N.eqb_spec (cnt h - 1) 0); [lia|reflexivity].
    + apply beqb_false_iff in E. rewrite lex_get_ins_other by (auto; congruence).
      rewrite N.sub_0_r. apply Hr.
Qed.

Lemma In_del_gen {V} cmp (m : smap V) k e : In e (sm_del cmp m k) -> In e m.
Proof.
  induction m as [|[k1 v1] r IHm]; cbn [sm_del]; intros I; [exact I|].
  destruct (cmp k k1).
  - right; exact I.
  - exact I.
  - destruct I as [I|I]; [left; exact I|right; apply IHm, I].
Qed.

Lemma In_fold_del {V} cmp (ks : list bytes) : forall (m : smap V) e,
  In e (fold_left (fun m k => sm_del cmp m k) ks m) -> In e m.
Proof.
  induction ks as [|k ks IH]; intros m e I; cbn [fold_left] in I; [exact I|].
  apply IH in I. eapply In_del_gen, I.
Qed.

(* ------------------------------------------------------------------------------------ *)
(* registered intents *)

Section Intents.
  Variable H : bytes -> bytes.

  (* thread parked at p has a registered, not yet released intent on hash h *)
  Definition reg (p : pc) (h : bytes) : bool :=
    match p with
    | PRen _ c _ => beqb (H c) h
    | PDropI _ h' _ => beqb h' h
    | WLockI (WPut _ h' _) | WLockS (WPut _ h' _) | WLockW (WPut _ h' _)
    | WApplied (WPut _ h' _) _ _ => beqb h' h
    | _ => false
    end.

  Fixpoint intents (l : list (nat * tstate)) (h : bytes) : N :=
    match l with
    | [] => 0
    | (_, s) :: r => b01 (reg (t_pc s) h) + intents r h
    end.

  Lemma intents_tset l t s s' h :
    tget l t = Some s ->
    intents (tset l t s') h + b01 (reg (t_pc s) h) = intents l h + b01 (reg (t_pc s') h).
  Proof.
    induction l as [|[v x] r IH]; cbn [tget tset intents]; [discriminate|].
    destruct (Nat.eqb t v) eqn:E; cbn [intents].
    - intros G; inversion G; subst. lia.
    - intros G. specialize (IH G). lia.
  Qed.

  Lemma intents_pos l t s h : tget l t = Some s -> reg (t_pc s) h = true -> 0 < intents l h.
  Proof.
    induction l as [|[v x] r IH]; cbn [tget intents]; [discriminate|].
    destruct (Nat.eqb t v) eqn:E.
    - intros G; inversion G; subst. intros ->. cbn [b01]. lia.
    - intros G R. specialize (IH G R). lia.
  Qed.

  Lemma intents_zero l h : (forall t s, In (t, s) l -> reg (t_pc s) h = false) -> intents l h = 0.
  Proof.
    induction l as [|[v x] r IH]; intros A; cbn [intents]; [reflexivity|].
    rewrite (A v x) by (left; reflexivity). rewrite IH; [reflexivity|].
    intros t s I. apply (A t s). right; exact I.
  Qed.
End Intents.

(* pending deletions announced by a pc *)
Definition pending (p : pc) (h : bytes) : Prop :=
  match p with
  | WApplied _ un _ => In h un
  | WUnlink _ todo _ => In h todo
  | _ => False
  end.

(* ------------------------------------------------------------------------------------ *)
Section ConcInv.
  Variable H : bytes -> bytes.
  Variable cmp : bytes -> bytes -> comparison.
  Hypothesis cmp_refl : forall a, cmp a a = Eq.
  Hypothesis cmp_eq : forall a b, cmp a b = Eq -> a = b.
  Hypothesis cmp_antisym : forall a b, cmp b a = CompOpp (cmp a b).
  Hypothesis cmp_trans : forall a b c, cmp a b = Lt -> cmp b c = Lt -> cmp a c = Lt.
  Variable nops : N.
  Variable bad : bytes -> bool.
  Variable ckbad : bool.
  Variable thr0 : list (nat * list ccall).
  Hypothesis thr0_nodup : NoDup (map fst thr0).
  Variable cas0 : smap bytes.
  Hypothesis cas0_sorted : sorted lex_cmp cas0.
  Hypothesis cas0_named : forall h c, In (h, c) cas0 -> H c = h.

  Local Notation KX L := (L cmp cmp_refl cmp_eq cmp_antisym cmp_trans) (only parsing).

  (* every content that can ever reach the blob directory *)
  Definition allc : list bytes := contents thr0 ++ map snd cas0.
  Hypothesis NoCollideC : forall a b, In a allc -> In b allc -> H a = H b -> a = b.

  Definition reachable (g : cstate) : Prop :=
    exists sched, g = crun H cmp nops bad ckbad (init_c thr0 cas0) sched.

  (* the blob of hash h is in the directory, with the right name and size *)
  Definition blob_ok (cas : smap bytes) (h : bytes) (sz : N) : Prop :=
    exists c, sm_get lex_cmp cas h = Some c /\ H c = h /\ len c = sz.

  Definition valid_item (it : item) : Prop :=
    exists c, In c allc /\ H c = ihash it /\ len c = isize it.

  Definition calls_ok (cs : list ccall) : Prop :=
    forall k c, In (KPut k c) cs -> In c (contents thr0).

  (* what is known about a thread parked at p, in terms of the key map, the intent table
     and the blob directory *)
  Definition pc_ok (m : smap item) (bh : smap N) (cas : smap bytes) (p : pc) : Prop :=
    match p with
    | PReg _ c | PILock _ c | PRen _ c _ => In c (contents thr0)
    | PDropI _ h _ => bad h = true
    | WLockI (WPut _ h sz) | WLockS (WPut _ h sz) | WLockW (WPut _ h sz) => blob_ok cas h sz
    | WApplied w un _ =>
      (forall h, In h un -> count_refs m h = 0) /\
      match w with WPut _ h _ => 0 < count_refs m h | WRm _ _ => True end
    | WUnlink _ todo _ =>
      todo <> [] /\ forall h, In h todo -> count_refs m h = 0 /\ sm_get lex_cmp bh h = None
    | OUnlink h _ _ _ => count_refs m h = 0 /\ sm_get lex_cmp bh h = None
    | GLooked _ it _ | GOpen _ it _ | GReread _ it _ => valid_item it
    | GOpenL k it _ => sm_get cmp m k = Some it
    | _ => True
    end.

  (* a deletion has failed (or an intent was reverted after a failed rename): some path is
     obstructed and some call has returned an error *)
  Definition leaked (thr : list (nat * tstate)) : Prop :=
    (exists x, bad x = true) /\ exists t ts, tget thr t = Some ts /\ In CErr (t_res ts).

  Definition accounted (m : smap item) (bh : smap N) (thr : list (nat * tstate)) (h : bytes)
    : Prop :=
    0 < count_refs m h \/
    sm_get lex_cmp bh h <> None \/
    (exists t ts, tget thr t = Some ts /\ pending (t_pc ts) h) \/
    In h (map fst cas0) \/
    leaked thr.

  Record ConcInv (g : cstate) : Prop := mkConcInv {
    ci_nodup : NoDup (map fst (g_thr g));
    ci_lockI : lock_inv (g_I g) holdsI (g_thr g);
    ci_lockS : lock_inv (g_S g) holdsS (g_thr g);
    ci_R : R_inv (g_R g) (g_thr g);
    ci_SR : g_S g <> None -> g_R g = [];
    ci_idx : IdxInv cmp (g_idx g);
    ci_cas_sorted : sorted lex_cmp (g_cas g);
    ci_cas_named : forall h c, In (h, c) (g_cas g) -> H c = h /\ In c allc;
    ci_nodangling : forall k it, In (k, it) (km (g_idx g)) ->
                                 blob_ok (g_cas g) (ihash it) (isize it);
    ci_intents : RcRep (g_byhash g) (intents H (g_thr g));
    ci_pc : forall t ts, tget (g_thr g) t = Some ts ->
                         pc_ok (km (g_idx g)) (g_byhash g) (g_cas g) (t_pc ts) /\
                         calls_ok (t_calls ts);
    ci_accounted : forall h c, sm_get lex_cmp (g_cas g) h = Some c ->
                               accounted (km (g_idx g)) (g_byhash g) (g_thr g) h
  }.

  (* ---- stability of pc_ok ---- *)

  (* the key map and the intent table only matter to threads that hold I *)
  Lemma pc_ok_frame m bh m' bh' cas p :
    holdsI p = false -> holdsR p = false -> pc_ok m bh cas p -> pc_ok m' bh' cas p.
  Proof using.
    destruct p; cbn [holdsI holdsR pc_ok]; try discriminate; auto.
  Qed.

  (* the intent table alone only matters to threads that hold I *)
  Lemma pc_ok_frame_bh m bh bh' cas p :
    holdsI p = false -> pc_ok m bh cas p -> pc_ok m bh' cas p.
  Proof using.
    destruct p; cbn [holdsI pc_ok]; try discriminate; auto.
  Qed.

  Lemma blob_ok_ins cas c hx sz :
    sorted lex_cmp cas -> (forall h c, In (h, c) cas -> H c = h /\ In c allc) -> In c allc ->
    blob_ok cas hx sz -> blob_ok (sm_ins lex_cmp cas (H c) c) hx sz.
  Proof using NoCollideC.
    intros S Nm Ic (c0 & G & Hh & Hl).
    destruct (key_eq_dec hx (H c)) as [E|E].
    - subst hx. assert (c0 = c).
      { apply NoCollideC; try assumption.
        apply (lex_get_in _ _ _ S) in G. apply Nm in G. apply G. }
      subst c0. exists c. split; [apply lex_get_ins_same|]. split; assumption.
    - exists c0. split; [|split; assumption].
      rewrite lex_get_ins_other by assumption. exact G.
  Qed.

  Lemma pc_ok_ins m bh cas c p :
    sorted lex_cmp cas -> (forall h c, In (h, c) cas -> H c = h /\ In c allc) -> In c allc ->
    pc_ok m bh cas p -> pc_ok m bh (sm_ins lex_cmp cas (H c) c) p.
  Proof using NoCollideC.
    intros S Nm Ic.
    destruct p; cbn [pc_ok]; auto;
      destruct w; auto; apply blob_ok_ins; assumption.
  Qed.

  Lemma blob_ok_del cas h hx sz :
    sorted lex_cmp cas -> hx <> h -> blob_ok cas hx sz -> blob_ok (sm_del lex_cmp cas h) hx sz.
  Proof using.
    intros S N (c0 & G & Hh & Hl). exists c0. split; [|split; assumption].
    rewrite lex_get_del_other by assumption. exact G.
  Qed.

  Lemma pc_ok_del m bh cas h p :
    sorted lex_cmp cas -> (forall x, reg H p x = true -> x <> h) ->
    pc_ok m bh cas p -> pc_ok m bh (sm_del lex_cmp cas h) p.
  Proof using.
    intros S R.
    destruct p; cbn [pc_ok]; auto;
      destruct w as [k0 hx sz|]; auto; apply blob_ok_del; try assumption;
      apply R; cbn [reg]; apply beqb_refl.
  Qed.

  (* ---- the generic preservation lemma: thread t moves from ts to ts', the global
     components are replaced; obligations are stated component-wise ---- *)
  Lemma step_general g t ts ts' idx' bk' bh' cas' nv' I' S' R' :
    ConcInv g -> tget (g_thr g) t = Some ts ->
    lock_step (g_I g) holdsI (t_pc ts) (t_pc ts') t I' ->
    lock_step (g_S g) holdsS (t_pc ts) (t_pc ts') t S' ->
    R_step (g_R g) (t_pc ts) (t_pc ts') t R' ->
    (S' <> None -> R' = []) ->
    IdxInv cmp idx' ->
    sorted lex_cmp cas' ->
    (forall h c, In (h, c) cas' -> H c = h /\ In c allc) ->
    (forall k it, In (k, it) (km idx') -> blob_ok cas' (ihash it) (isize it)) ->
    RcRep bh' (fun h => intents H (g_thr g) h + b01 (reg H (t_pc ts') h)
                        - b01 (reg H (t_pc ts) h)) ->
    pc_ok (km idx') bh' cas' (t_pc ts') -> calls_ok (t_calls ts') ->
    (forall u tsu, u <> t -> tget (g_thr g) u = Some tsu ->
       pc_ok (km (g_idx g)) (g_byhash g) (g_cas g) (t_pc tsu) ->
       pc_ok (km idx') bh' cas' (t_pc tsu)) ->
    (forall h c, sm_get lex_cmp cas' h = Some c ->
       accounted (km idx') bh' (tset (g_thr g) t ts') h) ->
    ConcInv (mkC idx' bk' bh' cas' nv' I' S' R' (tset (g_thr g) t ts')).
  Proof using.
    intros Inv Ht LI LS LR HSR HIdx HSo HNm HNd HRc Hself Hcalls Hoth Hacc.
    constructor; cbn [g_idx g_bykey g_byhash g_cas g_nextv g_I g_S g_R g_thr].
    - rewrite (tset_fst _ _ _ _ Ht). apply (ci_nodup _ Inv).
    - eapply lock_update; [apply (ci_lockI _ Inv)|exact Ht|exact LI].
    - eapply lock_update; [apply (ci_lockS _ Inv)|exact Ht|exact LS].
    - eapply R_update; [apply (ci_R _ Inv)|exact Ht|exact LR].
    - exact HSR.
    - exact HIdx.
    - exact HSo.
    - exact HNm.
    - exact HNd.
    - eapply RcRep_ext; [|exact HRc]. intros h. cbn beta.
      pose proof (intents_tset H _ _ _ ts' h Ht). lia.
    - intros u tsu G. destruct (Nat.eq_dec u t) as [->|N].
      + rewrite tget_tset_same in G. inversion G; subst tsu. split; assumption.
      + rewrite (tget_tset_other _ _ _ _ N) in G.
        destruct (ci_pc _ Inv _ _ G) as [P C]. split; [|exact C].
        eapply Hoth; eassumption.
    - exact Hacc.
  Qed.

  Lemma accounted_step m bh thr t ts ts' m' bh' h :
    tget thr t = Some ts ->
    incl (t_res ts) (t_res ts') ->
    accounted m bh thr h ->
    (0 < count_refs m h -> accounted m' bh' (tset thr t ts') h) ->
    (sm_get lex_cmp bh h <> None -> accounted m' bh' (tset thr t ts') h) ->
    (pending (t_pc ts) h -> accounted m' bh' (tset thr t ts') h) ->
    accounted m' bh' (tset thr t ts') h.
  Proof using.
    intros Ht Hres [A|[A|[(u & tsu & G & P)|[A|(Bx & u & tsu & G & P)]]]] H1 H2 H3.
    - apply H1, A.
    - apply H2, A.
    - destruct (Nat.eq_dec u t) as [->|N].
      + rewrite Ht in G. inversion G; subst tsu. apply H3, P.
      + right; right; left. exists u, tsu. split; [|exact P].
        rewrite (tget_tset_other _ _ _ _ N). exact G.
    - right; right; right; left. exact A.
    - right; right; right; right. split; [exact Bx|].
      destruct (Nat.eq_dec u t) as [->|N].
      + rewrite Ht in G. inversion G; subst tsu. exists t, ts'.
        split; [apply tget_tset_same|apply Hres, P].
      + exists u, tsu. split; [|exact P]. rewrite (tget_tset_other _ _ _ _ N). exact G.
  Qed.

  Lemma acc_ref m bh thr h : 0 < count_refs m h -> accounted m bh thr h.
  Proof using. intros A; left; exact A. Qed.
  Lemma acc_prot m bh thr h : sm_get lex_cmp bh h <> None -> accounted m bh thr h.
  Proof using. intros A; right; left; exact A. Qed.
  Lemma acc_pend m bh thr t ts' h : pending (t_pc ts') h -> accounted m bh (tset thr t ts') h.
  Proof using.
    intros A; right; right; left. exists t, ts'. split; [apply tget_tset_same|exact A].
  Qed.
  Lemma acc_leak m bh thr t ts' x h :
    bad x = true -> In CErr (t_res ts') -> accounted m bh (tset thr t ts') h.
  Proof using.
    intros B A; right; right; right; right. split; [exists x; exact B|].
    exists t, ts'. split; [apply tget_tset_same|exact A].
  Qed.

  (* ---- steps that touch neither the index, nor the intent table, nor the directory ---- *)
  (* the index may change in its last_persisted_version only (a checkpoint): the key map and
     the invariant of the index are kept *)
  Lemma step_local g t ts ts' idx' bk' nv' I' S' R' :
    ConcInv g -> tget (g_thr g) t = Some ts ->
    km idx' = km (g_idx g) -> IdxInv cmp idx' ->
    (forall h, reg H (t_pc ts') h = reg H (t_pc ts) h) ->
    lock_step (g_I g) holdsI (t_pc ts) (t_pc ts') t I' ->
    lock_step (g_S g) holdsS (t_pc ts) (t_pc ts') t S' ->
    R_step (g_R g) (t_pc ts) (t_pc ts') t R' ->
    (S' <> None -> R' = []) ->
    pc_ok (km (g_idx g)) (g_byhash g) (g_cas g) (t_pc ts') ->
    calls_ok (t_calls ts') ->
    incl (t_res ts) (t_res ts') ->
    (forall h, pending (t_pc ts) h ->
       accounted (km (g_idx g)) (g_byhash g) (tset (g_thr g) t ts') h) ->
    ConcInv (mkC idx' bk' (g_byhash g) (g_cas g) nv' I' S' R' (tset (g_thr g) t ts')).
  Proof using.
    intros Inv Ht Hkm Hidx HR LI LS LR HSR Hself Hcalls Hres Hpend.
    apply step_general with (ts := ts); rewrite ?Hkm; try assumption.
    - apply (ci_cas_sorted _ Inv).
    - apply (ci_cas_named _ Inv).
    - apply (ci_nodangling _ Inv).
    - eapply RcRep_ext; [|apply (ci_intents _ Inv)]. intros h. cbn beta. rewrite HR. lia.
    - intros u tsu _ _ P. exact P.
    - intros h c G. eapply accounted_step; [exact Ht|exact Hres|apply (ci_accounted _ Inv _ _ G)| | |].
      + apply acc_ref.
      + apply acc_prot.
      + apply Hpend.
  Qed.

  (* ---- who can hold I ---- *)
  Lemma free_none (L : option nat) : free L = true -> L = None.
  Proof using. destruct L; [discriminate|reflexivity]. Qed.

  Lemma nobody_holds_I g u tsu :
    ConcInv g -> g_I g = None -> tget (g_thr g) u = Some tsu -> holdsI (t_pc tsu) = false.
  Proof using.
    intros Inv E G. destruct (holdsI (t_pc tsu)) eqn:Hh; [|reflexivity].
    assert (g_I g = Some u) by (apply (ci_lockI _ Inv); exists tsu; split; assumption).
    congruence.
  Qed.

  Lemma only_one_holds_I g t ts u tsu :
    ConcInv g -> tget (g_thr g) t = Some ts -> holdsI (t_pc ts) = true -> u <> t ->
    tget (g_thr g) u = Some tsu -> holdsI (t_pc tsu) = false.
  Proof using.
    intros Inv Ht Hh N G. destruct (holdsI (t_pc tsu)) eqn:Hu; [|reflexivity].
    assert (g_I g = Some u) by (apply (ci_lockI _ Inv); exists tsu; split; assumption).
    assert (g_I g = Some t) by (apply (ci_lockI _ Inv); exists ts; split; assumption).
    congruence.
  Qed.

  Lemma holder_I g t ts :
    ConcInv g -> tget (g_thr g) t = Some ts -> holdsI (t_pc ts) = true -> g_I g = Some t.
  Proof using. intros Inv Ht Hh. apply (ci_lockI _ Inv). exists ts. split; assumption. Qed.

  Lemma holder_S g t ts :
    ConcInv g -> tget (g_thr g) t = Some ts -> holdsS (t_pc ts) = true -> g_S g = Some t.
  Proof using. intros Inv Ht Hh. apply (ci_lockS _ Inv). exists ts. split; assumption. Qed.

  Lemma nobody_reads g u tsu :
    ConcInv g -> g_R g = [] -> tget (g_thr g) u = Some tsu -> holdsR (t_pc tsu) = false.
  Proof using.
    intros Inv E G. destruct (holdsR (t_pc tsu)) eqn:Hh; [|reflexivity].
    assert (In u (g_R g)) by (apply (proj2 (ci_R _ Inv)); exists tsu; split; assumption).
    rewrite E in *. contradiction.
  Qed.

  Lemma SR_keep g : ConcInv g -> g_S g <> None -> g_R g = [].
  Proof using. intros Inv. apply (ci_SR _ Inv). Qed.

  (* a registered thread protects its hash *)
  Lemma registered_protected g t ts h :
    ConcInv g -> tget (g_thr g) t = Some ts -> reg H (t_pc ts) h = true ->
    sm_get lex_cmp (g_byhash g) h <> None.
  Proof using.
    intros Inv Ht R. apply (rcrep_pos _ _ _ (ci_intents _ Inv)).
    eapply intents_pos; eassumption.
  Qed.

  (* ---- PILock: register the intent ---- *)
  Lemma step_pilock g t ts k c bk' repl :
    ConcInv g -> tget (g_thr g) t = Some ts -> t_pc ts = PILock k c -> free (g_I g) = true ->
    ConcInv (mkC (g_idx g) bk' (register_hash (g_byhash g) (H c)) (g_cas g) (g_nextv g)
                 (g_I g) (g_S g) (g_R g)
                 (tset (g_thr g) t (mkT (t_calls ts) (PRen k c repl) (t_res ts)))).
  Proof using.
    intros Inv Ht Hpc Hfree. apply free_none in Hfree.
    destruct (ci_pc _ Inv _ _ Ht) as [Pt Ct]. rewrite Hpc in Pt. cbn [pc_ok] in Pt.
    pose proof (register_rep _ _ (H c) (ci_intents _ Inv)) as RR.
    apply step_general with (ts := ts); [exact Inv|exact Ht|..]; cbn [t_pc t_calls]; rewrite ?Hpc.
    - left; split; reflexivity.
    - left; split; reflexivity.
    - left; split; reflexivity.
    - apply (ci_SR _ Inv).
    - apply (ci_idx _ Inv).
    - apply (ci_cas_sorted _ Inv).
    - apply (ci_cas_named _ Inv).
    - apply (ci_nodangling _ Inv).
    - eapply RcRep_ext; [|exact RR]. intros h. cbn [reg b01]. lia.
    - exact Pt.
    - exact Ct.
    - intros u tsu _ G P. eapply pc_ok_frame_bh; [|exact P].
      eapply nobody_holds_I; eassumption.
    - intros h c0 G. eapply accounted_step; [exact Ht|apply incl_refl|apply (ci_accounted _ Inv _ _ G)| | |].
      + apply acc_ref.
      + intros A. apply acc_prot.
        apply (rcrep_pos _ _ _ RR). apply (rcrep_pos _ _ _ (ci_intents _ Inv)) in A.
        cbn beta. lia.
      + rewrite Hpc. intros [].
  Qed.

  (* ---- PRen: the blob appears under its canonical name ---- *)
  Lemma step_pren g t ts k c repl :
    ConcInv g -> tget (g_thr g) t = Some ts -> t_pc ts = PRen k c repl ->
    ConcInv (mkC (g_idx g) (g_bykey g) (g_byhash g) (sm_ins lex_cmp (g_cas g) (H c) c)
                 (g_nextv g) (g_I g) (g_S g) (g_R g)
                 (tset (g_thr g) t (mkT (t_calls ts) (WLockI (WPut k (H c) (len c))) (t_res ts)))).
  Proof using NoCollideC.
    intros Inv Ht Hpc.
    destruct (ci_pc _ Inv _ _ Ht) as [Pt Ct]. rewrite Hpc in Pt. cbn [pc_ok] in Pt.
    assert (Ic : In c allc) by (unfold allc; apply in_or_app; left; exact Pt).
    pose proof (ci_cas_sorted _ Inv) as S. pose proof (ci_cas_named _ Inv) as Nm.
    apply step_general with (ts := ts); [exact Inv|exact Ht|..]; cbn [t_pc t_calls]; rewrite ?Hpc.
    - left; split; reflexivity.
    - left; split; reflexivity.
    - left; split; reflexivity.
    - apply (ci_SR _ Inv).
    - apply (ci_idx _ Inv).
    - apply lex_sorted_ins, S.
    - intros h c0 I. apply (LX In_ins) in I. destruct I as [I|I].
      + inversion I; subst. split; [reflexivity|exact Ic].
      + apply Nm, I.
    - intros k0 it I. apply blob_ok_ins; try assumption. apply (ci_nodangling _ Inv _ _ I).
    - eapply RcRep_ext; [|apply (ci_intents _ Inv)]. intros h. cbn [reg b01]. lia.
    - cbn [pc_ok]. exists c. split; [apply lex_get_ins_same|split; reflexivity].
    - exact Ct.
    - intros u tsu _ G P. apply pc_ok_ins; assumption.
    - intros h c0 G. destruct (key_eq_dec h (H c)) as [->|N].
      + apply acc_prot. eapply registered_protected; [exact Inv|exact Ht|].
        rewrite Hpc. cbn [reg]. apply beqb_refl.
      + rewrite lex_get_ins_other in G by assumption.
        eapply accounted_step; [exact Ht|apply incl_refl|apply (ci_accounted _ Inv _ _ G)| | |].
        * apply acc_ref.
        * apply acc_prot.
        * rewrite Hpc. intros [].
  Qed.

  (* ---- PDropI: the uncommitted intent is reverted (IntentGuard::drop) ---- *)
  Lemma step_pdrop g t ts k h repl bk' :
    ConcInv g -> tget (g_thr g) t = Some ts -> t_pc ts = PDropI k h repl -> free (g_I g) = true ->
    ConcInv (mkC (g_idx g) bk' (release_hash (g_byhash g) h) (g_cas g) (g_nextv g)
                 (g_I g) (g_S g) (g_R g)
                 (tset (g_thr g) t (mkT (t_calls ts) Idle (t_res ts ++ [CErr])))).
  Proof using.
    intros Inv Ht Hpc Hfree. apply free_none in Hfree.
    destruct (ci_pc _ Inv _ _ Ht) as [Pt Ct]. rewrite Hpc in Pt. cbn [pc_ok] in Pt.
    assert (RR : RcRep (release_hash (g_byhash g) h)
                       (fun x => intents H (g_thr g) x - b01 (reg H (t_pc ts) x))).
    { rewrite Hpc. cbn [reg]. apply release_rep; [apply (ci_intents _ Inv)|].
      eapply intents_pos; [exact Ht|]. rewrite Hpc. cbn [reg]. apply beqb_refl. }
    apply step_general with (ts := ts); [exact Inv|exact Ht|..]; cbn [t_pc t_calls t_res].
    - rewrite Hpc. left; split; reflexivity.
    - rewrite Hpc. left; split; reflexivity.
    - rewrite Hpc. left; split; reflexivity.
    - apply (ci_SR _ Inv).
    - apply (ci_idx _ Inv).
    - apply (ci_cas_sorted _ Inv).
    - apply (ci_cas_named _ Inv).
    - apply (ci_nodangling _ Inv).
    - eapply RcRep_ext; [|exact RR]. intros x. cbn [reg b01]. lia.
    - exact I.
    - exact Ct.
    - intros u tsu _ G P. eapply pc_ok_frame_bh; [|exact P].
      eapply nobody_holds_I; eassumption.
    - intros x c0 G.
      eapply accounted_step; [exact Ht|apply incl_appl, incl_refl|apply (ci_accounted _ Inv _ _ G)| | |].
      + apply acc_ref.
      + intros _. destruct (sm_get lex_cmp (release_hash (g_byhash g) h) x) eqn:E;
          [apply acc_prot; congruence|].
        apply (acc_leak _ _ _ _ _ h); [exact Pt|]. cbn [t_res]. apply in_or_app. right. left. reflexivity.
      + rewrite Hpc. intros [].
  Qed.

  (* ---- WLockW: append + apply ---- *)
  Definition in_window (p : pc) (w : wkind) : Prop :=
    p = WLockI w \/ p = WLockS w \/ p = WLockW w.

  Lemma window_respects g t ts w :
    ConcInv g -> tget (g_thr g) t = Some ts -> in_window (t_pc ts) w ->
    op_respects_sizes (g_idx g) (wop w).
  Proof using.
    intros Inv Ht W. destruct w as [k h sz|ks r]; cbn [wop op_respects_sizes]; [|exact I].
    destruct (ci_pc _ Inv _ _ Ht) as [Pt _].
    assert (B : blob_ok (g_cas g) h sz).
    { destruct W as [E|[E|E]]; rewrite E in Pt; exact Pt. }
    intros k' i Ii Eh. destruct B as (c & G & _ & Hl).
    destruct (ci_nodangling _ Inv _ _ Ii) as (c' & G' & _ & Hl').
    rewrite Eh, G in G'. inversion G'; subst c'. congruence.
  Qed.

  Lemma step_wlockw g t ts w idx' un nv' rolled :
    ConcInv g -> tget (g_thr g) t = Some ts -> t_pc ts = WLockW w ->
    apply_op cmp (g_idx g) (wop w) = Ok (idx', un) ->
    ConcInv (mkC idx' (g_bykey g) (g_byhash g) (g_cas g) nv' (g_I g) None (g_R g)
                 (tset (g_thr g) t (mkT (t_calls ts) (WApplied w un rolled) (t_res ts)))).
  Proof using cmp_refl cmp_eq cmp_antisym cmp_trans.
    intros Inv Ht Hpc Happ.
    destruct (ci_pc _ Inv _ _ Ht) as [Pt Ct]. rewrite Hpc in Pt.
    assert (Hresp : op_respects_sizes (g_idx g) (wop w)).
    { eapply window_respects; [exact Inv|exact Ht|]. right; right; exact Hpc. }
    destruct (KX C12_apply (g_idx g) (wop w) (ci_idx _ Inv) Hresp)
      as (s2 & un2 & E2 & Inv' & K & _ & _ & HI).
    rewrite Happ in E2. inversion E2; subst s2 un2. clear E2.
    assert (HhI : holdsI (t_pc ts) = true) by (rewrite Hpc; reflexivity).
    apply step_general with (ts := ts); [exact Inv|exact Ht|..]; cbn [t_pc t_calls]; rewrite ?Hpc.
    - left; split; reflexivity.
    - right; right. repeat split; reflexivity.
    - left; split; reflexivity.
    - intros X; exfalso; apply X; reflexivity.
    - exact Inv'.
    - apply (ci_cas_sorted _ Inv).
    - apply (ci_cas_named _ Inv).
    - intros k0 it I0. rewrite K in I0. destruct w as [k h sz|ks r]; cbn [wop km_expected] in I0.
      + apply (KX In_ins) in I0. destruct I0 as [I0|I0].
        * inversion I0; subst. cbn [ihash isize]. exact Pt.
        * apply (ci_nodangling _ Inv _ _ I0).
      + apply In_fold_del in I0. apply (ci_nodangling _ Inv _ _ I0).
    - eapply RcRep_ext; [|apply (ci_intents _ Inv)]. intros h.
      destruct w; cbn [reg b01]; lia.
    - cbn [pc_ok]. split.
      + intros h Hin. apply HI in Hin. apply Hin.
      + destruct w as [k h sz|ks r]; [|exact I].
        change h with (ihash (mkItem h sz)). apply count_pos_in with (k := k).
        rewrite K. cbn [wop km_expected].
        apply (KX get_in). { apply (KX sorted_ins). apply (ci_idx _ Inv). }
        apply (KX get_ins_same).
    - exact Ct.
    - intros u tsu N G P. eapply pc_ok_frame; [| |exact P].
      + apply (only_one_holds_I g t ts u tsu); assumption.
      + apply (nobody_reads g u tsu Inv); [|exact G].
        apply (ci_SR _ Inv). rewrite (holder_S g t ts Inv Ht) by (rewrite Hpc; reflexivity).
        discriminate.
    - intros h c G. eapply accounted_step; [exact Ht|apply incl_refl|apply (ci_accounted _ Inv _ _ G)| | |].
      + intros A. destruct (N.eq_dec (count_refs (km idx') h) 0) as [Z|Z].
        * apply acc_pend. cbn [t_pc pending]. apply HI. split; assumption.
        * apply acc_ref. lia.
      + apply acc_prot.
      + rewrite Hpc. intros [].
  Qed.

  (* ---- WApplied: release the intent, filter the unreferenced hashes ---- *)
  Definition wbh (w : wkind) (bh : smap N) : smap N :=
    match w with WPut _ h _ => release_hash bh h | WRm _ _ => bh end.
  Definition unprot_in (bh : smap N) (h : bytes) : bool :=
    match sm_get lex_cmp bh h with Some _ => false | None => true end.

  Lemma step_wapplied g t ts w un rolled bk' I' p' :
    ConcInv g -> tget (g_thr g) t = Some ts -> t_pc ts = WApplied w un rolled ->
    let bh' := wbh w (g_byhash g) in
    let un' := filter (unprot_in bh') un in
    (un' = [] /\ I' = None /\ p' = WReleased w rolled) \/
    (un' <> [] /\ I' = g_I g /\ p' = WUnlink w un' rolled) ->
    ConcInv (mkC (g_idx g) bk' bh' (g_cas g) (g_nextv g) I' (g_S g) (g_R g)
                 (tset (g_thr g) t (mkT (t_calls ts) p' (t_res ts)))).
  Proof using.
    intros Inv Ht Hpc bh' un' Hcase.
    destruct (ci_pc _ Inv _ _ Ht) as [Pt Ct]. rewrite Hpc in Pt. cbn [pc_ok] in Pt.
    destruct Pt as [Pun Pw].
    assert (HhI : holdsI (t_pc ts) = true) by (rewrite Hpc; reflexivity).
    assert (Hreg' : forall x, reg H p' x = false).
    { intros x. destruct Hcase as [(_ & _ & ->)|(_ & _ & ->)]; reflexivity. }
    assert (RR : RcRep bh' (fun x => intents H (g_thr g) x - b01 (reg H (t_pc ts) x))).
    { rewrite Hpc. unfold bh'. destruct w as [k h sz|ks r]; cbn [wbh reg].
      - apply release_rep; [apply (ci_intents _ Inv)|].
        eapply intents_pos; [exact Ht|]. rewrite Hpc. cbn [reg]. apply beqb_refl.
      - eapply RcRep_ext; [|apply (ci_intents _ Inv)]. intros x. cbn [b01]. lia. }
    apply step_general with (ts := ts); [exact Inv|exact Ht|..]; cbn [t_pc t_calls].
    - rewrite Hpc. destruct Hcase as [(_ & -> & ->)|(_ & -> & ->)].
      + right; right. repeat split; reflexivity.
      + left; split; reflexivity.
    - rewrite Hpc. left. split; [|reflexivity].
      destruct Hcase as [(_ & _ & ->)|(_ & _ & ->)]; reflexivity.
    - rewrite Hpc. left. split; [|reflexivity].
      destruct Hcase as [(_ & _ & ->)|(_ & _ & ->)]; reflexivity.
    - apply (ci_SR _ Inv).
    - apply (ci_idx _ Inv).
    - apply (ci_cas_sorted _ Inv).
    - apply (ci_cas_named _ Inv).
    - apply (ci_nodangling _ Inv).
    - eapply RcRep_ext; [|exact RR]. intros x. cbn beta. rewrite Hreg'. cbn [b01]. lia.
    - destruct Hcase as [(_ & _ & ->)|(NE & _ & ->)]; cbn [pc_ok]; [exact I|].
      split; [exact NE|]. intros h Hin. apply filter_In in Hin. destruct Hin as [Hin Hf].
      split; [apply Pun, Hin|]. unfold unprot_in in Hf.
      destruct (sm_get lex_cmp bh' h); [discriminate|reflexivity].
    - exact Ct.
    - intros u tsu N G P. eapply pc_ok_frame_bh; [|exact P].
      apply (only_one_holds_I g t ts u tsu); assumption.
    - intros h c G. eapply accounted_step; [exact Ht|apply incl_refl|apply (ci_accounted _ Inv _ _ G)| | |].
      + apply acc_ref.
      + intros A. destruct (sm_get lex_cmp bh' h) eqn:E; [apply acc_prot; congruence|].
        apply acc_ref.
        apply (rcrep_none _ _ _ RR) in E. apply (rcrep_pos _ _ _ (ci_intents _ Inv)) in A.
        rewrite Hpc in E. destruct w as [k hw sz|ks r]; cbn [reg] in E.
        * destruct (beqb hw h) eqn:B; cbn [b01] in E; [|lia].
          apply beqb_true_iff in B. subst hw. exact Pw.
        * cbn [b01] in E. lia.
      + rewrite Hpc. cbn [pending]. intros Hin.
        destruct (sm_get lex_cmp bh' h) eqn:E; [apply acc_prot; congruence|].
        assert (Hin' : In h un').
        { apply filter_In. split; [exact Hin|]. unfold unprot_in. rewrite E. reflexivity. }
        destruct Hcase as [(E' & _ & _)|(_ & _ & ->)].
        * rewrite E' in Hin'. destruct Hin'.
        * apply acc_pend. exact Hin'.
  Qed.

  (* ---- unlinking an unreferenced, unprotected blob (WUnlink and OUnlink) ---- *)
  Lemma step_unlink g t ts ts' h I' :
    ConcInv g -> tget (g_thr g) t = Some ts ->
    count_refs (km (g_idx g)) h = 0 -> sm_get lex_cmp (g_byhash g) h = None ->
    (forall x, reg H (t_pc ts) x = false) -> (forall x, reg H (t_pc ts') x = false) ->
    lock_step (g_I g) holdsI (t_pc ts) (t_pc ts') t I' ->
    holdsS (t_pc ts') = holdsS (t_pc ts) ->
    holdsR (t_pc ts') = holdsR (t_pc ts) ->
    pc_ok (km (g_idx g)) (g_byhash g) (sm_del lex_cmp (g_cas g) h) (t_pc ts') ->
    calls_ok (t_calls ts') ->
    incl (t_res ts) (t_res ts') ->
    (forall x, x <> h -> pending (t_pc ts) x -> pending (t_pc ts') x) ->
    ConcInv (mkC (g_idx g) (g_bykey g) (g_byhash g) (sm_del lex_cmp (g_cas g) h) (g_nextv g)
                 I' (g_S g) (g_R g) (tset (g_thr g) t ts')).
  Proof using.
    intros Inv Ht Hun Hup Hr Hr' LI LS LR Pself Cself Hres Hpend.
    pose proof (ci_cas_sorted _ Inv) as S.
    apply step_general with (ts := ts); [exact Inv|exact Ht|..].
    - exact LI.
    - left. split; [exact LS|reflexivity].
    - left. split; [exact LR|reflexivity].
    - apply (ci_SR _ Inv).
    - apply (ci_idx _ Inv).
    - apply lex_sorted_del, S.
    - intros x c I. apply In_del_gen in I. apply (ci_cas_named _ Inv _ _ I).
    - intros k it I. apply blob_ok_del; [exact S| |apply (ci_nodangling _ Inv _ _ I)].
      intros E. apply count_pos_in in I. rewrite E in I. lia.
    - eapply RcRep_ext; [|apply (ci_intents _ Inv)]. intros x. cbn beta.
      rewrite Hr, Hr'. cbn [b01]. lia.
    - exact Pself.
    - exact Cself.
    - intros u tsu N G P. apply pc_ok_del; [exact S| |exact P].
      intros x R E. subst x.
      apply (registered_protected g u tsu h Inv G R). exact Hup.
    - intros x c G.
      assert (N : x <> h).
      { intros ->. rewrite lex_get_del_same in G by exact S. discriminate. }
      rewrite lex_get_del_other in G by assumption.
      eapply accounted_step; [exact Ht|exact Hres|apply (ci_accounted _ Inv _ _ G)| | |].
      + apply acc_ref.
      + apply acc_prot.
      + intros P. apply acc_pend. apply Hpend; assumption.
  Qed.

  Lemma km_valid_item g k it :
    ConcInv g -> sm_get cmp (km (g_idx g)) k = Some it -> valid_item it.
  Proof using cmp_refl cmp_eq cmp_antisym cmp_trans.
    intros Inv G. apply (KX get_in) in G; [|apply (ci_idx _ Inv)].
    destruct (ci_nodangling _ Inv _ _ G) as (c & Gc & Hh & Hl).
    apply (lex_get_in _ _ _ (ci_cas_sorted _ Inv)) in Gc.
    exists c. split; [apply (ci_cas_named _ Inv _ _ Gc)|split; assumption].
  Qed.

  Lemma not_ref_prot g h :
    ConcInv g -> referenced g h || protects g h = false ->
    count_refs (km (g_idx g)) h = 0 /\ sm_get lex_cmp (g_byhash g) h = None.
  Proof using.
    intros Inv E. apply orb_false_iff in E. destruct E as [E1 E2].
    unfold referenced in E1. unfold protects in E2. split.
    - destruct (ci_idx _ Inv) as (_ & _ & Hr & _). rewrite Hr in E1.
      destruct (N.eqb_spec (count_refs (km (g_idx g)) h) 0); [assumption|discriminate].
    - destruct (sm_get lex_cmp (g_byhash g) h); [discriminate|reflexivity].
  Qed.

  Ltac local_step Inv Ht ts Hpc :=
    unfold set_pc, finish;
    cbn [g_idx g_bykey g_byhash g_cas g_nextv g_I g_S g_R g_thr t_calls t_res t_pc];
    apply step_local with (ts := ts); [exact Inv | exact Ht | ..];
    rewrite ?Hpc; cbn [t_pc t_calls reg holdsI holdsS holdsR pending];
    try first [ exact I | assumption | (intros; reflexivity) | (left; split; reflexivity)
              | apply incl_refl | (apply incl_appl; apply incl_refl)
              | exact (ci_SR _ Inv) | exact (ci_idx _ Inv)
              | (intros X; exfalso; apply X; reflexivity)
              | match goal with |- forall _, False -> _ => intros ? [] end ].

  Theorem cstep_inv g t g' : ConcInv g -> cstep H cmp nops bad ckbad g t = Some g' -> ConcInv g'.
  Proof using cmp_refl cmp_eq cmp_antisym cmp_trans NoCollideC.
    intros Inv. unfold cstep.
    destruct (tget (g_thr g) t) as [ts|] eqn:Ht; [|discriminate].
    destruct (ci_pc _ Inv _ _ Ht) as [Pt Ct]. revert Pt.
    destruct (t_pc ts) eqn:Hpc; cbn [pc_ok]; intros Pt.
    - (* Idle *)
      destruct (t_calls ts) as [|c rest] eqn:Hc; [discriminate|].
      assert (Cr : calls_ok rest).
      { intros k0 c0 I0. apply (Ct k0 c0). right; exact I0. }
      destruct c as [k cc|k cc|k|lo hi|k|k|k a b| | |hs]; try destruct hs;
        intros E; inversion E; subst g'; clear E; local_step Inv Ht ts Hpc.
      cbn [pc_ok]. apply (Ct k cc). left; reflexivity.
    - (* PReg *)
      intros E; inversion E; subst g'; clear E; local_step Inv Ht ts Hpc.
    - (* PILock *)
      destruct (free (g_I g)) eqn:F; [|discriminate].
      intros E; inversion E; subst g'; clear E. apply step_pilock; assumption.
    - (* PRen *)
      destruct (bad (H c)) eqn:Bd; intros E; inversion E; subst g'; clear E.
      + local_step Inv Ht ts Hpc.
      + eapply step_pren; eassumption.
    - (* PDropI *)
      destruct (free (g_I g)) eqn:F; [|discriminate].
      intros E; inversion E; subst g'; clear E. unfold finish.
      cbn [g_idx g_bykey g_byhash g_cas g_nextv g_I g_S g_R g_thr].
      eapply step_pdrop; eassumption.
    - (* WLockI *)
      destruct (free (g_I g)) eqn:F; [|discriminate]. apply free_none in F.
      intros E; inversion E; subst g'; clear E. local_step Inv Ht ts Hpc.
      right; left. repeat split; try reflexivity. exact F.
    - (* WLockS *)
      destruct (free (g_S g)) eqn:F; [|discriminate]. apply free_none in F.
      destruct (noreaders g) eqn:NR; [|discriminate].
      assert (ER : g_R g = []).
      { unfold noreaders in NR. destruct (g_R g); [reflexivity|discriminate]. }
      intros E; inversion E; subst g'; clear E. local_step Inv Ht ts Hpc.
      + right; left. repeat split; try reflexivity. exact F.
      + intros _. exact ER.
    - (* WLockW *)
      destruct (apply_op cmp (g_idx g) (wop w)) as [[idx' un]|e] eqn:A; [|discriminate].
      intros E; inversion E; subst g'; clear E. apply step_wlockw; assumption.
    - (* WApplied *)
      destruct w as [k h sz|ks r]; cbn beta iota zeta;
        match goal with
        | |- (match filter ?f ?l with _ => _ end = _) -> _ =>
          destruct (filter f l) as [|x0 l0] eqn:F
        end; intros E; inversion E; subst g'; clear E.
      + apply (step_wapplied g t ts (WPut k h sz) un rolled _ None (WReleased (WPut k h sz) rolled)
                             Inv Ht Hpc).
        left. split; [exact F|split; reflexivity].
      + apply (step_wapplied g t ts (WPut k h sz) un rolled _ (g_I g)
                             (WUnlink (WPut k h sz) (x0 :: l0) rolled) Inv Ht Hpc).
        right. split; [|split; [reflexivity|]].
        * intros E. unfold unprot_in, wbh in E. rewrite F in E. discriminate.
        * f_equal. symmetry. exact F.
      + apply (step_wapplied g t ts (WRm ks r) un rolled _ None (WReleased (WRm ks r) rolled)
                             Inv Ht Hpc).
        left. split; [exact F|split; reflexivity].
      + apply (step_wapplied g t ts (WRm ks r) un rolled _ (g_I g)
                             (WUnlink (WRm ks r) (x0 :: l0) rolled) Inv Ht Hpc).
        right. split; [|split; [reflexivity|]].
        * intros E. unfold unprot_in, wbh in E. rewrite F in E. discriminate.
        * f_equal. symmetry. exact F.
    - (* WUnlink *)
      destruct Pt as [NE Pt].
      destruct todo as [|h rest]; [discriminate|].
      destruct (Pt h (or_introl eq_refl)) as [Hun Hup].
      destruct (bad h) eqn:Bd.
      { intros E; inversion E; subst g'; clear E. local_step Inv Ht ts Hpc.
        - right; right. repeat split; reflexivity.
        - intros x _. apply (acc_leak _ _ _ _ _ h); [exact Bd|]. cbn [t_res].
          apply in_or_app. right. left. reflexivity. }
      destruct rest as [|h2 rest]; intros E; inversion E; subst g'; clear E.
      + apply (step_unlink g t ts (mkT (t_calls ts) (WReleased w rolled) (t_res ts)) h None Inv Ht
                 Hun Hup); rewrite ?Hpc; cbn [t_pc t_calls t_res reg holdsI holdsS pending pc_ok];
          try first [exact I|assumption|(intros; reflexivity)|apply incl_refl].
        * right; right. repeat split; reflexivity.
        * intros x N [->|[]]. congruence.
      + apply (step_unlink g t ts (mkT (t_calls ts) (WUnlink w (h2 :: rest) rolled) (t_res ts)) h
                 (g_I g) Inv Ht Hun Hup);
          rewrite ?Hpc; cbn [t_pc t_calls t_res reg holdsI holdsS pending pc_ok];
          try first [exact I|assumption|(intros; reflexivity)|apply incl_refl].
        * left; split; reflexivity.
        * split; [discriminate|]. intros x Hx. apply Pt. right; exact Hx.
        * intros x N [->|Hx]; [congruence|exact Hx].
    - (* WReleased *)
      destruct rolled; intros E; inversion E; subst g'; clear E; local_step Inv Ht ts Hpc.
    - (* WCkS *)
      destruct (free (g_S g)) eqn:F; [|discriminate]. apply free_none in F.
      destruct (noreaders g) eqn:NR; [|discriminate].
      assert (ER : g_R g = []).
      { unfold noreaders in NR. destruct (g_R g); [reflexivity|discriminate]. }
      intros E; inversion E; subst g'; clear E. local_step Inv Ht ts Hpc.
      + right; left. repeat split; try reflexivity. exact F.
      + intros _. exact ER.
    - (* WCkW: a skipped checkpoint changes nothing; a real one only records the persisted
         version (even when the snapshot write fails) *)
      cbn zeta.
      match goal with |- (if ?b then _ else _) = _ -> _ => destruct b end;
        intros E; inversion E; subst g'; clear E; local_step Inv Ht ts Hpc;
        right; right; repeat split; reflexivity.
    - (* RRead *)
      destruct (free (g_S g)) eqn:F; [|discriminate].
      destruct (sm_get cmp (km (g_idx g)) k) eqn:G;
        intros E; inversion E; subst g'; clear E; local_step Inv Ht ts Hpc.
    - (* RScanned *)
      intros E; inversion E; subst g'; clear E; local_step Inv Ht ts Hpc.
    - (* RRRead *)
      destruct (free (g_S g)) eqn:F; [|discriminate].
      intros E; inversion E; subst g'; clear E; local_step Inv Ht ts Hpc.
    - (* RRScanned *)
      destruct ks; intros E; inversion E; subst g'; clear E; local_step Inv Ht ts Hpc.
    - (* GRead *)
      destruct (free (g_S g)) eqn:F; [|discriminate].
      destruct (sm_get cmp (km (g_idx g)) k) eqn:G;
        intros E; inversion E; subst g'; clear E; local_step Inv Ht ts Hpc.
      cbn [pc_ok]. eapply km_valid_item; eassumption.
    - (* GLooked *)
      destruct (pre_open md it); intros E; inversion E; subst g'; clear E; local_step Inv Ht ts Hpc.
    - (* GOpen *)
      destruct (bad (ihash it)) eqn:Bd;
        [intros E; inversion E; subst g'; clear E; local_step Inv Ht ts Hpc|].
      destruct (sm_get lex_cmp (g_cas g) (ihash it)) eqn:G;
        intros E; inversion E; subst g'; clear E; local_step Inv Ht ts Hpc.
    - (* GReread *)
      destruct (free (g_S g)) eqn:F; [|discriminate]. apply free_none in F.
      destruct (sm_get cmp (km (g_idx g)) k) as [cur|] eqn:G.
      + destruct (pre_open md cur);
          intros E; inversion E; subst g'; clear E; local_step Inv Ht ts Hpc.
        * right; left. repeat split; reflexivity.
        * intros X. rewrite F in X. exfalso; apply X; reflexivity.
      + intros E; inversion E; subst g'; clear E; local_step Inv Ht ts Hpc.
    - (* GOpenL *)
      destruct (bad (ihash it)) eqn:Bd; [|destruct (sm_get lex_cmp (g_cas g) (ihash it)) eqn:G];
        intros E; inversion E; subst g'; clear E; local_step Inv Ht ts Hpc;
        try (right; right; repeat split; reflexivity);
        intros X; rewrite (ci_SR _ Inv X); reflexivity.
    - (* IRead *)
      destruct (free (g_S g)) eqn:F; [|discriminate].
      intros E; inversion E; subst g'; clear E; local_step Inv Ht ts Hpc.
    - (* OLockI *)
      destruct todo as [|h rest].
      + intros E; inversion E; subst g'; clear E; local_step Inv Ht ts Hpc.
      + destruct (free (g_I g)) eqn:F; [|discriminate]. apply free_none in F.
        intros E; inversion E; subst g'; clear E. local_step Inv Ht ts Hpc.
        right; left. repeat split; try reflexivity. exact F.
    - (* ORead *)
      destruct (free (g_S g)) eqn:F; [|discriminate].
      destruct (referenced g h || protects g h) eqn:RP.
      + destruct todo; intros E; inversion E; subst g'; clear E; local_step Inv Ht ts Hpc;
          right; right; repeat split; reflexivity.
      + intros E; inversion E; subst g'; clear E; local_step Inv Ht ts Hpc.
        cbn [pc_ok]. apply not_ref_prot; assumption.
    - (* OUnlink *)
      destruct Pt as [Hun Hup].
      assert (X : forall ts', (t_pc ts' = Idle \/ exists a b c, t_pc ts' = OLockI a b c) ->
                              t_calls ts' = t_calls ts -> incl (t_res ts) (t_res ts') ->
                ConcInv (mkC (g_idx g) (g_bykey g) (g_byhash g) (sm_del lex_cmp (g_cas g) h)
                             (g_nextv g) None (g_S g) (g_R g) (tset (g_thr g) t ts'))).
      { intros ts' Hp Hcalls Hres.
        apply (step_unlink g t ts ts' h None Inv Ht Hun Hup); rewrite ?Hpc.
        - intros; reflexivity.
        - destruct Hp as [->|(a & b & c & ->)]; reflexivity.
        - right; right. destruct Hp as [->|(a & b & c & ->)]; repeat split; reflexivity.
        - destruct Hp as [->|(a & b & c & ->)]; reflexivity.
        - destruct Hp as [->|(a & b & c & ->)]; reflexivity.
        - destruct Hp as [->|(a & b & c & ->)]; exact I.
        - rewrite Hcalls. exact Ct.
        - exact Hres.
        - intros x _ []. }
      destruct (bad h) eqn:Bd.
      { cbn beta iota zeta. destruct todo; intros E; inversion E; subst g'; clear E;
          local_step Inv Ht ts Hpc; right; right; repeat split; reflexivity. }
      destruct (sm_get lex_cmp (g_cas g) h) eqn:G; cbn beta iota zeta;
        destruct todo; intros E; inversion E; subst g'; clear E; unfold finish, set_pc;
        cbn [g_idx g_bykey g_byhash g_cas g_nextv g_I g_S g_R g_thr t_calls t_res t_pc].
      + apply X; [left; reflexivity|reflexivity|apply incl_appl, incl_refl].
      + apply X; [right; eexists _, _, _; reflexivity|reflexivity|apply incl_refl].
      + rewrite <- (LX del_absent _ _ G) at 1.
        apply X; [left; reflexivity|reflexivity|apply incl_appl, incl_refl].
      + rewrite <- (LX del_absent _ _ G) at 1.
        apply X; [right; eexists _, _, _; reflexivity|reflexivity|apply incl_refl].
  Qed.


  (* ---- the initial state ---- *)
  Lemma tget_init thr t ts :
    tget (map (fun p : nat * list ccall => (fst p, mkT (snd p) Idle [])) thr) t = Some ts ->
    exists cs, In (t, cs) thr /\ ts = mkT cs Idle [].
  Proof using.
    induction thr as [|[u cs] r IH]; cbn [map tget fst snd]; [discriminate|].
    destruct (Nat.eqb t u) eqn:E.
    - apply Nat.eqb_eq in E. subst u. intros G; inversion G; subst.
      exists cs. split; [left; reflexivity|reflexivity].
    - intros G. destruct (IH G) as (cs' & I' & E'). exists cs'. split; [right; exact I'|exact E'].
  Qed.

  Theorem init_inv : ConcInv (init_c thr0 cas0).
  Proof using thr0_nodup cas0_sorted cas0_named.
    unfold init_c. constructor; cbn [g_idx g_bykey g_byhash g_cas g_nextv g_I g_S g_R g_thr].
    - rewrite map_map. cbn [fst]. exact thr0_nodup.
    - intros t. split; [discriminate|]. intros (ts & G & Hh).
      apply tget_init in G. destruct G as (cs & _ & ->). discriminate.
    - intros t. split; [discriminate|]. intros (ts & G & Hh).
      apply tget_init in G. destruct G as (cs & _ & ->). discriminate.
    - split; [constructor|]. intros t. split; [intros []|]. intros (ts & G & Hh).
      apply tget_init in G. destruct G as (cs & _ & ->). discriminate.
    - reflexivity.
    - apply C12_empty.
    - exact cas0_sorted.
    - intros h c I. split; [apply cas0_named, I|].
      unfold allc. apply in_or_app. right. apply in_map_iff. exists (h, c). split; [reflexivity|exact I].
    - intros k it [].
    - split; [exact I|]. intros h. rewrite intents_zero; [reflexivity|].
      intros t s I. apply in_map_iff in I. destruct I as ([u cs] & E & _).
      inversion E; subst. reflexivity.
    - intros t ts G. apply tget_init in G. destruct G as (cs & Ics & ->). cbn [t_pc t_calls pc_ok].
      split; [exact I|]. intros k c Ic. eapply contents_in; eassumption.
    - intros h c G. right; right; right; left.
      apply (lex_get_in _ _ _ cas0_sorted) in G.
      apply in_map_iff. exists (h, c). split; [reflexivity|exact G].
  Qed.

  Lemma crun_inv sched : forall g, ConcInv g -> ConcInv (crun H cmp nops bad ckbad g sched).
  Proof using cmp_refl cmp_eq cmp_antisym cmp_trans NoCollideC.
    induction sched as [|t r IH]; intros g Inv; cbn [crun]; [exact Inv|].
    destruct (cstep H cmp nops bad ckbad g t) as [g'|] eqn:E; [|apply IH, Inv].
    apply IH. eapply cstep_inv; eassumption.
  Qed.

  Theorem reachable_inv g : reachable g -> ConcInv g.
  Proof using cmp_refl cmp_eq cmp_antisym cmp_trans NoCollideC thr0_nodup cas0_sorted cas0_named.
    intros [sched ->]. apply crun_inv, init_inv.
  Qed.

  Lemma reachable_init : reachable (init_c thr0 cas0).
  Proof using. exists []. reflexivity. Qed.

  Lemma reachable_step g t g' : reachable g -> cstep H cmp nops bad ckbad g t = Some g' -> reachable g'.
  Proof using.
    intros [sched ->] E. exists (sched ++ [t]).
    assert (A : forall s g0, crun H cmp nops bad ckbad g0 (s ++ [t]) =
                             match cstep H cmp nops bad ckbad (crun H cmp nops bad ckbad g0 s) t with
                             | Some g1 => g1 | None => crun H cmp nops bad ckbad g0 s end).
    { induction s as [|u s IH]; intros g0; cbn [app crun]; [destruct (cstep _ _ _ _ _ g0 t); reflexivity|].
      destruct (cstep H cmp nops bad ckbad g0 u); apply IH. }
    rewrite A, E. reflexivity.
  Qed.

End ConcInv.

Print Assumptions cstep_inv.
Print Assumptions init_inv.
Print Assumptions reachable_inv.
