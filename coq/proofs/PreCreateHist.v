(* PreCreateHist.v -- the history theorems C01 / C02 from an empty directory for BOTH values of
   pre_create_cas_dirs (c_pre cfg): the statements of StoreHist.C01_from_fresh,
   RestartHist.C02_restart_transparent and RestartHist.C02_observations_equal without the
   hypothesis [c_pre cfg = false].  The first open with c_pre cfg = true is handled by
   PreCreate.v (open_fresh_disk_pre_Inv, C01_from_fresh_any); everything after the first open
   is independent of the flag (RestartHist.run_restarts works from any [Inv]). *)
From Cas Require Import History.
From CasProofs Require Import BaseProofs CodecBase CodecProofs SMapProofs IndexProofs RangeProofs
  StoreFS StoreInv StoreWrite StoreRead StoreHist WorldRel DiskInv Recover RestartHist
  SettingsGate CrashInv PreCreate.
From Coq Require Import ZifyBool ZifyNat ZifyN.
Open Scope N_scope.

Local Opaque all256.

Section PreCreateHist.
  Variable H : bytes -> bytes.
  Hypothesis H_len : forall b, length (H b) = 32%nat.
  Hypothesis H_byte : forall b, Forall (fun x => x < 256) (H b).
  Variable cfg : config.
  Hypothesis n_pos : 0 < c_n cfg.
  Let cmp := key_cmp (c_kt cfg).

  Local Notation NoCollide := (NoCollide H).
  Local Notation Live0 := (Live0 H cfg).
  Local Notation Inv := (Inv H cfg).
  Local Notation Clean := (Clean H).
  Local Notation CasNamed := (CasNamed H).
  Local Notation spec_outs := (spec_outs H cfg).
  Local Notation api_op := (api_op cfg).
  Local Notation hist_r := (hist_r cfg).
  Local Notation hist_fits := (hist_fits cfg).

  (* C01 from a fresh directory, either choice of pre_create_cas_dirs: the statement of
     StoreHist.C01_from_fresh without [c_pre cfg = false] *)
  Theorem C01_from_fresh_gen : forall ops, Forall api_op ops ->
    NoCollide (hist_contents ops) ->
    exists os hd' w',
      run_ops H None (OpOpen cfg false :: ops) (init_world empty_fs None)
      = ((OutOpened os :: spec_outs [] ops, Some hd'), w') /\
      h_cfg hd' = cfg /\ wfault w' = None /\
      Live0 (h_mem hd') (wfs w') (fold_left (spec_step cmp) ops []) /\
      Clean (wfs w') (fold_left (spec_step cmp) ops []) /\ CasNamed (wfs w').
  Proof.
    intros ops A NC.
    destruct (C01_from_fresh_any H H_len H_byte cfg n_pos ops A NC)
      as (os & hd' & w' & E & Hc & F & _ & L & C & N & _).
    exists os, hd', w'. split; [exact E|]. split; [exact Hc|]. split; [exact F|].
    split; [exact (LiveP_Live0 H cfg _ _ _ L)|]. split; [exact C|exact N].
  Qed.

  (* the first open of an empty directory establishes Inv, either choice: the interface of
     Recover.open_fresh_disk without [c_pre cfg = false] *)
  Theorem open_fresh_disk_gen : c_n cfg < 2 ^ 64 ->
    exists m os w', open_with_recover H cfg (init_world empty_fs None) = (Ok (m, os), w') /\
      wfault w' = None /\ Inv m (wfs w') [] /\ Clean (wfs w') [] /\ CasNamed (wfs w') /\
      nextv (mwal m) = 1.
  Proof.
    intros Nfit. destruct (c_pre cfg) eqn:Pre.
    - destruct (open_fresh_disk_pre_Inv H H_len H_byte cfg n_pos Pre Nfit)
        as (m & os & w' & E & F & _ & IV & C & N & V).
      exists m, os, w'. repeat (split; [assumption|]). assumption.
    - exact (open_fresh_disk H H_len H_byte cfg n_pos Pre Nfit).
  Qed.

  (* C02 without [c_pre cfg = false] *)
  Theorem C02_restart_transparent_gen : forall ops,
    c_n cfg < 2 ^ 64 -> hist_r ops ->
    NoCollide (hist_contents ops) -> hist_fits [] ops -> N.of_nat (length ops) < 2 ^ 32 - 1 ->
    exists os0 outs hd' w',
      run_ops H None (OpOpen cfg false :: ops) (init_world empty_fs None)
      = ((OutOpened os0 :: outs, Some hd'), w') /\
      wfault w' = None /\
      strip_restarts ops outs = spec_outs [] (erase_restarts ops) /\
      opens_ok ops outs /\ h_cfg hd' = cfg /\
      Inv (h_mem hd') (wfs w') (fold_left (spec_step cmp) (erase_restarts ops) []).
  Proof.
    intros ops Nfit Hr NC Fit Ln.
    destruct (open_fresh_disk_gen Nfit) as (m & os & w1 & E1 & F1 & IV1 & _ & _ & Nv1).
    destruct (run_restarts H H_len H_byte cfg n_pos ops Hr m (wfs w1) [] os w1 IV1 eq_refl F1)
      as (outs & m' & os' & w' & E & F' & St & Op & IV'); try assumption.
    { now rewrite app_nil_r. }
    { cbn [length]. pow_consts. lia. }
    { rewrite Nv1. pow_consts. lia. }
    exists os, outs, (mkHandle cfg m' os'), w'. cbn [run_ops step].
    assert (E0 : (do! r <- open_with_recover H cfg ;;
                  match r with
                  | Ok (m0, os0) => ret (OutOpened os0, Some (mkHandle cfg m0 os0))
                  | Err e => ret (OutErr e, None)
                  end) (init_world empty_fs None)
                 = ((OutOpened os, Some (mkHandle cfg m os)), w1)).
    { rewrite (bind_eq _ _ _ _ _ E1). reflexivity. }
    rewrite (bind_eq _ _ _ _ _ E0). cbn [snd fst]. rewrite (bind_eq _ _ _ _ _ E).
    split; [reflexivity|]. split; [exact F'|]. split; [exact St|]. split; [exact Op|].
    split; [reflexivity|exact IV'].
  Qed.

  Theorem C02_observations_equal_gen : forall ops,
    c_n cfg < 2 ^ 64 -> hist_r ops ->
    NoCollide (hist_contents ops) -> hist_fits [] ops -> N.of_nat (length ops) < 2 ^ 32 - 1 ->
    exists r1 hd1 w1 r2 hd2 w2,
      run_ops H None (OpOpen cfg false :: ops) (init_world empty_fs None) = ((r1, Some hd1), w1) /\
      run_ops H None (OpOpen cfg false :: erase_restarts ops) (init_world empty_fs None)
      = ((r2, Some hd2), w2) /\
      km (idx (h_mem hd1)) = km (idx (h_mem hd2)) /\ rc (idx (h_mem hd1)) = rc (idx (h_mem hd2)) /\
      ub (idx (h_mem hd1)) = ub (idx (h_mem hd2)) /\ tb (idx (h_mem hd1)) = tb (idx (h_mem hd2)).
  Proof.
    intros ops Nfit Hr NC Fit Ln.
    destruct (C02_restart_transparent_gen ops Nfit Hr NC Fit Ln)
      as (os0 & outs & hd1 & w1 & E1 & _ & _ & _ & _ & (L1 & _ & _)).
    destruct (C01_from_fresh_gen (erase_restarts ops) (erase_api cfg ops Hr))
      as (os2 & hd2 & w2 & E2 & _ & _ & L2 & _).
    { now rewrite (erase_contents cfg). }
    fold cmp in L2.
    exists (OutOpened os0 :: outs), hd1, w1, (OutOpened os2 :: spec_outs [] (erase_restarts ops)), hd2, w2.
    split; [exact E1|]. split; [exact E2|].
    destruct L1 as [_ K1 I1 _ _ _ _ _]. destruct L2 as [_ K2 I2 _ _ _ _ _].
    assert (K : km (idx (h_mem hd1)) = km (idx (h_mem hd2))) by congruence.
    split; [exact K|]. exact (IdxInv_unique cfg _ _ I1 I2 K).
  Qed.
End PreCreateHist.

Print Assumptions C01_from_fresh_gen.
Print Assumptions open_fresh_disk_gen.
Print Assumptions C02_restart_transparent_gen.
Print Assumptions C02_observations_equal_gen.
