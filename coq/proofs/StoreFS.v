(* StoreFS.v -- facts about the filesystem model (theories/FS.v) and the world monad, for
   fault-free runs: reflection of path_eqb, lookup / set_path / remove_path, the effect of each
   successful call, frames ("only paths in T were touched") and trace extensions. *)
From Cas Require Import History.
From CasProofs Require Import BaseProofs SMapProofs.
From Coq Require Import ZifyBool ZifyNat ZifyN.
Open Scope N_scope.

(* ------------------------------------------------------------------ *)
(* 1. path_eqb                                                         *)
(* ------------------------------------------------------------------ *)

Lemma comps_eqb_true_iff : forall a b : list bytes,
  (fix go (a b : list bytes) := match a, b with
     | [], [] => true
     | x :: a', y :: b' => beqb x y && go a' b'
     | _, _ => false end) a b = true <-> a = b.
Proof.
  induction a as [|x a IH]; intros [|y b]; split; intros E; try reflexivity; try discriminate.
  - apply andb_true_iff in E. destruct E as [E1 E2].
    apply beqb_true_iff in E1. apply IH in E2. congruence.
  - inversion E; subst. apply andb_true_iff. split; [apply beqb_refl|]. now apply IH.
Qed.

Lemma path_eqb_true_iff : forall p q, path_eqb p q = true <-> p = q.
Proof.
  intros p q. destruct p, q; cbn [path_eqb]; split; intros E;
    try reflexivity; try discriminate.
  - apply N.eqb_eq in E. congruence.
  - inversion E. apply N.eqb_refl.
  - apply N.eqb_eq in E. congruence.
  - inversion E. apply N.eqb_refl.
  - apply comps_eqb_true_iff in E. congruence.
  - inversion E. now apply comps_eqb_true_iff.
Qed.

Lemma path_eqb_refl : forall p, path_eqb p p = true.
Proof. intros p. now apply path_eqb_true_iff. Qed.

Lemma path_eqb_neq : forall p q, p <> q -> path_eqb p q = false.
Proof.
  intros p q N. destruct (path_eqb p q) eqn:E; [|reflexivity].
  apply path_eqb_true_iff in E. contradiction.
Qed.

Lemma path_eqb_spec : forall p q, reflect (p = q) (path_eqb p q).
Proof.
  intros p q. destruct (path_eqb p q) eqn:E; constructor.
  - now apply path_eqb_true_iff.
  - intros N. apply path_eqb_true_iff in N. congruence.
Qed.

Lemma path_eq_dec : forall p q : path, {p = q} + {p <> q}.
Proof. intros p q. destruct (path_eqb_spec p q); [left|right]; assumption. Qed.

Lemma dir_eqb_true_iff : forall a b, dir_eqb a b = true <-> a = b.
Proof.
  induction a as [|x a IH]; intros [|y b]; cbn [dir_eqb]; split; intros E;
    try reflexivity; try discriminate.
  - apply andb_true_iff in E. destruct E as [E1 E2].
    apply beqb_true_iff in E1. apply IH in E2. congruence.
  - inversion E; subst. apply andb_true_iff. split; [apply beqb_refl|]. now apply IH.
Qed.

Lemma has_dir_iff : forall s d, has_dir s d = true <-> In d (dirs s).
Proof.
  intros s d. unfold has_dir. rewrite existsb_exists. split.
  - intros (x & I & E). apply dir_eqb_true_iff in E. now subst.
  - intros I. exists d. split; [exact I|]. now apply dir_eqb_true_iff.
Qed.

(* ------------------------------------------------------------------ *)
(* 2. lookup / set_path / remove_path                                  *)
(* ------------------------------------------------------------------ *)

Definition paths (l : list (path * file)) : list path := map fst l.

Lemma lookup_none_iff : forall l p, lookup l p = None <-> ~ In p (paths l).
Proof.
  induction l as [|[q f] l IH]; intros p; cbn [lookup paths map fst In].
  - split; [intros _ []|reflexivity].
  - destruct (path_eqb_spec p q) as [E|E].
    + split; [discriminate|]. intros N. exfalso. apply N. left. now symmetry.
    + rewrite IH. unfold paths. split.
      * intros N [X|X]; [apply E; now symmetry|now apply N].
      * intros N X. apply N. now right.
Qed.

Lemma lookup_set_path : forall l p f q,
  lookup (set_path l p f) q = if path_eqb q p then Some f else lookup l q.
Proof.
  induction l as [|[r g] l IH]; intros p f q; cbn [set_path lookup].
  - reflexivity.
  - destruct (path_eqb_spec p r) as [E|E]; cbn [lookup].
    + subst r. destruct (path_eqb q p); reflexivity.
    + rewrite IH. destruct (path_eqb_spec q r) as [E2|E2]; [|reflexivity].
      subst r. rewrite path_eqb_neq; [reflexivity|]. intros X. apply E. now symmetry.
Qed.

Lemma lookup_remove_other : forall l p q, q <> p ->
  lookup (remove_path l p) q = lookup l q.
Proof.
  induction l as [|[r g] l IH]; intros p q N; cbn [remove_path lookup]; [reflexivity|].
  destruct (path_eqb_spec p r) as [E|E]; cbn [lookup].
  - subst r. now rewrite path_eqb_neq.
  - rewrite IH by exact N. reflexivity.
Qed.

Lemma paths_remove_incl : forall l p q, In q (paths (remove_path l p)) -> In q (paths l).
Proof.
  induction l as [|[r g] l IH]; intros p q; cbn [remove_path paths map fst In]; [tauto|].
  destruct (path_eqb p r); cbn [map fst In].
  - intros I. now right.
  - intros [I|I]; [now left|right; eapply IH; exact I].
Qed.

Lemma paths_remove_nodup : forall l p, NoDup (paths l) -> NoDup (paths (remove_path l p)).
Proof.
  induction l as [|[r g] l IH]; intros p ND; cbn [remove_path paths map fst]; [constructor|].
  inversion ND as [|? ? N1 ND']; subst.
  destruct (path_eqb p r); cbn [map fst]; [exact ND'|].
  constructor; [|apply IH, ND']. intros I. apply N1. eapply paths_remove_incl. exact I.
Qed.

Lemma lookup_remove_same : forall l p, NoDup (paths l) -> lookup (remove_path l p) p = None.
Proof.
  induction l as [|[r g] l IH]; intros p ND; cbn [remove_path lookup]; [reflexivity|].
  inversion ND as [|? ? N1 ND']; subst. cbn [fst] in N1.
  destruct (path_eqb_spec p r) as [E|E]; cbn [lookup].
  - subst r. now apply lookup_none_iff.
  - rewrite path_eqb_neq by exact E. apply IH, ND'.
Qed.

Lemma set_path_absent : forall l p f, lookup l p = None -> set_path l p f = l ++ [(p, f)].
Proof.
  induction l as [|[r g] l IH]; intros p f; cbn [lookup set_path app]; [reflexivity|].
  destruct (path_eqb p r); [discriminate|]. intros E. now rewrite IH.
Qed.

Lemma set_path_last : forall l p f g, lookup l p = None ->
  set_path (l ++ [(p, f)]) p g = l ++ [(p, g)].
Proof.
  induction l as [|[r h] l IH]; intros p f g; cbn [lookup set_path app].
  - now rewrite path_eqb_refl.
  - destruct (path_eqb p r); [discriminate|]. intros E. now rewrite IH.
Qed.

Lemma remove_path_last : forall l p f, lookup l p = None -> remove_path (l ++ [(p, f)]) p = l.
Proof.
  induction l as [|[r h] l IH]; intros p f; cbn [lookup remove_path app].
  - now rewrite path_eqb_refl.
  - destruct (path_eqb p r); [discriminate|]. intros E. now rewrite IH.
Qed.

Lemma lookup_last : forall l p f, lookup l p = None -> lookup (l ++ [(p, f)]) p = Some f.
Proof.
  induction l as [|[r h] l IH]; intros p f; cbn [lookup app].
  - now rewrite path_eqb_refl.
  - destruct (path_eqb p r); [discriminate|]. apply IH.
Qed.

Lemma paths_set_path : forall l p f,
  paths (set_path l p f) = match lookup l p with Some _ => paths l | None => paths l ++ [p] end.
Proof.
  induction l as [|[r g] l IH]; intros p f; cbn [set_path lookup paths map fst app]; [reflexivity|].
  destruct (path_eqb_spec p r) as [E|E]; cbn [map fst].
  - now subst.
  - fold (paths (set_path l p f)). rewrite IH. fold (paths l).
    destruct (lookup l p); reflexivity.
Qed.

Lemma paths_set_nodup : forall l p f, NoDup (paths l) -> NoDup (paths (set_path l p f)).
Proof.
  intros l p f ND. rewrite paths_set_path. destruct (lookup l p) eqn:E; [exact ND|].
  apply lookup_none_iff in E.
  apply NoDup_rev in ND. rewrite <- (rev_involutive (paths l ++ [p])).
  apply NoDup_rev. rewrite rev_app_distr. cbn [rev app]. constructor; [|exact ND].
  intros I. apply E. now apply in_rev.
Qed.

(* ------------------------------------------------------------------ *)
(* 3. well-formed filesystems, updates                                 *)
(* ------------------------------------------------------------------ *)

(* no path is listed twice: every filesystem reachable from [empty_fs] by calls has this
   property (apply_call_wf, empty_fs_wf); without it, CUnlink p may leave a second entry for p
   behind, so exact reclamation (Clean) would not be preserved *)
Definition FsWf (s : fs) : Prop := NoDup (paths (files s)).

Lemma empty_fs_wf : FsWf empty_fs.
Proof. constructor. Qed.

(* why FsWf is needed: the list representation allows duplicate entries, and then an unlink
   does not make the path disappear *)
Example unlink_with_duplicate_entry :
  let f := mkFile [] 0 in
  let s := mkFs [(PLock, f); (PLock, f)] [] 0 in
  exists s', apply_call (CUnlink PLock) s = Ok s' /\ fget s' PLock = Some f.
Proof. eexists. split; reflexivity. Qed.

Definition upd (s : fs) (p : path) (f : file) : fs := with_files s (set_path (files s) p f).
Definition del (s : fs) (p : path) : fs := with_files s (remove_path (files s) p).
Definition ren (s : fs) (p q : path) (f : file) : fs :=
  with_files s (set_path (remove_path (files s) p) q f).

Lemma fget_upd : forall s p f q, fget (upd s p f) q = if path_eqb q p then Some f else fget s q.
Proof. intros. unfold fget, upd. cbn [with_files files]. apply lookup_set_path. Qed.
Lemma fget_upd_same : forall s p f, fget (upd s p f) p = Some f.
Proof. intros. now rewrite fget_upd, path_eqb_refl. Qed.
Lemma fget_upd_other : forall s p f q, q <> p -> fget (upd s p f) q = fget s q.
Proof. intros. now rewrite fget_upd, path_eqb_neq. Qed.
Lemma fget_del_other : forall s p q, q <> p -> fget (del s p) q = fget s q.
Proof. intros. unfold fget, del. cbn [with_files files]. now apply lookup_remove_other. Qed.
Lemma fget_del_same : forall s p, FsWf s -> fget (del s p) p = None.
Proof. intros. unfold fget, del. cbn [with_files files]. now apply lookup_remove_same. Qed.
Lemma fget_ren : forall s p q f r,
  fget (ren s p q f) r = if path_eqb r q then Some f else fget (del s p) r.
Proof. intros. unfold fget, ren, del. cbn [with_files files]. apply lookup_set_path. Qed.

Lemma upd_wf : forall s p f, FsWf s -> FsWf (upd s p f).
Proof. intros. unfold FsWf, upd. cbn [with_files files]. now apply paths_set_nodup. Qed.
Lemma del_wf : forall s p, FsWf s -> FsWf (del s p).
Proof. intros. unfold FsWf, del. cbn [with_files files]. now apply paths_remove_nodup. Qed.
Lemma ren_wf : forall s p q f, FsWf s -> FsWf (ren s p q f).
Proof.
  intros. unfold FsWf, ren. cbn [with_files files]. now apply paths_set_nodup, paths_remove_nodup.
Qed.

(* every successful call preserves well-formedness *)
Lemma apply_call_wf : forall c s s', apply_call c s = Ok s' -> FsWf s -> FsWf s'.
Proof.
  intros c s s' E W. destruct c; cbn [apply_call] in E.
  - destruct (has_dir s d); [discriminate|].
    destruct (removelast d); [|destruct (has_dir s _)]; inversion E; subst; exact W.
  - destruct (parent_ok s p); inversion E; subst. now apply upd_wf.
  - destruct (parent_ok s p); [|discriminate]. destruct (fget s p); inversion E; subst.
    unfold FsWf. cbn [files]. now apply paths_set_nodup.
  - destruct (parent_ok s p); [|discriminate]. destruct (fget s p); inversion E; subst;
      [exact W|now apply upd_wf].
  - destruct (fget s p); inversion E; subst. now apply upd_wf.
  - destruct (fget s p); inversion E; subst. now apply upd_wf.
  - destruct (fget s p); [|discriminate]. destruct (parent_ok s q); inversion E; subst.
    now apply ren_wf.
  - destruct (fget s p); inversion E; subst. now apply del_wf.
Qed.

(* ------------------------------------------------------------------ *)
(* 4. frames                                                           *)
(* ------------------------------------------------------------------ *)

(* only paths in T were touched; directories and the staging counter are unchanged *)
Record Frame (T : path -> Prop) (s s' : fs) : Prop := mkFrame {
  fr_get : forall q, T q \/ fget s' q = fget s q;
  fr_dirs : dirs s' = dirs s;
  fr_nstage : nstage s' = nstage s;
  fr_wf : FsWf s -> FsWf s'
}.

Lemma frame_refl : forall T s, Frame T s s.
Proof. intros. constructor; auto. Qed.

Lemma frame_trans : forall T s1 s2 s3, Frame T s1 s2 -> Frame T s2 s3 -> Frame T s1 s3.
Proof.
  intros T s1 s2 s3 [G1 D1 N1 W1] [G2 D2 N2 W2]. constructor.
  - intros q. destruct (G1 q) as [X|X]; [now left|]. destruct (G2 q) as [Y|Y]; [now left|].
    right. congruence.
  - congruence.
  - congruence.
  - auto.
Qed.

Lemma frame_weaken : forall (T T' : path -> Prop) s s',
  (forall q, T q -> T' q) -> Frame T s s' -> Frame T' s s'.
Proof.
  intros T T' s s' I [G D N W]. constructor; auto.
  intros q. destruct (G q); auto.
Qed.

Lemma frame_upd : forall (T : path -> Prop) s p f, T p -> Frame T s (upd s p f).
Proof.
  intros T s p f Tp. constructor; try reflexivity; [|apply upd_wf].
  intros q. destruct (path_eq_dec q p) as [E|E]; [subst; now left|right].
  now apply fget_upd_other.
Qed.

Lemma frame_del : forall (T : path -> Prop) s p, T p -> Frame T s (del s p).
Proof.
  intros T s p Tp. constructor; try reflexivity; [|apply del_wf].
  intros q. destruct (path_eq_dec q p) as [E|E]; [subst; now left|right].
  now apply fget_del_other.
Qed.

Lemma frame_ren : forall (T : path -> Prop) s p q f, T p -> T q -> Frame T s (ren s p q f).
Proof.
  intros T s p q f Tp Tq. constructor; try reflexivity; [|apply ren_wf].
  intros r. destruct (path_eq_dec r q) as [E|E]; [subst; now left|].
  destruct (path_eq_dec r p) as [E2|E2]; [subst; now left|right].
  rewrite fget_ren, path_eqb_neq by exact E. now apply fget_del_other.
Qed.

(* ------------------------------------------------------------------ *)
(* 5. worlds: trace extension + frame                                  *)
(* ------------------------------------------------------------------ *)

Record Step (T : path -> Prop) (P : tev -> Prop) (w w' : world) : Prop := mkStep {
  st_fault : wfault w' = None;
  st_trace : exists tr, wtrace w' = tr ++ wtrace w /\ Forall P tr;
  st_frame : Frame T (wfs w) (wfs w')
}.

Lemma step_refl : forall T P w, wfault w = None -> Step T P w w.
Proof.
  intros. constructor; [assumption| |apply frame_refl]. exists []. split; [reflexivity|constructor].
Qed.

Lemma step_trans : forall T P w1 w2 w3, Step T P w1 w2 -> Step T P w2 w3 -> Step T P w1 w3.
Proof.
  intros T P w1 w2 w3 [F1 (t1 & E1 & A1) R1] [F2 (t2 & E2 & A2) R2]. constructor.
  - exact F2.
  - exists (t2 ++ t1). split; [rewrite E2, E1; apply app_assoc|]. apply Forall_app. now split.
  - eapply frame_trans; eassumption.
Qed.

Lemma step_weaken : forall (T T' : path -> Prop) (P P' : tev -> Prop) w w',
  (forall q, T q -> T' q) -> (forall e, P e -> P' e) -> Step T P w w' -> Step T' P' w w'.
Proof.
  intros T T' P P' w w' IT IP [F (t & E & A) R]. constructor.
  - exact F.
  - exists t. split; [exact E|]. eapply Forall_impl; [|exact A]. exact IP.
  - eapply frame_weaken; eassumption.
Qed.

(* trace extension alone (for programs that also create directories / staging files) *)
Definition Ext (P : tev -> Prop) (w w' : world) : Prop :=
  wfault w' = None /\ exists tr, wtrace w' = tr ++ wtrace w /\ Forall P tr.

Lemma ext_refl : forall P w, wfault w = None -> Ext P w w.
Proof. intros. split; [assumption|]. exists []. split; [reflexivity|constructor]. Qed.

Lemma ext_trans : forall P w1 w2 w3, Ext P w1 w2 -> Ext P w2 w3 -> Ext P w1 w3.
Proof.
  intros P w1 w2 w3 [F1 (t1 & E1 & A1)] [F2 (t2 & E2 & A2)]. split; [exact F2|].
  exists (t2 ++ t1). split; [rewrite E2, E1; apply app_assoc|]. apply Forall_app. now split.
Qed.

Lemma ext_weaken : forall (P P' : tev -> Prop) w w',
  (forall e, P e -> P' e) -> Ext P w w' -> Ext P' w w'.
Proof.
  intros P P' w w' I [F (t & E & A)]. split; [exact F|]. exists t. split; [exact E|].
  eapply Forall_impl; [|exact A]. exact I.
Qed.

Lemma step_ext : forall T P w w', Step T P w w' -> Ext P w w'.
Proof. intros T P w w' [F E _]. now split. Qed.

(* ---- the monad ---- *)
Lemma bind_eq : forall {A B} (m : M A) (f : A -> M B) w a w1,
  m w = (a, w1) -> bind m f w = f a w1.
Proof. intros A B m f w a w1 E. unfold bind. now rewrite E. Qed.

Lemma do_call_ok : forall c w s',
  wfault w = None -> apply_call c (wfs w) = Ok s' ->
  do_call c w = (Ok tt, mkWorld s' (TCall c :: wtrace w) (S (wcount w)) None).
Proof. intros c w s' F E. unfold do_call. now rewrite E, F. Qed.

Lemma do_call_err : forall c w e, apply_call c (wfs w) = Err e -> do_call c w = (Err e, w).
Proof. intros c w e E. unfold do_call. now rewrite E. Qed.

(* a successful call whose effect is framed by T *)
Lemma do_call_step : forall (T : path -> Prop) (P : tev -> Prop) c w s',
  wfault w = None -> apply_call c (wfs w) = Ok s' -> Frame T (wfs w) s' -> P (TCall c) ->
  exists w', do_call c w = (Ok tt, w') /\ wfs w' = s' /\ Step T P w w'.
Proof.
  intros T P c w s' F E R Pc. eexists. split; [apply do_call_ok; eassumption|].
  split; [reflexivity|]. constructor; cbn [wfault wtrace wfs].
  - reflexivity.
  - exists [TCall c]. split; [reflexivity|]. constructor; [exact Pc|constructor].
  - exact R.
Qed.

(* whatever a single call does in a fault-free world *)
Lemma do_call_any : forall c w, wfault w = None ->
  (exists e, apply_call c (wfs w) = Err e /\ do_call c w = (Err e, w)) \/
  (exists s', apply_call c (wfs w) = Ok s' /\
              do_call c w = (Ok tt, mkWorld s' (TCall c :: wtrace w) (S (wcount w)) None)).
Proof.
  intros c w F. destruct (apply_call c (wfs w)) as [s'|e] eqn:E.
  - right. exists s'. split; [reflexivity|]. now apply do_call_ok.
  - left. exists e. split; [reflexivity|]. now apply do_call_err.
Qed.

(* ---- which paths a call names ---- *)
Definition call_on (T : path -> Prop) (c : call) : Prop :=
  match c with
  | CMkdir _ => False
  | CCreate p | CCreateExcl p | COpenAppend p | CAppend p _ | CSync p | CUnlink p => T p
  | CRename p q => T p /\ T q
  end.
Definition ev_on (T : path -> Prop) (e : tev) : Prop :=
  match e with TCall c => call_on T c | TFault _ => False end.

Lemma ev_on_weaken : forall (T T' : path -> Prop) e, (forall q, T q -> T' q) -> ev_on T e -> ev_on T' e.
Proof.
  intros T T' [c|c] I; cbn [ev_on]; [|tauto]. destruct c; cbn [call_on]; auto.
  intros [X Y]; auto.
Qed.

(* ---- the calls on an existing / creatable file ---- *)
Section Calls.
  Variable T : path -> Prop.

  Lemma call_append : forall w p f b, wfault w = None -> T p -> fget (wfs w) p = Some f ->
    exists w', do_call (CAppend p b) w = (Ok tt, w') /\
               wfs w' = upd (wfs w) p (mkFile (fdata f ++ b) (fsynced f)) /\ Step T (ev_on T) w w'.
  Proof using.
    intros w p f b F Tp G. apply do_call_step; try assumption.
    - cbn [apply_call]. now rewrite G.
    - now apply frame_upd.
  Qed.

  Lemma call_sync : forall w p f, wfault w = None -> T p -> fget (wfs w) p = Some f ->
    exists w', do_call (CSync p) w = (Ok tt, w') /\
               wfs w' = upd (wfs w) p (mkFile (fdata f) (length (fdata f))) /\ Step T (ev_on T) w w'.
  Proof using.
    intros w p f F Tp G. apply do_call_step; try assumption.
    - cbn [apply_call]. now rewrite G.
    - now apply frame_upd.
  Qed.

  Lemma call_create : forall w p, wfault w = None -> T p -> parent_ok (wfs w) p = true ->
    exists w', do_call (CCreate p) w = (Ok tt, w') /\
               wfs w' = upd (wfs w) p (mkFile [] 0) /\ Step T (ev_on T) w w'.
  Proof using.
    intros w p F Tp G. apply do_call_step; try assumption.
    - cbn [apply_call]. now rewrite G.
    - now apply frame_upd.
  Qed.

  Lemma call_rename : forall w p q f, wfault w = None -> T p -> T q ->
    fget (wfs w) p = Some f -> parent_ok (wfs w) q = true ->
    exists w', do_call (CRename p q) w = (Ok tt, w') /\
               wfs w' = ren (wfs w) p q f /\ Step T (ev_on T) w w'.
  Proof using.
    intros w p q f F Tp Tq G PO. apply do_call_step; try assumption.
    - cbn [apply_call]. now rewrite G, PO.
    - now apply frame_ren.
    - split; assumption.
  Qed.

  Lemma call_open_append : forall w p, wfault w = None -> T p -> parent_ok (wfs w) p = true ->
    exists w', do_call (COpenAppend p) w = (Ok tt, w') /\
               fget (wfs w') p <> None /\ Step T (ev_on T) w w'.
  Proof using.
    intros w p F Tp PO. destruct (fget (wfs w) p) as [f|] eqn:G.
    - destruct (do_call_step T (ev_on T) (COpenAppend p) w (wfs w)) as (w' & E & S & St);
        try assumption.
      + cbn [apply_call]. now rewrite PO, G.
      + apply frame_refl.
      + exists w'. split; [exact E|]. split; [|exact St]. rewrite S, G. discriminate.
    - destruct (do_call_step T (ev_on T) (COpenAppend p) w (upd (wfs w) p (mkFile [] 0)))
        as (w' & E & S & St); try assumption.
      + cbn [apply_call]. now rewrite PO, G.
      + now apply frame_upd.
      + exists w'. split; [exact E|]. split; [|exact St]. rewrite S, fget_upd_same. discriminate.
  Qed.

  (* unlink: succeeds or fails with ENOENT, in both cases the path is gone afterwards *)
  Lemma call_unlink : forall w p, wfault w = None -> T p ->
    exists r w', do_call (CUnlink p) w = (r, w') /\ (r = Ok tt \/ r = Err ENOENT) /\
                 Step T (fun e => e = TCall (CUnlink p)) w w' /\
                 (FsWf (wfs w) -> fget (wfs w') p = None).
  Proof using.
    intros w p F Tp. destruct (fget (wfs w) p) as [f|] eqn:G.
    - destruct (do_call_step T (fun e => e = TCall (CUnlink p)) (CUnlink p) w (del (wfs w) p))
        as (w' & E & S & St); try assumption.
      + cbn [apply_call]. now rewrite G.
      + now apply frame_del.
      + reflexivity.
      + exists (Ok tt), w'. split; [exact E|]. split; [now left|]. split; [exact St|].
        intros W. rewrite S. now apply fget_del_same.
    - exists (Err ENOENT), w. split; [|split; [now right|split; [now apply step_refl|auto]]].
      apply do_call_err. cbn [apply_call]. now rewrite G.
  Qed.
End Calls.
