(* FaultHist.v -- C14 at the level of whole histories, for one process lifetime (one open
   handle): under ANY fault plan the data API never panics, and every output is the output of
   the ordered-map specification for a map obtained by treating each failed operation as done
   or as not done.

   This is PARTIAL with respect to property C14: nothing is said about what a later reopen
   (or a crash followed by a reopen) observes.  That clause is false for the model -- known
   finding F4, refuted by computation in FaultWitness.v: the record of an operation whose WAL
   append / fdatasync failed becomes durable later.  Theorems whose name ends in _partial
   carry this restriction. *)
From Cas Require Import History.
From CasProofs Require Import BaseProofs SMapProofs IndexProofs RangeProofs
  StoreFS StoreInv StoreWrite StoreRead StoreHist WorldRel FaultLogic Faults PreCreate.
From Coq Require Import ZifyBool ZifyNat ZifyN.
Open Scope N_scope.

Local Opaque all256.

Section FaultHist.
  Variable H : bytes -> bytes.
  Hypothesis H_len : forall b, length (H b) = 32%nat.
  Hypothesis H_byte : forall b, Forall (fun x => x < 256) (H b).
  Variable cfg : config.
  Hypothesis n_pos : 0 < c_n cfg.

  Local Notation cmp := (key_cmp (c_kt cfg)).
  Local Notation KX L :=
    (L cmp (key_cmp_refl _) (key_cmp_eq _) (key_cmp_antisym _) (key_cmp_trans _)) (only parsing).
  Local Notation km_of := (km_of H).
  Local Notation NoCollide := (NoCollide H).
  Local Notation LiveF := (LiveF H cfg).
  Local Notation spec_out := (spec_out H cfg).
  Local Notation api_op := (api_op cfg).

  (* ---------------------------------------------------------------- *)
  (* G1. the weakened refinement                                       *)
  (* ---------------------------------------------------------------- *)
  (* the operations that issue I/O and can therefore fail *)
  Definition mutating (o : op) : bool :=
    match o with
    | OpPut _ _ | OpAbort _ _ | OpRemove _ | OpRemoveRange _ _ | OpCheckpoint => true
    | _ => false
    end.

  (* outs is a possible output sequence of ops from the abstract map sg: each call either
     behaves exactly as specified, or (only a mutating call) reports an error other than a
     panic, and then the map is the old or the new one *)
  Fixpoint FaultRefines (sg : smap bytes) (ops : list op) (outs : list out) : Prop :=
    match ops, outs with
    | [], [] => True
    | o :: r, x :: xs =>
      (x = spec_out sg o /\ FaultRefines (spec_step cmp sg o) r xs) \/
      (mutating o = true /\ (exists e, x = OutErr e /\ e <> EPanic) /\
       (FaultRefines sg r xs \/ FaultRefines (spec_step cmp sg o) r xs))
    | _, _ => False
    end.

  (* the abstract maps reachable by treating every mutating call as done or not done *)
  Fixpoint possible_maps (sg : smap bytes) (ops : list op) : list (smap bytes) :=
    match ops with
    | [] => [sg]
    | o :: r => possible_maps (spec_step cmp sg o) r ++
                (if mutating o then possible_maps sg r else [])
    end.

  Lemma possible_done : forall sg o r x,
    In x (possible_maps (spec_step cmp sg o) r) -> In x (possible_maps sg (o :: r)).
  Proof. intros sg o r x I1. cbn [possible_maps]. apply in_or_app. now left. Qed.

  Lemma possible_undone : forall sg o r x, mutating o = true ->
    In x (possible_maps sg r) -> In x (possible_maps sg (o :: r)).
  Proof. intros sg o r x M I1. cbn [possible_maps]. rewrite M. apply in_or_app. now right. Qed.

  (* ---------------------------------------------------------------- *)
  (* G2. one call                                                      *)
  (* ---------------------------------------------------------------- *)
  Lemma step_fault : forall m sg os o w,
    LiveF m (wfs w) sg -> api_op o -> NoCollide (op_contents o ++ map snd sg) ->
    let '((x, hd'), w') := step H (Some (mkHandle cfg m os)) o w in
    exists m', hd' = Some (mkHandle cfg m' os) /\
      ((x = spec_out sg o /\ LiveF m' (wfs w') (spec_step cmp sg o)) \/
       (mutating o = true /\ (exists e, x = OutErr e /\ e <> EPanic) /\
        (LiveF m' (wfs w') sg \/ LiveF m' (wfs w') (spec_step cmp sg o)))).
  Proof.
    intros m sg os o w L A NC.
    assert (RD : forall x : out, x = spec_out sg o -> spec_step cmp sg o = sg ->
              exists m', Some (mkHandle cfg m os) = Some (mkHandle cfg m' os) /\
                ((x = spec_out sg o /\ LiveF m' (wfs w) (spec_step cmp sg o)) \/
                 (mutating o = true /\ (exists e, x = OutErr e /\ e <> EPanic) /\
                  (LiveF m' (wfs w) sg \/ LiveF m' (wfs w) (spec_step cmp sg o))))).
    { intros x Ex Es. exists m. split; [reflexivity|]. left. split; [exact Ex|]. now rewrite Es. }
    destruct o; cbn [StoreHist.api_op] in A; try contradiction;
      cbn [step h_cfg h_mem h_ostats op_contents mutating] in *.
    - (* put *)
      unfold bind.
      pose proof (put_fault H H_len H_byte cfg n_pos m (wfs w) sg k chunks w L eq_refl NC) as O.
      destruct (put H cfg m k chunks w) as [[r m'] w']. cbn [ret fst snd].
      exists m'. split; [reflexivity|]. destruct O as (Np & D & S).
      destruct r as [[]|e]; cbn [lift StoreHist.spec_out spec_step].
      + left. split; [reflexivity|]. now apply S.
      + right. split; [reflexivity|]. split; [|exact D]. exists e. split; [reflexivity|congruence].
    - (* abort *)
      unfold bind.
      pose proof (abort_fault H cfg m (wfs w) sg k chunks w L eq_refl) as O.
      destruct (abort m k chunks w) as [[r m'] w']. cbn [ret fst snd].
      exists m'. split; [reflexivity|]. destruct O as (Np & _ & L').
      destruct r as [[]|e]; cbn [lift StoreHist.spec_out spec_step].
      + left. now split.
      + right. split; [reflexivity|]. split; [|now left]. exists e. split; [reflexivity|congruence].
    - (* remove *)
      unfold bind.
      pose proof (remove_fault H H_len H_byte cfg n_pos m (wfs w) sg k w L eq_refl) as O.
      destruct (remove H cfg m k w) as [[r m'] w']. cbn [ret fst snd].
      exists m'. split; [reflexivity|]. destruct O as (Np & D & S).
      destruct r as [b|e]; cbn [lift StoreHist.spec_out spec_step].
      + left. destruct (S b eq_refl) as [L' ->]. now split.
      + right. split; [reflexivity|]. split; [|exact D]. exists e. split; [reflexivity|congruence].
    - (* remove_range *)
      assert (NP : (nonempty sg && range_panics cmp lo hi) = false)
        by (rewrite A; apply andb_false_r).
      unfold bind.
      pose proof (remove_range_fault H H_len H_byte cfg n_pos m (wfs w) sg lo hi w L eq_refl NP) as O.
      cbv zeta in O.
      destruct (remove_range H cfg m lo hi w) as [[r m'] w']. cbn [ret fst snd].
      exists m'. split; [reflexivity|]. destruct O as (Np & D & S).
      cbn [StoreHist.spec_out spec_step]. rewrite NP.
      destruct r as [n|e]; cbn [lift].
      + left. destruct (S n eq_refl) as [L' ->]. now split.
      + right. split; [reflexivity|]. split; [|exact D]. exists e. split; [reflexivity|congruence].
    - (* checkpoint *)
      unfold bind.
      pose proof (checkpoint_fault H cfg m (wfs w) sg w L eq_refl) as O.
      destruct (checkpoint cfg m w) as [[r m'] w']. cbn [ret fst snd].
      exists m'. split; [reflexivity|]. destruct O as (Np & L').
      destruct r as [[]|e]; cbn [lift StoreHist.spec_out spec_step].
      + left. now split.
      + right. split; [reflexivity|]. split; [|now left]. exists e. split; [reflexivity|congruence].
    - (* get *)
      unfold bind, get_fs, ret. rewrite (get_spec_F H cfg m (wfs w) sg k L). now apply RD.
    - (* get_size *)
      unfold ret. rewrite (get_size_spec_F H cfg m (wfs w) sg k L). now apply RD.
    - (* get_range *)
      unfold bind, get_fs, ret. rewrite (get_range_spec_F H H_len H_byte cfg n_pos m (wfs w) sg k a b L).
      apply RD; [|reflexivity]. cbn [StoreHist.spec_out lift].
      destruct (sm_get cmp sg k) as [c|]; [|reflexivity].
      destruct ((b <? a) && (a <? len c)); reflexivity.
    - (* get via reader *)
      unfold bind, get_fs, ret. rewrite (get_spec_F H cfg m (wfs w) sg k L). now apply RD.
    - (* iter *)
      unfold ret. rewrite (lf_km _ _ _ _ _ L). now apply RD.
    - (* range *)
      unfold ret. rewrite (range_iter_spec_F H cfg m (wfs w) sg lo hi L A). now apply RD.
  Qed.

  (* ---------------------------------------------------------------- *)
  (* G3. whole histories on one open handle                            *)
  (* ---------------------------------------------------------------- *)
  Theorem run_fault : forall ops m sg os w,
    LiveF m (wfs w) sg -> Forall api_op ops ->
    NoCollide (hist_contents ops ++ map snd sg) ->
    let '((outs, hd'), w') := run_ops H (Some (mkHandle cfg m os)) ops w in
    FaultRefines sg ops outs /\
    exists m' sgf, hd' = Some (mkHandle cfg m' os) /\
                   In sgf (possible_maps sg ops) /\ LiveF m' (wfs w') sgf.
  Proof.
    induction ops as [|o ops IH]; intros m sg os w L A NC.
    - cbn [run_ops ret]. split; [exact I|]. exists m, sg. split; [reflexivity|].
      split; [now left|exact L].
    - inversion A as [|? ? Ao Aops]; subst.
      assert (NCo : NoCollide (op_contents o ++ map snd sg)).
      { eapply (NoCollide_incl H); [|exact NC]. intros x Ix. cbn [hist_contents flat_map].
        rewrite <- app_assoc. apply in_app_or in Ix. apply in_or_app.
        destruct Ix; [now left|right; apply in_or_app; now right]. }
      assert (NC1 : NoCollide (hist_contents ops ++ map snd sg)).
      { eapply (NoCollide_incl H); [|exact NC]. intros x Ix. cbn [hist_contents flat_map].
        rewrite <- app_assoc. apply in_or_app. right. exact Ix. }
      assert (NC2 : NoCollide (hist_contents ops ++ map snd (spec_step cmp sg o))).
      { eapply (NoCollide_incl H); [|exact NC]. intros x Ix. cbn [hist_contents flat_map].
        rewrite <- app_assoc. apply in_app_or in Ix. apply in_or_app.
        destruct Ix as [Ix|Ix]; [right; apply in_or_app; now left|].
        apply spec_step_contents in Ix. destruct Ix; [now left|right; apply in_or_app; now right]. }
      cbn [run_ops]. unfold bind at 1.
      pose proof (step_fault m sg os o w L Ao NCo) as S.
      destruct (step H (Some (mkHandle cfg m os)) o w) as [[x hd1] w1].
      destruct S as (m1 & -> & S). cbn [snd fst]. unfold bind at 1.
      destruct S as [[Ex L1]|(Mu & Ee & [L1|L1])].
      + pose proof (IH m1 _ os w1 L1 Aops NC2) as R.
        destruct (run_ops H (Some (mkHandle cfg m1 os)) ops w1) as [[outs hd2] w2].
        cbn [ret fst snd]. destruct R as (FR & m2 & sgf & -> & Ip & L2). split.
        * cbn [FaultRefines]. left. now split.
        * exists m2, sgf. split; [reflexivity|]. split; [now apply possible_done|exact L2].
      + pose proof (IH m1 _ os w1 L1 Aops NC1) as R.
        destruct (run_ops H (Some (mkHandle cfg m1 os)) ops w1) as [[outs hd2] w2].
        cbn [ret fst snd]. destruct R as (FR & m2 & sgf & -> & Ip & L2). split.
        * cbn [FaultRefines]. right. split; [exact Mu|]. split; [exact Ee|now left].
        * exists m2, sgf. split; [reflexivity|]. split; [now apply possible_undone|exact L2].
      + pose proof (IH m1 _ os w1 L1 Aops NC2) as R.
        destruct (run_ops H (Some (mkHandle cfg m1 os)) ops w1) as [[outs hd2] w2].
        cbn [ret fst snd]. destruct R as (FR & m2 & sgf & -> & Ip & L2). split.
        * cbn [FaultRefines]. right. split; [exact Mu|]. split; [exact Ee|now right].
        * exists m2, sgf. split; [reflexivity|]. split; [now apply possible_done|exact L2].
  Qed.

  (* ---------------------------------------------------------------- *)
  (* G4. what FaultRefines gives                                       *)
  (* ---------------------------------------------------------------- *)
  Lemma spec_out_no_panic : forall sg o, spec_out sg o <> OutErr EPanic.
  Proof.
    intros sg o. destruct o; cbn [StoreHist.spec_out]; try discriminate.
    destruct (sm_get cmp sg k) as [c|]; [|discriminate].
    destruct ((b <? a) && (a <? len c)); discriminate.
  Qed.

  Lemma FaultRefines_length : forall ops sg outs, FaultRefines sg ops outs -> length outs = length ops.
  Proof.
    induction ops as [|o ops IH]; intros sg [|x outs] FR; cbn [FaultRefines] in FR;
      try contradiction; [reflexivity|].
    cbn [length]. f_equal. destruct FR as [[_ FR]|(_ & _ & [FR|FR])]; eapply IH; exact FR.
  Qed.

  (* no call panics *)
  Lemma FaultRefines_no_panic : forall ops sg outs,
    FaultRefines sg ops outs -> ~ In (OutErr EPanic) outs.
  Proof.
    induction ops as [|o ops IH]; intros sg [|x outs] FR; cbn [FaultRefines] in FR;
      try contradiction; [intros []|].
    intros [Ix|Ix].
    - destruct FR as [[Ex _]|(_ & (e & Ex & Ne) & _)]; subst x.
      + now apply (spec_out_no_panic sg o).
      + inversion Ix. contradiction.
    - destruct FR as [[_ FR]|(_ & _ & [FR|FR])]; exact (IH _ _ FR Ix).
  Qed.

  (* every output is that of the specification on a possible map, or (mutating calls only) a
     reported error; in particular every read returns what SOME possible map holds *)
  Lemma FaultRefines_outputs : forall ops sg outs, FaultRefines sg ops outs ->
    forall i o x, nth_error ops i = Some o -> nth_error outs i = Some x ->
    (exists sgi, In sgi (possible_maps sg (firstn i ops)) /\ x = spec_out sgi o) \/
    (mutating o = true /\ exists e, x = OutErr e /\ e <> EPanic).
  Proof.
    induction ops as [|o0 ops IH]; intros sg [|x0 outs] FR; cbn [FaultRefines] in FR;
      try contradiction; intros i o x Eo Ex.
    - destruct i; discriminate.
    - destruct i as [|i]; cbn [nth_error firstn] in *.
      + inversion Eo; inversion Ex; subst.
        destruct FR as [[E _]|(Mu & Ee & _)].
        * left. exists sg. split; [now left|exact E].
        * right. now split.
      + destruct FR as [[_ FR]|(Mu & _ & [FR|FR])];
          (destruct (IH _ _ FR i o x Eo Ex) as [(sgi & Ii & Es)|R]; [left|now right]);
          exists sgi; (split; [|exact Es]).
        * now apply possible_done.
        * now apply possible_undone.
        * now apply possible_done.
  Qed.

  Corollary FaultRefines_reads : forall ops sg outs, FaultRefines sg ops outs ->
    forall i o x, nth_error ops i = Some o -> nth_error outs i = Some x -> mutating o = false ->
    exists sgi, In sgi (possible_maps sg (firstn i ops)) /\ x = spec_out sgi o.
  Proof.
    intros ops sg outs FR i o x Eo Ex M.
    destruct (FaultRefines_outputs ops sg outs FR i o x Eo Ex) as [R|[M' _]]; [exact R|congruence].
  Qed.

  (* a possible map differs from the fault-free one only on the keys of mutating calls: a key
     that no put / remove names and that no remove_range covers keeps its content *)
  Definition op_touches (o : op) (k : bytes) : Prop :=
    match o with
    | OpPut k' _ | OpRemove k' => k' = k
    | OpRemoveRange lo hi => in_range cmp lo hi k = true
    | _ => False
    end.

  Lemma spec_step_untouched : forall sg o k, sorted cmp sg -> ~ op_touches o k ->
    sm_get cmp (spec_step cmp sg o) k = sm_get cmp sg k.
  Proof.
    intros sg o k S N. destruct o; cbn [spec_step op_touches] in *; try reflexivity.
    - apply (KX get_ins_other); [|exact S]. intros E. apply N. now symmetry.
    - apply (KX get_del_other); [|exact S]. intros E. apply N. now symmetry.
    - destruct (nonempty sg && range_panics cmp lo hi); [reflexivity|].
      rewrite (KX get_filter _ _ _ S). cbn [fst].
      destruct (in_range cmp lo hi k); [contradiction N; reflexivity|].
      destruct (sm_get cmp sg k); reflexivity.
  Qed.

  Lemma spec_step_sorted : forall sg o, sorted cmp sg -> sorted cmp (spec_step cmp sg o).
  Proof.
    intros sg o S. destruct o; cbn [spec_step]; try exact S.
    - now apply (KX sorted_ins).
    - now apply (KX sorted_del).
    - destruct (nonempty sg && range_panics cmp lo hi); [exact S|]. now apply (KX sorted_filter).
  Qed.

  Theorem possible_maps_untouched : forall ops sg sgf k, sorted cmp sg ->
    In sgf (possible_maps sg ops) -> (forall o, In o ops -> ~ op_touches o k) ->
    sm_get cmp sgf k = sm_get cmp sg k.
  Proof.
    induction ops as [|o ops IH]; intros sg sgf k S Ip N; cbn [possible_maps] in Ip.
    - destruct Ip as [<-|[]]. reflexivity.
    - assert (No : ~ op_touches o k) by (apply N; now left).
      assert (Nr : forall o', In o' ops -> ~ op_touches o' k) by (intros o' I'; apply N; now right).
      apply in_app_or in Ip. destruct Ip as [Ip|Ip].
      + rewrite (IH _ _ k (spec_step_sorted sg o S) Ip Nr). now apply spec_step_untouched.
      + destruct (mutating o); [|contradiction]. exact (IH _ _ k S Ip Nr).
  Qed.

  (* ---------------------------------------------------------------- *)
  (* G5. the theorem                                                   *)
  (* ---------------------------------------------------------------- *)
  (* from an open handle in a consistent state, in ANY world (any fault plan, any position of
     the fault, in fact any number of failing calls): no output is a panic, every output is the
     specified one for a possible map or a reported error, reads are always answered from a
     possible map, and the handle ends in a consistent state for a possible map.
     PARTIAL: one process lifetime only; the reopen clause of C14 is false (F4). *)
  Theorem C14_fault_contained_handle_partial : forall ops m sg os w,
    LiveF m (wfs w) sg -> Forall api_op ops ->
    NoCollide (hist_contents ops ++ map snd sg) ->
    let '((outs, hd'), w') := run_ops H (Some (mkHandle cfg m os)) ops w in
    ~ In (OutErr EPanic) outs /\
    length outs = length ops /\
    (forall i o x, nth_error ops i = Some o -> nth_error outs i = Some x ->
       (exists sgi, In sgi (possible_maps sg (firstn i ops)) /\ x = spec_out sgi o) \/
       (mutating o = true /\ exists e, x = OutErr e /\ e <> EPanic)) /\
    (forall i o x, nth_error ops i = Some o -> nth_error outs i = Some x -> mutating o = false ->
       exists sgi, In sgi (possible_maps sg (firstn i ops)) /\ x = spec_out sgi o) /\
    exists m' sgf, hd' = Some (mkHandle cfg m' os) /\
                   In sgf (possible_maps sg ops) /\ LiveF m' (wfs w') sgf.
  Proof.
    intros ops m sg os w L A NC. pose proof (run_fault ops m sg os w L A NC) as R.
    destruct (run_ops H (Some (mkHandle cfg m os)) ops w) as [[outs hd'] w'].
    destruct R as [FR E]. split; [exact (FaultRefines_no_panic _ _ _ FR)|].
    split; [exact (FaultRefines_length _ _ _ FR)|].
    split; [exact (FaultRefines_outputs _ _ _ FR)|].
    split; [exact (FaultRefines_reads _ _ _ FR)|exact E].
  Qed.

  (* the fault plan installed in a world *)
  Definition with_fault (w : world) (fault : option nat) : world :=
    mkWorld (wfs w) (wtrace w) (wcount w) fault.

  (* from a fresh directory: open, then any history of API calls under any fault plan whose
     fault falls after the open (n counts from the beginning of the process; faults during the
     open make the open itself fail, there is no handle then) *)
  Theorem C14_fault_contained_memory_partial :
    exists m os w0,
      open_with_recover H cfg (init_world empty_fs None) = (Ok (m, os), w0) /\
      forall fault ops, Forall api_op ops -> NoCollide (hist_contents ops) ->
        let '((outs, hd'), w') :=
          run_ops H (Some (mkHandle cfg m os)) ops (with_fault w0 fault) in
        ~ In (OutErr EPanic) outs /\
        length outs = length ops /\
        (forall i o x, nth_error ops i = Some o -> nth_error outs i = Some x ->
           (exists sgi, In sgi (possible_maps [] (firstn i ops)) /\ x = spec_out sgi o) \/
           (mutating o = true /\ exists e, x = OutErr e /\ e <> EPanic)) /\
        (forall i o x, nth_error ops i = Some o -> nth_error outs i = Some x ->
           mutating o = false ->
           exists sgi, In sgi (possible_maps [] (firstn i ops)) /\ x = spec_out sgi o) /\
        exists m' sgf, hd' = Some (mkHandle cfg m' os) /\
                       In sgf (possible_maps [] ops) /\ LiveF m' (wfs w') sgf.
  Proof.
    destruct (open_fresh_any H cfg n_pos) as (m & os & w0 & E & _ & _ & L0 & _).
    exists m, os, w0. split; [exact E|]. intros fault ops A NC.
    apply (C14_fault_contained_handle_partial ops m [] os (with_fault w0 fault)).
    - cbn [with_fault wfs]. apply Live0_LiveF. now apply (LiveP_Live0 H cfg).
    - exact A.
    - now rewrite app_nil_r.
  Qed.

  (* ---------------------------------------------------------------- *)
  (* G6. the fault plan installed from the very beginning              *)
  (* ---------------------------------------------------------------- *)
  (* first-time initialisation under ANY fault plan: the open either fails with a reported
     error (never a panic) or yields a consistent empty handle *)
  Lemma hoare_read_file : forall (P : fs -> Prop) p (Q : option bytes -> fs -> Prop),
    (forall s, P s -> Q (match fget s p with Some f => Some (fdata f) | None => None end) s) ->
    Hoare P (read_file p) Q.
  Proof. intros P p Q I w Pw. exact (I _ Pw). Qed.

  Lemma mkdir_p_hoare : forall (P : fs -> Prop) d, call_keeps P (CMkdir d) ->
    Hoare P (mkdir_p d)
          (fun r s => P s /\ match r with Ok _ => has_dir s d = true | Err _ => True end).
  Proof.
    intros P d K. unfold mkdir_p.
    eapply hoare_bind with (R := fun a s => a = s /\ P s); [apply hoare_get_fs; auto|].
    intros s0. destruct (has_dir s0 d) eqn:Hd.
    - apply hoare_ret. intros s [-> Ps]. now split.
    - eapply hoare_pre; [intros s [_ Ps]; exact Ps|]. apply hoare_call.
      + intros s s' Ps E. split; [exact (K _ _ Ps E)|]. cbn [apply_call] in E.
        destruct (has_dir s d); [discriminate|].
        assert (E' : s' = mkFs (files s) (dirs s ++ [d]) (nstage s)).
        { destruct (removelast d); [|destruct (has_dir s (b :: l))]; congruence. }
        subst s'. apply has_dir_iff. cbn [dirs]. apply in_or_app. right. now left.
      + intros s e Ps. now split.
  Qed.

  Definition DirsUp (s : fs) : Prop :=
    has_dir s [s_staging] = true /\ has_dir s [s_cas] = true.
  Definition NoMeta (s : fs) : Prop :=
    fget s PIndex = None /\ forall i, fget s (PWal i) = None.

  Lemma dirsup_keeps : forall c, call_keeps DirsUp c.
  Proof.
    intros c s s' [D1 D2] E. split; [exact (has_dir_keeps _ c _ _ D1 E)|exact (has_dir_keeps _ c _ _ D2 E)].
  Qed.

  Lemma nometa_keeps : forall c, call_avoids PIndex c = true ->
    (forall i, call_avoids (PWal i) c = true) -> call_keeps NoMeta c.
  Proof.
    intros c A1 A2 s s' [N1 N2] E. split; [exact (avoids_keeps _ None c A1 s s' N1 E)|].
    intros i. exact (avoids_keeps _ None c (A2 i) s s' (N2 i) E).
  Qed.

  (* the fan-out directories under any fault plan: whatever happens every mkdir keeps P; if the
     loop reports success, every directory of the list exists (an existing one is skipped) *)
  Lemma mkdir_cas2_hoare : forall (P : fs -> Prop) a b, (forall d, call_keeps P (CMkdir d)) ->
    Hoare P (mkdir_cas2 a b)
          (fun r s => P s /\ match r with
                             | Ok _ => has_dir s [s_cas; a] = true /\ has_dir s [s_cas; a; b] = true
                             | Err _ => True end).
  Proof.
    intros P a b K. unfold mkdir_cas2.
    eapply hoare_bind; [apply (mkdir_p_hoare P), K|].
    intros [u|e]; [|apply hoare_ret; intros s [Ps _]; now split].
    eapply hoare_post; [|apply (mkdir_p_hoare (fun s => P s /\ has_dir s [s_cas; a] = true))].
    - intros [u'|e] s [[Ps D1] D2]; split; auto.
    - apply keeps_and; [apply K|apply has_dir_keeps].
  Qed.

  Lemma mkdirs_pre_hoare : forall ds (P : fs -> Prop), (forall d, call_keeps P (CMkdir d)) ->
    Hoare P (mkdirs_pre ds)
          (fun r s => P s /\ match r with
                             | Ok _ => forall i j, In (i, j) ds ->
                                 has_dir s [s_cas; hex2 i] = true /\
                                 has_dir s [s_cas; hex2 i; hex2 j] = true
                             | Err _ => True end).
  Proof.
    induction ds as [|[i j] ds IH]; intros P K; cbn [mkdirs_pre].
    - apply hoare_ret. intros s Ps. split; [exact Ps|]. intros i j [].
    - eapply hoare_bind; [apply (mkdir_cas2_hoare P), K|].
      intros [u|e]; [|apply hoare_ret; intros s [Ps _]; now split].
      eapply hoare_post;
        [|apply (IH (fun s => P s /\ (has_dir s [s_cas; hex2 i] = true /\
                                      has_dir s [s_cas; hex2 i; hex2 j] = true)))].
      + intros [u'|e] s [[Ps D] X]; split; auto.
        intros i' j' [Y|Y]; [inversion Y; subst; exact D|now apply X].
      + intros d. apply keeps_and; [apply K|]. apply keeps_and; apply has_dir_keeps.
  Qed.

  Lemma pre_create_all_hoare : forall (P : fs -> Prop), (forall d, call_keeps P (CMkdir d)) ->
    Hoare P pre_create_all
          (fun r s => P s /\ match r with Ok _ => PreDirs s | Err _ => True end).
  Proof.
    intros P K. unfold pre_create_all. eapply hoare_post; [|apply (mkdirs_pre_hoare _ P K)].
    intros [u|e] s [Ps X]; split; auto. intros i j I J. apply X, in_pre_list. now split.
  Qed.

  Lemma keeps_impl : forall (F : Prop) (P : fs -> Prop) c,
    call_keeps P c -> call_keeps (fun s => F -> P s) c.
  Proof. intros F P c K s s' X E f. exact (K _ _ (X f) E). Qed.

  (* either choice of pre_create_cas_dirs: with c_pre cfg = true a fault may hit any of the
     mkdir calls of the fan-out tree; the open then fails with ECasDir before the settings
     file is written *)
  Theorem open_fresh_fault :
    Hoare (fun s => files s = []) (open_with_recover H cfg)
          (fun r s => match r with
                      | Ok (m, os) => LiveF m s []
                      | Err e => e <> EPanic
                      end).
  Proof.
    unfold open_with_recover.
    set (Emp := fun s : fs => forall q, fget s q = None \/ q = PLock).
    assert (E0 : forall s, files s = [] -> Emp s).
    { intros s Fs q. left. unfold fget. now rewrite Fs. }
    assert (KEmp : forall c, (c = CCreate PLock \/ exists d, c = CMkdir d) -> call_keeps Emp c).
    { intros c Hc s s' Es E q. destruct (path_eq_dec q PLock) as [->|Nq]; [now right|left].
      destruct (Es q) as [Gq|]; [|contradiction].
      refine (avoids_keeps q None c _ s s' Gq E).
      destruct Hc as [->|[d ->]]; cbn [call_avoids]; [|reflexivity].
      now rewrite path_eqb_neq. }
    (* 1. staging/ *)
    eapply hoare_bind.
    { eapply hoare_pre; [exact E0|]. apply (mkdir_p_hoare Emp). apply KEmp. right. now eexists. }
    intros [u1|e]; [|apply hoare_ret; intros; discriminate].
    (* 2. cas/ *)
    eapply hoare_bind.
    { apply (mkdir_p_hoare (fun s => Emp s /\ has_dir s [s_staging] = true) [s_cas]).
      apply keeps_and; [apply KEmp; right; now eexists|apply has_dir_keeps]. }
    intros [u2|e]; [|apply hoare_ret; intros; discriminate].
    (* 3. the lock file *)
    eapply hoare_bind with (R := fun _ s => Emp s /\ DirsUp s).
    { apply hoare_call.
      - intros s s' [[Es D1] D2] E. split; [exact (KEmp _ (or_introl eq_refl) _ _ Es E)|].
        exact (dirsup_keeps _ _ _ (conj D1 D2) E).
      - intros s e [[Es D1] D2]. split; [exact Es|now split]. }
    intros [u3|e]; [|apply hoare_ret; intros; discriminate].
    (* 4. no settings file yet *)
    eapply hoare_bind with (R := fun sf s => (NoMeta s /\ DirsUp s) /\ sf = None).
    { apply hoare_read_file. intros s [Es D].
      assert (GN : forall q, q <> PLock -> fget s q = None).
      { intros q Nq. destruct (Es q); [assumption|contradiction]. }
      rewrite (GN PSettings) by discriminate. split; [|reflexivity]. split; [|exact D].
      split; [apply GN; discriminate|intros i; apply GN; discriminate]. }
    intros sf. apply hoare_pure. intros ->.
    set (P5 := fun s => NoMeta s /\ DirsUp s).
    assert (K5 : forall c, call_avoids PIndex c = true -> (forall i, call_avoids (PWal i) c = true) ->
                           call_keeps P5 c).
    { intros c A1 A2. apply keeps_and; [now apply nometa_keeps|apply dirsup_keeps]. }
    set (PD := fun s => c_pre cfg = true -> PreDirs s).
    assert (KD : forall c, call_keeps PD c).
    { intros c. apply keeps_impl. apply PreDirs_keeps. }
    (* 5. the fan-out directories (if asked for), then the settings file is written *)
    eapply hoare_bind with
      (R := fun rs s => match rs with
                        | Ok pre => (P5 s /\ PD s) /\ pre = c_pre cfg
                        | Err e => e <> EPanic end).
    { eapply hoare_bind with
        (R := fun r s => P5 s /\ match r with Ok _ => PD s | Err _ => True end).
      { destruct (c_pre cfg) eqn:Pre.
        - eapply hoare_post; [|apply (pre_create_all_hoare P5)].
          + intros [u|e] s [Ps X]; split; auto. intros _. exact X.
          + intros d. apply K5; reflexivity.
        - apply hoare_ret. intros s Ps. split; [exact Ps|]. intros X. discriminate. }
      intros [u|e]; [|apply hoare_ret; intros; discriminate].
      eapply hoare_bind with (R := fun _ s => P5 s /\ PD s).
      { eapply hoare_pre;
          [|apply (hoare_of_pres (fun s => P5 s /\ PD s)), pres_atomic_write; intros;
            (apply keeps_and; [apply K5; reflexivity|apply KD])].
        intros s X. exact X. }
      intros [u'|e]; apply hoare_ret; [intros s Ps; split; [exact Ps|reflexivity]|intros; discriminate]. }
    intros [pre|e]; [|apply hoare_ret; intros s Ne; exact Ne].
    apply hoare_pure. intros ->.
    (* 6. Index::load on a directory without index file and segments *)
    eapply hoare_bind with
      (R := fun rm s => (DirsUp s /\ PD s) /\
              match rm with
              | Ok m => m = mkMem empty_istate (mkWal (0 + 1) None) (c_pre cfg)
              | Err e => e <> EPanic
              end).
    { unfold index_load.
      eapply hoare_bind with (R := fun a s => a = s /\ (P5 s /\ PD s)); [apply hoare_get_fs; auto|].
      intros s0. apply (hoare_pre_elim (P5 s0 /\ PD s0)); [intros s [-> Ps]; exact Ps|].
      intros [[[N1 N2] _] _]. rewrite N1. cbv zeta. cbn [lpv empty_istate].
      rewrite (wal_ids_nil _ N2). cbn [sort_ids fold_right replay_segments].
      change (0 + 1 - 1) with 0. rewrite N.div_0_l by lia. rewrite (N2 0).
      change (0 <? 0) with false. cbv iota.
      eapply hoare_pre; [intros s [_ [[_ D] X]]; exact (conj D X)|].
      assert (KDD : forall c, call_keeps (fun s => DirsUp s /\ PD s) c).
      { intros c. apply keeps_and; [apply dirsup_keeps|apply KD]. }
      eapply (inv_bind _ _ _ (fun _ => True)).
      - eapply (inv_bind _ _ _ (fun _ => True)); [apply inv_call, KDD|].
        intros [u|e] _; [apply inv_call, KDD|now apply inv_ret].
      - intros [u|e] _; apply inv_ret; [reflexivity|discriminate]. }
    intros [m|e]; [|apply hoare_ret; intros s [_ Ne]; exact Ne].
    apply hoare_pure. intros ->.
    (* 7. the handle *)
    eapply hoare_bind with (R := fun _ s => DirsUp s /\ PD s); [apply hoare_get_fs; auto|].
    intros s0. apply hoare_ret. intros s [[D1 D2] X]. constructor.
    - exact I.
    - reflexivity.
    - apply C12_empty.
    - intros a b [].
    - intros k c [].
    - split; [exact D1|]. split; [exact D2|]. cbn [mpre]. intros Pm h Lh Bh.
      apply (PreDirs_WfDirs s (X Pm)). now split.
    - cbn [mwal nextv]. lia.
  Qed.

  (* calls on a handle that was never opened *)
  Lemma run_closed : forall ops w, Forall api_op ops ->
    run_ops H None ops w = ((map (fun _ => OutClosed) ops, None), w).
  Proof.
    induction ops as [|o ops IH]; intros w A; [reflexivity|].
    inversion A as [|? ? Ao Aops]; subst. cbn [run_ops map]. unfold bind at 1.
    assert (E : step H None o w = ((OutClosed, None), w)).
    { destruct o; cbn [StoreHist.api_op] in Ao; try contradiction; reflexivity. }
    rewrite E. cbn [snd fst]. unfold bind. rewrite (IH w Aops). reflexivity.
  Qed.

  (* the whole process, from an empty directory, under any fault plan: either the open itself
     fails (reported, no panic; there is no handle) or the history is contained as above.
     PARTIAL: one process lifetime, no reopen (F4). *)
  Theorem C14_from_fresh_any_fault_partial : forall fault ops,
    Forall api_op ops -> NoCollide (hist_contents ops) ->
    let '((outs, hd'), w') := run_hist H empty_fs fault (OpOpen cfg false :: ops) in
    (exists e, e <> EPanic /\ outs = OutErr e :: map (fun _ => OutClosed) ops /\ hd' = None) \/
    (exists os outs1, outs = OutOpened os :: outs1 /\
       FaultRefines [] ops outs1 /\ ~ In (OutErr EPanic) outs1 /\
       exists m' sgf, hd' = Some (mkHandle cfg m' os) /\
                      In sgf (possible_maps [] ops) /\ LiveF m' (wfs w') sgf).
  Proof.
    intros fault ops A NC. unfold run_hist. cbn [run_ops step]. unfold bind at 1. unfold bind at 1.
    pose proof (open_fresh_fault (init_world empty_fs fault) eq_refl) as O.
    destruct (open_with_recover H cfg (init_world empty_fs fault)) as [[[m os]|e] w1];
      cbn [fst snd ret] in *.
    - unfold bind at 1.
      pose proof (run_fault ops m [] os w1 O A) as R. rewrite app_nil_r in R. specialize (R NC).
      destruct (run_ops H (Some (mkHandle cfg m os)) ops w1) as [[outs1 hd2] w2].
      cbn [fst snd ret]. destruct R as [FR E]. right. exists os, outs1. split; [reflexivity|].
      split; [exact FR|]. split; [exact (FaultRefines_no_panic _ _ _ FR)|exact E].
    - unfold bind at 1. rewrite (run_closed ops w1 A). cbn [fst snd ret]. left.
      exists e. split; [exact O|]. split; reflexivity.
  Qed.
End FaultHist.

(* K4 (no hang): every program of theories/Store.v and run_ops are total Gallina functions
   (structural recursion on the list of hashes / paths / operations, no fuel), so every
   operation terminates under every fault plan by construction; there is nothing to prove. *)

Print Assumptions run_fault.
Print Assumptions C14_fault_contained_handle_partial.
Print Assumptions C14_fault_contained_memory_partial.
Print Assumptions possible_maps_untouched.
Print Assumptions open_fresh_fault.
Print Assumptions C14_from_fresh_any_fault_partial.
