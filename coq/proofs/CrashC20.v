(* CrashC20.v -- C20 at every instant (G5): the memory-less invariant implies the
   well-formedness of the on-disk log and snapshot.  Every PWal i parses with parse_segment
   (complete records, valid checksums, at most a trailing sentinel); its versions lie in the
   window (i*N, (i+1)*N]; versions increase strictly through ascending segment ids; every
   version above the snapshot version and below the next version is present; the snapshot file
   is absent or decodes completely (dec_snapshot); snapshot + log decode, with the declarative
   reader of AtRest.v, to the abstract map.  Combined with put_crash ... close_crash
   (CrashOps.v) and open_crash (CrashOpen.v) this holds for every intermediate filesystem of
   every operation and of recovery. *)
From Cas Require Import History.
From CasProofs Require Import BaseProofs CodecBase CodecProofs SMapProofs IndexProofs
  StoreFS StoreInv StoreWrite StoreRead StoreHist DiskInv Recover AtRest CrashInv CrashOps CrashOpen.
From Coq Require Import ZifyBool ZifyNat ZifyN.
Open Scope N_scope.

Arguments N.add : simpl never.
Arguments N.sub : simpl never.
Arguments N.mul : simpl never.
Arguments N.div : simpl never.
Arguments N.modulo : simpl never.
Arguments N.eqb : simpl never.
Arguments N.ltb : simpl never.
Arguments N.leb : simpl never.
Arguments N.pow : simpl never.
Arguments N.max : simpl never.

Section CrashC20.
  Variable H : bytes -> bytes.
  Hypothesis H_len : forall b, length (H b) = 32%nat.
  Hypothesis H_byte : forall b, Forall (fun x => x < 256) (H b).
  Variable cfg : config.
  Hypothesis n_pos : 0 < c_n cfg.
  Let cmp := key_cmp (c_kt cfg).

  Local Notation DX L := (L H H_len H_byte cfg n_pos) (only parsing).
  Local Notation km_of := (km_of H).
  Local Notation seg_of := (seg_of cfg).
  Local Notation DiskW := (DiskW H cfg).
  Local Notation Rest := (Rest H cfg).
  Local Notation RestD := (RestD H cfg).

  (* the clauses of AtRest.C20_at_rest, with the snapshot version c and the next version nv
     read off the disk instead of the handle's memory *)
  Definition WellFormedDisk (s : fs) (sg : smap bytes) : Prop :=
    let n := c_n cfg in
    let ids := sort_ids (wal_ids s) in
    exists (rf : N -> list (N * bytes)) (c nv : N),
      (forall i f, fget s (PWal i) = Some f ->
         parse_segment H (fdata f) = Ok (rf i) /\
         Forall (fun r => i * n < fst r /\ fst r <= (i + 1) * n) (rf i)) /\
      asc ids /\ asc (map fst (flat_map rf ids)) /\
      (forall v, c < v -> v < nv -> exists p, In (v, p) (flat_map rf ids)) /\
      (forall r, In r (flat_map rf ids) -> fst r < nv) /\
      match fget s PIndex with
      | None => c = 0
      | Some f => 0 < c /\ exists es, dec_snapshot (fdata f) = Ok (c, es)
      end /\
      spec_decode H cfg s = Some (km_of sg).

  Theorem C20_rest : forall s sg, Rest s sg -> WellFormedDisk s sg.
  Proof.
    intros s sg (Ss & Nc & [(c & nv & pre & [(Wf & _) (ids0 & rf & sf & km_c & ops & Dw)])|RF]).
    - unfold WellFormedDisk. cbv zeta.
      pose proof (disk_ids _ _ _ _ _ _ _ _ _ _ _ _ _ Wf Dw) as Eids.
      destruct Dw as [d_sg d_set d_snap d_kmc d_asc d_in d_out d_seg d_filter d_nv d_nvfit
                        d_opsfit d_opsok d_fold].
      rewrite Eids.
      assert (Parse : forall i, In i ids0 -> exists f, fget s (PWal i) = Some f /\
                                                       parse_segment H (fdata f) = Ok (rf i)).
      { intros i Ii. pose proof (d_in i Ii) as G. apply fdat_some in G.
        destruct G as (f & G & Df). exists f. split; [exact G|]. rewrite Df.
        apply (parse_seg H H_len). destruct (d_seg i Ii) as (S1 & _). exact S1. }
      assert (Lt : forall r, In r (flat_map rf ids0) -> fst r < nv)
        by (eapply (all_lt_nv cfg n_pos); eassumption).
      destruct d_kmc as (Sk & Hs & Fa & Ln).
      exists rf, c, nv.
      split; [|split; [exact d_asc|split; [|split; [|split; [exact Lt|split]]]]].
      + intros i f G.
        assert (Ii : In i ids0).
        { destruct (in_dec N.eq_dec i ids0) as [Ii|Ni]; [exact Ii|].
          apply d_out, fdat_none in Ni. congruence. }
        destruct (Parse i Ii) as (f' & G' & P). rewrite G in G'. inversion G'; subst f'.
        split; [exact P|]. destruct (d_seg i Ii) as (S1 & S2 & _).
        rewrite Forall_forall in *. intros r Ir. apply (seg_window cfg n_pos); [|now apply S2].
        destruct (S1 r Ir) as [[P0 _] _]. exact P0.
      + apply (DX asc_flat); [exact d_asc|]. intros i Ii.
        destruct (d_seg i Ii) as (_ & S2 & S3 & _). now split.
      + intros v L1 L2. destruct (enc_from_in cfg n_pos ops (c + 1) v) as (p & Ip); [lia|lia|].
        exists p. rewrite <- d_filter in Ip. apply filter_In in Ip. tauto.
      + unfold snap_ok, fdat in d_snap.
        destruct (fget s PIndex) as [f|]; cbn [option_map] in d_snap.
        * destruct d_snap as [Pos Ed]. split; [exact Pos|]. exists km_c. rewrite Ed.
          apply dec_enc_snapshot_nil; [lia|exact Ln|].
          eapply Forall_impl; [|exact Fa]. intros e [X _]. exact X.
        * tauto.
      + assert (Snap : exists st0, decode_snapshot cfg s = Some (c, st0) /\ IdxInv cmp st0 /\
                                   km st0 = km_c).
        { unfold decode_snapshot. unfold snap_ok, fdat in d_snap.
          destruct (fget s PIndex) as [f|]; cbn [option_map] in d_snap.
          - destruct d_snap as [Pos Ed]. rewrite Ed.
            rewrite dec_enc_snapshot_nil; [|lia|exact Ln|].
            2:{ eapply Forall_impl; [|exact Fa]. intros e [X _]. exact X. }
            destruct (C12_load_sorted cmp (key_cmp_refl _) (key_cmp_eq _) (key_cmp_antisym _)
                        (key_cmp_trans _) (c_kt cfg) c km_c Sk) as (st & El & Ks & Ls & _).
            { intros e Ie. rewrite Forall_forall in Fa. now apply Fa. }
            fold cmp. rewrite El. eexists. split; [reflexivity|]. split; [|exact Ks].
            eapply (C12_load_recompute cmp (key_cmp_refl _) (key_cmp_eq _) (key_cmp_antisym _)
                      (key_cmp_trans _)); [exact El|]. now rewrite Ks.
          - destruct d_snap as [-> ->]. exists empty_istate. split; [reflexivity|].
            split; [apply C12_empty|reflexivity]. }
        destruct Snap as (st0 & Es & Iv0 & K0).
        unfold spec_decode. rewrite Es, Eids.
        rewrite (apply_segs_flat H cfg c s rf ids0 st0 Parse).
        destruct (DX replay_records_ok c (flat_map rf ids0) (c + 1) ops st0 c 0
                    d_filter d_opsfit Iv0) as (st & E & _ & K & _).
        { now rewrite K0. }
        rewrite (DX apply_recs_of_replay _ _ _ _ _ _ _ _ E). cbn [option_map].
        now rewrite K, K0, d_fold.
    - (* first-time initialisation pending: no snapshot, no segment, empty map *)
      destruct RF as (-> & _ & Wf & _ & _ & Gi & Gw).
      unfold WellFormedDisk. cbv zeta.
      assert (Ew : wal_ids s = []).
      { apply wal_ids_nil. intros i. apply fdat_none, Gw. }
      rewrite Ew. cbn [sort_ids fold_right flat_map map].
      exists (fun _ => []), 0, 1.
      split; [|split; [exact I|split; [exact I|split; [|split; [intros r []|split]]]]].
      + intros i f G. exfalso. specialize (Gw i). apply fdat_none in Gw. congruence.
      + intros v L1 L2. lia.
      + apply fdat_none in Gi. now rewrite Gi.
      + unfold spec_decode, decode_snapshot. apply fdat_none in Gi. rewrite Gi, Ew.
        reflexivity.
  Qed.

  (* at every instant of an operation: well-formed for the old or for the new map *)
  Corollary C20_along : forall sg sg' w w',
    Along (RestD sg sg') w w' ->
    Along (fun x => WellFormedDisk x sg \/ WellFormedDisk x sg') w w'.
  Proof.
    intros sg sg' w w'. apply along_weaken. intros x [R|R]; [left|right]; now apply C20_rest.
  Qed.

  Corollary C20_along1 : forall sg w w',
    Along (fun x => Rest x sg) w w' -> Along (fun x => WellFormedDisk x sg) w w'.
  Proof. intros sg w w'. apply along_weaken. intros x R. now apply C20_rest. Qed.
End CrashC20.

Print Assumptions C20_rest.
