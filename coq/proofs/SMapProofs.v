(* SMapProofs.v -- facts about the sorted association lists of theories/SMap.v.

   Everything in the section is proved for an arbitrary comparison [cmp] that is a strict
   total order in the [comparison] sense (the four hypotheses below).  All lemmas are
   generalised over the four hypotheses uniformly ([Proof using Ord]), so that after the
   section every lemma [L] is used as  [L cmp cmp_refl cmp_eq cmp_antisym cmp_trans ...].
   At the end the four facts are proved for [lex_cmp] and the lemmas are re-exported as
   [lex_...] instances (used for the reference-count map of Index.v). *)
From Cas Require Import Base SMap.
From Coq Require Import List NArith Lia Bool.
Import ListNotations.

Arguments N.add : simpl never.
Arguments N.sub : simpl never.
Arguments N.mul : simpl never.
Arguments N.eqb : simpl never.
Arguments N.ltb : simpl never.
Arguments N.leb : simpl never.

Lemma key_eq_dec (a b : bytes) : {a = b} + {a <> b}.
Proof. apply (list_eq_dec N.eq_dec). Qed.

Section SMapFacts.
  Variable cmp : bytes -> bytes -> comparison.
  Hypothesis cmp_refl : forall a, cmp a a = Eq.
  Hypothesis cmp_eq : forall a b, cmp a b = Eq -> a = b.
  Hypothesis cmp_antisym : forall a b, cmp b a = CompOpp (cmp a b).
  Hypothesis cmp_trans : forall a b c, cmp a b = Lt -> cmp b c = Lt -> cmp a c = Lt.
  Context {V : Type}.
  Collection Ord := cmp_refl cmp_eq cmp_antisym cmp_trans.

  Implicit Types (m r : smap V) (k : bytes) (v : V).

  (* ---- the order ---- *)
  Lemma cmp_gt_lt a b : cmp a b = Gt -> cmp b a = Lt.
  Proof using Ord. intros H. rewrite (cmp_antisym a b), H. reflexivity. Qed.

  Lemma cmp_lt_gt a b : cmp a b = Lt -> cmp b a = Gt.
  Proof using Ord. intros H. rewrite (cmp_antisym a b), H. reflexivity. Qed.

  Lemma cmp_lt_neq a b : cmp a b = Lt -> a <> b.
  Proof using Ord. intros H E. subst b. rewrite cmp_refl in H. discriminate. Qed.

  Lemma cmp_neq a b : a <> b -> cmp a b <> Eq.
  Proof using Ord. intros H E. apply H, cmp_eq, E. Qed.

  (* [lb k m]: k is strictly below every key of m *)
  Definition lb k m : Prop := forall k' v', In (k', v') m -> cmp k k' = Lt.

  Lemma lb_trans k k' m : cmp k k' = Lt -> lb k' m -> lb k m.
  Proof using Ord. intros H L a b I. eapply cmp_trans; [exact H|]. eapply L, I. Qed.

  Lemma lb_sub k m m' : (forall e, In e m' -> In e m) -> lb k m -> lb k m'.
  Proof using Ord. intros S L a b I. eapply L, S, I. Qed.

  Lemma sorted_inv k v r : sorted cmp ((k, v) :: r) -> lb k r /\ sorted cmp r.
  Proof using Ord.
    revert k v. induction r as [|[k1 v1] r IH]; intros k v [H1 H2].
    - split; [intros a b []|exact I].
    - split; [|exact H2].
      destruct (IH _ _ H2) as [L _].
      intros a b [E|I].
      + inversion E; subst. exact H1.
      + eapply cmp_trans; [exact H1|]. eapply L, I.
  Qed.

  Lemma sorted_intro k v r : lb k r -> sorted cmp r -> sorted cmp ((k, v) :: r).
  Proof using Ord.
    intros L S. destruct r as [|[k1 v1] r]; cbn; split; auto.
    apply (L k1 v1). left; reflexivity.
  Qed.

  Lemma sorted_tail k v r : sorted cmp ((k, v) :: r) -> sorted cmp r.
  Proof using Ord. intros H. apply (sorted_inv _ _ _ H). Qed.

  (* ---- membership ---- *)
  Lemma In_ins m k v e : In e (sm_ins cmp m k v) -> e = (k, v) \/ In e m.
  Proof using Ord.
    induction m as [|[k1 v1] r IH]; cbn [sm_ins]; intros H.
    - destruct H as [H|[]]; auto.
    - destruct (cmp k k1) eqn:E.
      + destruct H as [H|H]; [left; auto|right; right; exact H].
      + destruct H as [H|H]; [left; auto|right; exact H].
      + destruct H as [H|H]; [right; left; exact H|].
        destruct (IH H); [left|right; right]; assumption.
  Qed.

  Lemma In_del m k e : In e (sm_del cmp m k) -> In e m.
  Proof using Ord.
    induction m as [|[k1 v1] r IH]; cbn [sm_del]; intros H; [exact H|].
    destruct (cmp k k1) eqn:E.
    - right; exact H.
    - exact H.
    - destruct H as [H|H]; [left; exact H|right; apply IH, H].
  Qed.

  (* ---- sortedness is preserved ---- *)
  Lemma sorted_ins m k v : sorted cmp m -> sorted cmp (sm_ins cmp m k v).
  Proof using Ord.
    induction m as [|[k1 v1] r IH]; intros S; cbn [sm_ins].
    - cbn; auto.
    - destruct (sorted_inv _ _ _ S) as [L Sr].
      destruct (cmp k k1) eqn:E.
      + apply cmp_eq in E; subst k1. apply sorted_intro; assumption.
      + apply sorted_intro; [|exact S].
        intros a b [I|I]; [inversion I; subst; exact E|].
        eapply cmp_trans; [exact E|]. eapply L, I.
      + apply sorted_intro; [|apply IH, Sr].
        intros a b I. apply In_ins in I. destruct I as [I|I].
        * inversion I; subst. apply cmp_gt_lt, E.
        * eapply L, I.
  Qed.

  Lemma sorted_del m k : sorted cmp m -> sorted cmp (sm_del cmp m k).
  Proof using Ord.
    induction m as [|[k1 v1] r IH]; intros S; cbn [sm_del]; [exact S|].
    destruct (sorted_inv _ _ _ S) as [L Sr].
    destruct (cmp k k1) eqn:E; [exact Sr|exact S|].
    apply sorted_intro; [|apply IH, Sr].
    eapply lb_sub; [|exact L]. intros e. apply In_del.
  Qed.

  (* ---- lookups ---- *)
  Lemma get_lb m k : lb k m -> sm_get cmp m k = None.
  Proof using Ord.
    destruct m as [|[k1 v1] r]; intros L; cbn [sm_get]; [reflexivity|].
    rewrite (L k1 v1); [reflexivity|left; reflexivity].
  Qed.

  Lemma get_ins_same m k v : sm_get cmp (sm_ins cmp m k v) k = Some v.
  Proof using Ord.
    induction m as [|[k1 v1] r IH]; cbn [sm_ins].
    - cbn [sm_get]. rewrite cmp_refl. reflexivity.
    - destruct (cmp k k1) eqn:E; cbn [sm_get].
      + rewrite cmp_refl; reflexivity.
      + rewrite cmp_refl; reflexivity.
      + rewrite E. exact IH.
  Qed.

  Lemma get_ins_other m k v k' :
    k' <> k -> sorted cmp m -> sm_get cmp (sm_ins cmp m k v) k' = sm_get cmp m k'.
  Proof using Ord.
    intros N. induction m as [|[k1 v1] r IH]; intros S; cbn [sm_ins].
    - cbn [sm_get]. destruct (cmp k' k) eqn:E; try reflexivity.
      apply cmp_eq in E; contradiction.
    - destruct (cmp k k1) eqn:E.
      + apply cmp_eq in E; subst k1. cbn [sm_get].
        destruct (cmp k' k) eqn:E'; try reflexivity. apply cmp_eq in E'; contradiction.
      + cbn [sm_get]. destruct (cmp k' k) eqn:E'.
        * apply cmp_eq in E'; contradiction.
        * rewrite (cmp_trans _ _ _ E' E). reflexivity.
        * reflexivity.
      + cbn [sm_get]. destruct (cmp k' k1); try reflexivity.
        apply IH. eapply sorted_tail, S.
  Qed.

  Lemma get_del_same m k : sorted cmp m -> sm_get cmp (sm_del cmp m k) k = None.
  Proof using Ord.
    induction m as [|[k1 v1] r IH]; intros S; cbn [sm_del]; [reflexivity|].
    destruct (sorted_inv _ _ _ S) as [L Sr].
    destruct (cmp k k1) eqn:E.
    - apply cmp_eq in E; subst k1. apply get_lb, L.
    - cbn [sm_get]. rewrite E. reflexivity.
    - cbn [sm_get]. rewrite E. apply IH, Sr.
  Qed.

  Lemma get_del_other m k k' :
    k' <> k -> sorted cmp m -> sm_get cmp (sm_del cmp m k) k' = sm_get cmp m k'.
  Proof using Ord.
    intros N. induction m as [|[k1 v1] r IH]; intros S; cbn [sm_del]; [reflexivity|].
    destruct (sorted_inv _ _ _ S) as [L Sr].
    destruct (cmp k k1) eqn:E.
    - apply cmp_eq in E; subst k1. cbn [sm_get].
      destruct (cmp k' k) eqn:E'.
      + apply cmp_eq in E'; contradiction.
      + apply get_lb. eapply lb_trans; eassumption.
      + reflexivity.
    - reflexivity.
    - cbn [sm_get]. destruct (cmp k' k1); try reflexivity. apply IH, Sr.
  Qed.

  Lemma get_in m k v : sorted cmp m -> (sm_get cmp m k = Some v <-> In (k, v) m).
  Proof using Ord.
    induction m as [|[k1 v1] r IH]; intros S; cbn [sm_get].
    - split; [discriminate|intros []].
    - destruct (sorted_inv _ _ _ S) as [L Sr]. specialize (IH Sr).
      split.
      + destruct (cmp k k1) eqn:E; intros H.
        * apply cmp_eq in E. inversion H; subst. left; reflexivity.
        * discriminate.
        * right. apply IH, H.
      + intros [H|H].
        * inversion H; subst. rewrite cmp_refl. reflexivity.
        * rewrite (cmp_lt_gt _ _ (L _ _ H)). apply IH, H.
  Qed.

  Lemma get_none_notin m k : sorted cmp m -> (sm_get cmp m k = None <-> ~ In k (sm_keys m)).
  Proof using Ord.
    intros S. split.
    - intros H I. apply in_map_iff in I. destruct I as [[k' v] [E I]]. cbn in E; subst k'.
      apply (get_in _ _ _ S) in I. congruence.
    - intros H. destruct (sm_get cmp m k) as [v|] eqn:E; [|reflexivity].
      exfalso. apply H. apply (get_in _ _ _ S) in E.
      apply in_map_iff. exists (k, v). split; [reflexivity|exact E].
  Qed.

  (* the same key is never bound twice *)
  Lemma sorted_functional m k v v' : sorted cmp m -> In (k, v) m -> In (k, v') m -> v = v'.
  Proof using Ord.
    intros S I I'. apply (get_in _ _ _ S) in I. apply (get_in _ _ _ S) in I'. congruence.
  Qed.

  Lemma keys_nodup m : sorted cmp m -> NoDup (sm_keys m).
  Proof using Ord.
    induction m as [|[k1 v1] r IH]; intros S; cbn; [constructor|].
    destruct (sorted_inv _ _ _ S) as [L Sr].
    constructor; [|apply IH, Sr].
    intros I. apply in_map_iff in I. destruct I as [[k' v] [E I]]. cbn in E; subst k'.
    apply L in I. rewrite cmp_refl in I. discriminate.
  Qed.

  Lemma sorted_nodup m : sorted cmp m -> NoDup m.
  Proof using Ord.
    intros S. apply keys_nodup in S. unfold sm_keys in S.
    apply NoDup_map_inv in S. exact S.
  Qed.

  (* membership after insert / delete, for sorted maps *)
  Lemma In_ins_iff m k v k' v' : sorted cmp m ->
    (In (k', v') (sm_ins cmp m k v) <-> (k' = k /\ v' = v) \/ (k' <> k /\ In (k', v') m)).
  Proof using Ord.
    intros S. rewrite <- (get_in _ _ _ (sorted_ins _ k v S)).
    destruct (key_eq_dec k' k) as [E|E].
    - subst k'. rewrite get_ins_same. split.
      + intros H; inversion H; auto.
      + intros [[_ H]|[H _]]; [subst; reflexivity|contradiction].
    - rewrite (get_ins_other _ _ _ _ E S), (get_in _ _ _ S). split.
      + intros H; auto.
      + intros [[H _]|[_ H]]; [contradiction|exact H].
  Qed.

  Lemma In_del_iff m k k' v' : sorted cmp m ->
    (In (k', v') (sm_del cmp m k) <-> k' <> k /\ In (k', v') m).
  Proof using Ord.
    intros S. rewrite <- (get_in _ _ _ (sorted_del _ k S)).
    destruct (key_eq_dec k' k) as [E|E].
    - subst k'. rewrite (get_del_same _ _ S). split; [discriminate|intros [H _]; contradiction].
    - rewrite (get_del_other _ _ _ E S), (get_in _ _ _ S). split; [auto|intros [_ H]; exact H].
  Qed.

  (* ---- extensionality: a sorted map is determined by its lookups ---- *)
  Lemma sm_ext m1 m2 :
    sorted cmp m1 -> sorted cmp m2 -> (forall k, sm_get cmp m1 k = sm_get cmp m2 k) -> m1 = m2.
  Proof using Ord.
    revert m2. induction m1 as [|[k1 v1] r1 IH]; intros [|[k2 v2] r2] S1 S2 H.
    - reflexivity.
    - specialize (H k2). cbn [sm_get] in H. rewrite cmp_refl in H. discriminate.
    - specialize (H k1). cbn [sm_get] in H. rewrite cmp_refl in H. discriminate.
    - destruct (sorted_inv _ _ _ S1) as [L1 Sr1]. destruct (sorted_inv _ _ _ S2) as [L2 Sr2].
      assert (E : cmp k1 k2 = Eq).
      { destruct (cmp k1 k2) eqn:E; [reflexivity| |].
        - specialize (H k1). cbn [sm_get] in H. rewrite cmp_refl, E in H. discriminate.
        - specialize (H k2). cbn [sm_get] in H. rewrite cmp_refl, (cmp_gt_lt _ _ E) in H.
          discriminate. }
      apply cmp_eq in E. subst k2.
      assert (v1 = v2).
      { specialize (H k1). cbn [sm_get] in H. rewrite cmp_refl in H. congruence. }
      subst v2. f_equal. apply IH; try assumption.
      intros k. specialize (H k). cbn [sm_get] in H.
      destruct (cmp k k1) eqn:E.
      + apply cmp_eq in E; subst k. rewrite (get_lb _ _ L1), (get_lb _ _ L2). reflexivity.
      + rewrite (get_lb r1 k), (get_lb r2 k); [reflexivity| |];
          eapply lb_trans; eassumption.
      + exact H.
  Qed.

  (* two sorted maps with the same elements are equal *)
  Lemma sorted_same_elements m1 m2 :
    sorted cmp m1 -> sorted cmp m2 -> (forall e, In e m1 <-> In e m2) -> m1 = m2.
  Proof using Ord.
    intros S1 S2 H. apply sm_ext; try assumption.
    intros k. destruct (sm_get cmp m1 k) as [v|] eqn:E.
    - symmetry. apply (get_in _ _ _ S2), H, (get_in _ _ _ S1), E.
    - destruct (sm_get cmp m2 k) as [v|] eqn:E'; [|reflexivity].
      apply (get_in _ _ _ S2), H, (get_in _ _ _ S1) in E'. congruence.
  Qed.

  (* ---- filter ---- *)
  Lemma sorted_filter (f : bytes * V -> bool) m : sorted cmp m -> sorted cmp (filter f m).
  Proof using Ord.
    induction m as [|[k1 v1] r IH]; intros S; cbn [filter]; [exact S|].
    destruct (sorted_inv _ _ _ S) as [L Sr].
    destruct (f (k1, v1)); [|apply IH, Sr].
    apply sorted_intro; [|apply IH, Sr].
    eapply lb_sub; [|exact L]. intros e I. apply filter_In in I. apply I.
  Qed.

  Lemma get_filter (f : bytes * V -> bool) m k : sorted cmp m ->
    sm_get cmp (filter f m) k =
    match sm_get cmp m k with
    | Some v => if f (k, v) then Some v else None
    | None => None
    end.
  Proof using Ord.
    induction m as [|[k1 v1] r IH]; intros S; cbn [filter sm_get]; [reflexivity|].
    destruct (sorted_inv _ _ _ S) as [L Sr]. specialize (IH Sr).
    assert (Lf : lb k1 (filter f r)).
    { eapply lb_sub; [|exact L]. intros e I. apply filter_In in I. apply I. }
    destruct (f (k1, v1)) eqn:F.
    - cbn [sm_get]. destruct (cmp k k1) eqn:E.
      + apply cmp_eq in E; subst k1. rewrite F. reflexivity.
      + reflexivity.
      + exact IH.
    - destruct (cmp k k1) eqn:E.
      + apply cmp_eq in E; subst k1. rewrite F. apply get_lb, Lf.
      + apply get_lb. eapply lb_trans; eassumption.
      + exact IH.
  Qed.

  (* ---- counting: insert/delete follow the search path of [sm_get], so the effect on
     any additive measure of the entries needs no sortedness ---- *)
  Lemma del_absent m k : sm_get cmp m k = None -> sm_del cmp m k = m.
  Proof using Ord.
    induction m as [|[k1 v1] r IH]; cbn [sm_get sm_del]; [reflexivity|].
    destruct (cmp k k1); intros H; [discriminate|reflexivity|]. rewrite (IH H). reflexivity.
  Qed.

  Section Measure.
    Variable w : bytes * V -> N.
    Definition total (m : smap V) : N := fold_right (fun e a => w e + a) 0 m.

    Lemma total_cons e m : total (e :: m) = w e + total m.
    Proof using Ord. reflexivity. Qed.

    Lemma total_ins_none m k v :
      sm_get cmp m k = None -> total (sm_ins cmp m k v) = w (k, v) + total m.
    Proof using Ord.
      induction m as [|[k1 v1] r IH]; cbn [sm_get sm_ins]; [reflexivity|].
      destruct (cmp k k1); intros H; [discriminate|reflexivity|].
      rewrite !total_cons, (IH H). lia.
    Qed.

    Lemma total_ins_some m k v p :
      sm_get cmp m k = Some p -> total (sm_ins cmp m k v) + w (k, p) = w (k, v) + total m.
    Proof using Ord.
      induction m as [|[k1 v1] r IH]; cbn [sm_get sm_ins]; [discriminate|].
      destruct (cmp k k1) eqn:E; intros H; [|discriminate|].
      - apply cmp_eq in E; subst k1. inversion H; subst. rewrite !total_cons. lia.
      - rewrite !total_cons. specialize (IH H). lia.
    Qed.

    Lemma total_del_some m k p :
      sm_get cmp m k = Some p -> total (sm_del cmp m k) + w (k, p) = total m.
    Proof using Ord.
      induction m as [|[k1 v1] r IH]; cbn [sm_get sm_del]; [discriminate|].
      destruct (cmp k k1) eqn:E; intros H; [|discriminate|].
      - apply cmp_eq in E; subst k1. inversion H; subst. rewrite !total_cons. lia.
      - rewrite !total_cons. specialize (IH H). lia.
    Qed.
  End Measure.

  Lemma length_ins_none m k v :
    sm_get cmp m k = None -> length (sm_ins cmp m k v) = S (length m).
  Proof using Ord.
    induction m as [|[k1 v1] r IH]; cbn [sm_get sm_ins]; [reflexivity|].
    destruct (cmp k k1); intros H; [discriminate|reflexivity|].
    cbn [length]. rewrite (IH H). reflexivity.
  Qed.

  Lemma length_del_some m k p :
    sm_get cmp m k = Some p -> length m = S (length (sm_del cmp m k)).
  Proof using Ord.
    induction m as [|[k1 v1] r IH]; cbn [sm_get sm_del]; [discriminate|].
    destruct (cmp k k1); intros H; [reflexivity|discriminate|].
    cbn [length]. rewrite (IH H). reflexivity.
  Qed.

  (* ---- building a map by repeated insertion of distinct keys ---- *)
  Lemma fold_ins_sorted (l : list (bytes * V)) m :
    sorted cmp m -> sorted cmp (fold_left (fun m e => sm_ins cmp m (fst e) (snd e)) l m).
  Proof using Ord.
    revert m. induction l as [|[k v] l IH]; intros m S; cbn [fold_left]; [exact S|].
    apply IH, sorted_ins, S.
  Qed.

  Lemma fold_ins_In (l : list (bytes * V)) m k v :
    NoDup (map fst l) -> sorted cmp m ->
    (In (k, v) (fold_left (fun m e => sm_ins cmp m (fst e) (snd e)) l m) <->
     In (k, v) l \/ (In (k, v) m /\ ~ In k (map fst l))).
  Proof using Ord.
    revert m. induction l as [|[k1 v1] l IH]; intros m ND S; cbn [fold_left map fst snd].
    - split; [intros H; right; split; [exact H|intros []]|intros [[]|[H _]]; exact H].
    - inversion ND as [|? ? N1 ND']; subst.
      rewrite (IH _ ND' (sorted_ins _ k1 v1 S)), (In_ins_iff _ _ _ _ _ S).
      cbn [In]. split.
      + intros [H|[[[H1 H2]|[H1 H2]] H3]].
        * left; right; exact H.
        * subst. left; left; reflexivity.
        * right. split; [exact H2|]. intros [E|E]; [apply H1; symmetry; exact E|contradiction].
      + intros [[H|H]|[H1 H2]].
        * inversion H; subst. right. split; [left; auto|exact N1].
        * left; exact H.
        * right. split.
          -- right. split; [|exact H1]. intros E. apply H2. left. symmetry; exact E.
          -- intros E. apply H2. right; exact E.
  Qed.
End SMapFacts.

(* ------------------------------------------------------------------------------------ *)
(* beqb decides equality *)
Lemma beqb_true_iff a b : beqb a b = true <-> a = b.
Proof.
  revert b. induction a as [|x a IH]; intros [|y b]; cbn [beqb]; split; intros H;
    try reflexivity; try discriminate.
  - apply andb_true_iff in H. destruct H as [H1 H2]. apply N.eqb_eq in H1. apply IH in H2.
    subst; reflexivity.
  - inversion H; subst. rewrite N.eqb_refl. cbn. apply IH. reflexivity.
Qed.

Lemma beqb_refl a : beqb a a = true.
Proof. apply beqb_true_iff. reflexivity. Qed.

Lemma beqb_false_iff a b : beqb a b = false <-> a <> b.
Proof.
  split.
  - intros H E. apply beqb_true_iff in E. congruence.
  - intros H. destruct (beqb a b) eqn:E; [|reflexivity]. apply beqb_true_iff in E. contradiction.
Qed.

Lemma beqb_sym a b : beqb a b = beqb b a.
Proof.
  destruct (beqb a b) eqn:E.
  - apply beqb_true_iff in E. subst. symmetry. apply beqb_refl.
  - symmetry. apply beqb_false_iff. apply beqb_false_iff in E. congruence.
Qed.

(* ------------------------------------------------------------------------------------ *)
(* lex_cmp is an order in the above sense *)
Lemma lex_refl a : lex_cmp a a = Eq.
Proof. induction a as [|x a IH]; cbn [lex_cmp]; [reflexivity|]. rewrite N.compare_refl. exact IH. Qed.

Lemma lex_eq a b : lex_cmp a b = Eq -> a = b.
Proof.
  revert b. induction a as [|x a IH]; intros [|y b]; cbn [lex_cmp]; intros H;
    try reflexivity; try discriminate.
  destruct (N.compare x y) eqn:E; try discriminate.
  apply N.compare_eq in E. subst. f_equal. apply IH, H.
Qed.

Lemma lex_antisym a b : lex_cmp b a = CompOpp (lex_cmp a b).
Proof.
  revert b. induction a as [|x a IH]; intros [|y b]; cbn [lex_cmp]; try reflexivity.
  rewrite (N.compare_antisym x y). destruct (N.compare x y); cbn [CompOpp]; auto.
Qed.

Lemma lex_trans a b c : lex_cmp a b = Lt -> lex_cmp b c = Lt -> lex_cmp a c = Lt.
Proof.
  revert b c. induction a as [|x a IH]; intros [|y b] [|z c]; cbn [lex_cmp]; intros H1 H2;
    try reflexivity; try discriminate.
  destruct (N.compare x y) eqn:E1; try discriminate;
    destruct (N.compare y z) eqn:E2; try discriminate.
  - apply N.compare_eq in E1, E2. subst. rewrite N.compare_refl. eapply IH; eassumption.
  - apply N.compare_eq in E1. subst. rewrite E2. reflexivity.
  - apply N.compare_eq in E2. subst. rewrite E1. reflexivity.
  - rewrite N.compare_lt_iff in E1, E2. assert (E : x < z) by lia.
    rewrite <- N.compare_lt_iff in E. rewrite E. reflexivity.
Qed.

(* ---- the instance for lex_cmp (the rc map of Index.v) ---- *)
Section LexInstance.
  Context {V : Type}.
  Implicit Types (m : smap V) (k : bytes) (v : V).
  Local Notation I L := (L lex_cmp lex_refl lex_eq lex_antisym lex_trans V) (only parsing).

  Lemma lex_sorted_ins m k v : sorted lex_cmp m -> sorted lex_cmp (sm_ins lex_cmp m k v).
  Proof. apply (I (@sorted_ins)). Qed.
  Lemma lex_sorted_del m k : sorted lex_cmp m -> sorted lex_cmp (sm_del lex_cmp m k).
  Proof. apply (I (@sorted_del)). Qed.
  Lemma lex_get_ins_same m k v : sm_get lex_cmp (sm_ins lex_cmp m k v) k = Some v.
  Proof. apply (I (@get_ins_same)). Qed.
  Lemma lex_get_ins_other m k v k' :
    k' <> k -> sorted lex_cmp m -> sm_get lex_cmp (sm_ins lex_cmp m k v) k' = sm_get lex_cmp m k'.
  Proof. apply (I (@get_ins_other)). Qed.
  Lemma lex_get_del_same m k : sorted lex_cmp m -> sm_get lex_cmp (sm_del lex_cmp m k) k = None.
  Proof. apply (I (@get_del_same)). Qed.
  Lemma lex_get_del_other m k k' :
    k' <> k -> sorted lex_cmp m -> sm_get lex_cmp (sm_del lex_cmp m k) k' = sm_get lex_cmp m k'.
  Proof. apply (I (@get_del_other)). Qed.
  Lemma lex_get_in m k v : sorted lex_cmp m -> (sm_get lex_cmp m k = Some v <-> In (k, v) m).
  Proof. apply (I (@get_in)). Qed.
  Lemma lex_keys_nodup m : sorted lex_cmp m -> NoDup (sm_keys m).
  Proof. apply (I (@keys_nodup)). Qed.
  Lemma lex_sm_ext m1 m2 :
    sorted lex_cmp m1 -> sorted lex_cmp m2 ->
    (forall k, sm_get lex_cmp m1 k = sm_get lex_cmp m2 k) -> m1 = m2.
  Proof. apply (I (@sm_ext)). Qed.
  Lemma lex_sorted_filter (f : bytes * V -> bool) m :
    sorted lex_cmp m -> sorted lex_cmp (filter f m).
  Proof. apply (I (@sorted_filter)). Qed.
  Lemma lex_get_filter (f : bytes * V -> bool) m k : sorted lex_cmp m ->
    sm_get lex_cmp (filter f m) k =
    match sm_get lex_cmp m k with Some v => if f (k, v) then Some v else None | None => None end.
  Proof. apply (I (@get_filter)). Qed.
End LexInstance.

Print Assumptions sorted_ins.
Print Assumptions sorted_del.
Print Assumptions get_ins_other.
Print Assumptions get_del_other.
Print Assumptions get_in.
Print Assumptions keys_nodup.
Print Assumptions sm_ext.
Print Assumptions get_filter.
Print Assumptions fold_ins_In.
Print Assumptions lex_sm_ext.
