(* Faults.v -- C14, the part that holds: a failed I/O call is contained, IN MEMORY and for the
   rest of the process lifetime, to the operation that hit it.

   Every statement here holds for EVERY world, hence under every fault plan (wfault w = None or
   Some n for any n; the model injects EIO at the n-th counted effective call, which then has no
   effect -- FS.v do_call).  No hypothesis on wfault appears anywhere in this file.

   The invariant is LiveF: Live0 (StoreInv.v) without the clause about the segment writer
   (after a failed WAL append / fdatasync the buffer may be non-empty, the writer may be None and
   a version number may have been burned) and without the staging-freshness clause (a failed
   unlink may leave a staging file behind).  It keeps everything a reader needs: the index key
   map is the abstract map, the reference counts / statistics are exact, every referenced blob
   is present with its bytes, the directories exist, 1 <= nextv.

   What is NOT claimed (and is false for the model, known finding F4, see FaultWitness.v):
   anything about what a later reopen sees.  The record of an operation whose WAL append or
   fdatasync failed stays in the writer's buffer / in the segment file and becomes durable
   later; LiveF deliberately says nothing about the buffer. *)
From Cas Require Import History.
From CasProofs Require Import BaseProofs SMapProofs IndexProofs RangeProofs
  StoreFS StoreInv StoreWrite StoreRead StoreHist WorldRel FaultLogic.
From Coq Require Import ZifyBool ZifyNat ZifyN.
Open Scope N_scope.

Section Faults.
  Variable H : bytes -> bytes.
  Hypothesis H_len : forall b, length (H b) = 32%nat.
  Hypothesis H_byte : forall b, Forall (fun x => x < 256) (H b).
  Variable cfg : config.
  Hypothesis n_pos : 0 < c_n cfg.
  Let cmp := key_cmp (c_kt cfg).

  Local Notation KX L :=
    (L cmp (key_cmp_refl _) (key_cmp_eq _) (key_cmp_antisym _) (key_cmp_trans _)) (only parsing).
  Local Notation item_of := (item_of H).
  Local Notation km_of := (km_of H).
  Local Notation NoCollide := (NoCollide H).
  Local Notation Live0 := (Live0 H cfg).

  (* ---------------------------------------------------------------- *)
  (* F1. the weakened invariant                                        *)
  (* ---------------------------------------------------------------- *)
  Record LiveF (m : mem) (s : fs) (sg : smap bytes) : Prop := mkLiveF {
    lf_sorted : sorted cmp sg;
    lf_km : km (idx m) = km_of sg;
    lf_idx : IdxInv cmp (idx m);
    lf_nocollide : NoCollide (map snd sg);
    lf_cas : forall k c, In (k, c) sg -> exists f, fget s (cas_path (H c)) = Some f /\ fdata f = c;
    lf_dirs : dirs_ok m s;
    lf_nextv : 1 <= nextv (mwal m)
  }.

  Lemma Live0_LiveF : forall m s sg, Live0 m s sg -> LiveF m s sg.
  Proof.
    intros m s sg [L1 L2 L3 L4 L5 L6 L7 L8]. constructor; try assumption. exact (proj1 L8).
  Qed.

  (* the filesystem part, as a predicate on the filesystem alone *)
  Definition Blob (s : fs) (c : bytes) : Prop :=
    exists f, fget s (cas_path (H c)) = Some f /\ fdata f = c.
  (* the same three clauses as StoreInv.dirs_ok (third one: well-formed hashes only) *)
  Definition DirsOK (pre : bool) (s : fs) : Prop :=
    has_dir s [s_staging] = true /\ has_dir s [s_cas] = true /\
    (pre = true -> forall h, length h = 32%nat -> Forall (fun x => x < 256) h ->
                    parent_ok s (cas_path h) = true).
  Definition FsF (pre : bool) (cs : list bytes) (s : fs) : Prop :=
    (forall c, In c cs -> Blob s c) /\ DirsOK pre s.

  Lemma LiveF_fs : forall m s sg, LiveF m s sg -> FsF (mpre m) (map snd sg) s.
  Proof.
    intros m s sg L. split; [|exact (lf_dirs _ _ _ L)].
    intros c Ic. apply in_map_iff in Ic. destruct Ic as ([k c'] & <- & Ik).
    exact (lf_cas _ _ _ L k c' Ik).
  Qed.

  Lemma LiveF_intro : forall m s sg,
    sorted cmp sg -> km (idx m) = km_of sg -> IdxInv cmp (idx m) -> NoCollide (map snd sg) ->
    1 <= nextv (mwal m) -> FsF (mpre m) (map snd sg) s -> LiveF m s sg.
  Proof.
    intros m s sg S1 S2 S3 S4 S5 [B D]. constructor; try assumption.
    intros k c Ik. apply B. apply in_map_iff. now exists (k, c).
  Qed.

  Lemma FsF_incl : forall pre cs cs' s, (forall c, In c cs' -> In c cs) -> FsF pre cs s -> FsF pre cs' s.
  Proof. intros pre cs cs' s I [B D]. split; [|exact D]. intros c Ic. apply B, I, Ic. Qed.

  (* --- which calls keep the filesystem part --- *)
  Lemma dirsok_keeps : forall pre c, call_keeps (DirsOK pre) c.
  Proof.
    intros pre c s s' (D1 & D2 & D3) E.
    split; [exact (has_dir_keeps _ c _ _ D1 E)|]. split; [exact (has_dir_keeps _ c _ _ D2 E)|].
    intros Pp h Lh Bh. specialize (D3 Pp h Lh Bh). unfold parent_ok in *.
    cbn [cas_path parent_dir] in *. exact (has_dir_keeps _ c _ _ D3 E).
  Qed.

  Lemma blob_keeps : forall c0 c, call_avoids (cas_path (H c0)) c = true ->
    call_keeps (fun s => Blob s c0) c.
  Proof.
    intros c0 c A s s' (f & G & D) E. exists f. split; [|exact D].
    exact (avoids_keeps _ (Some f) c A s s' G E).
  Qed.

  Lemma fsf_keeps : forall pre cs c,
    (forall c0, In c0 cs -> call_avoids (cas_path (H c0)) c = true) -> call_keeps (FsF pre cs) c.
  Proof.
    intros pre cs c A s s' [B D] E. split; [|exact (dirsok_keeps pre c _ _ D E)].
    intros c0 I0. exact (blob_keeps c0 c (A c0 I0) _ _ (B c0 I0) E).
  Qed.

  (* calls that name nothing under cas/ (everything except the rename of a staged blob into
     cas/ and the unlink of unreferenced blobs) *)
  Lemma fsf_free : forall pre cs c, cas_free c = true -> call_keeps (FsF pre cs) c.
  Proof.
    intros pre cs c F. apply fsf_keeps. intros c0 _. unfold cas_path. now apply cas_free_avoids.
  Qed.

  (* unlinking blobs that none of the contents in cs is stored under *)
  Lemma pres_delete_blobs : forall pre cs hs,
    (forall h c0, In h hs -> In c0 cs -> cas_path (H c0) <> cas_path h) ->
    Pres (FsF pre cs) (delete_blobs hs).
  Proof.
    intros pre cs. induction hs as [|h hs IH]; intros Hs; cbn [delete_blobs].
    - apply pres_ret.
    - assert (IH' : Pres (FsF pre cs) (delete_blobs hs)).
      { apply IH. intros h' c0 Ih I0. apply Hs; [now right|exact I0]. }
      apply pres_bind.
      + apply pres_do_call, fsf_keeps. intros c0 I0. cbn [call_avoids].
        rewrite path_eqb_neq; [reflexivity|]. apply Hs; [now left|exact I0].
      + intros [u|[]]; try exact IH'; apply pres_ret.
  Qed.

  (* ---------------------------------------------------------------- *)
  (* F2. the outcome of a write operation                              *)
  (* ---------------------------------------------------------------- *)
  (* sg: the abstract map before; sg': the map the operation is meant to produce.
     Whatever happens: no panic; the handle is in a consistent state for the old OR the new
     map (the two differ only on the keys of the operation, so every other key keeps exactly
     its content); and if the operation reports success it is the new one. *)
  Definition Outcome {R} (sg sg' : smap bytes) (r : res serr R) (m' : mem) (s' : fs) : Prop :=
    r <> Err EPanic /\ (LiveF m' s' sg \/ LiveF m' s' sg') /\
    ((exists v, r = Ok v) -> LiveF m' s' sg').

  Lemma Outcome_fail : forall {R} m s sg sg' e,
    e <> EPanic -> LiveF m s sg -> @Outcome R sg sg' (Err e) m s.
  Proof.
    intros R m s sg sg' e Ne L. split; [congruence|]. split; [now left|].
    intros [v E]. discriminate.
  Qed.

  Lemma Outcome_same : forall {R} m s sg (r : res serr R),
    r <> Err EPanic -> LiveF m s sg -> Outcome sg sg r m s.
  Proof. intros R m s sg r Nr L. split; [exact Nr|]. split; [now left|auto]. Qed.

  (* ---------------------------------------------------------------- *)
  (* F3. log_and_apply under faults                                    *)
  (* ---------------------------------------------------------------- *)
  Lemma log_and_apply_fault : forall m sg sg' o,
    sorted cmp sg -> km (idx m) = km_of sg -> IdxInv cmp (idx m) -> NoCollide (map snd sg) ->
    1 <= nextv (mwal m) ->
    op_respects_sizes (idx m) o ->
    sorted cmp sg' -> km_of sg' = km_expected cmp (idx m) o -> NoCollide (map snd sg') ->
    Hoare (FsF (mpre m) (map snd sg ++ map snd sg')) (log_and_apply H cfg m o)
          (fun rm s' => Outcome sg sg' (fst rm) (snd rm) s').
  Proof.
    intros m sg sg' o Ssg Hkm Hidx Hnc Hnv Hop Ssg' Kexp Nc'.
    set (cs := map snd sg). set (cs' := map snd sg'). set (pre := mpre m).
    assert (Sub : forall s, FsF pre (cs ++ cs') s -> FsF pre cs s).
    { intros s. apply FsF_incl. intros c Ic. apply in_or_app. now left. }
    assert (Sub' : forall s, FsF pre (cs ++ cs') s -> FsF pre cs' s).
    { intros s. apply FsF_incl. intros c Ic. apply in_or_app. now right. }
    unfold log_and_apply. cbv zeta.
    eapply hoare_bind.
    { apply (inv_append_op H cfg (FsF pre (cs ++ cs'))). intros c Fc. now apply fsf_free. }
    intros [[ver|e] wl']; apply hoare_pure; cbn [fst snd]; intros [Hn He].
    - (* the record was appended and synced *)
      destruct (C12_apply cmp (key_cmp_refl _) (key_cmp_eq _) (key_cmp_antisym _) (key_cmp_trans _)
                  (idx m) o Hidx Hop) as (i' & un & Eap & Inv' & Ki' & _ & _ & Hun).
      unfold cmp in Eap. rewrite Eap.
      set (m1 := mkMem i' wl' (mpre m)).
      assert (L1 : forall s, FsF pre cs' s -> LiveF m1 s sg').
      { intros s Fs. apply LiveF_intro; cbn [m1 idx mwal mpre]; try assumption.
        - rewrite Ki'. symmetry. exact Kexp.
        - lia. }
      eapply hoare_bind with (R := fun _ s => FsF pre cs' s).
      { eapply hoare_pre; [exact Sub'|]. apply hoare_of_pres. apply pres_delete_blobs.
        intros h c0 Ih I0 Eq.
        apply Hun in Ih. destruct Ih as [Ih1 Ih2]. rewrite Hkm in Ih1.
        apply (count_pos_content H) in Ih1. destruct Ih1 as (k1 & c1 & _ & <-).
        apply (cas_path_inj H H_len H_byte) in Eq.
        apply in_map_iff in I0. destruct I0 as ([k0 c0'] & E0 & I0). cbn [snd] in E0. subst c0'.
        pose proof (content_count_pos H sg' k0 c0 I0) as Pz.
        rewrite Ki', <- Kexp, <- Eq in Ih2. lia. }
      intros [u|e].
      + match goal with |- context [if ?b then _ else _] => destruct b end.
        * eapply hoare_post; [|apply (inv_checkpoint_inner cfg (FsF pre cs')); intros c Fc; now apply fsf_free].
          intros [r m2] s [Fs (Hr & K2 & R2 & U2 & T2 & W2 & P2)]. cbn [fst snd] in *.
          assert (L2 : LiveF m2 s sg').
          { apply LiveF_intro; try assumption.
            - rewrite K2. cbn [m1 idx]. rewrite Ki'. symmetry. exact Kexp.
            - eapply IdxInv_ext; [exact K2|exact R2|exact U2|exact T2|exact Inv'].
            - rewrite W2. cbn [m1 mwal]. lia.
            - rewrite P2. exact Fs. }
          split; [exact Hr|]. split; [now right|auto].
        * apply hoare_ret. intros s Fs. cbn [fst snd]. split; [discriminate|].
          split; [right|intros _]; now apply L1.
      + apply hoare_ret. intros s Fs. cbn [fst snd]. split; [discriminate|].
        split; [right; now apply L1|]. intros [v E]. discriminate.
    - (* the append failed: memory keeps the old index; the version is burned and the record
         may still sit in the writer's buffer (F4) *)
      apply hoare_ret. intros s Fs. cbn [fst snd]. apply Outcome_fail.
      + intros ->. now apply He.
      + apply LiveF_intro; cbn [idx mwal mpre]; try assumption; [lia|now apply Sub].
  Qed.

  (* ---------------------------------------------------------------- *)
  (* F4. put                                                           *)
  (* ---------------------------------------------------------------- *)
  Definition Staged (p : path) (x : bytes) (s : fs) : Prop :=
    exists f, fget s p = Some f /\ fdata f = x.

  Lemma staged_append : forall p x b s s',
    Staged p x s -> apply_call (CAppend p b) s = Ok s' -> Staged p (x ++ b) s'.
  Proof.
    intros p x b s s' (f & G & D) E. cbn [apply_call] in E. rewrite G in E. inversion E.
    eexists. split; [apply (fget_upd_same s p)|]. cbn [fdata]. now rewrite D.
  Qed.

  Lemma staged_sync : forall p x s s',
    Staged p x s -> apply_call (CSync p) s = Ok s' -> Staged p x s'.
  Proof.
    intros p x s s' (f & G & D) E. cbn [apply_call] in E. rewrite G in E. inversion E.
    eexists. split; [apply (fget_upd_same s p)|]. exact D.
  Qed.

  Lemma staged_mkdir : forall p x d, call_keeps (Staged p x) (CMkdir d).
  Proof.
    intros p x d s s' (f & G & D) E. exists f. split; [|exact D].
    exact (avoids_keeps p (Some f) (CMkdir d) eq_refl s s' G E).
  Qed.

  Local Ltac kf Fs E :=
    match goal with KF : forall c0, cas_free c0 = true -> call_keeps _ c0 |- _ =>
      eapply KF; [|exact Fs|exact E]; reflexivity end.

  Theorem put_hoare : forall m sg k chunks,
    sorted cmp sg -> km (idx m) = km_of sg -> IdxInv cmp (idx m) -> NoCollide (map snd sg) ->
    1 <= nextv (mwal m) ->
    NoCollide (concat chunks :: map snd sg) ->
    Hoare (FsF (mpre m) (map snd sg)) (put H cfg m k chunks)
          (fun rm s' => Outcome sg (sm_ins cmp sg k (concat chunks)) (fst rm) (snd rm) s').
  Proof.
    intros m sg k chunks Ssg Hkm Hidx Hnc Hnv NC.
    set (c := concat chunks) in *. set (sg' := sm_ins cmp sg k c).
    set (cs := map snd sg) in *. set (pre := mpre m).
    assert (Fail : forall e s, e <> EPanic -> FsF pre cs s ->
                     @Outcome unit sg sg' (Err e) m s).
    { intros e s Ne Fs. apply Outcome_fail; [exact Ne|]. now apply LiveF_intro. }
    assert (KF : forall c0, cas_free c0 = true -> call_keeps (FsF pre cs) c0)
      by (intros c0 F0; now apply fsf_free).
    (* the four clean-up paths: only the staging file is touched *)
    assert (Cleanup : forall i e (X : M (res errno unit)), e <> EPanic ->
              Inv (FsF pre cs) X (fun _ => True) ->
              Hoare (FsF pre cs)
                    (do! _ <- X ;; do! _ <- drop_staging (PStaging i) ;; ret (Err e, m))
                    (fun rm s' => @Outcome unit sg sg' (fst rm) (snd rm) s')).
    { intros i e X Ne HX.
      eapply hoare_post;
        [|apply (inv_bind _ _ _ _ (fun rm => rm = (Err e, m)) HX); intros a _;
          eapply (inv_bind _ _ _ (fun _ => True));
          [apply (inv_drop_staging (FsF pre cs) KF)|intros ? _; now apply inv_ret]].
      intros rm s [Fs ->]. cbn [fst snd]. now apply Fail. }
    assert (Cleanup0 : forall i e, e <> EPanic ->
              Hoare (FsF pre cs) (do! _ <- drop_staging (PStaging i) ;; ret (Err e, m))
                    (fun rm s' => @Outcome unit sg sg' (fst rm) (snd rm) s')).
    { intros i e Ne.
      eapply hoare_post;
        [|apply (inv_bind _ _ _ (fun _ => True) (fun rm => rm = (Err e, m))
                   (inv_drop_staging (FsF pre cs) KF i)); intros ? _; now apply inv_ret].
      intros rm s [Fs ->]. cbn [fst snd]. now apply Fail. }
    unfold put. cbv zeta. fold c.
    (* A. the staging file *)
    eapply hoare_bind with
      (R := fun rp s => FsF pre cs s /\
                        match rp with
                        | Ok p => (exists i, p = PStaging i) /\ Staged p [] s
                        | Err e => e = EStageCreate
                        end).
    { unfold new_staging.
      eapply hoare_bind with (R := fun _ s => FsF pre cs s); [apply hoare_get_fs; auto|].
      intros s0. cbv beta. eapply hoare_bind with
        (R := fun r s => FsF pre cs s /\
                match r with Ok _ => Staged (PStaging (nstage s0)) [] s | Err _ => True end).
      - apply hoare_call.
        + intros s s' Fs E. split; [kf Fs E|].
          cbn [apply_call] in E. destruct (parent_ok s (PStaging (nstage s0))); [|discriminate].
          destruct (fget s (PStaging (nstage s0))); inversion E.
          exists (mkFile [] 0). split; [|reflexivity]. unfold fget. cbn [files].
          rewrite lookup_set_path, path_eqb_refl. reflexivity.
        + intros s e Fs. now split.
      - intros [u|e]; apply hoare_ret; intros s [Fs St].
        + split; [exact Fs|]. split; [eexists; reflexivity|exact St].
        + now split. }
    intros [p|e].
    2: { apply hoare_ret. intros s [Fs ->]. cbn [fst snd]. apply Fail; [discriminate|exact Fs]. }
    apply (hoare_pre_elim (exists i, p = PStaging i)); [intros s (_ & X & _); exact X|].
    intros [i ->]. set (p := PStaging i).
    (* B. the content *)
    eapply hoare_bind with
      (R := fun r s => FsF pre cs s /\ match r with Ok _ => Staged p c s | Err _ => True end).
    { destruct c as [|x c0] eqn:Ec.
      - apply hoare_ret. intros s [Fs [_ St]]. now split.
      - apply hoare_call.
        + intros s s' [Fs [_ St]] E. split; [kf Fs E|].
          exact (staged_append p [] _ s s' St E).
        + intros s e [Fs _]. now split. }
    intros [u|e].
    2: { eapply hoare_pre; [intros s [Fs _]; exact Fs|]. apply Cleanup; [discriminate|].
         destruct (bw_sim 0 chunks); [now apply inv_ret|]. apply inv_call, KF. reflexivity. }
    (* C. fsync of the staged file *)
    eapply hoare_bind with
      (R := fun r s => FsF pre cs s /\ match r with Ok _ => Staged p c s | Err _ => True end).
    { destruct (c_sync cfg).
      - apply hoare_call.
        + intros s s' [Fs St] E. split; [kf Fs E|].
          exact (staged_sync p c s s' St E).
        + intros s e [Fs _]. now split.
      - apply hoare_ret. intros s [Fs St]. now split. }
    intros [u2|e].
    2: { eapply hoare_pre; [intros s [Fs _]; exact Fs|]. apply Cleanup0. discriminate. }
    (* D. the fan-out directories *)
    eapply hoare_bind with
      (R := fun _ s => FsF pre cs s /\ Staged p c s).
    { apply hoare_of_pres. destruct (mpre m); [apply pres_ret|].
      apply pres_mkdir_cas2. intros d. apply keeps_and; [apply KF; reflexivity|apply staged_mkdir]. }
    intros [u3|e].
    2: { eapply hoare_pre; [intros s [Fs _]; exact Fs|]. apply Cleanup0. discriminate. }
    (* E. the rename into cas/ *)
    set (q := cas_path (H c)).
    eapply hoare_bind with
      (R := fun r s => FsF pre cs s /\ match r with Ok _ => Blob s c | Err _ => True end).
    { apply hoare_call.
      - intros s s' [[B D] (f & G & Df)] E.
        pose proof (dirsok_keeps pre _ _ _ D E) as D'.
        cbn [apply_call] in E. rewrite G in E. destruct (parent_ok s q); [|discriminate].
        inversion E as [E']. change (with_files s (set_path (remove_path (files s) p) q f))
                              with (ren s p q f) in *.
        assert (Bc : Blob (ren s p q f) c).
        { exists f. split; [|exact Df]. fold q. now rewrite fget_ren, path_eqb_refl. }
        split; [|exact Bc]. split; [|rewrite E'; exact D'].
        intros c0 I0. destruct (path_eq_dec (cas_path (H c0)) q) as [Eq|Nq].
        + assert (c0 = c); [|now subst].
          apply (cas_path_inj H H_len H_byte) in Eq. apply NC; [now right|now left|exact Eq].
        + destruct (B c0 I0) as (f0 & G0 & D0). exists f0. split; [|exact D0].
          rewrite fget_ren, (path_eqb_neq _ _ Nq), fget_del_other; [exact G0|discriminate].
      - intros s e [Fs _]. now split. }
    intros [u4|e].
    2: { eapply hoare_pre; [intros s [Fs _]; exact Fs|]. apply Cleanup0. discriminate. }
    (* F. the WAL record and the index update *)
    assert (Sub : forall x, In x (map snd sg') -> x = c \/ In x cs).
    { intros x Ix. apply in_map_iff in Ix. destruct Ix as ([k' c'] & <- & Ik).
      apply (KX In_ins) in Ik. destruct Ik as [Ik|Ik].
      - inversion Ik. now left.
      - right. apply in_map_iff. now exists (k', c'). }
    eapply hoare_pre; [|apply (log_and_apply_fault m sg sg'); try assumption].
    - intros s [[B D] Bc]. split; [|exact D]. intros x Ix. apply in_app_or in Ix.
      destruct Ix as [Ix|Ix]; [now apply B|]. apply Sub in Ix. destruct Ix as [->|Ix]; auto.
    - intros k' i' Ik Eh. rewrite Hkm in Ik. apply (In_km_of H) in Ik. destruct Ik as (c' & Ic & ->).
      cbn [StoreInv.item_of ihash isize] in *.
      assert (c' = c); [|now subst].
      apply NC; [right; apply in_map_iff; now exists (k', c')|now left|exact Eh].
    - apply (KX sorted_ins), Ssg.
    - unfold sg'. unfold cmp. rewrite (km_of_ins H cfg). cbn [km_expected]. now rewrite Hkm.
    - eapply (NoCollide_incl H); [|exact NC]. intros x Ix. apply Sub in Ix.
      destruct Ix as [->|Ix]; [now left|now right].
  Qed.

  (* ---------------------------------------------------------------- *)
  (* F5. remove, remove_range, checkpoint, abort                       *)
  (* ---------------------------------------------------------------- *)
  Lemma Outcome_map : forall {R R'} sg sg' (r : res serr R) (r' : res serr R') m s,
    Outcome sg sg' r m s ->
    (forall e, r' = Err e -> r = Err e) -> ((exists v, r' = Ok v) -> exists v, r = Ok v) ->
    Outcome sg sg' r' m s.
  Proof.
    intros R R' sg sg' r r' m s (A & B & C) He Ho. split; [|split; [exact B|]].
    - intros X. apply A. now apply He.
    - intros X. apply C, Ho, X.
  Qed.

  (* removal of a list of keys: the common part of remove and remove_range *)
  Lemma removal_fault : forall m sg sg' ks,
    sorted cmp sg -> km (idx m) = km_of sg -> IdxInv cmp (idx m) -> NoCollide (map snd sg) ->
    1 <= nextv (mwal m) ->
    sorted cmp sg' -> (forall e, In e sg' -> In e sg) ->
    km_of sg' = fold_left (fun mm k => sm_del cmp mm k) ks (km_of sg) ->
    Hoare (FsF (mpre m) (map snd sg)) (log_and_apply H cfg m (RRemove ks))
          (fun rm s' => Outcome sg sg' (fst rm) (snd rm) s').
  Proof.
    intros m sg sg' ks Ssg Hkm Hidx Hnc Hnv Ssg' Sub Kd.
    eapply hoare_pre; [|apply (log_and_apply_fault m sg sg'); try assumption].
    - intros s. apply FsF_incl. intros c Ic. apply in_app_or in Ic. destruct Ic as [Ic|Ic]; [exact Ic|].
      apply in_map_iff in Ic. destruct Ic as (e & <- & Ie). apply in_map, Sub, Ie.
    - exact I.
    - cbn [km_expected]. now rewrite Hkm.
    - eapply (NoCollide_incl H); [|exact Hnc]. intros x Ix. apply in_map_iff in Ix.
      destruct Ix as (e & <- & Ie). apply in_map, Sub, Ie.
  Qed.

  Theorem remove_hoare : forall m sg k,
    sorted cmp sg -> km (idx m) = km_of sg -> IdxInv cmp (idx m) -> NoCollide (map snd sg) ->
    1 <= nextv (mwal m) ->
    Hoare (FsF (mpre m) (map snd sg)) (remove H cfg m k)
          (fun rm s' => Outcome sg (sm_del cmp sg k) (fst rm) (snd rm) s' /\
                        forall b, fst rm = Ok b ->
                                  b = match sm_get cmp sg k with Some _ => true | None => false end).
  Proof.
    intros m sg k Ssg Hkm Hidx Hnc Hnv. unfold remove. fold cmp.
    rewrite Hkm. unfold cmp at 1. rewrite (km_of_get H cfg). fold cmp.
    destruct (sm_get cmp sg k) as [c0|] eqn:G; cbn [option_map].
    - eapply hoare_bind.
      { apply (removal_fault m sg (sm_del cmp sg k) [k]); try assumption.
        - apply (KX sorted_del), Ssg.
        - intros e. apply (KX In_del).
        - cbn [fold_left]. apply (km_of_del H cfg). }
      intros [[u|e] m']; apply hoare_ret; intros s O; cbn [fst snd] in *.
      + split; [|intros b Eb; now inversion Eb].
        eapply Outcome_map; [exact O|discriminate|intros _; now exists u].
      + split; [|discriminate].
        eapply Outcome_map; [exact O|intros e' Ee; now inversion Ee|intros [v Ev]; discriminate].
    - apply hoare_ret. intros s Fs. cbn [fst snd]. split; [|intros b Eb; now inversion Eb].
      rewrite (KX del_absent _ _ G). apply Outcome_same; [discriminate|now apply LiveF_intro].
  Qed.

  Theorem remove_range_hoare : forall m sg lo hi,
    sorted cmp sg -> km (idx m) = km_of sg -> IdxInv cmp (idx m) -> NoCollide (map snd sg) ->
    1 <= nextv (mwal m) ->
    (nonempty sg && range_panics cmp lo hi) = false ->
    let inr := fun e : bytes * bytes => in_range cmp lo hi (fst e) in
    Hoare (FsF (mpre m) (map snd sg)) (remove_range H cfg m lo hi)
          (fun rm s' => Outcome sg (filter (fun e => negb (inr e)) sg) (fst rm) (snd rm) s' /\
                        forall n, fst rm = Ok n -> n = N.of_nat (length (filter inr sg))).
  Proof.
    intros m sg lo hi Ssg Hkm Hidx Hnc Hnv NP inr. unfold remove_range. fold cmp.
    rewrite Hkm, (nonempty_km_of H), NP. unfold keys_in_range. fold cmp. rewrite Hkm.
    rewrite <- (km_of_filter H (in_range cmp lo hi)), (km_of_keys H). fold inr.
    destruct (map fst (filter inr sg)) as [|k0 ks0] eqn:Eks.
    - apply hoare_ret. intros s Fs. cbn [fst snd]. apply map_eq_nil in Eks.
      rewrite (filter_none_all inr sg Eks), Eks. split; [|intros n En; now inversion En].
      apply Outcome_same; [discriminate|now apply LiveF_intro].
    - rewrite <- Eks. eapply hoare_bind.
      { apply (removal_fault m sg (filter (fun e => negb (inr e)) sg) (map fst (filter inr sg)));
          try assumption.
        - apply (KX sorted_filter), Ssg.
        - intros e Ie. apply filter_In in Ie. tauto.
        - rewrite (km_of_filter H (fun k => negb (in_range cmp lo hi k))).
          rewrite <- (km_of_keys H (filter inr sg)).
          unfold inr. rewrite (km_of_filter H (in_range cmp lo hi)).
          symmetry. apply (fold_del_filter cfg (in_range cmp lo hi)). apply (sorted_km_of H cfg), Ssg. }
      intros [[u|e] m']; apply hoare_ret; intros s O; cbn [fst snd] in *.
      + split; [|intros n En; inversion En; now rewrite map_length].
        eapply Outcome_map; [exact O|discriminate|intros _; now exists u].
      + split; [|discriminate].
        eapply Outcome_map; [exact O|intros e' Ee; now inversion Ee|intros [v Ev]; discriminate].
  Qed.

  (* bounds that make BTreeMap::range panic: the call panics before any I/O (this is the
     documented behaviour of the real code, not a fault effect) *)
  Lemma remove_range_panics : forall m lo hi w,
    (nonempty (km (idx m)) && range_panics (key_cmp (c_kt cfg)) lo hi) = true ->
    remove_range H cfg m lo hi w = ((Err EPanic, m), w).
  Proof. intros m lo hi w E. unfold remove_range. now rewrite E. Qed.

  Theorem checkpoint_hoare : forall m sg,
    sorted cmp sg -> km (idx m) = km_of sg -> IdxInv cmp (idx m) -> NoCollide (map snd sg) ->
    1 <= nextv (mwal m) ->
    Hoare (FsF (mpre m) (map snd sg)) (checkpoint cfg m)
          (fun rm s' => Outcome sg sg (fst rm) (snd rm) s').
  Proof.
    intros m sg Ssg Hkm Hidx Hnc Hnv. unfold checkpoint.
    eapply hoare_post; [|apply (inv_checkpoint_inner cfg (FsF (mpre m) (map snd sg)));
                         intros c Fc; now apply fsf_free].
    intros [r m2] s [Fs (Hr & K2 & R2 & U2 & T2 & W2 & P2)]. cbn [fst snd] in *.
    apply Outcome_same; [exact Hr|]. apply LiveF_intro; try assumption.
    - now rewrite K2.
    - eapply IdxInv_ext; [exact K2|exact R2|exact U2|exact T2|exact Hidx].
    - now rewrite W2.
    - now rewrite P2.
  Qed.

  Theorem abort_hoare : forall m sg k chunks,
    sorted cmp sg -> km (idx m) = km_of sg -> IdxInv cmp (idx m) -> NoCollide (map snd sg) ->
    1 <= nextv (mwal m) ->
    Hoare (FsF (mpre m) (map snd sg)) (abort m k chunks)
          (fun rm s' => Outcome sg sg (fst rm) (snd rm) s' /\ snd rm = m).
  Proof.
    intros m sg k chunks Ssg Hkm Hidx Hnc Hnv.
    eapply hoare_post; [|apply (inv_abort H (FsF (mpre m) (map snd sg))); intros c Fc; now apply fsf_free].
    intros [r m2] s [Fs [Hr Em]]. cbn [fst snd] in *. subst m2. split; [|reflexivity].
    apply Outcome_same; [exact Hr|now apply LiveF_intro].
  Qed.

  (* ---------------------------------------------------------------- *)
  (* F6. the statements in world form: for EVERY world w, whatever      *)
  (*     wfault w is                                                    *)
  (* ---------------------------------------------------------------- *)
  Theorem put_fault : forall m s sg k chunks w,
    LiveF m s sg -> wfs w = s -> NoCollide (concat chunks :: map snd sg) ->
    let '((r, m'), w') := put H cfg m k chunks w in
    r <> Err EPanic /\
    (LiveF m' (wfs w') sg \/ LiveF m' (wfs w') (sm_ins cmp sg k (concat chunks))) /\
    (r = Ok tt -> LiveF m' (wfs w') (sm_ins cmp sg k (concat chunks))).
  Proof.
    intros m s sg k chunks w L Ws NC. subst s. pose proof L as [L1 L2 L3 L4 _ _ L7].
    pose proof (put_hoare m sg k chunks L1 L2 L3 L4 L7 NC w (LiveF_fs _ _ _ L)) as O.
    destruct (put H cfg m k chunks w) as [[r m'] w']. cbn [fst snd] in O.
    destruct O as (A & B & C). split; [exact A|]. split; [exact B|]. intros ->. apply C. now exists tt.
  Qed.

  Theorem remove_fault : forall m s sg k w,
    LiveF m s sg -> wfs w = s ->
    let '((r, m'), w') := remove H cfg m k w in
    r <> Err EPanic /\
    (LiveF m' (wfs w') sg \/ LiveF m' (wfs w') (sm_del cmp sg k)) /\
    (forall b, r = Ok b ->
       LiveF m' (wfs w') (sm_del cmp sg k) /\
       b = match sm_get cmp sg k with Some _ => true | None => false end).
  Proof.
    intros m s sg k w L Ws. subst s. pose proof L as [L1 L2 L3 L4 _ _ L7].
    pose proof (remove_hoare m sg k L1 L2 L3 L4 L7 w (LiveF_fs _ _ _ L)) as O.
    destruct (remove H cfg m k w) as [[r m'] w']. cbn [fst snd] in O.
    destruct O as ((A & B & C) & D). split; [exact A|]. split; [exact B|].
    intros b ->. split; [apply C; now exists b|now apply D].
  Qed.

  Theorem remove_range_fault : forall m s sg lo hi w,
    LiveF m s sg -> wfs w = s -> (nonempty sg && range_panics cmp lo hi) = false ->
    let inr := fun e : bytes * bytes => in_range cmp lo hi (fst e) in
    let '((r, m'), w') := remove_range H cfg m lo hi w in
    r <> Err EPanic /\
    (LiveF m' (wfs w') sg \/ LiveF m' (wfs w') (filter (fun e => negb (inr e)) sg)) /\
    (forall n, r = Ok n ->
       LiveF m' (wfs w') (filter (fun e => negb (inr e)) sg) /\
       n = N.of_nat (length (filter inr sg))).
  Proof.
    intros m s sg lo hi w L Ws NP inr. subst s. pose proof L as [L1 L2 L3 L4 _ _ L7].
    pose proof (remove_range_hoare m sg lo hi L1 L2 L3 L4 L7 NP w (LiveF_fs _ _ _ L)) as O.
    destruct (remove_range H cfg m lo hi w) as [[r m'] w']. cbn [fst snd] in O.
    destruct O as ((A & B & C) & D). split; [exact A|]. split; [exact B|].
    intros n ->. split; [apply C; now exists n|now apply D].
  Qed.

  Theorem checkpoint_fault : forall m s sg w,
    LiveF m s sg -> wfs w = s ->
    let '((r, m'), w') := checkpoint cfg m w in
    r <> Err EPanic /\ LiveF m' (wfs w') sg.
  Proof.
    intros m s sg w L Ws. subst s. pose proof L as [L1 L2 L3 L4 _ _ L7].
    pose proof (checkpoint_hoare m sg L1 L2 L3 L4 L7 w (LiveF_fs _ _ _ L)) as O.
    destruct (checkpoint cfg m w) as [[r m'] w']. cbn [fst snd] in O.
    destruct O as (A & [B|B] & _); now split.
  Qed.

  Theorem abort_fault : forall m s sg k chunks w,
    LiveF m s sg -> wfs w = s ->
    let '((r, m'), w') := abort m k chunks w in
    r <> Err EPanic /\ m' = m /\ LiveF m' (wfs w') sg.
  Proof.
    intros m s sg k chunks w L Ws. subst s. pose proof L as [L1 L2 L3 L4 _ _ L7].
    pose proof (abort_hoare m sg k chunks L1 L2 L3 L4 L7 w (LiveF_fs _ _ _ L)) as O.
    destruct (abort m k chunks w) as [[r m'] w']. cbn [fst snd] in O.
    destruct O as ((A & [B|B] & _) & E); (split; [exact A|split; [exact E|exact B]]).
  Qed.

  (* close under faults: the filesystem part of the invariant survives (only the WAL segment
     is touched) *)
  Theorem close_fault : forall m s sg w,
    LiveF m s sg -> wfs w = s -> FsF (mpre m) (map snd sg) (wfs (snd (close m w))).
  Proof.
    intros m s sg w L Ws. subst s.
    apply (inv_to_pres _ _ _ (inv_close (FsF (mpre m) (map snd sg))
                                (fun c Fc => fsf_free _ _ c Fc) m)).
    now apply LiveF_fs.
  Qed.

  (* ---------------------------------------------------------------- *)
  (* F7. reads under the weakened invariant                            *)
  (* ---------------------------------------------------------------- *)
  Lemma blob_of_content_F : forall m s sg k c, LiveF m s sg -> sm_get cmp sg k = Some c ->
    blob_of s (H c) = Some c.
  Proof.
    intros m s sg k c L G. apply (KX get_in _ _ _ (lf_sorted _ _ _ L)) in G.
    destruct (lf_cas _ _ _ L k c G) as (f & Gf & Df). unfold blob_of. now rewrite Gf, Df.
  Qed.

  Theorem get_spec_F : forall m s sg k, LiveF m s sg -> get cfg m s k = Ok (sm_get cmp sg k).
  Proof.
    intros m s sg k L. unfold get. fold cmp. rewrite (lf_km _ _ _ L). unfold cmp at 1.
    rewrite (km_of_get H cfg). fold cmp.
    destruct (sm_get cmp sg k) as [c|] eqn:G; cbn [option_map]; [|reflexivity].
    cbn [StoreInv.item_of ihash]. now rewrite (blob_of_content_F m s sg k c L G).
  Qed.

  Theorem get_size_spec_F : forall m s sg k, LiveF m s sg ->
    get_size cfg m k = option_map len (sm_get cmp sg k).
  Proof.
    intros m s sg k L. unfold get_size. fold cmp. rewrite (lf_km _ _ _ L). unfold cmp at 1.
    rewrite (km_of_get H cfg). fold cmp. destruct (sm_get cmp sg k); reflexivity.
  Qed.

  Theorem get_range_spec_F : forall m s sg k a b, LiveF m s sg ->
    get_range_api cfg m s k a b =
    match sm_get cmp sg k with
    | None => Ok None
    | Some c => if (b <? a) && (a <? len c) then Err EInvalidRange
                else Ok (Some (slice c a b))
    end.
  Proof.
    intros m s sg k a b L. unfold get_range_api. fold cmp.
    rewrite (lf_km _ _ _ L). unfold cmp at 1. rewrite (km_of_get H cfg). fold cmp.
    destruct (sm_get cmp sg k) as [c|] eqn:G; cbn [option_map]; [|reflexivity].
    cbn [StoreInv.item_of ihash isize].
    destruct (N.leb_spec (len c) a) as [La|La].
    - rewrite slice_beyond by exact La.
      replace (a <? len c) with false by lia. now rewrite andb_false_r.
    - replace (a <? len c) with true by lia. rewrite andb_true_r.
      destruct (N.ltb_spec b a) as [Lb|Lb].
      + replace (N.min b (len c) <? a) with true by lia. reflexivity.
      + replace (N.min b (len c) <? a) with false by lia.
        rewrite (blob_of_content_F m s sg k c L G), C17_total.
        replace (b <? a) with false by lia. reflexivity.
  Qed.

  Theorem range_iter_spec_F : forall m s sg lo hi, LiveF m s sg ->
    range_panics cmp lo hi = false ->
    range_iter cfg m lo hi = Ok (km_of (filter (fun e => in_range cmp lo hi (fst e)) sg)).
  Proof.
    intros m s sg lo hi L NP. unfold range_iter. fold cmp. rewrite NP, andb_false_r.
    rewrite (lf_km _ _ _ L), (km_of_filter H (in_range cmp lo hi)). reflexivity.
  Qed.
End Faults.

Print Assumptions log_and_apply_fault.
Print Assumptions put_fault.
Print Assumptions remove_fault.
Print Assumptions remove_range_fault.
Print Assumptions checkpoint_fault.
Print Assumptions abort_fault.
Print Assumptions close_fault.
Print Assumptions get_spec_F.
Print Assumptions get_range_spec_F.
