(* Recover.v -- recovery is exact (C02 for one restart, C12 after reopen): from the on-disk
   invariant [DiskOk], closing the handle and opening the store again rebuilds the same index
   state; the reopened handle satisfies the invariants again (F3).  A fresh directory satisfies
   them after the first open (F1).

   Organisation:
     R1  uniqueness of the derived index components, maxima
     R2  replay of records / segments on a well-formed log
     R3  index_load split into snapshot load and tail; both exact
     R4  close, open_with_recover on an initialised directory; the restart theorem
     R5  the first open of an empty directory *)
From Cas Require Import History.
From CasProofs Require Import BaseProofs CodecBase CodecProofs SMapProofs IndexProofs
  StoreFS StoreInv StoreWrite StoreRead StoreHist DiskInv.
From Coq Require Import ZifyBool ZifyNat ZifyN.
Open Scope N_scope.

Arguments N.add : simpl never.
Arguments N.sub : simpl never.
Arguments N.mul : simpl never.
Arguments N.div : simpl never.
Arguments N.modulo : simpl never.
Arguments N.eqb : simpl never.
Arguments N.ltb : simpl never.
Arguments N.leb : simpl never.
Arguments N.pow : simpl never.
Arguments N.max : simpl never.

(* ------------------------------------------------------------------ *)
(* R1. generalities                                                    *)
(* ------------------------------------------------------------------ *)
Lemma fold_max_spec : forall l a,
  a <= fold_left N.max l a /\ (forall x, In x l -> x <= fold_left N.max l a) /\
  (fold_left N.max l a = a \/ In (fold_left N.max l a) l).
Proof.
  induction l as [|x l IH]; intros a; cbn [fold_left].
  - split; [lia|]. split; [intros x []|now left].
  - destruct (IH (N.max a x)) as (I1 & I2 & I3). split; [lia|]. split.
    + intros y [<-|Iy]; [lia|auto].
    + destruct I3 as [I3|I3]; [|right; now right].
      destruct (N.max_spec a x) as [[_ E]|[_ E]]; rewrite E in *.
      * right. left. now symmetry.
      * now left.
Qed.

Lemma dec_settings_enc : forall ver pre n, ver < 2 ^ 32 -> n < 2 ^ 64 ->
  dec_settings (enc_settings ver pre n) = Some (ver, pre, n).
Proof.
  intros ver pre n Lv Ln. unfold dec_settings, enc_settings.
  rewrite BaseProofs.take_app by apply length_u32. cbn [app].
  rewrite <- (app_nil_r (u64 n)), BaseProofs.take_app by apply length_u64.
  rewrite BaseProofs.le_dec_u32, BaseProofs.le_dec_u64 by assumption.
  destruct pre; reflexivity.
Qed.

Section Recover.
  Variable H : bytes -> bytes.
  Hypothesis H_len : forall b, length (H b) = 32%nat.
  Hypothesis H_byte : forall b, Forall (fun x => x < 256) (H b).
  Variable cfg : config.
  Hypothesis n_pos : 0 < c_n cfg.
  Let cmp := key_cmp (c_kt cfg).

  Local Notation KX L :=
    (L cmp (key_cmp_refl _) (key_cmp_eq _) (key_cmp_antisym _) (key_cmp_trans _)) (only parsing).
  Local Notation item_of := (item_of H).
  Local Notation km_of := (km_of H).
  Local Notation NoCollide := (NoCollide H).
  Local Notation Live0 := (Live0 H cfg).
  Local Notation seg_of := (seg_of cfg).
  Local Notation DiskW := (DiskW H cfg).
  Local Notation DiskOkW := (DiskOkW H cfg).
  Local Notation DiskOk := (DiskOk H cfg).
  Local Notation Inv := (Inv H cfg).
  Local Notation kstep := (kstep cfg).
  Local Notation ops_ok := (ops_ok cfg).
  Local Notation op_good := (op_good cfg).

  (* rc, ub, tb are functions of the key map *)
  Lemma IdxInv_unique : forall i i', IdxInv cmp i -> IdxInv cmp i' -> km i = km i' ->
    rc i = rc i' /\ ub i = ub i' /\ tb i = tb i'.
  Proof.
    intros i i' (_ & Sr & Hr & _ & Hu & Ht) (_ & Sr' & Hr' & _ & Hu' & Ht') K.
    split; [|split].
    - apply lex_sm_ext; try assumption. intros h.
      change (rc_get (rc i) h = rc_get (rc i') h). now rewrite Hr, Hr', K.
    - now rewrite Hu, Hu', K.
    - now rewrite Ht, Ht', K.
  Qed.

  (* ---------------------------------------------------------------- *)
  (* R2. replay                                                        *)
  (* ---------------------------------------------------------------- *)
  Lemma replay_records_nil : forall c st hi cnt,
    replay_records cfg c [] st hi cnt = Ok (st, hi, cnt).
  Proof. reflexivity. Qed.

  Lemma replay_records_cons : forall c ver payload r st hi cnt,
    replay_records cfg c ((ver, payload) :: r) st hi cnt =
    if ver <=? c then replay_records cfg c r st (N.max hi ver) cnt
    else match dec_op payload with
         | Err e => Err (EReplay (RDeserialize e))
         | Ok raw =>
           match from_raw (c_kt cfg) raw with
           | Err e => Err (EReplay (RConvert e))
           | Ok o =>
             match apply_op cmp st o with
             | Err _ => Err EPanic
             | Ok (st', _) => replay_records cfg c r st' (N.max hi ver) (cnt + 1)
             end
           end
         end.
  Proof. reflexivity. Qed.

  Lemma replay_records_app : forall c a b st hi cnt,
    replay_records cfg c (a ++ b) st hi cnt =
    match replay_records cfg c a st hi cnt with
    | Err x => Err x
    | Ok (st', hi', cnt') => replay_records cfg c b st' hi' cnt'
    end.
  Proof.
    intros c. induction a as [|[ver p] a IH]; intros b st hi cnt.
    - reflexivity.
    - cbn [app]. rewrite !replay_records_cons. destruct (ver <=? c); [apply IH|].
      destruct (dec_op p) as [raw|e]; [|reflexivity].
      destruct (from_raw (c_kt cfg) raw) as [o|e]; [|reflexivity].
      destruct (apply_op cmp st o) as [[st' un]|e]; [apply IH|reflexivity].
  Qed.

  Lemma replay_records_ok : forall c recs v0 ops st hi cnt,
    filter (fun r => c <? fst r) recs = enc_from v0 ops ->
    Forall op_good ops -> IdxInv cmp st -> ops_ok (km st) ops ->
    exists st', replay_records cfg c recs st hi cnt
                = Ok (st', fold_left N.max (map fst recs) hi, cnt + N.of_nat (length ops)) /\
      IdxInv cmp st' /\ km st' = fold_left kstep ops (km st) /\ lpv st' = lpv st /\
      (ops = [] -> st' = st).
  Proof.
    intros c. induction recs as [|[ver p] recs IH]; intros v0 ops st hi cnt Fl Og Iv Ok0.
    - cbn [filter] in Fl. destruct ops; [|discriminate]. exists st.
      rewrite replay_records_nil. cbn [map fold_left length].
      replace (cnt + N.of_nat 0) with cnt by lia.
      split; [reflexivity|]. split; [exact Iv|]. split; [reflexivity|]. split; [reflexivity|auto].
    - rewrite replay_records_cons. cbn [map fst fold_left filter] in *.
      destruct (ver <=? c) eqn:Le.
      + replace (c <? ver) with false in Fl by lia. now apply (IH v0).
      + replace (c <? ver) with true in Fl by lia.
        destruct ops as [|o ops]; [discriminate|]. cbn [enc_from] in Fl.
        inversion Fl as [[Ev Ep Fl']]. clear Fl. subst ver.
        inversion Og as [|? ? [Of Kv] Og']; subst.
        destruct Ok0 as [Kr Ok1].
        rewrite dec_enc_op_nil by exact Of. rewrite from_raw_valid by exact Kv.
        destruct (C12_apply cmp (key_cmp_refl _) (key_cmp_eq _) (key_cmp_antisym _)
                    (key_cmp_trans _) st o Iv) as (st1 & un & Eap & Iv1 & K1 & L1 & _).
        { now apply kresp_respects. }
        rewrite Eap. rewrite (kstep_expected cfg) in K1.
        destruct (IH (v0 + 1) ops st1 (N.max hi v0) (cnt + 1) Fl' Og' Iv1) as (st' & E & Iv' & K' & L' & _).
        { now rewrite K1. }
        exists st'. rewrite E. cbn [length fold_left].
        replace (cnt + 1 + N.of_nat (length ops)) with (cnt + N.of_nat (S (length ops))) by lia.
        split; [reflexivity|]. split; [exact Iv'|]. split; [now rewrite K', K1|].
        split; [congruence|discriminate].
  Qed.

  Lemma read_lazy_seg : forall recs b, Forall rec_ok recs ->
    read_segment_lazy H (S (length (render H recs ++ tailb b))) (render H recs ++ tailb b)
    = (recs, None).
  Proof.
    intros recs [|] Ok0; cbn [tailb].
    - now apply (lazy_segment_render_sentinel_nil H H_len).
    - rewrite app_nil_r. now apply lazy_segment_render.
  Qed.

  Lemma replay_segments_flat : forall c s rf ids st hi cnt,
    (forall i, In i ids -> exists f, fget s (PWal i) = Some f /\
       read_segment_lazy H (S (length (fdata f))) (fdata f) = (rf i, None)) ->
    replay_segments H cfg c s ids st hi cnt = replay_records cfg c (flat_map rf ids) st hi cnt.
  Proof.
    intros c s rf. induction ids as [|i ids IH]; intros st hi cnt Hf.
    - reflexivity.
    - cbn [replay_segments flat_map]. rewrite replay_records_app.
      destruct (Hf i (or_introl eq_refl)) as (f & G & R). rewrite G, R.
      destruct (replay_records cfg c (rf i) st hi cnt) as [[[st' hi'] cnt']|e]; [|reflexivity].
      apply IH. intros j Ij. apply Hf. now right.
  Qed.

  (* the whole log of a well-formed disk replays to the current key map *)
  Lemma replay_ok : forall c nv sb pre s sg ids rf sf km_c ops st0,
    FsWf s -> DiskW c nv sb pre (fdat s) sg ids rf sf km_c ops ->
    IdxInv cmp st0 -> km st0 = km_c ->
    exists st, replay_segments H cfg c s (sort_ids (wal_ids s)) st0 c 0
               = Ok (st, nv - 1, N.of_nat (length ops)) /\
      IdxInv cmp st /\ km st = km_of sg /\ lpv st = lpv st0 /\ (ops = [] -> st = st0).
  Proof.
    intros c nv sb pre s sg ids rf sf km_c ops st0 Wf Dw Iv K0. pose proof Dw as [].
    assert (Eids : sort_ids (wal_ids s) = ids).
    { apply sort_ids_char; try assumption. intros i. split.
      - intros Ii E. apply fdat_none in E. rewrite (dw_in i Ii) in E. discriminate.
      - intros Ne. destruct (in_dec N.eq_dec i ids) as [Ii|Ni]; [exact Ii|].
        exfalso. apply Ne, fdat_none, dw_out, Ni. }
    rewrite Eids. rewrite (replay_segments_flat c s rf).
    2:{ intros i Ii. pose proof (dw_in i Ii) as G. apply fdat_some in G.
        destruct G as (f & G & Df). exists f. split; [exact G|]. rewrite Df.
        apply read_lazy_seg. destruct (dw_seg i Ii) as (S1 & _). exact S1. }
    destruct (replay_records_ok c (flat_map rf ids) (c + 1) ops st0 c 0 dw_filter dw_opsfit Iv)
      as (st & E & Iv' & K' & L' & Z').
    { now rewrite K0. }
    exists st. rewrite E. replace (0 + N.of_nat (length ops)) with (N.of_nat (length ops)) by lia.
    assert (Hi : fold_left N.max (map fst (flat_map rf ids)) c = nv - 1).
    { destruct (fold_max_spec (map fst (flat_map rf ids)) c) as (M1 & M2 & M3).
      assert (Lt : forall r, In r (flat_map rf ids) -> fst r < nv)
        by (eapply (all_lt_nv cfg n_pos); eassumption).
      assert (Up : fold_left N.max (map fst (flat_map rf ids)) c <= nv - 1).
      { destruct M3 as [->|M3]; [lia|]. apply in_map_iff in M3. destruct M3 as (r & <- & Ir).
        specialize (Lt r Ir). lia. }
      destruct (Nat.eq_dec (length ops) 0) as [Z|NZ]; [rewrite Z in dw_nv; lia|].
      destruct (@exists_last _ ops) as (l & o0 & El); [intros ->; now apply NZ|].
      rewrite El in dw_filter, dw_nv.
      rewrite app_length in dw_nv. cbn [length] in dw_nv.
      assert (Il : In (c + 1 + N.of_nat (length l), enc_op o0) (flat_map rf ids)).
      { assert (I2 : In (c + 1 + N.of_nat (length l), enc_op o0)
                       (filter (fun r => c <? fst r) (flat_map rf ids))).
        { rewrite dw_filter, enc_from_app. apply in_or_app. right. now left. }
        apply filter_In in I2. tauto. }
      specialize (M2 (c + 1 + N.of_nat (length l))).
      assert (c + 1 + N.of_nat (length l) <= fold_left N.max (map fst (flat_map rf ids)) c).
      { apply M2. apply in_map_iff. eexists. split; [|exact Il]. reflexivity. }
      lia. }
    rewrite Hi. split; [reflexivity|]. split; [exact Iv'|]. split; [|split; assumption].
    now rewrite K', K0.
  Qed.

  (* ---------------------------------------------------------------- *)
  (* R3. index_load                                                    *)
  (* ---------------------------------------------------------------- *)
  (* the two halves of Index::load, copied from theories/Store.v; [index_load_split] checks
     the copy by conversion *)
  Definition loaded_of (s : fs) : res serr istate :=
    match fget s PIndex with
    | None => Ok empty_istate
    | Some f =>
      match fdata f with
      | [] => Err EEmptyIndex
      | data =>
        match dec_snapshot data with
        | Err _ => Err EDecodeIndex
        | Ok (ver, es) =>
          match load_entries cmp (c_kt cfg) ver es with
          | None => Err EDecodeKey
          | Some st => Ok (recompute_stats st (len data))
          end
        end
      end
    end.

  Definition load_tail (pre : bool) (s : fs) (st0 : istate) : M (res serr mem) :=
    let c := lpv st0 in
    match replay_segments H cfg c s (sort_ids (wal_ids s)) st0 c 0 with
    | Err e => ret (Err e)
    | Ok (st, highest, cnt) =>
      let nv := highest + 1 in
      let target := (nv - 1) / c_n cfg in
      do! r <- (match fget s (PWal target) with
            | Some _ => ret (Ok tt)
            | None => do! x <- do_call (CCreate (PWal target)) ;;
                      match x with Err e => ret (Err e) | Ok _ => do_call (CSync (PWal target)) end
            end) ;;
      match r with
      | Err _ => ret (Err EWalIo)
      | Ok _ =>
        let m := mkMem st (mkWal nv None) pre in
        if 0 <? cnt then
          do! rc <- checkpoint_inner cfg RAfterReplay m ;;
          match rc with (Ok _, m') => ret (Ok m') | (Err e, _) => ret (Err e) end
        else ret (Ok m)
      end
    end.

  Lemma index_load_split : forall pre w,
    index_load H cfg pre w =
    match loaded_of (wfs w) with
    | Err e => (Err e, w)
    | Ok st0 => load_tail pre (wfs w) st0 w
    end.
  Proof.
    intros pre w. unfold index_load, loaded_of, load_tail. unfold bind at 1, get_fs at 1.
    cbv zeta.
    destruct (fget (wfs w) PIndex) as [f|]; [|reflexivity].
    destruct (fdata f) as [|b l]; [reflexivity|].
    destruct (dec_snapshot (b :: l)) as [[ver es]|e]; [|reflexivity].
    destruct (load_entries _ _ ver es); reflexivity.
  Qed.

  Lemma enc_snapshot_cons : forall v es, exists b l, enc_snapshot v es = b :: l.
  Proof. intros. unfold enc_snapshot, u64. cbn [le_enc app]. eauto. Qed.

  (* the snapshot (if any) loads to the state it was written from *)
  Lemma loaded_ok : forall c nv sb pre s sg ids rf sf km_c ops,
    DiskW c nv sb pre (fdat s) sg ids rf sf km_c ops ->
    exists st0, loaded_of s = Ok st0 /\ IdxInv cmp st0 /\ km st0 = km_c /\ lpv st0 = c /\
      ssz st0 = match fdat s PIndex with Some d => len d | None => 0 end.
  Proof.
    intros c nv sb pre s sg ids rf sf km_c ops Dw. pose proof Dw as [].
    unfold loaded_of. unfold snap_ok in dw_snap.
    destruct (fdat s PIndex) as [d|] eqn:G.
    - destruct dw_snap as [Pos ->]. apply fdat_some in G. destruct G as (f & G & Df).
      rewrite G, Df. destruct (enc_snapshot_cons c km_c) as (b & l & Es). rewrite Es.
      cbv beta iota zeta. rewrite <- Es.
      destruct dw_kmc as (Sk & Hs & Fa & Ln).
      rewrite dec_enc_snapshot_nil; [|lia|exact Ln|].
      2:{ eapply Forall_impl; [|exact Fa]. intros e [X _]. exact X. }
      destruct (C12_load_sorted cmp (key_cmp_refl _) (key_cmp_eq _) (key_cmp_antisym _)
                  (key_cmp_trans _) (c_kt cfg) c km_c Sk) as (st & El & Ks & Ls & _).
      { intros e Ie. rewrite Forall_forall in Fa. now apply Fa. }
      rewrite El. eexists. split; [reflexivity|]. split; [|split; [exact Ks|split; [exact Ls|reflexivity]]].
      eapply (C12_load_recompute cmp (key_cmp_refl _) (key_cmp_eq _) (key_cmp_antisym _)
                (key_cmp_trans _)); [exact El|]. now rewrite Ks.
    - destruct dw_snap as [-> ->]. apply fdat_none in G. rewrite G. exists empty_istate.
      split; [reflexivity|]. split; [apply C12_empty|]. repeat split.
  Qed.

  Lemma load_tail_ok : forall c nv pre sg ids rf sf km_c ops st0 w,
    wfault w = None -> FsWf (wfs w) ->
    DiskW c nv (seg_of (nv - 1)) pre (fdat (wfs w)) sg ids rf sf km_c ops ->
    sorted cmp sg -> NoCollide (map snd sg) ->
    IdxInv cmp st0 -> km st0 = km_c -> lpv st0 = c ->
    ssz st0 = match fdat (wfs w) PIndex with Some d => len d | None => 0 end ->
    exists m' w', load_tail pre (wfs w) st0 w = (Ok m', w') /\ Eff w w' /\
      nextv (mwal m') = nv /\ writer (mwal m') = None /\ mpre m' = pre /\
      km (idx m') = km_of sg /\ IdxInv cmp (idx m') /\
      DiskOk m' (wfs w') sg /\
      (forall q, ~ is_meta q -> fdat (wfs w') q = fdat (wfs w) q) /\
      ssz (idx m') = match fdat (wfs w') PIndex with Some d => len d | None => 0 end.
  Proof.
    intros c nv pre sg ids rf sf km_c ops st0 w F Wf Dw Ss Nc Iv0 K0 L0 Z0.
    unfold load_tail. cbv zeta. rewrite L0.
    destruct (replay_ok c nv _ pre (wfs w) sg ids rf sf km_c ops st0 Wf Dw Iv0 K0)
      as (st & E & Iv & K & L & Z).
    rewrite E. cbv beta iota.
    assert (Nv1 : 1 <= nv) by (rewrite (dw_nv _ _ _ _ _ _ _ _ _ _ _ _ _ Dw); lia).
    replace (nv - 1 + 1) with nv by lia.
    change ((nv - 1) / c_n cfg) with (seg_of nv). set (t := seg_of nv).
    assert (D0 : DiskOkW c nv (seg_of (nv - 1)) pre (fdat (wfs w)) sg)
      by (exists ids, rf, sf, km_c, ops; exact Dw).
    assert (P1 : exists w1,
      (match fget (wfs w) (PWal t) with
       | Some _ => ret (Ok tt)
       | None => do! x <- do_call (CCreate (PWal t)) ;;
                 match x with Err e => ret (Err e) | Ok _ => do_call (CSync (PWal t)) end
       end) w = (Ok tt, w1) /\ Eff w w1 /\
      DiskOkW c nv (seg_of (nv - 1)) pre (fdat (wfs w1)) sg /\
      (forall q, not_wal q -> fdat (wfs w1) q = fdat (wfs w) q)).
    { destruct (fget (wfs w) (PWal t)) as [f|] eqn:G.
      - exists w. split; [reflexivity|]. split; [now apply eff_refl|]. split; [exact D0|auto].
      - destruct (x_create w (PWal t) F Wf eq_refl) as (w5 & E5 & X5 & V5).
        pose proof X5 as (F5 & W5 & _).
        destruct (x_sync w5 (PWal t) [] F5 W5) as (w6 & E6 & X6 & V6).
        { now rewrite V5, vset_same. }
        exists w6. rewrite (bind_eq _ _ _ _ _ E5). split; [exact E6|].
        split; [eapply eff_trans; eassumption|]. split.
        + eapply (V_add_seg H H_len H_byte cfg n_pos); [exact D0| | |].
          * now apply fdat_none.
          * fold t. now rewrite V6, V5, vset_same.
          * intros q Nq. rewrite V6, V5. now apply vset_other.
        + intros q Nq. rewrite V6, V5. apply vset_other. intros ->. exact Nq. }
    destruct P1 as (w1 & E1 & X1 & D1 & N1). rewrite (bind_eq _ _ _ _ _ E1).
    pose proof X1 as (F1 & W1 & _).
    set (m1 := mkMem st (mkWal nv None) pre).
    assert (Dm1 : DiskOkW (lpv (idx m1)) (nextv (mwal m1)) (seg_of (nv - 1)) (mpre m1)
                    (fdat (wfs w1)) sg).
    { unfold m1. cbn [idx mwal mpre nextv]. now rewrite L, L0. }
    destruct ops as [|o ops'] eqn:Eo.
    - cbn [length N.of_nat]. change (0 <? 0) with false. cbv iota.
      specialize (Z eq_refl). subst st.
      exists m1, w1. split; [reflexivity|]. split; [exact X1|].
      unfold m1. cbn [idx mwal mpre nextv writer]. repeat (split; [reflexivity|]).
      split; [exact K|]. split; [exact Iv|]. split; [|split].
      + unfold DiskInv.DiskOk. cbn [idx mwal mpre nextv]. now rewrite L0.
      + intros q Nq. apply N1. destruct q; try exact I. apply Nq. exact I.
      + rewrite N1 by exact I. exact Z0.
    - replace (0 <? N.of_nat (length (o :: ops'))) with true by (cbn [length]; lia). cbv iota.
      destruct (ck_disk H H_len H_byte cfg n_pos RAfterReplay m1 _ sg w1 F1 W1 Dm1)
        as (m' & w2 & E2 & X2 & D2 & K2 & R2 & U2 & T2 & Wl2 & P2 & N2 & Sz2); try assumption.
      rewrite (bind_eq _ _ _ _ _ E2).
      exists m', w2. split; [reflexivity|]. split; [eapply eff_trans; eassumption|].
      rewrite Wl2, P2. unfold m1. cbn [idx mwal mpre nextv writer].
      repeat (split; [reflexivity|]).
      split; [rewrite K2; exact K|]. split.
      { eapply (IdxInv_ext cfg); [exact K2|exact R2|exact U2|exact T2|exact Iv]. }
      split; [|split].
      + unfold DiskInv.DiskOk. rewrite Wl2, P2. exact D2.
      + intros q Nq. rewrite N2 by exact Nq. apply N1. destruct q; try exact I. apply Nq. exact I.
      + destruct Sz2 as (_ & d & Gd & Sd); [discriminate| |].
        * unfold m1. cbn [mwal nextv]. rewrite (dw_nv _ _ _ _ _ _ _ _ _ _ _ _ _ Dw).
          cbn [length]. lia.
        * now rewrite Gd.
  Qed.

  (* Index::load on a well-formed disk *)
  Lemma index_load_ok : forall c nv pre sg w,
    wfault w = None -> FsWf (wfs w) ->
    DiskOkW c nv (seg_of (nv - 1)) pre (fdat (wfs w)) sg ->
    sorted cmp sg -> NoCollide (map snd sg) ->
    exists m' w', index_load H cfg pre w = (Ok m', w') /\ Eff w w' /\
      nextv (mwal m') = nv /\ writer (mwal m') = None /\ mpre m' = pre /\
      km (idx m') = km_of sg /\ IdxInv cmp (idx m') /\
      DiskOk m' (wfs w') sg /\
      (forall q, ~ is_meta q -> fdat (wfs w') q = fdat (wfs w) q) /\
      ssz (idx m') = match fdat (wfs w') PIndex with Some d => len d | None => 0 end.
  Proof.
    intros c nv pre sg w F Wf (ids & rf & sf & km_c & ops & Dw) Ss Nc.
    rewrite index_load_split.
    destruct (loaded_ok _ _ _ _ _ _ _ _ _ _ _ Dw) as (st0 & El & Iv0 & K0 & L0 & Z0).
    rewrite El. now apply (load_tail_ok c nv pre sg ids rf sf km_c ops).
  Qed.

  (* ---------------------------------------------------------------- *)
  (* R4. close, open, restart                                          *)
  (* ---------------------------------------------------------------- *)
  Lemma close_ok : forall m w, wal_ok cfg m (wfs w) -> wfault w = None -> FsWf (wfs w) ->
    exists w1, close m w = (tt, w1) /\ Eff w w1 /\ forall q, fdat (wfs w1) q = fdat (wfs w) q.
  Proof.
    intros m w Hw F Wf. apply wal_ok_fdat in Hw. unfold close.
    destruct (writer (mwal m)) as [[s0 b]|].
    - destruct Hw as (-> & G & _). destruct (fdat (wfs w) (PWal s0)) as [d|] eqn:Gd; [|contradiction].
      destruct (x_writer_close s0 d w F Wf Gd) as (w1 & E1 & X1 & V1).
      exists w1. rewrite (bind_eq _ _ _ _ _ E1). now split.
    - exists w. split; [reflexivity|]. split; [now apply eff_refl|auto].
  Qed.

  Lemma mkdir_p_exists : forall d w, has_dir (wfs w) d = true -> mkdir_p d w = (Ok tt, w).
  Proof. intros d w Hd. unfold mkdir_p, bind, get_fs. now rewrite Hd. Qed.

  (* open_with_recover on an initialised, well-formed directory *)
  Lemma open_ok : forall c nv pre sg w,
    wfault w = None -> FsWf (wfs w) ->
    has_dir (wfs w) [s_staging] = true -> has_dir (wfs w) [s_cas] = true ->
    DiskOkW c nv (seg_of (nv - 1)) pre (fdat (wfs w)) sg ->
    sorted cmp sg -> NoCollide (map snd sg) ->
    exists m' os w', open_with_recover H cfg w = (Ok (m', os), w') /\ Eff w w' /\
      nextv (mwal m') = nv /\ writer (mwal m') = None /\ mpre m' = pre /\
      km (idx m') = km_of sg /\ IdxInv cmp (idx m') /\
      DiskOk m' (wfs w') sg /\
      (forall q, ~ is_meta q -> q <> PLock -> fdat (wfs w') q = fdat (wfs w) q) /\
      ssz (idx m') = match fdat (wfs w') PIndex with Some d => len d | None => 0 end.
  Proof.
    intros c nv pre sg w F Wf Hs Hc D Ss Nc. unfold open_with_recover.
    rewrite (bind_eq _ _ _ _ _ (mkdir_p_exists _ _ Hs)).
    rewrite (bind_eq _ _ _ _ _ (mkdir_p_exists _ _ Hc)).
    destruct (x_create w PLock F Wf eq_refl) as (w3 & E3 & X3 & V3).
    rewrite (bind_eq _ _ _ _ _ E3). pose proof X3 as (F3 & W3 & _).
    assert (D3 : DiskOkW c nv (seg_of (nv - 1)) pre (fdat (wfs w3)) sg).
    { eapply (DiskOkW_ext H cfg); [| | |exact D]; intros; rewrite V3; now apply vset_other. }
    pose proof D3 as (ids & rf & sf & km_c & ops & Dw).
    destruct (dw_settings _ _ _ _ _ _ _ _ _ _ _ _ _ Dw) as (d & Gs & Es).
    apply fdat_some in Gs. destruct Gs as (f & Gf & Df).
    unfold bind at 1, read_file at 1. rewrite Gf, Df, Es.
    rewrite !N.eqb_refl. cbn [negb].
    rewrite (bind_eq _ _ _ _ _ (eq_refl : ret (Ok pre) w3 = (Ok pre, w3))).
    destruct (index_load_ok c nv pre sg w3 F3 W3 D3 Ss Nc)
      as (m' & w' & E' & X' & P1 & P2 & P3 & P4 & P5 & P6 & P7 & P8).
    rewrite (bind_eq _ _ _ _ _ E'). unfold bind, get_fs, ret.
    eexists m', _, w'. split; [reflexivity|]. split; [eapply eff_trans; eassumption|].
    repeat (split; [assumption|]). split; [|exact P8].
    intros q Nq Nl. rewrite P7 by exact Nq. rewrite V3. now apply vset_other.
  Qed.

  (* F3: C02 for one restart.  Closing the handle and opening the store again (same
     configuration, no fault) succeeds; key map, reference counts, statistics and next version
     are those of the closed handle; all invariants hold for the new handle; the index size
     statistic is the length of the index file *)
  Theorem restart_ok : forall m s sg w,
    Inv m s sg -> wfs w = s -> wfault w = None ->
    exists w1 m' os w',
      close m w = (tt, w1) /\ open_with_recover H cfg w1 = (Ok (m', os), w') /\
      wfault w' = None /\
      km (idx m') = km (idx m) /\ rc (idx m') = rc (idx m) /\
      ub (idx m') = ub (idx m) /\ tb (idx m') = tb (idx m) /\
      nextv (mwal m') = nextv (mwal m) /\
      Inv m' (wfs w') sg /\
      ssz (idx m') = match fget (wfs w') PIndex with Some f => len (fdata f) | None => 0 end.
  Proof.
    intros m s sg w (L & D & Wf) Ws F. subst s.
    pose proof L as [Ssg Hkm Hidx Hnc Hcas Hst Hdirs Hwal].
    destruct (close_ok m w Hwal F Wf) as (w1 & E1 & X1 & V1).
    pose proof X1 as (F1 & W1 & Dr1 & Ns1).
    destruct Hdirs as (Hd1 & Hd2 & Hd3).
    destruct (open_ok (lpv (idx m)) (nextv (mwal m)) (mpre m) sg w1 F1 W1)
      as (m' & os & w' & E' & X' & P1 & P2 & P3 & P4 & P5 & P6 & P7 & P8); try assumption.
    { unfold has_dir. now rewrite Dr1. }
    { unfold has_dir. now rewrite Dr1. }
    { eapply (DiskOkW_ext H cfg); [| | |exact D]; intros; apply V1. }
    pose proof X' as (F' & W' & Dr' & Ns').
    destruct (IdxInv_unique (idx m') (idx m) P5 Hidx) as (R1 & R2 & R3); [congruence|].
    exists w1, m', os, w'. split; [exact E1|]. split; [exact E'|]. split; [exact F'|].
    split; [congruence|]. split; [exact R1|]. split; [exact R2|]. split; [exact R3|].
    split; [exact P1|]. split; [split; [|split; assumption]|].
    - assert (Fr : forall q, ~ is_meta q -> q <> PLock -> fdat (wfs w') q = fdat (wfs w) q).
      { intros q A B. now rewrite P7, V1. }
      constructor; try assumption.
      + intros k c Ik. destruct (Hcas k c Ik) as (f & Gf & Df). apply fdat_some.
        rewrite Fr; [|intros X; exact X|discriminate]. apply fdat_some. now exists f.
      + intros i Li. apply fdat_none. rewrite Fr; [|intros X; exact X|discriminate].
        apply fdat_none, Hst. rewrite <- Ns1, <- Ns'. exact Li.
      + unfold dirs_ok, parent_ok, has_dir in *. rewrite Dr', Dr1, P3. auto.
      + destruct Hwal as [N1 _]. split; [lia|]. now rewrite P2.
    - rewrite P8. unfold fdat. destruct (fget (wfs w') PIndex); reflexivity.
  Qed.

  (* ---------------------------------------------------------------- *)
  (* R5. the first open of an empty directory                          *)
  (* ---------------------------------------------------------------- *)
  (* F1 (the settings file stores num_ops_per_wal as a u64, hence the bound on c_n) *)
  Theorem open_fresh_disk : c_pre cfg = false -> c_n cfg < 2 ^ 64 ->
    exists m os w', open_with_recover H cfg (init_world empty_fs None) = (Ok (m, os), w') /\
      wfault w' = None /\ Inv m (wfs w') [] /\ Clean H (wfs w') [] /\ CasNamed H (wfs w') /\
      nextv (mwal m) = 1.
  Proof.
    intros Pre Nfit.
    destruct (open_fresh H cfg n_pos Pre) as (m & os & w' & E & F' & L & C & N & Wf).
    exists m, os, w'. split; [exact E|]. split; [exact F'|].
    set (w0 := init_world empty_fs None) in *. unfold open_with_recover in E.
    destruct (mkdir_p_ok [s_staging] w0 eq_refl (or_introl eq_refl)) as (w1 & E1 & G1 & D1).
    rewrite (bind_eq _ _ _ _ _ E1) in E.
    destruct (mkdir_p_ok [s_cas] w1 (proj1 (gr_ext _ _ G1)) (or_introl eq_refl)) as (w2 & E2 & G2 & D2).
    rewrite (bind_eq _ _ _ _ _ E2) in E.
    pose proof (grow_trans _ _ _ G1 G2) as G02.
    assert (Fl2 : files (wfs w2) = []) by (rewrite (gr_files _ _ G02); reflexivity).
    assert (W2 : FsWf (wfs w2)) by (unfold FsWf; rewrite Fl2; constructor).
    assert (G2n : forall q, fdat (wfs w2) q = None) by (intros q; unfold fdat, fget; now rewrite Fl2).
    destruct (x_create w2 PLock (proj1 (gr_ext _ _ G2)) W2 eq_refl) as (w3 & E3 & X3 & V3).
    rewrite (bind_eq _ _ _ _ _ E3) in E. pose proof X3 as (F3 & W3 & _).
    assert (G3s : fget (wfs w3) PSettings = None).
    { apply fdat_none. rewrite V3, vset_other by discriminate. apply G2n. }
    unfold bind at 1, read_file at 1 in E. rewrite G3s, Pre in E.
    destruct (atomic_write_ok PSettings PSettingsTmp (enc_settings CURRENT_DB_VERSION false (c_n cfg))
                w3 F3 eq_refl eq_refl) as (w4 & E4 & S4 & G4).
    match type of E with (bind ?X _) _ = _ => assert (ERS : X w3 = (Ok false, w4)) end.
    { unfold bind at 1. cbn [ret]. rewrite (bind_eq _ _ _ _ _ E4). reflexivity. }
    rewrite (bind_eq _ _ _ _ _ ERS) in E.
    pose proof (step_eff _ _ _ _ W3 S4) as X4. pose proof X4 as (F4 & W4 & _).
    assert (G4n : forall q, q <> PLock -> q <> PSettings -> q <> PSettingsTmp ->
                            fdat (wfs w4) q = None).
    { intros q N1 N2 N3. rewrite (step_fdat _ _ _ _ q S4) by (intros [X|X]; contradiction).
      rewrite V3, vset_other by exact N1. apply G2n. }
    assert (D4 : DiskOkW 0 1 (seg_of (1 - 1)) false (fdat (wfs w4)) []).
    { exists [], (fun _ => []), (fun _ => false), [], []. constructor.
      - split; [cbn [length]; pow_consts; lia|constructor].
      - eexists. split; [apply fdat_some; exact G4|].
        apply dec_settings_enc; [unfold CURRENT_DB_VERSION; pow_consts; lia|exact Nfit].
      - unfold snap_ok. rewrite G4n by discriminate. now split.
      - split; [exact I|]. split; [intros k1 k2 i1 i2 []|]. split; [constructor|].
        cbn [length]. pow_consts. lia.
      - exact I.
      - intros i [].
      - intros i _. apply G4n; discriminate.
      - intros i [].
      - reflexivity.
      - reflexivity.
      - pow_consts. lia.
      - constructor.
      - exact I.
      - reflexivity. }
    destruct (index_load_ok 0 1 false [] w4 F4 W4 D4 I)
      as (m2 & w5 & E5 & X5 & P1 & P2 & P3 & P4 & P5 & P6 & P7 & P8).
    { intros a b []. }
    rewrite (bind_eq _ _ _ _ _ E5) in E.
    unfold bind, get_fs, ret in E. inversion E; subst m w'.
    split; [|split; [exact C|split; [exact N|exact P1]]].
    split; [exact L|]. split; [exact P6|exact Wf].
  Qed.
End Recover.

Print Assumptions restart_ok.
Print Assumptions open_fresh_disk.
