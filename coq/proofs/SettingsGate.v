(* SettingsGate.v -- C19: the settings / format-version gate of open_with_recover / open_store
   (fault-free worlds): a wrong num_ops_per_wal, a wrong format version or an unparsable
   settings file is rejected before anything is modified; the only recorded call is the
   (idempotent) creation of the LOCK file; a rejected open is invisible to later programs;
   a matching open takes `pre` from the STORED settings; first-time creation stores the
   configured choice. *)
From Cas Require Import History.
From CasProofs Require Import BaseProofs SMapProofs IndexProofs StoreFS StoreInv StoreWrite StoreHist WorldRel.
From Coq Require Import ZifyBool ZifyNat ZifyN.
Open Scope N_scope.

Arguments N.add : simpl never.
Arguments N.sub : simpl never.
Arguments N.mul : simpl never.
Arguments N.div : simpl never.
Arguments N.modulo : simpl never.
Arguments N.eqb : simpl never.
Arguments N.ltb : simpl never.
Arguments N.leb : simpl never.
Arguments N.pow : simpl never.

(* ------------------------------------------------------------------ *)
(* 0. small filesystem facts                                           *)
(* ------------------------------------------------------------------ *)
Lemma set_path_same : forall l p f, lookup l p = Some f -> set_path l p f = l.
Proof.
  induction l as [|[q g] l IH]; intros p f E; cbn [lookup set_path] in *; [discriminate|].
  destruct (path_eqb p q) eqn:Q.
  - now inversion E.
  - now rewrite IH.
Qed.

Lemma with_files_same : forall s, with_files s (files s) = s.
Proof. now intros [fl ds ns]. Qed.

Lemma upd_same : forall s p f, fget s p = Some f -> upd s p f = s.
Proof. intros s p f E. unfold upd. rewrite set_path_same by exact E. apply with_files_same. Qed.

(* the settings encoding round-trips (version in 4 bytes, n in 8 bytes) *)
Lemma settings_roundtrip : forall v pre n, v < 2 ^ 32 -> n < 2 ^ 64 ->
  dec_settings (enc_settings v pre n) = Some (v, pre, n).
Proof.
  intros v pre n Hv Hn. unfold dec_settings, enc_settings.
  rewrite (take_app 4 (u32 v)) by apply length_u32. cbn [app].
  rewrite <- (app_nil_r (u64 n)), (take_app 8 (u64 n)) by apply length_u64.
  unfold u32, u64. rewrite !le_dec_le_enc.
  change (256 ^ N.of_nat 4) with (2 ^ 32). change (256 ^ N.of_nat 8) with (2 ^ 64).
  rewrite !N.mod_small by assumption. now destruct pre.
Qed.

(* a directory that was opened before: both top-level directories exist, LOCK exists, empty *)
Definition gate_ready (s : fs) : Prop :=
  has_dir s [s_staging] = true /\ has_dir s [s_cas] = true /\ fget s PLock = Some (mkFile [] 0).

Definition fs_same (s s' : fs) : Prop :=
  files s' = files s /\ dirs s' = dirs s /\ nstage s' = nstage s.

Lemma fs_same_eq : forall s s', fs_same s s' <-> s' = s.
Proof.
  intros [a b c] [a' b' c']. unfold fs_same. cbn [files dirs nstage]. split.
  - intros (-> & -> & ->). reflexivity.
  - intros E. inversion E. auto.
Qed.

(* creating the LOCK file of a directory that was opened before changes nothing *)
Lemma create_lock_noop : forall s, gate_ready s -> apply_call (CCreate PLock) s = Ok s.
Proof.
  intros s (_ & _ & L). cbn [apply_call parent_ok parent_dir].
  change (with_files s (set_path (files s) PLock (mkFile [] 0))) with (upd s PLock (mkFile [] 0)).
  now rewrite upd_same.
Qed.

(* the world after the (only) recorded call of a gate-ready open *)
Definition w_locked (w : world) : world :=
  mkWorld (wfs w) (TCall (CCreate PLock) :: wtrace w) (S (wcount w)) None.

(* ------------------------------------------------------------------ *)
(* 1. open_with_recover = mkdirs ; lock ; settings gate ; index load   *)
(* ------------------------------------------------------------------ *)
Section Gate.
  Variable H : bytes -> bytes.
  Variable cfg : config.

  (* the settings part of open_with_recover: returns `pre` *)
  Definition settings_gate : M (res serr bool) :=
    do! sf <- read_file PSettings ;;
    match sf with
    | Some data =>
      match dec_settings data with
      | None => ret (Err ESettingsParse)
      | Some (ver, pre, n) =>
        if negb (ver =? CURRENT_DB_VERSION) then ret (Err ESettingsVersion)
        else if negb (n =? c_n cfg) then ret (Err ESettingsN)
        else ret (Ok pre)
      end
    | None =>
      do! r <- (if c_pre cfg then pre_create_all else ret (Ok tt)) ;;
      match r with Err _ => ret (Err ECasDir) | Ok _ =>
      do! r <- atomic_write PSettings PSettingsTmp
             (enc_settings CURRENT_DB_VERSION (c_pre cfg) (c_n cfg)) ;;
      match r with Err _ => ret (Err ESettingsWrite) | Ok _ => ret (Ok (c_pre cfg)) end
      end
    end.

  (* what follows the gate *)
  Definition open_load (pre : bool) : M (res serr (mem * option ostats)) :=
    do! rm <- index_load H cfg pre ;;
    match rm with Err e => ret (Err e) | Ok m =>
    do! s <- get_fs ;;
    ret (Ok (m, if c_scan cfg then Some (scan_orphans H m s (c_verify cfg)) else None))
    end.

  Definition open_tail : M (res serr (mem * option ostats)) :=
    do! rs <- settings_gate ;;
    match rs with Err e => ret (Err e) | Ok pre => open_load pre end.

  Definition open_front : M (res serr unit) :=
    do! r <- mkdir_p [s_staging] ;;
    match r with Err _ => ret (Err EStagingDir) | Ok _ =>
    do! r <- mkdir_p [s_cas] ;;
    match r with Err _ => ret (Err ECasDir) | Ok _ =>
    do! r <- do_call (CCreate PLock) ;;
    match r with Err _ => ret (Err ELockFile) | Ok _ => ret (Ok tt) end end end.

  (* the factorisation holds in every world (any fault plan) *)
  Lemma open_with_recover_factor : forall w,
    open_with_recover H cfg w =
    (do! r <- open_front ;; match r with Err e => ret (Err e) | Ok _ => open_tail end) w.
  Proof.
    intros w. unfold open_with_recover, open_front, open_tail, settings_gate, open_load, bind.
    destruct (mkdir_p [s_staging] w) as [[u|e] w1]; [|reflexivity].
    destruct (mkdir_p [s_cas] w1) as [[u2|e] w2]; [|reflexivity].
    destruct (do_call (CCreate PLock) w2) as [[u3|e] w3]; [|reflexivity].
    unfold ret. destruct (read_file PSettings w3) as [[data|] w4]; reflexivity.
  Qed.

  Lemma mkdir_p_present : forall d w, has_dir (wfs w) d = true -> mkdir_p d w = (Ok tt, w).
  Proof. intros d w E. unfold mkdir_p, bind, get_fs. now rewrite E. Qed.

  Lemma open_front_ready : forall w, gate_ready (wfs w) -> wfault w = None ->
    open_front w = (Ok tt, w_locked w).
  Proof.
    intros w G F. pose proof G as (D1 & D2 & L). unfold open_front.
    rewrite (bind_eq _ _ _ _ _ (mkdir_p_present _ _ D1)).
    rewrite (bind_eq _ _ _ _ _ (mkdir_p_present _ _ D2)).
    rewrite (bind_eq _ _ _ _ _ (do_call_ok _ _ _ F (create_lock_noop _ G))).
    reflexivity.
  Qed.

  (* in a directory that was opened before, open_with_recover is: record CCreate PLock
     (filesystem unchanged), then the settings gate and the index load *)
  Theorem open_gate_ready : forall w, gate_ready (wfs w) -> wfault w = None ->
    open_with_recover H cfg w = open_tail (w_locked w).
  Proof.
    intros w G F. rewrite open_with_recover_factor.
    now rewrite (bind_eq _ _ _ _ _ (open_front_ready w G F)).
  Qed.

  Lemma read_settings : forall w f, fget (wfs w) PSettings = Some f ->
    read_file PSettings (w_locked w) = (Some (fdata f), w_locked w).
  Proof. intros w f E. unfold read_file. cbn [w_locked wfs]. now rewrite E. Qed.

  (* the gate itself, on stored settings *)
  Lemma settings_gate_stored : forall w f, fget (wfs w) PSettings = Some f ->
    settings_gate (w_locked w) =
    (match dec_settings (fdata f) with
     | None => Err ESettingsParse
     | Some (ver, pre, n) =>
       if negb (ver =? CURRENT_DB_VERSION) then Err ESettingsVersion
       else if negb (n =? c_n cfg) then Err ESettingsN else Ok pre
     end, w_locked w).
  Proof.
    intros w f E. unfold settings_gate. rewrite (bind_eq _ _ _ _ _ (read_settings w f E)).
    destruct (dec_settings (fdata f)) as [[[ver pre] n]|]; [|reflexivity].
    destruct (negb (ver =? CURRENT_DB_VERSION)); [reflexivity|].
    destruct (negb (n =? c_n cfg)); reflexivity.
  Qed.

  Lemma gate_rejects : forall w f e, gate_ready (wfs w) -> wfault w = None ->
    fget (wfs w) PSettings = Some f ->
    fst (settings_gate (w_locked w)) = Err e ->
    open_with_recover H cfg w = (Err e, w_locked w) /\ open_store H cfg w = (Err e, w_locked w).
  Proof.
    intros w f e G F E R.
    assert (X : open_with_recover H cfg w = (Err e, w_locked w)).
    { rewrite (open_gate_ready w G F). pose proof (settings_gate_stored w f E) as SG.
      rewrite SG in R. cbn [fst] in R. unfold open_tail, bind. rewrite SG, R. reflexivity. }
    split; [exact X|]. unfold open_store. now rewrite (bind_eq _ _ _ _ _ X).
  Qed.

  Lemma gate_wrong_n : forall w f pre n, fget (wfs w) PSettings = Some f ->
    dec_settings (fdata f) = Some (CURRENT_DB_VERSION, pre, n) -> n <> c_n cfg ->
    fst (settings_gate (w_locked w)) = Err ESettingsN.
  Proof.
    intros w f pre n Fs D Nn. rewrite (settings_gate_stored w f Fs), D. cbn [fst].
    rewrite N.eqb_refl. cbn [negb]. apply N.eqb_neq in Nn. now rewrite Nn.
  Qed.

  Lemma gate_wrong_version : forall w f v pre n, fget (wfs w) PSettings = Some f ->
    dec_settings (fdata f) = Some (v, pre, n) -> v <> CURRENT_DB_VERSION ->
    fst (settings_gate (w_locked w)) = Err ESettingsVersion.
  Proof.
    intros w f v pre n Fs D Nv. rewrite (settings_gate_stored w f Fs), D. cbn [fst].
    apply N.eqb_neq in Nv. now rewrite Nv.
  Qed.

  Lemma gate_unparsable : forall w f, fget (wfs w) PSettings = Some f ->
    dec_settings (fdata f) = None ->
    fst (settings_gate (w_locked w)) = Err ESettingsParse.
  Proof. intros w f Fs D. now rewrite (settings_gate_stored w f Fs), D. Qed.

  (* ---------------------------------------------------------------- *)
  (* J1 / J2 / J2b / J3                                                *)
  (* ---------------------------------------------------------------- *)
  Section Rejected.
    Variables (s : fs) (w : world) (f : file).
    Hypothesis Ws : wfs w = s.
    Hypothesis Wf : wfault w = None.
    Hypothesis Gr : gate_ready s.
    Hypothesis Fs : fget s PSettings = Some f.

    Let Fs' : fget (wfs w) PSettings = Some f.
    Proof. now rewrite Ws. Qed.

    Let concl (e : serr) (prog : M (res serr (mem * option ostats))) : Prop :=
      exists w', prog w = (Err e, w') /\ wfs w' = s /\ wfault w' = None /\
                 wtrace w' = [TCall (CCreate PLock)] ++ wtrace w /\ wcount w' = S (wcount w).

    Lemma rejected_concl : forall e, fst (settings_gate (w_locked w)) = Err e ->
      concl e (open_with_recover H cfg) /\ concl e (open_store H cfg).
    Proof.
      intros e R. subst s. destruct (gate_rejects w f e Gr Wf Fs R) as [X Y].
      split; exists (w_locked w); (split; [assumption|]); repeat split.
    Qed.

    (* J1 *)
    Theorem C19_wrong_n : forall pre n,
      dec_settings (fdata f) = Some (CURRENT_DB_VERSION, pre, n) -> n <> c_n cfg ->
      exists w', open_with_recover H cfg w = (Err ESettingsN, w') /\ wfs w' = s /\ wfault w' = None.
    Proof.
      intros pre n D Nn. destruct (rejected_concl _ (gate_wrong_n w f pre n Fs' D Nn)) as [(w' & A & B & C & _) _].
      now exists w'.
    Qed.
    Theorem C19_wrong_n_open_store : forall pre n,
      dec_settings (fdata f) = Some (CURRENT_DB_VERSION, pre, n) -> n <> c_n cfg ->
      exists w', open_store H cfg w = (Err ESettingsN, w') /\ wfs w' = s /\ wfault w' = None.
    Proof.
      intros pre n D Nn. destruct (rejected_concl _ (gate_wrong_n w f pre n Fs' D Nn)) as [_ (w' & A & B & C & _)].
      now exists w'.
    Qed.

    (* J2 *)
    Theorem C19_wrong_version : forall v pre n,
      dec_settings (fdata f) = Some (v, pre, n) -> v <> CURRENT_DB_VERSION ->
      exists w', open_with_recover H cfg w = (Err ESettingsVersion, w') /\ wfs w' = s /\ wfault w' = None.
    Proof.
      intros v pre n D Nv.
      destruct (rejected_concl _ (gate_wrong_version w f v pre n Fs' D Nv)) as [(w' & A & B & C & _) _].
      now exists w'.
    Qed.
    Theorem C19_wrong_version_open_store : forall v pre n,
      dec_settings (fdata f) = Some (v, pre, n) -> v <> CURRENT_DB_VERSION ->
      exists w', open_store H cfg w = (Err ESettingsVersion, w') /\ wfs w' = s /\ wfault w' = None.
    Proof.
      intros v pre n D Nv.
      destruct (rejected_concl _ (gate_wrong_version w f v pre n Fs' D Nv)) as [_ (w' & A & B & C & _)].
      now exists w'.
    Qed.

    (* J2b *)
    Theorem C19_unparsable : dec_settings (fdata f) = None ->
      exists w', open_with_recover H cfg w = (Err ESettingsParse, w') /\ wfs w' = s /\ wfault w' = None.
    Proof.
      intros D. destruct (rejected_concl _ (gate_unparsable w f Fs' D)) as [(w' & A & B & C & _) _].
      now exists w'.
    Qed.
    Theorem C19_unparsable_open_store : dec_settings (fdata f) = None ->
      exists w', open_store H cfg w = (Err ESettingsParse, w') /\ wfs w' = s /\ wfault w' = None.
    Proof.
      intros D. destruct (rejected_concl _ (gate_unparsable w f Fs' D)) as [_ (w' & A & B & C & _)].
      now exists w'.
    Qed.

    (* J3: in all three rejections (both entry points) the only recorded call is CCreate PLock,
       the filesystem is unchanged, and the rejection is one of the three settings errors *)
    Theorem C19_trace : forall e,
      (exists pre n, dec_settings (fdata f) = Some (CURRENT_DB_VERSION, pre, n) /\ n <> c_n cfg /\
                     e = ESettingsN) \/
      (exists v pre n, dec_settings (fdata f) = Some (v, pre, n) /\ v <> CURRENT_DB_VERSION /\
                       e = ESettingsVersion) \/
      (dec_settings (fdata f) = None /\ e = ESettingsParse) ->
      (exists w', open_with_recover H cfg w = (Err e, w') /\ wfs w' = s /\ wfault w' = None /\
                  wtrace w' = [TCall (CCreate PLock)] ++ wtrace w /\ wcount w' = S (wcount w)) /\
      (exists w', open_store H cfg w = (Err e, w') /\ wfs w' = s /\ wfault w' = None /\
                  wtrace w' = [TCall (CCreate PLock)] ++ wtrace w /\ wcount w' = S (wcount w)).
    Proof.
      intros e [(pre & n & D & Nn & ->)|[(v & pre & n & D & Nv & ->)|(D & ->)]];
        apply rejected_concl.
      - exact (gate_wrong_n w f pre n Fs' D Nn).
      - exact (gate_wrong_version w f v pre n Fs' D Nv).
      - exact (gate_unparsable w f Fs' D).
    Qed.
  End Rejected.

  (* ---------------------------------------------------------------- *)
  (* J4: a rejected open is invisible to whatever runs next            *)
  (* ---------------------------------------------------------------- *)
  (* the stored settings are unacceptable for cfg, with the error the gate reports *)
  Definition settings_bad (f : file) (e : serr) : Prop :=
    (exists pre n, dec_settings (fdata f) = Some (CURRENT_DB_VERSION, pre, n) /\ n <> c_n cfg /\
                   e = ESettingsN) \/
    (exists v pre n, dec_settings (fdata f) = Some (v, pre, n) /\ v <> CURRENT_DB_VERSION /\
                     e = ESettingsVersion) \/
    (dec_settings (fdata f) = None /\ e = ESettingsParse).

  Lemma rejected_exact : forall w f e, gate_ready (wfs w) -> wfault w = None ->
    fget (wfs w) PSettings = Some f -> settings_bad f e ->
    open_with_recover H cfg w = (Err e, w_locked w) /\ open_store H cfg w = (Err e, w_locked w).
  Proof.
    intros w f e G F E B. apply (gate_rejects w f e G F E).
    destruct B as [(pre & n & D & Nn & ->)|[(v & pre & n & D & Nv & ->)|(D & ->)]].
    - exact (gate_wrong_n w f pre n E D Nn).
    - exact (gate_wrong_version w f v pre n E D Nv).
    - exact (gate_unparsable w f E D).
  Qed.

  (* any program that respects the filesystem (Resp: all store programs, whole histories) gives
     the same result and the same filesystem from two fault-free worlds with equal filesystems *)
  Theorem same_fs_same_run : forall {A} (k : M A) w w', Resp k ->
    wfs w' = wfs w -> wfault w = None -> wfault w' = None ->
    fst (k w') = fst (k w) /\ wfs (snd (k w')) = wfs (snd (k w)) /\
    wfault (snd (k w')) = None /\ wfault (snd (k w)) = None.
  Proof.
    intros A k w w' R E F F'. destruct (R w' w (conj E (conj F' F))) as (X & Y & Z & V). auto.
  Qed.

  Theorem C19_rejected_open_invisible : forall {A} (k : M A) w f e, Resp k ->
    gate_ready (wfs w) -> wfault w = None -> fget (wfs w) PSettings = Some f -> settings_bad f e ->
    (let w' := snd (open_with_recover H cfg w) in
     fst (k w') = fst (k w) /\ wfs (snd (k w')) = wfs (snd (k w))) /\
    (let w' := snd (open_store H cfg w) in
     fst (k w') = fst (k w) /\ wfs (snd (k w')) = wfs (snd (k w))).
  Proof.
    intros A k w f e R G F E B. destruct (rejected_exact w f e G F E B) as [X Y].
    rewrite X, Y. cbn [snd].
    destruct (same_fs_same_run k w (w_locked w) R eq_refl F eq_refl) as (P1 & P2 & _). auto.
  Qed.
End Gate.

Section Gate2.
  Variable H : bytes -> bytes.
  Variable cfg : config.

  (* J4 for a later open with any configuration cfg2 (in particular the right one), and for a
     whole later history *)
  Theorem C19_then_correct_open : forall cfg2 w f e,
    gate_ready (wfs w) -> wfault w = None -> fget (wfs w) PSettings = Some f ->
    settings_bad cfg f e ->
    let w' := snd (open_with_recover H cfg w) in
    fst (open_with_recover H cfg2 w') = fst (open_with_recover H cfg2 w) /\
    wfs (snd (open_with_recover H cfg2 w')) = wfs (snd (open_with_recover H cfg2 w)).
  Proof.
    intros cfg2 w f e G F E B.
    exact (proj1 (C19_rejected_open_invisible H cfg (open_with_recover H cfg2) w f e
                    (resp_open_with_recover H cfg2) G F E B)).
  Qed.

  Theorem C19_then_correct_open_store : forall cfg2 w f e,
    gate_ready (wfs w) -> wfault w = None -> fget (wfs w) PSettings = Some f ->
    settings_bad cfg f e ->
    let w' := snd (open_store H cfg w) in
    fst (open_store H cfg2 w') = fst (open_store H cfg2 w) /\
    wfs (snd (open_store H cfg2 w')) = wfs (snd (open_store H cfg2 w)).
  Proof.
    intros cfg2 w f e G F E B.
    exact (proj2 (C19_rejected_open_invisible H cfg (open_store H cfg2) w f e
                    (resp_open_store H cfg2) G F E B)).
  Qed.

  Theorem C19_then_any_history : forall ops hd w f e,
    gate_ready (wfs w) -> wfault w = None -> fget (wfs w) PSettings = Some f ->
    settings_bad cfg f e ->
    let w' := snd (open_with_recover H cfg w) in
    fst (run_ops H hd ops w') = fst (run_ops H hd ops w) /\
    wfs (snd (run_ops H hd ops w')) = wfs (snd (run_ops H hd ops w)).
  Proof.
    intros ops hd w f e G F E B.
    exact (proj1 (C19_rejected_open_invisible H cfg (run_ops H hd ops) w f e
                    (resp_run_ops H ops hd) G F E B)).
  Qed.

  (* ---------------------------------------------------------------- *)
  (* J5: a matching open takes `pre` from the stored settings          *)
  (* ---------------------------------------------------------------- *)
  Lemma checkpoint_inner_mpre : forall reason m w,
    mpre (snd (fst (checkpoint_inner cfg reason m w))) = mpre m.
  Proof.
    intros reason m w. unfold checkpoint_inner. cbv zeta.
    match goal with |- context [if ?b then _ else _] => destruct b end; [reflexivity|].
    unfold bind. destruct (atomic_write _ _ _ w) as [[u|e] w1]; [|reflexivity].
    match goal with |- context [let '(_, _) := ?x in _] => destruct x end. reflexivity.
  Qed.

  Lemma index_load_mpre : forall pre w m w',
    index_load H cfg pre w = (Ok m, w') -> mpre m = pre.
  Proof.
    intros pre w m w'. unfold index_load. unfold bind at 1. unfold get_fs at 1. cbv zeta.
    match goal with |- match ?x with _ => _ end _ = _ -> _ => destruct x as [st0|e] end;
      [|discriminate].
    match goal with |- match ?x with _ => _ end _ = _ -> _ => destruct x as [[[st hi] cnt]|e] end;
      [|discriminate].
    unfold bind at 1.
    match goal with |- (let '(_, _) := ?x in _) = _ -> _ => destruct x as [[u|e] w1] end;
      [|discriminate].
    destruct (0 <? cnt).
    - unfold bind.
      match goal with |- (let '(_, _) := checkpoint_inner ?c ?r ?m0 ?w0 in _) = _ -> _ =>
        pose proof (checkpoint_inner_mpre r m0 w0) as CK;
        destruct (checkpoint_inner c r m0 w0) as [[[u2|e2] m'] w2] end; [|discriminate].
      intros X. inversion X. subst. exact CK.
    - intros X. inversion X. reflexivity.
  Qed.

  Lemma open_load_unfold : forall pre w,
    open_load H cfg pre w =
    (let (r, w2) := index_load H cfg pre w in
     match r with
     | Err e => (Err e, w2)
     | Ok m => (Ok (m, if c_scan cfg then Some (scan_orphans H m (wfs w2) (c_verify cfg)) else None), w2)
     end).
  Proof.
    intros pre w. unfold open_load, bind. destruct (index_load H cfg pre w) as [[m|e] w2]; reflexivity.
  Qed.

  Lemma open_load_mpre : forall pre w m os w',
    open_load H cfg pre w = (Ok (m, os), w') -> mpre m = pre.
  Proof.
    intros pre w m os w'. rewrite open_load_unfold.
    destruct (index_load H cfg pre w) as [[m0|e] w2] eqn:E; [|discriminate].
    intros X. inversion X. subst. exact (index_load_mpre _ _ _ _ E).
  Qed.

  Section SameN.
    Variables (s : fs) (w : world) (f : file) (pre_stored : bool).
    Hypothesis Ws : wfs w = s.
    Hypothesis Wf : wfault w = None.
    Hypothesis Gr : gate_ready s.
    Hypothesis Fs : fget s PSettings = Some f.
    Hypothesis Dec : dec_settings (fdata f) = Some (CURRENT_DB_VERSION, pre_stored, c_n cfg).

    (* the gate is passed without touching the filesystem; what remains is the index load with
       the STORED pre (not c_pre cfg) *)
    Theorem C19_same_n_passes_gate :
      exists w1, wfs w1 = s /\ wfault w1 = None /\
                 wtrace w1 = [TCall (CCreate PLock)] ++ wtrace w /\
                 open_with_recover H cfg w = open_load H cfg pre_stored w1.
    Proof.
      subst s. exists (w_locked w). repeat split.
      rewrite (open_gate_ready H cfg w Gr Wf). unfold open_tail.
      pose proof (settings_gate_stored cfg w f Fs) as SG. rewrite Dec in SG.
      rewrite !N.eqb_refl in SG. cbn [negb] in SG.
      now rewrite (bind_eq _ _ _ _ _ SG).
    Qed.

    Theorem C19_same_n_opens_settings : forall m os w',
      open_with_recover H cfg w = (Ok (m, os), w') -> mpre m = pre_stored.
    Proof.
      intros m os w' E. destruct C19_same_n_passes_gate as (w1 & _ & _ & _ & X).
      rewrite X in E. exact (open_load_mpre _ _ _ _ _ E).
    Qed.

    Theorem C19_same_n_opens_settings_open_store : forall m os w',
      open_store H cfg w = (Ok (m, os), w') -> mpre m = pre_stored.
    Proof.
      intros m os w'. unfold open_store, bind.
      destruct (open_with_recover H cfg w) as [[[m0 os0]|e] w1] eqn:E; [|discriminate].
      pose proof (C19_same_n_opens_settings _ _ _ E) as X.
      destruct os0 as [o|].
      - destruct (c_failint cfg && _).
        + destruct (close m0 w1). discriminate.
        + intros Y. inversion Y. now subst.
      - intros Y. inversion Y. now subst.
    Qed.
  End SameN.

  (* ---------------------------------------------------------------- *)
  (* J6: what every successful open leaves behind (any fault plan)     *)
  (* ---------------------------------------------------------------- *)
  Lemma mkdir_p_ok_inv : forall d w u w', mkdir_p d w = (Ok u, w') -> has_dir (wfs w') d = true.
  Proof.
    intros d w u w'. unfold mkdir_p, bind, get_fs. destruct (has_dir (wfs w) d) eqn:Hd.
    - intros X. inversion X. now subst.
    - intros X. apply do_call_ok_inv in X. cbn [apply_call] in X. rewrite Hd in X.
      apply has_dir_iff.
      destruct (removelast d); [|destruct (has_dir (wfs w) (b :: l))]; inversion X;
        cbn [dirs]; apply in_or_app; right; now left.
  Qed.

  Lemma atomic_write_ok_inv : forall t tmp data w u w',
    atomic_write t tmp data w = (Ok u, w') ->
    fget (wfs w') t = Some (mkFile data (length data)).
  Proof.
    intros t tmp data w u w'. unfold atomic_write, bind.
    destruct (do_call (CCreate tmp) w) as [[u1|e] w1] eqn:E1; [|discriminate].
    destruct ((match data with [] => ret (Ok tt) | _ => do_call (CAppend tmp data) end) w1)
      as [[u2|e] w2] eqn:E2; [|discriminate].
    destruct (do_call (CSync tmp) w2) as [[u3|e] w3] eqn:E3; [|discriminate].
    intros E4. apply do_call_ok_inv in E1, E3, E4.
    cbn [apply_call] in E1. destruct (parent_ok (wfs w) tmp); inversion E1 as [S1].
    assert (G1 : fget (wfs w1) tmp = Some (mkFile [] 0)).
    { rewrite <- S1. exact (fget_upd_same _ _ _). }
    assert (G2 : fget (wfs w2) tmp = Some (mkFile data 0)).
    { destruct data as [|x data].
      - inversion E2. subst. exact G1.
      - apply do_call_ok_inv in E2. cbn [apply_call] in E2. rewrite G1 in E2.
        inversion E2 as [S2]. exact (fget_upd_same _ _ _). }
    cbn [apply_call] in E3. rewrite G2 in E3. inversion E3 as [S3]. cbn [fdata] in S3.
    assert (G3 : fget (wfs w3) tmp = Some (mkFile data (length data))).
    { rewrite <- S3. exact (fget_upd_same _ _ _). }
    cbn [apply_call] in E4. rewrite G3 in E4. destruct (parent_ok (wfs w3) t); inversion E4 as [S4].
    change (fget (ren (wfs w3) tmp t (mkFile data (length data))) t = Some (mkFile data (length data))).
    now rewrite fget_ren, path_eqb_refl.
  Qed.

  Lemma open_front_ok_inv : forall w u w1, open_front w = (Ok u, w1) -> gate_ready (wfs w1).
  Proof.
    intros w u w1. unfold open_front, bind.
    destruct (mkdir_p [s_staging] w) as [[u1|e] wa] eqn:E1; [|discriminate].
    destruct (mkdir_p [s_cas] wa) as [[u2|e] wb] eqn:E2; [|discriminate].
    destruct (do_call (CCreate PLock) wb) as [[u3|e] wc] eqn:E3; [|discriminate].
    intros X. inversion X. subst wc.
    pose proof (mkdir_p_ok_inv _ _ _ _ E1) as D1. pose proof (mkdir_p_ok_inv _ _ _ _ E2) as D2.
    pose proof (pres_mkdir_p (fun s => has_dir s [s_staging] = true)
                  (fun d => has_dir_keeps _ _) [s_cas] wa D1) as D1b.
    rewrite E2 in D1b. cbn [snd] in D1b.
    apply do_call_ok_inv in E3. cbn [apply_call parent_ok parent_dir] in E3. inversion E3 as [S3].
    split; [exact D1b|]. split; [exact D2|]. exact (fget_upd_same _ _ _).
  Qed.

  Lemma pres_open_front_settings : forall o, Pres (fun s => fget s PSettings = o) open_front.
  Proof.
    intros o. unfold open_front.
    pose proof (pres_mkdir_p (fun s => fget s PSettings = o)
                  (fun d => avoids_keeps PSettings o (CMkdir d) eq_refl)) as X.
    pres ltac:(apply avoids_keeps; reflexivity).
  Qed.

  Section PresOpen.
    Variable P : fs -> Prop.

    Lemma pres_settings_gate : (forall c, gate_call c = true -> call_keeps P c) ->
      Pres P (settings_gate cfg).
    Proof.
      intros K. unfold settings_gate.
      pose proof (pres_pre_create_all P (fun d => K (CMkdir d) eq_refl)) as X1.
      pose proof (fun data => pres_atomic_write P PSettings PSettingsTmp data
                                (K (CCreate PSettingsTmp) eq_refl)
                                (fun b => K (CAppend PSettingsTmp b) eq_refl)
                                (K (CSync PSettingsTmp) eq_refl)
                                (K (CRename PSettingsTmp PSettings) eq_refl)) as X2.
      pres ltac:(apply K; reflexivity).
    Qed.

    Lemma pres_open_load : (forall c, load_call c = true -> call_keeps P c) ->
      forall pre, Pres P (open_load H cfg pre).
    Proof.
      intros K pre. unfold open_load. pose proof (pres_index_load H cfg P K) as X.
      pres ltac:(apply K; reflexivity).
    Qed.
  End PresOpen.

  (* a successful open, taken apart *)
  Lemma open_ok_inv : forall w m os w',
    open_with_recover H cfg w = (Ok (m, os), w') ->
    exists w1 pre w2, open_front w = (Ok tt, w1) /\ settings_gate cfg w1 = (Ok pre, w2) /\
                      open_load H cfg pre w2 = (Ok (m, os), w').
  Proof.
    intros w m os w'. rewrite open_with_recover_factor. unfold bind at 1.
    destruct (open_front w) as [[[]|e] w1] eqn:E1; [|discriminate]. unfold open_tail, bind at 1.
    destruct (settings_gate cfg w1) as [[pre|e] w2] eqn:E2; [|discriminate].
    intros X. exists w1, pre, w2. split; [reflexivity|]. split; [exact E2|exact X].
  Qed.

  Lemma settings_gate_ok_inv : forall w1 pre w2, settings_gate cfg w1 = (Ok pre, w2) ->
    (exists f, fget (wfs w1) PSettings = Some f /\ w2 = w1 /\
               dec_settings (fdata f) = Some (CURRENT_DB_VERSION, pre, c_n cfg)) \/
    (fget (wfs w1) PSettings = None /\ pre = c_pre cfg /\
     fget (wfs w2) PSettings =
       Some (mkFile (enc_settings CURRENT_DB_VERSION (c_pre cfg) (c_n cfg))
                    (length (enc_settings CURRENT_DB_VERSION (c_pre cfg) (c_n cfg))))).
  Proof.
    intros w1 pre w2. unfold settings_gate. unfold bind at 1, read_file at 1.
    destruct (fget (wfs w1) PSettings) as [f|].
    - destruct (dec_settings (fdata f)) as [[[v p] n]|] eqn:D; [|discriminate].
      destruct (v =? CURRENT_DB_VERSION) eqn:Ev; [|discriminate].
      destruct (n =? c_n cfg) eqn:En; [|discriminate]. cbn [negb].
      intros X. inversion X. subst. apply N.eqb_eq in Ev, En. subst.
      left. exists f. auto.
    - unfold bind.
      destruct ((if c_pre cfg then pre_create_all else ret (Ok tt)) w1) as [[u|e] wa]; [|discriminate].
      destruct (atomic_write PSettings PSettingsTmp _ wa) as [[u2|e] wb] eqn:E; [|discriminate].
      intros X. inversion X. subst. right. split; [reflexivity|]. split; [reflexivity|].
      exact (atomic_write_ok_inv _ _ _ _ _ _ E).
  Qed.

  (* every successful open leaves a directory that is ready for the gate *)
  Theorem open_ok_gate_ready : forall w m os w',
    open_with_recover H cfg w = (Ok (m, os), w') -> gate_ready (wfs w').
  Proof.
    intros w m os w' E. destruct (open_ok_inv _ _ _ _ E) as (w1 & pre & w2 & E1 & E2 & E3).
    destruct (open_front_ok_inv _ _ _ E1) as (D1 & D2 & L).
    assert (T : forall (P : fs -> Prop), (forall c, gate_call c = true -> call_keeps P c) ->
                (forall c, load_call c = true -> call_keeps P c) -> P (wfs w1) -> P (wfs w')).
    { intros P K1 K2 X. pose proof (pres_settings_gate P K1 w1 X) as Y. rewrite E2 in Y.
      pose proof (pres_open_load P K2 pre w2 Y) as Z. now rewrite E3 in Z. }
    split; [|split].
    - apply (T (fun s => has_dir s [s_staging] = true)); auto using has_dir_keeps.
    - apply (T (fun s => has_dir s [s_cas] = true)); auto using has_dir_keeps.
    - apply (T (fun s => fget s PLock = Some (mkFile [] 0))); [| |exact L]; intros c Kc;
        apply avoids_keeps; [apply gate_call_avoids|apply load_call_avoids]; auto; exact I.
  Qed.

  (* ... and a settings file that agrees with the configuration and with the handle: this is the
     converse of the gate.  (c_n cfg < 2^64 is needed only for first-time creation, where the
     number is stored in 8 bytes) *)
  Theorem open_ok_settings_agree : forall w m os w', c_n cfg < 2 ^ 64 ->
    open_with_recover H cfg w = (Ok (m, os), w') ->
    exists f, fget (wfs w') PSettings = Some f /\
              dec_settings (fdata f) = Some (CURRENT_DB_VERSION, mpre m, c_n cfg).
  Proof.
    intros w m os w' Nb E. destruct (open_ok_inv _ _ _ _ E) as (w1 & pre & w2 & E1 & E2 & E3).
    rewrite (open_load_mpre _ _ _ _ _ E3).
    assert (T : forall f, fget (wfs w2) PSettings = Some f -> fget (wfs w') PSettings = Some f).
    { intros f X.
      pose proof (pres_open_load (fun s => fget s PSettings = Some f)
                    (fun c Kc => avoids_keeps _ _ c (load_call_avoids PSettings c I Kc)) pre w2 X) as Z.
      now rewrite E3 in Z. }
    destruct (settings_gate_ok_inv _ _ _ E2) as [(f & G & -> & D)|(G & -> & G2)].
    - exists f. split; [exact (T f G)|exact D].
    - eexists. split; [exact (T _ G2)|]. cbn [fdata]. apply settings_roundtrip; [|exact Nb].
      unfold CURRENT_DB_VERSION. lia.
  Qed.

  (* J6 proper: first-time creation remembers the configured choice *)
  Theorem open_first_time_settings : forall w m os w',
    fget (wfs w) PSettings = None ->
    open_with_recover H cfg w = (Ok (m, os), w') ->
    mpre m = c_pre cfg /\
    exists f, fget (wfs w') PSettings = Some f /\
              fdata f = enc_settings CURRENT_DB_VERSION (c_pre cfg) (c_n cfg) /\
              (c_n cfg < 2 ^ 64 ->
               dec_settings (fdata f) = Some (CURRENT_DB_VERSION, c_pre cfg, c_n cfg)).
  Proof.
    intros w m os w' G0 E. destruct (open_ok_inv _ _ _ _ E) as (w1 & pre & w2 & E1 & E2 & E3).
    pose proof (pres_open_front_settings None w G0) as G1. rewrite E1 in G1. cbn [snd] in G1.
    rewrite (open_load_mpre _ _ _ _ _ E3).
    destruct (settings_gate_ok_inv _ _ _ E2) as [(f & G & _)|(_ & -> & G2)]; [congruence|].
    split; [reflexivity|].
    exists (mkFile (enc_settings CURRENT_DB_VERSION (c_pre cfg) (c_n cfg))
                   (length (enc_settings CURRENT_DB_VERSION (c_pre cfg) (c_n cfg)))).
    split; [|split; [reflexivity|]].
    - pose proof (pres_open_load (fun s => fget s PSettings = Some _)
                    (fun c Kc => avoids_keeps _ _ c (load_call_avoids PSettings c I Kc)) (c_pre cfg) w2 G2) as Z.
      rewrite E3 in Z. exact Z.
    - intros Nb. cbn [fdata]. apply settings_roundtrip; [|exact Nb]. unfold CURRENT_DB_VERSION. lia.
  Qed.
End Gate2.

(* ------------------------------------------------------------------ *)
(* the gate closes the loop: open, then reopen with another setting    *)
(* ------------------------------------------------------------------ *)
Section Reopen.
  Variable H : bytes -> bytes.
  Variables cfg cfg2 : config.

  Lemma resp_fault_free : forall {A} (k : M A) w, Resp k -> wfault w = None ->
    wfault (snd (k w)) = None.
  Proof. intros A k w R F. exact (proj1 (proj2 (proj2 (R w w (weq_refl w F))))). Qed.

  (* after ANY successful fault-free open with cfg, an open with a different num_ops_per_wal is
     rejected and leaves the filesystem exactly as the first open left it *)
  Theorem C19_reopen_wrong_n : forall w m os w1,
    wfault w = None -> c_n cfg < 2 ^ 64 ->
    open_with_recover H cfg w = (Ok (m, os), w1) -> c_n cfg2 <> c_n cfg ->
    open_with_recover H cfg2 w1 = (Err ESettingsN, w_locked w1) /\
    open_store H cfg2 w1 = (Err ESettingsN, w_locked w1) /\
    wfs (w_locked w1) = wfs w1.
  Proof.
    intros w m os w1 F Nb E Nn.
    pose proof (resp_fault_free _ w (resp_open_with_recover H cfg) F) as F1.
    rewrite E in F1. cbn [snd] in F1.
    pose proof (open_ok_gate_ready H cfg _ _ _ _ E) as G.
    destruct (open_ok_settings_agree H cfg _ _ _ _ Nb E) as (f & Gf & D).
    destruct (rejected_exact H cfg2 w1 f ESettingsN G F1 Gf) as [X Y].
    { left. exists (mpre m), (c_n cfg). auto. }
    auto.
  Qed.

  (* ... while an open with the same num_ops_per_wal passes the gate and inherits the stored
     pre_create_cas_dirs flag of the first open, whatever cfg2 says *)
  Theorem C19_reopen_same_n : forall w m os w1 m2 os2 w2,
    wfault w = None -> c_n cfg < 2 ^ 64 ->
    open_with_recover H cfg w = (Ok (m, os), w1) -> c_n cfg2 = c_n cfg ->
    open_with_recover H cfg2 w1 = (Ok (m2, os2), w2) -> mpre m2 = mpre m.
  Proof.
    intros w m os w1 m2 os2 w2 F Nb E En E2.
    pose proof (resp_fault_free _ w (resp_open_with_recover H cfg) F) as F1.
    rewrite E in F1. cbn [snd] in F1.
    pose proof (open_ok_gate_ready H cfg _ _ _ _ E) as G.
    destruct (open_ok_settings_agree H cfg _ _ _ _ Nb E) as (f & Gf & D).
    rewrite <- En in D.
    exact (C19_same_n_opens_settings H cfg2 (wfs w1) w1 f (mpre m) eq_refl F1 G Gf D _ _ _ E2).
  Qed.
End Reopen.

(* first-time creation in an empty directory (extends open_fresh) *)
Theorem open_fresh_settings : forall (H : bytes -> bytes) (cfg : config),
  0 < c_n cfg -> c_pre cfg = false ->
  exists m os w', open_with_recover H cfg (init_world empty_fs None) = (Ok (m, os), w') /\
    wfault w' = None /\ gate_ready (wfs w') /\ mpre m = false /\
    exists f, fget (wfs w') PSettings = Some f /\
              fdata f = enc_settings CURRENT_DB_VERSION false (c_n cfg) /\
              (c_n cfg < 2 ^ 64 -> dec_settings (fdata f) = Some (CURRENT_DB_VERSION, false, c_n cfg)).
Proof.
  intros H cfg Np Pre.
  destruct (open_fresh H cfg Np Pre) as (m & os & w' & E & F & _).
  exists m, os, w'. split; [exact E|]. split; [exact F|].
  split; [exact (open_ok_gate_ready H cfg _ _ _ _ E)|].
  destruct (open_first_time_settings H cfg (init_world empty_fs None) _ _ _ eq_refl E) as (Mp & f & G & D1 & D2).
  rewrite Pre in *. split; [exact Mp|]. exists f. auto.
Qed.

Print Assumptions set_path_same.
Print Assumptions settings_roundtrip.
Print Assumptions open_gate_ready.
Print Assumptions C19_wrong_n.
Print Assumptions C19_wrong_n_open_store.
Print Assumptions C19_wrong_version.
Print Assumptions C19_wrong_version_open_store.
Print Assumptions C19_unparsable.
Print Assumptions C19_unparsable_open_store.
Print Assumptions C19_trace.
Print Assumptions C19_rejected_open_invisible.
Print Assumptions C19_then_correct_open.
Print Assumptions C19_then_correct_open_store.
Print Assumptions C19_then_any_history.
Print Assumptions C19_same_n_passes_gate.
Print Assumptions C19_same_n_opens_settings.
Print Assumptions C19_same_n_opens_settings_open_store.
Print Assumptions open_ok_gate_ready.
Print Assumptions open_ok_settings_agree.
Print Assumptions open_first_time_settings.
Print Assumptions C19_reopen_wrong_n.
Print Assumptions C19_reopen_same_n.
Print Assumptions open_fresh_settings.

(* ------------------------------------------------------------------ *)
(* J7. computed examples (toy hash of StoreHist.v)                     *)
(* ------------------------------------------------------------------ *)
Definition gate_cfg2 : config := toy_cfg.                                        (* n = 2 *)
Definition gate_cfg3 : config := mkConfig KBytes 3 true false false false false. (* n = 3 *)
Definition gate_cfg2_pre : config := mkConfig KBytes 2 true true false false false. (* n = 2, pre *)

(* create with n = 2, put one key, close *)
Definition gate_w1 : world :=
  snd (run_hist toyH empty_fs None [OpOpen gate_cfg2 false; OpPut toy_k1 [toy_c1]; OpClose]).
Definition gate_s1 : fs := wfs gate_w1.

Example gate_ex_created :
  fst (run_hist toyH empty_fs None [OpOpen gate_cfg2 false; OpPut toy_k1 [toy_c1]; OpClose])
  = ([OutOpened None; OutUnit; OutUnit], None).
Proof. vm_compute. reflexivity. Qed.

Example gate_ex_ready : gate_ready gate_s1.
Proof. vm_compute. repeat split. Qed.

Example gate_ex_settings :
  option_map (fun f => dec_settings (fdata f)) (fget gate_s1 PSettings)
  = Some (Some (CURRENT_DB_VERSION, false, 2)).
Proof. vm_compute. reflexivity. Qed.

(* open with n = 3: rejected, the filesystem equals the one before, one recorded call *)
Example gate_ex_wrong_n :
  let r := run_hist toyH gate_s1 None [OpOpen gate_cfg3 false] in
  fst r = ([OutErr ESettingsN], None) /\ wfs (snd r) = gate_s1 /\
  wtrace (snd r) = [TCall (CCreate PLock)].
Proof. vm_compute. repeat split. Qed.

Example gate_ex_wrong_n_open_store :
  let r := run_hist toyH gate_s1 None [OpOpen gate_cfg3 true] in
  fst r = ([OutErr ESettingsN], None) /\ wfs (snd r) = gate_s1 /\
  wtrace (snd r) = [TCall (CCreate PLock)].
Proof. vm_compute. repeat split. Qed.

(* open with n = 2: accepted, and get returns the value *)
Example gate_ex_right_n :
  fst (fst (run_hist toyH gate_s1 None [OpOpen gate_cfg2 false; OpGet toy_k1]))
  = [OutOpened None; OutBytes (Some toy_c1)].
Proof. vm_compute. reflexivity. Qed.

(* a rejected open followed by a correct one *)
Example gate_ex_rejected_then_right :
  fst (fst (run_hist toyH gate_s1 None [OpOpen gate_cfg3 false; OpOpen gate_cfg2 true; OpGet toy_k1]))
  = [OutErr ESettingsN; OutOpened None; OutBytes (Some toy_c1)].
Proof. vm_compute. reflexivity. Qed.

(* pre_create_cas_dirs comes from the stored settings (false), not from the configuration *)
Example gate_ex_stored_pre :
  match run_hist toyH gate_s1 None [OpOpen gate_cfg2_pre false] with
  | (_, Some hd, w) => mpre (h_mem hd) = false /\ dirs (wfs w) = dirs gate_s1
  | _ => False
  end.
Proof. vm_compute. split; reflexivity. Qed.

(* a damaged settings file / another format version *)
Definition gate_s1_with (data : bytes) : fs :=
  upd gate_s1 PSettings (mkFile data (length data)).

Example gate_ex_wrong_version :
  let s := gate_s1_with (enc_settings 3 false 2) in
  let r := run_hist toyH s None [OpOpen gate_cfg2 false] in
  fst r = ([OutErr ESettingsVersion], None) /\ wfs (snd r) = s.
Proof. vm_compute. split; reflexivity. Qed.

Example gate_ex_unparsable :
  let s := gate_s1_with [1; 2; 3] in
  let r := run_hist toyH s None [OpOpen gate_cfg2 false] in
  fst r = ([OutErr ESettingsParse], None) /\ wfs (snd r) = s.
Proof. vm_compute. split; reflexivity. Qed.

(* the general theorem applies to the computed instance *)
Example gate_ex_theorem_instance :
  exists w', open_with_recover toyH gate_cfg3 (init_world gate_s1 None) = (Err ESettingsN, w') /\
             wfs w' = gate_s1 /\ wfault w' = None.
Proof.
  destruct (fget gate_s1 PSettings) as [f|] eqn:E; [|vm_compute in E; discriminate].
  apply (C19_wrong_n toyH gate_cfg3 gate_s1 (init_world gate_s1 None) f eq_refl eq_refl
           gate_ex_ready E false 2).
  - vm_compute in E. inversion E. vm_compute. reflexivity.
  - discriminate.
Qed.

Print Assumptions gate_ex_wrong_n.
Print Assumptions gate_ex_right_n.
Print Assumptions gate_ex_theorem_instance.
